import Litep2pVerif.Model.Mss.WebRtc
import Litep2pVerif.Proofs.Mss.Negotiate
/-! The message-based negotiation: safety lemmas, the payload format (`wFrame`) with its
encode/decode lemmas, and the induction over the fallback list behind `webrtc_agree`. -/
namespace Litep2pVerif.Mss

theorem wListenFinish_accepted (sup : List Bytes) (q : Bytes) (hdr : Bool) (rest : Bytes) (p m : Bytes)
    (h : wListenFinish sup q hdr rest = .ok (.accepted p m)) : p ∈ sup ∧ p = q := by
  unfold wListenFinish at h
  repeat' split at h
  all_goals first | (cases h) | skip
  all_goals simp_all

theorem wListen_accepted (sup : List Bytes) (payload : Bytes) (hr : Bool) (p m : Bytes)
    (h : wListen sup payload hr = .ok (.accepted p m)) : p ∈ sup := by
  unfold wListen at h
  repeat' split at h
  all_goals first | (cases h) | skip
  all_goals first | exact (wListenFinish_accepted _ _ _ _ _ _ h).1 | simp_all

theorem wRegisterLoop_succeeded :
    ∀ (fuel : Nat) (d : WDialer) (payload : Bytes) (q : Bytes),
      (wRegisterLoop fuel d payload).2 = .ok (.succeeded q) → q = d.protocol := by
  intro fuel
  induction fuel with
  | zero => intro d payload q h; simp [wRegisterLoop] at h
  | succ f ih =>
    intro d payload q h
    rw [wRegisterLoop] at h
    repeat' split at h
    all_goals first | (have := ih _ _ _ h; simpa using this) | simp_all

/-! ### The payload format: `uvi(len) ++ message` per message -/

/-- One message the way `webrtc_encode_multistream_message` puts it into a payload. -/
def wFrame (m : Msg) : Bytes := uviEncode m.encodedLen ++ m.encode

/-- The header frame, `uvi(19) ++ "/multistream/1.0.0\n"`. -/
abbrev wHdr : Bytes := wFrame .header

theorem wHdr_length : wHdr.length = headerFrameLen := by decide

theorem wHdr_ne_nil : wHdr ≠ [] := by decide

theorem encodedLen_protocol (p : Bytes) : (Msg.protocol p).encodedLen = (Msg.protocol p).encode.length := by
  simp [Msg.encodedLen, Msg.encode]

theorem uviEncode_length_le_two (n : Nat) (h : n < 16384) : (uviEncode n).length ≤ 2 := by
  by_cases h1 : n < 128
  · rw [uviEncode_lt n h1]; simp
  · rw [uviEncode_two n (by omega) h]; simp

theorem uviEncode_length_two (n : Nat) (h1 : 128 ≤ n) (h : n < 16384) : (uviEncode n).length = 2 := by
  rw [uviEncode_two n h1 h]; simp

theorem wFrame_ne_nil (m : Msg) : wFrame m ≠ [] := by
  have := uviEncode_ne_nil m.encodedLen
  simp [wFrame, this]

/-- `webrtc_encode_multistream_message(Protocol(p), false)` succeeds iff the frame fits: names up to
`MAX_FRAME_SIZE − 3` bytes. -/
theorem webrtcEncode_proto_false (p : Bytes) (h : p.length + 3 ≤ maxFrameSize) :
    webrtcEncode (.protocol p) false = some (wFrame (.protocol p)) := by
  rw [maxFrameSize_eq] at h
  have h2 := uviEncode_length_le_two (p.length + 1) (by omega)
  have : ¬ ((uviEncode (p.length + 1)).length + (p.length + 1) > maxFrameSize) := by
    rw [maxFrameSize_eq]; omega
  simp [webrtcEncode, wFrame, Msg.encodedLen, this]

/-- `webrtc_encode_multistream_message(Protocol(p), true)` succeeds for names up to
`MAX_FRAME_SIZE − 23` bytes (20 bytes of header frame, 2 of length prefix, 1 line feed). -/
theorem webrtcEncode_proto_true (p : Bytes) (h : p.length + 23 ≤ maxFrameSize) :
    webrtcEncode (.protocol p) true = some (wHdr ++ wFrame (.protocol p)) := by
  rw [maxFrameSize_eq] at h
  have h2 := uviEncode_length_le_two (p.length + 1) (by omega)
  have h19 : uviEncode msgMultistream.length = [19] := by decide
  have hl : msgMultistream.length = 19 := by decide
  have : ¬ ((uviEncode msgMultistream.length).length + msgMultistream.length +
      (uviEncode (p.length + 1)).length + (p.length + 1) > maxFrameSize) := by
    rw [maxFrameSize_eq, h19, hl]; simp; omega
  simp [webrtcEncode, wFrame, Msg.encodedLen, this, Msg.encode]

theorem uviEncode_length_ge_two (n : Nat) (h : 128 ≤ n) : 2 ≤ (uviEncode n).length := by
  rw [uviEncode_ge n (by omega)]
  have := uviEncode_length_pos (n / 128)
  simp; omega

/-- The bound of `webrtcEncode_proto_true` is exact: a longer name makes `propose` fail. -/
theorem webrtcEncode_proto_true_too_long (p : Bytes) (h : maxFrameSize < p.length + 23) :
    webrtcEncode (.protocol p) true = none := by
  rw [maxFrameSize_eq] at h
  have h2 := uviEncode_length_ge_two (p.length + 1) (by omega)
  have h19 : uviEncode msgMultistream.length = [19] := by decide
  have hl : msgMultistream.length = 19 := by decide
  have : (uviEncode msgMultistream.length).length + msgMultistream.length +
      (uviEncode (p.length + 1)).length + (p.length + 1) > maxFrameSize := by
    rw [maxFrameSize_eq, h19, hl]; simp; omega
  simp [webrtcEncode, Msg.encodedLen, this]

theorem webrtcEncode_na (hdr : Bool) :
    webrtcEncode .notAvailable hdr = some ((if hdr then wHdr else []) ++ wFrame .notAvailable) := by
  cases hdr <;> decide

/-- `decode_multistream_message` inverts the payload format on well-formed messages. -/
theorem decodeMultistreamMessage_frame (m : Msg) (hwf : m.WellFormed)
    (hlen : m.encodedLen = m.encode.length) (h64 : m.encode.length < 2 ^ 64) (rest : Bytes) :
    decodeMultistreamMessage (wFrame m ++ rest) = .ok (m, rest) := by
  have hdec : uviDecodeUsize (wFrame m ++ rest) = .ok (m.encode.length, m.encode ++ rest) := by
    have := uviDecodeUsize_encode m.encode.length (m.encode ++ rest) h64
    simpa [wFrame, hlen, List.append_assoc] using this
  unfold decodeMultistreamMessage
  rw [hdec]
  simp [decode_encode m hwf]

theorem protocol_lt (p : Bytes) (h : p.length + 3 ≤ maxFrameSize) : (Msg.protocol p).encode.length < 2 ^ 64 := by
  rw [maxFrameSize_eq] at h
  simp [Msg.encode]; omega

theorem decodeMsg_header (rest : Bytes) : decodeMultistreamMessage (wHdr ++ rest) = .ok (.header, rest) :=
  decodeMultistreamMessage_frame .header trivial (by decide) (by decide) rest

theorem decodeMsg_na (rest : Bytes) :
    decodeMultistreamMessage (wFrame .notAvailable ++ rest) = .ok (.notAvailable, rest) :=
  decodeMultistreamMessage_frame .notAvailable trivial (by decide) (by decide) rest

theorem decodeMsg_proto (p : Bytes) (hv : ValidName p) (h : p.length + 3 ≤ maxFrameSize) (rest : Bytes) :
    decodeMultistreamMessage (wFrame (.protocol p) ++ rest) = .ok (.protocol p, rest) :=
  decodeMultistreamMessage_frame (.protocol p) hv (encodedLen_protocol p) (protocol_lt p h) rest

/-! ### `register_response` on well-formed frames -/

/-- The common prefix of one loop iteration on a payload that starts with a frame. -/
theorem wRegisterLoop_frame (fuel : Nat) (d : WDialer) (m : Msg) (hwf : m.WellFormed)
    (hlen : m.encodedLen = m.encode.length) (h64 : m.encode.length < 2 ^ 64) (rest : Bytes) :
    wRegisterLoop (fuel + 1) d (wFrame m ++ rest) =
      match d.state, m with
      | .waitingResponse, .header => wRegisterLoop fuel { d with state := .waitingProtocol } rest
      | .waitingResponse, _ => (d, .error .failed)
      | .waitingProtocol, .notAvailable => (d, .ok .rejected)
      | .waitingProtocol, .protocol p =>
        if p = protoMultistream then (d, .error .stateMismatch)
        else if d.protocol = p then (d, .ok (.succeeded d.protocol))
        else (d, .error .failed)
      | .waitingProtocol, .listProtocols => (d, .error .invalidMessage)
      | _, _ => (d, .error .stateMismatch) := by
  have hdec : uviDecodeUsize (wFrame m ++ rest) = .ok (m.encode.length, m.encode ++ rest) := by
    have := uviDecodeUsize_encode m.encode.length (m.encode ++ rest) h64
    simpa [wFrame, hlen, List.append_assoc] using this
  have hne : wFrame m ++ rest ≠ [] := by simp [wFrame_ne_nil]
  rw [wRegisterLoop, if_neg hne, hdec]
  simp only [List.length_append, List.take_left', List.drop_left', decode_encode m hwf]
  rw [if_neg (by omega)]
  cases hs : d.state <;> cases m <;> simp

/-- A name the message-based dialer can propose as a fallback (no header in front): valid and at
most `MAX_FRAME_SIZE − 3` bytes. -/
def WProposable (p : Bytes) : Prop := ValidName p ∧ p.length + 3 ≤ maxFrameSize

instance (p : Bytes) : Decidable (WProposable p) := by unfold WProposable; infer_instance

theorem wRegister_nil_wp (d : WDialer) (h : d.state = .waitingProtocol) (fuel : Nat) :
    wRegisterLoop (fuel + 1) d [] = (d, .ok .notReady) := by
  simp [wRegisterLoop, h]

/-- The dialer, waiting for the confirmation of `d.protocol`, gets exactly that confirmation. -/
theorem wRegister_confirm (d : WDialer) (hs : d.state = .waitingProtocol) (hp : WProposable d.protocol) :
    wRegister d (wFrame (.protocol d.protocol)) = (d, .ok (.succeeded d.protocol)) := by
  have := wRegisterLoop_frame (wFrame (.protocol d.protocol)).length d (.protocol d.protocol) hp.1
    (encodedLen_protocol _) (protocol_lt _ hp.2) []
  rw [List.append_nil] at this
  rw [wRegister, this, hs]
  simp [hp.1.2.2]

theorem wRegister_na (d : WDialer) (hs : d.state = .waitingProtocol) :
    wRegister d (wFrame .notAvailable) = (d, .ok .rejected) := by
  have := wRegisterLoop_frame (wFrame .notAvailable).length d .notAvailable trivial (by decide) (by decide) []
  rw [List.append_nil] at this
  rw [wRegister, this, hs]

/-- The header frame alone: `NotReady`, and the dialer now waits for the protocol. -/
theorem wRegister_header (d : WDialer) (hs : d.state = .waitingResponse) :
    wRegister d wHdr = ({ d with state := .waitingProtocol }, .ok .notReady) := by
  have := wRegisterLoop_frame wHdr.length d .header trivial (by decide) (by decide) []
  rw [List.append_nil] at this
  rw [wRegister, this, hs]
  have hl : wHdr.length = 19 + 1 := by decide
  simp only [hl]
  exact wRegister_nil_wp _ rfl _

/-- Header and second message in one payload: as if the second message came alone afterwards. -/
theorem wRegister_header_then (d : WDialer) (hs : d.state = .waitingResponse) (m : Msg)
    (hm : m = .notAvailable ∨ ∃ p, m = .protocol p ∧ WProposable p) :
    wRegister d (wHdr ++ wFrame m) = wRegister { d with state := .waitingProtocol } (wFrame m) := by
  have h1 := wRegisterLoop_frame (wHdr ++ wFrame m).length d .header trivial (by decide) (by decide) (wFrame m)
  rw [wRegister, h1, hs]
  simp only
  have hwf : m.WellFormed ∧ m.encodedLen = m.encode.length ∧ m.encode.length < 2 ^ 64 := by
    rcases hm with rfl | ⟨p, rfl, hp⟩
    · exact ⟨trivial, by decide, by decide⟩
    · exact ⟨hp.1, encodedLen_protocol p, protocol_lt p hp.2⟩
  obtain ⟨f1, hf1⟩ : ∃ f, (wHdr ++ wFrame m).length = f + 1 := ⟨(wHdr ++ wFrame m).length - 1, by
    have : 0 < (wHdr ++ wFrame m).length := by
      rw [List.length_append, wHdr_length]; simp [headerFrameLen]; omega
    omega⟩
  obtain ⟨f2, hf2⟩ : ∃ f, (wFrame m).length + 1 = f + 1 := ⟨_, rfl⟩
  have a := wRegisterLoop_frame f1 { d with state := .waitingProtocol } m hwf.1 hwf.2.1 hwf.2.2 []
  have b := wRegisterLoop_frame f2 { d with state := .waitingProtocol } m hwf.1 hwf.2.1 hwf.2.2 []
  rw [List.append_nil] at a b
  rw [wRegister, hf1, hf2, a, b]
  rcases hm with rfl | ⟨p, rfl, hp⟩ <;> simp

/-! ### `webrtc_listener_negotiate` on well-formed payloads -/

theorem wListen_header_only (sup : List Bytes) : wListen sup wHdr false = .ok (.pendingProtocol wHdr) := by
  have := decodeMsg_header []
  rw [List.append_nil] at this
  simp [wListen, this]

theorem wListenFinish_nil (sup : List Bytes) (p : Bytes) (hdr : Bool)
    (henc : webrtcEncode (.protocol p) hdr = some ((if hdr then wHdr else []) ++ wFrame (.protocol p))) :
    wListenFinish sup p hdr [] =
      if p ∈ sup then .ok (.accepted p ((if hdr then wHdr else []) ++ wFrame (.protocol p)))
      else .ok (.rejected ((if hdr then wHdr else []) ++ wFrame .notAvailable)) := by
  simp only [wListenFinish, ne_eq, not_true_eq_false, if_false, henc, webrtcEncode_na]

/-- Header and proposal in one payload. -/
theorem wListen_header_proto (sup : List Bytes) (p : Bytes) (hv : ValidName p) (h : p.length + 23 ≤ maxFrameSize) :
    wListen sup (wHdr ++ wFrame (.protocol p)) false =
      if p ∈ sup then .ok (.accepted p (wHdr ++ wFrame (.protocol p)))
      else .ok (.rejected (wHdr ++ wFrame .notAvailable)) := by
  have h1 := decodeMsg_header (wFrame (.protocol p))
  have h2 := decodeMsg_proto p hv (by omega) []
  rw [List.append_nil] at h2
  have := wListenFinish_nil sup p true (by simpa using webrtcEncode_proto_true p h)
  simp only [wListen, h1, h2, wFrame_ne_nil, if_false, this]
  simp

/-- A proposal alone, after the header was exchanged. -/
theorem wListen_proto (sup : List Bytes) (p : Bytes) (hp : WProposable p) :
    wListen sup (wFrame (.protocol p)) true =
      if p ∈ sup then .ok (.accepted p (wFrame (.protocol p))) else .ok (.rejected (wFrame .notAvailable)) := by
  have h2 := decodeMsg_proto p hp.1 hp.2 []
  rw [List.append_nil] at h2
  have := wListenFinish_nil sup p false (by simpa using webrtcEncode_proto_false p hp.2)
  simp only [wListen, h2, this]
  simp

/-! ### `propose_next_fallback` and the response loop of the pair -/

theorem wProposeNext_nil (d : WDialer) (h : d.fallbackNames = []) : wProposeNext d = (d, .ok none) := by
  simp [wProposeNext, h]

/-- The fallbacks are tried in the order given to `propose` (the list is stored reversed and popped
from the end). -/
theorem wProposeNext_cons (d : WDialer) (r : Bytes) (rest : List Bytes) (h : d.fallbackNames = (r :: rest).reverse)
    (hr : WProposable r) :
    wProposeNext d = ({ d with fallbackNames := rest.reverse, protocol := r }, .ok (some (wFrame (.protocol r)))) := by
  have h1 : d.fallbackNames.getLast? = some r := by rw [h]; simp
  have h2 : d.fallbackNames.dropLast = rest.reverse := by rw [h]; simp
  have h3 : protocolTryFrom r = .ok r := by simp [protocolTryFrom, hr.1.1]
  simp only [wProposeNext, h1, h2, h3, webrtcEncode_proto_false r hr.2]

theorem wFeed_confirm (lres : Option (Except WErr Bytes)) (d : WDialer) (q : List Bytes)
    (hs : d.state = .waitingProtocol) (hp : WProposable d.protocol) :
    wFeed lres [wFrame (.protocol d.protocol)] d q = .inl ⟨.succeeded d.protocol, lres⟩ := by
  simp only [wFeed, wRegister_confirm d hs hp]

theorem wFeed_na_last (lres : Option (Except WErr Bytes)) (d : WDialer) (q : List Bytes)
    (hs : d.state = .waitingProtocol) (hf : d.fallbackNames = []) :
    wFeed lres [wFrame .notAvailable] d q = .inl ⟨.failed, lres⟩ := by
  simp only [wFeed, wRegister_na d hs, wProposeNext_nil d hf]

theorem wFeed_na_next (lres : Option (Except WErr Bytes)) (d : WDialer) (q : List Bytes) (r : Bytes) (rest : List Bytes)
    (hs : d.state = .waitingProtocol) (hf : d.fallbackNames = (r :: rest).reverse) (hr : WProposable r) :
    wFeed lres [wFrame .notAvailable] d q =
      .inr ({ d with fallbackNames := rest.reverse, protocol := r }, q ++ [wFrame (.protocol r)]) := by
  simp only [wFeed, wRegister_na d hs, wProposeNext_cons d r rest hf hr]

/-- The listener's first response (header + answer) as one payload or as two: the dialer ends up
where the answer alone takes it from `WaitingProtocol`. -/
theorem wFeed_header_parts (lres : Option (Except WErr Bytes)) (d : WDialer) (q : List Bytes) (m : Msg)
    (hs : d.state = .waitingResponse) (hm : m = .notAvailable ∨ ∃ p, m = .protocol p ∧ WProposable p)
    (parts : List Bytes) (hparts : parts = [wHdr ++ wFrame m] ∨ parts = [wHdr, wFrame m]) :
    wFeed lres parts d q = wFeed lres [wFrame m] { d with state := .waitingProtocol } q := by
  rcases hparts with rfl | rfl
  · simp only [wFeed, wRegister_header_then d hs m hm]
  · simp only [wFeed, wRegister_header d hs]

/-- What the pair must end with: agreement on `p`, or failure on the dialer side with the listener
never having accepted. -/
def wAgreed : Option Bytes → WPairResult
  | some p => ⟨.succeeded p, some (.ok p)⟩
  | none => ⟨.failed, none⟩

/-- **Induction over the fallback list.** The header has been exchanged, the dialer waits for the
answer to its proposal `p` (in flight as the only payload) and still has `rest` to try. -/
theorem wPairLoop_rounds (sup : List Bytes) (split : Nat) :
    ∀ (rest : List Bytes) (p : Bytes) (fuel round : Nat) (d : WDialer),
      rest.length < fuel → d.state = .waitingProtocol → d.protocol = p → d.fallbackNames = rest.reverse →
      (∀ x ∈ p :: rest, WProposable x) →
      wPairLoop sup split fuel round d [wFrame (.protocol p)] true = wAgreed (firstCommon (p :: rest) sup) := by
  intro rest
  induction rest with
  | nil =>
    intro p fuel round d hfuel hs hp hf hall
    obtain ⟨f, rfl⟩ : ∃ f, fuel = f + 1 := ⟨fuel - 1, by omega⟩
    have hpp : WProposable d.protocol := hp ▸ hall p (by simp)
    subst hp
    rw [wPairLoop, wListen_proto sup _ hpp, firstCommon_cons]
    by_cases hmem : d.protocol ∈ sup
    · simp [hmem, wFeed_confirm _ d [] hs hpp, wAgreed]
    · simp [hmem, wFeed_na_last _ d [] hs (by simpa using hf), wAgreed, firstCommon]
  | cons r rest ih =>
    intro p fuel round d hfuel hs hp hf hall
    obtain ⟨f, rfl⟩ : ∃ f, fuel = f + 1 := ⟨fuel - 1, by omega⟩
    have hpp : WProposable d.protocol := hp ▸ hall p (by simp)
    have hr : WProposable r := hall r (by simp)
    subst hp
    rw [wPairLoop, wListen_proto sup _ hpp, firstCommon_cons]
    by_cases hmem : d.protocol ∈ sup
    · simp [hmem, wFeed_confirm _ d [] hs hpp, wAgreed]
    · have := ih r f (round + 1) { d with fallbackNames := rest.reverse, protocol := r }
        (by simp at hfuel; omega) hs rfl rfl (fun x hx => hall x (List.mem_cons_of_mem _ hx))
      simp [hmem, wFeed_na_next _ d [] r rest hs hf hr, this]

theorem take_hdr (x : Bytes) : (wHdr ++ x).take headerFrameLen = wHdr := List.take_left' wHdr_length

theorem drop_hdr (x : Bytes) : (wHdr ++ x).drop headerFrameLen = x := List.drop_left' wHdr_length

theorem parts_cases (c : Prop) [Decidable c] (x : Bytes) :
    (if c then [(wHdr ++ x).take headerFrameLen, (wHdr ++ x).drop headerFrameLen] else [wHdr ++ x]) = [wHdr ++ x] ∨
    (if c then [(wHdr ++ x).take headerFrameLen, (wHdr ++ x).drop headerFrameLen] else [wHdr ++ x]) = [wHdr, x] := by
  by_cases h : c
  · right; rw [if_pos h, take_hdr, drop_hdr]
  · left; rw [if_neg h]

/-- A name the message-based dialer can propose first (with the header in front): valid and at most
`MAX_FRAME_SIZE − 23` bytes. -/
def WProposableMain (p : Bytes) : Prop := ValidName p ∧ p.length + 23 ≤ maxFrameSize

instance (p : Bytes) : Decidable (WProposableMain p) := by unfold WProposableMain; infer_instance

theorem WProposableMain.toFallback {p : Bytes} (h : WProposableMain p) : WProposable p := ⟨h.1, by have := h.2; omega⟩

theorem wPropose_ok (main : Bytes) (fallbacks : List Bytes) (h : WProposableMain main) :
    wPropose main fallbacks =
      .ok ({ protocol := main, fallbackNames := fallbacks.reverse, state := .waitingResponse },
        wHdr ++ wFrame (.protocol main)) := by
  have h3 : protocolTryFrom main = .ok main := by simp [protocolTryFrom, h.1.1]
  simp only [wPropose, h3, webrtcEncode_proto_true main h.2]

/-- The whole pair, for every grouping. -/
theorem wPair_agree (main : Bytes) (fallbacks sup : List Bytes) (split : Nat)
    (hmain : WProposableMain main) (hfb : ∀ f ∈ fallbacks, WProposable f) :
    wPair main fallbacks sup split = wAgreed (firstCommon (main :: fallbacks) sup) := by
  have hall : ∀ x ∈ main :: fallbacks, WProposable x := by
    intro x hx
    rcases List.mem_cons.mp hx with rfl | hx
    · exact hmain.toFallback
    · exact hfb x hx
  let d0 : WDialer := ⟨main, fallbacks.reverse, .waitingResponse⟩
  let d1 : WDialer := ⟨main, fallbacks.reverse, .waitingProtocol⟩
  have hd1 : { d0 with state := .waitingProtocol } = d1 := rfl
  rw [wPair, wPropose_ok main fallbacks hmain]
  simp only [take_hdr, drop_hdr]
  change (wPairLoop sup split (2 * fallbacks.length + 6) 0 d0 _ false) = _
  by_cases hsplit : split % 2 = 1
  · -- header and proposal travel separately
    rw [if_pos hsplit, show 2 * fallbacks.length + 6 = (2 * fallbacks.length + 5) + 1 by omega, wPairLoop,
      wListen_header_only]
    have hfeed : wFeed none [wHdr] d0 [wFrame (.protocol main)] = .inr (d1, [wFrame (.protocol main)]) := by
      simp only [wFeed, wRegister_header d0 rfl, hd1]
    simp only [Bool.false_eq_true, false_and, if_false, hfeed, Option.isSome_none]
    exact wPairLoop_rounds sup split fallbacks main _ _ d1 (by omega) rfl rfl rfl hall
  · rw [if_neg hsplit, show 2 * fallbacks.length + 6 = (2 * fallbacks.length + 5) + 1 by omega, wPairLoop,
      wListen_header_proto sup main hmain.1 hmain.2, firstCommon_cons]
    by_cases hmem : main ∈ sup
    · simp only [hmem, if_true]
      rcases parts_cases (true = true ∧ (wHdr ++ wFrame (.protocol main)).length > headerFrameLen ∧ 0 + 1 < 64 ∧
        split >>> (0 + 1) % 2 = 1) (wFrame (.protocol main)) with h | h
      all_goals
        simp only [Bool.not_false] at h ⊢
        rw [h, wFeed_header_parts _ d0 _ (.protocol main) rfl (Or.inr ⟨main, rfl, hmain.toFallback⟩) _ (by simp), hd1,
          wFeed_confirm _ d1 _ rfl hmain.toFallback]
        rfl
    · simp only [hmem, if_false]
      rcases parts_cases (true = true ∧ (wHdr ++ wFrame .notAvailable).length > headerFrameLen ∧ 0 + 1 < 64 ∧
        split >>> (0 + 1) % 2 = 1) (wFrame .notAvailable) with h | h
      all_goals
        simp only [Bool.not_false] at h ⊢
        rw [h, wFeed_header_parts _ d0 _ .notAvailable rfl (Or.inl rfl) _ (by simp), hd1]
        cases hfbs : fallbacks with
        | nil =>
          rw [wFeed_na_last _ d1 _ rfl (by simp [d1, hfbs])]
          simp [wAgreed, firstCommon]
        | cons r rest =>
          rw [wFeed_na_next _ d1 _ r rest rfl (by simp [d1, hfbs]) (hfb r (by simp [hfbs]))]
          simp only [Option.isSome_none, Bool.false_eq_true, if_false]
          exact wPairLoop_rounds sup split rest r _ _ _ (by simp; omega) rfl rfl rfl
            (fun x hx => hall x (by rw [hfbs]; exact List.mem_cons_of_mem _ hx))

/-! ### `ProtocolSet::new` + `report_substream_open` -/

theorem lookup_map_const (n m : Bytes) (fbs : List Bytes) :
    (fbs.map fun f => (f, m)).lookup n = if n ∈ fbs then some m else none := by
  induction fbs with
  | nil => simp
  | cons f fbs ih =>
    simp only [List.map_cons, List.lookup_cons, ih]
    by_cases h : n = f
    · subst h; simp
    · have : (n == f) = false := by simpa using h
      simp [this, h]

theorem lookup_build (installed : List (Bytes × List Bytes)) (n : Bytes) :
    (buildFallbackNames installed).lookup n = (installed.find? (fun e => n ∈ e.2)).map (·.1) := by
  induction installed with
  | nil => simp [buildFallbackNames]
  | cons e rest ih =>
    have : buildFallbackNames (e :: rest) = (e.2.map fun f => (f, e.1)) ++ buildFallbackNames rest := by
      simp [buildFallbackNames]
    rw [this, List.lookup_append, lookup_map_const, ih]
    by_cases h : n ∈ e.2 <;> simp [h]

end Litep2pVerif.Mss
