import Litep2pVerif.Model.Mss.Message
/-! Helper lemmas for the message codec: varint round trip, `decodeLs` on an encoded list. -/
namespace Litep2pVerif.Mss
open Litep2pVerif

theorem uviEncodeAux_fuel : ∀ (f1 f2 n : Nat), n ≤ f1 → n ≤ f2 → uviEncodeAux f1 n = uviEncodeAux f2 n := by
  intro f1
  induction f1 with
  | zero =>
    intro f2 n h1 _
    have : n = 0 := by omega
    subst this
    cases f2 <;> simp [uviEncodeAux]
  | succ f1 ih =>
    intro f2 n h1 h2
    cases f2 with
    | zero =>
      have : n = 0 := by omega
      subst this
      simp [uviEncodeAux]
    | succ f2 =>
      simp only [uviEncodeAux]
      by_cases h : n < 128
      · simp [h]
      · simp only [h, if_false]
        rw [ih f2 (n / 128) (by omega) (by omega)]

theorem uviEncode_lt (n : Nat) (h : n < 128) : uviEncode n = [n] := by
  unfold uviEncode
  cases n <;> simp [uviEncodeAux, h]

theorem uviEncode_ge (n : Nat) (h : ¬ n < 128) :
    uviEncode n = (n % 128 + 128) :: uviEncode (n / 128) := by
  unfold uviEncode
  obtain ⟨m, rfl⟩ : ∃ m, n = m + 1 := ⟨n - 1, by omega⟩
  simp only [uviEncodeAux, h, if_false]
  rw [uviEncodeAux_fuel m ((m + 1) / 128) ((m + 1) / 128) (by omega) (Nat.le_refl _)]

/-- Induction along the encoder's recursion. -/
theorem uviEncode.induct {motive : Nat → Prop} (case1 : ∀ n, n < 128 → motive n)
    (case2 : ∀ n, ¬ n < 128 → motive (n / 128) → motive n) : ∀ n, motive n := by
  intro n
  induction n using Nat.strongRecOn with
  | _ n ih =>
    by_cases h : n < 128
    · exact case1 n h
    · exact case2 n h (ih (n / 128) (by omega))

theorem uviEncode_ne_nil (n : Nat) : uviEncode n ≠ [] := by
  by_cases h : n < 128
  · rw [uviEncode_lt n h]; simp
  · rw [uviEncode_ge n h]; simp

theorem uviEncode_length_pos (n : Nat) : 0 < (uviEncode n).length :=
  List.length_pos_iff.mpr (uviEncode_ne_nil n)

/-- Every byte produced by the encoder is a byte. -/
theorem uviEncode_bytes (n : Nat) : ∀ b ∈ uviEncode n, b < 256 := by
  induction n using uviEncode.induct with
  | case1 n h => rw [uviEncode_lt n h]; intro b hb; simp at hb; omega
  | case2 n h ih =>
    rw [uviEncode_ge n h]; intro b hb
    simp only [List.mem_cons] at hb
    rcases hb with hb | hb
    · omega
    · exact ih b hb

/-- The decoder inverts the encoder whenever the value fits the integer type (`maxBytes` is large
enough for the type: `bits ≤ 7 * maxBytes + 7`), whatever follows the encoded value. -/
theorem uviDecodeAux_encode (bits maxBytes : Nat) (hb : bits ≤ 7 * maxBytes + 7) :
    ∀ (n i acc : Nat) (rest : Bytes), n * 2 ^ (7 * i) < 2 ^ bits → (0 < i → 0 < n) →
      uviDecodeAux bits maxBytes i acc (uviEncode n ++ rest) = .ok (acc + n * 2 ^ (7 * i), rest) := by
  intro n
  induction n using uviEncode.induct with
  | case1 n h =>
    intro i acc rest hfit hpos
    rw [uviEncode_lt n h]
    have hmod : n % 128 = n := Nat.mod_eq_of_lt h
    have : ¬ (n = 0 ∧ 0 < i) := by intro ⟨h0, hi⟩; have := hpos hi; omega
    simp [uviDecodeAux, h, this, hmod, Nat.mod_eq_of_lt hfit]
  | case2 n h ih =>
    intro i acc rest hfit hpos
    rw [uviEncode_ge n h]
    have h1 : ¬ (n % 128 + 128 < 128) := by omega
    have hmod : (n % 128 + 128) % 128 = n % 128 := by omega
    have hP : 2 ^ (7 * (i + 1)) = 128 * 2 ^ (7 * i) := by
      rw [show 7 * (i + 1) = 7 + 7 * i by omega, Nat.pow_add]
    have hsplit : n % 128 * 2 ^ (7 * i) + n / 128 * (128 * 2 ^ (7 * i)) = n * 2 ^ (7 * i) := by
      rw [← Nat.mul_assoc, ← Nat.add_mul, Nat.mul_comm (n / 128) 128, Nat.mod_add_div]
    have hlow : n % 128 * 2 ^ (7 * i) < 2 ^ bits := by
      have : n % 128 * 2 ^ (7 * i) ≤ n * 2 ^ (7 * i) := Nat.mul_le_mul_right _ (Nat.mod_le n 128)
      omega
    have hi : i ≠ maxBytes := by
      intro heq
      subst heq
      have h128 : 128 * 2 ^ (7 * i) ≤ n * 2 ^ (7 * i) := Nat.mul_le_mul_right _ (by omega)
      have : 2 ^ bits ≤ 2 ^ (7 * i + 7) := Nat.pow_le_pow_right (by omega) hb
      rw [Nat.pow_add] at this
      have : 2 ^ (7 * i) * 2 ^ 7 = 128 * 2 ^ (7 * i) := by rw [Nat.mul_comm]
      omega
    have hfit' : n / 128 * 2 ^ (7 * (i + 1)) < 2 ^ bits := by
      rw [hP]
      have : n / 128 * (128 * 2 ^ (7 * i)) ≤ n * 2 ^ (7 * i) := by omega
      omega
    have := ih (i + 1) (acc + n % 128 * 2 ^ (7 * i)) rest hfit' (fun _ => by omega)
    simp only [List.cons_append, uviDecodeAux, h1, hi, if_false, hmod, Nat.mod_eq_of_lt hlow]
    rw [this, hP]
    congr 2
    omega

theorem uviDecodeUsize_encode (n : Nat) (rest : Bytes) (h : n < 2 ^ 64) :
    uviDecodeUsize (uviEncode n ++ rest) = .ok (n, rest) := by
  have := uviDecodeAux_encode 64 9 (by decide) n 0 0 rest (by simpa using h) (by omega)
  simpa [uviDecodeUsize] using this

theorem uviDecodeU16_encode (n : Nat) (rest : Bytes) (h : n < 2 ^ 16) :
    uviDecodeU16 (uviEncode n ++ rest) = .ok (n, rest) := by
  have := uviDecodeAux_encode 16 2 (by decide) n 0 0 rest (by simpa using h) (by omega)
  simpa [uviDecodeU16] using this


/-! ### Well-formed messages -/

/-- A protocol name that can be proposed: starts with `/`, contains no line feed, and is not the
multistream header itself. -/
def ValidName (p : Bytes) : Prop :=
  p.head? = some 47 ∧ 10 ∉ p ∧ p ≠ protoMultistream

instance (p : Bytes) : Decidable (ValidName p) := by unfold ValidName; infer_instance

/-- A name that may appear in an `ls` response: starts with `/` and its length fits `usize`. -/
def ListableName (p : Bytes) : Prop := p.head? = some 47 ∧ p.length + 1 < 2 ^ 64

instance (p : Bytes) : Decidable (ListableName p) := by unfold ListableName; infer_instance

/-- Messages for which `decode (encode m) = m` is claimed. -/
def Msg.WellFormed : Msg → Prop
  | .protocol p => ValidName p
  | .protocols ps => ps.length ≤ Consts.MSS_MAX_PROTOCOLS ∧ ∀ p ∈ ps, ListableName p
  | _ => True

instance (m : Msg) : Decidable m.WellFormed := by
  cases m <;> unfold Msg.WellFormed <;> infer_instance

theorem encodeNames_length (ps : List Bytes) : ps.length ≤ (encodeNames ps).length := by
  induction ps with
  | nil => simp [encodeNames]
  | cons p ps ih => simp only [encodeNames, List.length_append, List.length_cons]; omega

theorem encodeNames_ends (ps : List Bytes) (h : ps ≠ []) : ∃ pre, encodeNames ps = pre ++ [10] := by
  induction ps with
  | nil => exact absurd rfl h
  | cons p ps ih =>
    by_cases hps : ps = []
    · subst hps; exact ⟨uviEncode (p.length + 1) ++ p, by simp [encodeNames]⟩
    · obtain ⟨pre, hpre⟩ := ih hps
      exact ⟨uviEncode (p.length + 1) ++ p ++ [10] ++ pre, by simp [encodeNames, hpre]⟩

theorem decodeLs_encodeNames (ps : List Bytes) :
    ∀ (fuel : Nat) (acc : List Bytes), ps.length < fuel →
      acc.length + ps.length ≤ Consts.MSS_MAX_PROTOCOLS → (∀ p ∈ ps, ListableName p) →
      decodeLs fuel acc (encodeNames ps ++ [10]) = .ok (.protocols (acc.reverse ++ ps)) := by
  induction ps with
  | nil =>
    intro fuel acc hf _ _
    obtain ⟨f, rfl⟩ : ∃ f, fuel = f + 1 := ⟨fuel - 1, by simp at hf; omega⟩
    simp [decodeLs, encodeNames]
  | cons p ps ih =>
    intro fuel acc hf hmax hwf
    obtain ⟨f, rfl⟩ : ∃ f, fuel = f + 1 := ⟨fuel - 1, by simp at hf; omega⟩
    have hp : ListableName p := hwf p (by simp)
    have hne : encodeNames (p :: ps) ++ [10] ≠ [10] := by
      intro h
      have := congrArg List.length h
      have h2 := uviEncode_length_pos (p.length + 1)
      simp [encodeNames] at this
      omega
    have hacc : acc.length ≠ Consts.MSS_MAX_PROTOCOLS := by simp at hmax; omega
    have hdec : uviDecodeUsize (encodeNames (p :: ps) ++ [10]) =
        .ok (p.length + 1, p ++ [10] ++ (encodeNames ps ++ [10])) := by
      have := uviDecodeUsize_encode (p.length + 1) (p ++ [10] ++ (encodeNames ps ++ [10])) hp.2
      simpa [encodeNames, List.append_assoc] using this
    have hidx : (p ++ [10] ++ (encodeNames ps ++ [10]))[p.length]? = some 10 := by
      simp [List.append_assoc]
    have htake : (p ++ [10] ++ (encodeNames ps ++ [10])).take p.length = p := by
      simp [List.append_assoc]
    have hdrop : (p ++ [10] ++ (encodeNames ps ++ [10])).drop (p.length + 1) = encodeNames ps ++ [10] := by
      have : p.length + 1 = (p ++ [10]).length := by simp
      rw [this, List.drop_left]
    have hcond : ¬ (p.length + 1 = 0 ∨ p.length + 1 > (p ++ [10] ++ (encodeNames ps ++ [10])).length ∨
        (p ++ [10] ++ (encodeNames ps ++ [10]))[p.length + 1 - 1]? ≠ some 10) := by
      simp only [Nat.add_sub_cancel, hidx]
      simp [List.length_append]
    have hih := ih f (p :: acc) (by simp at hf ⊢; omega) (by simp at hmax ⊢; omega)
      (fun q hq => hwf q (by simp [hq]))
    rw [decodeLs]
    simp only [hne, hacc, if_false, hdec]
    rw [if_neg hcond]
    simp only [Nat.add_sub_cancel, htake, protocolTryFrom, hp.1, if_true, hdrop, hih]
    simp


/-! What the proofs need of the byte strings extracted from `protocol.rs` (re-checked against the
regenerated values on every run). -/

/-- The header line is the header protocol name followed by a line feed. -/
theorem msgMultistream_eq : msgMultistream = protoMultistream ++ [10] := by decide
/-- `na\n` and `ls\n` cannot be mistaken for a protocol line. -/
theorem msgNa_head : msgNa.head? ≠ some 47 := by decide
theorem msgLs_head : msgLs.head? ≠ some 47 := by decide
/-- The three fixed lines are distinct, non-empty and end with a line feed. -/
theorem fixed_lines : msgMultistream ≠ msgNa ∧ msgMultistream ≠ msgLs ∧ msgNa ≠ msgLs ∧
    msgMultistream.getLast? = some 10 ∧ msgNa.getLast? = some 10 ∧ msgLs.getLast? = some 10 := by decide

theorem decode_encode_protocol (p : Bytes) (h : ValidName p) :
    Msg.decode (Msg.protocol p).encode = .ok (.protocol p) := by
  obtain ⟨hhead, hnl, hne⟩ := h
  obtain ⟨c, t, rfl⟩ : ∃ c t, p = c :: t := by
    cases p with
    | nil => simp at hhead
    | cons c t => exact ⟨c, t, rfl⟩
  have hc : c = 47 := by simpa using hhead
  subst hc
  have h1 : (47 :: t) ++ [10] ≠ msgMultistream := by
    intro heq
    rw [msgMultistream_eq] at heq
    exact hne (List.append_cancel_right heq)
  have h2 : (47 :: t) ++ [10] ≠ msgNa := by
    intro heq; exact msgNa_head (by rw [← heq]; rfl)
  have h3 : (47 :: t) ++ [10] ≠ msgLs := by
    intro heq; exact msgLs_head (by rw [← heq]; rfl)
  have hcond : ((47 :: t) ++ [10]).head? = some 47 ∧ ((47 :: t) ++ [10]).getLast? = some 10 ∧
      ¬ (10 ∈ ((47 :: t) ++ [10]).dropLast) := by
    refine ⟨by simp, List.getLast?_concat, ?_⟩
    rw [List.dropLast_concat]; exact hnl
  show Msg.decode ((47 :: t) ++ [10]) = _
  unfold Msg.decode
  rw [if_neg h1, if_neg h2, if_neg h3, if_pos hcond, List.dropLast_concat]
  simp [protocolTryFrom]

theorem decode_encode_protocols (ps : List Bytes) (hlen : ps.length ≤ Consts.MSS_MAX_PROTOCOLS)
    (hwf : ∀ p ∈ ps, ListableName p) :
    Msg.decode (Msg.protocols ps).encode = .ok (.protocols ps) := by
  have hfuel : ps.length < (encodeNames ps ++ [10]).length + 1 := by
    have := encodeNames_length ps
    simp; omega
  have hls := decodeLs_encodeNames ps ((encodeNames ps ++ [10]).length + 1) [] hfuel (by simpa using hlen) hwf
  by_cases hps : ps = []
  · subst hps
    decide
  · obtain ⟨pre, hpre⟩ := encodeNames_ends ps hps
    have hdl : (encodeNames ps ++ [10]).dropLast = pre ++ [10] := by rw [List.dropLast_concat, hpre]
    have hsl : (encodeNames ps ++ [10]).dropLast.getLast? = some 10 := by rw [hdl]; simp
    have h1 : encodeNames ps ++ [10] ≠ msgMultistream := by
      intro heq; rw [heq] at hsl; revert hsl; decide
    have h2 : encodeNames ps ++ [10] ≠ msgNa := by
      intro heq; rw [heq] at hsl; revert hsl; decide
    have h3 : encodeNames ps ++ [10] ≠ msgLs := by
      intro heq; rw [heq] at hsl; revert hsl; decide
    have hcond : ¬ ((encodeNames ps ++ [10]).head? = some 47 ∧ (encodeNames ps ++ [10]).getLast? = some 10 ∧
        ¬ (10 ∈ (encodeNames ps ++ [10]).dropLast)) := by
      rw [hdl]; simp
    show Msg.decode (encodeNames ps ++ [10]) = _
    unfold Msg.decode
    rw [if_neg h1, if_neg h2, if_neg h3, if_neg hcond, hls]
    simp

/-- `decode ∘ encode = id` on well-formed messages. -/
theorem decode_encode (m : Msg) (h : m.WellFormed) : Msg.decode m.encode = .ok m := by
  cases m with
  | header => decide
  | listProtocols => decide
  | notAvailable => decide
  | protocol p => exact decode_encode_protocol p h
  | protocols ps => exact decode_encode_protocols ps h.1 h.2

end Litep2pVerif.Mss
