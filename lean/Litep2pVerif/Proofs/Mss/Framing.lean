import Litep2pVerif.Model.Mss.Framing
import Litep2pVerif.Proofs.Mss.Message
/-! Invariant-based proof that the frame reader returns exactly the frames on the wire and consumes
exactly their bytes, for every schedule. -/
namespace Litep2pVerif.Mss
open Litep2pVerif

theorem maxLenBytes_eq : Consts.MSS_MAX_LEN_BYTES = 2 := by decide
theorem maxFrameSize_eq : maxFrameSize = 16383 := by decide

def Reader.fresh : Reader := {}

theorem fresh_state : Reader.fresh.state = .readLength [0, 0] 0 := by decide

/-- The reader is somewhere inside frame `f`, which is followed by `rest` on the wire. -/
def Mid (f rest : Bytes) (r : Reader) (c : RCarrier) : Prop :=
  match r.state with
  | .readLength buf pos =>
    r.readBuffer = [] ∧
    ((pos = 0 ∧ buf = [0, 0] ∧ c.data = uviEncode f.length ++ (f ++ rest)) ∨
     (pos = 1 ∧ 128 ≤ f.length ∧ buf = [f.length % 128 + 128, 0] ∧ c.data = (f.length / 128) :: (f ++ rest)))
  | .readData len pos =>
    len = f.length ∧ r.readBuffer.length = len ∧ pos < len ∧ r.readBuffer.take pos = f.take pos ∧
    c.data = f.drop pos ++ rest

theorem mid_fresh (f rest : Bytes) (eof : Bool) : Mid f rest Reader.fresh ⟨frameBytes f ++ rest, eof⟩ := by
  unfold Mid
  rw [fresh_state]
  exact ⟨rfl, Or.inl ⟨rfl, rfl, by simp [frameBytes]⟩⟩

theorem uviEncode_two (n : Nat) (h1 : 128 ≤ n) (h2 : n < 16384) :
    uviEncode n = [n % 128 + 128, n / 128] := by
  rw [uviEncode_ge n (by omega), uviEncode_lt (n / 128) (by omega)]

theorem u16_one (n : Nat) (h : n < 128) : uviDecodeU16 [n, 0] = .ok (n, [0]) := by
  have := uviDecodeU16_encode n [0] (by omega)
  rwa [uviEncode_lt n h] at this

theorem u16_two (n : Nat) (h1 : 128 ≤ n) (h2 : n < 16384) :
    uviDecodeU16 [n % 128 + 128, n / 128] = .ok (n, []) := by
  have := uviDecodeU16_encode n [] (by omega)
  rwa [uviEncode_two n h1 h2, List.append_nil] at this

theorem pollRead_zero (c : RCarrier) (cap : Nat) (hcap : cap ≠ 0) (hd : c.data ≠ []) :
    pollRead c cap 0 = (c, .pending) := by
  simp [pollRead, hcap, hd]

theorem pollNext_len_pending (buf : List Nat) (pos : Nat) (rb : Bytes) (c : RCarrier) (sched : List Nat)
    (hpos : pos < 2) (hd : c.data ≠ []) :
    pollNext ⟨.readLength buf pos, rb⟩ c (0 :: sched) = (⟨.readLength buf pos, rb⟩, c, sched, .pending) := by
  rw [pollNext]
  simp only [maxLenBytes_eq, show ¬ 2 ≤ pos by omega, if_false, pollRead_zero c 1 (by omega) hd]

theorem pollNext_data_pending (len pos : Nat) (rb : Bytes) (c : RCarrier) (sched : List Nat)
    (hcap : rb.length - pos ≠ 0) (hd : c.data ≠ []) :
    pollNext ⟨.readData len pos, rb⟩ c (0 :: sched) = (⟨.readData len pos, rb⟩, c, sched, .pending) := by
  rw [pollNext]
  simp only [pollRead_zero c _ hcap hd]

theorem pollRead_one (b : Nat) (t : Bytes) (eof : Bool) (ch : Nat) (hch : ch ≠ 0) :
    pollRead ⟨b :: t, eof⟩ 1 ch = (⟨t, eof⟩, .ready [b]) := by
  have : min ch 1 = 1 := by omega
  simp [pollRead, hch, this]

theorem pollNext_len_step (buf : List Nat) (pos : Nat) (rb : Bytes) (b : Nat) (t : Bytes) (eof : Bool)
    (ch : Nat) (sched : List Nat) (hpos : pos < 2) (hch : ch ≠ 0) :
    pollNext ⟨.readLength buf pos, rb⟩ ⟨b :: t, eof⟩ (ch :: sched) =
      if b < 128 then
        match uviDecodeU16 (buf.set pos b) with
        | .error _ => (⟨.readLength (buf.set pos b) (pos + 1), rb⟩, ⟨t, eof⟩, sched, .err .invalidData)
        | .ok (len, _) =>
          if 1 ≤ len then pollNext ⟨.readData len 0, List.replicate len 0⟩ ⟨t, eof⟩ sched
          else (⟨ReadState.default, rb⟩, ⟨t, eof⟩, sched, .frame [])
      else if pos + 1 = 2 then
        (⟨.readLength (buf.set pos b) (pos + 1), rb⟩, ⟨t, eof⟩, sched, .err .invalidData)
      else pollNext ⟨.readLength (buf.set pos b) (pos + 1), rb⟩ ⟨t, eof⟩ sched := by
  rw [pollNext]
  simp only [maxLenBytes_eq, show ¬ 2 ≤ pos by omega, if_false, pollRead_one _ _ _ _ hch]
  rfl

/-- One `poll_next` from inside frame `f`: either `Pending` (still inside `f`, nothing lost) or the
frame `f` itself with exactly its bytes consumed and the reader back in its initial state. -/
theorem pollNext_mid (f rest : Bytes) (hf : f.length < 16384) :
    ∀ (sched : List Nat) (r : Reader) (c : RCarrier), Mid f rest r c →
      ((pollNext r c sched).2.2.2 = .pending ∧ Mid f rest (pollNext r c sched).1 (pollNext r c sched).2.1 ∧
        (pollNext r c sched).2.1.eof = c.eof) ∨
      ((pollNext r c sched).2.2.2 = .frame f ∧ (pollNext r c sched).1 = Reader.fresh ∧
        (pollNext r c sched).2.1 = ⟨rest, c.eof⟩) := by
  intro sched
  induction sched with
  | nil => intro r c h; left; simp [pollNext, h]
  | cons ch sched ih =>
    intro r c h
    have hMid := h
    obtain ⟨st, rb⟩ := r
    obtain ⟨data, eof⟩ := c
    cases st with
    | readLength buf pos =>
      simp only [Mid] at h
      obtain ⟨hrb, h⟩ := h
      subst hrb
      rcases h with ⟨hpos, hbuf, hdata⟩ | ⟨hpos, hn, hbuf, hdata⟩
      · -- first length byte
        subst hpos hbuf
        by_cases hch : ch = 0
        · left
          subst hch
          have hne : data ≠ [] := by
            rw [hdata]; intro h0
            exact uviEncode_ne_nil _ (List.append_eq_nil_iff.mp h0).1
          rw [pollNext_len_pending _ _ _ _ _ (by omega) hne]
          exact ⟨rfl, hMid, rfl⟩
        · by_cases hsmall : f.length < 128
          · -- single length byte
            rw [uviEncode_lt _ hsmall] at hdata
            subst hdata
            rw [show [f.length] ++ (f ++ rest) = f.length :: (f ++ rest) from rfl,
              pollNext_len_step _ _ _ _ _ _ _ _ (by omega) hch]
            simp only [hsmall, if_true, List.set_cons_zero, u16_one _ hsmall]
            by_cases hz : f.length = 0
            · right
              have hnil : f = [] := List.eq_nil_of_length_eq_zero hz
              subst hnil
              simp [Reader.fresh, ReadState.default, maxLenBytes_eq]
            · rw [if_pos (by omega)]
              exact ih ⟨.readData f.length 0, List.replicate f.length 0⟩ ⟨f ++ rest, eof⟩
                (by simp [Mid]; omega)
          · -- first of two length bytes
            rw [uviEncode_two _ (by omega) hf] at hdata
            subst hdata
            rw [show [f.length % 128 + 128, f.length / 128] ++ (f ++ rest) =
                (f.length % 128 + 128) :: (f.length / 128) :: (f ++ rest) from rfl,
              pollNext_len_step _ _ _ _ _ _ _ _ (by omega) hch]
            simp only [show ¬ (f.length % 128 + 128 < 128) by omega, if_false, List.set_cons_zero,
              show ¬ (0 + 1 = 2) by omega]
            exact ih ⟨.readLength [f.length % 128 + 128, 0] 1, []⟩ ⟨(f.length / 128) :: (f ++ rest), eof⟩
              (by simp [Mid]; omega)
      · -- second length byte
        subst hpos hbuf
        subst hdata
        by_cases hch : ch = 0
        · left
          subst hch
          rw [pollNext_len_pending _ _ _ _ _ (by omega) (by simp)]
          exact ⟨rfl, hMid, rfl⟩
        · rw [pollNext_len_step _ _ _ _ _ _ _ _ (by omega) hch]
          have hset : [f.length % 128 + 128, 0].set 1 (f.length / 128) = [f.length % 128 + 128, f.length / 128] := rfl
          simp only [show f.length / 128 < 128 by omega, if_true, hset, u16_two _ hn hf]
          rw [if_pos (by omega)]
          exact ih ⟨.readData f.length 0, List.replicate f.length 0⟩ ⟨f ++ rest, eof⟩
            (by simp [Mid]; omega)
    | readData len pos =>
      simp only [Mid] at h
      obtain ⟨hlen, hrbl, hpos, htake, hdata⟩ := h
      subst hlen
      have hdne : data ≠ [] := by
        rw [hdata]; intro h0
        have := (List.append_eq_nil_iff.mp h0).1
        have := congrArg List.length this
        simp at this; omega
      by_cases hch : ch = 0
      · left
        subst hch
        rw [pollNext_data_pending _ _ _ _ _ (by omega) hdne]
        exact ⟨rfl, hMid, rfl⟩
      · -- n bytes are delivered, 1 ≤ n ≤ len - pos
        have hdl : f.length - pos ≤ data.length := by rw [hdata]; simp
        let n := min ch (min (rb.length - pos) data.length)
        have hn1 : 1 ≤ n := by
          have : 0 < data.length := List.length_pos_iff.mpr hdne
          simp only [n]; omega
        have hn2 : n ≤ f.length - pos := by simp only [n]; omega
        have htk : data.take n = (f.drop pos).take n := by
          rw [hdata, List.take_append_of_le_length (by simp; omega)]
        have hdr : data.drop n = f.drop (pos + n) ++ rest := by
          rw [hdata, List.drop_append_of_le_length (by simp; omega), List.drop_drop]
        have hn3 : n ≤ data.length := by simp only [n]; omega
        have hlt : (data.take n).length = n := by rw [List.length_take]; omega
        obtain ⟨b, bs, hbbs⟩ : ∃ b bs, data.take n = b :: bs := by
          cases hx : data.take n with
          | nil => rw [hx] at hlt; simp at hlt; omega
          | cons b bs => exact ⟨b, bs, rfl⟩
        have hlenbbs : (b :: bs).length = n := by
          rw [← hbbs]; exact hlt
        have hwa : (writeAt rb pos (b :: bs)).take (pos + n) = f.take (pos + n) := by
          rw [← hbbs, htk]
          unfold writeAt
          rw [htake, List.take_append_of_le_length (by simp; omega)]
          rw [List.take_of_length_le (by simp; omega)]
          rw [List.take_add]
        have hwl : (writeAt rb pos (b :: bs)).length = f.length := by
          unfold writeAt
          simp only [List.length_append, List.length_take, List.length_drop, hlenbbs]
          omega
        have hcap : rb.length - pos ≠ 0 := by omega
        have hstep0 : pollRead ⟨data, eof⟩ (rb.length - pos) ch = (⟨data.drop n, eof⟩, .ready (b :: bs)) := by
          simp only [pollRead, hcap, hdne, hch, if_false]
          rw [← hbbs]
        by_cases hfin : pos + n = f.length
        · right
          have hall : writeAt rb pos (b :: bs) = f := by
            have := hwa
            rw [hfin, List.take_of_length_le (by omega), List.take_of_length_le (by omega)] at this
            exact this
          have hrest : data.drop n = rest := by
            rw [hdr, hfin]; simp
          rw [pollNext]
          simp only [hstep0, hlenbbs, hfin, if_true, hall, hrest]
          simp [Reader.fresh]
        · have hcall := ih ⟨.readData f.length (pos + n), writeAt rb pos (b :: bs)⟩ ⟨data.drop n, eof⟩
            (by simp only [Mid]; exact ⟨trivial, hwl, by omega, hwa, hdr⟩)
          have hstep : pollNext ⟨.readData f.length pos, rb⟩ ⟨data, eof⟩ (ch :: sched) =
              pollNext ⟨.readData f.length (pos + n), writeAt rb pos (b :: bs)⟩ ⟨data.drop n, eof⟩ sched := by
            rw [pollNext]
            simp only [hstep0, hlenbbs, hfin, if_false]
          rw [hstep]
          exact hcall


theorem wire_cons (f : Bytes) (fs : List Bytes) : wire (f :: fs) = frameBytes f ++ wire fs := by
  simp [wire]

/-- Reading at most `|f :: fs|` frames from inside `f`: the `Ready` results are a prefix of the
frames written, and once all of them have been returned exactly their bytes have been consumed. -/
theorem readN_mid (rest : Bytes) :
    ∀ (fuel : Nat) (f : Bytes) (fs : List Bytes) (r : Reader) (c : RCarrier) (sched : List Nat),
      (∀ g ∈ f :: fs, g.length < 16384) → Mid f (wire fs ++ rest) r c →
      ∃ k, k ≤ (f :: fs).length ∧
        (readN (fs.length + 1) fuel r c sched).1 = ((f :: fs).take k).map PollNext.frame ∧
        (k = (f :: fs).length →
          (readN (fs.length + 1) fuel r c sched).2.1 = Reader.fresh ∧
          (readN (fs.length + 1) fuel r c sched).2.2.1 = ⟨rest, c.eof⟩) := by
  intro fuel
  induction fuel with
  | zero => intro f fs r c sched _ _; exact ⟨0, by simp, by simp [readN], by simp⟩
  | succ fuel ih =>
    intro f fs r c sched hlen hmid
    by_cases hs : sched = []
    · exact ⟨0, by simp, by simp [readN, hs], by simp⟩
    · have hstep := pollNext_mid f (wire fs ++ rest) (hlen f (by simp)) sched r c hmid
      rw [readN]
      simp only [hs, if_false]
      generalize pollNext r c sched = p at hstep
      obtain ⟨r1, c1, s1, res⟩ := p
      simp only at hstep
      rcases hstep with ⟨hp, hm, he⟩ | ⟨hfr, hr, hc⟩
      · subst hp
        obtain ⟨k, hk, hout, hfin⟩ := ih f fs r1 c1 s1 hlen hm
        exact ⟨k, hk, hout, by rw [← he]; exact hfin⟩
      · subst hfr hr hc
        simp only
        cases fs with
        | nil =>
          refine ⟨1, by simp, by simp [readN], ?_⟩
          intro _
          simp [readN, wire]
        | cons g fs' =>
          have hm' : Mid g (wire fs' ++ rest) Reader.fresh ⟨wire (g :: fs') ++ rest, c.eof⟩ := by
            rw [wire_cons, List.append_assoc]; exact mid_fresh _ _ _
          obtain ⟨k, hk, hout, hfin⟩ := ih g fs' Reader.fresh ⟨wire (g :: fs') ++ rest, c.eof⟩ s1
            (fun x hx => hlen x (by simp at hx ⊢; right; exact hx)) hm'
          refine ⟨k + 1, by simp at hk ⊢; omega, ?_, ?_⟩
          · simp only [List.length_cons] at hout ⊢
            simp [hout]
          · intro hk'
            have hk'' : k = (g :: fs').length := by simp at hk' ⊢; omega
            simpa using hfin hk''


/-! ### Progress: every non-`Pending` inner read consumes a byte of the frames -/

/-- Inside a frame there is always at least one byte of it still in flight. -/
theorem mid_data_pos (f rest : Bytes) (r : Reader) (c : RCarrier) (h : Mid f rest r c) :
    rest.length < c.data.length := by
  obtain ⟨st, rb⟩ := r
  obtain ⟨data, eof⟩ := c
  cases st with
  | readLength buf pos =>
    simp only [Mid] at h
    rcases h.2 with ⟨_, _, hdata⟩ | ⟨_, _, _, hdata⟩
    · have := uviEncode_length_pos f.length
      simp [hdata]; omega
    · simp [hdata]; omega
  | readData len pos =>
    simp only [Mid] at h
    obtain ⟨hlen, _, hpos, _, hdata⟩ := h
    simp [hdata]; omega

/-- An injected `Pending` changes nothing. -/
theorem pollNext_mid_zero (f rest : Bytes) (r : Reader) (c : RCarrier) (h : Mid f rest r c) (s : List Nat) :
    pollNext r c (0 :: s) = (r, c, s, .pending) := by
  have hpos := mid_data_pos f rest r c h
  have hne : c.data ≠ [] := by intro h0; rw [h0] at hpos; simp at hpos
  obtain ⟨st, rb⟩ := r
  cases st with
  | readLength buf pos =>
    simp only [Mid] at h
    have : pos < 2 := by rcases h.2 with ⟨hp, _⟩ | ⟨hp, _⟩ <;> omega
    exact pollNext_len_pending _ _ _ _ _ this hne
  | readData len pos =>
    simp only [Mid] at h
    obtain ⟨hlen, hrbl, hpos, _, _⟩ := h
    exact pollNext_data_pending _ _ _ _ _ (by omega) hne

/-- One non-`Pending` inner read from inside frame `f`: at least one byte of the frame leaves the
carrier, and either the reader is still inside `f` or it returns `f`. -/
theorem pollNext_mid_step (f rest : Bytes) (hf : f.length < 16384) (r : Reader) (c : RCarrier)
    (h : Mid f rest r c) (ch : Nat) (hch : ch ≠ 0) :
    (∃ r' c', Mid f rest r' c' ∧ c'.eof = c.eof ∧ c'.data.length < c.data.length ∧
        ∀ s, pollNext r c (ch :: s) = pollNext r' c' s) ∨
    (rest.length < c.data.length ∧ ∀ s, pollNext r c (ch :: s) = (Reader.fresh, ⟨rest, c.eof⟩, s, .frame f)) := by
  have hposd := mid_data_pos f rest r c h
  obtain ⟨st, rb⟩ := r
  obtain ⟨data, eof⟩ := c
  cases st with
  | readLength buf pos =>
    simp only [Mid] at h
    obtain ⟨hrb, h⟩ := h
    subst hrb
    rcases h with ⟨hpos, hbuf, hdata⟩ | ⟨hpos, hn, hbuf, hdata⟩
    · subst hpos hbuf
      by_cases hsmall : f.length < 128
      · rw [uviEncode_lt _ hsmall] at hdata
        subst hdata
        by_cases hz : f.length = 0
        · right
          refine ⟨hposd, fun s => ?_⟩
          rw [show [f.length] ++ (f ++ rest) = f.length :: (f ++ rest) from rfl,
            pollNext_len_step _ _ _ _ _ _ _ _ (by omega) hch]
          simp only [hsmall, if_true, List.set_cons_zero, u16_one _ hsmall]
          have hnil : f = [] := List.eq_nil_of_length_eq_zero hz
          subst hnil
          simp [Reader.fresh, ReadState.default, maxLenBytes_eq]
        · left
          refine ⟨⟨.readData f.length 0, List.replicate f.length 0⟩, ⟨f ++ rest, eof⟩,
            by simp [Mid]; omega, rfl, by simp, fun s => ?_⟩
          rw [show [f.length] ++ (f ++ rest) = f.length :: (f ++ rest) from rfl,
            pollNext_len_step _ _ _ _ _ _ _ _ (by omega) hch]
          simp only [hsmall, if_true, List.set_cons_zero, u16_one _ hsmall]
          rw [if_pos (by omega)]
      · left
        rw [uviEncode_two _ (by omega) hf] at hdata
        subst hdata
        refine ⟨⟨.readLength [f.length % 128 + 128, 0] 1, []⟩, ⟨(f.length / 128) :: (f ++ rest), eof⟩,
          by simp [Mid]; omega, rfl, by simp, fun s => ?_⟩
        rw [show [f.length % 128 + 128, f.length / 128] ++ (f ++ rest) =
            (f.length % 128 + 128) :: (f.length / 128) :: (f ++ rest) from rfl,
          pollNext_len_step _ _ _ _ _ _ _ _ (by omega) hch]
        simp only [show ¬ (f.length % 128 + 128 < 128) by omega, if_false, List.set_cons_zero,
          show ¬ (0 + 1 = 2) by omega]
    · left
      subst hpos hbuf
      subst hdata
      refine ⟨⟨.readData f.length 0, List.replicate f.length 0⟩, ⟨f ++ rest, eof⟩,
        by simp [Mid]; omega, rfl, by simp, fun s => ?_⟩
      rw [pollNext_len_step _ _ _ _ _ _ _ _ (by omega) hch]
      have hset : [f.length % 128 + 128, 0].set 1 (f.length / 128) = [f.length % 128 + 128, f.length / 128] := rfl
      simp only [show f.length / 128 < 128 by omega, if_true, hset, u16_two _ hn hf]
      rw [if_pos (by omega)]
  | readData len pos =>
    simp only [Mid] at h
    obtain ⟨hlen, hrbl, hpos, htake, hdata⟩ := h
    subst hlen
    have hdne : data ≠ [] := by
      rw [hdata]; intro h0
      have := (List.append_eq_nil_iff.mp h0).1
      have := congrArg List.length this
      simp at this; omega
    have hdl : f.length - pos ≤ data.length := by rw [hdata]; simp
    let n := min ch (min (rb.length - pos) data.length)
    have hn1 : 1 ≤ n := by
      have : 0 < data.length := List.length_pos_iff.mpr hdne
      simp only [n]; omega
    have hn2 : n ≤ f.length - pos := by simp only [n]; omega
    have htk : data.take n = (f.drop pos).take n := by
      rw [hdata, List.take_append_of_le_length (by simp; omega)]
    have hdr : data.drop n = f.drop (pos + n) ++ rest := by
      rw [hdata, List.drop_append_of_le_length (by simp; omega), List.drop_drop]
    have hn3 : n ≤ data.length := by simp only [n]; omega
    have hlt : (data.take n).length = n := by rw [List.length_take]; omega
    obtain ⟨b, bs, hbbs⟩ : ∃ b bs, data.take n = b :: bs := by
      cases hx : data.take n with
      | nil => rw [hx] at hlt; simp at hlt; omega
      | cons b bs => exact ⟨b, bs, rfl⟩
    have hlenbbs : (b :: bs).length = n := by
      rw [← hbbs]; exact hlt
    have hwa : (writeAt rb pos (b :: bs)).take (pos + n) = f.take (pos + n) := by
      rw [← hbbs, htk]
      unfold writeAt
      rw [htake, List.take_append_of_le_length (by simp; omega)]
      rw [List.take_of_length_le (by simp; omega)]
      rw [List.take_add]
    have hwl : (writeAt rb pos (b :: bs)).length = f.length := by
      unfold writeAt
      simp only [List.length_append, List.length_take, List.length_drop, hlenbbs]
      omega
    have hcap : rb.length - pos ≠ 0 := by omega
    have hstep0 : pollRead ⟨data, eof⟩ (rb.length - pos) ch = (⟨data.drop n, eof⟩, .ready (b :: bs)) := by
      simp only [pollRead, hcap, hdne, hch, if_false]
      rw [← hbbs]
    by_cases hfin : pos + n = f.length
    · right
      refine ⟨hposd, fun s => ?_⟩
      have hall : writeAt rb pos (b :: bs) = f := by
        have := hwa
        rw [hfin, List.take_of_length_le (by omega), List.take_of_length_le (by omega)] at this
        exact this
      have hrest : data.drop n = rest := by
        rw [hdr, hfin]; simp
      rw [pollNext]
      simp only [hstep0, hlenbbs, hfin, if_true, hall, hrest]
      simp [Reader.fresh]
    · left
      refine ⟨⟨.readData f.length (pos + n), writeAt rb pos (b :: bs)⟩, ⟨data.drop n, eof⟩,
        by simp only [Mid]; exact ⟨trivial, hwl, by omega, hwa, hdr⟩, rfl, by simp; omega, fun s => ?_⟩
      rw [pollNext]
      simp only [hstep0, hlenbbs, hfin, if_false]

/-- Number of non-`Pending` choices in a schedule. -/
def nz (s : List Nat) : Nat := (s.filter (· ≠ 0)).length

theorem nz_cons_zero (s : List Nat) : nz (0 :: s) = nz s := by simp [nz]

theorem nz_cons_pos (ch : Nat) (s : List Nat) (h : ch ≠ 0) : nz (ch :: s) = nz s + 1 := by simp [nz, h]

/-- **The measure.** During one `poll_next` from inside a frame, the non-`Pending` inner reads made
are at most the bytes that left the carrier; the poll uses at least one choice of a non-empty
schedule and never creates choices. -/
theorem pollNext_mid_budget (f rest : Bytes) (hf : f.length < 16384) :
    ∀ (sched : List Nat) (r : Reader) (c : RCarrier), Mid f rest r c →
      nz sched + (pollNext r c sched).2.1.data.length ≤ nz (pollNext r c sched).2.2.1 + c.data.length ∧
      (pollNext r c sched).2.2.1.length ≤ sched.length ∧
      (sched ≠ [] → (pollNext r c sched).2.2.1.length < sched.length) := by
  intro sched
  induction sched with
  | nil => intro r c _; simp [pollNext]
  | cons ch s ih =>
    intro r c h
    by_cases hch : ch = 0
    · subst hch
      rw [pollNext_mid_zero f rest r c h s, nz_cons_zero]
      simp
    · rcases pollNext_mid_step f rest hf r c h ch hch with ⟨r', c', hm, _, hlt, heq⟩ | ⟨hlt, heq⟩
      · rw [heq s, nz_cons_pos ch s hch]
        obtain ⟨h1, h2, _⟩ := ih r' c' hm
        refine ⟨by omega, by simp; omega, fun _ => by simp; omega⟩
      · rw [heq s, nz_cons_pos ch s hch]
        simp; omega

/-- **Progress.** Reading `|f :: fs|` frames from inside `f`: if the schedule still holds at least as
many non-`Pending` choices as there are bytes of these frames in flight, and the reader keeps
polling (`fuel`), every frame is returned. -/
theorem readN_progress (rest : Bytes) :
    ∀ (fuel : Nat) (f : Bytes) (fs : List Bytes) (r : Reader) (c : RCarrier) (sched : List Nat),
      (∀ g ∈ f :: fs, g.length < 16384) → Mid f (wire fs ++ rest) r c →
      sched.length ≤ fuel → c.data.length ≤ nz sched + rest.length →
      (readN (fs.length + 1) fuel r c sched).1 = (f :: fs).map PollNext.frame := by
  intro fuel
  induction fuel with
  | zero =>
    intro f fs r c sched _ hmid hfuel hnz
    have := mid_data_pos _ _ _ _ hmid
    have hs : sched = [] := List.eq_nil_of_length_eq_zero (by omega)
    subst hs
    simp [nz] at hnz this
    omega
  | succ fuel ih =>
    intro f fs r c sched hlen hmid hfuel hnz
    have hpos := mid_data_pos _ _ _ _ hmid
    by_cases hs : sched = []
    · subst hs
      simp [nz] at hnz hpos
      omega
    · have hstep := pollNext_mid f (wire fs ++ rest) (hlen f (by simp)) sched r c hmid
      obtain ⟨hb1, hb2, hb3⟩ := pollNext_mid_budget f (wire fs ++ rest) (hlen f (by simp)) sched r c hmid
      have hb3 := hb3 hs
      rw [readN]
      simp only [hs, if_false]
      generalize pollNext r c sched = p at hstep hb1 hb2 hb3
      obtain ⟨r1, c1, s1, res⟩ := p
      simp only at hstep hb1 hb2 hb3
      rcases hstep with ⟨hp, hm, he⟩ | ⟨hfr, hr, hc⟩
      · subst hp
        exact ih f fs r1 c1 s1 hlen hm (by omega) (by omega)
      · subst hfr hr hc
        simp only
        cases fs with
        | nil => simp [readN]
        | cons g fs' =>
          have hm' : Mid g (wire fs' ++ rest) Reader.fresh ⟨wire (g :: fs') ++ rest, c.eof⟩ := by
            rw [wire_cons, List.append_assoc]; exact mid_fresh _ _ _
          have := ih g fs' Reader.fresh ⟨wire (g :: fs') ++ rest, c.eof⟩ s1
            (fun x hx => hlen x (by simp at hx ⊢; right; exact hx)) hm' (by omega) (by simp at hb1 ⊢; omega)
          simp only [List.length_cons] at this ⊢
          simp [this]


/-- `poll_write_buffer` never loses, duplicates or reorders a byte, whatever the chunking; when it
reports `Ready` the write buffer is empty (so `into_inner`'s assertion holds after a flush). -/
theorem pollWriteBuffer_exact :
    ∀ (sched : List Nat) (w : Writer) (out : Bytes),
      (pollWriteBuffer w out sched).2.1 ++ (pollWriteBuffer w out sched).1.writeBuffer = out ++ w.writeBuffer ∧
      ((pollWriteBuffer w out sched).2.2.2 = .ready → (pollWriteBuffer w out sched).1.writeBuffer = []) := by
  intro sched
  induction sched with
  | nil =>
    intro w out
    by_cases h : w.writeBuffer = [] <;> simp [pollWriteBuffer, h]
  | cons ch s ih =>
    intro w out
    by_cases h : w.writeBuffer = []
    · simp [pollWriteBuffer, h]
    · by_cases hch : ch = 0
      · simp [pollWriteBuffer, h, hch]
      · rw [pollWriteBuffer]
        simp only [h, hch, if_false]
        have := ih ⟨w.writeBuffer.drop (min ch w.writeBuffer.length)⟩ (out ++ w.writeBuffer.take (min ch w.writeBuffer.length))
        refine ⟨?_, this.2⟩
        rw [this.1, List.append_assoc, List.take_append_drop]

end Litep2pVerif.Mss
