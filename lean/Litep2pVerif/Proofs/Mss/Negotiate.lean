import Litep2pVerif.Proofs.Mss.Lts
import Litep2pVerif.Proofs.Mss.Framing
/-! The canonical execution of the dialer/listener composition, for all name lists. -/
namespace Litep2pVerif.Mss
open Litep2pVerif

theorem Dialer.internal_close (d : Dialer) : d.internal.close = true → d.internal.st.mode = .halted := by
  unfold Dialer.internal Dialer.fail
  repeat' split
  all_goals simp [Dialer.mode]

theorem Dialer.onRecv_close (d : Dialer) (r : Recv) : (d.onRecv r).close = true → (d.onRecv r).st.mode = .halted := by
  unfold Dialer.onRecv Dialer.fail
  repeat' split
  all_goals simp [Dialer.mode]

theorem Listener.internal_close (l : Listener) : l.internal.close = true → l.internal.st.mode = .halted := by
  unfold Listener.internal Listener.fail
  repeat' split
  all_goals simp [Listener.mode]

theorem Listener.onRecv_close (l : Listener) (r : Recv) : (l.onRecv r).close = true → (l.onRecv r).st.mode = .halted := by
  unfold Listener.onRecv Listener.fail
  repeat' split
  all_goals simp [Listener.mode]

theorem dialerProc_closeHalts (junk : Option PErr) : (dialerProc junk).CloseHalts :=
  ⟨fun d h => Dialer.internal_close d h, fun d r h => Dialer.onRecv_close d r h⟩

theorem listenerProc_closeHalts : listenerProc.CloseHalts :=
  ⟨fun l h => Listener.internal_close l h, fun l r h => Listener.onRecv_close l r h⟩


/-- Hypotheses on a proposed name at message level: `Protocol::try_from` accepts it and it fits a frame. -/
def Sendable (p : Bytes) : Prop := protocolTryFrom p = .ok p ∧ fitsFrame (.protocol p) = true

/-- Start state with the listener's (already filtered) list `lp`. -/
def initSt (v : Version) (ps lp : List Bytes) : Sys Dialer Listener :=
  { a := Dialer.init v ps, b := ⟨lp, .recvHeader, false, []⟩ }

theorem negInit_eq (v : Version) (ps ls : List Bytes) :
    negInit v ps ls = initSt v ps (ls.filter (fun n => n.head? = some 47)) := rfl

/-- Round state (from the second proposal on): header exchanged, last answer was `na`. -/
def roundSt (v : Version) (lp : List Bytes) (q : Bytes) (qs : List Bytes) : Sys Dialer Listener :=
  { a := ⟨v, qs, .sendProtocol q true, []⟩, b := ⟨lp, .recvMessage, true, []⟩ }

def junkItems : Option PErr → List Item
  | some e => [.bad e]
  | none => []

/-- What the listener reports when it reads on after a rejection. -/
def lerr : Option PErr → NegErr
  | some e => if e = .invalidMessage ∨ e = .ioUnexpectedEof then .failed else .protocolError e
  | none => .failed

theorem fits_na : fitsFrame .notAvailable = true := by decide
theorem fits_header : fitsFrame .header = true := by decide

section runs
attribute [local simp] runSys roundSt initSt stepA stepB procStep dialerProc listenerProc Dialer.mode
  Dialer.internal Dialer.onRecv Dialer.fail Dialer.init Listener.mode Listener.internal Listener.onRecv
  Listener.fail Chan.push Item.toRecv junkItems lerr fits_na fits_header

variable (junk : Option PErr) (v : Version) (lp : List Bytes)

theorem round_ok (q : Bytes) (qs : List Bytes) (hq : Sendable q) (hmem : q ∈ lp) (hv : qs ≠ [] ∨ v = .v1) :
    runSys (dialerProc junk) listenerProc 6 (roundSt v lp q qs) =
      { a := ⟨v, qs, .completed q, []⟩, b := ⟨lp, .done q, false, []⟩ } := by
  rcases hv with hv | hv
  · simp [hq.1, hq.2, hmem, hv]
  · subst hv; simp [hq.1, hq.2, hmem]

theorem round_na_next (q q' : Bytes) (qs : List Bytes) (hq : Sendable q) (hmem : q ∉ lp) :
    runSys (dialerProc junk) listenerProc 6 (roundSt v lp q (q' :: qs)) = roundSt v lp q' qs := by
  simp [hq.1, hq.2, hmem]

theorem round_na_last_v1 (q : Bytes) (hq : Sendable q) (hmem : q ∉ lp) :
    runSys (dialerProc junk) listenerProc 7 (roundSt .v1 lp q []) =
      { a := ⟨.v1, [], .failed .failed, []⟩, b := ⟨lp, .failed .failed, true, []⟩,
        ab := ⟨[], true⟩, ba := ⟨[], true⟩ } := by
  simp [hq.1, hq.2, hmem]

theorem round_lazy_ok (q : Bytes) (hq : Sendable q) (hmem : q ∈ lp) :
    runSys (dialerProc junk) listenerProc 6 (roundSt .v1Lazy lp q []) =
      { a := ⟨.v1Lazy, [], .completed q, []⟩, b := ⟨lp, .done q, false, []⟩,
        ab := ⟨junkItems junk, false⟩ } := by
  cases junk <;> simp [hq.1, hq.2, hmem]

theorem round_lazy_na (q : Bytes) (hq : Sendable q) (hmem : q ∉ lp) :
    runSys (dialerProc junk) listenerProc 7 (roundSt .v1Lazy lp q []) =
      { a := ⟨.v1Lazy, [], .failed .failed, []⟩, b := ⟨lp, .failed (lerr junk), true, []⟩,
        ab := ⟨[], true⟩, ba := ⟨[], true⟩ } := by
  cases junk with
  | none => simp [hq.1, hq.2, hmem]
  | some e =>
    by_cases he : e = .invalidMessage ∨ e = .ioUnexpectedEof
    · simp [hq.1, hq.2, hmem, he]
    · simp [hq.1, hq.2, hmem, he]

theorem init_empty :
    runSys (dialerProc junk) listenerProc 2 (initSt v [] lp) =
      { a := ⟨v, [], .failed .failed, [.header]⟩, b := ⟨lp, .failed .failed, false, []⟩,
        ab := ⟨[], true⟩, ba := ⟨[], true⟩ } := by
  simp

theorem first_ok (p : Bytes) (ps : List Bytes) (hp : Sendable p) (hmem : p ∈ lp) (hv : ps ≠ [] ∨ v = .v1) :
    runSys (dialerProc junk) listenerProc 11 (initSt v (p :: ps) lp) =
      { a := ⟨v, ps, .completed p, []⟩, b := ⟨lp, .done p, false, []⟩ } := by
  rcases hv with hv | hv
  · simp [hp.1, hp.2, hmem, hv]
  · subst hv; simp [hp.1, hp.2, hmem]

theorem first_na_next (p q : Bytes) (qs : List Bytes) (hp : Sendable p) (hmem : p ∉ lp) :
    runSys (dialerProc junk) listenerProc 11 (initSt v (p :: q :: qs) lp) = roundSt v lp q qs := by
  simp [hp.1, hp.2, hmem]

theorem first_na_last_v1 (p : Bytes) (hp : Sendable p) (hmem : p ∉ lp) :
    runSys (dialerProc junk) listenerProc 12 (initSt .v1 [p] lp) =
      { a := ⟨.v1, [], .failed .failed, []⟩, b := ⟨lp, .failed .failed, true, []⟩,
        ab := ⟨[], true⟩, ba := ⟨[], true⟩ } := by
  simp [hp.1, hp.2, hmem]

theorem first_lazy_ok (p : Bytes) (hp : Sendable p) (hmem : p ∈ lp) :
    runSys (dialerProc junk) listenerProc 11 (initSt .v1Lazy [p] lp) =
      { a := ⟨.v1Lazy, [], .completed p, []⟩, b := ⟨lp, .done p, false, []⟩,
        ab := ⟨junkItems junk, false⟩ } := by
  cases junk <;> simp [hp.1, hp.2, hmem]

theorem first_lazy_na (p : Bytes) (hp : Sendable p) (hmem : p ∉ lp) :
    runSys (dialerProc junk) listenerProc 12 (initSt .v1Lazy [p] lp) =
      { a := ⟨.v1Lazy, [], .failed .failed, []⟩, b := ⟨lp, .failed (lerr junk), true, []⟩,
        ab := ⟨[], true⟩, ba := ⟨[], true⟩ } := by
  cases junk with
  | none => simp [hp.1, hp.2, hmem]
  | some e =>
    by_cases he : e = .invalidMessage ∨ e = .ioUnexpectedEof
    · simp [hp.1, hp.2, hmem, he]
    · simp [hp.1, hp.2, hmem, he]

end runs


/-- Both sides have returned, and they agree: both report the dialer's first supported name, or
both report a failure (never a failed assertion). -/
def Agreed (ps lp : List Bytes) (t : Sys Dialer Listener) : Prop :=
  t.a.mode = .halted ∧ t.b.mode = .halted ∧
  match firstCommon ps lp with
  | some p => t.a.state = .completed p ∧ t.b.state = .done p
  | none => (∃ e, t.a.state = .failed e ∧ e ≠ .panic) ∧ (∃ e, t.b.state = .failed e ∧ e ≠ .panic)

theorem agreed_final (junk : Option PErr) {ps lp : List Bytes} {t : Sys Dialer Listener} (h : Agreed ps lp t) :
    Final (dialerProc junk) listenerProc t := by
  constructor
  · simp [stepA, procStep, dialerProc, h.1]
  · simp [stepB, procStep, listenerProc, h.2.1]

theorem firstCommon_cons (p : Bytes) (ps lp : List Bytes) :
    firstCommon (p :: ps) lp = if p ∈ lp then some p else firstCommon ps lp := by
  by_cases h : p ∈ lp <;> simp [firstCommon, List.find?, h]

theorem firstCommon_filter (ps ls : List Bytes) (h : ∀ p ∈ ps, p.head? = some 47) :
    firstCommon ps (ls.filter (fun n => n.head? = some 47)) = firstCommon ps ls := by
  induction ps with
  | nil => rfl
  | cons p ps ih =>
    rw [firstCommon_cons, firstCommon_cons, ih (fun x hx => h x (by simp [hx]))]
    have := h p (by simp)
    simp [List.mem_filter, this]

theorem lerr_ne_panic (junk : Option PErr) : lerr junk ≠ .panic := by
  cases junk with
  | none => simp [lerr]
  | some e => by_cases h : e = .invalidMessage ∨ e = .ioUnexpectedEof <;> simp [lerr, h]

theorem rounds (junk : Option PErr) (v : Version) (lp : List Bytes) :
    ∀ (qs : List Bytes) (q : Bytes), (∀ x ∈ q :: qs, Sendable x) →
      ∃ fuel, fuel ≤ 6 * (qs.length + 1) + 1 ∧
        Agreed (q :: qs) lp (runSys (dialerProc junk) listenerProc fuel (roundSt v lp q qs)) := by
  intro qs
  induction qs with
  | nil =>
    intro q hs
    have hq := hs q (by simp)
    by_cases hmem : q ∈ lp
    · cases v with
      | v1 =>
        refine ⟨6, by simp, ?_⟩
        rw [round_ok junk .v1 lp q [] hq hmem (Or.inr rfl)]
        simp [Agreed, firstCommon_cons, hmem, Dialer.mode, Listener.mode]
      | v1Lazy =>
        refine ⟨6, by simp, ?_⟩
        rw [round_lazy_ok junk lp q hq hmem]
        simp [Agreed, firstCommon_cons, hmem, Dialer.mode, Listener.mode]
    · cases v with
      | v1 =>
        refine ⟨7, by simp, ?_⟩
        rw [round_na_last_v1 junk lp q hq hmem]
        simp [Agreed, firstCommon_cons, hmem, Dialer.mode, Listener.mode, firstCommon]
      | v1Lazy =>
        refine ⟨7, by simp, ?_⟩
        rw [round_lazy_na junk lp q hq hmem]
        simp [Agreed, firstCommon_cons, hmem, Dialer.mode, Listener.mode, firstCommon, lerr_ne_panic]
  | cons q' qs ih =>
    intro q hs
    have hq := hs q (by simp)
    by_cases hmem : q ∈ lp
    · refine ⟨6, by simp; omega, ?_⟩
      rw [round_ok junk v lp q (q' :: qs) hq hmem (Or.inl (by simp))]
      simp [Agreed, firstCommon_cons, hmem, Dialer.mode, Listener.mode]
    · obtain ⟨fuel, hf, hag⟩ := ih q' (fun x hx => hs x (by simp at hx ⊢; right; exact hx))
      refine ⟨6 + fuel, by simp at hf ⊢; omega, ?_⟩
      rw [runSys_add, round_na_next junk v lp q q' qs hq hmem]
      rw [Agreed, firstCommon_cons, if_neg hmem]
      exact hag

/-- The canonical execution from the start state ends with both sides agreeing. -/
theorem canonical (junk : Option PErr) (v : Version) (lp : List Bytes) (ps : List Bytes)
    (hs : ∀ x ∈ ps, Sendable x) :
    ∃ fuel, fuel ≤ 6 * ps.length + 7 ∧
      Agreed ps lp (runSys (dialerProc junk) listenerProc fuel (initSt v ps lp)) := by
  match ps, hs with
  | [], _ =>
    refine ⟨2, by simp, ?_⟩
    rw [init_empty]
    simp [Agreed, firstCommon, Dialer.mode, Listener.mode]
  | [p], hs =>
    have hp := hs p (by simp)
    by_cases hmem : p ∈ lp
    · cases v with
      | v1 =>
        refine ⟨11, by simp, ?_⟩
        rw [first_ok junk .v1 lp p [] hp hmem (Or.inr rfl)]
        simp [Agreed, firstCommon_cons, hmem, Dialer.mode, Listener.mode]
      | v1Lazy =>
        refine ⟨11, by simp, ?_⟩
        rw [first_lazy_ok junk lp p hp hmem]
        simp [Agreed, firstCommon_cons, hmem, Dialer.mode, Listener.mode]
    · cases v with
      | v1 =>
        refine ⟨12, by simp, ?_⟩
        rw [first_na_last_v1 junk lp p hp hmem]
        simp [Agreed, firstCommon_cons, hmem, Dialer.mode, Listener.mode, firstCommon]
      | v1Lazy =>
        refine ⟨12, by simp, ?_⟩
        rw [first_lazy_na junk lp p hp hmem]
        simp [Agreed, firstCommon_cons, hmem, Dialer.mode, Listener.mode, firstCommon, lerr_ne_panic]
  | p :: q :: qs, hs =>
    have hp := hs p (by simp)
    by_cases hmem : p ∈ lp
    · refine ⟨11, by simp; omega, ?_⟩
      rw [first_ok junk v lp p (q :: qs) hp hmem (Or.inl (by simp))]
      simp [Agreed, firstCommon_cons, hmem, Dialer.mode, Listener.mode]
    · obtain ⟨fuel, hf, hag⟩ := rounds junk v lp qs q (fun x hx => hs x (by simp at hx ⊢; right; exact hx))
      refine ⟨11 + fuel, by simp at hf ⊢; omega, ?_⟩
      rw [runSys_add, first_na_next junk v lp p q qs hp hmem]
      rw [Agreed, firstCommon_cons, if_neg hmem]
      exact hag

theorem good_init (junk : Option PErr) (v : Version) (ps lp : List Bytes) :
    Good (dialerProc junk) listenerProc (initSt v ps lp) := by
  simp [Good, initSt]

end Litep2pVerif.Mss
