import Litep2pVerif.Model.Mss.Negotiate
/-! Generic facts about the composition of two processes over two FIFO channels: the diamond
property, and from it: if one execution reaches a final state in `n` steps, every execution has at
most `n` steps and every maximal execution ends in that same state after exactly `n` steps. -/
namespace Litep2pVerif.Mss

variable {σ τ : Type}

/-- A process that drops its I/O object has returned. -/
structure Proc.CloseHalts (P : Proc σ) : Prop where
  internal : ∀ x, (P.internal x).2.2 = true → P.mode (P.internal x).1 = .halted
  onRecv : ∀ x r, (P.onRecv x r).2.2 = true → P.mode (P.onRecv x r).1 = .halted

/-- A closed channel belongs to a halted process. -/
def Good (P : Proc σ) (Q : Proc τ) (s : Sys σ τ) : Prop :=
  (s.ab.closed = true → P.mode s.a = .halted) ∧ (s.ba.closed = true → Q.mode s.b = .halted)

theorem procStep_closed {P : Proc σ} (hP : P.CloseHalts) (x : σ) (inp out : Chan)
    (hg : out.closed = true → P.mode x = .halted) (r : σ × Chan × Chan) (h : procStep P x inp out = some r) :
    (r.2.2.closed = true → P.mode r.1 = .halted) ∧ r.2.1.closed = inp.closed := by
  unfold procStep at h
  split at h
  · cases h
  · rename_i hm
    injection h with h; subst h
    refine ⟨?_, rfl⟩
    intro hc
    simp only [Chan.push, Bool.or_eq_true] at hc
    rcases hc with hc | hc
    · rw [hg hc] at hm; cases hm
    · exact hP.internal x hc
  · rename_i hm
    split at h
    · injection h with h; subst h
      refine ⟨?_, rfl⟩
      intro hc
      simp only [Chan.push, Bool.or_eq_true] at hc
      rcases hc with hc | hc
      · rw [hg hc] at hm; cases hm
      · exact hP.onRecv x _ hc
    · split at h
      · injection h with h; subst h
        refine ⟨?_, rfl⟩
        intro hc
        simp only [Chan.push, Bool.or_eq_true] at hc
        rcases hc with hc | hc
        · rw [hg hc] at hm; cases hm
        · exact hP.onRecv x _ hc
      · cases h

theorem good_step {P : Proc σ} {Q : Proc τ} (hP : P.CloseHalts) (hQ : Q.CloseHalts) {s t : Sys σ τ}
    (hg : Good P Q s) (h : Step P Q s t) : Good P Q t := by
  rcases h with h | h
  · unfold stepA at h
    cases hps : procStep P s.a s.ba s.ab with
    | none => rw [hps] at h; cases h
    | some r =>
      rw [hps] at h; injection h with h; subst h
      have := procStep_closed hP s.a s.ba s.ab hg.1 r hps
      exact ⟨this.1, by simp only; rw [this.2]; exact hg.2⟩
  · unfold stepB at h
    cases hps : procStep Q s.b s.ab s.ba with
    | none => rw [hps] at h; cases h
    | some r =>
      rw [hps] at h; injection h with h; subst h
      have := procStep_closed hQ s.b s.ab s.ba hg.2 r hps
      exact ⟨by simp only; rw [this.2]; exact hg.1, this.1⟩

/-- A process step does not depend on what the peer appends behind the input it reads (the peer is
not halted, so the channel is open or non-empty), and commutes with the peer consuming from the
channel the process writes to. -/
theorem procStep_mono (P : Proc σ) (x : σ) (inp out : Chan) (r : σ × Chan × Chan)
    (h : procStep P x inp out = some r) (items : List Item) (cl : Bool)
    (hopen : inp.closed = false ∨ items = []) (out' : Chan) (k : Nat) (hout : out'.q = out.q.drop k)
    (hcl : out'.closed = out.closed) (hk : k ≤ out.q.length) :
    procStep P x (inp.push items cl) out' =
      some (r.1, r.2.1.push items cl, { q := r.2.2.q.drop k, closed := r.2.2.closed }) := by
  unfold procStep at h ⊢
  split at h
  · cases h
  · injection h with h; subst h
    simp only [Chan.push, hcl, hout, List.drop_append_of_le_length hk]
  · cases hq : inp.q with
    | cons i rest =>
      rw [hq] at h
      simp only at h
      injection h with h; subst h
      simp only [Chan.push, hq, List.cons_append, hcl, hout, List.drop_append_of_le_length hk]
    | nil =>
      rw [hq] at h
      simp only at h
      split at h
      · rename_i hc
        rcases hopen with ho | ho
        · rw [ho] at hc; cases hc
        · subst ho
          injection h with h; subst h
          simp only [Chan.push, hq, List.append_nil, hc, Bool.true_or, if_true, hcl, hout,
            List.drop_append_of_le_length hk]
      · cases h


theorem procStep_shape (P : Proc σ) (x : σ) (inp out : Chan) (r : σ × Chan × Chan)
    (h : procStep P x inp out = some r) :
    P.mode x ≠ .halted ∧
    ∃ (k : Nat) (items : List Item) (cl : Bool), k ≤ inp.q.length ∧
      r.2.1 = { q := inp.q.drop k, closed := inp.closed } ∧ r.2.2 = out.push items cl := by
  unfold procStep at h
  split at h
  · cases h
  · rename_i hm
    injection h with h; subst h
    exact ⟨by rw [hm]; simp, 0, _, _, by simp, by simp, rfl⟩
  · rename_i hm
    refine ⟨by rw [hm]; simp, ?_⟩
    split at h
    · rename_i i rest hq
      injection h with h; subst h
      exact ⟨1, _, _, by simp [hq], by simp [hq], rfl⟩
    · split at h
      · injection h with h; subst h
        exact ⟨0, _, _, by simp, by simp, rfl⟩
      · cases h

/-- **Diamond.** Steps of the two processes commute. -/
theorem diamond {P : Proc σ} {Q : Proc τ} {s t1 t2 : Sys σ τ} (hg : Good P Q s)
    (hA : stepA P s = some t1) (hB : stepB Q s = some t2) :
    ∃ u, stepB Q t1 = some u ∧ stepA P t2 = some u := by
  unfold stepA at hA
  unfold stepB at hB
  cases hpa : procStep P s.a s.ba s.ab with
  | none => rw [hpa] at hA; cases hA
  | some rA =>
    cases hpb : procStep Q s.b s.ab s.ba with
    | none => rw [hpb] at hB; cases hB
    | some rB =>
      rw [hpa] at hA; rw [hpb] at hB
      injection hA with hA; injection hB with hB
      subst hA hB
      obtain ⟨hmA, kA, itA, clA, hkA, hA1, hA2⟩ := procStep_shape P _ _ _ _ hpa
      obtain ⟨hmB, kB, itB, clB, hkB, hB1, hB2⟩ := procStep_shape Q _ _ _ _ hpb
      have hopenA : s.ab.closed = false := by
        cases hc : s.ab.closed with
        | false => rfl
        | true => exact absurd (hg.1 hc) hmA
      have hopenB : s.ba.closed = false := by
        cases hc : s.ba.closed with
        | false => rfl
        | true => exact absurd (hg.2 hc) hmB
      have h1 := procStep_mono Q s.b s.ab s.ba rB hpb itA clA (Or.inl hopenA) rA.2.1 kA
        (by rw [hA1]) (by rw [hA1]) hkA
      have h2 := procStep_mono P s.a s.ba s.ab rA hpa itB clB (Or.inl hopenB) rB.2.1 kB
        (by rw [hB1]) (by rw [hB1]) hkB
      refine ⟨{ a := rA.1, b := rB.1, ab := rB.2.1.push itA clA,
                ba := { q := rB.2.2.q.drop kA, closed := rB.2.2.closed } }, ?_, ?_⟩
      · unfold stepB
        simp only
        rw [hA2, h1]
        rfl
      · unfold stepA
        simp only
        rw [hB2, h2]
        simp only [Option.map_some]
        congr 1
        simp only [hA1, hA2, hB1, hB2, Chan.push, List.drop_append_of_le_length hkA,
          List.drop_append_of_le_length hkB]


theorem final_no_step {P : Proc σ} {Q : Proc τ} {s t : Sys σ τ} (hf : Final P Q s) (h : Step P Q s t) : False := by
  rcases h with h | h
  · rw [hf.1] at h; cases h
  · rw [hf.2] at h; cases h

theorem confluent_core {P : Proc σ} {Q : Proc τ} (hP : P.CloseHalts) (hQ : Q.CloseHalts) :
    ∀ (n : Nat) (s t : Sys σ τ), Good P Q s → Exec P Q s n t → Final P Q t →
      ∀ s', Step P Q s s' → ∃ m, n = m + 1 ∧ Exec P Q s' m t := by
  intro n
  induction n with
  | zero =>
    intro s t _ hex hfin s' hstep
    cases hex
    exact (final_no_step hfin hstep).elim
  | succ m ih =>
    intro s t hg hex hfin s' hstep
    cases hex with
    | step hst hrest =>
      rename_i s1
      have same : s' = s1 → ∃ m', m + 1 = m' + 1 ∧ Exec P Q s' m' t := by
        intro h; subst h; exact ⟨m, rfl, hrest⟩
      have cross : ∀ {x y : Sys σ τ}, stepA P s = some x → stepB Q s = some y →
          Exec P Q x m t ∨ Exec P Q y m t → Exec P Q x m t ∧ Exec P Q y m t := by
        intro x y hx hy hor
        obtain ⟨u, hu1, hu2⟩ := diamond hg hx hy
        have hgx : Good P Q x := good_step hP hQ hg (Or.inl hx)
        have hgy : Good P Q y := good_step hP hQ hg (Or.inr hy)
        rcases hor with hor | hor
        · obtain ⟨m', hm', hex'⟩ := ih x t hgx hor hfin u (Or.inr hu1)
          subst hm'
          exact ⟨hor, Exec.step (Or.inl hu2) hex'⟩
        · obtain ⟨m', hm', hex'⟩ := ih y t hgy hor hfin u (Or.inl hu2)
          subst hm'
          exact ⟨Exec.step (Or.inr hu1) hex', hor⟩
      rcases hstep with h' | h' <;> rcases hst with h1 | h1
      · exact same (by rw [h'] at h1; injection h1)
      · exact ⟨m, rfl, (cross h' h1 (Or.inr hrest)).1⟩
      · exact ⟨m, rfl, (cross h1 h' (Or.inl hrest)).2⟩
      · exact same (by rw [h'] at h1; injection h1)

/-- **Confluence and bounded length.** If some execution from `s` reaches a final state `t` in `n`
transitions, then every execution from `s` has at most `n` transitions, and every maximal one ends
in `t` after exactly `n` transitions. -/
theorem confluent {P : Proc σ} {Q : Proc τ} (hP : P.CloseHalts) (hQ : Q.CloseHalts) :
    ∀ (k n : Nat) (s t u : Sys σ τ), Good P Q s → Exec P Q s n t → Final P Q t → Exec P Q s k u →
      k ≤ n ∧ (Final P Q u → u = t ∧ k = n) := by
  intro k
  induction k with
  | zero =>
    intro n s t u _ hex hfin hk
    cases hk
    refine ⟨Nat.zero_le _, fun hfs => ?_⟩
    cases hex with
    | refl => exact ⟨rfl, rfl⟩
    | step hst _ => exact (final_no_step hfs hst).elim
  | succ k ih =>
    intro n s t u hg hex hfin hk
    cases hk with
    | step hst hrest =>
      rename_i s1
      obtain ⟨m, hm, hex'⟩ := confluent_core hP hQ n s t hg hex hfin s1 hst
      subst hm
      have := ih m s1 t u (good_step hP hQ hg hst) hex' hfin hrest
      exact ⟨by omega, fun hfu => ⟨(this.2 hfu).1, by have := (this.2 hfu).2; omega⟩⟩

/-- The deterministic scheduler computes an execution. -/
theorem runSys_exec (P : Proc σ) (Q : Proc τ) :
    ∀ (fuel : Nat) (s : Sys σ τ), ∃ n, n ≤ fuel ∧ Exec P Q s n (runSys P Q fuel s) := by
  intro fuel
  induction fuel with
  | zero => intro s; exact ⟨0, Nat.le_refl _, Exec.refl s⟩
  | succ f ih =>
    intro s
    rw [runSys]
    cases hA : stepA P s with
    | some t =>
      obtain ⟨n, hn, hex⟩ := ih t
      exact ⟨n + 1, by omega, Exec.step (Or.inl hA) hex⟩
    | none =>
      cases hB : stepB Q s with
      | some t =>
        obtain ⟨n, hn, hex⟩ := ih t
        exact ⟨n + 1, by omega, Exec.step (Or.inr hB) hex⟩
      | none => exact ⟨0, by omega, Exec.refl s⟩

theorem runSys_add (P : Proc σ) (Q : Proc τ) :
    ∀ (a b : Nat) (s : Sys σ τ), runSys P Q (a + b) s = runSys P Q b (runSys P Q a s) := by
  intro a
  induction a with
  | zero => intro b s; simp [runSys]
  | succ a ih =>
    intro b s
    rw [show a + 1 + b = (a + b) + 1 by omega, runSys, runSys]
    cases hA : stepA P s with
    | some t => simp only; exact ih b t
    | none =>
      cases hB : stepB Q s with
      | some t => simp only; exact ih b t
      | none =>
        simp only
        induction b with
        | zero => rfl
        | succ b _ => rw [runSys, hA, hB]

end Litep2pVerif.Mss
