import Litep2pVerif.Proofs.Mss.Framing
/-! The write half of `LengthDelimited` over a carrier that may stage written bytes until its flush
completes: nothing is lost or reordered, `Ready` from `Sink::poll_flush` means that the inner flush
completed and that everything written before is visible to the peer (for every schedule of inner
`Pending`/`Ready` answers and every number of polls), and a flush that is polled again completes once
the carrier completes one. -/
namespace Litep2pVerif.Mss
open Litep2pVerif

/-- Everything the writer has been given and the peer has not been denied: on the wire, staged in
the carrier, or still in the write buffer — in this order. -/
def SinkIo.pipeline (s : SinkIo) : Bytes := s.c.visible ++ s.c.staged ++ s.w.writeBuffer

theorem accept_pipeline (c : WCarrier) (bs : Bytes) :
    (c.accept bs).visible ++ (c.accept bs).staged = c.visible ++ c.staged ++ bs := by
  unfold WCarrier.accept
  split <;> simp

theorem accept_wb (c : WCarrier) (bs : Bytes) : (c.accept bs).wb = c.wb ∧ (c.accept bs).closed = c.closed := by
  unfold WCarrier.accept
  split <;> simp

theorem accept_visible_wb (c : WCarrier) (bs : Bytes) (h : c.wb = true) : (c.accept bs).visible = c.visible := by
  simp [WCarrier.accept, h]

theorem accept_visible_mono (c : WCarrier) (bs : Bytes) : ∃ t, (c.accept bs).visible = c.visible ++ t := by
  unfold WCarrier.accept
  split
  · exact ⟨[], by simp⟩
  · exact ⟨c.staged ++ bs, by simp⟩

/-- `poll_write_buffer` over the carrier never loses, duplicates or reorders a byte; `Ready` means the
write buffer is empty; on a write-behind carrier it makes nothing visible; what is visible is never
retracted. -/
theorem pollWriteBufferC_exact :
    ∀ (ws : List Nat) (w : Writer) (c : WCarrier),
      (pollWriteBufferC w c ws).2.1.visible ++ (pollWriteBufferC w c ws).2.1.staged ++
          (pollWriteBufferC w c ws).1.writeBuffer = c.visible ++ c.staged ++ w.writeBuffer ∧
      ((pollWriteBufferC w c ws).2.2.2 = .ready → (pollWriteBufferC w c ws).1.writeBuffer = []) ∧
      (c.wb = true → (pollWriteBufferC w c ws).2.1.visible = c.visible) ∧
      (∃ t, (pollWriteBufferC w c ws).2.1.visible = c.visible ++ t) ∧
      (pollWriteBufferC w c ws).2.1.wb = c.wb := by
  intro ws
  induction ws with
  | nil =>
    intro w c
    by_cases h : w.writeBuffer = [] <;> simp [pollWriteBufferC, h]
  | cons ch s ih =>
    intro w c
    by_cases h : w.writeBuffer = []
    · simp [pollWriteBufferC, h]
    · by_cases hch : ch = 0
      · simp [pollWriteBufferC, h, hch]
      · rw [pollWriteBufferC]
        simp only [h, hch, if_false]
        obtain ⟨h1, h2, h3, ⟨t, h4⟩, h5⟩ := ih ⟨w.writeBuffer.drop (min ch w.writeBuffer.length)⟩
          (c.accept (w.writeBuffer.take (min ch w.writeBuffer.length)))
        refine ⟨?_, h2, ?_, ?_, ?_⟩
        · rw [h1, accept_pipeline, List.append_assoc, List.take_append_drop]
        · intro hwb
          rw [h3 (by rw [(accept_wb _ _).1]; exact hwb), accept_visible_wb _ _ hwb]
        · obtain ⟨t', ht'⟩ := accept_visible_mono c (w.writeBuffer.take (min ch w.writeBuffer.length))
          exact ⟨t' ++ t, by rw [h4, ht', List.append_assoc]⟩
        · rw [h5, (accept_wb _ _).1]

/-- Budget of one `poll_write_buffer`: if the schedule still holds as many non-`Pending` choices as
the write buffer has bytes, this also holds afterwards; no choices are created; a `Pending` result
with a non-empty schedule has used up at least one choice. -/
theorem pollWriteBufferC_budget :
    ∀ (ws : List Nat) (w : Writer) (c : WCarrier), w.writeBuffer.length ≤ nz ws →
      (pollWriteBufferC w c ws).1.writeBuffer.length ≤ nz (pollWriteBufferC w c ws).2.2.1 ∧
      (pollWriteBufferC w c ws).2.2.1.length ≤ ws.length ∧
      ((pollWriteBufferC w c ws).2.2.2 = .pending → (pollWriteBufferC w c ws).2.2.1.length < ws.length) := by
  intro ws
  induction ws with
  | nil =>
    intro w c hb
    have : w.writeBuffer = [] := List.eq_nil_of_length_eq_zero (by simpa [nz] using hb)
    simp [pollWriteBufferC, this, nz]
  | cons ch s ih =>
    intro w c hb
    by_cases h : w.writeBuffer = []
    · simp [pollWriteBufferC, h]
    · by_cases hch : ch = 0
      · subst hch
        rw [nz_cons_zero] at hb
        simp [pollWriteBufferC, h, hb]
      · rw [pollWriteBufferC]
        simp only [h, hch, if_false]
        rw [nz_cons_pos ch s hch] at hb
        have hpos : 0 < w.writeBuffer.length := List.length_pos_iff.mpr h
        obtain ⟨h1, h2, h3⟩ := ih ⟨w.writeBuffer.drop (min ch w.writeBuffer.length)⟩
          (c.accept (w.writeBuffer.take (min ch w.writeBuffer.length)))
          (by simp only [List.length_drop]; omega)
        exact ⟨h1, by simp only [List.length_cons]; omega, fun hp => by simp only [List.length_cons]; have := h3 hp; omega⟩

/-- **One poll.** When `Sink::poll_flush` returns `Ready(Ok)`, the write buffer is empty, nothing is
staged in the carrier any more, and the peer sees everything: what it saw before, then what was
staged, then what was in the write buffer. -/
theorem sinkPollFlush_ready (s : SinkIo) (h : (sinkPollFlush s).2 = .ready) :
    (sinkPollFlush s).1.w.writeBuffer = [] ∧ (sinkPollFlush s).1.c.staged = [] ∧
    (sinkPollFlush s).1.c.visible = s.pipeline := by
  obtain ⟨h1, h2, _⟩ := pollWriteBufferC_exact s.ws s.w s.c
  unfold sinkPollFlush at h ⊢
  generalize pollWriteBufferC s.w s.c s.ws = p at h1 h2 h ⊢
  obtain ⟨w', c', ws', res⟩ := p
  cases res with
  | pending => simp at h
  | ready =>
    simp only at h1 h2 h ⊢
    have hw := h2 trivial
    cases hfs : s.fs with
    | nil => simp [hfs] at h
    | cons a fs' =>
      cases a with
      | false => simp [hfs] at h
      | true =>
        simp only [WCarrier.flushed, SinkIo.pipeline]
        rw [hw, List.append_nil] at h1
        exact ⟨hw, trivial, by rw [h1]⟩

/-- Any poll, whatever its answer: the pipeline is conserved and the visible bytes only grow. -/
theorem sinkPollFlush_pipeline (s : SinkIo) :
    (sinkPollFlush s).1.pipeline = s.pipeline ∧ (∃ t, (sinkPollFlush s).1.c.visible = s.c.visible ++ t) := by
  obtain ⟨h1, _, _, ⟨t, h4⟩, _⟩ := pollWriteBufferC_exact s.ws s.w s.c
  unfold sinkPollFlush
  generalize pollWriteBufferC s.w s.c s.ws = p at h1 h4 ⊢
  obtain ⟨w', c', ws', res⟩ := p
  simp only at h1 h4
  cases res with
  | pending => exact ⟨h1, t, h4⟩
  | ready =>
    simp only
    cases s.fs with
    | nil => exact ⟨h1, t, h4⟩
    | cons a fs' =>
      cases a with
      | false => exact ⟨h1, t, h4⟩
      | true =>
        simp only [SinkIo.pipeline, WCarrier.flushed, List.append_nil] at h1 ⊢
        exact ⟨h1, t ++ c'.staged, by rw [h4, List.append_assoc]⟩

/-- **Any number of polls.** When a flush that was polled again after every `Pending` finally
returns `Ready(Ok)`, the peer sees everything that was written, staged or buffered at its start. -/
theorem flushRun_ready : ∀ (fuel : Nat) (s : SinkIo), (flushRun fuel s).2 = .ready →
    (flushRun fuel s).1.w.writeBuffer = [] ∧ (flushRun fuel s).1.c.staged = [] ∧
    (flushRun fuel s).1.c.visible = s.pipeline := by
  intro fuel
  induction fuel with
  | zero => intro s h; simp [flushRun] at h
  | succ n ih =>
    intro s h
    have h1 := sinkPollFlush_ready s
    have h2 := (sinkPollFlush_pipeline s).1
    rw [flushRun] at h ⊢
    generalize sinkPollFlush s = p at h h1 h2 ⊢
    obtain ⟨s', res⟩ := p
    cases res with
    | ready => exact h1 rfl
    | pending =>
      simp only at h h2 ⊢
      rw [← h2]
      exact ih s' h

/-- While the flush has not returned `Ready`, a write-behind carrier shows the peer nothing new. -/
theorem flushRun_pending_wb : ∀ (fuel : Nat) (s : SinkIo), s.c.wb = true → (flushRun fuel s).2 = .pending →
    (flushRun fuel s).1.c.visible = s.c.visible := by
  intro fuel
  induction fuel with
  | zero => intro s _ _; rfl
  | succ n ih =>
    intro s hwb h
    obtain ⟨_, _, h3, _, h5⟩ := pollWriteBufferC_exact s.ws s.w s.c
    have h3 := h3 hwb
    rw [flushRun] at h ⊢
    have hstep : (sinkPollFlush s).2 = .pending → (sinkPollFlush s).1.c.visible = s.c.visible ∧ (sinkPollFlush s).1.c.wb = true := by
      unfold sinkPollFlush
      generalize pollWriteBufferC s.w s.c s.ws = p at h3 h5 ⊢
      obtain ⟨w', c', ws', res⟩ := p
      simp only at h3 h5
      cases res with
      | pending => intro _; exact ⟨h3, by rw [h5]; exact hwb⟩
      | ready =>
        simp only
        cases s.fs with
        | nil => intro _; exact ⟨h3, by rw [h5]; exact hwb⟩
        | cons a fs' =>
          cases a with
          | false => intro _; exact ⟨h3, by rw [h5]; exact hwb⟩
          | true => intro hh; simp at hh
    generalize sinkPollFlush s = p at h hstep ⊢
    obtain ⟨s', res⟩ := p
    cases res with
    | ready => simp at h
    | pending =>
      simp only at h hstep ⊢
      obtain ⟨hv, hw⟩ := hstep trivial
      rw [← hv]
      exact ih s' hw h

/-- **The flush completes.** The carrier takes every byte eventually (the write schedule holds as
many non-`Pending` choices as the write buffer has bytes) and completes a flush eventually (some
answer of the flush schedule is `Ready`), and the caller polls again after every `Pending` (`fuel`
exceeds the length of the two schedules). Then the flush returns `Ready(Ok)`.
Measure: `|ws| + |fs|` — every `Pending` poll uses up a choice or an answer. -/
theorem flushRun_completes : ∀ (fuel : Nat) (s : SinkIo), s.w.writeBuffer.length ≤ nz s.ws → true ∈ s.fs →
    s.ws.length + s.fs.length < fuel → (flushRun fuel s).2 = .ready := by
  intro fuel
  induction fuel with
  | zero => intro s _ _ h; omega
  | succ n ih =>
    intro s hb hf hfuel
    obtain ⟨b1, b2, b3⟩ := pollWriteBufferC_budget s.ws s.w s.c hb
    rw [flushRun]
    have hstep : (sinkPollFlush s).2 = .pending →
        (sinkPollFlush s).1.w.writeBuffer.length ≤ nz (sinkPollFlush s).1.ws ∧ true ∈ (sinkPollFlush s).1.fs ∧
        (sinkPollFlush s).1.ws.length + (sinkPollFlush s).1.fs.length < s.ws.length + s.fs.length := by
      unfold sinkPollFlush
      generalize pollWriteBufferC s.w s.c s.ws = p at b1 b2 b3 ⊢
      obtain ⟨w', c', ws', res⟩ := p
      simp only at b1 b2 b3
      cases res with
      | pending => intro _; exact ⟨b1, hf, by have := b3 rfl; simp only; omega⟩
      | ready =>
        simp only
        cases hfs : s.fs with
        | nil => rw [hfs] at hf; simp at hf
        | cons a fs' =>
          cases a with
          | true => intro hh; simp at hh
          | false =>
            intro _
            rw [hfs] at hf
            refine ⟨b1, by simpa using hf, by simp only [List.length_cons]; omega⟩
    generalize sinkPollFlush s = p at hstep ⊢
    obtain ⟨s', res⟩ := p
    cases res with
    | ready => rfl
    | pending =>
      simp only at hstep ⊢
      obtain ⟨h1, h2, h3⟩ := hstep trivial
      exact ih s' h1 h2 (by omega)

/-- `start_send` of a list of frames. -/
def sendAll : Writer → List Bytes → Except FrameErr Writer
  | w, [] => .ok w
  | w, f :: fs =>
    match startSend w f with
    | .ok w' => sendAll w' fs
    | .error e => .error e

theorem sendAll_wire : ∀ (fs : List Bytes) (w : Writer), (∀ f ∈ fs, f.length ≤ maxFrameSize) →
    sendAll w fs = .ok ⟨w.writeBuffer ++ wire fs⟩ := by
  intro fs
  induction fs with
  | nil => intro w _; simp [sendAll, wire]
  | cons f fs ih =>
    intro w h
    have hf := h f (by simp)
    have hlt : f.length < 2 ^ 16 := by rw [maxFrameSize_eq] at hf; omega
    simp only [sendAll, startSend, hlt, hf, and_self, if_true]
    rw [ih _ (fun g hg => h g (by simp [hg])), wire_cons, List.append_assoc]

end Litep2pVerif.Mss
