import Litep2pVerif.Model.Conn.Permits
import Litep2pVerif.Proofs.Conn.Loop
/-! Lemmas about the permit-aware loop (`Model/Conn/Permits.lean`): the reporting invariant of `Loop.lean`
carries over, a busy substream is a strong sender, a negotiating substream stays in the table. -/
namespace Litep2pVerif.Conn

/-! ### the `Loop` part of every transition -/

theorem cleanup_loop (s : TLoop) : (cleanup s).loop = s.loop := by
  unfold cleanup; split <;> rfl

theorem cleanup_of_running (s : TLoop) (h : s.loop.exited = none) : cleanup s = s := by
  unfold cleanup; simp [h]

theorem cleanup_accepted (s : TLoop) : (cleanup s).accepted = s.accepted := by
  unfold cleanup; split <;> rfl

theorem pinv_pending (l : Loop) (n : Nat) (h : PInv l) : PInv { l with pending := n } := h

theorem lstep_pinv (s : TLoop) (e : LoopEv) (h : PInv s.loop) : PInv (lstep s e) :=
  loopStep_pinv _ e (pinv_pending s.loop _ h)

theorem estep_pinv (s : TLoop) (o : EnvOp) (h : PInv s.loop) : PInv (estep s o) :=
  step_pinv s.loop (.env o) h

/-- The `Loop` component after a transition is the old one, or a `loopStep`, or an environment `step`. -/
theorem tstep_loop (s : TLoop) (l : TLabel) :
    (tstep s l).loop = s.loop ∨ (∃ e, (tstep s l).loop = lstep s e) ∨ (∃ o, (tstep s l).loop = estep s o) := by
  cases l with
  | accept =>
    simp only [tstep, tAccept]
    split
    · exact Or.inl rfl
    · split
      · exact Or.inr (Or.inl ⟨_, by rw [cleanup_loop]⟩)
      · exact Or.inr (Or.inl ⟨_, by rw [cleanup_loop]⟩)
  | yamuxEof =>
    simp only [tstep]; split
    · exact Or.inr (Or.inl ⟨_, by rw [cleanup_loop]⟩)
    · exact Or.inl rfl
  | yamuxErr =>
    simp only [tstep]; split
    · exact Or.inr (Or.inl ⟨_, by rw [cleanup_loop]⟩)
    · exact Or.inl rfl
  | negOk k p =>
    simp only [tstep, tNegOk]
    split
    · exact Or.inl rfl
    · split
      · exact Or.inl rfl
      · split
        · exact Or.inl rfl
        · exact Or.inr (Or.inl ⟨_, by rw [cleanup_loop]⟩)
  | negOkFb k p f =>
    simp only [tstep, tNegOk]
    split
    · exact Or.inl rfl
    · split
      · exact Or.inl rfl
      · split
        · exact Or.inl rfl
        · exact Or.inr (Or.inl ⟨_, by rw [cleanup_loop]⟩)
  | negFail k =>
    simp only [tstep, tNegFail]
    split
    · exact Or.inl rfl
    · split
      · exact Or.inl rfl
      · split
        · exact Or.inl rfl
        · exact Or.inr (Or.inl ⟨_, by rw [cleanup_loop]⟩)
  | yamuxOpened k =>
    simp only [tstep, tYamuxOpened]
    split
    · exact Or.inl rfl
    · split
      · exact Or.inl rfl
      · split <;> exact Or.inl rfl
  | takeCmd =>
    simp only [tstep, tTakeCmd]
    split
    · exact Or.inl rfl
    · split
      · exact Or.inl rfl
      · exact Or.inr (Or.inl ⟨_, by rw [cleanup_loop]⟩)
      · exact Or.inr (Or.inl ⟨_, by rw [cleanup_loop]⟩)
  | idleExit =>
    simp only [tstep, tIdleExit]
    split
    · exact Or.inr (Or.inl ⟨_, by rw [cleanup_loop]⟩)
    · exact Or.inl rfl
  | recv i =>
    simp only [tstep, tRecv]
    split
    · exact Or.inl rfl
    · split
      · exact Or.inl rfl
      · split
        · exact Or.inl rfl
        · exact Or.inr (Or.inr ⟨_, by rw [cleanup_loop]⟩)
        · exact Or.inr (Or.inr ⟨_, by rw [cleanup_loop]⟩)
        · exact Or.inr (Or.inr ⟨_, by rw [cleanup_loop]⟩)
  | recvMgr => exact Or.inr (Or.inr ⟨_, by simp only [tstep]; rw [cleanup_loop]⟩)
  | downgrade i => simp only [tstep]; split <;> exact Or.inl rfl
  | upgrade i => simp only [tstep]; split <;> exact Or.inl rfl
  | dropHandle i => simp only [tstep]; split <;> exact Or.inl rfl
  | localOpen i => simp only [tstep]; split <;> exact Or.inl rfl
  | forceClose i => simp only [tstep]; split <;> exact Or.inl rfl
  | dropSub i => simp only [tstep]; split <;> (try split) <;> exact Or.inl rfl
  | halfClose i => simp only [tstep]; split <;> (try split) <;> exact Or.inl rfl
  | fill i => exact Or.inr (Or.inr ⟨_, by simp only [tstep]; rw [cleanup_loop]⟩)
  | fillMgr => exact Or.inr (Or.inr ⟨_, by simp only [tstep]; rw [cleanup_loop]⟩)
  | dropRx i => exact Or.inr (Or.inr ⟨_, by simp only [tstep]; rw [cleanup_loop]⟩)

theorem tstep_pinv (s : TLoop) (l : TLabel) (h : PInv s.loop) : PInv (tstep s l).loop := by
  rcases tstep_loop s l with e | ⟨e, he⟩ | ⟨o, ho⟩
  · rw [e]; exact h
  · rw [he]; exact lstep_pinv s e h
  · rw [ho]; exact estep_pinv s o h

theorem trun_pinv (ls : List TLabel) : ∀ s : TLoop, PInv s.loop → PInv (trun s ls).loop := by
  induction ls with
  | nil => intro s h; exact h
  | cons l ls ih => intro s h; exact ih _ (tstep_pinv s l h)

/-- What `PInv` says about the close reports (the body of `exit_reports_closed_once`). -/
theorem PInv.reports {s : Loop} (hp : PInv s) :
    (∀ j, cnt s.ps j .closed ≤ 1) ∧ mgrCnt s.ps ≤ 1 ∧
    (s.exited.isSome →
      s.ps.closedRuns = 1 ∧ (∀ j, aliveAt s.ps j → cnt s.ps j .closed = 1) ∧
      (s.ps.mgr.alive = true → mgrCnt s.ps = 1)) := by
  refine ⟨hp.1.le, hp.1.mle, fun hex => ?_⟩
  obtain ⟨hi, _, hco⟩ := hp
  cases hxe : s.exited with
  | none => rw [hxe] at hex; cases hex
  | some x =>
    rw [hxe] at hco
    cases hcc : s.cont with
    | some c => rw [hcc] at hco; cases c <;> exact absurd hco (by simp [ContOK])
    | none =>
      rw [hcc] at hco
      have hr := (hi.call.rest_of_quiet hco.1).2 hco.2
      exact ⟨hco.2, hr.1, hr.2⟩

/-! ### once returned, always returned -/

theorem errorExit_exited (s : Loop) (h : (errorExit s).exited = none) : s.exited = none := by
  unfold errorExit at h
  cases hc : (startCall s.ps .closed).call <;> simp only [hc] at h <;> first | exact h | cases h

theorem settle_exited (s : Loop) (h : (settle s).exited = none) : s.exited = none := by
  unfold settle at h
  split at h
  · split at h
    · cases h
    · exact errorExit_exited _ h
  · split at h
    · exact h
    · exact errorExit_exited _ h
  · cases h
  · exact h

theorem loopStep_exited (s : Loop) (e : LoopEv) (h : (loopStep s e).exited = none) : s.exited = none := by
  cases hx : s.exited with
  | none => rfl
  | some x =>
    have : loopStep s e = s := by unfold loopStep; simp [hx]
    rw [this, hx] at h; cases h

theorem tstep_exited (s : TLoop) (l : TLabel) (h : (tstep s l).loop.exited = none) : s.loop.exited = none := by
  rcases tstep_loop s l with e | ⟨e, he⟩ | ⟨o, ho⟩
  · rw [e] at h; exact h
  · rw [he] at h
    exact loopStep_exited { s.loop with pending := negCount s.subs } e h
  · rw [ho] at h
    exact settle_exited { s.loop with ps := envStep s.loop.ps o } h

theorem trun_exited (ls : List TLabel) : ∀ s : TLoop, (trun s ls).loop.exited = none → s.loop.exited = none := by
  induction ls with
  | nil => intro s h; exact h
  | cons l ls ih => intro s h; exact tstep_exited s l (ih _ h)

/-! ### a busy substream is a strong sender -/

theorem le_sum_of_mem {α : Type} (f : α → Nat) : ∀ (l : List α) (x : α), x ∈ l → f x ≤ (l.map f).sum := by
  intro l
  induction l with
  | nil => intro x h; cases h
  | cons a t ih =>
    intro x h
    simp only [List.map_cons, List.sum_cons]
    rcases List.mem_cons.mp h with rfl | h
    · omega
    · have := ih x h; omega

theorem busy_permits (ka : List Bool) (x : Sub) (h : Busy ka x) : 0 < x.permits ka := by
  unfold Sub.permits
  rcases h with h | h | ⟨hk, h | h | h⟩
  · simp [h]
  · simp [h]
  · rw [h]; simp only []; omega
  · simp [h, hk]
  · simp [h, hk]

theorem busy_strong_pos (s : TLoop) (x : Sub) (hx : x ∈ s.subs) (h : Busy s.ka x) : 0 < s.strong := by
  have h1 := le_sum_of_mem (Sub.permits s.ka) s.subs x hx
  have h2 := busy_permits s.ka x h
  unfold TLoop.strong; omega

theorem idle_disabled (s : TLoop) (h : 0 < s.strong) : s.idleEnabled = false ∧ tstep s .idleExit = s := by
  have : s.idleEnabled = false := by
    unfold TLoop.idleEnabled
    have : (s.strong == 0) = false := by simp; omega
    simp [this]
  exact ⟨this, by simp [tstep, tIdleExit, this]⟩

/-! ### the accept step -/

theorem running_iff (s : TLoop) : s.running = true ↔ s.loop.exited = none ∧ s.loop.cont = none := by
  unfold TLoop.running
  cases s.loop.exited <;> cases s.loop.cont <;> simp

theorem lstep_yamux_true (s : TLoop) (h : s.running = true) :
    (lstep s (.yamuxStream true)).exited = none ∧ (lstep s (.yamuxStream true)).cont = none := by
  obtain ⟨h1, h2⟩ := (running_iff s).mp h
  simp [lstep, loopStep, h1, h2]

theorem accept_with_permit (s : TLoop) (hr : s.running = true) (hs : 0 < s.strong) :
    (tstep s .accept).subs = s.subs ++ [⟨true, none, .negotiating⟩] ∧
    (tstep s .accept).loop.exited = none ∧ (tstep s .accept).accepted = s.accepted + 1 := by
  have hl := lstep_yamux_true s hr
  have h1 : ¬ s.running = false := by simp [hr]
  simp only [tstep, tAccept]
  rw [if_neg h1, if_pos hs, cleanup_of_running _ hl.1]
  exact ⟨rfl, hl.1, rfl⟩

theorem accept_without_permit (s : TLoop) (hr : s.running = true) (hs : s.strong = 0) :
    (tstep s .accept).subs.length = s.subs.length ∧
    (tstep s .accept).loop = errorExit { s.loop with pending := negCount s.subs } ∧
    (tstep s .accept).accepted = s.accepted + 1 := by
  obtain ⟨h1, h2⟩ := (running_iff s).mp hr
  have hs' : ¬ 0 < s.strong := by omega
  have h0 : ¬ s.running = false := by simp [hr]
  simp only [tstep, tAccept]
  rw [if_neg h0, if_neg hs']
  refine ⟨?_, ?_, ?_⟩
  · unfold cleanup; split <;> simp
  · rw [cleanup_loop]; simp [lstep, loopStep, h1, h2]
  · rw [cleanup_accepted]

/-! ### a negotiating substream stays where it is -/

theorem firstAt_stage (subs : List Sub) (i : Nat) (st : Stage) (k : Nat) (h : firstAt subs i st = some k) :
    ∃ y, subs[k]? = some y ∧ y.stage = st := by
  unfold firstAt at h
  have := List.findIdx?_eq_some_iff_getElem.mp h
  obtain ⟨hk, hp, _⟩ := this
  refine ⟨subs[k], by simp [hk], ?_⟩
  simp only [Bool.and_eq_true, beq_iff_eq] at hp
  exact hp.1

theorem setStage_other (subs : List Sub) (k k' : Nat) (st : Stage) (h : k' ≠ k) :
    (setStage subs k' st)[k]? = subs[k]? := by
  unfold setStage
  split
  · rw [List.getElem?_set_ne h]
  · rfl

theorem cleanup_keep (t : TLoop) (k : Nat) (x : Sub) (hrun : (cleanup t).loop.exited = none)
    (h : t.subs[k]? = some x) : (cleanup t).subs[k]? = some x := by
  rw [cleanup_loop] at hrun
  rw [cleanup_of_running _ hrun]; exact h

/-- Every transition other than the progress or the end of ITS OWN future leaves an entry of
`pending_substreams` (yamux stream being opened, or negotiating) where it is, as long as the loop has not returned. -/
theorem pending_persists (s : TLoop) (l : TLabel) (k : Nat) (x : Sub)
    (hk : s.subs[k]? = some x) (hx : x.stage.pending = true)
    (hl : l.touches k = false)
    (hrun : (tstep s l).loop.exited = none) : (tstep s l).subs[k]? = some x := by
  have hlt : k < s.subs.length := (List.getElem?_eq_some_iff.mp hk).1
  have happ : ∀ y, (s.subs ++ [y])[k]? = some x := fun y => by
    rw [List.getElem?_append_left hlt]; exact hk
  have hne_of : ∀ (k' : Nat) (y : Sub), s.subs[k']? = some y → y.stage.pending = false → k' ≠ k := by
    intro k' y hy hst e
    rw [e, hk] at hy; cases hy; rw [hx] at hst; cases hst
  cases l with
  | accept =>
    simp only [tstep, tAccept] at hrun ⊢
    by_cases h1 : s.running = false
    · rw [if_pos h1]; exact hk
    · rw [if_neg h1] at hrun ⊢
      by_cases h2 : 0 < s.strong
      · rw [if_pos h2] at hrun ⊢
        exact cleanup_keep _ k x hrun (happ _)
      · rw [if_neg h2] at hrun ⊢
        exact cleanup_keep _ k x hrun hk
  | yamuxEof =>
    simp only [tstep] at hrun ⊢
    by_cases h1 : s.running = true
    · rw [if_pos h1] at hrun ⊢; exact cleanup_keep _ k x hrun hk
    · rw [if_neg h1]; exact hk
  | yamuxErr =>
    simp only [tstep] at hrun ⊢
    by_cases h1 : s.running = true
    · rw [if_pos h1] at hrun ⊢; exact cleanup_keep _ k x hrun hk
    · rw [if_neg h1]; exact hk
  | negOk k' p =>
    have hne : k' ≠ k := by simpa [TLabel.touches, TLabel.endsNeg] using hl
    simp only [tstep, tNegOk] at hrun ⊢
    by_cases h1 : s.running = false
    · rw [if_pos h1]; exact hk
    · rw [if_neg h1] at hrun ⊢
      cases hy : s.subs[k']? with
      | none => exact hk
      | some y =>
        rw [hy] at hrun
        simp only [] at hrun ⊢
        by_cases h3 : y.stage ≠ .negotiating
        · rw [if_pos h3]; exact hk
        · rw [if_neg h3] at hrun ⊢
          apply cleanup_keep _ k x hrun
          show (s.subs.set k' _)[k]? = some x
          rw [List.getElem?_set_ne hne]; exact hk
  | negOkFb k' p f =>
    have hne : k' ≠ k := by simpa [TLabel.touches, TLabel.endsNeg] using hl
    simp only [tstep, tNegOk] at hrun ⊢
    by_cases h1 : s.running = false
    · rw [if_pos h1]; exact hk
    · rw [if_neg h1] at hrun ⊢
      cases hy : s.subs[k']? with
      | none => exact hk
      | some y =>
        rw [hy] at hrun
        simp only [] at hrun ⊢
        by_cases h3 : y.stage ≠ .negotiating
        · rw [if_pos h3]; exact hk
        · rw [if_neg h3] at hrun ⊢
          apply cleanup_keep _ k x hrun
          show (s.subs.set k' _)[k]? = some x
          rw [List.getElem?_set_ne hne]; exact hk
  | negFail k' =>
    have hne : k' ≠ k := by simpa [TLabel.touches, TLabel.endsNeg] using hl
    simp only [tstep, tNegFail] at hrun ⊢
    by_cases h1 : s.running = false
    · rw [if_pos h1]; exact hk
    · rw [if_neg h1] at hrun ⊢
      cases hy : s.subs[k']? with
      | none => exact hk
      | some y =>
        rw [hy] at hrun
        simp only [] at hrun ⊢
        by_cases h3 : y.stage.pending = false
        · rw [if_pos h3]; exact hk
        · rw [if_neg h3] at hrun ⊢
          apply cleanup_keep _ k x hrun
          show (s.subs.set k' _)[k]? = some x
          rw [List.getElem?_set_ne hne]; exact hk
  | yamuxOpened k' =>
    have hne : k' ≠ k := by simpa [TLabel.touches] using hl
    simp only [tstep, tYamuxOpened]
    by_cases h1 : s.running = false
    · rw [if_pos h1]; exact hk
    · rw [if_neg h1]
      cases hy : s.subs[k']? with
      | none => exact hk
      | some y =>
        simp only []
        by_cases h3 : y.stage = .opening
        · rw [if_pos h3]
          show (s.subs.set k' _)[k]? = some x
          rw [List.getElem?_set_ne hne]; exact hk
        · rw [if_neg h3]; exact hk
  | takeCmd =>
    simp only [tstep, tTakeCmd] at hrun ⊢
    by_cases h1 : s.running = false
    · rw [if_pos h1]; exact hk
    · rw [if_neg h1] at hrun ⊢
      cases hq : s.cmdQ with
      | nil => exact hk
      | cons c q =>
        rw [hq] at hrun
        cases c with
        | openSub i => exact cleanup_keep _ k x hrun (happ _)
        | forceClose => exact cleanup_keep _ k x hrun hk
  | idleExit =>
    simp only [tstep, tIdleExit] at hrun ⊢
    by_cases h1 : s.idleEnabled = true
    · rw [if_pos h1] at hrun ⊢; exact cleanup_keep _ k x hrun hk
    · rw [if_neg h1]; exact hk
  | recv i =>
    simp only [tstep, tRecv] at hrun ⊢
    cases hc : s.loop.ps.chans[i]? with
    | none => exact hk
    | some c =>
      rw [hc] at hrun
      simp only [] at hrun ⊢
      by_cases halive : c.alive = false
      · rw [if_pos halive]; exact hk
      · rw [if_neg halive] at hrun ⊢
        cases hq : c.queue.head? with
        | none => exact hk
        | some m =>
          rw [hq] at hrun
          cases m with
          | established => exact cleanup_keep _ k x hrun hk
          | substreamOpened =>
            apply cleanup_keep _ k x hrun
            simp only []
            cases hf : firstAt s.subs i .queued with
            | none => exact hk
            | some k' =>
              obtain ⟨y, hy, hst⟩ := firstAt_stage _ _ _ _ hf
              have hne : k' ≠ k := hne_of k' y hy (by rw [hst]; rfl)
              simp only []
              rw [setStage_other _ _ _ _ hne]; exact hk
          | closed => exact cleanup_keep _ k x hrun hk
          | openFailure => exact cleanup_keep _ k x hrun hk
          | filler => exact cleanup_keep _ k x hrun hk
  | recvMgr =>
    simp only [tstep] at hrun ⊢
    exact cleanup_keep _ k x hrun hk
  | downgrade i => simp only [tstep]; split <;> exact hk
  | upgrade i => simp only [tstep]; split <;> exact hk
  | dropHandle i => simp only [tstep]; split <;> exact hk
  | localOpen i => simp only [tstep]; split <;> exact hk
  | forceClose i => simp only [tstep]; split <;> exact hk
  | dropSub i =>
    simp only [tstep]
    cases hf0 : firstAt s.subs i .heldHalf with
    | some k' =>
      obtain ⟨y, hy, hst⟩ := firstAt_stage _ _ _ _ hf0
      have hne : k' ≠ k := hne_of k' y hy (by rw [hst]; rfl)
      simp only []
      rw [setStage_other _ _ _ _ hne]; exact hk
    | none =>
      simp only []
      cases hf : firstAt s.subs i .held with
      | none => exact hk
      | some k' =>
        obtain ⟨y, hy, hst⟩ := firstAt_stage _ _ _ _ hf
        have hne : k' ≠ k := hne_of k' y hy (by rw [hst]; rfl)
        simp only []
        rw [setStage_other _ _ _ _ hne]; exact hk
  | halfClose i =>
    simp only [tstep]
    cases hf0 : firstAt s.subs i .heldHalf with
    | some k' => exact hk
    | none =>
      simp only []
      cases hf : firstAt s.subs i .held with
      | none => exact hk
      | some k' =>
        obtain ⟨y, hy, hst⟩ := firstAt_stage _ _ _ _ hf
        have hne : k' ≠ k := hne_of k' y hy (by rw [hst]; rfl)
        simp only []
        rw [setStage_other _ _ _ _ hne]; exact hk
  | fill i =>
    simp only [tstep] at hrun ⊢
    exact cleanup_keep _ k x hrun hk
  | fillMgr =>
    simp only [tstep] at hrun ⊢
    exact cleanup_keep _ k x hrun hk
  | dropRx i =>
    simp only [tstep] at hrun ⊢
    apply cleanup_keep _ k x hrun
    simp only [List.getElem?_map, hk, Option.map_some]
    have : ¬ (x.proto = some i ∧ (x.stage = .queued ∨ x.stage = .held ∨ x.stage = .heldHalf)) := by
      rintro ⟨_, h | h | h⟩ <;> (rw [h] at hx; cases hx)
    simp [this]

/-- Every transition other than the end of ITS negotiation leaves a negotiating substream in
`pending_substreams`, as long as the loop has not returned. -/
theorem negotiating_persists (s : TLoop) (l : TLabel) (k : Nat) (x : Sub)
    (hk : s.subs[k]? = some x) (hx : x.stage = .negotiating)
    (hl : l.endsNeg k = false)
    (hrun : (tstep s l).loop.exited = none) : (tstep s l).subs[k]? = some x := by
  have hp : x.stage.pending = true := by rw [hx]; rfl
  cases l with
  | yamuxOpened k' =>
    by_cases hkk : k' = k
    · -- `yamuxOpened k` on an entry that is already negotiating does nothing
      subst hkk
      simp only [tstep, tYamuxOpened]
      split
      · exact hk
      · rw [hk]; simp [hx, hk]
    · exact pending_persists s _ k x hk hp (by simpa [TLabel.touches] using hkk) hrun
  | _ => exact pending_persists s _ k x hk hp (by simpa [TLabel.touches] using hl) hrun

theorem trun_negotiating (ls : List TLabel) : ∀ (s : TLoop) (k : Nat) (x : Sub),
    s.subs[k]? = some x → x.stage = .negotiating →
    (∀ l ∈ ls, l.endsNeg k = false) →
    (trun s ls).loop.exited = none → (trun s ls).subs[k]? = some x := by
  induction ls with
  | nil => intro s k x hk _ _ _; exact hk
  | cons l ls ih =>
    intro s k x hk hx hls hrun
    have hl := hls l (List.mem_cons_self ..)
    have hmid : (tstep s l).loop.exited = none := trun_exited ls _ hrun
    exact ih _ k x (negotiating_persists s l k x hk hx hl hmid) hx
      (fun l' hl' => hls l' (List.mem_cons_of_mem _ hl')) hrun

theorem trun_pending (ls : List TLabel) : ∀ (s : TLoop) (k : Nat) (x : Sub),
    s.subs[k]? = some x → x.stage.pending = true →
    (∀ l ∈ ls, l.touches k = false) →
    (trun s ls).loop.exited = none → (trun s ls).subs[k]? = some x := by
  induction ls with
  | nil => intro s k x hk _ _ _; exact hk
  | cons l ls ih =>
    intro s k x hk hx hls hrun
    have hl := hls l (List.mem_cons_self ..)
    have hmid : (tstep s l).loop.exited = none := trun_exited ls _ hrun
    exact ih _ k x (pending_persists s l k x hk hx hl hmid) hx
      (fun l' hl' => hls l' (List.mem_cons_of_mem _ hl')) hrun

theorem cleanup_ka (s : TLoop) : (cleanup s).ka = s.ka := by
  unfold cleanup; split <;> rfl

theorem tstep_ka (s : TLoop) (l : TLabel) : (tstep s l).ka = s.ka := by
  cases l <;> simp only [tstep, tAccept, tNegOk, tNegFail, tYamuxOpened, tTakeCmd, tIdleExit, tRecv] <;>
    (repeat' split) <;> first | rfl | (rw [cleanup_ka])

theorem trun_ka (s : TLoop) (ls : List TLabel) : (trun s ls).ka = s.ka := by
  induction ls generalizing s with
  | nil => rfl
  | cons l ls ih => exact (ih _).trans (tstep_ka s l)

/-! ### a half-closed substream stays where it is until its owner drops it -/

theorem firstAt_spec (subs : List Sub) (i : Nat) (st : Stage) (k : Nat) (h : firstAt subs i st = some k) :
    ∃ y, subs[k]? = some y ∧ y.stage = st ∧ y.proto = some i := by
  unfold firstAt at h
  have := List.findIdx?_eq_some_iff_getElem.mp h
  obtain ⟨hk, hp, _⟩ := this
  refine ⟨subs[k], by simp [hk], ?_⟩
  simp only [Bool.and_eq_true, beq_iff_eq] at hp
  exact hp

theorem cleanup_keep_stable (t : TLoop) (k : Nat) (x : Sub) (hx : x.stage.pending = false)
    (h : t.subs[k]? = some x) : (cleanup t).subs[k]? = some x := by
  unfold cleanup
  split
  · simp only [List.getElem?_map, h, Option.map_some]
    simp [hx]
  · exact h

/-- Every transition other than its owner dropping it (or shutting down) leaves a half-closed substream, with its
lifetime permit, where it is — whether or not the loop has returned in the meantime. -/
theorem heldHalf_persists (s : TLoop) (l : TLabel) (k : Nat) (x : Sub)
    (hk : s.subs[k]? = some x) (hx : x.stage = .heldHalf)
    (hl : ∀ i, x.proto = some i → l ≠ .dropSub i ∧ l ≠ .dropRx i) : (tstep s l).subs[k]? = some x := by
  have hlt : k < s.subs.length := (List.getElem?_eq_some_iff.mp hk).1
  have happ : ∀ y, (s.subs ++ [y])[k]? = some x := fun y => by
    rw [List.getElem?_append_left hlt]; exact hk
  have hxn : x.stage.pending = false := by rw [hx]; rfl
  have hne_of : ∀ (k' : Nat) (y : Sub), s.subs[k']? = some y → y.stage ≠ .heldHalf → k' ≠ k := by
    intro k' y hy hst e
    rw [e, hk] at hy; cases hy; exact hst hx
  cases l with
  | accept =>
    simp only [tstep, tAccept]
    split
    · exact hk
    · split
      · exact cleanup_keep_stable _ k x hxn (happ _)
      · exact cleanup_keep_stable _ k x hxn hk
  | yamuxEof =>
    simp only [tstep]; split
    · exact cleanup_keep_stable _ k x hxn hk
    · exact hk
  | yamuxErr =>
    simp only [tstep]; split
    · exact cleanup_keep_stable _ k x hxn hk
    · exact hk
  | negOk k' p =>
    simp only [tstep, tNegOk]
    split
    · exact hk
    · cases hy : s.subs[k']? with
      | none => exact hk
      | some y =>
        simp only []
        by_cases h3 : y.stage ≠ .negotiating
        · rw [if_pos h3]; exact hk
        · rw [if_neg h3]
          have hne : k' ≠ k := hne_of k' y hy (by
            have : y.stage = .negotiating := by simpa using h3
            rw [this]; simp)
          apply cleanup_keep_stable _ k x hxn
          show (s.subs.set k' _)[k]? = some x
          rw [List.getElem?_set_ne hne]; exact hk
  | negOkFb k' p f =>
    simp only [tstep, tNegOk]
    split
    · exact hk
    · cases hy : s.subs[k']? with
      | none => exact hk
      | some y =>
        simp only []
        by_cases h3 : y.stage ≠ .negotiating
        · rw [if_pos h3]; exact hk
        · rw [if_neg h3]
          have hne : k' ≠ k := hne_of k' y hy (by
            have : y.stage = .negotiating := by simpa using h3
            rw [this]; simp)
          apply cleanup_keep_stable _ k x hxn
          show (s.subs.set k' _)[k]? = some x
          rw [List.getElem?_set_ne hne]; exact hk
  | negFail k' =>
    simp only [tstep, tNegFail]
    split
    · exact hk
    · cases hy : s.subs[k']? with
      | none => exact hk
      | some y =>
        simp only []
        by_cases h3 : y.stage.pending = false
        · rw [if_pos h3]; exact hk
        · rw [if_neg h3]
          have hne : k' ≠ k := hne_of k' y hy (by
            intro e; rw [e] at h3; exact h3 rfl)
          apply cleanup_keep_stable _ k x hxn
          show (s.subs.set k' _)[k]? = some x
          rw [List.getElem?_set_ne hne]; exact hk
  | yamuxOpened k' =>
    simp only [tstep, tYamuxOpened]
    split
    · exact hk
    · cases hy : s.subs[k']? with
      | none => exact hk
      | some y =>
        simp only []
        by_cases h3 : y.stage = .opening
        · rw [if_pos h3]
          have hne : k' ≠ k := hne_of k' y hy (by rw [h3]; simp)
          show (s.subs.set k' _)[k]? = some x
          rw [List.getElem?_set_ne hne]; exact hk
        · rw [if_neg h3]; exact hk
  | takeCmd =>
    simp only [tstep, tTakeCmd]
    split
    · exact hk
    · cases hq : s.cmdQ with
      | nil => exact hk
      | cons c q =>
        cases c with
        | openSub i => exact cleanup_keep_stable _ k x hxn (happ _)
        | forceClose => exact cleanup_keep_stable _ k x hxn hk
  | idleExit =>
    simp only [tstep, tIdleExit]
    split
    · exact cleanup_keep_stable _ k x hxn hk
    · exact hk
  | recv i =>
    simp only [tstep, tRecv]
    cases hc : s.loop.ps.chans[i]? with
    | none => exact hk
    | some c =>
      simp only []
      by_cases halive : c.alive = false
      · rw [if_pos halive]; exact hk
      · rw [if_neg halive]
        cases hq : c.queue.head? with
        | none => exact hk
        | some m =>
          cases m with
          | established => exact cleanup_keep_stable _ k x hxn hk
          | substreamOpened =>
            apply cleanup_keep_stable _ k x hxn
            simp only []
            cases hf : firstAt s.subs i .queued with
            | none => exact hk
            | some k' =>
              obtain ⟨y, hy, hst, _⟩ := firstAt_spec _ _ _ _ hf
              have hne : k' ≠ k := hne_of k' y hy (by rw [hst]; simp)
              simp only []
              rw [setStage_other _ _ _ _ hne]; exact hk
          | closed => exact cleanup_keep_stable _ k x hxn hk
          | openFailure => exact cleanup_keep_stable _ k x hxn hk
          | filler => exact cleanup_keep_stable _ k x hxn hk
  | recvMgr => simp only [tstep]; exact cleanup_keep_stable _ k x hxn hk
  | fill i => simp only [tstep]; exact cleanup_keep_stable _ k x hxn hk
  | fillMgr => simp only [tstep]; exact cleanup_keep_stable _ k x hxn hk
  | downgrade i => simp only [tstep]; split <;> exact hk
  | upgrade i => simp only [tstep]; split <;> exact hk
  | dropHandle i => simp only [tstep]; split <;> exact hk
  | localOpen i => simp only [tstep]; split <;> exact hk
  | forceClose i => simp only [tstep]; split <;> exact hk
  | dropSub i =>
    simp only [tstep]
    cases hf0 : firstAt s.subs i .heldHalf with
    | some k' =>
      obtain ⟨y, hy, _, hpr⟩ := firstAt_spec _ _ _ _ hf0
      have hne : k' ≠ k := by
        intro e; rw [e, hk] at hy; cases hy
        exact (hl i hpr).1 rfl
      simp only []
      rw [setStage_other _ _ _ _ hne]; exact hk
    | none =>
      simp only []
      cases hf : firstAt s.subs i .held with
      | none => exact hk
      | some k' =>
        obtain ⟨y, hy, hst, _⟩ := firstAt_spec _ _ _ _ hf
        have hne : k' ≠ k := hne_of k' y hy (by rw [hst]; simp)
        simp only []
        rw [setStage_other _ _ _ _ hne]; exact hk
  | halfClose i =>
    simp only [tstep]
    cases hf0 : firstAt s.subs i .heldHalf with
    | some k' => exact hk
    | none =>
      simp only []
      cases hf : firstAt s.subs i .held with
      | none => exact hk
      | some k' =>
        obtain ⟨y, hy, hst, _⟩ := firstAt_spec _ _ _ _ hf
        have hne : k' ≠ k := hne_of k' y hy (by rw [hst]; simp)
        simp only []
        rw [setStage_other _ _ _ _ hne]; exact hk
  | dropRx i =>
    simp only [tstep]
    apply cleanup_keep_stable _ k x hxn
    simp only [List.getElem?_map, hk, Option.map_some]
    have : ¬ (x.proto = some i ∧ (x.stage = .queued ∨ x.stage = .held ∨ x.stage = .heldHalf)) := by
      intro ⟨hp, _⟩
      exact (hl i hp).2 rfl
    simp [this]

theorem trun_heldHalf (ls : List TLabel) : ∀ (s : TLoop) (k : Nat) (x : Sub),
    s.subs[k]? = some x → x.stage = .heldHalf →
    (∀ l ∈ ls, ∀ i, x.proto = some i → l ≠ .dropSub i ∧ l ≠ .dropRx i) →
    (trun s ls).subs[k]? = some x := by
  induction ls with
  | nil => intro s k x hk _ _; exact hk
  | cons l ls ih =>
    intro s k x hk hx hls
    exact ih _ k x (heldHalf_persists s l k x hk hx (hls l (List.mem_cons_self ..))) hx
      (fun l' hl' => hls l' (List.mem_cons_of_mem _ hl'))

/-- Half-closing turns the oldest held substream of the protocol into a half-closed one: same object, same protocol
(hence the same lifetime permit), nothing else changes. -/
theorem halfClose_keeps (s : TLoop) (i k : Nat) (h0 : firstAt s.subs i .heldHalf = none)
    (h1 : firstAt s.subs i .held = some k) :
    ∃ x, s.subs[k]? = some x ∧ x.stage = .held ∧ x.proto = some i ∧
      (tstep s (.halfClose i)).subs[k]? = some { x with stage := .heldHalf } ∧
      (tstep s (.halfClose i)).loop = s.loop ∧ (tstep s (.halfClose i)).handles = s.handles ∧
      (tstep s (.halfClose i)).cmdQ = s.cmdQ := by
  obtain ⟨x, hx, hst, hpr⟩ := firstAt_spec _ _ _ _ h1
  refine ⟨x, hx, hst, hpr, ?_, ?_, ?_, ?_⟩ <;> simp only [tstep, h0, h1]
  obtain ⟨hlt, hget⟩ := List.getElem?_eq_some_iff.mp hx
  simp only [setStage, hx]
  rw [List.getElem?_set_self hlt]

/-- A successful negotiation hands the substream, with its permits, to the protocol's channel. -/
theorem negOk_queues (s : TLoop) (k p : Nat) (x : Sub) (hr : s.running = true)
    (hk : s.subs[k]? = some x) (hx : x.stage = .negotiating) (ha : protoAlive s p = true)
    (hrun : (tstep s (.negOk k p)).loop.exited = none) :
    (tstep s (.negOk k p)).subs[k]? = some { x with proto := some p, stage := .queued } := by
  have hlt : k < s.subs.length := (List.getElem?_eq_some_iff.mp hk).1
  have h1 : ¬ s.running = false := by simp [hr]
  have h3 : ¬ x.stage ≠ .negotiating := by simp [hx]
  simp only [tstep, tNegOk] at hrun ⊢
  rw [if_neg h1] at hrun ⊢
  rw [hk] at hrun ⊢
  simp only [] at hrun ⊢
  rw [if_neg h3] at hrun ⊢
  rw [cleanup_loop] at hrun
  rw [cleanup_of_running _ hrun]
  simp [ha, hlt]

/-- The state right after `report_connection_established` is a fresh `ProtocolSet`. -/
theorem tinit_fresh (ka : List Bool) (cap : Nat) : Fresh (tinit ka cap).loop.ps := by
  refine ⟨⟨?_, ?_⟩, rfl, rfl, rfl, ?_⟩
  · exact List.nodup_range
  · intro i; simp [tinit]
  · intro x hx; simp [tinit] at hx

end Litep2pVerif.Conn
