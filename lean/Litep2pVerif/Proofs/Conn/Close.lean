import Litep2pVerif.Model.Conn.Loop
/-! Helper lemmas and the invariant behind the C07 theorems. -/
namespace Litep2pVerif.Conn

def aliveAt (ps : PSet) (i : Nat) : Prop := ∃ c, ps.chans[i]? = some c ∧ c.alive = true
def cnt (ps : PSet) (i : Nat) (m : Msg) : Nat := ps.log.count (.proto i m)
def mgrCnt (ps : PSet) : Nat := ps.log.count .mgr

/-- Everything but the log and the queues is untouched. -/
structure Frame (ps ps' : PSet) : Prop where
  mgrAlive : ps'.mgr.alive = ps.mgr.alive
  order : ps'.order = ps.order
  rep : ps'.closedReported = ps.closedReported
  runs : ps'.closedRuns = ps.closedRuns
  len : ps'.chans.length = ps.chans.length
  alive : ∀ j, aliveAt ps' j ↔ aliveAt ps j

theorem Frame.rfl' (ps : PSet) : Frame ps ps := ⟨rfl, rfl, rfl, rfl, rfl, fun _ => Iff.rfl⟩

theorem Frame.trans {a b c : PSet} (h1 : Frame a b) (h2 : Frame b c) : Frame a c :=
  ⟨h2.mgrAlive.trans h1.mgrAlive, h2.order.trans h1.order, h2.rep.trans h1.rep, h2.runs.trans h1.runs,
   h2.len.trans h1.len, fun j => (h2.alive j).trans (h1.alive j)⟩

theorem sendTo_spec (ps : PSet) (i : Nat) (m : Msg) :
    Frame ps (sendTo ps i m).2 ∧ (sendTo ps i m).2.call = ps.call ∧
    (((sendTo ps i m).1 = .sent ∧ aliveAt ps i ∧ (sendTo ps i m).2.log = ps.log ++ [.proto i m]) ∨
     ((sendTo ps i m).1 = .closed ∧ ¬ aliveAt ps i ∧ (sendTo ps i m).2 = ps) ∨
     ((sendTo ps i m).1 = .full ∧ aliveAt ps i ∧ (sendTo ps i m).2 = ps)) := by
  unfold sendTo
  cases hc : ps.chans[i]? with
  | none => simp [Frame.rfl', aliveAt, hc]
  | some c =>
    simp only [trySend]
    by_cases ha : c.alive = false
    · simp [ha, Frame.rfl', aliveAt, hc]
    · by_cases hr : c.queue.length < c.cap
      · simp only [ha, hr, if_false, if_true]
        refine ⟨⟨rfl, rfl, rfl, rfl, by simp, ?_⟩, rfl, Or.inl ⟨rfl, ⟨c, hc, by simpa using ha⟩, rfl⟩⟩
        intro j
        have ha' : c.alive = true := by simpa using ha
        simp only [aliveAt]
        by_cases hji : i = j
        · subst hji
          have hlt : i < ps.chans.length := (List.getElem?_eq_some_iff.mp hc).1
          have hce : ps.chans[i] = c := (List.getElem?_eq_some_iff.mp hc).2
          simp [hlt, hce, ha']
        · simp [List.getElem?_set, hji]
      · simp only [ha, hr, if_false]
        exact ⟨Frame.rfl' _, rfl, Or.inr (Or.inr ⟨rfl, ⟨c, hc, by simpa using ha⟩, rfl⟩)⟩

/-- Closed form of one polling round over distinct protocols. -/
theorem pollSends_spec (m : Msg) : ∀ (is : List Nat), is.Nodup → ∀ (ps : PSet) (w : List Nat) (e : Bool),
    ∃ sent full : List Nat,
      Frame ps (pollSends m is ps w e).1 ∧
      (pollSends m is ps w e).1.call = ps.call ∧
      (pollSends m is ps w e).1.log = ps.log ++ sent.map (fun j => Ev.proto j m) ∧
      (pollSends m is ps w e).2.1 = w ++ full ∧
      sent.Sublist is ∧ full.Sublist is ∧
      (∀ j ∈ sent, aliveAt ps j ∧ j ∉ full) ∧ (∀ j ∈ full, aliveAt ps j) ∧
      (∀ j ∈ is, aliveAt ps j → j ∈ sent ∨ j ∈ full) ∧
      (e = true → (pollSends m is ps w e).2.2 = true) ∧
      ((pollSends m is ps w e).2.2 = false → ∀ j ∈ is, aliveAt ps j) ∧
      ((∀ j ∈ is, aliveAt ps j) → e = false → (pollSends m is ps w e).2.2 = false) := by
  intro is
  induction is with
  | nil =>
    intro _ ps w e
    exact ⟨[], [], by simp [pollSends, Frame.rfl']⟩
  | cons i is ih =>
    intro hnd ps w e
    have hi : i ∉ is := (List.nodup_cons.mp hnd).1
    have hnd' : is.Nodup := (List.nodup_cons.mp hnd).2
    have hs := sendTo_spec ps i m
    rcases h : sendTo ps i m with ⟨p, ps1⟩
    rw [h] at hs
    obtain ⟨hfr, hcall, hcase⟩ := hs
    simp only at hfr hcall hcase
    rcases hcase with ⟨hp, hal, hlog⟩ | ⟨hp, hal, heq⟩ | ⟨hp, hal, heq⟩
    · subst hp
      obtain ⟨sent, full, f1, f2, f3, f4, f5, f6, f7, f8, f9, f10, f11, f12⟩ := ih hnd' ps1 w e
      refine ⟨i :: sent, full, ?_⟩
      simp only [pollSends, h]
      refine ⟨hfr.trans f1, f2.trans hcall, ?_, f4, f5.cons₂ i, f6.cons i, ?_, ?_, ?_, f10, ?_,
        fun hall he => f12 (fun j hj => (hfr.alive j).mpr (hall j (List.mem_cons_of_mem _ hj))) he⟩
      · rw [f3, hlog]; simp
      · intro j hj
        rcases List.mem_cons.mp hj with rfl | hj
        · exact ⟨hal, fun hf => hi (f6.subset hf)⟩
        · exact ⟨(hfr.alive j).mp (f7 j hj).1, (f7 j hj).2⟩
      · intro j hj; exact (hfr.alive j).mp (f8 j hj)
      · intro j hj haj
        rcases List.mem_cons.mp hj with rfl | hj
        · exact Or.inl (List.mem_cons_self)
        · rcases f9 j hj ((hfr.alive j).mpr haj) with h1 | h1
          · exact Or.inl (List.mem_cons_of_mem _ h1)
          · exact Or.inr h1
      · intro hres j hj
        rcases List.mem_cons.mp hj with rfl | hj
        · exact hal
        · exact (hfr.alive j).mp (f11 hres j hj)
    · subst hp; subst heq
      obtain ⟨sent, full, f1, f2, f3, f4, f5, f6, f7, f8, f9, f10, f11, f12⟩ := ih hnd' ps1 w true
      refine ⟨sent, full, ?_⟩
      simp only [pollSends, h]
      refine ⟨f1, f2, f3, f4, f5.cons i, f6.cons i, f7, f8, ?_, fun _ => f10 rfl, ?_,
        fun hall _ => absurd (hall i List.mem_cons_self) hal⟩
      · intro j hj haj
        rcases List.mem_cons.mp hj with rfl | hj
        · exact absurd haj hal
        · exact f9 j hj haj
      · intro hres; rw [f10 rfl] at hres; cases hres
    · subst hp; subst heq
      obtain ⟨sent, full, f1, f2, f3, f4, f5, f6, f7, f8, f9, f10, f11, f12⟩ := ih hnd' ps1 (w ++ [i]) e
      refine ⟨sent, i :: full, ?_⟩
      simp only [pollSends, h]
      refine ⟨f1, f2, f3, by rw [f4]; simp, f5.cons i, f6.cons₂ i, ?_, ?_, ?_, f10, ?_,
        fun hall he => f12 (fun j hj => hall j (List.mem_cons_of_mem _ hj)) he⟩
      · intro j hj
        refine ⟨(f7 j hj).1, fun hf => ?_⟩
        rcases List.mem_cons.mp hf with rfl | hf
        · exact hi (f5.subset hj)
        · exact (f7 j hj).2 hf
      · intro j hj
        rcases List.mem_cons.mp hj with rfl | hj
        · exact hal
        · exact f8 j hj
      · intro j hj haj
        rcases List.mem_cons.mp hj with rfl | hj
        · exact Or.inr (List.mem_cons_self)
        · rcases f9 j hj haj with h1 | h1
          · exact Or.inl h1
          · exact Or.inr (List.mem_cons_of_mem _ h1)
      · intro hres j hj
        rcases List.mem_cons.mp hj with rfl | hj
        · exact hal
        · exact f11 hres j hj

/-! ### counting in the log -/

theorem count_map_proto_same (m : Msg) (j : Nat) : ∀ (l : List Nat), l.Nodup →
    (l.map (fun k => Ev.proto k m)).count (Ev.proto j m) = if j ∈ l then 1 else 0 := by
  intro l
  induction l with
  | nil => simp
  | cons a l ih =>
    intro hnd
    have ha : a ∉ l := (List.nodup_cons.mp hnd).1
    have := ih (List.nodup_cons.mp hnd).2
    simp only [List.map_cons, List.count_cons, this, List.mem_cons]
    by_cases hja : j = a
    · subst hja; simp [ha]
    · have : ¬ (a = j) := fun h => hja h.symm
      simp [hja, this]

theorem count_map_proto_ne (m m' : Msg) (h : m ≠ m') (j : Nat) (l : List Nat) :
    (l.map (fun k => Ev.proto k m)).count (Ev.proto j m') = 0 := by
  rw [List.count_eq_zero]
  intro hm
  obtain ⟨k, _, hk⟩ := List.mem_map.mp hm
  cases hk; exact h rfl

theorem count_map_proto_mgr (m : Msg) (l : List Nat) :
    (l.map (fun k => Ev.proto k m)).count Ev.mgr = 0 := by
  rw [List.count_eq_zero]
  intro hm
  obtain ⟨k, _, hk⟩ := List.mem_map.mp hm
  cases hk

/-- In the log every closed message to a protocol precedes the manager's. -/
def Ordered (log : List Ev) : Prop :=
  ∀ j, Ev.mgr ∈ log → Ev.proto j .closed ∈ log → log.idxOf (Ev.proto j .closed) < log.idxOf Ev.mgr

theorem ordered_append_other {log ext : List Ev} (hO : Ordered log)
    (hext : ∀ x ∈ ext, x ≠ Ev.mgr ∧ ∀ j, x ≠ Ev.proto j .closed) : Ordered (log ++ ext) := by
  intro j hm hp
  have hm' : Ev.mgr ∈ log := by
    rcases List.mem_append.mp hm with h | h
    · exact h
    · exact absurd rfl (hext _ h).1
  have hp' : Ev.proto j .closed ∈ log := by
    rcases List.mem_append.mp hp with h | h
    · exact h
    · exact absurd rfl ((hext _ h).2 j)
  rw [List.idxOf_append, List.idxOf_append, if_pos hm', if_pos hp']
  exact hO j hm' hp'

theorem ordered_append_nomgr {log ext : List Ev} (hno : Ev.mgr ∉ log) (hext : Ev.mgr ∉ ext) :
    Ordered (log ++ ext) := by
  intro j hm
  rcases List.mem_append.mp hm with h | h
  · exact absurd h hno
  · exact absurd h hext

theorem ordered_append_mgr {log : List Ev} (hno : Ev.mgr ∉ log) : Ordered (log ++ [Ev.mgr]) := by
  intro j _ hp
  have hp' : Ev.proto j .closed ∈ log := by
    rcases List.mem_append.mp hp with h | h
    · exact h
    · simp at h
  rw [List.idxOf_append, List.idxOf_append, if_pos hp', if_neg hno]
  have := List.idxOf_lt_length_iff.mpr hp'
  omega

/-! ### the invariant -/

/-- `order` is a permutation of the protocol indices. -/
def WF (ps : PSet) : Prop := ps.order.Nodup ∧ ∀ i, i ∈ ps.order ↔ i < ps.chans.length

/-- the close report is complete: every live protocol and the live manager have been told -/
def Rest (ps : PSet) : Prop :=
  (ps.closedRuns = 0 → (∀ j, cnt ps j .closed = 0) ∧ mgrCnt ps = 0) ∧
  (ps.closedRuns = 1 → (∀ j, aliveAt ps j → cnt ps j .closed = 1) ∧ (ps.mgr.alive = true → mgrCnt ps = 1))

def CallInv (ps : PSet) : Prop :=
  match ps.call with
  | .protoSends k w _ =>
    w.Nodup ∧
    (k = .closed → ps.closedRuns = 1 ∧ (∀ j ∈ w, cnt ps j .closed = 0) ∧
      (∀ j, aliveAt ps j → j ∉ w → cnt ps j .closed = 1) ∧ mgrCnt ps = 0) ∧
    (k ≠ .closed → Rest ps)
  | .mgrSend _ => ps.closedRuns = 1 ∧ (∀ j, aliveAt ps j → cnt ps j .closed = 1) ∧ mgrCnt ps = 0
  | _ => Rest ps

structure Inv (ps : PSet) : Prop where
  le : ∀ j, cnt ps j .closed ≤ 1
  mle : mgrCnt ps ≤ 1
  runs : ps.closedRuns ≤ 1
  rep : ps.closedReported = true ↔ ps.closedRuns = 1
  call : CallInv ps
  ord : Ordered ps.log

theorem progressMgr_inv (ps : PSet) (e : Bool)
    (hle : ∀ j, cnt ps j .closed ≤ 1) (hruns : ps.closedRuns = 1) (hrep : ps.closedReported = true)
    (hall : ∀ j, aliveAt ps j → cnt ps j .closed = 1) (hm0 : mgrCnt ps = 0) (hord : Ordered ps.log) :
    Inv (progressMgr ps e) ∧ Frame ps (progressMgr ps e) := by
  have hno : Ev.mgr ∉ ps.log := List.count_eq_zero.mp hm0
  have hm0' : List.count Ev.mgr ps.log = 0 := hm0
  unfold progressMgr trySend
  cases hal : ps.mgr.alive with
  | false =>
    simp only [if_true]
    refine ⟨⟨hle, ?_, by simp [hruns], by simp [hrep, hruns], ?_, hord⟩,
      ⟨rfl, rfl, rfl, rfl, rfl, fun _ => Iff.rfl⟩⟩
    · show List.count Ev.mgr ps.log ≤ 1
      omega
    · simp only [CallInv, Rest]
      exact ⟨fun h => by simp [hruns] at h, fun _ => ⟨hall, fun h => by simp [hal] at h⟩⟩
  | true =>
    by_cases hr : ps.mgr.queue.length < ps.mgr.cap
    · simp only [hr, if_true, Bool.true_eq_false, if_false]
      refine ⟨⟨?_, ?_, by simp [hruns], by simp [hrep, hruns], ?_, ordered_append_mgr hno⟩,
        ⟨by simp [hal], rfl, rfl, rfl, rfl, fun _ => Iff.rfl⟩⟩
      · intro j; simpa [cnt, List.count_append] using hle j
      · show List.count Ev.mgr (ps.log ++ [Ev.mgr]) ≤ 1
        simp [List.count_append, hm0']
      · simp only [CallInv, Rest]
        refine ⟨fun h => by simp [hruns] at h, fun _ => ⟨?_, fun _ => ?_⟩⟩
        · intro j hj
          have := hall j hj
          simpa [cnt, List.count_append, aliveAt] using this
        · show List.count Ev.mgr (ps.log ++ [Ev.mgr]) = 1
          simp [List.count_append, hm0']
    · simp only [hr, Bool.true_eq_false, if_false]
      refine ⟨⟨hle, ?_, by simp [hruns], by simp [hrep, hruns], ?_, hord⟩,
        ⟨rfl, rfl, rfl, rfl, rfl, fun _ => Iff.rfl⟩⟩
      · show List.count Ev.mgr ps.log ≤ 1
        omega
      · simp only [CallInv]
        exact ⟨hruns, hall, hm0⟩

theorem Kind.msg_ne_closed {k : Kind} (h : k ≠ .closed) : k.msg ≠ .closed := by
  cases k with
  | established => simp [Kind.msg]
  | closed => exact absurd rfl h
  | substream i o => cases o <;> simp [Kind.msg]

theorem Rest.of_frame {ps ps' : PSet} (hf : Frame ps ps')
    (hc : ∀ j, cnt ps' j .closed = cnt ps j .closed) (hm : mgrCnt ps' = mgrCnt ps) (h : Rest ps) :
    Rest ps' := by
  refine ⟨fun h0 => ?_, fun h1 => ?_⟩
  · have := h.1 (hf.runs ▸ h0)
    exact ⟨fun j => (hc j).trans (this.1 j), hm.trans this.2⟩
  · have := h.2 (hf.runs ▸ h1)
    exact ⟨fun j hj => (hc j).trans (this.1 j ((hf.alive j).mp hj)),
      fun ha => hm.trans (this.2 (hf.mgrAlive ▸ ha))⟩

/-- Shape of the call after `progress`. -/
def Follows (c c' : Call) : Prop :=
  match c with
  | .protoSends k _ _ =>
    (∃ w e, c' = .protoSends k w e) ∨ (k = .closed ∧ ∃ e, c' = .mgrSend e) ∨
      (∃ ok, c' = .result k ok ∧ (k = .established → ok = true))
  | .mgrSend _ => (∃ e, c' = .mgrSend e) ∨ (∃ ok, c' = .result .closed ok)
  | c => c' = c

theorem progressMgr_follows (ps : PSet) (e : Bool) :
    (∃ e', (progressMgr ps e).call = .mgrSend e') ∨ (∃ ok, (progressMgr ps e).call = .result .closed ok) := by
  unfold progressMgr
  rcases trySend ps.mgr .closed with ⟨p, c⟩
  cases p
  · exact Or.inr ⟨_, rfl⟩
  · exact Or.inr ⟨_, rfl⟩
  · exact Or.inl ⟨_, rfl⟩

theorem progress_inv (ps : PSet) (h : Inv ps) :
    Inv (progress ps) ∧ Frame ps (progress ps) ∧ Follows ps.call (progress ps).call := by
  cases hcall : ps.call with
  | idle => simp [progress, hcall, h, Frame.rfl', Follows]
  | result k ok => simp [progress, hcall, h, Frame.rfl', Follows]
  | mgrSend e =>
    have hc := h.call
    simp only [CallInv, hcall] at hc
    have := progressMgr_inv ps e h.le hc.1 (h.rep.mpr hc.1) hc.2.1 hc.2.2 h.ord
    simp only [progress, hcall]
    exact ⟨this.1, this.2, progressMgr_follows ps e⟩
  | protoSends k w e =>
    have hc := h.call
    simp only [CallInv, hcall] at hc
    obtain ⟨hnd, hk1, hk2⟩ := hc
    obtain ⟨sent, full, f1, f2, f3, f4, f5, f6, f7, f8, f9, f10, f11, _⟩ := pollSends_spec k.msg w hnd ps [] e
    rcases hr : pollSends k.msg w ps [] e with ⟨ps', w', e'⟩
    rw [hr] at f1 f2 f3 f4 f10 f11
    dsimp only at f1 f2 f3 f4 f10 f11
    simp only [List.nil_append] at f4
    subst f4
    have hsnd : sent.Nodup := f5.nodup hnd
    have hmg : mgrCnt ps' = mgrCnt ps := by
      simp only [mgrCnt, f3, List.count_append, count_map_proto_mgr, Nat.add_zero]
    by_cases hkc : k = .closed
    · subst hkc
      obtain ⟨hruns, h0, h1, hm0⟩ := hk1 rfl
      have hcnt : ∀ j, cnt ps' j .closed = cnt ps j .closed + if j ∈ sent then 1 else 0 := by
        intro j
        simp only [cnt, f3, List.count_append]
        exact congrArg _ (count_map_proto_same Msg.closed j sent hsnd)
      have hle' : ∀ j, cnt ps' j .closed ≤ 1 := by
        intro j
        rw [hcnt j]
        by_cases hj : j ∈ sent
        · have := h0 j (f5.subset hj); simp [hj, this]
        · have := h.le j; simp [hj, this]
      have hruns' : ps'.closedRuns = 1 := f1.runs.trans hruns
      have hrep' : ps'.closedReported = true := f1.rep.trans (h.rep.mpr hruns)
      have hm0' : mgrCnt ps' = 0 := hmg.trans hm0
      have hord' : Ordered ps'.log := by
        rw [f3]
        refine ordered_append_nomgr (List.count_eq_zero.mp hm0) ?_
        intro hm; obtain ⟨_, _, hk⟩ := List.mem_map.mp hm; cases hk
      have htold : ∀ j, aliveAt ps' j → j ∉ w' → cnt ps' j .closed = 1 := by
        intro j hj hnf
        have hj0 := (f1.alive j).mp hj
        rw [hcnt j]
        by_cases hjw : j ∈ w
        · rcases f9 j hjw hj0 with hs | hf
          · simp [hs, h0 j hjw]
          · exact absurd hf hnf
        · have hns : j ∉ sent := fun hs => hjw (f5.subset hs)
          simp [hns, h1 j hj0 hjw]
      cases w' with
      | nil =>
        have := progressMgr_inv ps' e' hle' hruns' hrep' (fun j hj => htold j hj (by simp)) hm0' hord'
        simp only [progress, hcall, hr]
        refine ⟨this.1, f1.trans this.2, ?_⟩
        rcases progressMgr_follows ps' e' with ⟨e2, h2⟩ | ⟨ok, h2⟩
        · exact Or.inr (Or.inl ⟨rfl, e2, h2⟩)
        · exact Or.inr (Or.inr ⟨ok, h2, fun hk => by cases hk⟩)
      | cons a t =>
        simp only [progress, hcall, hr]
        refine ⟨⟨hle', by show mgrCnt ps' ≤ 1; omega, by show ps'.closedRuns ≤ 1; omega,
          by show ps'.closedReported = true ↔ ps'.closedRuns = 1; simp [hrep', hruns'], ?_, hord'⟩,
          ⟨f1.mgrAlive, f1.order, f1.rep, f1.runs, f1.len, f1.alive⟩, Or.inl ⟨_, _, rfl⟩⟩
        simp only [CallInv]
        refine ⟨f6.nodup hnd, fun _ => ⟨hruns', ?_, htold, hm0'⟩, fun hne => absurd rfl hne⟩
        intro j hj
        show cnt ps' j .closed = 0
        rw [hcnt j]
        have hns : j ∉ sent := fun hs => (f7 j hs).2 hj
        simp [hns, h0 j (f6.subset hj)]
    · have hmne := Kind.msg_ne_closed hkc
      have hcnt : ∀ j, cnt ps' j .closed = cnt ps j .closed := by
        intro j
        simp only [cnt, f3, List.count_append, count_map_proto_ne _ _ hmne, Nat.add_zero]
      have hrest : Rest ps' := Rest.of_frame f1 hcnt hmg (hk2 hkc)
      have hle' : ∀ j, cnt ps' j .closed ≤ 1 := fun j => (hcnt j) ▸ h.le j
      have hord' : Ordered ps'.log := by
        rw [f3]
        refine ordered_append_other h.ord ?_
        intro x hx
        obtain ⟨i, _, hi⟩ := List.mem_map.mp hx
        subst hi
        exact ⟨by simp, fun j hj => by injection hj with _ h2; exact hmne h2⟩
      have hbase : ∀ c : Call, CallInv { ps' with call := c } → Inv { ps' with call := c } := fun c hc =>
        ⟨hle', by show mgrCnt ps' ≤ 1; rw [hmg]; exact h.mle, by show ps'.closedRuns ≤ 1; rw [f1.runs]; exact h.runs,
          by show ps'.closedReported = true ↔ ps'.closedRuns = 1; rw [f1.rep, f1.runs]; exact h.rep, hc, hord'⟩
      have hfr : ∀ c : Call, Frame ps { ps' with call := c } := fun c =>
        ⟨f1.mgrAlive, f1.order, f1.rep, f1.runs, f1.len, f1.alive⟩
      cases w' with
      | nil =>
        cases k with
        | closed => exact absurd rfl hkc
        | established =>
          simp only [progress, hcall, hr]
          exact ⟨hbase _ hrest, hfr _, Or.inr (Or.inr ⟨_, rfl, fun _ => rfl⟩)⟩
        | substream i o =>
          simp only [progress, hcall, hr]
          exact ⟨hbase _ hrest, hfr _, Or.inr (Or.inr ⟨_, rfl, fun hk => by cases hk⟩)⟩
      | cons a t =>
        simp only [progress, hcall, hr]
        refine ⟨hbase _ ?_, hfr _, Or.inl ⟨_, _, rfl⟩⟩
        simp only [CallInv]
        exact ⟨f6.nodup hnd, fun hk => absurd hk hkc, fun _ => hrest⟩

theorem Rest.weaken {ps ps' : PSet} (h : Rest ps) (hlog : ps'.log = ps.log)
    (hruns : ps'.closedRuns = ps.closedRuns)
    (hal : ∀ j, aliveAt ps' j → aliveAt ps j) (hm : ps'.mgr.alive = true → ps.mgr.alive = true) : Rest ps' := by
  have hc : ∀ j m, cnt ps' j m = cnt ps j m := fun j m => by simp [cnt, hlog]
  have hmc : mgrCnt ps' = mgrCnt ps := by simp [mgrCnt, hlog]
  refine ⟨fun h0 => ?_, fun h1 => ?_⟩
  · have := h.1 (hruns ▸ h0)
    exact ⟨fun j => (hc j _).trans (this.1 j), hmc.trans this.2⟩
  · have := h.2 (hruns ▸ h1)
    exact ⟨fun j hj => (hc j _).trans (this.1 j (hal j hj)), fun ha => hmc.trans (this.2 (hm ha))⟩

/-- The invariant only gets easier when receivers go away or queues change. -/
theorem Inv.weaken {ps ps' : PSet} (h : Inv ps) (hlog : ps'.log = ps.log) (hcall : ps'.call = ps.call)
    (hruns : ps'.closedRuns = ps.closedRuns) (hrep : ps'.closedReported = ps.closedReported)
    (hal : ∀ j, aliveAt ps' j → aliveAt ps j) (hm : ps'.mgr.alive = true → ps.mgr.alive = true) : Inv ps' := by
  have hc : ∀ j m, cnt ps' j m = cnt ps j m := fun j m => by simp [cnt, hlog]
  have hmc : mgrCnt ps' = mgrCnt ps := by simp [mgrCnt, hlog]
  refine ⟨fun j => (hc j _) ▸ h.le j, hmc ▸ h.mle, hruns ▸ h.runs, by rw [hrep, hruns]; exact h.rep, ?_, hlog ▸ h.ord⟩
  have hci := h.call
  unfold CallInv at hci ⊢
  rw [hcall]
  cases hcl : ps.call with
  | idle => rw [hcl] at hci; exact hci.weaken hlog hruns hal hm
  | result k ok => rw [hcl] at hci; exact hci.weaken hlog hruns hal hm
  | mgrSend e =>
    rw [hcl] at hci
    exact ⟨hruns.trans hci.1, fun j hj => (hc j _).trans (hci.2.1 j (hal j hj)), hmc.trans hci.2.2⟩
  | protoSends k w e =>
    rw [hcl] at hci
    refine ⟨hci.1, fun hk => ?_, fun hk => (hci.2.2 hk).weaken hlog hruns hal hm⟩
    obtain ⟨a, b, c, d⟩ := hci.2.1 hk
    exact ⟨hruns.trans a, fun j hj => (hc j _).trans (b j hj), fun j hj hn => (hc j _).trans (c j (hal j hj) hn),
      hmc.trans d⟩

theorem aliveAt_set {ps : PSet} {i : Nat} {c c' : Chan} (hc : ps.chans[i]? = some c)
    (hcc : c'.alive = true → c.alive = true) (j : Nat) :
    aliveAt { ps with chans := ps.chans.set i c' } j → aliveAt ps j := by
  intro ⟨d, hd, hda⟩
  simp only [List.getElem?_set] at hd
  by_cases hij : i = j
  · subst hij
    have hlt : i < ps.chans.length := (List.getElem?_eq_some_iff.mp hc).1
    simp [hlt] at hd
    subst hd
    exact ⟨c, hc, hcc hda⟩
  · simp [hij] at hd
    exact ⟨d, hd, hda⟩

theorem WF.of_frame {ps ps' : PSet} (hf : Frame ps ps') (h : WF ps) : WF ps' := by
  unfold WF at *
  rw [hf.order, hf.len]; exact h

def quiet (c : Call) : Prop := ∀ k w e, c ≠ .protoSends k w e ∧ c ≠ .mgrSend e

theorem CallInv.rest_of_quiet {ps : PSet} (h : CallInv ps) (hq : quiet ps.call) : Rest ps := by
  unfold CallInv at h
  cases hc : ps.call with
  | idle => rw [hc] at h; exact h
  | result k ok => rw [hc] at h; exact h
  | mgrSend e => exact absurd hc (hq .closed [] e).2
  | protoSends k w e => exact absurd hc (hq k w e).1

/-- What every report call and every `progress` leaves alone. -/
structure Frame0 (ps ps' : PSet) : Prop where
  mgrAlive : ps'.mgr.alive = ps.mgr.alive
  order : ps'.order = ps.order
  len : ps'.chans.length = ps.chans.length
  alive : ∀ j, aliveAt ps' j ↔ aliveAt ps j

theorem Frame.to0 {ps ps' : PSet} (h : Frame ps ps') : Frame0 ps ps' := ⟨h.mgrAlive, h.order, h.len, h.alive⟩

theorem WF.of_frame0 {ps ps' : PSet} (hf : Frame0 ps ps') (h : WF ps) : WF ps' := by
  unfold WF at *
  rw [hf.order, hf.len]; exact h

theorem startCall_inv (ps : PSet) (k : Kind) (h : Inv ps) (hwf : WF ps) (hq : quiet ps.call) :
    Inv (startCall ps k) ∧ Frame0 ps (startCall ps k) := by
  have hrest := h.call.rest_of_quiet hq
  cases k with
  | closed =>
    simp only [startCall]
    by_cases hr : ps.closedReported = true
    · simp only [hr, if_true]
      exact ⟨⟨h.le, h.mle, h.runs, by simpa [hr] using h.rep, hrest, h.ord⟩, ⟨rfl, rfl, rfl, fun _ => Iff.rfl⟩⟩
    · simp only [hr, Bool.false_eq_true, if_false]
      have hr0 : ps.closedRuns = 0 := by
        have := h.runs
        have h1 : ps.closedRuns ≠ 1 := fun h1 => hr (h.rep.mpr h1)
        omega
      have hz := hrest.1 hr0
      have hinv0 : Inv { ps with closedReported := true, closedRuns := ps.closedRuns + 1,
                                 call := .protoSends .closed ps.order false } := by
        refine ⟨h.le, h.mle, by show ps.closedRuns + 1 ≤ 1; omega,
          by show true = true ↔ ps.closedRuns + 1 = 1; simp [hr0], ?_, h.ord⟩
        simp only [CallInv]
        refine ⟨hwf.1, fun _ => ⟨by simp [hr0], fun j _ => hz.1 j, ?_, hz.2⟩, fun hne => absurd rfl hne⟩
        intro j ⟨c, hc, _⟩ hn
        exact absurd ((hwf.2 j).mpr (List.getElem?_eq_some_iff.mp hc).1) hn
      have := progress_inv _ hinv0
      have hf := this.2.1.to0
      exact ⟨this.1, ⟨hf.mgrAlive, hf.order, hf.len, hf.alive⟩⟩
  | established =>
    simp only [startCall]
    have hinv0 : Inv { ps with active := false, call := .protoSends .established ps.order false } := by
      refine ⟨h.le, h.mle, h.runs, h.rep, ?_, h.ord⟩
      simp only [CallInv]
      exact ⟨hwf.1, (fun hk => by cases hk), fun _ => hrest⟩
    have := progress_inv _ hinv0
    have hf := this.2.1.to0
    exact ⟨this.1, ⟨hf.mgrAlive, hf.order, hf.len, hf.alive⟩⟩
  | substream i o =>
    simp only [startCall]
    by_cases hi : i < ps.chans.length
    · simp only [hi, if_true]
      have hinv0 : Inv { ps with call := .protoSends (.substream i o) [i] false } := by
        refine ⟨h.le, h.mle, h.runs, h.rep, ?_, h.ord⟩
        simp only [CallInv]
        exact ⟨by simp, (fun hk => by cases hk), fun _ => hrest⟩
      have := progress_inv _ hinv0
      have hf := this.2.1.to0
      exact ⟨this.1, ⟨hf.mgrAlive, hf.order, hf.len, hf.alive⟩⟩
    · simp only [hi, if_false]
      exact ⟨⟨h.le, h.mle, h.runs, h.rep, hrest, h.ord⟩, ⟨rfl, rfl, rfl, fun _ => Iff.rfl⟩⟩

/-- `c` is a call of kind `k`, in flight or returned. -/
def CK (k : Kind) (c : Call) : Prop :=
  (∃ w e, c = .protoSends k w e) ∨ (k = .closed ∧ ∃ e, c = .mgrSend e) ∨
    (∃ ok, c = .result k ok ∧ (k = .established → ok = true))

theorem CK.follows {k : Kind} {c c' : Call} (h : CK k c) (hf : Follows c c') : CK k c' := by
  rcases h with ⟨w, e, rfl⟩ | ⟨hk, e, rfl⟩ | ⟨ok, rfl, hok⟩
  · exact hf
  · subst hk
    rcases hf with ⟨e', h'⟩ | ⟨ok, h'⟩
    · exact Or.inr (Or.inl ⟨rfl, e', h'⟩)
    · exact Or.inr (Or.inr ⟨ok, h', fun hk => by cases hk⟩)
  · simp only [Follows] at hf; subst hf; exact Or.inr (Or.inr ⟨ok, rfl, hok⟩)

theorem Follows.refl' (c : Call) : Follows c c := by
  cases c with
  | idle => rfl
  | result k ok => rfl
  | mgrSend e => exact Or.inl ⟨e, rfl⟩
  | protoSends k w e => exact Or.inl ⟨w, e, rfl⟩

theorem quiet.follows {c c' : Call} (h : quiet c) (hf : Follows c c') : c' = c := by
  cases c with
  | idle => exact hf
  | result k ok => exact hf
  | mgrSend e => exact absurd rfl (h .closed [] e).2
  | protoSends k w e => exact absurd rfl (h k w e).1

theorem startCall_shape (ps : PSet) (k : Kind) (h : Inv ps) (hwf : WF ps) (hq : quiet ps.call) :
    CK k (startCall ps k).call ∧
    (k = .closed → (startCall ps k).closedRuns = 1) ∧
    (k ≠ .closed → (startCall ps k).closedRuns = ps.closedRuns) := by
  have hrest := h.call.rest_of_quiet hq
  cases k with
  | closed =>
    simp only [startCall]
    by_cases hr : ps.closedReported = true
    · simp only [hr, if_true]
      exact ⟨Or.inr (Or.inr ⟨_, rfl, fun hk => by cases hk⟩), fun _ => h.rep.mp hr, fun hne => absurd rfl hne⟩
    · simp only [hr, Bool.false_eq_true, if_false]
      have hr0 : ps.closedRuns = 0 := by
        have := h.runs
        have h1 : ps.closedRuns ≠ 1 := fun h1 => hr (h.rep.mpr h1)
        omega
      have hi := (startCall_inv ps .closed h hwf hq).1
      simp only [startCall, hr, Bool.false_eq_true, if_false] at hi
      have hz := hrest.1 hr0
      have hinv0 : Inv { ps with closedReported := true, closedRuns := ps.closedRuns + 1,
                                 call := .protoSends .closed ps.order false } := by
        refine ⟨h.le, h.mle, by show ps.closedRuns + 1 ≤ 1; omega,
          by show true = true ↔ ps.closedRuns + 1 = 1; simp [hr0], ?_, h.ord⟩
        simp only [CallInv]
        refine ⟨hwf.1, fun _ => ⟨by simp [hr0], fun j _ => hz.1 j, ?_, hz.2⟩, fun hne => absurd rfl hne⟩
        intro j ⟨c, hc, _⟩ hn
        exact absurd ((hwf.2 j).mpr (List.getElem?_eq_some_iff.mp hc).1) hn
      have := progress_inv _ hinv0
      refine ⟨this.2.2, fun _ => ?_, fun hne => absurd rfl hne⟩
      rw [this.2.1.runs]; show ps.closedRuns + 1 = 1; omega
  | established =>
    simp only [startCall]
    have hinv0 : Inv { ps with active := false, call := .protoSends .established ps.order false } := by
      refine ⟨h.le, h.mle, h.runs, h.rep, ?_, h.ord⟩
      simp only [CallInv]
      exact ⟨hwf.1, (fun hk => by cases hk), fun _ => hrest⟩
    have := progress_inv _ hinv0
    exact ⟨this.2.2, (fun hk => by cases hk), fun _ => this.2.1.runs⟩
  | substream i o =>
    simp only [startCall]
    by_cases hi : i < ps.chans.length
    · simp only [hi, if_true]
      have hinv0 : Inv { ps with call := .protoSends (.substream i o) [i] false } := by
        refine ⟨h.le, h.mle, h.runs, h.rep, ?_, h.ord⟩
        simp only [CallInv]
        exact ⟨by simp, (fun hk => by cases hk), fun _ => hrest⟩
      have := progress_inv _ hinv0
      exact ⟨this.2.2, (fun hk => by cases hk), fun _ => this.2.1.runs⟩
    · simp only [hi, if_false]
      exact ⟨Or.inr (Or.inr ⟨_, rfl, fun hk => by cases hk⟩), (fun hk => by cases hk), fun _ => trivial⟩

/-- What an environment step guarantees. -/
structure EnvRel (ps ps' : PSet) : Prop where
  inv : Inv ps'
  wf : WF ps'
  alive : ∀ j, aliveAt ps' j → aliveAt ps j
  mgrAlive : ps'.mgr.alive = true → ps.mgr.alive = true
  follows : Follows ps.call ps'.call
  runs : ps'.closedRuns = ps.closedRuns

theorem EnvRel.rfl' {ps : PSet} (h : Inv ps) (hwf : WF ps) : EnvRel ps ps :=
  ⟨h, hwf, fun _ h => h, fun h => h, Follows.refl' _, rfl⟩

theorem EnvRel.via_progress {ps ps1 : PSet} (hwf : WF ps) (h1 : Inv ps1) (hcall : ps1.call = ps.call)
    (hruns : ps1.closedRuns = ps.closedRuns) (horder : ps1.order = ps.order)
    (hlen : ps1.chans.length = ps.chans.length)
    (hal : ∀ j, aliveAt ps1 j → aliveAt ps j) (hm : ps1.mgr.alive = true → ps.mgr.alive = true) :
    EnvRel ps (progress ps1) := by
  have := progress_inv ps1 h1
  have hwf1 : WF ps1 := by unfold WF at *; rw [horder, hlen]; exact hwf
  exact ⟨this.1, hwf1.of_frame this.2.1, fun j hj => hal j ((this.2.1.alive j).mp hj),
    fun ha => hm (this.2.1.mgrAlive ▸ ha), hcall ▸ this.2.2, this.2.1.runs.trans hruns⟩

theorem envStep_rel (ps : PSet) (o : EnvOp) (h : Inv ps) (hwf : WF ps) : EnvRel ps (envStep ps o) := by
  have setc : ∀ i c c', ps.chans[i]? = some c → (c'.alive = true → c.alive = true) →
      Inv { ps with chans := ps.chans.set i c' } ∧
      (∀ j, aliveAt { ps with chans := ps.chans.set i c' } j → aliveAt ps j) := fun i c c' hc hcc =>
    ⟨h.weaken rfl rfl rfl rfl (aliveAt_set hc hcc) (fun h => h), aliveAt_set hc hcc⟩
  cases o with
  | recv i =>
    simp only [envStep]
    cases hc : ps.chans[i]? with
    | none => exact EnvRel.rfl' h hwf
    | some c =>
      have := setc i c c.pop hc (fun h => h)
      exact EnvRel.via_progress hwf this.1 rfl rfl rfl (by simp) this.2 (fun h => h)
  | drop i =>
    simp only [envStep]
    cases hc : ps.chans[i]? with
    | none => exact EnvRel.rfl' h hwf
    | some c =>
      have := setc i c c.dropRx hc (fun h => by simp [Chan.dropRx] at h)
      exact EnvRel.via_progress hwf this.1 rfl rfl rfl (by simp) this.2 (fun h => h)
  | fill i =>
    simp only [envStep]
    by_cases hw : waitingOn ps i = true
    · simp only [hw, if_true]; exact EnvRel.rfl' h hwf
    · simp only [hw, Bool.false_eq_true, if_false]
      cases hc : ps.chans[i]? with
      | none => exact EnvRel.rfl' h hwf
      | some c =>
        have := setc i c c.fillUp hc (fun h => by
          unfold Chan.fillUp at h; split at h <;> simp_all)
        refine ⟨this.1, ?_, this.2, fun h => h, Follows.refl' _, rfl⟩
        unfold WF at *; simpa using hwf
  | recvMgr =>
    simp only [envStep]
    exact EnvRel.via_progress hwf (h.weaken rfl rfl rfl rfl (fun _ h => h) (fun h => h)) rfl rfl rfl rfl
      (fun _ h => h) (fun h => h)
  | dropMgr =>
    simp only [envStep]
    exact EnvRel.via_progress hwf (h.weaken rfl rfl rfl rfl (fun _ h => h) (fun h => by simp [Chan.dropRx] at h))
      rfl rfl rfl rfl (fun _ h => h) (fun h => by simp [Chan.dropRx] at h)
  | fillMgr =>
    simp only [envStep]
    have hfill : (ps.mgr.fillUp.alive = true → ps.mgr.alive = true) := fun h => by
      unfold Chan.fillUp at h; split at h <;> simp_all
    by_cases hw : waitingOnMgr ps = true
    · simp only [hw, if_true]; exact EnvRel.rfl' h hwf
    · simp only [hw, Bool.false_eq_true, if_false]
      exact ⟨h.weaken rfl rfl rfl rfl (fun _ h => h) hfill, hwf, fun _ h => h, hfill, Follows.refl' _, rfl⟩

end Litep2pVerif.Conn
