import Litep2pVerif.Proofs.Conn.Established
/-! The life cycle of an outbound open request in the `TcpConnection::start` loop (C08) and the names of a protocol
(C09): lemmas behind `outbound_open_answered_by_loop` and `fallback_name_substream_holds_connection`. -/
namespace Litep2pVerif.Conn

/-! ### requested → yamux open pending → negotiating -/

theorem takeCmd_opens (s : TLoop) (i : Nat) (q : List Cmd) (hr : s.running = true) (hq : s.cmdQ = .openSub i :: q) :
    (tstep s .takeCmd).subs = s.subs ++ [⟨false, some i, .opening⟩] ∧ (tstep s .takeCmd).cmdQ = q ∧
    (tstep s .takeCmd).loop.exited = none ∧ (tstep s .takeCmd).running = true := by
  obtain ⟨h1, h2⟩ := (running_iff s).mp hr
  have hnr : ¬ s.running = false := by simp [hr]
  have hL : lstep s .cmdOpen = { s.loop with pending := negCount s.subs + 1 } := by
    simp [lstep, loopStep, h1, h2]
  simp only [tstep, tTakeCmd]
  rw [if_neg hnr, hq]
  simp only []
  have hex : (lstep s .cmdOpen).exited = none := by rw [hL]; exact h1
  rw [cleanup_of_running _ hex]
  refine ⟨rfl, rfl, hex, ?_⟩
  rw [running_iff]
  exact ⟨hex, by rw [hL]; exact h2⟩

theorem yamuxOpened_step (s : TLoop) (k : Nat) (x : Sub) (hr : s.running = true) (hk : s.subs[k]? = some x)
    (hx : x.stage = .opening) :
    (tstep s (.yamuxOpened k)).subs[k]? = some { x with stage := .negotiating } ∧
    (tstep s (.yamuxOpened k)).loop = s.loop ∧ (tstep s (.yamuxOpened k)).cmdQ = s.cmdQ ∧
    (tstep s (.yamuxOpened k)).handles = s.handles := by
  have hlt : k < s.subs.length := (List.getElem?_eq_some_iff.mp hk).1
  have hnr : ¬ s.running = false := by simp [hr]
  simp only [tstep, tYamuxOpened]
  rw [if_neg hnr, hk]
  simp only []
  rw [if_pos hx]
  exact ⟨by rw [List.getElem?_set_self hlt], rfl, rfl, rfl⟩

/-- A pending entry stays pending — same direction, same protocol — under every transition that does not END its
future, as long as the loop has not returned (`yamuxOpened k` moves it from `opening` to `negotiating`). -/
theorem pending_step (s : TLoop) (l : TLabel) (k : Nat) (x : Sub) (hk : s.subs[k]? = some x)
    (hx : x.stage.pending = true) (hl : l.endsNeg k = false) (hrun : (tstep s l).loop.exited = none) :
    ∃ y, (tstep s l).subs[k]? = some y ∧ y.stage.pending = true ∧ y.inbound = x.inbound ∧ y.proto = x.proto := by
  by_cases ht : l.touches k = false
  · exact ⟨x, pending_persists s l k x hk hx ht hrun, hx, rfl, rfl⟩
  · cases l with
    | yamuxOpened k' =>
      have hkk : k' = k := by simpa [TLabel.touches] using ht
      subst hkk
      have hlt : k' < s.subs.length := (List.getElem?_eq_some_iff.mp hk).1
      simp only [tstep, tYamuxOpened]
      split
      · exact ⟨x, hk, hx, rfl, rfl⟩
      · rw [hk]
        simp only []
        split
        · exact ⟨{ x with stage := .negotiating }, by rw [List.getElem?_set_self hlt], rfl, rfl, rfl⟩
        · exact ⟨x, hk, hx, rfl, rfl⟩
    | _ => exact absurd (by simpa [TLabel.touches] using hl) ht

/-- While the loop runs, the only way out of `pending_substreams` is the end of the entry's own future. -/
theorem trun_pending_or_ended (ls : List TLabel) : ∀ (s : TLoop) (k : Nat) (x : Sub),
    s.subs[k]? = some x → x.stage.pending = true → (trun s ls).loop.exited = none →
    (∃ y, (trun s ls).subs[k]? = some y ∧ y.stage.pending = true ∧ y.inbound = x.inbound ∧ y.proto = x.proto) ∨
    (∃ l ∈ ls, l.endsNeg k = true) := by
  induction ls with
  | nil => intro s k x hk hx _; exact Or.inl ⟨x, hk, hx, rfl, rfl⟩
  | cons l ls ih =>
    intro s k x hk hx hrun
    by_cases hl : l.endsNeg k = false
    · have hmid : (tstep s l).loop.exited = none := trun_exited ls _ hrun
      obtain ⟨y, hy, hyp, hyi, hypr⟩ := pending_step s l k x hk hx hl hmid
      rcases ih (tstep s l) k y hy hyp hrun with ⟨z, hz, hzp, hzi, hzpr⟩ | ⟨l', hl', he⟩
      · exact Or.inl ⟨z, hz, hzp, hzi.trans hyi, hzpr.trans hypr⟩
      · exact Or.inr ⟨l', List.mem_cons_of_mem _ hl', he⟩
    · exact Or.inr ⟨l, List.mem_cons_self .., by simpa using hl⟩

/-! ### answered -/

theorem startCall_substream_any (ps : PSet) (p : Nat) (m : Bool) (c : Chan) (hc : ps.chans[p]? = some c)
    (ha : c.alive = true) :
    (c.queue.length < c.cap → startCall ps (.substream p m) =
      { ps with chans := ps.chans.set p { c with queue := c.queue ++ [(Kind.substream p m).msg] },
                log := ps.log ++ [.proto p (Kind.substream p m).msg], call := .result (.substream p m) true }) ∧
    (¬ c.queue.length < c.cap → startCall ps (.substream p m) =
      { ps with call := .protoSends (.substream p m) [p] false }) := by
  have hlt : p < ps.chans.length := (List.getElem?_eq_some_iff.mp hc).1
  constructor
  · intro hroom
    unfold startCall
    simp only []
    rw [if_pos hlt]
    simp only [progress, pollSends, sendTo, hc, trySend, ha, hroom, Bool.true_eq_false, if_false, if_true,
      Bool.not_false]
  · intro hroom
    unfold startCall
    simp only []
    rw [if_pos hlt]
    simp only [progress, pollSends, sendTo, hc, trySend, ha, hroom, Bool.true_eq_false, if_false,
      List.nil_append]

/-- The future of an OUTBOUND request of protocol `i` ends with an error — negotiation failure or either timer, from
either pending stage — while `i` is alive: `SubstreamOpenFailure` for that request goes to `i`. If `i`'s channel has
room it is enqueued at once and the loop is back at its `select!`; otherwise the loop is suspended in that one send
(and nothing else). The loop does not return, the entry leaves `pending_substreams`. -/
theorem negFail_answers (s : TLoop) (hr : s.running = true) (k i : Nat) (x : Sub)
    (hk : s.subs[k]? = some x) (hx : x.stage.pending = true) (hout : x.inbound = false) (hpr : x.proto = some i)
    (hp : protoAlive s i = true) :
    (tstep s (.negFail k)).loop.exited = none ∧
    (tstep s (.negFail k)).subs[k]? = some { x with stage := .gone } ∧
    (hasRoom s i → (tstep s (.negFail k)).running = true ∧
      (tstep s (.negFail k)).loop.ps.log = s.loop.ps.log ++ [.proto i .openFailure] ∧
      (tstep s (.negFail k)).loop.ps.call = .idle) ∧
    (¬ hasRoom s i → (tstep s (.negFail k)).loop.cont = some .substreamReport ∧
      (tstep s (.negFail k)).loop.ps.call = .protoSends (.substream i false) [i] false ∧
      (tstep s (.negFail k)).loop.ps.log = s.loop.ps.log) := by
  obtain ⟨h1, h2⟩ := (running_iff s).mp hr
  have hnr : ¬ s.running = false := by simp [hr]
  have hlt : k < s.subs.length := (List.getElem?_eq_some_iff.mp hk).1
  have h3 : ¬ x.stage.pending = false := by simp [hx]
  have hpend : negCount s.subs ≠ 0 := by have := negCount_pos s.subs k x hk hx; omega
  unfold protoAlive at hp
  cases hc : s.loop.ps.chans[i]? with
  | none => rw [hc] at hp; cases hp
  | some c =>
    rw [hc] at hp
    simp only [] at hp
    simp only [tstep, tNegFail]
    rw [if_neg hnr, hk]
    simp only []
    rw [if_neg h3]
    simp only [hout, hpr, Bool.false_eq_true, if_false]
    by_cases hroom : c.queue.length < c.cap
    · have hL : lstep s (.negotiated (.err (some i))) =
          { s.loop with pending := negCount s.subs - 1, cont := none,
                        ps := { s.loop.ps with chans := s.loop.ps.chans.set i { c with queue := c.queue ++ [.openFailure] },
                                               log := s.loop.ps.log ++ [.proto i .openFailure], call := .idle } } := by
        simp only [lstep, loopStep, h1, h2, hpend, Option.isSome_none, Bool.or_self, Bool.false_eq_true, if_false]
        rw [(startCall_substream_any s.loop.ps i false c hc hp).1 hroom]
        simp only [settle, if_true, Kind.msg]
      have hex : (lstep s (.negotiated (.err (some i)))).exited = none := by rw [hL]; exact h1
      rw [cleanup_of_running _ hex]
      simp only []
      rw [hL]
      refine ⟨h1, by rw [List.getElem?_set_self hlt], fun _ => ⟨?_, rfl, rfl⟩, fun hn => absurd ⟨c, hc, hroom⟩ hn⟩
      rw [running_iff]
      exact ⟨h1, rfl⟩
    · have hL : lstep s (.negotiated (.err (some i))) =
          { s.loop with pending := negCount s.subs - 1, cont := some .substreamReport,
                        ps := { s.loop.ps with call := .protoSends (.substream i false) [i] false } } := by
        simp only [lstep, loopStep, h1, h2, hpend, Option.isSome_none, Bool.or_self, Bool.false_eq_true, if_false]
        rw [(startCall_substream_any s.loop.ps i false c hc hp).2 hroom]
        simp only [settle]
      have hex : (lstep s (.negotiated (.err (some i)))).exited = none := by rw [hL]; exact h1
      rw [cleanup_of_running _ hex]
      simp only []
      rw [hL]
      refine ⟨h1, by rw [List.getElem?_set_self hlt], fun ⟨c', hc', hr'⟩ => ?_, fun _ => ⟨rfl, rfl, rfl⟩⟩
      rw [hc] at hc'; cases hc'; exact absurd hr' hroom

/-! ### at most once: an entry that has left `pending_substreams` never comes back -/

theorem cleanup_pending (t : TLoop) (k : Nat) (y : Sub) (h : (cleanup t).subs[k]? = some y)
    (hy : y.stage.pending = true) : t.subs[k]? = some y := by
  unfold cleanup at h
  split at h
  · simp only [List.getElem?_map] at h
    cases hx : t.subs[k]? with
    | none => rw [hx] at h; cases h
    | some x =>
      rw [hx] at h
      simp only [Option.map_some, Option.some.injEq] at h
      by_cases hp : x.stage.pending = true
      · rw [if_pos hp] at h; subst h; cases hy
      · rw [if_neg hp] at h; rw [h]
  · exact h

theorem setStage_pending (subs : List Sub) (k' k : Nat) (st : Stage) (y : Sub) (hst : st.pending = false)
    (h : (setStage subs k' st)[k]? = some y) (hy : y.stage.pending = true) : subs[k]? = some y := by
  unfold setStage at h
  split at h
  · by_cases e : k' = k
    · subst e
      rename_i x hx
      have hlt : k' < subs.length := (List.getElem?_eq_some_iff.mp hx).1
      rw [List.getElem?_set_self hlt] at h
      cases h; rw [hst] at hy; cases hy
    · rw [List.getElem?_set_ne e] at h; exact h
  · exact h

theorem set_pending (subs : List Sub) (k' k : Nat) (z y : Sub) (hz : z.stage.pending = false)
    (h : (subs.set k' z)[k]? = some y) (hy : y.stage.pending = true) : subs[k]? = some y := by
  by_cases e : k' = k
  · subst e
    by_cases hlt : k' < subs.length
    · rw [List.getElem?_set_self hlt] at h
      cases h; rw [hz] at hy; cases hy
    · rw [List.getElem?_eq_none (by simpa using hlt)] at h; cases h
  · rw [List.getElem?_set_ne e] at h; exact h

/-- If entry `k` of the table is pending after a transition, it was pending before it — with the same direction and
protocol — or it did not exist. So an entry that has been answered (or has otherwise left `pending_substreams`) is
never pending again. -/
theorem pending_was_pending (s : TLoop) (l : TLabel) (k : Nat) (y : Sub) (hlt : k < s.subs.length)
    (h : (tstep s l).subs[k]? = some y) (hy : y.stage.pending = true) :
    ∃ x, s.subs[k]? = some x ∧ x.stage.pending = true ∧ x.inbound = y.inbound ∧ x.proto = y.proto := by
  have same : s.subs[k]? = some y → ∃ x, s.subs[k]? = some x ∧ x.stage.pending = true ∧ x.inbound = y.inbound ∧
      x.proto = y.proto := fun e => ⟨y, e, hy, rfl, rfl⟩
  have app : ∀ z, (s.subs ++ [z])[k]? = some y → s.subs[k]? = some y := fun z e => by
    rwa [List.getElem?_append_left hlt] at e
  cases l with
  | accept =>
    simp only [tstep, tAccept] at h
    split at h
    · exact same h
    · split at h
      · exact same (by have h' := cleanup_pending _ k y h hy; exact app _ h')
      · exact same (by have h' := cleanup_pending _ k y h hy; exact h')
  | yamuxEof =>
    simp only [tstep] at h
    split at h
    · exact same (by have h' := cleanup_pending _ k y h hy; exact h')
    · exact same h
  | yamuxErr =>
    simp only [tstep] at h
    split at h
    · exact same (by have h' := cleanup_pending _ k y h hy; exact h')
    · exact same h
  | negOk k' p =>
    simp only [tstep, tNegOk] at h
    split at h
    · exact same h
    · split at h
      · exact same h
      · split at h
        · exact same h
        · have h' := cleanup_pending _ k y h hy
          exact same (set_pending _ k' k _ y (by simp only []; split <;> rfl) h' hy)
  | negOkFb k' p f =>
    simp only [tstep, tNegOk] at h
    split at h
    · exact same h
    · split at h
      · exact same h
      · split at h
        · exact same h
        · have h' := cleanup_pending _ k y h hy
          exact same (set_pending _ k' k _ y (by simp only []; split <;> rfl) h' hy)
  | negFail k' =>
    simp only [tstep, tNegFail] at h
    split at h
    · exact same h
    · split at h
      · exact same h
      · split at h
        · exact same h
        · have h' := cleanup_pending _ k y h hy
          exact same (set_pending _ k' k _ y rfl h' hy)
  | yamuxOpened k' =>
    simp only [tstep, tYamuxOpened] at h
    split at h
    · exact same h
    · split at h
      · exact same h
      · rename_i x hx
        split at h
        · rename_i hop
          by_cases e : k' = k
          · subst e
            rw [List.getElem?_set_self hlt] at h
            cases h
            exact ⟨x, hx, by rw [hop]; rfl, rfl, rfl⟩
          · rw [List.getElem?_set_ne e] at h; exact same h
        · exact same h
  | takeCmd =>
    simp only [tstep, tTakeCmd] at h
    split at h
    · exact same h
    · split at h
      · exact same h
      · exact same (by have h' := cleanup_pending _ k y h hy; exact app _ h')
      · exact same (by have h' := cleanup_pending _ k y h hy; exact h')
  | idleExit =>
    simp only [tstep, tIdleExit] at h
    split at h
    · exact same (by have h' := cleanup_pending _ k y h hy; exact h')
    · exact same h
  | recv i =>
    simp only [tstep, tRecv] at h
    split at h
    · exact same h
    · split at h
      · exact same h
      · split at h
        · exact same h
        · exact same (by have h' := cleanup_pending _ k y h hy; exact h')
        · have h' := cleanup_pending _ k y h hy
          simp only [] at h'
          split at h'
          · exact same (setStage_pending _ _ k _ y rfl h' hy)
          · exact same h'
        · exact same (by have h' := cleanup_pending _ k y h hy; exact h')
  | recvMgr => simp only [tstep] at h; exact same (by have h' := cleanup_pending _ k y h hy; exact h')
  | downgrade i => simp only [tstep] at h; split at h <;> exact same h
  | upgrade i => simp only [tstep] at h; split at h <;> exact same h
  | dropHandle i => simp only [tstep] at h; split at h <;> exact same h
  | localOpen i => simp only [tstep] at h; split at h <;> exact same h
  | forceClose i => simp only [tstep] at h; split at h <;> exact same h
  | dropSub i =>
    simp only [tstep] at h
    split at h
    · exact same (setStage_pending _ _ k _ y rfl h hy)
    · split at h
      · exact same (setStage_pending _ _ k _ y rfl h hy)
      · exact same h
  | halfClose i =>
    simp only [tstep] at h
    split at h
    · exact same h
    · split at h
      · exact same (setStage_pending _ _ k _ y rfl h hy)
      · exact same h
  | fill i => simp only [tstep] at h; exact same (by have h' := cleanup_pending _ k y h hy; exact h')
  | fillMgr => simp only [tstep] at h; exact same (by have h' := cleanup_pending _ k y h hy; exact h')
  | dropRx i =>
    simp only [tstep] at h
    have h' := cleanup_pending _ k y h hy
    simp only [List.getElem?_map] at h'
    cases hx : s.subs[k]? with
    | none => rw [hx] at h'; cases h'
    | some x =>
      rw [hx] at h'
      simp only [Option.map_some, Option.some.injEq] at h'
      split at h'
      · subst h'; cases hy
      · subst h'; exact ⟨x, rfl, hy, rfl, rfl⟩

theorem tstep_subs_length (s : TLoop) (l : TLabel) : s.subs.length ≤ (tstep s l).subs.length := by
  have hc : ∀ t : TLoop, (cleanup t).subs.length = t.subs.length := fun t => by
    unfold cleanup; split <;> simp
  have hs : ∀ (subs : List Sub) k st, (setStage subs k st).length = subs.length := fun subs k st => by
    unfold setStage; split <;> simp
  cases l <;> simp only [tstep, tAccept, tNegOk, tNegFail, tYamuxOpened, tTakeCmd, tIdleExit, tRecv] <;>
    (repeat' split) <;> simp [hc, hs]

/-- Once not pending, never pending again: for every schedule. -/
theorem trun_not_pending (ls : List TLabel) : ∀ (s : TLoop) (k : Nat) (x : Sub),
    s.subs[k]? = some x → x.stage.pending = false →
    ∃ y, (trun s ls).subs[k]? = some y ∧ y.stage.pending = false := by
  induction ls with
  | nil => intro s k x hk hx; exact ⟨x, hk, hx⟩
  | cons l ls ih =>
    intro s k x hk hx
    have hlt : k < s.subs.length := (List.getElem?_eq_some_iff.mp hk).1
    have hlt' : k < (tstep s l).subs.length := Nat.lt_of_lt_of_le hlt (tstep_subs_length s l)
    have hy : (tstep s l).subs[k]? = some (tstep s l).subs[k] := by simp [hlt']
    by_cases hp : ((tstep s l).subs[k]).stage.pending = true
    · obtain ⟨x', hx', hxp, _, _⟩ := pending_was_pending s l k _ hlt hy hp
      rw [hk] at hx'; cases hx'; rw [hx] at hxp; cases hxp
    · exact ih _ k _ hy (by simpa using hp)

/-- The end of a future that is not pending does nothing. -/
theorem ended_noop (s : TLoop) (k : Nat) (x : Sub) (hk : s.subs[k]? = some x) (hx : x.stage.pending = false) :
    tstep s (.negFail k) = s ∧ (∀ p, tstep s (.negOk k p) = s) ∧ (∀ p f, tstep s (.negOkFb k p f) = s) ∧
    tstep s (.yamuxOpened k) = s := by
  have hn : x.stage ≠ .negotiating := by intro e; rw [e] at hx; cases hx
  have ho : x.stage ≠ .opening := by intro e; rw [e] at hx; cases hx
  refine ⟨?_, fun p => ?_, fun p f => ?_, ?_⟩
  · simp only [tstep, tNegFail]; split
    · rfl
    · rw [hk]; simp [hx]
  · simp only [tstep, tNegOk]; split
    · rfl
    · rw [hk]; simp [hn]
  · simp only [tstep, tNegOk]; split
    · rfl
    · rw [hk]; simp [hn]
  · simp only [tstep, tYamuxOpened]; split
    · rfl
    · rw [hk]; simp [ho]

/-! ### names -/

theorem lookup_of_mem_unique {α β : Type} [BEq α] [LawfulBEq α] (l : List (α × β)) (a : α) (v : β)
    (hu : ∀ v', (a, v') ∈ l → v' = v) (hex : ∃ v', (a, v') ∈ l) : l.lookup a = some v := by
  induction l with
  | nil => obtain ⟨_, h⟩ := hex; cases h
  | cons e t ih =>
    obtain ⟨k', v'⟩ := e
    by_cases hk : a = k'
    · subst hk
      have : v' = v := hu v' (List.mem_cons_self ..)
      simp [List.lookup, this]
    · have hne : (a == k') = false := by simpa using hk
      simp only [List.lookup, hne]
      apply ih (fun v'' h => hu v'' (List.mem_cons_of_mem _ h))
      obtain ⟨v'', h⟩ := hex
      rcases List.mem_cons.mp h with h | h
      · cases h; exact absurd rfl hk
      · exact ⟨v'', h⟩

theorem mem_fallbackNames (fbs : List Nat) (n : Name) (m : Nat) :
    (n, m) ∈ fallbackNames fbs ↔ m < fbs.length ∧ n.1 = m ∧ 1 ≤ n.2 ∧ n.2 ≤ fbs.getD m 0 := by
  obtain ⟨p, f⟩ := n
  simp only [fallbackNames, List.mem_flatMap, List.mem_range, List.mem_map, Prod.mk.injEq]
  constructor
  · rintro ⟨q, hq, g, hg, ⟨rfl, rfl⟩, rfl⟩
    exact ⟨hq, rfl, by omega, by omega⟩
  · rintro ⟨hm, rfl, h1, h2⟩
    exact ⟨p, hm, f - 1, by omega, ⟨rfl, by omega⟩, rfl⟩

/-- **Every name of a protocol carries that protocol's keep-alive setting** in the map built by `ProtocolSet::new`. -/
theorem nameKa_eq (ka : List Bool) (fbs : List Nat) (hlen : fbs.length = ka.length) (p f : Nat) (hp : p < ka.length)
    (hf : f ≤ fbs.getD p 0) : nameKa ka fbs (p, f) = some ka[p]? := by
  unfold nameKa
  apply lookup_of_mem_unique
  · intro v' hv
    simp only [keepAlives, List.mem_append, List.mem_map, List.mem_range, Prod.mk.injEq] at hv
    rcases hv with ⟨q, _, ⟨hq, _⟩, rfl⟩ | ⟨⟨n, m⟩, hm, hn, rfl⟩
    · cases hq; rfl
    · simp only [] at hn
      subst hn
      obtain ⟨_, hpm, _, _⟩ := (mem_fallbackNames fbs (p, f) m).mp hm
      simp only [] at hpm
      rw [hpm]
  · by_cases h0 : f = 0
    · subst h0
      exact ⟨ka[p]?, by
        simp only [keepAlives, List.mem_append, List.mem_map, List.mem_range]
        exact Or.inl ⟨p, hp, rfl⟩⟩
    · refine ⟨ka[p]?, ?_⟩
      simp only [keepAlives, List.mem_append, List.mem_map]
      refine Or.inr ⟨((p, f), p), (mem_fallbackNames fbs (p, f) p).mpr ⟨by omega, rfl, by omega, hf⟩, rfl⟩

/-- `report_substream_open`: a fallback name is reported to its main protocol, with the name in the `fallback`
field; a main name to itself, without. -/
theorem reportTo_eq (fbs : List Nat) (p f : Nat) (hp : p < fbs.length) (hf : f ≤ fbs.getD p 0) :
    reportTo fbs (p, f) = (p, if f = 0 then none else some (p, f)) := by
  unfold reportTo
  by_cases h0 : f = 0
  · subst h0
    have : (fallbackNames fbs).lookup (p, 0) = none := by
      rw [List.lookup_eq_none_iff]
      intro ⟨n, m⟩ hm
      have := (mem_fallbackNames fbs n m).mp hm
      simp only [bne_iff_ne, ne_eq]
      intro e
      rw [← e] at this
      simp at this
    simp [this]
  · have : (fallbackNames fbs).lookup (p, f) = some p := by
      apply lookup_of_mem_unique
      · intro m hm
        exact ((mem_fallbackNames fbs (p, f) m).mp hm).2.1.symm
      · exact ⟨p, (mem_fallbackNames fbs (p, f) p).mpr ⟨hp, rfl, by omega, hf⟩⟩
    simp [this, h0]

end Litep2pVerif.Conn
