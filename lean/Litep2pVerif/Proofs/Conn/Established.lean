import Litep2pVerif.Proofs.Conn.Permits
/-! C07: `report_connection_established` in full generality (suspended sends included), and the loop staying
usable for the live protocols (permit-aware model). -/
namespace Litep2pVerif.Conn

/-- Who has been told "established": every live protocol whose send is not still suspended. -/
def EstInv (ps : PSet) : Prop :=
  match ps.call with
  | .protoSends .established w _ => ∀ j, aliveAt ps j → j ∉ w → Ev.proto j .established ∈ ps.log
  | .result .established _ => ∀ j, aliveAt ps j → Ev.proto j .established ∈ ps.log
  | _ => True

theorem EstInv.weaken {ps ps' : PSet} (h : EstInv ps) (hlog : ps'.log = ps.log) (hcall : ps'.call = ps.call)
    (hal : ∀ j, aliveAt ps' j → aliveAt ps j) : EstInv ps' := by
  unfold EstInv at *
  rw [hcall, hlog]
  cases hc : ps.call with
  | idle => trivial
  | mgrSend e => trivial
  | result k ok =>
    rw [hc] at h
    cases k with
    | established => exact fun j hj => h j (hal j hj)
    | closed => trivial
    | substream i o => trivial
  | protoSends k w e =>
    rw [hc] at h
    cases k with
    | established => exact fun j hj hn => h j (hal j hj) hn
    | closed => trivial
    | substream i o => trivial

theorem progressMgr_call (ps : PSet) (e : Bool) :
    (∃ e', (progressMgr ps e).call = .mgrSend e') ∨ (∃ ok, (progressMgr ps e).call = .result .closed ok) :=
  progressMgr_follows ps e

theorem progress_est (ps : PSet) (h : EstInv ps) (hnd : ∀ k w e, ps.call = .protoSends k w e → w.Nodup) :
    EstInv (progress ps) := by
  cases hcall : ps.call with
  | idle => simpa [progress, hcall] using h
  | result k ok => simpa [progress, hcall] using h
  | mgrSend e =>
    simp only [progress, hcall]
    rcases progressMgr_call ps e with ⟨e', h'⟩ | ⟨ok, h'⟩ <;> simp [EstInv, h']
  | protoSends k w e =>
    obtain ⟨sent, full, f1, f2, f3, f4, f5, f6, f7, f8, f9, _⟩ := pollSends_spec k.msg w (hnd k w e hcall) ps [] e
    rcases hr : pollSends k.msg w ps [] e with ⟨ps', w', e'⟩
    rw [hr] at f1 f2 f3 f4
    dsimp only at f1 f2 f3 f4
    simp only [List.nil_append] at f4
    subst f4
    cases k with
    | closed =>
      simp only [progress, hcall, hr]
      cases w' with
      | nil =>
        simp only []
        rcases progressMgr_call ps' e' with ⟨e2, h'⟩ | ⟨ok, h'⟩ <;> simp [EstInv, h']
      | cons a t => simp [EstInv]
    | substream i o =>
      simp only [progress, hcall, hr]
      cases w' with
      | nil => simp [EstInv]
      | cons a t => simp [EstInv]
    | established =>
      have hold : ∀ j, aliveAt ps j → j ∉ w → Ev.proto j .established ∈ ps.log := by
        unfold EstInv at h; rw [hcall] at h; exact h
      have htold : ∀ j, aliveAt ps' j → j ∉ w' → Ev.proto j .established ∈ ps'.log := by
        intro j hj hn
        have hj0 := (f1.alive j).mp hj
        rw [f3]
        by_cases hjw : j ∈ w
        · rcases f9 j hjw hj0 with hs | hf
          · exact List.mem_append_right _ (List.mem_map.mpr ⟨j, hs, rfl⟩)
          · exact absurd hf hn
        · exact List.mem_append_left _ (hold j hj0 hjw)
      simp only [progress, hcall, hr]
      cases w' with
      | nil =>
        simp only [EstInv]
        exact fun j hj => htold j hj (by simp)
      | cons a t =>
        simp only [EstInv]
        exact htold

theorem Inv.nodup {ps : PSet} (h : Inv ps) : ∀ k w e, ps.call = .protoSends k w e → w.Nodup := by
  intro k w e hc
  have := h.call
  unfold CallInv at this
  rw [hc] at this
  exact this.1

theorem envStep_est (ps : PSet) (o : EnvOp) (hi : Inv ps) (h : EstInv ps) : EstInv (envStep ps o) := by
  have hnd := hi.nodup
  cases o with
  | recv i =>
    simp only [envStep]
    cases hc : ps.chans[i]? with
    | none => exact h
    | some c =>
      apply progress_est
      · exact h.weaken rfl rfl (aliveAt_set hc (fun h => h))
      · exact hnd
  | drop i =>
    simp only [envStep]
    cases hc : ps.chans[i]? with
    | none => exact h
    | some c =>
      apply progress_est
      · exact h.weaken rfl rfl (aliveAt_set hc (fun h => by simp [Chan.dropRx] at h))
      · exact hnd
  | fill i =>
    simp only [envStep]
    split
    · exact h
    · cases hc : ps.chans[i]? with
      | none => exact h
      | some c =>
        exact h.weaken rfl rfl (aliveAt_set hc (fun h => by unfold Chan.fillUp at h; split at h <;> simp_all))
  | recvMgr =>
    simp only [envStep]
    exact progress_est _ (h.weaken rfl rfl (fun _ h => h)) hnd
  | dropMgr =>
    simp only [envStep]
    exact progress_est _ (h.weaken rfl rfl (fun _ h => h)) hnd
  | fillMgr =>
    simp only [envStep]
    split
    · exact h
    · exact h.weaken rfl rfl (fun _ h => h)

theorem envRun_est (os : List EnvOp) : ∀ ps, Inv ps → WF ps → EstInv ps → EstInv (os.foldl envStep ps) := by
  induction os with
  | nil => intro ps _ _ h; exact h
  | cons o os ih =>
    intro ps hi hwf h
    have hr := envStep_rel ps o hi hwf
    exact ih _ hr.inv hr.wf (envStep_est ps o hi h)

theorem startCall_est (ps : PSet) (hwf : WF ps) : EstInv (startCall ps .established) := by
  simp only [startCall]
  apply progress_est
  · simp only [EstInv]
    intro j ⟨c, hc, _⟩ hn
    exact absurd ((hwf.2 j).mpr (List.getElem?_eq_some_iff.mp hc).1) hn
  · intro k w e hc
    simp only [Call.protoSends.injEq] at hc
    rw [← hc.2.1]; exact hwf.1

/-! ### the loop stays usable for the live protocols -/

theorem negCount_pos (subs : List Sub) (k : Nat) (x : Sub) (hk : subs[k]? = some x) (hx : x.stage.pending = true) :
    0 < negCount subs := by
  unfold negCount
  apply List.length_pos_of_mem (a := x)
  exact List.mem_filter.mpr ⟨List.mem_of_getElem? hk, by simp [hx]⟩

theorem startCall_substream_live (ps : PSet) (p : Nat) (c : Chan) (hc : ps.chans[p]? = some c) (ha : c.alive = true) :
    (c.queue.length < c.cap → startCall ps (.substream p true) =
      { ps with chans := ps.chans.set p { c with queue := c.queue ++ [.substreamOpened] },
                log := ps.log ++ [.proto p .substreamOpened], call := .result (.substream p true) true }) ∧
    (¬ c.queue.length < c.cap → startCall ps (.substream p true) =
      { ps with call := .protoSends (.substream p true) [p] false }) := by
  have hlt : p < ps.chans.length := (List.getElem?_eq_some_iff.mp hc).1
  constructor
  · intro hroom
    unfold startCall
    simp only []
    rw [if_pos hlt]
    simp only [progress, pollSends, sendTo, hc, trySend, ha, hroom, Kind.msg, Bool.true_eq_false, if_false, if_true,
      Bool.not_false]
  · intro hroom
    unfold startCall
    simp only []
    rw [if_pos hlt]
    simp only [progress, pollSends, sendTo, hc, trySend, ha, hroom, Kind.msg, Bool.true_eq_false, if_false,
      List.nil_append]
/-- Protocol `p`'s channel has a free slot. -/
def hasRoom (s : TLoop) (p : Nat) : Prop := ∃ c, s.loop.ps.chans[p]? = some c ∧ c.queue.length < c.cap

/-- `handle_negotiated_substream` for a LIVE protocol `p`, whatever else has happened to the connection
(other protocols gone, handles dropped …): the loop does not return; if `p`'s channel has room the
`SubstreamOpened` is enqueued at once and the loop is back at its `select!`; otherwise the loop is
suspended in that one send (and nothing else). -/
theorem negOk_live (s : TLoop) (hr : s.running = true) (k p : Nat) (x : Sub)
    (hk : s.subs[k]? = some x) (hx : x.stage = .negotiating) (hp : protoAlive s p = true) :
    (tstep s (.negOk k p)).loop.exited = none ∧
    (hasRoom s p → (tstep s (.negOk k p)).running = true ∧
      (tstep s (.negOk k p)).loop.ps.log = s.loop.ps.log ++ [.proto p .substreamOpened] ∧
      (tstep s (.negOk k p)).loop.ps.call = .idle) ∧
    (¬ hasRoom s p → (tstep s (.negOk k p)).loop.cont = some .substreamReport ∧
      (tstep s (.negOk k p)).loop.ps.call = .protoSends (.substream p true) [p] false ∧
      (tstep s (.negOk k p)).loop.ps.log = s.loop.ps.log) := by
  obtain ⟨h1, h2⟩ := (running_iff s).mp hr
  have hnr : ¬ s.running = false := by simp [hr]
  have h3 : ¬ x.stage ≠ .negotiating := by simp [hx]
  have hpend : negCount s.subs ≠ 0 := by have := negCount_pos s.subs k x hk (by rw [hx]; rfl); omega
  unfold protoAlive at hp
  cases hc : s.loop.ps.chans[p]? with
  | none => rw [hc] at hp; cases hp
  | some c =>
    rw [hc] at hp
    simp only [] at hp
    have hlt : p < s.loop.ps.chans.length := (List.getElem?_eq_some_iff.mp hc).1
    simp only [tstep, tNegOk]
    rw [if_neg hnr, hk]
    simp only []
    rw [if_neg h3]
    by_cases hroom : c.queue.length < c.cap
    · have hL : lstep s (.negotiated (.ok p)) =
          { s.loop with pending := negCount s.subs - 1, cont := none,
                        ps := { s.loop.ps with chans := s.loop.ps.chans.set p { c with queue := c.queue ++ [.substreamOpened] },
                                               log := s.loop.ps.log ++ [.proto p .substreamOpened], call := .idle } } := by
        simp only [lstep, loopStep, h1, h2, hpend, Option.isSome_none, Bool.or_self, Bool.false_eq_true, if_false]
        rw [(startCall_substream_live s.loop.ps p c hc hp).1 hroom]
        simp only [settle, if_true]
      rw [cleanup_loop, hL]
      refine ⟨h1, fun _ => ⟨?_, rfl, rfl⟩, fun hn => absurd ⟨c, hc, hroom⟩ hn⟩
      rw [running_iff, cleanup_loop]
      exact ⟨h1, rfl⟩
    · have hL : lstep s (.negotiated (.ok p)) =
          { s.loop with pending := negCount s.subs - 1, cont := some .substreamReport,
                        ps := { s.loop.ps with call := .protoSends (.substream p true) [p] false } } := by
        simp only [lstep, loopStep, h1, h2, hpend, Option.isSome_none, Bool.or_self, Bool.false_eq_true, if_false]
        rw [(startCall_substream_live s.loop.ps p c hc hp).2 hroom]
        simp only [settle]
      rw [cleanup_loop, hL]
      refine ⟨h1, fun ⟨c', hc', hr'⟩ => ?_, fun _ => ⟨rfl, rfl, rfl⟩⟩
      rw [hc] at hc'; cases hc'; exact absurd hr' hroom

/-- Another protocol shutting down (receiver, handle and substreams dropped) leaves a running loop
running, the live protocol alive, and a negotiation in progress in place. -/
theorem dropRx_keeps_running (s : TLoop) (hinv : PInv s.loop) (hr : s.running = true) (d p : Nat) (hdp : d ≠ p)
    (hp : protoAlive s p = true) :
    (tstep s (.dropRx d)).running = true ∧ protoAlive (tstep s (.dropRx d)) p = true ∧
    PInv (tstep s (.dropRx d)).loop := by
  obtain ⟨h1, h2⟩ := (running_iff s).mp hr
  have hidle : s.loop.ps.call = .idle := by
    have := hinv.2.2
    rw [h2, h1] at this
    exact this.1
  have hL : (tstep s (.dropRx d)).loop = estep s (.drop d) := by simp only [tstep]; rw [cleanup_loop]
  have hE : estep s (.drop d) = { s.loop with ps := envStep s.loop.ps (.drop d) } := by
    simp only [estep, step, settle, h2]
  have hcall : (envStep s.loop.ps (.drop d)).call = .idle := by
    simp only [envStep]
    cases hc : s.loop.ps.chans[d]? with
    | none => exact hidle
    | some c => simp [progress, hidle]
  refine ⟨?_, ?_, ?_⟩
  · rw [running_iff, hL, hE]; exact ⟨h1, h2⟩
  · unfold protoAlive at hp ⊢
    rw [hL, hE]
    simp only [envStep]
    cases hc : s.loop.ps.chans[d]? with
    | none => exact hp
    | some c =>
      simp only [progress, hidle]
      rw [List.getElem?_set_ne hdp]; exact hp
  · rw [hL]; exact estep_pinv s (.drop d) hinv

end Litep2pVerif.Conn
