import Litep2pVerif.Model.Conn.Accept
import Litep2pVerif.Proofs.Conn.Established
/-! C07: the future returned by `TcpTransport::accept` never resolves `Err`, and what it spawns is a loop in a
state satisfying the reporting invariant `PInv`. -/
namespace Litep2pVerif.Conn

theorem settle_cont_none (s : Loop) (h : s.cont = none) : settle s = s := by
  unfold settle
  split <;> simp_all

theorem estep_cont_none (s : TLoop) (o : EnvOp) (hc : s.loop.cont = none) :
    estep s o = { s.loop with ps := envStep s.loop.ps o } := by
  unfold estep step
  exact settle_cont_none _ hc

/-- A protocol-side transition before the loop exists changes the channels by one environment move, or not at all. -/
theorem protoSide_loop (s : TLoop) (l : TLabel) (hl : l.protoSide = true) (hc : s.loop.cont = none) :
    (tstep s l).loop = s.loop ∨ ∃ o, (tstep s l).loop = { s.loop with ps := envStep s.loop.ps o } := by
  have he := fun o => estep_cont_none s o hc
  cases l with
  | accept => cases hl
  | yamuxEof => cases hl
  | yamuxErr => cases hl
  | negOk k p => cases hl
  | negOkFb k p f => cases hl
  | negFail k => cases hl
  | yamuxOpened k => cases hl
  | takeCmd => cases hl
  | idleExit => cases hl
  | recv i =>
    simp only [tstep, tRecv]
    split
    · exact Or.inl rfl
    · split
      · exact Or.inl rfl
      · split
        · exact Or.inl rfl
        · exact Or.inr ⟨_, by rw [cleanup_loop]; exact he _⟩
        · exact Or.inr ⟨_, by rw [cleanup_loop]; exact he _⟩
        · exact Or.inr ⟨_, by rw [cleanup_loop]; exact he _⟩
  | recvMgr => exact Or.inr ⟨_, by simp only [tstep]; rw [cleanup_loop]; exact he _⟩
  | downgrade i => simp only [tstep]; split <;> exact Or.inl rfl
  | upgrade i => simp only [tstep]; split <;> exact Or.inl rfl
  | dropHandle i => simp only [tstep]; split <;> exact Or.inl rfl
  | localOpen i => simp only [tstep]; split <;> exact Or.inl rfl
  | forceClose i => simp only [tstep]; split <;> exact Or.inl rfl
  | dropSub i => simp only [tstep]; split <;> (try split) <;> exact Or.inl rfl
  | halfClose i => simp only [tstep]; split <;> (try split) <;> exact Or.inl rfl
  | fill i => exact Or.inr ⟨_, by simp only [tstep]; rw [cleanup_loop]; exact he _⟩
  | fillMgr => exact Or.inr ⟨_, by simp only [tstep]; rw [cleanup_loop]; exact he _⟩
  | dropRx i => exact Or.inr ⟨_, by simp only [tstep]; rw [cleanup_loop]; exact he _⟩

/-- What holds while the connection waits in the transport or its accept future is suspended. -/
structure PreInv (l : Loop) : Prop where
  inv : Inv l.ps
  wf : WF l.ps
  runs : l.ps.closedRuns = 0
  cont : l.cont = none
  exited : l.exited = none

def AInv (a : AConn) : Prop :=
  match a.phase with
  | .parked => PreInv a.t.loop ∧ a.t.loop.ps.call = .idle
  | .notifying => PreInv a.t.loop ∧ EstInv a.t.loop.ps ∧ ∃ w e, a.t.loop.ps.call = .protoSends .established w e
  | .up => PInv a.t.loop
  | .failed => False

theorem aResolve_inv (a : AConn) (hp : a.phase = .notifying) (h : PreInv a.t.loop) (he : EstInv a.t.loop.ps)
    (hck : CK .established a.t.loop.ps.call) : AInv (aResolve a) := by
  unfold aResolve
  rw [if_neg (by rw [hp]; simp)]
  rcases hck with ⟨w, e, hc⟩ | ⟨hk, _⟩ | ⟨ok, hc, hok⟩
  · rw [hc]
    simp only [AInv, hp]
    exact ⟨h, he, w, e, hc⟩
  · cases hk
  · have := hok rfl
    subst this
    rw [hc]
    simp only [AInv]
    refine ⟨h.inv.setIdle (by rw [hc]; exact quiet_result _ _), h.wf, ?_⟩
    show ContOK a.t.loop.cont a.t.loop.exited _
    rw [h.cont, h.exited]
    exact ⟨rfl, h.runs⟩

theorem preInv_env (l : Loop) (o : EnvOp) (h : PreInv l) : PreInv { l with ps := envStep l.ps o } := by
  have hr := envStep_rel l.ps o h.inv h.wf
  exact ⟨hr.inv, hr.wf, hr.runs.trans h.runs, h.cont, h.exited⟩

theorem astep_inv (a : AConn) (l : ALabel) (h : AInv a) : AInv (astep a l) := by
  cases l with
  | call =>
    simp only [astep]
    by_cases hp : a.phase = .parked
    · rw [if_pos hp]
      simp only [AInv, hp] at h
      obtain ⟨hpre, hidle⟩ := h
      have hq : quiet a.t.loop.ps.call := hidle ▸ quiet_idle
      have h1 := startCall_inv a.t.loop.ps .established hpre.inv hpre.wf hq
      have h2 := startCall_shape a.t.loop.ps .established hpre.inv hpre.wf hq
      apply aResolve_inv _ rfl
      · exact ⟨h1.1, hpre.wf.of_frame0 h1.2, (h2.2.2 (by simp)).trans hpre.runs, hpre.cont, hpre.exited⟩
      · exact startCall_est _ hpre.wf
      · exact h2.1
    · rw [if_neg hp]; exact h
  | t l =>
    simp only [astep]
    by_cases hup : a.phase = .up
    · rw [if_pos hup]
      simp only [AInv, hup] at h ⊢
      exact tstep_pinv a.t l h
    · rw [if_neg hup]
      by_cases hl : l.protoSide = true
      · rw [if_pos hl]
        cases hp : a.phase with
        | up => exact absurd hp hup
        | failed => simp only [AInv, hp] at h
        | parked =>
          simp only [AInv, hp] at h
          obtain ⟨hpre, hidle⟩ := h
          have hres : aResolve ({ phase := .parked, t := tstep a.t l } : AConn) =
              { phase := .parked, t := tstep a.t l } := by
            unfold aResolve; rw [if_pos (by simp)]
          rw [hres]
          simp only [AInv]
          rcases protoSide_loop a.t l hl hpre.cont with e | ⟨o, e⟩
          · rw [e]; exact ⟨hpre, hidle⟩
          · rw [e]
            refine ⟨preInv_env _ o hpre, ?_⟩
            have hr := envStep_rel a.t.loop.ps o hpre.inv hpre.wf
            have hq : quiet a.t.loop.ps.call := hidle ▸ quiet_idle
            exact (hq.follows hr.follows).trans hidle
        | notifying =>
          simp only [AInv, hp] at h
          obtain ⟨hpre, hest, w, e, hc⟩ := h
          have hck : CK .established a.t.loop.ps.call := Or.inl ⟨w, e, hc⟩
          apply aResolve_inv _ rfl
          · rcases protoSide_loop a.t l hl hpre.cont with e | ⟨o, e⟩
            · show PreInv (tstep a.t l).loop; rw [e]; exact hpre
            · show PreInv (tstep a.t l).loop; rw [e]; exact preInv_env _ o hpre
          · rcases protoSide_loop a.t l hl hpre.cont with e | ⟨o, e⟩
            · show EstInv (tstep a.t l).loop.ps; rw [e]; exact hest
            · show EstInv (tstep a.t l).loop.ps; rw [e]; exact envStep_est _ o hpre.inv hest
          · rcases protoSide_loop a.t l hl hpre.cont with e | ⟨o, e⟩
            · show CK .established (tstep a.t l).loop.ps.call; rw [e]; exact hck
            · show CK .established (tstep a.t l).loop.ps.call; rw [e]
              exact hck.follows (envStep_rel a.t.loop.ps o hpre.inv hpre.wf).follows
      · rw [if_neg hl]; exact h

theorem arun_inv (ls : List ALabel) : ∀ a, AInv a → AInv (arun a ls) := by
  induction ls with
  | nil => intro a h; exact h
  | cons l ls ih => intro a h; exact ih _ (astep_inv a l h)

theorem replicate_getElem?_alive (n cap j : Nat) (c : Chan)
    (h : (List.replicate n ({ cap := cap } : Chan))[j]? = some c) : j < n := by
  have := (List.getElem?_eq_some_iff.mp h).1
  simpa using this

theorem ainit_inv (ka : List Bool) (cap mcap : Nat) : AInv (ainit ka cap mcap) := by
  have hf : Fresh (ainit ka cap mcap).t.loop.ps := by
    refine ⟨⟨List.nodup_range, fun i => ?_⟩, rfl, rfl, rfl, fun x hx => ?_⟩
    · simp [ainit]
    · simp [ainit] at hx
  exact ⟨⟨hf.inv, hf.wf, hf.runs, rfl, rfl⟩, hf.idle⟩

end Litep2pVerif.Conn
