import Litep2pVerif.Proofs.Conn.Established
/-! The loop waiting in a send (f-round, seeded C07-f1 / C08-f1): while a report call is suspended on a full channel
nothing but a move of a channel's other end (a protocol or the manager taking a message, shutting down) changes the
`Loop` component — no event of the connection, no command, no timer; and the report of a negotiated substream is the
first thing the loop enqueues after the end of the negotiation. -/
namespace Litep2pVerif.Conn

/-- The transitions that are a move of the OTHER end of a channel (a protocol / the manager takes a message, somebody else
fills the channel, a protocol shuts down). Everything else is an event of the connection (yamux, negotiation results and
their timers, commands, the idle exit) or something a protocol does with its handle or its substreams. -/
def TLabel.isChan : TLabel → Bool
  | .recv _ | .recvMgr | .fill _ | .fillMgr | .dropRx _ => true
  | _ => false

/-- While the loop is suspended in a report call (or has returned) no event of the connection and nothing the
protocols do with their handles moves it: the `Loop` component is unchanged. -/
theorem tstep_suspended (s : TLoop) (l : TLabel) (hs : s.running = false) (hl : l.isChan = false) :
    (tstep s l).loop = s.loop := by
  cases l with
  | recv i => cases hl
  | recvMgr => cases hl
  | fill i => cases hl
  | fillMgr => cases hl
  | dropRx i => cases hl
  | accept => simp [tstep, tAccept, hs]
  | yamuxEof => simp [tstep, hs]
  | yamuxErr => simp [tstep, hs]
  | negOk k p => simp [tstep, tNegOk, hs]
  | negOkFb k p f => simp [tstep, tNegOk, hs]
  | negFail k => simp [tstep, tNegFail, hs]
  | yamuxOpened k => simp [tstep, tYamuxOpened, hs]
  | takeCmd => simp [tstep, tTakeCmd, hs]
  | idleExit => simp [tstep, tIdleExit, TLoop.idleEnabled, hs]
  | downgrade i => simp only [tstep]; split <;> rfl
  | upgrade i => simp only [tstep]; split <;> rfl
  | dropHandle i => simp only [tstep]; split <;> rfl
  | localOpen i => simp only [tstep]; split <;> rfl
  | forceClose i => simp only [tstep]; split <;> rfl
  | dropSub i => simp only [tstep]; split <;> (try split) <;> rfl
  | halfClose i => simp only [tstep]; split <;> (try split) <;> rfl

theorem trun_suspended (ls : List TLabel) : ∀ (s : TLoop), s.running = false → (∀ l ∈ ls, l.isChan = false) →
    (trun s ls).loop = s.loop := by
  induction ls with
  | nil => intro s _ _; rfl
  | cons l ls ih =>
    intro s hs hl
    have h1 := tstep_suspended s l hs (hl l List.mem_cons_self)
    have hs' : (tstep s l).running = false := by
      unfold TLoop.running at hs ⊢; rw [h1]; exact hs
    have := ih (tstep s l) hs' (fun l' hl' => hl l' (List.mem_cons_of_mem _ hl'))
    simp only [trun, List.foldl_cons] at this ⊢
    rw [this, h1]

/-- What `PInv` says about a close report in flight: the loop is suspended in exactly that call, on one of the two
continuations that end `start()`; whoever is alive and not waited for has been told, nobody waited for has, the
manager has not. -/
theorem PInv.waiting {s : Loop} (hp : PInv s) (hx : s.exited = none) (hruns : s.ps.closedRuns = 1) :
    (s.cont = some .closeThenExit ∨ s.cont = some .errorExitReport) ∧ CK .closed s.ps.call ∧
    (∀ w e, s.ps.call = .protoSends .closed w e →
      (∀ j, aliveAt s.ps j → j ∉ w → cnt s.ps j .closed = 1) ∧ (∀ j ∈ w, cnt s.ps j .closed = 0) ∧ mgrCnt s.ps = 0) ∧
    (∀ e, s.ps.call = .mgrSend e → (∀ j, aliveAt s.ps j → cnt s.ps j .closed = 1) ∧ mgrCnt s.ps = 0) := by
  obtain ⟨hi, _, hco⟩ := hp
  rw [hx] at hco
  have hci := hi.call
  have hcont : (s.cont = some .closeThenExit ∨ s.cont = some .errorExitReport) ∧ CK .closed s.ps.call := by
    cases hc : s.cont with
    | none => rw [hc] at hco; simp only [ContOK] at hco; omega
    | some c =>
      rw [hc] at hco
      cases c with
      | closeThenExit => exact ⟨Or.inl rfl, hco.1⟩
      | errorExitReport => exact ⟨Or.inr rfl, hco.1⟩
      | substreamReport => simp only [ContOK] at hco; omega
  refine ⟨hcont.1, hcont.2, ?_, ?_⟩
  · intro w e hc
    unfold CallInv at hci; rw [hc] at hci
    have := hci.2.1 rfl
    exact ⟨this.2.2.1, this.2.1, this.2.2.2⟩
  · intro e hc
    unfold CallInv at hci; rw [hc] at hci
    exact ⟨hci.2.1, hci.2.2⟩

end Litep2pVerif.Conn
