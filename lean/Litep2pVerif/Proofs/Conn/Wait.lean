import Litep2pVerif.Proofs.Conn.Established
/-! The loop waiting in a send (f-round, seeded C07-f1 / C08-f1): while a report call is suspended on a full channel
nothing but a move of a channel's other end (a protocol or the manager taking a message, shutting down) changes the
`Loop` component — no event of the connection, no command, no timer; and the report of a negotiated substream is the
first thing the loop enqueues after the end of the negotiation. -/
namespace Litep2pVerif.Conn

/-- The transitions that are a move of the OTHER end of a channel (a protocol / the manager takes a message, somebody else
fills the channel, a protocol shuts down). Everything else is an event of the connection (yamux, negotiation results and
their timers, commands, the idle exit) or something a protocol does with its handle or its substreams. -/
def TLabel.isChan : TLabel → Bool
  | .recv _ | .recvMgr | .fill _ | .fillMgr | .dropRx _ => true
  | _ => false

/-- While the loop is suspended in a report call (or has returned) no event of the connection and nothing the
protocols do with their handles moves it: the `Loop` component is unchanged. -/
theorem tstep_suspended (s : TLoop) (l : TLabel) (hs : s.running = false) (hl : l.isChan = false) :
    (tstep s l).loop = s.loop := by
  cases l with
  | recv i => cases hl
  | recvMgr => cases hl
  | fill i => cases hl
  | fillMgr => cases hl
  | dropRx i => cases hl
  | accept => simp [tstep, tAccept, hs]
  | yamuxEof => simp [tstep, hs]
  | yamuxErr => simp [tstep, hs]
  | negOk k p => simp [tstep, tNegOk, hs]
  | negOkFb k p f => simp [tstep, tNegOk, hs]
  | negFail k => simp [tstep, tNegFail, hs]
  | yamuxOpened k => simp [tstep, tYamuxOpened, hs]
  | takeCmd => simp [tstep, tTakeCmd, hs]
  | idleExit => simp [tstep, tIdleExit, TLoop.idleEnabled, hs]
  | downgrade i => simp only [tstep]; split <;> rfl
  | upgrade i => simp only [tstep]; split <;> rfl
  | dropHandle i => simp only [tstep]; split <;> rfl
  | localOpen i => simp only [tstep]; split <;> rfl
  | forceClose i => simp only [tstep]; split <;> rfl
  | dropSub i => simp only [tstep]; split <;> (try split) <;> rfl
  | halfClose i => simp only [tstep]; split <;> (try split) <;> rfl

theorem trun_suspended (ls : List TLabel) : ∀ (s : TLoop), s.running = false → (∀ l ∈ ls, l.isChan = false) →
    (trun s ls).loop = s.loop := by
  induction ls with
  | nil => intro s _ _; rfl
  | cons l ls ih =>
    intro s hs hl
    have h1 := tstep_suspended s l hs (hl l List.mem_cons_self)
    have hs' : (tstep s l).running = false := by
      unfold TLoop.running at hs ⊢; rw [h1]; exact hs
    have := ih (tstep s l) hs' (fun l' hl' => hl l' (List.mem_cons_of_mem _ hl'))
    simp only [trun, List.foldl_cons] at this ⊢
    rw [this, h1]

/-- What `PInv` says about a close report in flight: the loop is suspended in exactly that call, on one of the two
continuations that end `start()`; whoever is alive and not waited for has been told, nobody waited for has, the
manager has not. -/
theorem PInv.waiting {s : Loop} (hp : PInv s) (hx : s.exited = none) (hruns : s.ps.closedRuns = 1) :
    (s.cont = some .closeThenExit ∨ s.cont = some .errorExitReport) ∧ CK .closed s.ps.call ∧
    (∀ w e, s.ps.call = .protoSends .closed w e →
      (∀ j, aliveAt s.ps j → j ∉ w → cnt s.ps j .closed = 1) ∧ (∀ j ∈ w, cnt s.ps j .closed = 0) ∧ mgrCnt s.ps = 0) ∧
    (∀ e, s.ps.call = .mgrSend e → (∀ j, aliveAt s.ps j → cnt s.ps j .closed = 1) ∧ mgrCnt s.ps = 0) := by
  obtain ⟨hi, _, hco⟩ := hp
  rw [hx] at hco
  have hci := hi.call
  have hcont : (s.cont = some .closeThenExit ∨ s.cont = some .errorExitReport) ∧ CK .closed s.ps.call := by
    cases hc : s.cont with
    | none => rw [hc] at hco; simp only [ContOK] at hco; omega
    | some c =>
      rw [hc] at hco
      cases c with
      | closeThenExit => exact ⟨Or.inl rfl, hco.1⟩
      | errorExitReport => exact ⟨Or.inr rfl, hco.1⟩
      | substreamReport => simp only [ContOK] at hco; omega
  refine ⟨hcont.1, hcont.2, ?_, ?_⟩
  · intro w e hc
    unfold CallInv at hci; rw [hc] at hci
    have := hci.2.1 rfl
    exact ⟨this.2.2.1, this.2.1, this.2.2.2⟩
  · intro e hc
    unfold CallInv at hci; rw [hc] at hci
    exact ⟨hci.2.1, hci.2.2⟩

/-! ### waiting in `report_substream_open` (C08-f1) -/

/-- The `Loop` is suspended in the report of a negotiated substream to the live protocol `p` (`report_substream_open`'s
`tx.send(event).await` on a full channel); `L` = the ghost log at the end of the negotiation: nothing has been enqueued
since. -/
def LWait (p : Nat) (L : List Ev) (l : Loop) : Prop :=
  l.cont = some .substreamReport ∧ l.exited = none ∧
  l.ps.call = .protoSends (.substream p true) [p] false ∧ l.ps.log = L ∧
  ∃ c, l.ps.chans[p]? = some c ∧ c.alive = true

/-- The report has been enqueued — the FIRST thing since the end of the negotiation — and the loop is back at its
`select!`. -/
def LDone (p : Nat) (L : List Ev) (l : Loop) : Prop :=
  l.cont = none ∧ l.exited = none ∧ l.ps.log = L ++ [.proto p .substreamOpened]

theorem progress_wait (ps : PSet) (p : Nat) (hcall : ps.call = .protoSends (.substream p true) [p] false)
    (c : Chan) (hc : ps.chans[p]? = some c) (ha : c.alive = true) :
    progress ps = ps ∨
    ((progress ps).log = ps.log ++ [.proto p .substreamOpened] ∧ (progress ps).call = .result (.substream p true) true) := by
  unfold progress
  rw [hcall]
  by_cases hr : c.queue.length < c.cap
  · right
    simp [pollSends, sendTo, hc, trySend, ha, hr, Kind.msg]
  · left
    simp only [pollSends, sendTo, hc, trySend, ha, hr, Kind.msg]
    simp
    rw [← hcall]

/-- `settle` after the environment moved, from a waiting state whose `PSet` became `ps'`. -/
theorem settle_wait (l : Loop) (p : Nat) (L : List Ev) (ps' : PSet) (hcont : l.cont = some .substreamReport)
    (hex : l.exited = none)
    (h : (ps'.call = .protoSends (.substream p true) [p] false ∧ ps'.log = L ∧ ∃ c, ps'.chans[p]? = some c ∧ c.alive = true) ∨
      (ps'.log = L ++ [.proto p .substreamOpened] ∧ ps'.call = .result (.substream p true) true)) :
    LWait p L (settle { l with ps := ps' }) ∨ LDone p L (settle { l with ps := ps' }) := by
  rcases h with ⟨h1, h2, h3⟩ | ⟨h1, h2⟩
  · left
    have : settle { l with ps := ps' } = { l with ps := ps' } := by
      simp [settle, hcont, h1]
    rw [this]; exact ⟨hcont, hex, h1, h2, h3⟩
  · right
    have : settle { l with ps := ps' } = { l with cont := none, ps := { ps' with call := .idle } } := by
      simp [settle, hcont, h2]
    rw [this]; exact ⟨rfl, hex, h1⟩

theorem getElem?_set_alive (chans : List Chan) (p i : Nat) (c c' d : Chan) (hc : chans[p]? = some c) (ha : c.alive = true)
    (hi : chans[i]? = some d) (hd : i = p → c'.alive = true) :
    ∃ c'', (chans.set i c')[p]? = some c'' ∧ c''.alive = true := by
  by_cases h : i = p
  · subst h
    have hlt : i < chans.length := (List.getElem?_eq_some_iff.mp hi).1
    exact ⟨c', by simp [hlt], hd rfl⟩
  · exact ⟨c, by simp [h, hc], ha⟩

/-- One move of the environment from the waiting state: still waiting (nothing enqueued), or the report is enqueued and
the loop goes on — unless the protocol itself shuts down. -/
theorem env_wait (l : Loop) (p : Nat) (L : List Ev) (h : LWait p L l) (o : EnvOp) (ho : o ≠ .drop p) :
    LWait p L (step l (.env o)) ∨ LDone p L (step l (.env o)) := by
  obtain ⟨hcont, hex, hcall, hlog, c, hc, ha⟩ := h
  simp only [step]
  apply settle_wait l p L _ hcont hex
  have key : ∀ ps1 : PSet, ps1.call = l.ps.call → ps1.log = l.ps.log → (∃ c1, ps1.chans[p]? = some c1 ∧ c1.alive = true) →
      ((progress ps1).call = .protoSends (.substream p true) [p] false ∧ (progress ps1).log = L ∧
        ∃ c, (progress ps1).chans[p]? = some c ∧ c.alive = true) ∨
      ((progress ps1).log = L ++ [.proto p .substreamOpened] ∧ (progress ps1).call = .result (.substream p true) true) := by
    intro ps1 h1 h2 ⟨c1, h3, h4⟩
    rcases progress_wait ps1 p (h1.trans hcall) c1 h3 h4 with e | ⟨e1, e2⟩
    · left; rw [e]; exact ⟨h1.trans hcall, h2.trans hlog, c1, h3, h4⟩
    · right; exact ⟨by rw [e1, h2, hlog], e2⟩
  have stay : (l.ps.call = .protoSends (.substream p true) [p] false ∧ l.ps.log = L ∧
      ∃ c, l.ps.chans[p]? = some c ∧ c.alive = true) := ⟨hcall, hlog, c, hc, ha⟩
  cases o with
  | recv i =>
    simp only [envStep]
    cases hi : l.ps.chans[i]? with
    | none => exact Or.inl stay
    | some d =>
      exact key _ rfl rfl (getElem?_set_alive _ p i c d.pop d hc ha hi (fun e => by
        subst e; rw [hc] at hi; cases hi; exact ha))
  | drop i =>
    simp only [envStep]
    cases hi : l.ps.chans[i]? with
    | none => exact Or.inl stay
    | some d =>
      have hne : i ≠ p := fun e => ho (by rw [e])
      exact key _ rfl rfl (getElem?_set_alive _ p i c d.dropRx d hc ha hi (fun e => absurd e hne))
  | fill i =>
    simp only [envStep]
    split
    · exact Or.inl stay
    · cases hi : l.ps.chans[i]? with
      | none => exact Or.inl stay
      | some d =>
        left
        refine ⟨hcall, hlog, getElem?_set_alive _ p i c d.fillUp d hc ha hi (fun e => ?_)⟩
        subst e; rw [hc] at hi; cases hi
        unfold Chan.fillUp; split <;> simp [ha]
  | recvMgr => simp only [envStep]; exact key _ rfl rfl ⟨c, hc, ha⟩
  | dropMgr => simp only [envStep]; exact key _ rfl rfl ⟨c, hc, ha⟩
  | fillMgr =>
    simp only [envStep]
    split
    · exact Or.inl stay
    · exact Or.inl ⟨hcall, hlog, c, hc, ha⟩


/-- The `Loop` part of a channel move. -/
theorem tstep_chan_loop (t : TLoop) (l : TLabel) (hl : l.isChan = true) :
    (tstep t l).loop = t.loop ∨ ∃ o, (tstep t l).loop = estep t o ∧ ∀ p, o = .drop p → l = .dropRx p := by
  cases l with
  | recv i =>
    simp only [tstep, tRecv]
    split
    · exact Or.inl rfl
    · split
      · exact Or.inl rfl
      · split
        · exact Or.inl rfl
        · exact Or.inr ⟨.recv i, by rw [cleanup_loop], fun p h => by cases h⟩
        · exact Or.inr ⟨.recv i, by rw [cleanup_loop], fun p h => by cases h⟩
        · exact Or.inr ⟨.recv i, by rw [cleanup_loop], fun p h => by cases h⟩
  | recvMgr => exact Or.inr ⟨.recvMgr, by simp only [tstep]; rw [cleanup_loop], fun p h => by cases h⟩
  | fill i => exact Or.inr ⟨.fill i, by simp only [tstep]; rw [cleanup_loop], fun p h => by cases h⟩
  | fillMgr => exact Or.inr ⟨.fillMgr, by simp only [tstep]; rw [cleanup_loop], fun p h => by cases h⟩
  | dropRx i => exact Or.inr ⟨.drop i, by simp only [tstep]; rw [cleanup_loop], fun p h => by cases h; rfl⟩
  | _ => cases hl

/-- One transition — ANY transition but the shutdown of `p` itself — from the waiting state. -/
theorem tstep_wait (t : TLoop) (p : Nat) (L : List Ev) (h : LWait p L t.loop) (l : TLabel) (hl : l ≠ .dropRx p) :
    LWait p L (tstep t l).loop ∨ LDone p L (tstep t l).loop := by
  cases hc : l.isChan with
  | false =>
    have hs : t.running = false := by unfold TLoop.running; rw [h.1]; simp
    rw [tstep_suspended t l hs hc]; exact Or.inl h
  | true =>
    rcases tstep_chan_loop t l hc with e | ⟨o, e, ho⟩
    · rw [e]; exact Or.inl h
    · rw [e]; exact env_wait t.loop p L h o (fun hd => hl (ho p hd))

/-- Every schedule from the waiting state: still waiting with nothing enqueued since the end of the negotiation, or there is
a FIRST transition that changed anything about the loop, and it enqueued the report (the loop is back at its `select!`) or
was the shutdown of `p` itself. -/
theorem trun_wait (ls : List TLabel) : ∀ (t : TLoop) (p : Nat) (L : List Ev), LWait p L t.loop →
    LWait p L (trun t ls).loop ∨
    ∃ pre l post, ls = pre ++ l :: post ∧ LWait p L (trun t pre).loop ∧
      (LDone p L (trun t (pre ++ [l])).loop ∨ l = .dropRx p) := by
  induction ls with
  | nil => intro t p L h; exact Or.inl h
  | cons l ls ih =>
    intro t p L h
    by_cases hl : l = .dropRx p
    · exact Or.inr ⟨[], l, ls, rfl, h, Or.inr hl⟩
    · rcases tstep_wait t p L h l hl with hw | hd
      · rcases ih (tstep t l) p L hw with h1 | ⟨pre, l', post, e, h1, h2⟩
        · exact Or.inl h1
        · exact Or.inr ⟨l :: pre, l', post, by rw [e]; rfl, h1, h2⟩
      · exact Or.inr ⟨[], l, ls, rfl, h, Or.inl hd⟩


/-- The end of a negotiation for the live protocol `p` whose channel is full: the loop is waiting in the send of the report. -/
theorem negOk_waits (s : TLoop) (hr : s.running = true) (k p : Nat) (x : Sub)
    (hk : s.subs[k]? = some x) (hx : x.stage = .negotiating) (hp : protoAlive s p = true) (hn : ¬ hasRoom s p) :
    LWait p s.loop.ps.log (tstep s (.negOk k p)).loop := by
  obtain ⟨h1, h2⟩ := (running_iff s).mp hr
  have hnr : ¬ s.running = false := by simp [hr]
  have h3 : ¬ x.stage ≠ .negotiating := by simp [hx]
  have hpend : negCount s.subs ≠ 0 := by have := negCount_pos s.subs k x hk (by rw [hx]; rfl); omega
  unfold protoAlive at hp
  cases hc : s.loop.ps.chans[p]? with
  | none => rw [hc] at hp; cases hp
  | some c =>
    rw [hc] at hp
    simp only [] at hp
    have hroom : ¬ c.queue.length < c.cap := fun h => hn ⟨c, hc, h⟩
    simp only [tstep, tNegOk]
    rw [if_neg hnr, hk]
    simp only []
    rw [if_neg h3]
    have hL : lstep s (.negotiated (.ok p)) =
        { s.loop with pending := negCount s.subs - 1, cont := some .substreamReport,
                      ps := { s.loop.ps with call := .protoSends (.substream p true) [p] false } } := by
      simp only [lstep, loopStep, h1, h2, hpend, Option.isSome_none, Bool.or_self, Bool.false_eq_true, if_false]
      rw [(startCall_substream_live s.loop.ps p c hc hp).2 hroom]
      simp only [settle]
    rw [cleanup_loop, hL]
    exact ⟨rfl, h1, rfl, rfl, c, hc, hp⟩

theorem negOk_done (s : TLoop) (hr : s.running = true) (k p : Nat) (x : Sub)
    (hk : s.subs[k]? = some x) (hx : x.stage = .negotiating) (hp : protoAlive s p = true) (hroom : hasRoom s p) :
    LDone p s.loop.ps.log (tstep s (.negOk k p)).loop := by
  obtain ⟨_, h2, _⟩ := negOk_live s hr k p x hk hx hp
  obtain ⟨a, b, _⟩ := h2 hroom
  exact ⟨((running_iff _).mp a).2, ((running_iff _).mp a).1, b⟩

/-- At the `select!` of a running loop nothing has been reported closed. -/
theorem running_none_closed (s : TLoop) (hinv : PInv s.loop) (hr : s.running = true) :
    (∀ j, cnt s.loop.ps j .closed = 0) ∧ mgrCnt s.loop.ps = 0 := by
  obtain ⟨h1, h2⟩ := (running_iff s).mp hr
  obtain ⟨hi, _, hco⟩ := hinv
  rw [h1, h2] at hco
  have hq : quiet s.loop.ps.call := hco.1 ▸ quiet_idle
  exact (hi.call.rest_of_quiet hq).1 hco.2

end Litep2pVerif.Conn
