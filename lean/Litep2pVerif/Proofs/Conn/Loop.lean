import Litep2pVerif.Proofs.Conn.Close
/-! Invariant of the connection event loop (C07). -/
namespace Litep2pVerif.Conn

/-- How the loop's continuation, its exit status and the call in flight fit together. -/
def ContOK : Option Cont → Option Exit → PSet → Prop
  | none, none, ps => ps.call = .idle ∧ ps.closedRuns = 0
  | none, some _, ps => quiet ps.call ∧ ps.closedRuns = 1
  | some .substreamReport, none, ps => (∃ i o, CK (.substream i o) ps.call) ∧ ps.closedRuns = 0
  | some .closeThenExit, none, ps => CK .closed ps.call ∧ ps.closedRuns = 1
  | some .errorExitReport, none, ps => CK .closed ps.call ∧ ps.closedRuns = 1
  | some _, some _, _ => False

def PInv (s : Loop) : Prop := Inv s.ps ∧ WF s.ps ∧ ContOK s.cont s.exited s.ps

theorem quiet_result (k : Kind) (ok : Bool) : quiet (.result k ok) := by
  intro k w e; constructor <;> intro h <;> cases h

theorem quiet_idle : quiet .idle := by
  intro k w e; constructor <;> intro h <;> cases h

theorem errorExit_pinv (s : Loop) (hi : Inv s.ps) (hwf : WF s.ps) (hq : quiet s.ps.call)
    (hex : s.exited = none) : PInv (errorExit s) := by
  have h1 := startCall_inv s.ps .closed hi hwf hq
  have h2 := startCall_shape s.ps .closed hi hwf hq
  have hwf' := hwf.of_frame0 h1.2
  have hruns := h2.2.1 rfl
  unfold errorExit
  cases hc : (startCall s.ps .closed).call with
  | result k ok =>
    simp only [hc]
    exact ⟨h1.1, hwf', by simp only [ContOK]; exact ⟨hc ▸ quiet_result k ok, hruns⟩⟩
  | idle =>
    simp only [hc]
    refine ⟨h1.1, hwf', ?_⟩
    show ContOK (some .errorExitReport) s.exited _
    rw [hex]; exact ⟨h2.1, hruns⟩
  | mgrSend e =>
    simp only [hc]
    refine ⟨h1.1, hwf', ?_⟩
    show ContOK (some .errorExitReport) s.exited _
    rw [hex]; exact ⟨h2.1, hruns⟩
  | protoSends k w e =>
    simp only [hc]
    refine ⟨h1.1, hwf', ?_⟩
    show ContOK (some .errorExitReport) s.exited _
    rw [hex]; exact ⟨h2.1, hruns⟩

theorem Inv.setIdle {ps : PSet} (h : Inv ps) (hq : quiet ps.call) : Inv { ps with call := .idle } :=
  ⟨h.le, h.mle, h.runs, h.rep, h.call.rest_of_quiet hq, h.ord⟩

theorem settle_pinv (s : Loop) (h : PInv s) : PInv (settle s) := by
  obtain ⟨hi, hwf, hc⟩ := h
  unfold settle
  split
  · -- closeThenExit, result
    rename_i k ok hcont hcall
    cases hex : s.exited with
    | some x => rw [hcont, hex] at hc; exact absurd hc (by simp [ContOK])
    | none =>
      rw [hcont, hex] at hc
      simp only [ContOK] at hc
      by_cases hok : ok = true
      · simp only [hok, if_true]
        exact ⟨hi, hwf, by simp only [ContOK]; exact ⟨hcall ▸ quiet_result _ _, hc.2⟩⟩
      · simp only [hok, Bool.false_eq_true, if_false]
        exact errorExit_pinv _ hi hwf (hcall ▸ quiet_result _ _) rfl
  · -- substreamReport, result
    rename_i k ok hcont hcall
    cases hex : s.exited with
    | some x => rw [hcont, hex] at hc; exact absurd hc (by simp [ContOK])
    | none =>
      rw [hcont, hex] at hc
      simp only [ContOK] at hc
      by_cases hok : ok = true
      · simp only [hok, if_true]
        refine ⟨hi.setIdle (hcall ▸ quiet_result _ _), hwf, ?_⟩
        exact ⟨rfl, hc.2⟩
      · simp only [hok, Bool.false_eq_true, if_false]
        exact errorExit_pinv _ hi hwf (hcall ▸ quiet_result _ _) rfl
  · -- errorExitReport, result
    rename_i k ok hcont hcall
    cases hex : s.exited with
    | some x => rw [hcont, hex] at hc; exact absurd hc (by simp [ContOK])
    | none =>
      rw [hcont, hex] at hc
      simp only [ContOK] at hc
      exact ⟨hi, hwf, by simp only [ContOK]; exact ⟨hcall ▸ quiet_result _ _, hc.2⟩⟩
  · exact ⟨hi, hwf, hc⟩

theorem startThenSettle_pinv (s : Loop) (k : Kind) (c : Cont) (hi : Inv s.ps) (hwf : WF s.ps)
    (hidle : s.ps.call = .idle) (hr0 : s.ps.closedRuns = 0) (hex : s.exited = none)
    (hkc : (k = .closed ∧ (c = .closeThenExit ∨ c = .errorExitReport)) ∨
           (∃ i o, k = .substream i o ∧ c = .substreamReport)) :
    PInv (settle { s with ps := startCall s.ps k, cont := some c }) := by
  apply settle_pinv
  have hq : quiet s.ps.call := hidle ▸ quiet_idle
  have h1 := startCall_inv s.ps k hi hwf hq
  have h2 := startCall_shape s.ps k hi hwf hq
  refine ⟨h1.1, hwf.of_frame0 h1.2, ?_⟩
  show ContOK (some c) s.exited (startCall s.ps k)
  rw [hex]
  rcases hkc with ⟨rfl, rfl | rfl⟩ | ⟨i, o, rfl, rfl⟩
  · exact ⟨h2.1, h2.2.1 rfl⟩
  · exact ⟨h2.1, h2.2.1 rfl⟩
  · exact ⟨⟨i, o, h2.1⟩, (h2.2.2 (by simp)).trans hr0⟩

theorem loopStep_pinv (s : Loop) (e : LoopEv) (h : PInv s) : PInv (loopStep s e) := by
  unfold loopStep
  by_cases hg : (s.exited.isSome || s.cont.isSome) = true
  · simp only [hg, if_true]; exact h
  · simp only [hg, Bool.false_eq_true, if_false]
    have hex : s.exited = none := by
      cases hx : s.exited <;> simp [hx] at hg ⊢
    have hco : s.cont = none := by
      cases hx : s.cont <;> simp [hx, hex] at hg ⊢
    obtain ⟨hi, hwf, hc⟩ := h
    rw [hco, hex] at hc
    simp only [ContOK] at hc
    have hkeep : ∀ n, PInv { s with pending := n } := fun n =>
      ⟨hi, hwf, by show ContOK s.cont s.exited s.ps; rw [hco, hex]; exact hc⟩
    have hclose : PInv (closeAndExit s) :=
      startThenSettle_pinv s .closed .closeThenExit hi hwf hc.1 hc.2 hex (Or.inl ⟨rfl, Or.inl rfl⟩)
    cases e with
    | yamuxStream permit =>
      cases permit with
      | true => exact hkeep _
      | false => exact errorExit_pinv s hi hwf (hc.1 ▸ quiet_idle) hex
    | yamuxErr => exact hclose
    | yamuxEof => exact hclose
    | cmdOpen => exact hkeep _
    | cmdForceClose => exact hclose
    | cmdNone => exact hclose
    | negotiated r =>
      simp only
      by_cases hp : s.pending = 0
      · simp only [hp, if_true]; exact ⟨hi, hwf, by rw [hco, hex]; exact hc⟩
      · simp only [hp, if_false]
        cases r with
        | ok p =>
          exact startThenSettle_pinv { s with pending := s.pending - 1 } (.substream p true) .substreamReport
            hi hwf hc.1 hc.2 hex (Or.inr ⟨p, true, rfl, rfl⟩)
        | err info =>
          cases info with
          | none => exact hkeep _
          | some p =>
            exact startThenSettle_pinv { s with pending := s.pending - 1 } (.substream p false) .substreamReport
              hi hwf hc.1 hc.2 hex (Or.inr ⟨p, false, rfl, rfl⟩)

theorem ContOK.env {c : Option Cont} {x : Option Exit} {ps ps' : PSet} (h : ContOK c x ps)
    (hr : EnvRel ps ps') : ContOK c x ps' := by
  cases c with
  | none =>
    cases x with
    | none =>
      simp only [ContOK] at h ⊢
      have := hr.follows; rw [h.1] at this
      exact ⟨this, hr.runs.trans h.2⟩
    | some y =>
      simp only [ContOK] at h ⊢
      have := h.1.follows hr.follows
      exact ⟨this ▸ h.1, hr.runs.trans h.2⟩
  | some c =>
    cases x with
    | some y => cases c <;> exact absurd h (by simp [ContOK])
    | none =>
      cases c with
      | closeThenExit => exact ⟨h.1.follows hr.follows, hr.runs.trans h.2⟩
      | errorExitReport => exact ⟨h.1.follows hr.follows, hr.runs.trans h.2⟩
      | substreamReport =>
        obtain ⟨⟨i, o, hk⟩, h0⟩ := h
        exact ⟨⟨i, o, hk.follows hr.follows⟩, hr.runs.trans h0⟩

theorem step_pinv (s : Loop) (l : Label) (h : PInv s) : PInv (step s l) := by
  cases l with
  | loop e => exact loopStep_pinv s e h
  | env o =>
    simp only [step]
    apply settle_pinv
    have hr := envStep_rel s.ps o h.1 h.2.1
    exact ⟨hr.inv, hr.wf, h.2.2.env hr⟩

theorem run_pinv (ls : List Label) : ∀ s, PInv s → PInv (run s ls) := by
  induction ls with
  | nil => intro s h; exact h
  | cons l ls ih => intro s h; exact ih _ (step_pinv s l h)

/-- A connection that has not been reported closed yet (e.g. right after `accept`). -/
structure Fresh (ps : PSet) : Prop where
  wf : WF ps
  idle : ps.call = .idle
  rep : ps.closedReported = false
  runs : ps.closedRuns = 0
  log : ∀ x ∈ ps.log, x ≠ Ev.mgr ∧ ∀ j, x ≠ Ev.proto j .closed

theorem Fresh.inv {ps : PSet} (h : Fresh ps) : Inv ps := by
  have hc : ∀ j, cnt ps j .closed = 0 := fun j =>
    List.count_eq_zero.mpr (fun hm => (h.log _ hm).2 j rfl)
  have hm : mgrCnt ps = 0 := List.count_eq_zero.mpr (fun hm => (h.log _ hm).1 rfl)
  refine ⟨fun j => by rw [hc j]; omega, by rw [hm]; omega, by rw [h.runs]; omega,
    by rw [h.rep, h.runs]; simp, ?_, ?_⟩
  · unfold CallInv; rw [h.idle]
    exact ⟨fun _ => ⟨hc, hm⟩, fun h1 => by rw [h.runs] at h1; cases h1⟩
  · intro j hmg; exact absurd rfl (h.log _ hmg).1

theorem Fresh.pinv {s : Loop} (h : Fresh s.ps) (hc : s.cont = none) (hx : s.exited = none) : PInv s :=
  ⟨h.inv, h.wf, by rw [hc, hx]; exact ⟨h.idle, h.runs⟩⟩

end Litep2pVerif.Conn
