import Litep2pVerif.Proofs.Service.KeepAlive
/-! Reachability invariants of the keep-alive transition system (`Sys.step`) for C09 `idle_closed_at`. -/
namespace Litep2pVerif.Service.KA
open Litep2pVerif.Service

/-! ### association lists -/

theorem mem_aremove {β : Type} (m : List (Nat × β)) (x : Nat) (e : Nat × β) :
    e ∈ aremove m x ↔ e ∈ m ∧ e.1 ≠ x := by
  simp [aremove, List.mem_filter]

theorem mem_aput {β : Type} (m : List (Nat × β)) (x : Nat) (v : β) (e : Nat × β) :
    e ∈ aput m x v ↔ e = (x, v) ∨ (e ∈ m ∧ e.1 ≠ x) := by
  simp [aput, mem_aremove]

theorem aget_mem {β : Type} (m : List (Nat × β)) (x : Nat) (v : β) (h : aget m x = some v) : (x, v) ∈ m := by
  induction m with
  | nil => simp [aget] at h
  | cons a t ih =>
    obtain ⟨k, w⟩ := a
    by_cases hk : k = x
    · simp only [aget, hk, if_true, Option.some.injEq] at h
      subst h; subst hk; exact List.mem_cons_self
    · simp only [aget, hk, if_false] at h
      exact List.mem_cons_of_mem _ (ih h)

theorem aget_none_key {β : Type} (m : List (Nat × β)) (x : Nat) (h : aget m x = none) : ∀ e ∈ m, e.1 ≠ x := by
  induction m with
  | nil => intro e he; cases he
  | cons a t ih =>
    obtain ⟨k, w⟩ := a
    by_cases hk : k = x
    · simp [aget, hk] at h
    · simp only [aget, hk, if_false] at h
      intro e he
      rcases List.mem_cons.mp he with rfl | he
      · exact hk
      · exact ih h e he

theorem aget_aput {β : Type} (m : List (Nat × β)) (x y : Nat) (v : β) :
    aget (aput m x v) y = if y = x then some v else aget m y := by
  unfold aput
  by_cases h : y = x
  · subst h; simp [aget]
  · have h' : ¬ x = y := fun e => h e.symm
    simp only [aget, h', if_false, aget_aremove, h]

/-! ### the tracker -/

/-- Timer `t` will have completed by `la + T`: started with such a deadline, or — not polled yet — its
duration ends by then if it is started now. -/
def Good (T now la : Nat) (t : Timer) : Prop :=
  match t.deadline with
  | some d => d ≤ la + T
  | none => now + t.timeout ≤ la + T

/-- Tracker invariant: every tracked connection has a sleep future that completes by
`last_activity + T`; no started sleep is overdue. -/
structure TrackerOk (T now : Nat) (tr : Tracker) : Prop where
  tracked : ∀ c la, aget tr.last c = some la → la ≤ now ∧ ∃ t ∈ tr.timers, t.key = c ∧ Good T now la t
  notOverdue : ∀ t ∈ tr.timers, ∀ d, t.deadline = some d → now ≤ d

theorem Good.mono {T now la la' : Nat} {t : Timer} (h : Good T now la t) (hle : la ≤ la') : Good T now la' t := by
  unfold Good at *
  cases hd : t.deadline with
  | none => rw [hd] at h; simp only [] at h ⊢; omega
  | some d => rw [hd] at h; simp only [] at h ⊢; omega

theorem activity_last (tr : Tracker) (c now T c' : Nat) :
    aget (tr.activity c now T).last c' = if c' = c then some now else aget tr.last c' := by
  unfold Tracker.activity
  cases aget tr.last c <;> simp [aget_aput]

theorem activity_timers (tr : Tracker) (c now T : Nat) : ∀ t ∈ tr.timers, t ∈ (tr.activity c now T).timers := by
  intro t ht
  unfold Tracker.activity
  cases aget tr.last c <;> simp [ht]

theorem activity_ok (tr : Tracker) (c now T : Nat) (h : TrackerOk T now tr) :
    TrackerOk T now (tr.activity c now T) := by
  constructor
  · intro c' la hla
    rw [activity_last] at hla
    by_cases hc : c' = c
    · subst hc
      simp only [if_true, Option.some.injEq] at hla
      subst hla
      refine ⟨Nat.le_refl _, ?_⟩
      cases he : aget tr.last c' with
      | none =>
        refine ⟨⟨c', none, T⟩, ?_, rfl, ?_⟩
        · simp [Tracker.activity, he]
        · simp [Good]
      | some la0 =>
        obtain ⟨hle, t, ht, hk, hg⟩ := h.tracked c' la0 he
        exact ⟨t, activity_timers tr c' _ T t ht, hk, hg.mono hle⟩
    · simp only [hc, if_false] at hla
      obtain ⟨hle, t, ht, hk, hg⟩ := h.tracked c' la hla
      exact ⟨hle, t, activity_timers tr c now T t ht, hk, hg⟩
  · intro t ht d hd
    unfold Tracker.activity at ht
    cases he : aget tr.last c with
    | none =>
      simp only [he, List.mem_append, List.mem_singleton] at ht
      rcases ht with ht | rfl
      · exact h.notOverdue t ht d hd
      · cases hd
    | some la0 =>
      simp only [he] at ht
      exact h.notOverdue t ht d hd

theorem closed_ok (tr : Tracker) (c now T : Nat) (h : TrackerOk T now tr) : TrackerOk T now (tr.closed c) := by
  constructor
  · intro c' la hla
    simp only [Tracker.closed, aget_aremove] at hla
    by_cases hc : c' = c
    · simp [hc] at hla
    · simp only [hc, if_false] at hla
      exact h.tracked c' la hla
  · exact h.notOverdue

theorem closed_last (tr : Tracker) (c c' : Nat) :
    aget (tr.closed c).last c' = if c' = c then none else aget tr.last c' := by
  simp [Tracker.closed, aget_aremove]

/-- The clock may advance as far as the environment hypothesis allows. -/
theorem advance_ok (tr : Tracker) (T now dt : Nat) (h : TrackerOk T now tr)
    (hs : ∀ t ∈ tr.timers, ∃ d, t.deadline = some d ∧ now + dt ≤ d) : TrackerOk T (now + dt) tr := by
  constructor
  · intro c la hla
    obtain ⟨hle, t, ht, hk, hg⟩ := h.tracked c la hla
    refine ⟨by omega, t, ht, hk, ?_⟩
    obtain ⟨d, hd, _⟩ := hs t ht
    unfold Good at *
    rw [hd] at hg ⊢
    exact hg
  · intro t ht d hd
    obtain ⟨d', hd', hle⟩ := hs t ht
    rw [hd] at hd'; cases hd'; exact hle

/-! #### one completed sleep -/

/-- `fireOne` reports `c` and forgets it exactly when the sleep is `c`'s and `c` has been idle for `T`. -/
def Expires (T now : Nat) (acc : Tracker × List Nat) (t : Timer) (c : Nat) : Prop :=
  t.key = c ∧ ∃ la, aget acc.1.last c = some la ∧ ¬ now - la < T

theorem fireOne_spec (T now : Nat) (acc : Tracker × List Nat) (t : Timer) (c : Nat) :
    (c ∈ (fireOne T now acc t).2 ↔ c ∈ acc.2 ∨ Expires T now acc t c) ∧
    (Expires T now acc t c → aget (fireOne T now acc t).1.last c = none) ∧
    (¬ Expires T now acc t c → aget (fireOne T now acc t).1.last c = aget acc.1.last c) := by
  unfold Expires
  by_cases hk : t.key = c
  · subst hk
    unfold fireOne
    cases he : aget acc.1.last t.key with
    | none => simp [he]
    | some la =>
      by_cases hlt : now - la < T
      · simp only [hlt, if_true, true_and, Option.some.injEq, exists_eq_left', not_true_eq_false, or_false, he,
          false_imp_iff, not_false_eq_true, forall_const]
      · simp only [hlt]
        simp
        exact ⟨Or.inr (by omega), fun _ => by simp [aget_aremove], fun h => absurd h hlt⟩
  · obtain ⟨e1, e2⟩ := fireOne_last_other T now acc t c hk
    simp [hk, e1, e2]

theorem fireOne_timers (T now : Nat) (acc : Tracker × List Nat) (t : Timer) :
    (∀ x ∈ acc.1.timers, x ∈ (fireOne T now acc t).1.timers) ∧
    (∀ x ∈ (fireOne T now acc t).1.timers, x ∈ acc.1.timers ∨ (x.deadline = none ∧ 0 < x.timeout)) := by
  unfold fireOne
  cases aget acc.1.last t.key with
  | none => exact ⟨fun _ h => h, fun _ h => Or.inl h⟩
  | some la =>
    by_cases hlt : now - la < T
    · simp only [hlt, if_true, List.mem_append, List.mem_singleton]
      refine ⟨fun x hx => Or.inl hx, fun x hx => ?_⟩
      rcases hx with hx | rfl
      · exact Or.inl hx
      · exact Or.inr ⟨rfl, by simp only []; omega⟩
    · simp only [hlt, if_false]
      exact ⟨fun _ h => h, fun _ h => Or.inl h⟩

theorem fold_timers (T now : Nat) (ts : List Timer) : ∀ acc : Tracker × List Nat,
    (∀ x ∈ acc.1.timers, x ∈ (ts.foldl (fireOne T now) acc).1.timers) ∧
    (∀ x ∈ (ts.foldl (fireOne T now) acc).1.timers, x ∈ acc.1.timers ∨ (x.deadline = none ∧ 0 < x.timeout)) := by
  induction ts with
  | nil => intro acc; exact ⟨fun _ h => h, fun _ h => Or.inl h⟩
  | cons t rest ih =>
    intro acc
    simp only [List.foldl]
    obtain ⟨a1, a2⟩ := fireOne_timers T now acc t
    obtain ⟨b1, b2⟩ := ih (fireOne T now acc t)
    refine ⟨fun x hx => b1 x (a1 x hx), fun x hx => ?_⟩
    rcases b2 x hx with h | h
    · exact a2 x h
    · exact Or.inr h

theorem fold_out_mono (T now c : Nat) (ts : List Timer) : ∀ acc : Tracker × List Nat,
    c ∈ acc.2 → c ∈ (ts.foldl (fireOne T now) acc).2 := by
  induction ts with
  | nil => intro acc h; exact h
  | cons t rest ih =>
    intro acc h
    simp only [List.foldl]
    exact ih _ ((fireOne_spec T now acc t c).1.mpr (Or.inl h))

/-- The fold over the completed sleeps, seen from one key. -/
theorem fold_spec (T now c : Nat) (ts : List Timer) : ∀ acc : Tracker × List Nat, c ∉ acc.2 →
    (c ∈ (ts.foldl (fireOne T now) acc).2 →
      (∃ la, aget acc.1.last c = some la ∧ ¬ now - la < T) ∧ aget (ts.foldl (fireOne T now) acc).1.last c = none) ∧
    (c ∉ (ts.foldl (fireOne T now) acc).2 → aget (ts.foldl (fireOne T now) acc).1.last c = aget acc.1.last c) := by
  induction ts with
  | nil => intro acc h; exact ⟨fun h' => absurd h' h, fun _ => rfl⟩
  | cons t rest ih =>
    intro acc hnot
    simp only [List.foldl]
    obtain ⟨s1, s2, s3⟩ := fireOne_spec T now acc t c
    by_cases hex : Expires T now acc t c
    · have hin : c ∈ (fireOne T now acc t).2 := s1.mpr (Or.inr hex)
      have hnone := s2 hex
      obtain ⟨g1, g2⟩ := fold_gone T now c rest _ hnone
      exact ⟨fun _ => ⟨hex.2, g1⟩, fun h => absurd (g2 hin) h⟩
    · have hnot1 : c ∉ (fireOne T now acc t).2 := fun h => by
        rcases s1.mp h with h | h
        · exact hnot h
        · exact hex h
      obtain ⟨i1, i2⟩ := ih _ hnot1
      rw [s3 hex] at i1 i2
      exact ⟨i1, i2⟩

/-- A completed sleep of `c` whose connection stays tracked is re-armed with the remaining time. -/
theorem fold_rearm (T now c la : Nat) (hle : la ≤ now) (ts : List Timer) : ∀ acc : Tracker × List Nat,
    c ∉ acc.2 → aget (ts.foldl (fireOne T now) acc).1.last c = some la →
    c ∉ (ts.foldl (fireOne T now) acc).2 → (∃ t ∈ ts, t.key = c) →
    ∃ x ∈ (ts.foldl (fireOne T now) acc).1.timers, x.key = c ∧ x.deadline = none ∧ now + x.timeout = la + T := by
  induction ts with
  | nil => intro acc _ _ _ h; obtain ⟨t, ht, _⟩ := h; cases ht
  | cons t rest ih =>
    intro acc hnot hfin hnotfin hex
    simp only [List.foldl] at hfin hnotfin ⊢
    obtain ⟨s1, s2, s3⟩ := fireOne_spec T now acc t c
    have hnot1 : c ∉ (fireOne T now acc t).2 := fun h => hnotfin (fold_out_mono T now c rest _ h)
    have hnex : ¬ Expires T now acc t c := fun h => hnot1 (s1.mpr (Or.inr h))
    have hacc : aget acc.1.last c = some la := by
      have := (fold_spec T now c rest _ hnot1).2 hnotfin
      rw [hfin, s3 hnex] at this; exact this.symm
    by_cases hk : t.key = c
    · have hlt : now - la < T := by
        by_cases hlt : now - la < T
        · exact hlt
        · exact absurd ⟨hk, la, hacc, hlt⟩ hnex
      have hmem : (⟨c, none, T - (now - la)⟩ : Timer) ∈ (fireOne T now acc t).1.timers := by
        unfold fireOne
        rw [hk, hacc]
        simp [hlt]
      exact ⟨_, (fold_timers T now rest _).1 _ hmem, rfl, rfl, by simp only []; omega⟩
    · obtain ⟨t', ht', hk'⟩ := hex
      rcases List.mem_cons.mp ht' with rfl | ht'
      · exact absurd hk' hk
      · exact ih _ hnot1 hfin hnotfin ⟨t', ht', hk'⟩

/-! #### a poll round, the whole poll -/

theorem start_good {T now la : Nat} {t : Timer} (h : Good T now la t) :
    ∃ d, (Timer.start now t).deadline = some d ∧ d ≤ la + T ∧ (Timer.start now t).key = t.key := by
  unfold Good at h
  unfold Timer.start
  cases hd : t.deadline with
  | none => rw [hd] at h; exact ⟨_, rfl, h, rfl⟩
  | some d => rw [hd] at h; exact ⟨d, hd, h, rfl⟩

theorem start_deadline (now : Nat) (t : Timer) (hno : ∀ d, t.deadline = some d → now ≤ d) :
    ∃ d, (Timer.start now t).deadline = some d ∧ now ≤ d := by
  unfold Timer.start
  cases hd : t.deadline with
  | none => exact ⟨_, rfl, by omega⟩
  | some d => exact ⟨d, hd, hno d hd⟩

theorem pollRound_spec (T now c : Nat) (tr : Tracker) :
    (c ∈ (pollRound T now tr).2 →
      (∃ la, aget tr.last c = some la ∧ ¬ now - la < T) ∧ aget (pollRound T now tr).1.last c = none) ∧
    (c ∉ (pollRound T now tr).2 → aget (pollRound T now tr).1.last c = aget tr.last c) := by
  unfold pollRound
  exact fold_spec T now c _ _ (by simp)

/-- All sleeps of the tracker after a round: started and not yet complete, or fresh with a positive
duration. -/
theorem pollRound_timers (T now : Nat) (tr : Tracker) (hno : ∀ t ∈ tr.timers, ∀ d, t.deadline = some d → now ≤ d) :
    ∀ x ∈ (pollRound T now tr).1.timers,
      (∃ d, x.deadline = some d ∧ now < d) ∨ (x.deadline = none ∧ 0 < x.timeout) := by
  intro x hx
  unfold pollRound at hx
  rcases (fold_timers T now _ _).2 x hx with h | h
  · simp only [List.mem_filter, List.mem_map] at h
    obtain ⟨⟨t, ht, rfl⟩, hnf⟩ := h
    obtain ⟨d, hd, _⟩ := start_deadline now t (hno t ht)
    refine Or.inl ⟨d, hd, ?_⟩
    simp only [Timer.fired, hd, Bool.not_eq_true', decide_eq_false_iff_not] at hnf
    omega
  · exact Or.inr h

theorem pollRound_ok (T now : Nat) (tr : Tracker) (h : TrackerOk T now tr) : TrackerOk T now (pollRound T now tr).1 := by
  constructor
  · intro c la hla
    have hnotin : c ∉ (pollRound T now tr).2 := fun hin => by
      rw [((pollRound_spec T now c tr).1 hin).2] at hla; cases hla
    have hold : aget tr.last c = some la := by
      rw [← (pollRound_spec T now c tr).2 hnotin]; exact hla
    obtain ⟨hle, t, ht, hk, hg⟩ := h.tracked c la hold
    refine ⟨hle, ?_⟩
    obtain ⟨d, hd, hdle, hkey⟩ := start_good hg
    have hts : Timer.start now t ∈ tr.timers.map (Timer.start now) := List.mem_map.mpr ⟨t, ht, rfl⟩
    by_cases hf : Timer.fired now (Timer.start now t) = true
    · -- completed: re-armed
      unfold pollRound at hla hnotin ⊢
      have := fold_rearm T now c la hle _ _ (by simp) hla hnotin
        ⟨Timer.start now t, List.mem_filter.mpr ⟨hts, hf⟩, hkey.trans hk⟩
      obtain ⟨x, hx, hxk, hxd, hxt⟩ := this
      refine ⟨x, hx, hxk, ?_⟩
      unfold Good; rw [hxd]; simp only []; omega
    · -- still running
      refine ⟨Timer.start now t, ?_, hkey.trans hk, ?_⟩
      · unfold pollRound
        apply (fold_timers T now _ _).1
        simp only [List.mem_filter]
        exact ⟨hts, by simpa using hf⟩
      · unfold Good; rw [hd]; exact hdle
  · intro x hx d hd
    rcases pollRound_timers T now tr h.notOverdue x hx with ⟨d', hd', hlt⟩ | ⟨hn, _⟩
    · rw [hd] at hd'; cases hd'; omega
    · rw [hd] at hn; cases hn

theorem pollTimers_ok (T now : Nat) (tr : Tracker) (h : TrackerOk T now tr) : TrackerOk T now (pollTimers T now tr).1 := by
  unfold pollTimers
  exact pollRound_ok T now _ (pollRound_ok T now tr h)

/-- What a whole poll does to one key: reported (hence downgraded) only if idle for `T`, and then
forgotten; otherwise its `last_activity` is untouched. -/
theorem pollTimers_spec (T now c : Nat) (tr : Tracker) :
    (c ∈ (pollTimers T now tr).2 →
      (∃ la, aget tr.last c = some la ∧ ¬ now - la < T) ∧ aget (pollTimers T now tr).1.last c = none) ∧
    (c ∉ (pollTimers T now tr).2 → aget (pollTimers T now tr).1.last c = aget tr.last c) := by
  unfold pollTimers
  simp only [List.mem_append]
  obtain ⟨a1, a2⟩ := pollRound_spec T now c tr
  obtain ⟨b1, b2⟩ := pollRound_spec T now c (pollRound T now tr).1
  constructor
  · intro hin
    by_cases h1 : c ∈ (pollRound T now tr).2
    · exact ⟨(a1 h1).1, pollRound_gone T now c _ (a1 h1).2⟩
    · have h2 : c ∈ (pollRound T now (pollRound T now tr).1).2 := by
        rcases hin with h | h
        · exact absurd h h1
        · exact h
      have := b1 h2
      rw [a2 h1] at this
      exact this
  · intro hnot
    have h1 : c ∉ (pollRound T now tr).2 := fun h => hnot (Or.inl h)
    have h2 : c ∉ (pollRound T now (pollRound T now tr).1).2 := fun h => hnot (Or.inr h)
    rw [b2 h2, a2 h1]

/-- After a whole poll every sleep is started and incomplete: nothing is left to do at this instant. -/
theorem pollTimers_settled (T now : Nat) (tr : Tracker) (h : TrackerOk T now tr) :
    ∀ x ∈ (pollTimers T now tr).1.timers, ∃ d, x.deadline = some d ∧ now < d := by
  intro x hx
  unfold pollTimers at hx
  simp only [] at hx
  have h1 := pollRound_timers T now tr h.notOverdue
  -- second round: nothing completes (started ones are incomplete, fresh ones have a positive duration)
  have hnofire : (List.map (Timer.start now) (pollRound T now tr).1.timers).filter (Timer.fired now) = [] := by
    rw [List.filter_eq_nil_iff]
    intro t' ht'
    obtain ⟨t, ht, rfl⟩ := List.mem_map.mp ht'
    rcases h1 t ht with ⟨d, hd, hlt⟩ | ⟨hn, hpos⟩
    · simp [Timer.start, Timer.fired, hd]; omega
    · simp [Timer.start, Timer.fired, hn]; omega
  rw [pollRound, hnofire] at hx
  simp only [List.foldl, List.mem_filter, List.mem_map] at hx
  obtain ⟨⟨t, ht, rfl⟩, _⟩ := hx
  rcases h1 t ht with ⟨d, hd, hlt⟩ | ⟨hn, hpos⟩
  · exact ⟨d, by simp [Timer.start, hd], hlt⟩
  · exact ⟨now + t.timeout, by simp [Timer.start, hn], by omega⟩

/-! ### connection contexts: which ids, which handles -/

/-- Connection `c` is in one of the slots. -/
def ctxHas (ctx : KCtx) (c : Nat) : Prop := ctx.primary.id = c ∨ ∃ h, ctx.secondary = some h ∧ h.id = c

def Svc.hasId (s : Svc) (c : Nat) : Prop := ∃ e ∈ s.conns, ctxHas e.2 c

/-- Same connections in the same slots (activity flags may differ). -/
def SameIds (a b : KCtx) : Prop :=
  b.primary.id = a.primary.id ∧ b.secondary.map (·.id) = a.secondary.map (·.id)

theorem SameIds.has {a b : KCtx} (h : SameIds a b) (c : Nat) : ctxHas b c ↔ ctxHas a c := by
  obtain ⟨⟨pa, aa⟩, sa⟩ := a
  obtain ⟨⟨pb, ab⟩, sb⟩ := b
  obtain ⟨h1, h2⟩ := h
  simp only at h1 h2
  subst h1
  cases sa <;> cases sb <;> simp_all [ctxHas]

theorem SameIds.distinct {a b : KCtx} (h : SameIds a b) (hd : Distinct a) : Distinct b := by
  obtain ⟨⟨pa, aa⟩, sa⟩ := a
  obtain ⟨⟨pb, ab⟩, sb⟩ := b
  obtain ⟨h1, h2⟩ := h
  simp only at h1 h2
  subst h1
  cases sa <;> cases sb <;> simp_all [Distinct]

theorem SameIds.rfl' (a : KCtx) : SameIds a a := ⟨rfl, rfl⟩

theorem SameIds.trans {a b c : KCtx} (h1 : SameIds a b) (h2 : SameIds b c) : SameIds a c :=
  ⟨h2.1.trans h1.1, h2.2.trans h1.2⟩

theorem sameIds_downgrade (ctx : KCtx) (c : Nat) : SameIds ctx (ctx.downgrade c) := by
  obtain ⟨⟨pid, pact⟩, sec⟩ := ctx
  unfold KCtx.downgrade SameIds
  by_cases hp : pid = c
  · simp [hp, Handle.close]
  · cases sec with
    | none => simp [hp]
    | some s => by_cases hs : s.id = c <;> simp [hp, hs, Handle.close]

theorem sameIds_tryUpgrade (ctx : KCtx) (c : Nat) (up : Bool) : SameIds ctx (ctx.tryUpgrade c up) := by
  obtain ⟨⟨pid, pact⟩, sec⟩ := ctx
  unfold KCtx.tryUpgrade SameIds
  by_cases hp : pid = c
  · simp only [hp, if_true, Handle.tryUpgrade]
    split <;> simp
  · cases sec with
    | none => simp [hp]
    | some s =>
      by_cases hs : s.id = c
      · simp only [hp, hs, if_true, if_false, Handle.tryUpgrade]
        split <;> simp [hs]
      · simp [hp, hs]

theorem sameIds_primaryUp (ctx : KCtx) (up : Bool) : SameIds ctx { ctx with primary := ctx.primary.tryUpgrade up } := by
  unfold SameIds Handle.tryUpgrade
  split <;> simp

theorem tryUpgrade_other (ctx : KCtx) (c d : Nat) (up : Bool) (h : d ≠ c) :
    ctxHolds (ctx.tryUpgrade d up) c = ctxHolds ctx c := by
  obtain ⟨⟨pid, pact⟩, sec⟩ := ctx
  unfold KCtx.tryUpgrade ctxHolds
  by_cases hp : pid = d
  · have : ¬ pid = c := fun h' => h (hp ▸ h')
    subst hp
    simp only [if_true, Handle.tryUpgrade]
    cases pact <;> simp [this]
  · cases sec with
    | none => simp [hp]
    | some s =>
      obtain ⟨sid, sact⟩ := s
      by_cases hs : sid = d
      · have : ¬ sid = c := fun h' => h (hs ▸ h')
        subst hs
        simp only [hp, if_true, if_false, Handle.tryUpgrade]
        cases sact <;> simp [this]
      · simp [hp, hs]

theorem primaryUp_other (ctx : KCtx) (c : Nat) (up : Bool) (h : ctx.primary.id ≠ c) :
    ctxHolds { ctx with primary := ctx.primary.tryUpgrade up } c = ctxHolds ctx c := by
  unfold ctxHolds Handle.tryUpgrade
  split <;> simp [h]

theorem ctxHolds_pos_has (ctx : KCtx) (c : Nat) (h : 0 < ctxHolds ctx c) : ctxHas ctx c := by
  obtain ⟨⟨pid, pact⟩, sec⟩ := ctx
  unfold ctxHolds at h
  unfold ctxHas
  by_cases hp : pid = c
  · exact Or.inl hp
  · cases sec with
    | none => simp [hp] at h
    | some s =>
      by_cases hs : s.id = c
      · exact Or.inr ⟨s, rfl, hs⟩
      · simp [hp, hs] at h

theorem sum_pos_iff (l : List Nat) : 0 < l.sum ↔ ∃ x ∈ l, 0 < x := by
  induction l with
  | nil => simp
  | cons a t ih =>
    simp only [List.sum_cons, List.mem_cons, exists_eq_or_imp]
    rw [← ih]; omega

theorem holds_pos_iff (s : Svc) (c : Nat) : 0 < s.holds c ↔ ∃ e ∈ s.conns, 0 < ctxHolds e.2 c := by
  rw [holds_eq, sum_pos_iff]
  simp only [List.mem_map]
  constructor
  · rintro ⟨x, ⟨e, he, rfl⟩, hx⟩; exact ⟨e, he, hx⟩
  · rintro ⟨e, he, hx⟩; exact ⟨_, ⟨e, he, rfl⟩, hx⟩

theorem downgradeAll_fold_ids (keys : List Nat) : ∀ (conns : List (Nat × KCtx)),
    ∀ e' ∈ keys.foldl downgradeAll conns, ∃ e ∈ conns, e'.1 = e.1 ∧ SameIds e.2 e'.2 := by
  induction keys with
  | nil => intro conns e' he'; exact ⟨e', he', rfl, SameIds.rfl' _⟩
  | cons d rest ih =>
    intro conns e' he'
    simp only [List.foldl] at he'
    obtain ⟨e1, he1, hk, hs⟩ := ih _ e' he'
    simp only [downgradeAll, List.mem_map] at he1
    obtain ⟨e0, he0, rfl⟩ := he1
    exact ⟨e0, he0, hk, (sameIds_downgrade _ _).trans hs⟩

/-! ### keys of the connection map are unique -/

def KeysOk (m : List (Nat × KCtx)) : Prop := ∀ e ∈ m, aget m e.1 = some e.2

theorem keys_aput {m : List (Nat × KCtx)} (h : KeysOk m) (p : Nat) (v : KCtx) : KeysOk (aput m p v) := by
  intro e he
  rw [aget_aput]
  rcases (mem_aput _ _ _ _).mp he with rfl | ⟨he, hk⟩
  · simp
  · simp only [hk, if_false]; exact h e he

theorem keys_aremove {m : List (Nat × KCtx)} (h : KeysOk m) (p : Nat) : KeysOk (aremove m p) := by
  intro e he
  rw [aget_aremove]
  obtain ⟨he, hk⟩ := (mem_aremove _ _ _).mp he
  simp only [hk, if_false]; exact h e he

theorem aget_map (f : KCtx → KCtx) (m : List (Nat × KCtx)) (k : Nat) :
    aget (m.map fun e => (e.1, f e.2)) k = (aget m k).map f := by
  induction m with
  | nil => rfl
  | cons a t ih =>
    obtain ⟨k', v⟩ := a
    by_cases hk : k' = k
    · simp [aget, hk]
    · simp only [List.map_cons, aget, hk, if_false]; exact ih

theorem keys_downgradeAll {m : List (Nat × KCtx)} (h : KeysOk m) (d : Nat) : KeysOk (downgradeAll m d) := by
  intro e he
  unfold downgradeAll at he ⊢
  rw [aget_map (fun x => x.downgrade d)]
  obtain ⟨e0, he0, rfl⟩ := List.mem_map.mp he
  simp only []
  rw [h e0 he0]; rfl

theorem keys_fold (keys : List Nat) : ∀ m : List (Nat × KCtx), KeysOk m → KeysOk (keys.foldl downgradeAll m) := by
  induction keys with
  | nil => intro m h; exact h
  | cons d rest ih => intro m h; exact ih _ (keys_downgradeAll h d)

/-! ### one protocol's invariant -/

structure SvcInv (peer : Nat → Nat) (now : Nat) (svc : Svc) : Prop where
  keys : KeysOk svc.conns
  distinct : ∀ e ∈ svc.conns, Distinct e.2
  peerOk : ∀ e ∈ svc.conns, ∀ c, ctxHas e.2 c → peer c = e.1
  tr : TrackerOk svc.T now svc.tr
  /-- an active handle is always tracked -/
  held : ∀ c, 0 < svc.holds c → aget svc.tr.last c ≠ none

theorem mem_conns_holds (s : Svc) (e : Nat × KCtx) (he : e ∈ s.conns) (c : Nat) (h : 0 < ctxHolds e.2 c) :
    0 < s.holds c := (holds_pos_iff s c).mpr ⟨e, he, h⟩

/-- Substream activity on `c` together with replacing peer `p`'s context. -/
theorem inv_aput_activity {peer : Nat → Nat} {now : Nat} {s : Svc} (h : SvcInv peer now s) (p c : Nat) (ctx' : KCtx)
    (hd : Distinct ctx') (hpeer : ∀ c', ctxHas ctx' c' → peer c' = p)
    (hh : ∀ c', c' ≠ c → 0 < ctxHolds ctx' c' → 0 < s.holds c') :
    SvcInv peer now { s with tr := s.tr.activity c now s.T, conns := aput s.conns p ctx' } := by
  constructor
  · exact keys_aput h.keys p ctx'
  · intro e he
    rcases (mem_aput _ _ _ _).mp he with rfl | ⟨he, _⟩
    · exact hd
    · exact h.distinct e he
  · intro e he
    rcases (mem_aput _ _ _ _).mp he with rfl | ⟨he, _⟩
    · exact hpeer
    · exact h.peerOk e he
  · exact activity_ok _ _ _ _ h.tr
  · intro c' hpos
    show aget (s.tr.activity c now s.T).last c' ≠ none
    rw [activity_last]
    by_cases hc : c' = c
    · simp [hc]
    · simp only [hc, if_false]
      obtain ⟨e, he, hpe⟩ := (holds_pos_iff _ c').mp hpos
      rcases (mem_aput _ _ _ _).mp he with rfl | ⟨he, _⟩
      · exact h.held c' (hh c' hc hpe)
      · exact h.held c' (mem_conns_holds s e he c' hpe)

theorem inv_activity_only {peer : Nat → Nat} {now : Nat} {s : Svc} (h : SvcInv peer now s) (c : Nat) :
    SvcInv peer now { s with tr := s.tr.activity c now s.T } := by
  refine ⟨h.keys, h.distinct, h.peerOk, activity_ok _ _ _ _ h.tr, ?_⟩
  intro c' hpos
  show aget (s.tr.activity c now s.T).last c' ≠ none
  rw [activity_last]
  by_cases hc : c' = c
  · simp [hc]
  · simp only [hc, if_false]; exact h.held c' hpos

theorem hasId_aput (s : Svc) (tr : Tracker) (p : Nat) (ctx' : KCtx) (c' : Nat)
    (h : Svc.hasId { s with tr := tr, conns := aput s.conns p ctx' } c') : ctxHas ctx' c' ∨ s.hasId c' := by
  obtain ⟨e, he, hc⟩ := h
  rcases (mem_aput _ _ _ _).mp he with rfl | ⟨he, _⟩
  · exact Or.inl hc
  · exact Or.inr ⟨e, he, hc⟩

theorem onEstablished_inv {peer : Nat → Nat} {now : Nat} (s : Svc) (p c : Nat) (h : SvcInv peer now s)
    (hp : peer c = p) (hfresh : ¬ s.hasId c) :
    SvcInv peer now (s.onEstablished p c now).1 ∧
    (∀ c', (s.onEstablished p c now).1.hasId c' → s.hasId c' ∨ c' = c) := by
  unfold Svc.onEstablished
  cases hg : aget s.conns p with
  | none =>
    simp only []
    constructor
    · apply inv_aput_activity h p c
      · intro x hx; cases hx
      · intro c' hc'
        rcases hc' with hc' | ⟨x, hx, _⟩
        · simp only at hc'; rw [← hc']; exact hp
        · cases hx
      · intro c' hne hpos
        exfalso
        unfold ctxHolds at hpos
        have : ¬ c = c' := fun e => hne e.symm
        simp [this] at hpos
    · intro c' hc'
      rcases hasId_aput s _ p _ c' hc' with hc' | hc'
      · right
        rcases hc' with hc' | ⟨x, hx, _⟩
        · exact hc'.symm
        · cases hx
      · exact Or.inl hc'
  | some ctx =>
    have hmem := aget_mem _ _ _ hg
    simp only []
    cases hsec : ctx.secondary with
    | some x => simp only []; exact ⟨h, fun c' hc' => Or.inl hc'⟩
    | none =>
      simp only []
      have hpc : ctx.primary.id ≠ c := fun e => hfresh ⟨(p, ctx), hmem, Or.inl e⟩
      constructor
      · apply inv_aput_activity h p c
        · intro x hx
          simp only [Option.some.injEq] at hx
          subst hx
          exact fun e => hpc e.symm
        · intro c' hc'
          rcases hc' with hc' | ⟨x, hx, hxc⟩
          · exact h.peerOk _ hmem c' (Or.inl hc')
          · simp only [Option.some.injEq] at hx
            subst hx; simp only at hxc; rw [← hxc]; exact hp
        · intro c' hne hpos
          apply mem_conns_holds s _ hmem c'
          have : ¬ c = c' := fun e => hne e.symm
          unfold ctxHolds at hpos ⊢
          simp only [this, false_and, if_false, Nat.add_zero] at hpos
          simp only [hsec, Nat.add_zero]
          exact hpos
      · intro c' hc'
        rcases hasId_aput s _ p _ c' hc' with hc' | hc'
        · rcases hc' with hc' | ⟨x, hx, hxc⟩
          · exact Or.inl ⟨(p, ctx), hmem, Or.inl hc'⟩
          · simp only [Option.some.injEq] at hx
            subst hx; exact Or.inr hxc.symm
        · exact Or.inl hc'

/-- A `ConnectionClosed` for `c` leaves no handle of `c` behind (and forgets `c`). -/
theorem inv_closed {peer : Nat → Nat} {now : Nat} {s : Svc} (h : SvcInv peer now s) (c : Nat) (conns' : List (Nat × KCtx))
    (h0 : KeysOk conns')
    (h1 : ∀ e ∈ conns', Distinct e.2 ∧ ∀ c', ctxHas e.2 c' → peer c' = e.1)
    (h2 : ∀ e ∈ conns', ∀ c', 0 < ctxHolds e.2 c' → c' ≠ c ∧ 0 < s.holds c') :
    SvcInv peer now { s with tr := s.tr.closed c, conns := conns' } := by
  refine ⟨h0, fun e he => (h1 e he).1, fun e he => (h1 e he).2, closed_ok _ _ _ _ h.tr, ?_⟩
  intro c' hpos
  obtain ⟨e, he, hpe⟩ := (holds_pos_iff _ c').mp hpos
  obtain ⟨hne, hold⟩ := h2 e he c' hpe
  show aget (s.tr.closed c).last c' ≠ none
  rw [closed_last]; simp only [hne, if_false]
  exact h.held c' hold

theorem onClosed_inv {peer : Nat → Nat} {now : Nat} (s : Svc) (p c : Nat) (h : SvcInv peer now s) (hp : peer c = p) :
    SvcInv peer now (s.onClosed p c).1 ∧ (∀ c', (s.onClosed p c).1.hasId c' → s.hasId c') ∧
    (s.onClosed p c).1.holds c = 0 := by
  -- entries of other peers never hold `c`
  have hother : ∀ e ∈ s.conns, e.1 ≠ p → (Distinct e.2 ∧ ∀ c', ctxHas e.2 c' → peer c' = e.1) ∧
      ∀ c', 0 < ctxHolds e.2 c' → c' ≠ c ∧ 0 < s.holds c' := by
    intro e he hne
    refine ⟨⟨h.distinct e he, h.peerOk e he⟩, fun c' hpos => ⟨?_, mem_conns_holds s e he c' hpos⟩⟩
    intro hcc; subst hcc
    exact hne ((h.peerOk e he c' (ctxHolds_pos_has _ _ hpos)).symm.trans hp)
  have hzero : ∀ (conns' : List (Nat × KCtx)), (∀ e ∈ conns', ∀ c', 0 < ctxHolds e.2 c' → c' ≠ c ∧ 0 < s.holds c') →
      Svc.holds { s with tr := s.tr.closed c, conns := conns' } c = 0 := by
    intro conns' h2
    by_cases hz : Svc.holds { s with tr := s.tr.closed c, conns := conns' } c = 0
    · exact hz
    · obtain ⟨e, he, hpe⟩ := (holds_pos_iff _ c).mp (Nat.pos_of_ne_zero hz)
      exact absurd rfl (h2 e he c hpe).1
  unfold Svc.onClosed
  simp only []
  cases hg : aget s.conns p with
  | none =>
    simp only []
    have h2 : ∀ e ∈ s.conns, ∀ c', 0 < ctxHolds e.2 c' → c' ≠ c ∧ 0 < s.holds c' :=
      fun e he => (hother e he (aget_none_key _ _ hg e he)).2
    exact ⟨inv_closed h c s.conns h.keys (fun e he => ⟨h.distinct e he, h.peerOk e he⟩) h2,
      fun c' hc' => hc', hzero _ h2⟩
  | some ctx =>
    have hmem := aget_mem _ _ _ hg
    simp only []
    by_cases hpc : ctx.primary.id = c
    · simp only [hpc, if_true]
      cases hsec : ctx.secondary with
      | none =>
        simp only []
        have h2 : ∀ e ∈ aremove s.conns p, ∀ c', 0 < ctxHolds e.2 c' → c' ≠ c ∧ 0 < s.holds c' :=
          fun e he => (hother e ((mem_aremove _ _ _).mp he).1 ((mem_aremove _ _ _).mp he).2).2
        refine ⟨inv_closed h c _ (keys_aremove h.keys p) (fun e he =>
            (hother e ((mem_aremove _ _ _).mp he).1 ((mem_aremove _ _ _).mp he).2).1) h2, ?_, hzero _ h2⟩
        rintro c' ⟨e, he, hc'⟩
        exact ⟨e, ((mem_aremove _ _ _).mp he).1, hc'⟩
      | some x =>
        simp only []
        have hxc : x.id ≠ c := fun e => h.distinct _ hmem x hsec (e.trans hpc.symm)
        have h2 : ∀ e ∈ aput s.conns p ⟨x, none⟩, ∀ c', 0 < ctxHolds e.2 c' → c' ≠ c ∧ 0 < s.holds c' := by
          intro e he
          rcases (mem_aput _ _ _ _).mp he with rfl | ⟨he, hk⟩
          · intro c' hpos
            have hxid : x.id = c' ∧ x.active = true := by
              unfold ctxHolds at hpos
              by_cases hh : x.id = c' ∧ x.active = true
              · exact hh
              · simp [hh] at hpos
            refine ⟨fun e => hxc (hxid.1.trans e), mem_conns_holds s _ hmem c' ?_⟩
            unfold ctxHolds
            simp only [hsec, hxid, and_self, if_true]
            omega
          · exact (hother e he hk).2
        refine ⟨inv_closed h c _ (keys_aput h.keys p _) ?_ h2, ?_, hzero _ h2⟩
        · intro e he
          rcases (mem_aput _ _ _ _).mp he with rfl | ⟨he, hk⟩
          · refine ⟨fun y hy => (by cases hy), fun c' hc' => ?_⟩
            rcases hc' with hc' | ⟨y, hy, _⟩
            · exact h.peerOk _ hmem c' (Or.inr ⟨x, hsec, hc'⟩)
            · cases hy
          · exact (hother e he hk).1
        · intro c' hc'
          rcases hasId_aput s _ p _ c' hc' with hc' | hc'
          · rcases hc' with hc' | ⟨y, hy, _⟩
            · exact ⟨_, hmem, Or.inr ⟨x, hsec, hc'⟩⟩
            · cases hy
          · exact hc'
    · simp only [hpc, if_false]
      have h2 : ∀ e ∈ aput s.conns p ⟨ctx.primary, none⟩, ∀ c', 0 < ctxHolds e.2 c' → c' ≠ c ∧ 0 < s.holds c' := by
        intro e he
        rcases (mem_aput _ _ _ _).mp he with rfl | ⟨he, hk⟩
        · intro c' hpos
          have hxid : ctx.primary.id = c' ∧ ctx.primary.active = true := by
            unfold ctxHolds at hpos
            by_cases hh : ctx.primary.id = c' ∧ ctx.primary.active = true
            · exact hh
            · simp [hh] at hpos
          refine ⟨fun e => hpc (hxid.1.trans e), mem_conns_holds s _ hmem c' ?_⟩
          unfold ctxHolds
          simp only [hxid, and_self, if_true]
          omega
        · exact (hother e he hk).2
      refine ⟨inv_closed h c _ (keys_aput h.keys p _) ?_ h2, ?_, hzero _ h2⟩
      · intro e he
        rcases (mem_aput _ _ _ _).mp he with rfl | ⟨he, hk⟩
        · refine ⟨fun y hy => (by cases hy), fun c' hc' => ?_⟩
          rcases hc' with hc' | ⟨y, hy, _⟩
          · exact h.peerOk _ hmem c' (Or.inl hc')
          · cases hy
        · exact (hother e he hk).1
      · intro c' hc'
        rcases hasId_aput s _ p _ c' hc' with hc' | hc'
        · rcases hc' with hc' | ⟨y, hy, _⟩
          · exact ⟨_, hmem, Or.inl hc'⟩
          · cases hy
        · exact hc'

/-! ### what keeps a handle active -/

theorem primaryUp_ge (ctx : KCtx) (c : Nat) :
    ctxHolds ctx c ≤ ctxHolds { ctx with primary := ctx.primary.tryUpgrade true } c := by
  obtain ⟨⟨pid, pact⟩, sec⟩ := ctx
  unfold ctxHolds Handle.tryUpgrade
  cases pact
  · simp only [Bool.false_eq_true, and_false, if_false, and_true]
    split <;> omega
  · simp

theorem tryUpgrade_ge (ctx : KCtx) (c d : Nat) : ctxHolds ctx c ≤ ctxHolds (ctx.tryUpgrade d true) c := by
  by_cases hcd : d = c
  · subst hcd
    obtain ⟨⟨pid, pact⟩, sec⟩ := ctx
    unfold KCtx.tryUpgrade ctxHolds Handle.tryUpgrade
    by_cases hp1 : pid = d
    · cases pact <;> cases sec <;> simp [hp1]
      all_goals split <;> omega
    · cases sec with
      | none => simp [hp1]
      | some x =>
        obtain ⟨xid, xact⟩ := x
        by_cases hx : xid = d
        · cases xact <;> simp [hp1, hx]
        · simp [hp1, hx]
  · rw [tryUpgrade_other ctx c d true hcd]; exact Nat.le_refl _

theorem holds_aput_keeps (s : Svc) (hk : KeysOk s.conns) (tr : Tracker) (p : Nat) (ctx' : KCtx) (c' : Nat)
    (hctx : ∀ ctx, aget s.conns p = some ctx → 0 < ctxHolds ctx c' → 0 < ctxHolds ctx' c')
    (hpos : 0 < s.holds c') : 0 < Svc.holds { s with tr := tr, conns := aput s.conns p ctx' } c' := by
  obtain ⟨e, he, hpe⟩ := (holds_pos_iff s c').mp hpos
  apply (holds_pos_iff _ c').mpr
  by_cases hkp : e.1 = p
  · refine ⟨(p, ctx'), (mem_aput _ _ _ _).mpr (Or.inl rfl), ?_⟩
    exact hctx e.2 (hkp ▸ hk e he) hpe
  · exact ⟨e, (mem_aput _ _ _ _).mpr (Or.inr ⟨he, hkp⟩), hpe⟩

theorem onEstablished_keeps (s : Svc) (hk : KeysOk s.conns) (p c now c' : Nat) (hpos : 0 < s.holds c') :
    0 < (s.onEstablished p c now).1.holds c' := by
  unfold Svc.onEstablished
  cases hg : aget s.conns p with
  | none =>
    simp only []
    exact holds_aput_keeps s hk _ p _ c' (fun ctx hc => by rw [hg] at hc; cases hc) hpos
  | some ctx =>
    simp only []
    cases hsec : ctx.secondary with
    | some x => exact hpos
    | none =>
      simp only []
      apply holds_aput_keeps s hk _ p _ c' _ hpos
      intro ctx0 hc0 hp0
      rw [hg] at hc0; cases hc0
      unfold ctxHolds at hp0 ⊢
      simp only [hsec, Nat.add_zero] at hp0
      simp only []; omega

theorem openSubstream_inv {peer : Nat → Nat} {now : Nat} (s : Svc) (p : Nat) (up : Bool) (send : SendRes) (sid : Nat)
    (h : SvcInv peer now s) :
    SvcInv peer now (s.openSubstream p now up send sid).1 ∧
    (∀ c', (s.openSubstream p now up send sid).1.hasId c' → s.hasId c') ∧
    (∀ c', 0 < s.holds c' → 0 < (s.openSubstream p now up send sid).1.holds c') := by
  unfold Svc.openSubstream
  cases hg : aget s.conns p with
  | none => exact ⟨h, fun _ hc => hc, fun _ hc => hc⟩
  | some ctx =>
    have hmem := aget_mem _ _ _ hg
    simp only []
    by_cases hu : (ctx.primary.active || up) = false
    · simp only [hu, if_true]; exact ⟨h, fun _ hc => hc, fun _ hc => hc⟩
    · simp only [hu, if_false]
      have key : SvcInv peer now (if s.ka = true then
            { s with tr := s.tr.activity ctx.primary.id now s.T,
                     conns := aput s.conns p { ctx with primary := ctx.primary.tryUpgrade true } } else s) ∧
          (∀ c', Svc.hasId (if s.ka = true then
            { s with tr := s.tr.activity ctx.primary.id now s.T,
                     conns := aput s.conns p { ctx with primary := ctx.primary.tryUpgrade true } } else s) c' → s.hasId c') ∧
          (∀ c', 0 < s.holds c' → 0 < Svc.holds (if s.ka = true then
            { s with tr := s.tr.activity ctx.primary.id now s.T,
                     conns := aput s.conns p { ctx with primary := ctx.primary.tryUpgrade true } } else s) c') := by
        by_cases hka : s.ka = true
        · rw [if_pos hka]
          have hsame := sameIds_primaryUp ctx true
          refine ⟨?_, ?_, ?_⟩
          · apply inv_aput_activity h p ctx.primary.id
            · exact hsame.distinct (h.distinct _ hmem)
            · intro c' hc'; exact h.peerOk _ hmem c' ((hsame.has c').mp hc')
            · intro c' hne hpos
              rw [primaryUp_other ctx c' true (fun e => hne e.symm)] at hpos
              exact mem_conns_holds s _ hmem c' hpos
          · intro c' hc'
            rcases hasId_aput s _ p _ c' hc' with hc' | hc'
            · exact ⟨_, hmem, (hsame.has c').mp hc'⟩
            · exact hc'
          · intro c' hpos
            apply holds_aput_keeps s h.keys _ p _ c' _ hpos
            intro ctx0 hc0 hp0
            rw [hg] at hc0; cases hc0
            have := primaryUp_ge ctx c'
            omega
        · rw [if_neg hka]; exact ⟨h, fun _ hc => hc, fun _ hc => hc⟩
      cases send <;> exact key

theorem onSubstreamOpened_inv {peer : Nat → Nat} {now : Nat} (s : Svc) (p c : Nat) (h : SvcInv peer now s) :
    SvcInv peer now (s.onSubstreamOpened p c now) ∧
    (∀ c', (s.onSubstreamOpened p c now).hasId c' → s.hasId c') ∧
    (∀ c', 0 < s.holds c' → 0 < (s.onSubstreamOpened p c now).holds c') := by
  unfold Svc.onSubstreamOpened
  by_cases hka : s.ka = true
  · rw [if_pos hka]
    simp only []
    cases hg : aget s.conns p with
    | none =>
      simp only []
      exact ⟨inv_activity_only h c, fun _ hc => hc, fun _ hc => hc⟩
    | some ctx =>
      have hmem := aget_mem _ _ _ hg
      simp only []
      have hsame := sameIds_tryUpgrade ctx c true
      refine ⟨?_, ?_, ?_⟩
      · apply inv_aput_activity h p c
        · exact hsame.distinct (h.distinct _ hmem)
        · intro c' hc'; exact h.peerOk _ hmem c' ((hsame.has c').mp hc')
        · intro c' hne hpos
          rw [tryUpgrade_other ctx c' c true (fun e => hne e.symm)] at hpos
          exact mem_conns_holds s _ hmem c' hpos
      · intro c' hc'
        rcases hasId_aput s _ p _ c' hc' with hc' | hc'
        · exact ⟨_, hmem, (hsame.has c').mp hc'⟩
        · exact hc'
      · intro c' hpos
        apply holds_aput_keeps s h.keys _ p _ c' _ hpos
        intro ctx0 hc0 hp0
        rw [hg] at hc0; cases hc0
        have := tryUpgrade_ge ctx c' c
        omega
  · rw [if_neg hka]; exact ⟨h, fun _ hc => hc, fun _ hc => hc⟩

theorem pollKeepAlive_inv {peer : Nat → Nat} {now : Nat} (s : Svc) (h : SvcInv peer now s) :
    SvcInv peer now (s.pollKeepAlive now) ∧ (∀ c', (s.pollKeepAlive now).hasId c' → s.hasId c') := by
  have hids := downgradeAll_fold_ids (pollTimers s.T now s.tr).2 s.conns
  refine ⟨⟨keys_fold _ _ h.keys, ?_, ?_, pollTimers_ok _ _ _ h.tr, ?_⟩, ?_⟩
  · intro e' he'
    obtain ⟨e, he, _, hs⟩ := hids e' he'
    exact hs.distinct (h.distinct e he)
  · intro e' he' c' hc'
    obtain ⟨e, he, hk, hs⟩ := hids e' he'
    rw [hk]; exact h.peerOk e he c' ((hs.has c').mp hc')
  · intro c' hpos
    rw [poll_holds s c' now h.distinct] at hpos
    by_cases hin : c' ∈ (pollTimers s.T now s.tr).2
    · simp [hin] at hpos
    · simp only [hin, if_false] at hpos
      show aget (pollTimers s.T now s.tr).1.last c' ≠ none
      rw [(pollTimers_spec s.T now c' s.tr).2 hin]
      exact h.held c' hpos
  · rintro c' ⟨e', he', hc'⟩
    obtain ⟨e, he, _, hs⟩ := hids e' he'
    exact ⟨e, he, (hs.has c').mp hc'⟩

/-- **Never early** (one protocol): a keep-alive poll takes the active handle of `c` away only if `c` has
been idle for the whole timeout; otherwise handle and `last_activity` stay as they are. -/
theorem pollKeepAlive_drop {peer : Nat → Nat} {now : Nat} (s : Svc) (h : SvcInv peer now s) (c : Nat)
    (_hpos : 0 < s.holds c) :
    ((s.pollKeepAlive now).holds c = 0 ∧ ∃ la, aget s.tr.last c = some la ∧ la + s.T ≤ now) ∨
    ((s.pollKeepAlive now).holds c = s.holds c ∧ aget (s.pollKeepAlive now).tr.last c = aget s.tr.last c) := by
  rw [poll_holds s c now h.distinct]
  by_cases hin : c ∈ (pollTimers s.T now s.tr).2
  · left
    obtain ⟨⟨la, hla, hge⟩, _⟩ := (pollTimers_spec s.T now c s.tr).1 hin
    have := (h.tr.tracked c la hla).1
    exact ⟨by simp [hin], la, hla, by omega⟩
  · right
    exact ⟨by simp [hin], (pollTimers_spec s.T now c s.tr).2 hin⟩

/-! ### the system invariant -/

theorem splitFirst_spec (i : Nat) : ∀ (l pre post : List (Nat × Msg)) (m : Msg),
    splitFirst i l = some (pre, m, post) → l = pre ++ (i, m) :: post ∧ ∀ x ∈ pre, x.1 ≠ i := by
  intro l
  induction l with
  | nil => intro pre post m h; simp [splitFirst] at h
  | cons x r ih =>
    intro pre post m h
    unfold splitFirst at h
    by_cases hx : x.1 = i
    · simp only [hx, if_true, Option.some.injEq, Prod.mk.injEq] at h
      obtain ⟨rfl, rfl, rfl⟩ := h
      subst hx
      exact ⟨rfl, fun _ h => (by cases h)⟩
    · simp only [hx, if_false] at h
      cases hr : splitFirst i r with
      | none => simp [hr] at h
      | some v =>
        obtain ⟨pre', m', post'⟩ := v
        simp only [hr, Option.some.injEq, Prod.mk.injEq] at h
        obtain ⟨rfl, rfl, rfl⟩ := h
        obtain ⟨e, hp⟩ := ih pre' post' m' hr
        refine ⟨by rw [e]; rfl, fun y hy => ?_⟩
        rcases List.mem_cons.mp hy with rfl | hy
        · exact hx
        · exact hp y hy

/-- Two `ConnectionEstablished` for the same connection never wait for the same protocol. -/
def EstOnce (a b : Nat × Msg) : Prop :=
  ∀ p p' c, a.2 = Msg.established p c → b.2 = Msg.established p' c → a.1 ≠ b.1

structure SysInv (peer : Nat → Nat) (n : Nat) (s : Sys) : Prop where
  svc : ∀ svc ∈ s.svcs, SvcInv peer s.now svc
  idsLt : ∀ svc ∈ s.svcs, ∀ c, svc.hasId c → c < n
  est : ∀ i p c, (i, Msg.established p c) ∈ s.inbox → c < n ∧ peer c = p
  closedPeer : ∀ i p c, (i, Msg.closed p c) ∈ s.inbox → peer c = p
  estFresh : ∀ i p c svc, (i, Msg.established p c) ∈ s.inbox → s.svcs[i]? = some svc → ¬ svc.hasId c
  estOnce : s.inbox.Pairwise EstOnce

/-- Steps of the connection tasks that only append messages other than `ConnectionEstablished`. -/
theorem SysInv.frame {peer : Nat → Nat} {n : Nat} {s s' : Sys} (h : SysInv peer n s) (hs : s'.svcs = s.svcs)
    (hn : s'.now = s.now) (extra : List (Nat × Msg)) (hin : s'.inbox = s.inbox ++ extra)
    (hne : ∀ x ∈ extra, (∀ p c, x.2 ≠ Msg.established p c) ∧ (∀ p c, x.2 = Msg.closed p c → peer c = p)) :
    SysInv peer n s' := by
  have hmem : ∀ i p c, (i, Msg.established p c) ∈ s'.inbox → (i, Msg.established p c) ∈ s.inbox := by
    intro i p c hm
    rw [hin] at hm
    rcases List.mem_append.mp hm with hm | hm
    · exact hm
    · exact absurd rfl ((hne _ hm).1 p c)
  refine ⟨by rw [hs, hn]; exact h.svc, by rw [hs]; exact h.idsLt, fun i p c hm => h.est i p c (hmem i p c hm), ?_,
    fun i p c svc hm hsv => h.estFresh i p c svc (hmem i p c hm) (hs ▸ hsv), ?_⟩
  · intro i p c hm
    rw [hin] at hm
    rcases List.mem_append.mp hm with hm | hm
    · exact h.closedPeer i p c hm
    · exact (hne _ hm).2 p c rfl
  · rw [hin, List.pairwise_append]
    refine ⟨h.estOnce, ?_, ?_⟩
    · apply List.Pairwise.imp_of_mem (R := fun _ _ => True)
      · intro a b _ hb _ p p' c _ hb2
        exact absurd hb2 ((hne b hb).1 p' c)
      · exact List.pairwise_of_forall (fun _ _ => trivial)
    · intro a _ b hb p p' c _ hb2
      exact absurd hb2 ((hne b hb).1 p' c)

/-- Steps of protocol `i`: its state changes, it may have taken a message out of its channel. -/
theorem SysInv.update {peer : Nat → Nat} {n : Nat} {s s' : Sys} (h : SysInv peer n s) (i : Nat) (svc' : Svc)
    (hs : s'.svcs = setSvc s.svcs i svc') (hn : s'.now = s.now) (hsub : s'.inbox.Sublist s.inbox)
    (hinv : SvcInv peer s.now svc') (hids : ∀ c, svc'.hasId c → c < n)
    (hfresh : ∀ p c, (i, Msg.established p c) ∈ s'.inbox → ¬ svc'.hasId c) : SysInv peer n s' := by
  have hset : ∀ x ∈ s'.svcs, x ∈ s.svcs ∨ x = svc' := by
    intro x hx; rw [hs] at hx; exact List.mem_or_eq_of_mem_set hx
  refine ⟨?_, ?_, fun j p c hm => h.est j p c (hsub.subset hm), fun j p c hm => h.closedPeer j p c (hsub.subset hm),
    ?_, h.estOnce.sublist hsub⟩
  · intro x hx
    rw [hn]
    rcases hset x hx with hx | rfl
    · exact h.svc x hx
    · exact hinv
  · intro x hx
    rcases hset x hx with hx | rfl
    · exact h.idsLt x hx
    · exact hids
  · intro j p c x hm hx
    rw [hs] at hx
    unfold setSvc at hx
    rw [List.getElem?_set] at hx
    by_cases hij : i = j
    · subst hij
      simp only [if_true] at hx
      split at hx
      · cases hx; exact hfresh p c hm
      · cases hx
    · simp only [hij, if_false] at hx
      exact h.estFresh j p c x (hsub.subset hm) hx

theorem timersSettled_spec (s : Sys) (dt : Nat) (h : timersSettled s dt = true) :
    ∀ svc ∈ s.svcs, ∀ t ∈ svc.tr.timers, ∃ d, t.deadline = some d ∧ s.now + dt ≤ d := by
  intro svc hsvc t ht
  unfold timersSettled at h
  rw [List.all_eq_true] at h
  have := h svc hsvc
  rw [List.all_eq_true] at this
  have := this t ht
  cases hd : t.deadline with
  | none => rw [hd] at this; cases this
  | some d => rw [hd] at this; exact ⟨d, rfl, by simpa using this⟩

/-- Reachable states: from a system without connections by the real operations, under the environment
hypothesis built into `Sys.step` (`advance`). The `Nat` is the ghost counter of connection ids. -/
inductive Reach (peer : Nat → Nat) : Nat → Sys → Prop
  | init (cfg : List (Bool × Nat)) : Reach peer 0 (Sys.init cfg)
  | step {n n' : Nat} {s s' : Sys} (l : Label) : Reach peer n s → s.step peer n l = some (n', s') → Reach peer n' s'

theorem Reach.steps {peer : Nat → Nat} (ls : List Label) : ∀ {n n' : Nat} {s s' : Sys}, Reach peer n s →
    Sys.steps peer n s ls = some (n', s') → Reach peer n' s' := by
  induction ls with
  | nil => intro n n' s s' h he; simp only [Sys.steps, Option.some.injEq, Prod.mk.injEq] at he; obtain ⟨rfl, rfl⟩ := he; exact h
  | cons l ls ih =>
    intro n n' s s' h he
    simp only [Sys.steps] at he
    cases hst : s.step peer n l with
    | none => rw [hst] at he; cases he
    | some v =>
      obtain ⟨n1, s1⟩ := v
      rw [hst] at he
      exact ih (Reach.step l h hst) he

theorem init_inv (peer : Nat → Nat) (cfg : List (Bool × Nat)) : SysInv peer 0 (Sys.init cfg) := by
  have hsv : ∀ svc ∈ (Sys.init cfg).svcs, svc.conns = [] ∧ svc.tr = {} := by
    intro svc hsvc
    simp only [Sys.init, List.mem_map] at hsvc
    obtain ⟨x, _, rfl⟩ := hsvc
    exact ⟨rfl, rfl⟩
  refine ⟨?_, ?_, fun i p c hm => (by cases hm), fun i p c hm => (by cases hm), fun i p c svc hm => (by cases hm),
    List.Pairwise.nil⟩
  · intro svc hsvc
    obtain ⟨h1, h2⟩ := hsv svc hsvc
    refine ⟨(by rw [KeysOk, h1]; intro e he; cases he), (by rw [h1]; intro e he; cases he),
      (by rw [h1]; intro e he; cases he), ?_, ?_⟩
    · rw [h2]; exact ⟨fun c la hla => by simp [aget] at hla, fun t ht => by cases ht⟩
    · intro c hpos
      rw [holds_eq, h1] at hpos; simp at hpos
  · intro svc hsvc c hc
    obtain ⟨h1, _⟩ := hsv svc hsvc
    obtain ⟨e, he, _⟩ := hc
    rw [h1] at he; cases he

theorem SysInv.sub {peer : Nat → Nat} {n : Nat} {s s' : Sys} (h : SysInv peer n s) (hs : s'.svcs = s.svcs)
    (hn : s'.now = s.now) (hsub : s'.inbox.Sublist s.inbox) : SysInv peer n s' :=
  ⟨by rw [hs, hn]; exact h.svc, by rw [hs]; exact h.idsLt, fun j p c hm => h.est j p c (hsub.subset hm),
    fun j p c hm => h.closedPeer j p c (hsub.subset hm),
    fun j p c x hm hx => h.estFresh j p c x (hsub.subset hm) (hs ▸ hx), h.estOnce.sublist hsub⟩

theorem SysInv.fresh_of_subset {peer : Nat → Nat} {n : Nat} {s : Sys} (h : SysInv peer n s) {i : Nat} {svc svc' : Svc}
    (hi : s.svcs[i]? = some svc) (hids : ∀ c, svc'.hasId c → svc.hasId c) {inbox' : List (Nat × Msg)}
    (hsub : inbox'.Sublist s.inbox) : ∀ p c, (i, Msg.established p c) ∈ inbox' → ¬ svc'.hasId c :=
  fun p c hm hc => h.estFresh i p c svc (hsub.subset hm) hi (hids c hc)

theorem open_shape (s : Sys) (i p : Nat) (P : Sys → Prop) (h0 : P s)
    (h1 : ∀ svc up send sid s', s.svcs[i]? = some svc →
      s'.svcs = setSvc s.svcs i (svc.openSubstream p s.now up send sid).1 →
      s'.inbox = s.inbox → s'.now = s.now → P s') : P (s.open i p).1 := by
  unfold Sys.open
  cases hsv : s.svcs[i]? with
  | none => exact h0
  | some svc =>
    simp only []
    split
    · exact h1 svc _ _ _ _ hsv rfl rfl rfl
    · exact h1 svc _ _ _ _ hsv rfl rfl rfl

theorem established_inv {peer : Nat → Nat} {n : Nat} {s : Sys} (h : SysInv peer n s) (c : Nat) (hc : n ≤ c) :
    SysInv peer (c + 1) (s.established (peer c) c) := by
  have hnew : ∀ x ∈ (List.range s.svcs.length).map (fun i => (i, Msg.established (peer c) c)),
      x.2 = Msg.established (peer c) c := by
    intro x hx
    obtain ⟨j, _, rfl⟩ := List.mem_map.mp hx
    rfl
  refine ⟨h.svc, fun svc hsvc c' hc' => by have := h.idsLt svc hsvc c' hc'; omega, ?_, ?_, ?_, ?_⟩
  · intro i p c' hm
    rcases List.mem_append.mp hm with hm | hm
    · have := h.est i p c' hm; exact ⟨by omega, this.2⟩
    · have := hnew _ hm
      simp only [Msg.established.injEq] at this
      obtain ⟨rfl, rfl⟩ := this
      exact ⟨by omega, rfl⟩
  · intro i p c' hm
    rcases List.mem_append.mp hm with hm | hm
    · exact h.closedPeer i p c' hm
    · have := hnew _ hm; cases this
  · intro i p c' svc hm hsv
    rcases List.mem_append.mp hm with hm | hm
    · exact h.estFresh i p c' svc hm hsv
    · have := hnew _ hm
      simp only [Msg.established.injEq] at this
      obtain ⟨rfl, rfl⟩ := this
      intro hid
      have := h.idsLt svc (List.mem_of_getElem? hsv) c' hid
      omega
  · show (s.inbox ++ _).Pairwise EstOnce
    rw [List.pairwise_append]
    refine ⟨h.estOnce, ?_, ?_⟩
    · rw [List.pairwise_map]
      apply List.Pairwise.imp _ List.pairwise_lt_range
      intro a b hab p p' c' _ _
      simp only []; omega
    · intro a ha b hb p p' c' ha2 hb2
      have hb3 := hnew b hb
      rw [hb2] at hb3
      simp only [Msg.established.injEq] at hb3
      obtain ⟨_, rfl⟩ := hb3
      have := (h.est a.1 p c' (by rw [← ha2]; exact ha)).1
      omega

theorem step_inv {peer : Nat → Nat} {n n' : Nat} {s s' : Sys} (l : Label) (h : SysInv peer n s)
    (hst : s.step peer n l = some (n', s')) : SysInv peer n' s' := by
  cases l with
  | established c =>
    simp only [Sys.step] at hst
    by_cases hc : n ≤ c
    · simp only [hc, if_true, Option.some.injEq, Prod.mk.injEq] at hst
      obtain ⟨rfl, rfl⟩ := hst
      exact established_inv h c hc
    · simp [hc] at hst
  | closed c =>
    simp only [Sys.step] at hst
    split at hst
    · simp only [Option.some.injEq, Prod.mk.injEq] at hst
      obtain ⟨rfl, rfl⟩ := hst
      refine h.frame rfl rfl _ rfl ?_
      intro x hx
      obtain ⟨j, _, rfl⟩ := List.mem_map.mp hx
      exact ⟨fun p c' hh => (by cases hh), fun p c' hh => (by cases hh; rfl)⟩
    · cases hst
  | «open» i p =>
    simp only [Sys.step, Option.some.injEq, Prod.mk.injEq] at hst
    obtain ⟨rfl, rfl⟩ := hst
    apply open_shape s i p
    · exact h
    · intro svc up send sid s' hsv h1 h2 h3
      have hin := h.svc svc (List.mem_of_getElem? hsv)
      obtain ⟨k1, k2, _⟩ := openSubstream_inv svc p up send sid hin
      have hsub : s'.inbox.Sublist s.inbox := by rw [h2]; exact List.Sublist.refl _
      exact h.update i _ h1 h3 hsub k1
        (fun c hc => h.idsLt svc (List.mem_of_getElem? hsv) c (k2 c hc)) (h.fresh_of_subset hsv k2 hsub)
  | recv c =>
    simp only [Sys.step, Option.some.injEq, Prod.mk.injEq] at hst
    obtain ⟨rfl, rfl⟩ := hst
    unfold Sys.recv
    split
    · exact h.frame rfl rfl [] (by simp) (fun x hx => by cases hx)
    · exact h
  | subOpen c sid =>
    simp only [Sys.step, Option.map_eq_some_iff, Prod.mk.injEq] at hst
    obtain ⟨s1, hs1, rfl, rfl⟩ := hst
    unfold Sys.subOpen at hs1
    split at hs1
    · simp only [Option.some.injEq] at hs1
      subst hs1
      refine h.frame rfl rfl _ rfl ?_
      intro x hx
      simp only [List.mem_singleton] at hx
      subst hx
      exact ⟨fun p c' hh => (by cases hh), fun p c' hh => (by cases hh)⟩
    · cases hs1
  | subFail c sid =>
    simp only [Sys.step, Option.map_eq_some_iff, Prod.mk.injEq] at hst
    obtain ⟨s1, hs1, rfl, rfl⟩ := hst
    unfold Sys.subFail at hs1
    split at hs1
    · simp only [Option.some.injEq] at hs1
      subst hs1
      refine h.frame rfl rfl _ rfl ?_
      intro x hx
      simp only [List.mem_singleton] at hx
      subst hx
      exact ⟨fun p c' hh => (by cases hh), fun p c' hh => (by cases hh)⟩
    · cases hs1
  | subInbound c i =>
    simp only [Sys.step, Option.some.injEq, Prod.mk.injEq] at hst
    obtain ⟨rfl, rfl⟩ := hst
    unfold Sys.subInbound
    split
    · split
      · exact h
      · refine h.frame rfl rfl _ rfl ?_
        intro x hx
        simp only [List.mem_singleton] at hx
        subst hx
        exact ⟨fun p c' hh => (by cases hh), fun p c' hh => (by cases hh)⟩
    · exact h
  | dropSub i k =>
    simp only [Sys.step, Option.map_eq_some_iff, Prod.mk.injEq] at hst
    obtain ⟨s1, hs1, rfl, rfl⟩ := hst
    unfold Sys.dropSub at hs1
    simp only [] at hs1
    split at hs1
    · simp only [Option.some.injEq] at hs1
      subst hs1
      exact h.frame rfl rfl [] (by simp) (fun x hx => by cases hx)
    · cases hs1
  | deliver i =>
    simp only [Sys.step] at hst
    cases hsp : splitFirst i s.inbox with
    | none => rw [hsp] at hst; cases hst
    | some v =>
      obtain ⟨pre, m, post⟩ := v
      rw [hsp] at hst
      simp only [Option.some.injEq, Prod.mk.injEq] at hst
      obtain ⟨rfl, rfl⟩ := hst
      obtain ⟨hbox, _⟩ := splitFirst_spec i _ _ _ _ hsp
      have hsub : (pre ++ post).Sublist s.inbox := by
        rw [hbox]; exact List.Sublist.append (List.Sublist.refl _) (List.sublist_cons_self _ _)
      have hmsg : (i, m) ∈ s.inbox := by rw [hbox]; simp
      unfold Sys.deliver
      simp only []
      cases hsv : s.svcs[i]? with
      | none => exact h.sub rfl rfl hsub
      | some svc =>
        have hin := h.svc svc (List.mem_of_getElem? hsv)
        have hlt := h.idsLt svc (List.mem_of_getElem? hsv)
        simp only []
        cases m with
        | established p c =>
          simp only []
          obtain ⟨hcn, hpc⟩ := h.est i p c hmsg
          obtain ⟨k1, k2⟩ := onEstablished_inv svc p c hin hpc (h.estFresh i p c svc hmsg hsv)
          refine h.update i _ rfl rfl hsub k1 ?_ ?_
          · intro c' hc'
            rcases k2 c' hc' with hc' | rfl
            · exact hlt c' hc'
            · exact hcn
          · intro p' c' hm hc'
            rcases k2 c' hc' with hc' | rfl
            · exact h.estFresh i p' c' svc (hsub.subset hm) hsv hc'
            · have hpw := h.estOnce
              rw [hbox, List.pairwise_append] at hpw
              obtain ⟨_, hpost, hcross⟩ := hpw
              rcases List.mem_append.mp hm with hm | hm
              · exact hcross _ hm _ List.mem_cons_self p' p c' rfl rfl rfl
              · exact (List.pairwise_cons.mp hpost).1 _ hm p p' c' rfl rfl rfl
        | closed p c =>
          simp only []
          obtain ⟨k1, k2, _⟩ := onClosed_inv svc p c hin (h.closedPeer i p c hmsg)
          exact h.update i _ rfl rfl hsub k1 (fun c' hc' => hlt c' (k2 c' hc')) (h.fresh_of_subset hsv k2 hsub)
        | subOpened p dir c life =>
          simp only []
          obtain ⟨k1, k2, _⟩ := onSubstreamOpened_inv svc p c hin
          exact h.update i _ rfl rfl hsub k1 (fun c' hc' => hlt c' (k2 c' hc')) (h.fresh_of_subset hsv k2 hsub)
        | subFailed sid => exact h.sub rfl rfl hsub
  | poll i =>
    simp only [Sys.step] at hst
    cases hsv : s.svcs[i]? with
    | none => rw [hsv] at hst; cases hst
    | some svc =>
      rw [hsv] at hst
      simp only [Option.some.injEq, Prod.mk.injEq] at hst
      obtain ⟨rfl, rfl⟩ := hst
      have hin := h.svc svc (List.mem_of_getElem? hsv)
      obtain ⟨k1, k2⟩ := pollKeepAlive_inv svc hin
      exact h.update i _ rfl rfl (List.Sublist.refl _) k1
        (fun c' hc' => h.idsLt svc (List.mem_of_getElem? hsv) c' (k2 c' hc'))
        (h.fresh_of_subset hsv k2 (List.Sublist.refl _))
  | advance dt =>
    simp only [Sys.step] at hst
    split at hst
    · rename_i hg
      simp only [Option.some.injEq, Prod.mk.injEq] at hst
      obtain ⟨rfl, rfl⟩ := hst
      have hset := timersSettled_spec s dt hg
      refine ⟨?_, h.idsLt, h.est, h.closedPeer, h.estFresh, h.estOnce⟩
      intro svc hsvc
      have hi := h.svc svc hsvc
      exact ⟨hi.keys, hi.distinct, hi.peerOk, advance_ok _ _ _ _ hi.tr (hset svc hsvc), hi.held⟩
    · cases hst

theorem Reach.inv {peer : Nat → Nat} {n : Nat} {s : Sys} (h : Reach peer n s) : SysInv peer n s := by
  induction h with
  | init cfg => exact init_inv peer cfg
  | step l _ hst ih => exact step_inv l ih hst

/-! ### never late, never early -/

/-- The protocol has polled its tracker at this instant: every sleep is started and incomplete. -/
def Polled (svc : Svc) (now : Nat) : Prop := ∀ t ∈ svc.tr.timers, ∃ d, t.deadline = some d ∧ now < d

theorem SvcInv.holder {peer : Nat → Nat} {now : Nat} {svc : Svc} (h : SvcInv peer now svc) (c : Nat)
    (hpos : 0 < svc.holds c) :
    ∃ la, aget svc.tr.last c = some la ∧ la ≤ now ∧ now ≤ la + svc.T ∧ (Polled svc now → now < la + svc.T) := by
  cases hla : aget svc.tr.last c with
  | none => exact absurd hla (h.held c hpos)
  | some la =>
    obtain ⟨hle, t, ht, _, hg⟩ := h.tr.tracked c la hla
    refine ⟨la, rfl, hle, ?_, ?_⟩
    · unfold Good at hg
      cases hd : t.deadline with
      | none => rw [hd] at hg; simp only [] at hg; omega
      | some d => rw [hd] at hg; simp only [] at hg; have := h.tr.notOverdue t ht d hd; omega
    · intro hp
      obtain ⟨d, hd, hlt⟩ := hp t ht
      unfold Good at hg
      rw [hd] at hg; simp only [] at hg; omega

theorem pollKeepAlive_polled {peer : Nat → Nat} {now : Nat} (s : Svc) (h : SvcInv peer now s) :
    Polled (s.pollKeepAlive now) now := pollTimers_settled s.T now s.tr h.tr

/-- What a step does to the protocols: nothing, or exactly one of them runs one of its operations. -/
def SvcChange (s : Sys) (l : Label) (j : Nat) (svc svc' : Svc) : Prop :=
  (∃ p up send sid, l = .open j p ∧ svc' = (svc.openSubstream p s.now up send sid).1) ∨
  (l = .deliver j ∧ ((∃ p c, svc' = (svc.onEstablished p c s.now).1) ∨ (∃ p c, svc' = (svc.onClosed p c).1) ∨
    (∃ p c, svc' = svc.onSubstreamOpened p c s.now))) ∨
  (l = .poll j ∧ svc' = svc.pollKeepAlive s.now)

theorem step_svcs {peer : Nat → Nat} {n n' : Nat} {s s' : Sys} (l : Label) (hst : s.step peer n l = some (n', s')) :
    s'.svcs = s.svcs ∨ ∃ j svc svc', s.svcs[j]? = some svc ∧ s'.svcs = setSvc s.svcs j svc' ∧ SvcChange s l j svc svc' := by
  cases l with
  | established c =>
    simp only [Sys.step] at hst
    split at hst
    · simp only [Option.some.injEq, Prod.mk.injEq] at hst
      obtain ⟨_, rfl⟩ := hst; exact Or.inl rfl
    · cases hst
  | closed c =>
    simp only [Sys.step] at hst
    split at hst
    · simp only [Option.some.injEq, Prod.mk.injEq] at hst
      obtain ⟨_, rfl⟩ := hst; exact Or.inl rfl
    · cases hst
  | «open» i p =>
    simp only [Sys.step, Option.some.injEq, Prod.mk.injEq] at hst
    obtain ⟨_, rfl⟩ := hst
    apply open_shape s i p (fun t => t.svcs = s.svcs ∨ ∃ j svc svc', s.svcs[j]? = some svc ∧
      t.svcs = setSvc s.svcs j svc' ∧ SvcChange s (Label.open i p) j svc svc')
    · exact Or.inl rfl
    · intro svc up send sid s' hsv h1 _ _
      exact Or.inr ⟨i, svc, _, hsv, h1, Or.inl ⟨p, up, send, sid, rfl, rfl⟩⟩
  | recv c =>
    simp only [Sys.step, Option.some.injEq, Prod.mk.injEq] at hst
    obtain ⟨_, rfl⟩ := hst
    unfold Sys.recv
    split <;> exact Or.inl rfl
  | subOpen c sid =>
    simp only [Sys.step, Option.map_eq_some_iff, Prod.mk.injEq] at hst
    obtain ⟨s1, hs1, _, rfl⟩ := hst
    unfold Sys.subOpen at hs1
    split at hs1
    · simp only [Option.some.injEq] at hs1
      subst hs1; exact Or.inl rfl
    · cases hs1
  | subFail c sid =>
    simp only [Sys.step, Option.map_eq_some_iff, Prod.mk.injEq] at hst
    obtain ⟨s1, hs1, _, rfl⟩ := hst
    unfold Sys.subFail at hs1
    split at hs1
    · simp only [Option.some.injEq] at hs1
      subst hs1; exact Or.inl rfl
    · cases hs1
  | subInbound c i =>
    simp only [Sys.step, Option.some.injEq, Prod.mk.injEq] at hst
    obtain ⟨_, rfl⟩ := hst
    unfold Sys.subInbound
    split
    · split <;> exact Or.inl rfl
    · exact Or.inl rfl
  | dropSub i k =>
    simp only [Sys.step, Option.map_eq_some_iff, Prod.mk.injEq] at hst
    obtain ⟨s1, hs1, _, rfl⟩ := hst
    unfold Sys.dropSub at hs1
    simp only [] at hs1
    split at hs1
    · simp only [Option.some.injEq] at hs1
      subst hs1; exact Or.inl rfl
    · cases hs1
  | deliver i =>
    simp only [Sys.step] at hst
    cases hsp : splitFirst i s.inbox with
    | none => rw [hsp] at hst; cases hst
    | some v =>
      obtain ⟨pre, m, post⟩ := v
      rw [hsp] at hst
      simp only [Option.some.injEq, Prod.mk.injEq] at hst
      obtain ⟨_, rfl⟩ := hst
      unfold Sys.deliver
      simp only []
      cases hsv : s.svcs[i]? with
      | none => exact Or.inl rfl
      | some svc =>
        simp only []
        cases m with
        | established p c => exact Or.inr ⟨i, svc, _, hsv, rfl, Or.inr (Or.inl ⟨rfl, Or.inl ⟨p, c, rfl⟩⟩)⟩
        | closed p c => exact Or.inr ⟨i, svc, _, hsv, rfl, Or.inr (Or.inl ⟨rfl, Or.inr (Or.inl ⟨p, c, rfl⟩)⟩)⟩
        | subOpened p dir c life =>
          exact Or.inr ⟨i, svc, _, hsv, rfl, Or.inr (Or.inl ⟨rfl, Or.inr (Or.inr ⟨p, c, rfl⟩)⟩)⟩
        | subFailed sid => exact Or.inl rfl
  | poll i =>
    simp only [Sys.step] at hst
    cases hsv : s.svcs[i]? with
    | none => rw [hsv] at hst; cases hst
    | some svc =>
      rw [hsv] at hst
      simp only [Option.some.injEq, Prod.mk.injEq] at hst
      obtain ⟨_, rfl⟩ := hst
      exact Or.inr ⟨i, svc, _, hsv, rfl, Or.inr (Or.inr ⟨rfl, rfl⟩)⟩
  | advance dt =>
    simp only [Sys.step] at hst
    split at hst
    · simp only [Option.some.injEq, Prod.mk.injEq] at hst
      obtain ⟨_, rfl⟩ := hst; exact Or.inl rfl
    · cases hst

/-- **Never early.** In a reachable state, whatever step the system takes: if protocol `i` held an active
handle of `c` before the step and holds none after it, then either the step was protocol `i` processing a
`ConnectionClosed` message (the connection-closed path, not the idle mechanism), or it was protocol `i`
polling its keep-alive tracker at a time `≥ last_activity_i(c) + T_i`. -/
theorem never_early {peer : Nat → Nat} {n n' : Nat} {s s' : Sys} (hr : Reach peer n s) (l : Label)
    (hst : s.step peer n l = some (n', s')) (i : Nat) (svc svc' : Svc) (hi : s.svcs[i]? = some svc)
    (hi' : s'.svcs[i]? = some svc') (c : Nat) (hpos : 0 < svc.holds c) (hz : svc'.holds c = 0) :
    (l = .deliver i ∧ ∃ p c', svc' = (svc.onClosed p c').1) ∨
    (l = .poll i ∧ svc' = svc.pollKeepAlive s.now ∧ ∃ la, aget svc.tr.last c = some la ∧ la + svc.T ≤ s.now) := by
  have hinv := hr.inv
  have hsi := hinv.svc svc (List.mem_of_getElem? hi)
  rcases step_svcs l hst with he | ⟨j, x, x', hj, he, hch⟩
  · rw [he, hi] at hi'; cases hi'; omega
  · rw [he] at hi'
    unfold setSvc at hi'
    rw [List.getElem?_set] at hi'
    by_cases hji : j = i
    · subst hji
      rw [hi] at hj; cases hj
      simp only [if_true] at hi'
      split at hi'
      · cases hi'
        rcases hch with ⟨p, up, send, sid, _, rfl⟩ | ⟨hl, ⟨p, c', rfl⟩ | ⟨p, c', rfl⟩ | ⟨p, c', rfl⟩⟩ | ⟨hl, rfl⟩
        · have := (openSubstream_inv svc p up send sid hsi).2.2 c hpos; omega
        · have := onEstablished_keeps svc hsi.keys p c' s.now c hpos; omega
        · exact Or.inl ⟨hl, p, c', rfl⟩
        · have := (onSubstreamOpened_inv svc p c' hsi).2.2 c hpos; omega
        · right
          rcases pollKeepAlive_drop svc hsi c hpos with ⟨_, hla⟩ | ⟨hsame, _⟩
          · exact ⟨hl, rfl, hla⟩
          · omega
      · cases hi'
    · simp only [hji, if_false] at hi'
      rw [hi] at hi'; cases hi'; omega

theorem step_svcs_length {peer : Nat → Nat} {n n' : Nat} {s s' : Sys} (l : Label)
    (hst : s.step peer n l = some (n', s')) : s'.svcs.length = s.svcs.length := by
  rcases step_svcs l hst with he | ⟨j, x, x', _, he, _⟩
  · rw [he]
  · rw [he]; simp [setSvc]

theorem handles_pos_iff (svcs : List Svc) (c : Nat) : 0 < handles svcs c ↔ ∃ svc ∈ svcs, 0 < svc.holds c := by
  rw [handles_eq, sum_pos_iff]
  simp only [List.mem_map]
  constructor
  · rintro ⟨x, ⟨e, he, rfl⟩, hx⟩; exact ⟨e, he, hx⟩
  · rintro ⟨e, he, hx⟩; exact ⟨_, ⟨e, he, rfl⟩, hx⟩

/-- Connection level: with no permit around, the step that drops the LAST strong sender of `c` is a
close report being processed, or some protocol's keep-alive poll at `≥ last_activity + T` of that protocol. -/
theorem last_holder_never_early {peer : Nat → Nat} {n n' : Nat} {s s' : Sys} (hr : Reach peer n s) (l : Label)
    (hst : s.step peer n l = some (n', s')) (c : Nat) (hperm : permits s c = 0)
    (h0 : exits s c = false) (h1 : exits s' c = true) :
    ∃ i svc, s.svcs[i]? = some svc ∧ 0 < svc.holds c ∧
      ((l = .deliver i ∧ ∃ p c', s'.svcs[i]? = some (svc.onClosed p c').1) ∨
       (l = .poll i ∧ ∃ la, aget svc.tr.last c = some la ∧ la + svc.T ≤ s.now)) := by
  have hpos : 0 < handles s.svcs c := by
    unfold exits strong at h0
    simp only [beq_eq_false_iff_ne, ne_eq] at h0
    omega
  obtain ⟨svc, hsvc, hh⟩ := (handles_pos_iff _ _).mp hpos
  obtain ⟨i, hlt, hget⟩ := List.getElem_of_mem hsvc
  have hi : s.svcs[i]? = some svc := by rw [List.getElem?_eq_getElem hlt, hget]
  have hlen := step_svcs_length l hst
  have hlt' : i < s'.svcs.length := by omega
  have hi' : s'.svcs[i]? = some s'.svcs[i] := List.getElem?_eq_getElem hlt'
  have hz : s'.svcs[i].holds c = 0 := by
    unfold exits strong at h1
    simp only [beq_iff_eq] at h1
    have h2 : handles s'.svcs c = 0 := by omega
    by_cases hzz : s'.svcs[i].holds c = 0
    · exact hzz
    · have := (handles_pos_iff s'.svcs c).mpr ⟨_, List.getElem_mem hlt', Nat.pos_of_ne_zero hzz⟩
      omega
  refine ⟨i, svc, hi, hh, ?_⟩
  rcases never_early hr l hst i svc _ hi hi' c hh hz with ⟨hl, p, c', he⟩ | ⟨hl, _, hla⟩
  · exact Or.inl ⟨hl, p, c', by rw [hi', he]⟩
  · exact Or.inr ⟨hl, hla⟩

/-- Connection level: nothing open, every protocol polled at this instant, and whatever activity any
protocol still remembers is at least its timeout ago ⇒ the loop exits. -/
theorem idle_exits {peer : Nat → Nat} {n : Nat} {s : Sys} (hr : Reach peer n s) (c : Nat) (hperm : permits s c = 0)
    (hidle : ∀ svc ∈ s.svcs, Polled svc s.now ∧ ∀ la, aget svc.tr.last c = some la → la + svc.T ≤ s.now) :
    exits s c = true := by
  have hinv := hr.inv
  by_cases hz : handles s.svcs c = 0
  · unfold exits strong; simp [hz, hperm]
  · obtain ⟨svc, hsvc, hh⟩ := (handles_pos_iff _ _).mp (Nat.pos_of_ne_zero hz)
    obtain ⟨la, hla, _, _, hp⟩ := (hinv.svc svc hsvc).holder c hh
    have := hp (hidle svc hsvc).1
    have := (hidle svc hsvc).2 la hla
    omega

/-! ### idle runs: nothing happens but time passing and keep-alive polls -/

def idleLabel : Label → Bool
  | .advance _ => true
  | .poll _ => true
  | _ => false

/-- How protocol state `svc'` after an idle run relates to `svc` before it, at time `now'`. -/
def IdleRel (c now' : Nat) (svc svc' : Svc) : Prop :=
  svc'.T = svc.T ∧ (svc.holds c = 0 → svc'.holds c = 0) ∧
  (0 < svc.holds c → ∀ la, aget svc.tr.last c = some la →
    (0 < svc'.holds c ∧ aget svc'.tr.last c = some la) ∨ (svc'.holds c = 0 ∧ la + svc.T ≤ now'))

theorem IdleRel.refl' (c now' : Nat) (svc : Svc) : IdleRel c now' svc svc :=
  ⟨rfl, fun h => h, fun hp la hla => Or.inl ⟨hp, hla⟩⟩

theorem IdleRel.trans {c t1 t2 : Nat} {a b d : Svc} (h1 : IdleRel c t1 a b) (h2 : IdleRel c t2 b d) (hle : t1 ≤ t2) :
    IdleRel c t2 a d := by
  obtain ⟨a1, a2, a3⟩ := h1
  obtain ⟨b1, b2, b3⟩ := h2
  refine ⟨b1.trans a1, fun h => b2 (a2 h), fun hp la hla => ?_⟩
  rcases a3 hp la hla with ⟨hp', hla'⟩ | ⟨hz, hge⟩
  · rcases b3 hp' la hla' with h | ⟨hz, hge⟩
    · exact Or.inl h
    · exact Or.inr ⟨hz, by rw [a1] at hge; exact hge⟩
  · exact Or.inr ⟨b2 hz, by omega⟩

theorem idle_step {peer : Nat → Nat} {n n' : Nat} {s s' : Sys} (hr : Reach peer n s) (c : Nat) (l : Label)
    (hl : idleLabel l = true) (hst : s.step peer n l = some (n', s')) :
    s.now ≤ s'.now ∧ permits s' c = permits s c ∧
    ∀ (i : Nat) (svc : Svc), s.svcs[i]? = some svc → ∃ svc', s'.svcs[i]? = some svc' ∧ IdleRel c s'.now svc svc' := by
  have hinv := hr.inv
  cases l with
  | advance dt =>
    simp only [Sys.step] at hst
    split at hst
    · simp only [Option.some.injEq, Prod.mk.injEq] at hst
      obtain ⟨_, rfl⟩ := hst
      exact ⟨Nat.le_add_right _ _, rfl, fun i svc hi => ⟨svc, hi, IdleRel.refl' _ _ _⟩⟩
    · cases hst
  | poll j =>
    simp only [Sys.step] at hst
    cases hsv : s.svcs[j]? with
    | none => rw [hsv] at hst; cases hst
    | some x =>
      rw [hsv] at hst
      simp only [Option.some.injEq, Prod.mk.injEq] at hst
      obtain ⟨_, rfl⟩ := hst
      refine ⟨Nat.le_refl _, rfl, fun i svc hi => ?_⟩
      by_cases hji : j = i
      · subst hji
        rw [hsv] at hi; cases hi
        have hlt : j < s.svcs.length := (List.getElem?_eq_some_iff.mp hsv).1
        refine ⟨x.pollKeepAlive s.now, by simp [setSvc, hlt], rfl, ?_, ?_⟩
        · intro hz
          have := svc_poll_le x c s.now (hinv.svc x (List.mem_of_getElem? hsv)).distinct
          omega
        · intro hp la hla
          rcases pollKeepAlive_drop x (hinv.svc x (List.mem_of_getElem? hsv)) c hp with ⟨hz, la', hla', hge⟩ | ⟨hs, he⟩
          · rw [hla] at hla'; cases hla'
            exact Or.inr ⟨hz, hge⟩
          · exact Or.inl ⟨by omega, by rw [he]; exact hla⟩
      · refine ⟨svc, ?_, IdleRel.refl' _ _ _⟩
        show (setSvc s.svcs j _)[i]? = some svc
        unfold setSvc
        rw [List.getElem?_set_ne hji]; exact hi
  | established _ => cases hl
  | closed _ => cases hl
  | «open» _ _ => cases hl
  | recv _ => cases hl
  | subOpen _ _ => cases hl
  | subFail _ _ => cases hl
  | subInbound _ _ => cases hl
  | dropSub _ _ => cases hl
  | deliver _ => cases hl

theorem steps_svcs_length {peer : Nat → Nat} (ls : List Label) : ∀ {n n' : Nat} {s s' : Sys},
    Sys.steps peer n s ls = some (n', s') → s'.svcs.length = s.svcs.length := by
  induction ls with
  | nil =>
    intro n n' s s' he
    simp only [Sys.steps, Option.some.injEq, Prod.mk.injEq] at he
    obtain ⟨_, rfl⟩ := he; rfl
  | cons l ls ih =>
    intro n n' s s' he
    simp only [Sys.steps] at he
    cases hst : s.step peer n l with
    | none => rw [hst] at he; cases he
    | some v =>
      obtain ⟨n1, s1⟩ := v
      rw [hst] at he
      exact (ih he).trans (step_svcs_length l hst)

theorem idle_run {peer : Nat → Nat} (c : Nat) (ls : List Label) : ∀ {n n' : Nat} {s s' : Sys}, Reach peer n s →
    (∀ l ∈ ls, idleLabel l = true) → Sys.steps peer n s ls = some (n', s') →
    s.now ≤ s'.now ∧ permits s' c = permits s c ∧
    ∀ (i : Nat) (svc : Svc), s.svcs[i]? = some svc → ∃ svc', s'.svcs[i]? = some svc' ∧ IdleRel c s'.now svc svc' := by
  induction ls with
  | nil =>
    intro n n' s s' _ _ he
    simp only [Sys.steps, Option.some.injEq, Prod.mk.injEq] at he
    obtain ⟨_, rfl⟩ := he
    exact ⟨Nat.le_refl _, rfl, fun i svc hi => ⟨svc, hi, IdleRel.refl' _ _ _⟩⟩
  | cons l ls ih =>
    intro n n' s s' hr hall he
    simp only [Sys.steps] at he
    cases hst : s.step peer n l with
    | none => rw [hst] at he; cases he
    | some v =>
      obtain ⟨n1, s1⟩ := v
      rw [hst] at he
      obtain ⟨a1, a2, a3⟩ := idle_step hr c l (hall l List.mem_cons_self) hst
      obtain ⟨b1, b2, b3⟩ := ih (Reach.step l hr hst) (fun l' hl' => hall l' (List.mem_cons_of_mem _ hl')) he
      refine ⟨by omega, b2.trans a2, fun i svc hi => ?_⟩
      obtain ⟨svc1, hi1, r1⟩ := a3 i svc hi
      obtain ⟨svc2, hi2, r2⟩ := b3 i svc1 hi1
      exact ⟨svc2, hi2, r1.trans r2 b1⟩

/-- **Exactly at `max (last_activity + T)`.** From a reachable state in which no permit of `c` is around, let
nothing happen but time passing (as far as the environment hypothesis allows) and keep-alive polls, in any
order, ending in a state where every protocol has polled. Then the loop has exited iff, for every protocol
that held `c` at the start, its timeout has elapsed since its last activity. -/
theorem idle_run_exits_iff {peer : Nat → Nat} {n n' : Nat} {s s' : Sys} (hr : Reach peer n s) (c : Nat)
    (hperm : permits s c = 0) (ls : List Label) (hall : ∀ l ∈ ls, idleLabel l = true)
    (hst : Sys.steps peer n s ls = some (n', s')) (hpolled : ∀ svc' ∈ s'.svcs, Polled svc' s'.now) :
    exits s' c = true ↔
      ∀ svc ∈ s.svcs, 0 < svc.holds c → ∀ la, aget svc.tr.last c = some la → la + svc.T ≤ s'.now := by
  obtain ⟨_, hp', hrel⟩ := idle_run c ls hr hall hst
  have hr' : Reach peer n' s' := Reach.steps ls hr hst
  have hperm' : permits s' c = 0 := hp'.trans hperm
  constructor
  · intro hex svc hsvc hpos la hla
    obtain ⟨i, hlt, hget⟩ := List.getElem_of_mem hsvc
    have hi : s.svcs[i]? = some svc := by rw [List.getElem?_eq_getElem hlt, hget]
    obtain ⟨svc', hi', _, _, h3⟩ := hrel i svc hi
    rcases h3 hpos la hla with ⟨hp2, _⟩ | ⟨_, hge⟩
    · exfalso
      have : 0 < handles s'.svcs c := (handles_pos_iff _ _).mpr ⟨svc', List.mem_of_getElem? hi', hp2⟩
      unfold exits strong at hex
      simp only [beq_iff_eq] at hex
      omega
    · exact hge
  · intro hall'
    by_cases hz : handles s'.svcs c = 0
    · unfold exits strong; simp [hz, hperm']
    · exfalso
      obtain ⟨svc', hsvc', hh⟩ := (handles_pos_iff _ _).mp (Nat.pos_of_ne_zero hz)
      obtain ⟨i, hlt, hget⟩ := List.getElem_of_mem hsvc'
      have hi' : s'.svcs[i]? = some svc' := by rw [List.getElem?_eq_getElem hlt, hget]
      cases hi : s.svcs[i]? with
      | none =>
        have hlen := steps_svcs_length ls hst
        have := List.getElem?_eq_none_iff.mp hi
        omega
      | some svc =>
        obtain ⟨svc2, hi2, hT, h2, h3⟩ := hrel i svc hi
        rw [hi'] at hi2; cases hi2
        have hpos : 0 < svc.holds c := by
          by_cases hz0 : svc.holds c = 0
          · have := h2 hz0; omega
          · omega
        obtain ⟨la, hla, _⟩ := (hr.inv.svc svc (List.mem_of_getElem? hi)).holder c hpos
        rcases h3 hpos la hla with ⟨_, hla'⟩ | ⟨hz2, _⟩
        · obtain ⟨la2, hla2, _, _, hp⟩ := (hr'.inv.svc svc' hsvc').holder c hh
          rw [hla'] at hla2; cases hla2
          have h1 := hp (hpolled svc' hsvc')
          have h4 := hall' svc (List.mem_of_getElem? hi) hpos la hla
          rw [hT] at h1; omega
        · omega

end Litep2pVerif.Service.KA
