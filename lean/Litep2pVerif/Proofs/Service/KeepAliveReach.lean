import Litep2pVerif.Proofs.Service.KeepAlive
/-! Reachability invariants of the keep-alive transition system (`Sys.step`) for C09 `idle_closed_at`. -/
namespace Litep2pVerif.Service.KA
open Litep2pVerif.Service

/-! ### association lists -/

theorem mem_aremove {β : Type} (m : List (Nat × β)) (x : Nat) (e : Nat × β) :
    e ∈ aremove m x ↔ e ∈ m ∧ e.1 ≠ x := by
  simp [aremove, List.mem_filter]

theorem mem_aput {β : Type} (m : List (Nat × β)) (x : Nat) (v : β) (e : Nat × β) :
    e ∈ aput m x v ↔ e = (x, v) ∨ (e ∈ m ∧ e.1 ≠ x) := by
  simp [aput, mem_aremove]

theorem aget_mem {β : Type} (m : List (Nat × β)) (x : Nat) (v : β) (h : aget m x = some v) : (x, v) ∈ m := by
  induction m with
  | nil => simp [aget] at h
  | cons a t ih =>
    obtain ⟨k, w⟩ := a
    by_cases hk : k = x
    · simp only [aget, hk, if_true, Option.some.injEq] at h
      subst h; subst hk; exact List.mem_cons_self
    · simp only [aget, hk, if_false] at h
      exact List.mem_cons_of_mem _ (ih h)

theorem aget_none_key {β : Type} (m : List (Nat × β)) (x : Nat) (h : aget m x = none) : ∀ e ∈ m, e.1 ≠ x := by
  induction m with
  | nil => intro e he; cases he
  | cons a t ih =>
    obtain ⟨k, w⟩ := a
    by_cases hk : k = x
    · simp [aget, hk] at h
    · simp only [aget, hk, if_false] at h
      intro e he
      rcases List.mem_cons.mp he with rfl | he
      · exact hk
      · exact ih h e he

theorem aget_aput {β : Type} (m : List (Nat × β)) (x y : Nat) (v : β) :
    aget (aput m x v) y = if y = x then some v else aget m y := by
  unfold aput
  by_cases h : y = x
  · subst h; simp [aget]
  · have h' : ¬ x = y := fun e => h e.symm
    simp only [aget, h', if_false, aget_aremove, h]

/-! ### the tracker -/

/-- Timer `t` will have completed by `la + T`: started with such a deadline, or — not polled yet — its
duration ends by then if it is started now. -/
def Good (T now la : Nat) (t : Timer) : Prop :=
  match t.deadline with
  | some d => d ≤ la + T
  | none => now + t.timeout ≤ la + T

/-- Tracker invariant: every tracked connection has a sleep future that completes by
`last_activity + T`; no started sleep is overdue. -/
structure TrackerOk (T now : Nat) (tr : Tracker) : Prop where
  tracked : ∀ c la, aget tr.last c = some la → la ≤ now ∧ ∃ t ∈ tr.timers, t.key = c ∧ Good T now la t
  notOverdue : ∀ t ∈ tr.timers, ∀ d, t.deadline = some d → now ≤ d

theorem Good.mono {T now la la' : Nat} {t : Timer} (h : Good T now la t) (hle : la ≤ la') : Good T now la' t := by
  unfold Good at *
  cases hd : t.deadline with
  | none => rw [hd] at h; simp only [] at h ⊢; omega
  | some d => rw [hd] at h; simp only [] at h ⊢; omega

theorem activity_last (tr : Tracker) (c now T c' : Nat) :
    aget (tr.activity c now T).last c' = if c' = c then some now else aget tr.last c' := by
  unfold Tracker.activity
  cases aget tr.last c <;> simp [aget_aput]

theorem activity_timers (tr : Tracker) (c now T : Nat) : ∀ t ∈ tr.timers, t ∈ (tr.activity c now T).timers := by
  intro t ht
  unfold Tracker.activity
  cases aget tr.last c <;> simp [ht]

theorem activity_ok (tr : Tracker) (c now T : Nat) (h : TrackerOk T now tr) :
    TrackerOk T now (tr.activity c now T) := by
  constructor
  · intro c' la hla
    rw [activity_last] at hla
    by_cases hc : c' = c
    · subst hc
      simp only [if_true, Option.some.injEq] at hla
      subst hla
      refine ⟨Nat.le_refl _, ?_⟩
      cases he : aget tr.last c' with
      | none =>
        refine ⟨⟨c', none, T⟩, ?_, rfl, ?_⟩
        · simp [Tracker.activity, he]
        · simp [Good]
      | some la0 =>
        obtain ⟨hle, t, ht, hk, hg⟩ := h.tracked c' la0 he
        exact ⟨t, activity_timers tr c' _ T t ht, hk, hg.mono hle⟩
    · simp only [hc, if_false] at hla
      obtain ⟨hle, t, ht, hk, hg⟩ := h.tracked c' la hla
      exact ⟨hle, t, activity_timers tr c now T t ht, hk, hg⟩
  · intro t ht d hd
    unfold Tracker.activity at ht
    cases he : aget tr.last c with
    | none =>
      simp only [he, List.mem_append, List.mem_singleton] at ht
      rcases ht with ht | rfl
      · exact h.notOverdue t ht d hd
      · cases hd
    | some la0 =>
      simp only [he] at ht
      exact h.notOverdue t ht d hd

theorem closed_ok (tr : Tracker) (c now T : Nat) (h : TrackerOk T now tr) : TrackerOk T now (tr.closed c) := by
  constructor
  · intro c' la hla
    simp only [Tracker.closed, aget_aremove] at hla
    by_cases hc : c' = c
    · simp [hc] at hla
    · simp only [hc, if_false] at hla
      exact h.tracked c' la hla
  · exact h.notOverdue

theorem closed_last (tr : Tracker) (c c' : Nat) :
    aget (tr.closed c).last c' = if c' = c then none else aget tr.last c' := by
  simp [Tracker.closed, aget_aremove]

/-- The clock may advance as far as the environment hypothesis allows. -/
theorem advance_ok (tr : Tracker) (T now dt : Nat) (h : TrackerOk T now tr)
    (hs : ∀ t ∈ tr.timers, ∃ d, t.deadline = some d ∧ now + dt ≤ d) : TrackerOk T (now + dt) tr := by
  constructor
  · intro c la hla
    obtain ⟨hle, t, ht, hk, hg⟩ := h.tracked c la hla
    refine ⟨by omega, t, ht, hk, ?_⟩
    obtain ⟨d, hd, _⟩ := hs t ht
    unfold Good at *
    rw [hd] at hg ⊢
    exact hg
  · intro t ht d hd
    obtain ⟨d', hd', hle⟩ := hs t ht
    rw [hd] at hd'; cases hd'; exact hle

/-! #### one completed sleep -/

/-- `fireOne` reports `c` and forgets it exactly when the sleep is `c`'s and `c` has been idle for `T`. -/
def Expires (T now : Nat) (acc : Tracker × List Nat) (t : Timer) (c : Nat) : Prop :=
  t.key = c ∧ ∃ la, aget acc.1.last c = some la ∧ ¬ now - la < T

theorem fireOne_spec (T now : Nat) (acc : Tracker × List Nat) (t : Timer) (c : Nat) :
    (c ∈ (fireOne T now acc t).2 ↔ c ∈ acc.2 ∨ Expires T now acc t c) ∧
    (Expires T now acc t c → aget (fireOne T now acc t).1.last c = none) ∧
    (¬ Expires T now acc t c → aget (fireOne T now acc t).1.last c = aget acc.1.last c) := by
  unfold Expires
  by_cases hk : t.key = c
  · subst hk
    unfold fireOne
    cases he : aget acc.1.last t.key with
    | none => simp [he]
    | some la =>
      by_cases hlt : now - la < T
      · simp only [hlt, if_true, true_and, Option.some.injEq, exists_eq_left', not_true_eq_false, or_false, he,
          false_imp_iff, not_false_eq_true, forall_const]
      · simp only [hlt]
        simp
        exact ⟨Or.inr (by omega), fun _ => by simp [aget_aremove], fun h => absurd h hlt⟩
  · obtain ⟨e1, e2⟩ := fireOne_last_other T now acc t c hk
    simp [hk, e1, e2]

theorem fireOne_timers (T now : Nat) (acc : Tracker × List Nat) (t : Timer) :
    (∀ x ∈ acc.1.timers, x ∈ (fireOne T now acc t).1.timers) ∧
    (∀ x ∈ (fireOne T now acc t).1.timers, x ∈ acc.1.timers ∨ (x.deadline = none ∧ 0 < x.timeout)) := by
  unfold fireOne
  cases aget acc.1.last t.key with
  | none => exact ⟨fun _ h => h, fun _ h => Or.inl h⟩
  | some la =>
    by_cases hlt : now - la < T
    · simp only [hlt, if_true, List.mem_append, List.mem_singleton]
      refine ⟨fun x hx => Or.inl hx, fun x hx => ?_⟩
      rcases hx with hx | rfl
      · exact Or.inl hx
      · exact Or.inr ⟨rfl, by simp only []; omega⟩
    · simp only [hlt, if_false]
      exact ⟨fun _ h => h, fun _ h => Or.inl h⟩

theorem fold_timers (T now : Nat) (ts : List Timer) : ∀ acc : Tracker × List Nat,
    (∀ x ∈ acc.1.timers, x ∈ (ts.foldl (fireOne T now) acc).1.timers) ∧
    (∀ x ∈ (ts.foldl (fireOne T now) acc).1.timers, x ∈ acc.1.timers ∨ (x.deadline = none ∧ 0 < x.timeout)) := by
  induction ts with
  | nil => intro acc; exact ⟨fun _ h => h, fun _ h => Or.inl h⟩
  | cons t rest ih =>
    intro acc
    simp only [List.foldl]
    obtain ⟨a1, a2⟩ := fireOne_timers T now acc t
    obtain ⟨b1, b2⟩ := ih (fireOne T now acc t)
    refine ⟨fun x hx => b1 x (a1 x hx), fun x hx => ?_⟩
    rcases b2 x hx with h | h
    · exact a2 x h
    · exact Or.inr h

theorem fold_out_mono (T now c : Nat) (ts : List Timer) : ∀ acc : Tracker × List Nat,
    c ∈ acc.2 → c ∈ (ts.foldl (fireOne T now) acc).2 := by
  induction ts with
  | nil => intro acc h; exact h
  | cons t rest ih =>
    intro acc h
    simp only [List.foldl]
    exact ih _ ((fireOne_spec T now acc t c).1.mpr (Or.inl h))

/-- The fold over the completed sleeps, seen from one key. -/
theorem fold_spec (T now c : Nat) (ts : List Timer) : ∀ acc : Tracker × List Nat, c ∉ acc.2 →
    (c ∈ (ts.foldl (fireOne T now) acc).2 →
      (∃ la, aget acc.1.last c = some la ∧ ¬ now - la < T) ∧ aget (ts.foldl (fireOne T now) acc).1.last c = none) ∧
    (c ∉ (ts.foldl (fireOne T now) acc).2 → aget (ts.foldl (fireOne T now) acc).1.last c = aget acc.1.last c) := by
  induction ts with
  | nil => intro acc h; exact ⟨fun h' => absurd h' h, fun _ => rfl⟩
  | cons t rest ih =>
    intro acc hnot
    simp only [List.foldl]
    obtain ⟨s1, s2, s3⟩ := fireOne_spec T now acc t c
    by_cases hex : Expires T now acc t c
    · have hin : c ∈ (fireOne T now acc t).2 := s1.mpr (Or.inr hex)
      have hnone := s2 hex
      obtain ⟨g1, g2⟩ := fold_gone T now c rest _ hnone
      exact ⟨fun _ => ⟨hex.2, g1⟩, fun h => absurd (g2 hin) h⟩
    · have hnot1 : c ∉ (fireOne T now acc t).2 := fun h => by
        rcases s1.mp h with h | h
        · exact hnot h
        · exact hex h
      obtain ⟨i1, i2⟩ := ih _ hnot1
      rw [s3 hex] at i1 i2
      exact ⟨i1, i2⟩

/-- A completed sleep of `c` whose connection stays tracked is re-armed with the remaining time. -/
theorem fold_rearm (T now c la : Nat) (hle : la ≤ now) (ts : List Timer) : ∀ acc : Tracker × List Nat,
    c ∉ acc.2 → aget (ts.foldl (fireOne T now) acc).1.last c = some la →
    c ∉ (ts.foldl (fireOne T now) acc).2 → (∃ t ∈ ts, t.key = c) →
    ∃ x ∈ (ts.foldl (fireOne T now) acc).1.timers, x.key = c ∧ x.deadline = none ∧ now + x.timeout = la + T := by
  induction ts with
  | nil => intro acc _ _ _ h; obtain ⟨t, ht, _⟩ := h; cases ht
  | cons t rest ih =>
    intro acc hnot hfin hnotfin hex
    simp only [List.foldl] at hfin hnotfin ⊢
    obtain ⟨s1, s2, s3⟩ := fireOne_spec T now acc t c
    have hnot1 : c ∉ (fireOne T now acc t).2 := fun h => hnotfin (fold_out_mono T now c rest _ h)
    have hnex : ¬ Expires T now acc t c := fun h => hnot1 (s1.mpr (Or.inr h))
    have hacc : aget acc.1.last c = some la := by
      have := (fold_spec T now c rest _ hnot1).2 hnotfin
      rw [hfin, s3 hnex] at this; exact this.symm
    by_cases hk : t.key = c
    · have hlt : now - la < T := by
        by_cases hlt : now - la < T
        · exact hlt
        · exact absurd ⟨hk, la, hacc, hlt⟩ hnex
      have hmem : (⟨c, none, T - (now - la)⟩ : Timer) ∈ (fireOne T now acc t).1.timers := by
        unfold fireOne
        rw [hk, hacc]
        simp [hlt]
      exact ⟨_, (fold_timers T now rest _).1 _ hmem, rfl, rfl, by simp only []; omega⟩
    · obtain ⟨t', ht', hk'⟩ := hex
      rcases List.mem_cons.mp ht' with rfl | ht'
      · exact absurd hk' hk
      · exact ih _ hnot1 hfin hnotfin ⟨t', ht', hk'⟩

/-! #### a poll round, the whole poll -/

theorem start_good {T now la : Nat} {t : Timer} (h : Good T now la t) :
    ∃ d, (Timer.start now t).deadline = some d ∧ d ≤ la + T ∧ (Timer.start now t).key = t.key := by
  unfold Good at h
  unfold Timer.start
  cases hd : t.deadline with
  | none => rw [hd] at h; exact ⟨_, rfl, h, rfl⟩
  | some d => rw [hd] at h; exact ⟨d, hd, h, rfl⟩

theorem start_deadline (now : Nat) (t : Timer) (hno : ∀ d, t.deadline = some d → now ≤ d) :
    ∃ d, (Timer.start now t).deadline = some d ∧ now ≤ d := by
  unfold Timer.start
  cases hd : t.deadline with
  | none => exact ⟨_, rfl, by omega⟩
  | some d => exact ⟨d, hd, hno d hd⟩

theorem pollRound_spec (T now c : Nat) (tr : Tracker) :
    (c ∈ (pollRound T now tr).2 →
      (∃ la, aget tr.last c = some la ∧ ¬ now - la < T) ∧ aget (pollRound T now tr).1.last c = none) ∧
    (c ∉ (pollRound T now tr).2 → aget (pollRound T now tr).1.last c = aget tr.last c) := by
  unfold pollRound
  exact fold_spec T now c _ _ (by simp)

/-- All sleeps of the tracker after a round: started and not yet complete, or fresh with a positive
duration. -/
theorem pollRound_timers (T now : Nat) (tr : Tracker) (hno : ∀ t ∈ tr.timers, ∀ d, t.deadline = some d → now ≤ d) :
    ∀ x ∈ (pollRound T now tr).1.timers,
      (∃ d, x.deadline = some d ∧ now < d) ∨ (x.deadline = none ∧ 0 < x.timeout) := by
  intro x hx
  unfold pollRound at hx
  rcases (fold_timers T now _ _).2 x hx with h | h
  · simp only [List.mem_filter, List.mem_map] at h
    obtain ⟨⟨t, ht, rfl⟩, hnf⟩ := h
    obtain ⟨d, hd, _⟩ := start_deadline now t (hno t ht)
    refine Or.inl ⟨d, hd, ?_⟩
    simp only [Timer.fired, hd, Bool.not_eq_true', decide_eq_false_iff_not] at hnf
    omega
  · exact Or.inr h

theorem pollRound_ok (T now : Nat) (tr : Tracker) (h : TrackerOk T now tr) : TrackerOk T now (pollRound T now tr).1 := by
  constructor
  · intro c la hla
    have hnotin : c ∉ (pollRound T now tr).2 := fun hin => by
      rw [((pollRound_spec T now c tr).1 hin).2] at hla; cases hla
    have hold : aget tr.last c = some la := by
      rw [← (pollRound_spec T now c tr).2 hnotin]; exact hla
    obtain ⟨hle, t, ht, hk, hg⟩ := h.tracked c la hold
    refine ⟨hle, ?_⟩
    obtain ⟨d, hd, hdle, hkey⟩ := start_good hg
    have hts : Timer.start now t ∈ tr.timers.map (Timer.start now) := List.mem_map.mpr ⟨t, ht, rfl⟩
    by_cases hf : Timer.fired now (Timer.start now t) = true
    · -- completed: re-armed
      unfold pollRound at hla hnotin ⊢
      have := fold_rearm T now c la hle _ _ (by simp) hla hnotin
        ⟨Timer.start now t, List.mem_filter.mpr ⟨hts, hf⟩, hkey.trans hk⟩
      obtain ⟨x, hx, hxk, hxd, hxt⟩ := this
      refine ⟨x, hx, hxk, ?_⟩
      unfold Good; rw [hxd]; simp only []; omega
    · -- still running
      refine ⟨Timer.start now t, ?_, hkey.trans hk, ?_⟩
      · unfold pollRound
        apply (fold_timers T now _ _).1
        simp only [List.mem_filter]
        exact ⟨hts, by simpa using hf⟩
      · unfold Good; rw [hd]; exact hdle
  · intro x hx d hd
    rcases pollRound_timers T now tr h.notOverdue x hx with ⟨d', hd', hlt⟩ | ⟨hn, _⟩
    · rw [hd] at hd'; cases hd'; omega
    · rw [hd] at hn; cases hn

theorem pollTimers_ok (T now : Nat) (tr : Tracker) (h : TrackerOk T now tr) : TrackerOk T now (pollTimers T now tr).1 := by
  unfold pollTimers
  exact pollRound_ok T now _ (pollRound_ok T now tr h)

/-- What a whole poll does to one key: reported (hence downgraded) only if idle for `T`, and then
forgotten; otherwise its `last_activity` is untouched. -/
theorem pollTimers_spec (T now c : Nat) (tr : Tracker) :
    (c ∈ (pollTimers T now tr).2 →
      (∃ la, aget tr.last c = some la ∧ ¬ now - la < T) ∧ aget (pollTimers T now tr).1.last c = none) ∧
    (c ∉ (pollTimers T now tr).2 → aget (pollTimers T now tr).1.last c = aget tr.last c) := by
  unfold pollTimers
  simp only [List.mem_append]
  obtain ⟨a1, a2⟩ := pollRound_spec T now c tr
  obtain ⟨b1, b2⟩ := pollRound_spec T now c (pollRound T now tr).1
  constructor
  · intro hin
    by_cases h1 : c ∈ (pollRound T now tr).2
    · exact ⟨(a1 h1).1, pollRound_gone T now c _ (a1 h1).2⟩
    · have h2 : c ∈ (pollRound T now (pollRound T now tr).1).2 := by
        rcases hin with h | h
        · exact absurd h h1
        · exact h
      have := b1 h2
      rw [a2 h1] at this
      exact this
  · intro hnot
    have h1 : c ∉ (pollRound T now tr).2 := fun h => hnot (Or.inl h)
    have h2 : c ∉ (pollRound T now (pollRound T now tr).1).2 := fun h => hnot (Or.inr h)
    rw [b2 h2, a2 h1]

/-- After a whole poll every sleep is started and incomplete: nothing is left to do at this instant. -/
theorem pollTimers_settled (T now : Nat) (tr : Tracker) (h : TrackerOk T now tr) :
    ∀ x ∈ (pollTimers T now tr).1.timers, ∃ d, x.deadline = some d ∧ now < d := by
  intro x hx
  unfold pollTimers at hx
  simp only [] at hx
  have h1 := pollRound_timers T now tr h.notOverdue
  -- second round: nothing completes (started ones are incomplete, fresh ones have a positive duration)
  have hnofire : (List.map (Timer.start now) (pollRound T now tr).1.timers).filter (Timer.fired now) = [] := by
    rw [List.filter_eq_nil_iff]
    intro t' ht'
    obtain ⟨t, ht, rfl⟩ := List.mem_map.mp ht'
    rcases h1 t ht with ⟨d, hd, hlt⟩ | ⟨hn, hpos⟩
    · simp [Timer.start, Timer.fired, hd]; omega
    · simp [Timer.start, Timer.fired, hn]; omega
  rw [pollRound, hnofire] at hx
  simp only [List.foldl, List.mem_filter, List.mem_map] at hx
  obtain ⟨⟨t, ht, rfl⟩, _⟩ := hx
  rcases h1 t ht with ⟨d, hd, hlt⟩ | ⟨hn, hpos⟩
  · exact ⟨d, by simp [Timer.start, hd], hlt⟩
  · exact ⟨now + t.timeout, by simp [Timer.start, hn], by omega⟩

end Litep2pVerif.Service.KA
