import Litep2pVerif.Model.Service.KeepAlive
/-! Helper lemmas for C09 (`Props/C09.lean`). -/
namespace Litep2pVerif.Service.KA
open Litep2pVerif.Service

theorem aget_aremove {β : Type} (m : List (Nat × β)) (x y : Nat) :
    aget (aremove m x) y = if y = x then none else aget m y := by
  induction m with
  | nil => simp [aremove, aget]
  | cons h t ih =>
    obtain ⟨k, v⟩ := h
    unfold aremove at ih ⊢
    by_cases hk : k = x
    · subst hk
      simp only [List.filter, bne_self_eq_false]
      rw [ih]
      by_cases hy : y = k
      · simp [hy]
      · have : ¬ k = y := fun h => hy h.symm
        simp [hy, aget, this]
    · have hb : ((k, v).1 != x) = true := by simp [hk]
      simp only [List.filter, hb]
      by_cases hy : y = x
      · subst hy; simp [aget, hk, ih]
      · simp only [aget, ih, hy, if_false]

/-! ### the tracker: one poll round, seen from one key -/

/-- `fireOne` never creates entries and touches only the entry of the timer's key. -/
theorem fireOne_last_other (T now : Nat) (acc : Tracker × List Nat) (t : Timer) (c : Nat) (h : t.key ≠ c) :
    aget (fireOne T now acc t).1.last c = aget acc.1.last c ∧
    (c ∈ (fireOne T now acc t).2 ↔ c ∈ acc.2) := by
  unfold fireOne
  cases aget acc.1.last t.key with
  | none => simp
  | some la =>
    by_cases hlt : now - la < T
    · simp [hlt]
    · have : ¬ c = t.key := fun h' => h h'.symm
      simp [hlt, aget_aremove, this]

/-- Not idle long enough: whatever fires, the entry stays and the key is not reported. -/
theorem fold_keep (T now c la : Nat) (hlt : now - la < T) (ts : List Timer) :
    ∀ acc : Tracker × List Nat, aget acc.1.last c = some la → c ∉ acc.2 →
    aget (ts.foldl (fireOne T now) acc).1.last c = some la ∧ c ∉ (ts.foldl (fireOne T now) acc).2 := by
  induction ts with
  | nil => intro acc h1 h2; exact ⟨h1, h2⟩
  | cons t rest ih =>
    intro acc h1 h2
    simp only [List.foldl]
    by_cases hk : t.key = c
    · apply ih
      · unfold fireOne; rw [hk, h1]; simp [hlt, h1]
      · unfold fireOne; rw [hk, h1]; simp [hlt, h2]
    · obtain ⟨e1, e2⟩ := fireOne_last_other T now acc t c hk
      exact ih _ (e1 ▸ h1) (fun h => h2 (e2.mp h))

/-- Once the entry is gone it stays gone, and a reported key stays reported. -/
theorem fold_gone (T now c : Nat) (ts : List Timer) :
    ∀ acc : Tracker × List Nat, aget acc.1.last c = none →
    aget (ts.foldl (fireOne T now) acc).1.last c = none ∧
    (c ∈ acc.2 → c ∈ (ts.foldl (fireOne T now) acc).2) := by
  induction ts with
  | nil => intro acc h1; exact ⟨h1, id⟩
  | cons t rest ih =>
    intro acc h1
    simp only [List.foldl]
    by_cases hk : t.key = c
    · have : fireOne T now acc t = acc := by unfold fireOne; rw [hk, h1]
      rw [this]; exact ih acc h1
    · obtain ⟨e1, e2⟩ := fireOne_last_other T now acc t c hk
      obtain ⟨r1, r2⟩ := ih _ (e1 ▸ h1)
      exact ⟨r1, fun h => r2 (e2.mpr h)⟩

/-- Idle for `T`: if one of the completed sleeps belongs to `c`, the entry is removed and `c` reported. -/
theorem fold_expire (T now c la : Nat) (hge : ¬ now - la < T) (ts : List Timer) :
    ∀ acc : Tracker × List Nat, aget acc.1.last c = some la → (∃ t ∈ ts, t.key = c) →
    aget (ts.foldl (fireOne T now) acc).1.last c = none ∧ c ∈ (ts.foldl (fireOne T now) acc).2 := by
  induction ts with
  | nil => intro acc _ h; obtain ⟨t, ht, _⟩ := h; cases ht
  | cons t rest ih =>
    intro acc h1 hex
    simp only [List.foldl]
    by_cases hk : t.key = c
    · have hstep : aget (fireOne T now acc t).1.last c = none ∧ c ∈ (fireOne T now acc t).2 := by
        unfold fireOne; rw [hk, h1]; simp [hge, aget_aremove]
      obtain ⟨r1, r2⟩ := fold_gone T now c rest _ hstep.1
      exact ⟨r1, r2 hstep.2⟩
    · obtain ⟨e1, _⟩ := fireOne_last_other T now acc t c hk
      obtain ⟨t', ht', hk'⟩ := hex
      simp only [List.mem_cons] at ht'
      rcases ht' with rfl | ht'
      · exact absurd hk' hk
      · exact ih _ (e1 ▸ h1) ⟨t', ht', hk'⟩


theorem pollRound_keep (T now c la : Nat) (hlt : now - la < T) (tr : Tracker)
    (h : aget tr.last c = some la) :
    aget (pollRound T now tr).1.last c = some la ∧ c ∉ (pollRound T now tr).2 := by
  unfold pollRound
  exact fold_keep T now c la hlt _ _ h (by simp)

theorem pollRound_gone (T now c : Nat) (tr : Tracker) (h : aget tr.last c = none) :
    aget (pollRound T now tr).1.last c = none := by
  unfold pollRound
  exact (fold_gone T now c _ _ h).1

theorem pollRound_expire (T now c la : Nat) (hge : ¬ now - la < T) (tr : Tracker)
    (h : aget tr.last c = some la)
    (ht : ∃ t ∈ tr.timers, t.key = c ∧ ∃ d, t.deadline = some d ∧ d ≤ now) :
    aget (pollRound T now tr).1.last c = none ∧ c ∈ (pollRound T now tr).2 := by
  unfold pollRound
  apply fold_expire T now c la hge _ _ h
  obtain ⟨t, htm, hk, d, hd, hle⟩ := ht
  refine ⟨t, ?_, hk⟩
  simp only [List.mem_filter, List.mem_map]
  refine ⟨⟨t, htm, ?_⟩, ?_⟩
  · simp [Timer.start, hd]
  · simp [Timer.fired, hd, hle]

theorem pollTimers_keep (T now c la : Nat) (hlt : now - la < T) (tr : Tracker)
    (h : aget tr.last c = some la) :
    aget (pollTimers T now tr).1.last c = some la ∧ c ∉ (pollTimers T now tr).2 := by
  unfold pollTimers
  obtain ⟨a1, a2⟩ := pollRound_keep T now c la hlt tr h
  obtain ⟨b1, b2⟩ := pollRound_keep T now c la hlt _ a1
  exact ⟨b1, by simp [a2, b2]⟩

theorem pollTimers_expire (T now c la : Nat) (hge : ¬ now - la < T) (tr : Tracker)
    (h : aget tr.last c = some la)
    (ht : ∃ t ∈ tr.timers, t.key = c ∧ ∃ d, t.deadline = some d ∧ d ≤ now) :
    aget (pollTimers T now tr).1.last c = none ∧ c ∈ (pollTimers T now tr).2 := by
  unfold pollTimers
  obtain ⟨a1, a2⟩ := pollRound_expire T now c la hge tr h ht
  exact ⟨pollRound_gone T now c _ a1, by simp [a2]⟩

/-! ### handles -/

def ctxHolds (ctx : KCtx) (c : Nat) : Nat :=
  (if ctx.primary.id = c ∧ ctx.primary.active then 1 else 0) +
  (match ctx.secondary with | some h => if h.id = c ∧ h.active then 1 else 0 | none => 0)

theorem holds_eq (s : Svc) (c : Nat) : s.holds c = (s.conns.map fun e => ctxHolds e.2 c).sum := rfl

/-- Slots hold different connections. -/
def Distinct (ctx : KCtx) : Prop := ∀ h, ctx.secondary = some h → h.id ≠ ctx.primary.id

theorem downgrade_other (ctx : KCtx) (c d : Nat) (h : d ≠ c) :
    ctxHolds (ctx.downgrade d) c = ctxHolds ctx c := by
  obtain ⟨⟨pid, pact⟩, sec⟩ := ctx
  unfold KCtx.downgrade ctxHolds
  by_cases hp : pid = d
  · have : ¬ pid = c := fun h' => h (hp ▸ h')
    simp [hp, Handle.close]
    subst hp; simp [this]
  · cases sec with
    | none => simp [hp]
    | some s =>
      obtain ⟨sid, sact⟩ := s
      by_cases hs : sid = d
      · have : ¬ sid = c := fun h' => h (hs ▸ h')
        simp [hp, hs, Handle.close]
        subst hs; simp [this]
      · simp [hp, hs]

theorem downgrade_self (ctx : KCtx) (c : Nat) (hd : Distinct ctx) :
    ctxHolds (ctx.downgrade c) c = 0 := by
  obtain ⟨⟨pid, pact⟩, sec⟩ := ctx
  unfold KCtx.downgrade ctxHolds
  by_cases hp : pid = c
  · cases sec with
    | none => simp [hp, Handle.close]
    | some s =>
      have := hd s rfl
      simp only at this
      have : ¬ s.id = c := fun h' => this (h'.trans hp.symm)
      simp [hp, Handle.close, this]
  · cases sec with
    | none => simp [hp]
    | some s =>
      obtain ⟨sid, sact⟩ := s
      by_cases hs : sid = c
      · simp [hp, hs, Handle.close]
      · simp [hp, hs]

theorem downgrade_distinct (ctx : KCtx) (d : Nat) (hd : Distinct ctx) : Distinct (ctx.downgrade d) := by
  obtain ⟨⟨pid, pact⟩, sec⟩ := ctx
  unfold KCtx.downgrade Distinct at *
  by_cases hp : pid = d
  · simpa [hp, Handle.close] using hd
  · cases sec with
    | none => simp [hp]
    | some s =>
      by_cases hs : s.id = d
      · simp only [hp, hs, if_false, if_true, Option.some.injEq, Handle.close]
        rintro h rfl
        exact hs ▸ hd s rfl
      · simpa [hp, hs] using hd

theorem sum_map_eq {α : Type} (f g : α → Nat) (l : List α) (h : ∀ x ∈ l, f x = g x) :
    (l.map f).sum = (l.map g).sum := by
  induction l with
  | nil => rfl
  | cons a t ih =>
    simp only [List.map, List.sum_cons]
    rw [h a (List.mem_cons_self ..), ih (fun x hx => h x (List.mem_cons_of_mem _ hx))]

theorem sum_map_zero {α : Type} (l : List α) : (l.map fun _ => 0).sum = 0 := by
  induction l with
  | nil => rfl
  | cons a t ih => simpa using ih

theorem downgradeAll_fold (keys : List Nat) (c : Nat) : ∀ (conns : List (Nat × KCtx)),
    (∀ e ∈ conns, Distinct e.2) →
    ((keys.foldl downgradeAll conns).map fun e => ctxHolds e.2 c).sum =
      if c ∈ keys then 0 else (conns.map fun e => ctxHolds e.2 c).sum := by
  induction keys with
  | nil => intro conns _; simp
  | cons d rest ih =>
    intro conns hd
    simp only [List.foldl]
    have hd' : ∀ e ∈ downgradeAll conns d, Distinct e.2 := by
      intro e he
      simp only [downgradeAll, List.mem_map] at he
      obtain ⟨e0, he0, rfl⟩ := he
      exact downgrade_distinct _ _ (hd e0 he0)
    rw [ih _ hd']
    by_cases hc : c ∈ rest
    · simp [hc]
    · by_cases hdc : d = c
      · subst hdc
        simp only [hc, if_false, List.mem_cons, true_or, if_true]
        simp only [downgradeAll, List.map_map]
        have : ∀ e ∈ conns, ((fun e => ctxHolds e.2 d) ∘ fun e : Nat × KCtx => (e.1, e.2.downgrade d)) e = (fun _ => 0) e := by
          intro e he; simp [downgrade_self _ _ (hd e he)]
        rw [sum_map_eq _ _ _ this]
        exact sum_map_zero conns
      · have hne : ¬ c = d := fun h => hdc h.symm
        simp only [hc, if_false, List.mem_cons, hne, or_self]
        simp only [downgradeAll, List.map_map]
        apply sum_map_eq
        intro e _
        simp [downgrade_other _ _ _ hdc]



theorem poll_holds (s : Svc) (c now : Nat) (hd : ∀ e ∈ s.conns, Distinct e.2) :
    (s.pollKeepAlive now).holds c =
      if c ∈ (pollTimers s.T now s.tr).2 then 0 else s.holds c := by
  simp only [holds_eq, Svc.pollKeepAlive]
  exact downgradeAll_fold _ c s.conns hd

/-- The protocol tracks `c` (entry `la`) and a started sleep for it completes by `la + T`. -/
def Armed (svc : Svc) (c now : Nat) : Prop :=
  ∃ la, aget svc.tr.last c = some la ∧ la ≤ now ∧
    ∃ t ∈ svc.tr.timers, t.key = c ∧ ∃ d, t.deadline = some d ∧ d ≤ la + svc.T

theorem svc_poll_armed (s : Svc) (c now la : Nat) (hd : ∀ e ∈ s.conns, Distinct e.2)
    (hla : aget s.tr.last c = some la) (hle : la ≤ now)
    (ht : ∃ t ∈ s.tr.timers, t.key = c ∧ ∃ d, t.deadline = some d ∧ d ≤ la + s.T) :
    (now < la + s.T → (s.pollKeepAlive now).holds c = s.holds c) ∧
    (la + s.T ≤ now → (s.pollKeepAlive now).holds c = 0) := by
  rw [poll_holds s c now hd]
  constructor
  · intro hlt
    have : now - la < s.T := by omega
    simp [(pollTimers_keep s.T now c la this s.tr hla).2]
  · intro hge
    have h1 : ¬ now - la < s.T := by omega
    obtain ⟨t, htm, hk, d, hdl, hdle⟩ := ht
    have := (pollTimers_expire s.T now c la h1 s.tr hla ⟨t, htm, hk, d, hdl, by omega⟩).2
    simp [this]

theorem svc_poll_le (s : Svc) (c now : Nat) (hd : ∀ e ∈ s.conns, Distinct e.2) :
    (s.pollKeepAlive now).holds c ≤ s.holds c := by
  rw [poll_holds s c now hd]; split <;> omega

theorem sum_zero_iff (l : List Nat) : l.sum = 0 ↔ ∀ x ∈ l, x = 0 := by
  induction l with
  | nil => simp
  | cons a t ih => simp [List.sum_cons, ih]

theorem le_sum_of_mem (l : List Nat) (x : Nat) (h : x ∈ l) : x ≤ l.sum := by
  induction l with
  | nil => cases h
  | cons a t ih =>
    simp only [List.mem_cons] at h
    simp only [List.sum_cons]
    rcases h with rfl | h
    · omega
    · have := ih h; omega

/-- A substream of a keep-alive protocol on `c` exists or is being opened (or any other permit
carrier is around). -/
def Busy (s : Sys) (c : Nat) : Prop :=
  (∃ x ∈ s.queue, x.conn = c) ∨ (∃ x ∈ s.nego, x.conn = c) ∨
  (∃ i p d life, (i, Msg.subOpened p d c life) ∈ s.inbox) ∨ (∃ i, (i, c, true) ∈ s.subs)

theorem busy_permits (s : Sys) (c : Nat) (h : Busy s c) : 0 < permits s c := by
  unfold permits
  rcases h with ⟨x, hx, hc⟩ | ⟨x, hx, hc⟩ | ⟨i, p, d, life, hm⟩ | ⟨i, hm⟩
  · have : x ∈ s.queue.filter (fun x => x.conn == c) := List.mem_filter.mpr ⟨hx, by simp [hc]⟩
    have := List.length_pos_of_mem this; omega
  · have : x ∈ s.nego.filter (fun x => x.conn == c) := List.mem_filter.mpr ⟨hx, by simp [hc]⟩
    have := List.length_pos_of_mem this; omega
  · have hmem : msgHolds c (Msg.subOpened p d c life) ∈ s.inbox.map (fun m => msgHolds c m.2) :=
      List.mem_map.mpr ⟨_, hm, rfl⟩
    have h1 := le_sum_of_mem _ _ hmem
    have h2 : 1 ≤ msgHolds c (Msg.subOpened p d c life) := by cases life <;> simp [msgHolds]
    omega
  · have : (i, c, true) ∈ s.subs.filter (fun x => x.2.1 == c && x.2.2) :=
      List.mem_filter.mpr ⟨hm, by simp⟩
    have := List.length_pos_of_mem this; omega

theorem permits_tick (s : Sys) (dt c : Nat) : permits (s.advance dt).pollAll c = permits s c := rfl

theorem busy_tick (s : Sys) (dt c : Nat) (h : Busy s c) : Busy (s.advance dt).pollAll c := h

theorem handles_eq (svcs : List Svc) (c : Nat) : handles svcs c = (svcs.map (·.holds c)).sum := rfl



theorem exits_pollAll (s : Sys) (c : Nat) (hperm : permits s c = 0) :
    exits s.pollAll c = true ↔ ∀ svc ∈ s.svcs, (svc.pollKeepAlive s.now).holds c = 0 := by
  have hp : permits s.pollAll c = 0 := hperm
  have hs : s.pollAll.svcs = s.svcs.map (fun svc => svc.pollKeepAlive s.now) := rfl
  unfold exits strong
  rw [hp, handles_eq, hs, Nat.add_zero, beq_iff_eq, sum_zero_iff]
  constructor
  · intro h svc hsvc
    exact h _ (List.mem_map.mpr ⟨_, List.mem_map.mpr ⟨svc, hsvc, rfl⟩, rfl⟩)
  · intro h x hx
    obtain ⟨y, hy, rfl⟩ := List.mem_map.mp hx
    obtain ⟨svc, hsvc, rfl⟩ := List.mem_map.mp hy
    exact h svc hsvc

end Litep2pVerif.Service.KA
