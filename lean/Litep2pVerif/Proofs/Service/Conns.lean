import Litep2pVerif.Model.Service.Order
/-!
Helper lemmas and invariants for C08 (`Props/C08.lean`).
-/
namespace Litep2pVerif.Service

/-! ### association list -/

theorem cget_cremove (m : ConnMap) (p q : Peer) :
    cget (cremove m p) q = if q = p then none else cget m q := by
  induction m with
  | nil => simp [cremove, cget]
  | cons h t ih =>
    obtain ⟨k, c⟩ := h
    unfold cremove at ih ⊢
    by_cases hk : k = p
    · subst hk
      simp only [List.filter, bne_self_eq_false]
      rw [ih]
      by_cases hq : q = k
      · simp [hq]
      · have : ¬ k = q := fun h => hq h.symm
        simp [hq, cget, this]
    · have hb : ((k, c).1 != p) = true := by simp [hk]
      simp only [List.filter, hb]
      by_cases hq : q = p
      · subst hq
        simp [cget, hk, ih]
      · simp only [cget, ih, hq, if_false]

theorem cget_cput (m : ConnMap) (p q : Peer) (c : Ctx) :
    cget (cput m p c) q = if p = q then some c else cget m q := by
  unfold cput
  by_cases h : p = q
  · simp [cget, h]
  · have : ¬ q = p := fun h' => h h'.symm
    simp [cget, h, cget_cremove, this]

theorem connected_def (s : State) (p : Peer) : connected s p = (cget s.conns p).isSome := rfl

/-! ### alternation -/

/-- What one step contributes to the per-peer connection events, in terms of `connected`. -/
theorem step_conn (s : State) (op : Op) (p : Peer) :
    (connEvents p [(step s op).2] = [] ∧ connected (step s op).1 p = connected s p) ∨
    (connEvents p [(step s op).2] = [true] ∧ connected s p = false ∧ connected (step s op).1 p = true) ∨
    (connEvents p [(step s op).2] = [false] ∧ connected s p = true ∧ connected (step s op).1 p = false) := by
  cases op with
  | otherAlloc n => left; simp [step, connEvents, connected]
  | managerCall => left; simp [step, connEvents]
  | forceClose q sec prim =>
    left
    simp only [step, forceClose]
    cases cget s.conns q <;> simp [connEvents]
  | «open» q permit send =>
    left
    simp only [step, openSubstream]
    cases hq : cget s.conns q with
    | none => simp [connEvents]
    | some ctx =>
      by_cases hp : permit = false
      · simp [hp, connEvents]
      · cases send <;> simp [hp, connEvents, connected]
  | inner e =>
    cases e with
    | subOpened q d c => left; simp [step, pollEvent, connEvents]
    | subFailed sid => left; simp [step, pollEvent, connEvents]
    | dialFailure q => left; simp [step, pollEvent, connEvents]
    | established q c =>
      simp only [step, pollEvent, onEstablished]
      cases hq : cget s.conns q with
      | none =>
        by_cases hpq : q = p
        · subst hpq
          right; left
          simp [connEvents, connected, hq, cget_cput]
        · left
          simp [connEvents, connected, hpq, cget_cput]
      | some ctx =>
        left
        obtain ⟨a, sec⟩ := ctx
        cases sec with
        | some b => simp [connEvents]
        | none =>
          by_cases hpq : q = p
          · subst hpq; simp [connEvents, connected, cget_cput, hq]
          · simp [connEvents, connected, cget_cput, hpq]
    | closed q c =>
      simp only [step, pollEvent, onClosed]
      cases hq : cget s.conns q with
      | none => left; simp [connEvents]
      | some ctx =>
        obtain ⟨a, sec⟩ := ctx
        by_cases hc : a = c
        · cases sec with
          | none =>
            by_cases hpq : q = p
            · subst hpq
              right; right
              simp [hc, connEvents, connected, hq, cget_cremove]
            · left
              have : ¬ p = q := fun h => hpq h.symm
              simp [hc, connEvents, connected, hpq, cget_cremove, this]
          | some b =>
            left
            by_cases hpq : q = p
            · subst hpq; simp [hc, connEvents, connected, cget_cput, hq]
            · simp [hc, connEvents, connected, cget_cput, hpq]
        · left
          by_cases hpq : q = p
          · subst hpq; simp [hc, connEvents, connected, cget_cput, hq]
          · simp [hc, connEvents, connected, cget_cput, hpq]

theorem connEvents_cons (p : Peer) (o : Obs) (l : List Obs) :
    connEvents p (o :: l) = connEvents p [o] ++ connEvents p l := by
  cases o with
  | ev e => cases e <;> simp [connEvents] <;> split <;> simp
  | _ => simp [connEvents]

theorem alternation_gen (p : Peer) (ops : List Op) : ∀ s : State,
    alternates (!(connected s p)) (connEvents p (trace s ops)) = true := by
  induction ops with
  | nil => intro s; simp [trace, connEvents, alternates]
  | cons op rest ih =>
    intro s
    simp only [trace]
    rw [connEvents_cons]
    have ih' := ih (step s op).1
    rcases step_conn s op p with ⟨h1, h2⟩ | ⟨h1, h2, h3⟩ | ⟨h1, h2, h3⟩
    · rw [h1, ← h2]; simpa using ih'
    · rw [h1, h2]; rw [h3] at ih'; simpa [alternates] using ih'
    · rw [h1, h2]; rw [h3] at ih'; simpa [alternates] using ih'


/-! ### identifiers -/

theorem step_nextSub_le (s : State) (op : Op) : s.nextSub ≤ (step s op).1.nextSub := by
  cases op with
  | otherAlloc n => simp [step]
  | managerCall => simp [step]
  | forceClose q sec prim =>
    simp only [step, forceClose]
    cases cget s.conns q <;> simp
  | «open» q permit send =>
    simp only [step, openSubstream]
    cases cget s.conns q with
    | none => simp
    | some ctx =>
      by_cases hp : permit = false
      · simp [hp]
      · cases send <;> simp [hp]
  | inner e =>
    cases e with
    | subOpened q d c => simp [step, pollEvent]
    | subFailed sid => simp [step, pollEvent]
    | dialFailure q => simp [step, pollEvent]
    | established q c =>
      simp only [step, pollEvent, onEstablished]
      cases cget s.conns q with
      | none => simp
      | some ctx => obtain ⟨a, sec⟩ := ctx; cases sec <;> simp
    | closed q c =>
      simp only [step, pollEvent, onClosed]
      cases cget s.conns q with
      | none => simp
      | some ctx =>
        obtain ⟨a, sec⟩ := ctx
        by_cases hc : a = c
        · cases sec <;> simp [hc]
        · simp [hc]

/-- An accepted open returns the current counter value, targets the primary connection of a
connected peer, and advances the counter. -/
theorem step_openOk (s : State) (op : Op) (sid : Nat) (c : Nat)
    (h : (step s op).2 = .openOk sid c) :
    sid = s.nextSub ∧ (step s op).1.nextSub = sid + 1 ∧ (step s op).1.conns = s.conns ∧
    ∃ p permit send ctx, op = .open p permit send ∧ cget s.conns p = some ctx ∧ ctx.primary = c := by
  cases op with
  | otherAlloc n => simp [step] at h
  | managerCall => simp [step] at h
  | forceClose q sec prim => simp [step] at h
  | inner e =>
    simp only [step] at h
    split at h <;> simp at h
  | «open» q permit send =>
    simp only [step, openSubstream] at h ⊢
    cases hq : cget s.conns q with
    | none => simp [hq] at h
    | some ctx =>
      by_cases hp : permit = false
      · simp [hq, hp] at h
      · cases send <;> simp [hq, hp] at h
        obtain ⟨h1, h2⟩ := h
        refine ⟨h1.symm, by simp [hp, h1], by simp [hp], q, permit, .ok, ctx, rfl, hq, h2⟩

theorem accepted_ge (ops : List Op) : ∀ (s : State), ∀ sid ∈ acceptedIds (trace s ops), s.nextSub ≤ sid := by
  induction ops with
  | nil => intro s sid h; simp [trace, acceptedIds] at h
  | cons op rest ih =>
    intro s sid h
    simp only [trace] at h
    have hle := step_nextSub_le s op
    cases ho : (step s op).2 with
    | openOk sid' c =>
      rw [ho] at h
      simp only [acceptedIds, List.mem_cons] at h
      obtain ⟨h1, h2, _⟩ := step_openOk s op sid' c ho
      rcases h with rfl | h
      · omega
      · have := ih _ sid h; omega
    | silent => rw [ho] at h; simp only [acceptedIds] at h; have := ih _ sid h; omega
    | ev e => rw [ho] at h; simp only [acceptedIds] at h; have := ih _ sid h; omega
    | openErr e => rw [ho] at h; simp only [acceptedIds] at h; have := ih _ sid h; omega
    | force r cs => rw [ho] at h; simp only [acceptedIds] at h; have := ih _ sid h; omega

theorem ids_fresh_gen (ops : List Op) : ∀ (s : State),
    (acceptedIds (trace s ops)).Pairwise (· < ·) := by
  induction ops with
  | nil => intro s; simp [trace, acceptedIds]
  | cons op rest ih =>
    intro s
    simp only [trace]
    cases ho : (step s op).2 with
    | openOk sid' c =>
      simp only [acceptedIds, List.pairwise_cons]
      obtain ⟨h1, h2, _⟩ := step_openOk s op sid' c ho
      have h2' : (step s op).1.nextSub = (sid' : Nat) + 1 := h2
      refine ⟨fun x hx => ?_, ih _⟩
      have := accepted_ge rest _ x hx
      show sid' < x
      omega
    | silent => simpa [acceptedIds] using ih _
    | ev e => simpa [acceptedIds] using ih _
    | openErr e => simpa [acceptedIds] using ih _
    | force r cs => simpa [acceptedIds] using ih _



/-! ### the invariant tying the service to its environment -/

/-- In connection `ctx`? -/
def Ctx.has (ctx : Ctx) (c : Nat) : Prop := ctx.primary = c ∨ ctx.secondary = some c

structure Inv (e : Env) (s : State) : Prop where
  /-- the service's table holds exactly the live connections -/
  connIff : ∀ p c, (p, c) ∈ e.live ↔ ∃ ctx, cget s.conns p = some ctx ∧ ctx.has c
  liveUsed : ∀ p c, (p, c) ∈ e.live → c ∈ e.used
  distinct : ∀ p ctx, cget s.conns p = some ctx → ctx.secondary ≠ some ctx.primary
  outLive : ∀ sid p c, (sid, p, c) ∈ e.outstanding → (p, c) ∈ e.live
  outLt : ∀ x ∈ e.outstanding, x.1 < s.nextSub
  outNodup : (outstandingIds e).Nodup

theorem inv_init : Inv {} {} := by
  constructor <;> simp [cget, outstandingIds, Ctx.has]

theorem two_le_filter {α : Type} (P : α → Bool) (x y : α) : ∀ (l : List α),
    x ∈ l → y ∈ l → x ≠ y → P x = true → P y = true → 2 ≤ (l.filter P).length := by
  intro l
  induction l with
  | nil => intro hx; simp at hx
  | cons h t ih =>
    intro hx hy hne hpx hpy
    simp only [List.mem_cons] at hx hy
    rcases hx with rfl | hx
    · rcases hy with rfl | hy
      · exact absurd rfl hne
      · have : y ∈ t.filter P := List.mem_filter.mpr ⟨hy, hpy⟩
        have := List.length_pos_of_mem this
        simp [List.filter, hpx]; omega
    · rcases hy with rfl | hy
      · have : x ∈ t.filter P := List.mem_filter.mpr ⟨hx, hpx⟩
        have := List.length_pos_of_mem this
        simp [List.filter, hpy]; omega
      · have := ih hx hy hne hpx hpy
        by_cases hh : P h = true
        · simp [List.filter, hh]; omega
        · simp [List.filter, hh]; omega

theorem nodup_filter_map {α β : Type} (f : α → β) (P : α → Bool) (l : List α)
    (h : (l.map f).Nodup) : ((l.filter P).map f).Nodup := by
  induction l with
  | nil => simp
  | cons a t ih =>
    simp only [List.map, List.nodup_cons] at h
    by_cases hp : P a = true
    · simp only [List.filter, hp, List.map, List.nodup_cons]
      refine ⟨fun hm => h.1 ?_, ih h.2⟩
      obtain ⟨b, hb, hfb⟩ := List.mem_map.mp hm
      exact List.mem_map.mpr ⟨b, (List.mem_filter.mp hb).1, hfb⟩
    · simp only [List.filter, hp]; exact ih h.2



theorem inv_otherAlloc {e : Env} {s : State} (h : Inv e s) (n : Nat) :
    Inv (envStep e (.otherAlloc n) (step s (.otherAlloc n)).2) (step s (.otherAlloc n)).1 := by
  have he : envStep e (.otherAlloc n) (step s (.otherAlloc n)).2 = e := by simp [envStep]
  rw [he]
  exact { h with outLt := fun x hx => by have := h.outLt x hx; simp [step]; omega }

theorem inv_open {e : Env} {s : State} (h : Inv e s) (p : Nat) (permit : Bool) (send : SendRes) :
    Inv (envStep e (.open p permit send) (step s (.open p permit send)).2) (step s (.open p permit send)).1 := by
  have hconns : (step s (.open p permit send)).1.conns = s.conns := by
    simp only [step, openSubstream]
    cases cget s.conns p with
    | none => simp
    | some ctx => by_cases hp : permit = false <;> cases send <;> simp [hp]
  have hle := step_nextSub_le s (.open p permit send)
  cases ho : (step s (.open p permit send)).2 with
  | openOk sid c =>
    obtain ⟨h1, h2, _, p', permit', send', ctx, hop, hctx, hprim⟩ := step_openOk s _ sid c ho
    injection hop with hp' _ _
    subst hp'
    have he : envStep e (.open p permit send) (.openOk sid c) = { e with outstanding := (sid, p, c) :: e.outstanding } := by
      simp [envStep]
    rw [he]
    refine ⟨?_, h.liveUsed, ?_, ?_, ?_, ?_⟩
    · intro q d; rw [hconns]; exact h.connIff q d
    · intro q ctx'; rw [hconns]; exact h.distinct q ctx'
    · intro sid' q d hm
      simp only [List.mem_cons, Prod.mk.injEq] at hm
      rcases hm with ⟨_, rfl, rfl⟩ | hm
      · exact (h.connIff _ _).mpr ⟨ctx, hctx, Or.inl hprim⟩
      · exact h.outLive _ _ _ hm
    · intro x hx
      simp only [List.mem_cons] at hx
      rcases hx with rfl | hx
      · simp only; omega
      · have := h.outLt x hx; omega
    · simp only [outstandingIds, List.map, List.nodup_cons]
      refine ⟨fun hm => ?_, h.outNodup⟩
      obtain ⟨x, hx, hxe⟩ := List.mem_map.mp hm
      have := h.outLt x hx
      omega
  | silent => 
    have he : envStep e (.open p permit send) .silent = e := by simp [envStep]
    rw [he]
    exact ⟨fun q d => by rw [hconns]; exact h.connIff q d, h.liveUsed,
      fun q c => by rw [hconns]; exact h.distinct q c, h.outLive,
      fun x hx => by have := h.outLt x hx; omega, h.outNodup⟩
  | ev ev => 
    have he : envStep e (.open p permit send) (.ev ev) = e := by simp [envStep]
    rw [he]
    exact ⟨fun q d => by rw [hconns]; exact h.connIff q d, h.liveUsed,
      fun q c => by rw [hconns]; exact h.distinct q c, h.outLive,
      fun x hx => by have := h.outLt x hx; omega, h.outNodup⟩
  | openErr err => 
    have he : envStep e (.open p permit send) (.openErr err) = e := by simp [envStep]
    rw [he]
    exact ⟨fun q d => by rw [hconns]; exact h.connIff q d, h.liveUsed,
      fun q c => by rw [hconns]; exact h.distinct q c, h.outLive,
      fun x hx => by have := h.outLt x hx; omega, h.outNodup⟩
  | force r cs => 
    have he : envStep e (.open p permit send) (.force r cs) = e := by simp [envStep]
    rw [he]
    exact ⟨fun q d => by rw [hconns]; exact h.connIff q d, h.liveUsed,
      fun q c => by rw [hconns]; exact h.distinct q c, h.outLive,
      fun x hx => by have := h.outLt x hx; omega, h.outNodup⟩



theorem inv_filter_out {e : Env} {s : State} (h : Inv e s) (P : Nat × Nat × Nat → Bool) :
    Inv { e with outstanding := e.outstanding.filter P } s :=
  ⟨h.connIff, h.liveUsed, h.distinct,
   fun sid p c hm => h.outLive sid p c (List.mem_filter.mp hm).1,
   fun x hx => h.outLt x (List.mem_filter.mp hx).1,
   nodup_filter_map _ _ _ h.outNodup⟩

theorem inv_sub {e : Env} {s : State} (h : Inv e s) (ev : Inner)
    (hev : (∃ p d c, ev = .subOpened p d c) ∨ (∃ sid, ev = .subFailed sid) ∨ (∃ p, ev = .dialFailure p)) :
    Inv (envStep e (.inner ev) (step s (.inner ev)).2) (step s (.inner ev)).1 := by
  rcases hev with ⟨p, d, c, rfl⟩ | ⟨sid, rfl⟩ | ⟨p, rfl⟩
  · have hs : (step s (.inner (.subOpened p d c))).1 = s := by simp [step, pollEvent]
    rw [hs]
    cases d with
    | none => simpa [envStep] using h
    | some sid => simpa [envStep] using inv_filter_out h _
  · have hs : (step s (.inner (.subFailed sid))).1 = s := by simp [step, pollEvent]
    rw [hs]
    simpa [envStep] using inv_filter_out h _
  · have hs : (step s (.inner (.dialFailure p))).1 = s := by simp [step, pollEvent]
    rw [hs]
    simpa [envStep] using h

theorem inv_established {e : Env} {s : State} (h : Inv e s) (p c : Nat)
    (hok : envOk e (.inner (.established p c)) = true) :
    Inv (envStep e (.inner (.established p c)) (step s (.inner (.established p c))).2)
      (step s (.inner (.established p c))).1 := by
  simp only [envOk, Bool.and_eq_true, Bool.not_eq_true', decide_eq_true_eq] at hok
  obtain ⟨hfresh, hcount⟩ := hok
  have hfresh : c ∉ e.used := by simpa using hfresh
  have he : ∀ o, envStep e (.inner (.established p c)) o =
      { e with live := (p, c) :: e.live, used := c :: e.used } := by intro o; simp [envStep]
  rw [he]
  have hnext : (step s (.inner (.established p c))).1.nextSub = s.nextSub := by
    simp only [step, pollEvent, onEstablished]
    cases cget s.conns p with
    | none => simp
    | some ctx => obtain ⟨a, sec⟩ := ctx; cases sec <;> simp
  have hlu : ∀ q d, (q, d) ∈ (p, c) :: e.live → d ∈ c :: e.used := by
    intro q d hm
    simp only [List.mem_cons, Prod.mk.injEq] at hm ⊢
    rcases hm with ⟨_, rfl⟩ | hm
    · exact Or.inl rfl
    · exact Or.inr (h.liveUsed _ _ hm)
  have hol : ∀ sid q d, (sid, q, d) ∈ e.outstanding → (q, d) ∈ (p, c) :: e.live :=
    fun sid q d hm => List.mem_cons_of_mem _ (h.outLive sid q d hm)
  have holt : ∀ x ∈ e.outstanding, x.1 < (step s (.inner (.established p c))).1.nextSub := by
    intro x hx; rw [hnext]; exact h.outLt x hx
  refine ⟨?_, hlu, ?_, hol, holt, h.outNodup⟩
  · -- connIff
    intro q d
    simp only [step, pollEvent, onEstablished]
    cases hq : cget s.conns p with
    | none =>
      simp only [cget_cput, List.mem_cons, Prod.mk.injEq]
      by_cases hpq : p = q
      · subst hpq
        have hnot : (p, d) ∉ e.live := fun hm => by
          obtain ⟨ctx, hc, _⟩ := (h.connIff p d).mp hm
          rw [hq] at hc; cases hc
        simp [Ctx.has, hnot, eq_comm]
      · have : ¬ q = p := fun h' => hpq h'.symm
        simp [hpq, this, h.connIff q d]
    | some ctx =>
      obtain ⟨a, sec⟩ := ctx
      cases sec with
      | some b =>
        -- third connection: impossible, two connections to `p` are already live
        exfalso
        have ha : (p, a) ∈ e.live := (h.connIff p a).mpr ⟨_, hq, Or.inl rfl⟩
        have hb : (p, b) ∈ e.live := (h.connIff p b).mpr ⟨_, hq, Or.inr rfl⟩
        have hne : (p, a) ≠ (p, b) := by
          intro heq
          have : a = b := (Prod.mk.injEq _ _ _ _ ▸ heq).2
          exact h.distinct p _ hq (by simp [this])
        have := two_le_filter (fun x : Nat × Nat => x.1 == p) _ _ e.live ha hb hne (by simp) (by simp)
        unfold liveCount at hcount
        omega
      | none =>
        simp only [cget_cput, List.mem_cons, Prod.mk.injEq]
        by_cases hpq : p = q
        · subst hpq
          have := h.connIff p d
          rw [hq] at this
          simp only [Option.some.injEq, exists_eq_left', Ctx.has] at this
          simp [Ctx.has, this, eq_comm, or_comm]
        · have : ¬ q = p := fun h' => hpq h'.symm
          simp [hpq, this, h.connIff q d]
  · -- distinct
    intro q ctx'
    simp only [step, pollEvent, onEstablished]
    cases hq : cget s.conns p with
    | none =>
      simp only [cget_cput]
      by_cases hpq : p = q
      · simp [hpq]; rintro rfl; simp
      · simp only [hpq, if_false]; exact h.distinct q ctx'
    | some ctx =>
      obtain ⟨a, sec⟩ := ctx
      cases sec with
      | some b => exact h.distinct q ctx'
      | none =>
        simp only [cget_cput]
        by_cases hpq : p = q
        · simp only [hpq, if_true, Option.some.injEq]
          rintro rfl
          simp only [ne_eq, Option.some.injEq]
          intro hca
          have ha : (p, a) ∈ e.live := (h.connIff p a).mpr ⟨_, hq, Or.inl rfl⟩
          exact hfresh (hca ▸ h.liveUsed _ _ ha)
        · simp only [hpq, if_false]; exact h.distinct q ctx'



theorem inv_closed {e : Env} {s : State} (h : Inv e s) (p c : Nat)
    (hok : envOk e (.inner (.closed p c)) = true) :
    Inv (envStep e (.inner (.closed p c)) (step s (.inner (.closed p c))).2)
      (step s (.inner (.closed p c))).1 := by
  simp only [envOk, List.contains_iff_mem] at hok
  have he : ∀ o, envStep e (.inner (.closed p c)) o =
      { e with live := e.live.filter (fun x => x != (p, c)),
               outstanding := e.outstanding.filter (fun x => x.2.2 != c),
               closedConns := c :: e.closedConns } := by intro o; simp [envStep]
  rw [he]
  obtain ⟨ctx, hq, hhas⟩ := (h.connIff p c).mp hok
  have hnext : (step s (.inner (.closed p c))).1.nextSub = s.nextSub := by
    simp only [step, pollEvent, onClosed, hq]
    obtain ⟨a, sec⟩ := ctx
    by_cases hc : a = c
    · cases sec <;> simp [hc]
    · simp [hc]
  have hmemf : ∀ q d, (q, d) ∈ e.live.filter (fun x => x != (p, c)) ↔ (q, d) ∈ e.live ∧ ¬ (q = p ∧ d = c) := by
    intro q d; simp [List.mem_filter]
  refine ⟨?_, ?_, ?_, ?_, ?_, ?_⟩
  · -- connIff
    intro q d
    rw [hmemf]
    simp only [step, pollEvent, onClosed, hq]
    obtain ⟨a, sec⟩ := ctx
    have hdist := h.distinct p _ hq
    by_cases hpq : q = p
    · subst hpq
      have hl := h.connIff q d
      rw [hq] at hl
      simp only [Option.some.injEq, exists_eq_left', Ctx.has] at hl
      by_cases hc : a = c
      · subst hc
        cases sec with
        | none =>
          simp only [if_true, cget_cremove]
          simp [hl]
          intro h1; exact h1.symm
        | some b =>
          simp only [if_true, cget_cput, Ctx.has]
          simp only [ne_eq, Option.some.injEq] at hdist
          simp only [Option.some.injEq] at hl
          simp only [hl, true_and, Option.some.injEq, exists_eq_left']
          constructor
          · rintro ⟨h1 | h1, h2⟩
            · exact absurd h1.symm h2
            · exact Or.inl h1
          · rintro (h1 | h1)
            · exact ⟨Or.inr h1, fun h2 => hdist (h1.trans h2)⟩
            · cases h1
      · simp only [hc, if_false, cget_cput, Ctx.has]
        simp only [Ctx.has] at hhas
        have hsec : sec = some c := by rcases hhas with h1 | h1; exact absurd h1 hc; exact h1
        subst hsec
        simp only [Option.some.injEq] at hl
        simp only [hl, true_and, if_true, Option.some.injEq, exists_eq_left']
        constructor
        · rintro ⟨h1 | h1, h2⟩
          · exact Or.inl h1
          · exact absurd h1.symm h2
        · rintro (h1 | h1)
          · exact ⟨Or.inl h1, fun h2 => hc (h1.trans h2)⟩
          · cases h1
    · have hl := h.connIff q d
      have hnp : ¬ p = q := fun h' => hpq h'.symm
      by_cases hc : a = c
      · cases sec with
        | none => simp [hc, cget_cremove, hpq, hl]
        | some b => simp [hc, cget_cput, hnp, hpq, hl]
      · simp [hc, cget_cput, hnp, hpq, hl]
  · intro q d hm
    exact h.liveUsed q d ((hmemf q d).mp hm).1
  · -- distinct
    intro q ctx'
    simp only [step, pollEvent, onClosed, hq]
    obtain ⟨a, sec⟩ := ctx
    by_cases hc : a = c
    · cases sec with
      | none =>
        simp only [hc, if_true, cget_cremove]
        by_cases hpq : q = p
        · simp [hpq]
        · simp only [hpq, if_false]; exact h.distinct q ctx'
      | some b =>
        simp only [hc, if_true, cget_cput]
        by_cases hpq : p = q
        · simp [hpq]; rintro rfl; simp
        · simp only [hpq, if_false]; exact h.distinct q ctx'
    · simp only [hc, if_false, cget_cput]
      by_cases hpq : p = q
      · simp [hpq]; rintro rfl; simp
      · simp only [hpq, if_false]; exact h.distinct q ctx'
  · -- outLive
    intro sid q d hm
    obtain ⟨hm1, hm2⟩ := List.mem_filter.mp hm
    rw [hmemf]
    refine ⟨h.outLive sid q d hm1, fun hh => ?_⟩
    simp [hh.2] at hm2
  · intro x hx
    rw [hnext]
    exact h.outLt x (List.mem_filter.mp hx).1
  · exact nodup_filter_map _ _ _ h.outNodup

/-- `force_close` changes neither the service's state nor the environment. -/
theorem step_forceClose_state (s : State) (p : Peer) (sec prim : SendRes) :
    (step s (.forceClose p sec prim)).1 = s := by
  simp only [step, forceClose]
  cases cget s.conns p <;> rfl

theorem envStep_forceClose (e : Env) (p : Peer) (sec prim : SendRes) (o : Obs) :
    envStep e (.forceClose p sec prim) o = e := by
  simp [envStep]

theorem envStep_managerCall (e : Env) (o : Obs) : envStep e .managerCall o = e := by
  simp [envStep]

theorem inv_step {e : Env} {s : State} (h : Inv e s) (op : Op) (hok : envOk e op = true) :
    Inv (envStep e op (step s op).2) (step s op).1 := by
  cases op with
  | otherAlloc n => exact inv_otherAlloc h n
  | managerCall => rw [envStep_managerCall]; exact h
  | forceClose p sec prim => rw [envStep_forceClose, step_forceClose_state]; exact h
  | «open» p permit send => exact inv_open h p permit send
  | inner ev =>
    cases ev with
    | established p c => exact inv_established h p c hok
    | closed p c => exact inv_closed h p c hok
    | subOpened p d c => exact inv_sub h _ (Or.inl ⟨p, d, c, rfl⟩)
    | subFailed sid => exact inv_sub h _ (Or.inr (Or.inl ⟨sid, rfl⟩))
    | dialFailure p => exact inv_sub h _ (Or.inr (Or.inr ⟨p, rfl⟩))

/-- Along a feasible history every step starts in a state satisfying the invariant, is allowed by
the environment, and the recorded observation is the step's. -/
theorem esteps_inv (ops : List Op) : ∀ (e : Env) (s : State), Inv e s → feasible e s ops = true →
    ∀ x ∈ esteps e s ops, Inv x.1 x.2.1 ∧ envOk x.1 x.2.2.1 = true ∧ x.2.2.2 = (step x.2.1 x.2.2.1).2 := by
  induction ops with
  | nil => intro e s _ _ x hx; simp [esteps] at hx
  | cons op rest ih =>
    intro e s hinv hf x hx
    simp only [feasible, Bool.and_eq_true] at hf
    simp only [esteps, List.mem_cons] at hx
    rcases hx with rfl | hx
    · exact ⟨hinv, hf.1, rfl⟩
    · exact ih _ _ (inv_step hinv op hf.1) hf.2 x hx

theorem run_inv (ops : List Op) : ∀ (e : Env) (s : State), Inv e s → feasible e s ops = true →
    Inv (envRun e s ops) (run s ops) := by
  induction ops with
  | nil => intro e s h _; exact h
  | cons op rest ih =>
    intro e s hinv hf
    simp only [feasible, Bool.and_eq_true] at hf
    exact ih _ _ (inv_step hinv op hf.1) hf.2



/-! ### answers to accepted opens -/

def answerOf : Obs → Option Nat
  | .ev (.subOpened _ (some sid)) => some sid
  | .ev (.subFailed sid) => some sid
  | _ => none

def acceptOf : Obs → Option Nat
  | .openOk sid _ => some sid
  | _ => none

theorem answeredIds_cons (o : Obs) (l : List Obs) :
    answeredIds (o :: l) = (answerOf o).toList ++ answeredIds l := by
  cases o with
  | ev e => cases e with
    | subOpened p d => cases d <;> simp [answeredIds, answerOf]
    | _ => simp [answeredIds, answerOf]
  | _ => simp [answeredIds, answerOf]

theorem acceptedIds_cons (o : Obs) (l : List Obs) :
    acceptedIds (o :: l) = (acceptOf o).toList ++ acceptedIds l := by
  cases o <;> simp [acceptedIds, acceptOf]

/-- The service emits an answer only by forwarding the corresponding inner event. -/
theorem step_answer (s : State) (op : Op) (sid : Nat) (h : answerOf (step s op).2 = some sid) :
    (step s op).1 = s ∧ acceptOf (step s op).2 = none ∧
    ((∃ p c, op = .inner (.subOpened p (some sid) c)) ∨ op = .inner (.subFailed sid)) := by
  cases op with
  | otherAlloc n => simp [step, answerOf] at h
  | managerCall => simp [step, answerOf] at h
  | forceClose q sec prim => simp [step, answerOf] at h
  | «open» q permit send =>
    simp only [step] at h
    split at h <;> simp [answerOf] at h
  | inner e =>
    cases e with
    | subOpened q d c =>
      cases d with
      | none => simp [step, pollEvent, answerOf] at h
      | some x =>
        simp only [step, pollEvent, answerOf, Option.some.injEq] at h
        subst h
        simp [step, pollEvent, acceptOf]
    | subFailed x =>
      simp only [step, pollEvent, answerOf, Option.some.injEq] at h
      subst h
      simp [step, pollEvent, acceptOf]
    | dialFailure q => simp [step, pollEvent, answerOf] at h
    | established q c =>
      simp only [step, pollEvent, onEstablished] at h
      cases hq : cget s.conns q with
      | none => simp [hq, answerOf] at h
      | some ctx => obtain ⟨a, sec⟩ := ctx; cases sec <;> simp [hq, answerOf] at h
    | closed q c =>
      simp only [step, pollEvent, onClosed] at h
      cases hq : cget s.conns q with
      | none => simp [hq, answerOf] at h
      | some ctx =>
        obtain ⟨a, sec⟩ := ctx
        by_cases hc : a = c
        · cases sec <;> simp [hq, hc, answerOf] at h
        · simp [hq, hc, answerOf] at h

theorem mem_outstandingIds {e : Env} {x : Nat} :
    x ∈ outstandingIds e ↔ ∃ p c, (x, p, c) ∈ e.outstanding := by
  simp [outstandingIds]

/-- An answer consumes its outstanding entry. -/
theorem env_answer (e : Env) (s : State) (op : Op) (sid : Nat)
    (h : answerOf (step s op).2 = some sid) (hok : envOk e op = true) :
    sid ∈ outstandingIds e ∧ sid ∉ outstandingIds (envStep e op (step s op).2) ∧
    ∀ x ∈ outstandingIds (envStep e op (step s op).2), x ∈ outstandingIds e := by
  obtain ⟨_, _, ⟨p, c, rfl⟩ | rfl⟩ := step_answer s op sid h
  · simp only [envOk, List.contains_iff_mem] at hok
    refine ⟨mem_outstandingIds.mpr ⟨p, c, hok⟩, ?_, ?_⟩
    · simp [envStep, outstandingIds]
    · intro x hx
      simp only [envStep, outstandingIds, List.mem_map, List.mem_filter] at hx ⊢
      obtain ⟨a, ⟨ha, _⟩, rfl⟩ := hx
      exact ⟨a, ha, rfl⟩
  · simp only [envOk, List.contains_iff_mem] at hok
    refine ⟨hok, ?_, ?_⟩
    · simp [envStep, outstandingIds]
    · intro x hx
      simp only [envStep, outstandingIds, List.mem_map, List.mem_filter] at hx ⊢
      obtain ⟨a, ⟨ha, _⟩, rfl⟩ := hx
      exact ⟨a, ha, rfl⟩

/-- Outstanding entries only appear through an accepted open. -/
theorem env_outstanding_sub (e : Env) (op : Op) (o : Obs) (x p c : Nat)
    (h : (x, p, c) ∈ (envStep e op o).outstanding) :
    (x, p, c) ∈ e.outstanding ∨ (o = .openOk x c ∧ ∃ permit send, op = .open p permit send) := by
  cases op with
  | otherAlloc n => left; simpa [envStep] using h
  | managerCall => left; simpa [envStep] using h
  | forceClose q a b => left; simpa [envStep] using h
  | «open» q permit send =>
    cases o with
    | openOk sid c' =>
      simp only [envStep, List.mem_cons, Prod.mk.injEq] at h
      rcases h with ⟨rfl, rfl, rfl⟩ | h
      · right; exact ⟨rfl, _, _, rfl⟩
      · left; exact h
    | _ => left; simpa [envStep] using h
  | inner ev =>
    left
    cases ev with
    | established q c => simpa [envStep] using h
    | closed q c => simp only [envStep, List.mem_filter] at h; exact h.1
    | subOpened q d c =>
      cases d with
      | none => simpa [envStep] using h
      | some sid => simp only [envStep, List.mem_filter] at h; exact h.1
    | subFailed sid => simp only [envStep, List.mem_filter] at h; exact h.1
    | dialFailure q => simpa [envStep] using h

theorem at_most_once_gen (ops : List Op) : ∀ (e : Env) (s : State), Inv e s → feasible e s ops = true →
    (answeredIds (trace s ops)).Nodup ∧
    ∀ sid ∈ answeredIds (trace s ops), sid ∈ outstandingIds e ∨ sid ∈ acceptedIds (trace s ops) := by
  induction ops with
  | nil => intro e s _ _; simp [trace, answeredIds]
  | cons op rest ih =>
    intro e s hinv hf
    simp only [feasible, Bool.and_eq_true] at hf
    obtain ⟨ih1, ih2⟩ := ih _ _ (inv_step hinv op hf.1) hf.2
    simp only [trace, answeredIds_cons, acceptedIds_cons]
    cases ha : answerOf (step s op).2 with
    | some sid =>
      obtain ⟨hs, hacc, _⟩ := step_answer s op sid ha
      obtain ⟨hin, hnot, hsub⟩ := env_answer e s op sid ha hf.1
      simp only [Option.toList, List.singleton_append, List.nodup_cons, List.mem_cons, hacc,
        List.nil_append]
      refine ⟨⟨fun hm => ?_, ih1⟩, ?_⟩
      · rcases ih2 sid hm with h1 | h1
        · exact hnot h1
        · have h2 := accepted_ge rest _ sid h1
          rw [hs] at h2
          obtain ⟨p, c, hpc⟩ := mem_outstandingIds.mp hin
          have := hinv.outLt _ hpc
          simp only at this
          omega
      · rintro x (rfl | hx)
        · exact Or.inl hin
        · rcases ih2 x hx with h1 | h1
          · exact Or.inl (hsub x h1)
          · exact Or.inr h1
    | none =>
      simp only [Option.toList, List.nil_append]
      refine ⟨ih1, fun x hx => ?_⟩
      rcases ih2 x hx with h1 | h1
      · obtain ⟨p, c, hpc⟩ := mem_outstandingIds.mp h1
        rcases env_outstanding_sub e op _ x p c hpc with h2 | ⟨h2, _⟩
        · exact Or.inl (mem_outstandingIds.mpr ⟨p, c, h2⟩)
        · right; rw [h2]; simp [acceptOf]
      · right; exact List.mem_append_right _ h1

/-- An outstanding entry disappears only by its answer or by the close of its connection. -/
theorem env_outstanding_keep (e : Env) (s : State) (op : Op) (x p c : Nat)
    (h : (x, p, c) ∈ e.outstanding) :
    (x, p, c) ∈ (envStep e op (step s op).2).outstanding ∨ (∃ p', op = .inner (.closed p' c)) ∨
    answerOf (step s op).2 = some x := by
  cases op with
  | otherAlloc n => left; simpa [envStep] using h
  | managerCall => left; simpa [envStep] using h
  | forceClose q a b => left; simpa [envStep] using h
  | «open» q permit send =>
    left
    cases ho : (step s (.open q permit send)).2 with
    | openOk sid c' => simp [envStep, h]
    | _ => simpa [envStep] using h
  | inner ev =>
    cases ev with
    | established q d => left; simpa [envStep] using h
    | dialFailure q => left; simpa [envStep] using h
    | closed q d =>
      by_cases hd : c = d
      · right; left; exact ⟨q, by rw [hd]⟩
      · left; simp [envStep, List.mem_filter, h, hd]
    | subOpened q dir d =>
      cases dir with
      | none => left; simpa [envStep] using h
      | some sid =>
        by_cases hx : x = sid
        · right; right; simp [step, pollEvent, answerOf, hx]
        · left; simp [envStep, List.mem_filter, h, hx]
    | subFailed sid =>
      by_cases hx : x = sid
      · right; right; simp [step, pollEvent, answerOf, hx]
      · left; simp [envStep, List.mem_filter, h, hx]

theorem once_unless_closed_gen (ops : List Op) : ∀ (e : Env) (s : State) (sid c : Nat),
    (Obs.openOk sid c ∈ trace s ops ∨ ∃ p, (sid, p, c) ∈ e.outstanding) →
    sid ∈ answeredIds (trace s ops) ∨ (∃ p, Op.inner (.closed p c) ∈ ops) ∨
    ∃ p, (sid, p, c) ∈ (envRun e s ops).outstanding := by
  induction ops with
  | nil =>
    intro e s sid c h
    rcases h with h | h
    · simp [trace] at h
    · exact Or.inr (Or.inr h)
  | cons op rest ih =>
    intro e s sid c h
    simp only [trace, envRun, answeredIds_cons, List.mem_cons, List.mem_append]
    have lift : (sid ∈ answeredIds (trace (step s op).1 rest) ∨ (∃ p, Op.inner (.closed p c) ∈ rest) ∨
        ∃ p, (sid, p, c) ∈ (envRun (envStep e op (step s op).2) (step s op).1 rest).outstanding) →
        (sid ∈ (answerOf (step s op).2).toList ∨ sid ∈ answeredIds (trace (step s op).1 rest)) ∨
        (∃ p, Op.inner (.closed p c) = op ∨ Op.inner (.closed p c) ∈ rest) ∨
        ∃ p, (sid, p, c) ∈ (envRun (envStep e op (step s op).2) (step s op).1 rest).outstanding := by
      rintro (h1 | ⟨p, h1⟩ | h1)
      · exact Or.inl (Or.inr h1)
      · exact Or.inr (Or.inl ⟨p, Or.inr h1⟩)
      · exact Or.inr (Or.inr h1)
    have hin : (∃ p, (sid, p, c) ∈ (envStep e op (step s op).2).outstanding) → _ :=
      fun h' => lift (ih _ _ sid c (Or.inr h'))
    simp only [trace, List.mem_cons] at h
    rcases h with (h | h) | ⟨p, h⟩
    · -- accepted by this very step
      obtain ⟨_, _, _, p, permit, send, _, rfl, _, _⟩ := step_openOk s op sid c h.symm
      apply hin
      rw [← h]
      exact ⟨p, by simp [envStep]⟩
    · exact lift (ih _ _ sid c (Or.inl h))
    · rcases env_outstanding_keep e s op sid p c h with h1 | ⟨p', rfl⟩ | h1
      · exact hin ⟨p, h1⟩
      · exact Or.inr (Or.inl ⟨p', Or.inl rfl⟩)
      · exact Or.inl (Or.inl (by simp [h1]))



/-! ### single steps under the invariant -/

theorem closed_local {e : Env} {s : State} (h : Inv e s) (p c : Nat)
    (hok : envOk e (.inner (.closed p c)) = true) :
    (step s (.inner (.closed p c))).2 = .ev (.closed p) ↔ ∀ c', (p, c') ∈ e.live → c' = c := by
  simp only [envOk, List.contains_iff_mem] at hok
  obtain ⟨ctx, hq, hhas⟩ := (h.connIff p c).mp hok
  have hdist := h.distinct p _ hq
  have hl := fun d => h.connIff p d
  simp only [hq, Option.some.injEq, exists_eq_left', Ctx.has] at hl
  obtain ⟨a, sec⟩ := ctx
  simp only [step, pollEvent, onClosed, hq]
  by_cases hc : a = c
  · subst hc
    cases sec with
    | none =>
      simp only [if_true, true_iff]
      intro c' hc'
      rcases (hl c').mp hc' with h1 | h1
      · exact h1.symm
      · cases h1
    | some b =>
      simp only [if_true]
      constructor
      · intro h'; cases h'
      · intro hall
        have : b = a := hall b ((hl b).mpr (Or.inr rfl))
        exact absurd (by simp [this]) hdist
  · simp only [hc, if_false]
    constructor
    · intro h'; cases h'
    · intro hall
      exact absurd (hall a ((hl a).mpr (Or.inl rfl))) hc

theorem established_local {e : Env} {s : State} (h : Inv e s) (p c : Nat) :
    (step s (.inner (.established p c))).2 = .ev (.established p) ↔ ∀ c', (p, c') ∉ e.live := by
  simp only [step, pollEvent, onEstablished]
  cases hq : cget s.conns p with
  | none =>
    simp only [true_iff]
    intro c' hm
    obtain ⟨ctx, hc, _⟩ := (h.connIff p c').mp hm
    rw [hq] at hc; cases hc
  | some ctx =>
    obtain ⟨a, sec⟩ := ctx
    have ha : (p, a) ∈ e.live := (h.connIff p a).mpr ⟨_, hq, Or.inl rfl⟩
    cases sec with
    | none => simp only; constructor; intro h'; cases h'; intro hall; exact absurd ha (hall a)
    | some b => simp only; constructor; intro h'; cases h'; intro hall; exact absurd ha (hall a)

theorem sub_local {e : Env} {s : State} (h : Inv e s) (op : Op) (hok : envOk e op = true) :
    (∀ p d, (step s op).2 = .ev (.subOpened p d) → connected s p = true) ∧
    (∀ sid, (step s op).2 = .ev (.subFailed sid) →
      ∃ p c, (sid, p, c) ∈ e.outstanding ∧ connected s p = true) := by
  have conn_of_live : ∀ p c, (p, c) ∈ e.live → connected s p = true := by
    intro p c hm
    obtain ⟨ctx, hc, _⟩ := (h.connIff p c).mp hm
    simp [connected, hc]
  cases op with
  | otherAlloc n => simp [step]
  | managerCall => simp [step]
  | forceClose q a b => simp [step]
  | «open» q permit send =>
    constructor
    · intro p d ho; simp only [step] at ho; split at ho <;> cases ho
    · intro sid ho; simp only [step] at ho; split at ho <;> cases ho
  | inner ev =>
    cases ev with
    | subOpened q d c =>
      simp only [step, pollEvent, Obs.ev.injEq, Ev.subOpened.injEq, reduceCtorEq, false_imp_iff,
        implies_true, and_true]
      rintro p d' ⟨rfl, rfl⟩
      cases d with
      | none => simp only [envOk, List.contains_iff_mem] at hok; exact conn_of_live _ _ hok
      | some sid =>
        simp only [envOk, List.contains_iff_mem] at hok
        exact conn_of_live _ _ (h.outLive _ _ _ hok)
    | subFailed sid =>
      simp only [step, pollEvent, Obs.ev.injEq, reduceCtorEq, false_imp_iff, implies_true,
        Ev.subFailed.injEq, true_and]
      rintro sid' rfl
      simp only [envOk, List.contains_iff_mem] at hok
      obtain ⟨p, c, hpc⟩ := mem_outstandingIds.mp hok
      exact ⟨p, c, hpc, conn_of_live _ _ (h.outLive _ _ _ hpc)⟩
    | dialFailure q => simp [step, pollEvent]
    | established q c =>
      simp only [step, pollEvent, onEstablished]
      cases cget s.conns q with
      | none => simp
      | some ctx => obtain ⟨a, sec⟩ := ctx; cases sec <;> simp
    | closed q c =>
      simp only [step, pollEvent, onClosed]
      cases cget s.conns q with
      | none => simp
      | some ctx =>
        obtain ⟨a, sec⟩ := ctx
        by_cases hc : a = c
        · cases sec <;> simp [hc]
        · simp [hc]

/-! ### `force_close` at any point of a history -/

theorem run_append (pre post : List Op) : ∀ s : State, run s (pre ++ post) = run (run s pre) post := by
  induction pre with
  | nil => intro s; rfl
  | cons op rest ih => intro s; simp only [List.cons_append, run]; exact ih _

theorem trace_append (pre post : List Op) : ∀ s : State,
    trace s (pre ++ post) = trace s pre ++ trace (run s pre) post := by
  induction pre with
  | nil => intro s; rfl
  | cons op rest ih => intro s; simp only [List.cons_append, trace, run, ih]

theorem feasible_append (pre post : List Op) : ∀ (e : Env) (s : State),
    feasible e s (pre ++ post) = (feasible e s pre && feasible (envRun e s pre) (run s pre) post) := by
  induction pre with
  | nil => intro e s; simp [feasible, envRun, run]
  | cons op rest ih => intro e s; simp only [List.cons_append, feasible, envRun, run, ih, Bool.and_assoc]

/-- A call that changes neither state nor environment can be inserted anywhere: the state afterwards, the
protocol's observations of everything else, and what the environment may do are the same. -/
theorem forceClose_insert (pre post : List Op) (s : State) (e : Env) (p : Peer) (sec prim : SendRes) :
    run s (pre ++ .forceClose p sec prim :: post) = run s (pre ++ post) ∧
    trace s (pre ++ .forceClose p sec prim :: post) =
      trace s pre ++ (step (run s pre) (.forceClose p sec prim)).2 :: trace (run s pre) post ∧
    feasible e s (pre ++ .forceClose p sec prim :: post) = feasible e s (pre ++ post) := by
  refine ⟨?_, ?_, ?_⟩
  · rw [run_append, run_append]; simp only [run, step_forceClose_state]
  · rw [trace_append]; simp only [trace, step_forceClose_state]
  · rw [feasible_append, feasible_append]
    simp only [feasible, envOk, envStep_forceClose, step_forceClose_state, Bool.true_and]

/-- Who is told to close: with room in both command channels, exactly the connections of the peer's context,
secondary first; nobody if the peer is not connected. Never a connection outside the context. -/
theorem forceClose_cmds (s : State) (p : Peer) (sec prim : SendRes) :
    (cget s.conns p = none → (step s (.forceClose p sec prim)).2 = .force (some .peerDoesntExist) []) ∧
    (∀ ctx, cget s.conns p = some ctx →
      (step s (.forceClose p .ok .ok)).2 = .force none (ctx.secondary.toList ++ [ctx.primary]) ∧
      ∀ r cs, (step s (.forceClose p sec prim)).2 = .force r cs → ∀ c ∈ cs, ctx.has c) := by
  constructor
  · intro h; simp [step, forceClose, h]
  · intro ctx h
    obtain ⟨a, b⟩ := ctx
    constructor
    · cases b <;> simp [step, forceClose, h, forceOne, forceSecondary]
    · intro r cs ho c hc
      simp only [step, forceClose, h, Obs.force.injEq] at ho
      obtain ⟨_, rfl⟩ := ho
      cases b <;> cases sec <;> cases prim <;> simp_all [forceOne, forceSecondary, Ctx.has] <;> omega

end Litep2pVerif.Service
