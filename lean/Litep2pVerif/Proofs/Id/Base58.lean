import Litep2pVerif.Model.Id.Base58
import Mathlib.Data.Nat.Digits.Defs
import Mathlib.Data.Nat.Digits.Lemmas

/-!
# Base58 — proofs about the executable model

`conv bi bo` is a faithful base conversion (digits stay below the output base, converting back
gives the original digit list), hence `decode ∘ encode = ok` and `decode s = ok bs → encode bs = s`.
-/
namespace Litep2pVerif.Id.Base58

/-! ## `conv_lt` -/

theorem carryLoop_lt (bi bo : Nat) (hbo : 0 < bo) (ds : List Nat) (c : Nat) :
    ∀ d ∈ (carryLoop bi bo ds c).1, d < bo := by
  induction ds generalizing c with
  | nil => simp [carryLoop]
  | cons x xs ih =>
    intro d hd
    simp only [carryLoop, List.mem_cons] at hd
    rcases hd with rfl | hd
    · exact Nat.mod_lt _ hbo
    · exact ih _ d hd

theorem pushCarry_lt (bo : Nat) (hbo : 0 < bo) (f c : Nat) :
    ∀ d ∈ pushCarry bo f c, d < bo := by
  induction f generalizing c with
  | zero => simp [pushCarry]
  | succ f ih =>
    intro d hd
    unfold pushCarry at hd
    split at hd
    · simp at hd
    · simp only [List.mem_cons] at hd
      rcases hd with rfl | hd
      · exact Nat.mod_lt _ hbo
      · exact ih _ d hd

theorem stepDigit_lt (bi bo : Nat) (hbo : 0 < bo) (out : List Nat) (v : Nat) :
    ∀ d ∈ stepDigit bi bo out v, d < bo := by
  intro d hd
  unfold stepDigit at hd
  rcases List.mem_append.1 hd with hd | hd
  · exact carryLoop_lt bi bo hbo _ _ d hd
  · exact pushCarry_lt bo hbo _ _ d hd

theorem foldl_stepDigit_lt (bi bo : Nat) (hbo : 0 < bo) (ds acc : List Nat)
    (hacc : ∀ d ∈ acc, d < bo) : ∀ d ∈ ds.foldl (stepDigit bi bo) acc, d < bo := by
  induction ds generalizing acc with
  | nil => simpa using hacc
  | cons x xs ih =>
    simp only [List.foldl_cons]
    exact ih _ (stepDigit_lt bi bo hbo acc x)

theorem conv_lt (bi bo : Nat) (hbo : 2 ≤ bo) (ds : List Nat) : ∀ d ∈ conv bi bo ds, d < bo := by
  intro d hd
  unfold conv at hd
  rw [List.mem_reverse, List.mem_append] at hd
  rcases hd with hd | hd
  · exact foldl_stepDigit_lt bi bo (by omega) ds [] (by simp) d hd
  · rw [List.mem_replicate] at hd
    omega

/-! ## `convLE` computes `Nat.digits` -/

theorem pushCarry_eq_digits (bo : Nat) (hbo : 2 ≤ bo) (f c : Nat) (h : c ≤ f) :
    pushCarry bo f c = Nat.digits bo c := by
  induction f generalizing c with
  | zero =>
    obtain rfl : c = 0 := by omega
    simp [pushCarry]
  | succ f ih =>
    unfold pushCarry
    split
    · next h0 => subst h0; simp
    · next h0 =>
      have hpos : 0 < c := Nat.pos_of_ne_zero h0
      rw [Nat.digits_def' (by omega) hpos]
      congr 1
      apply ih
      have : c / bo < c := Nat.div_lt_self hpos (by omega)
      omega

theorem stepDigit_digits (bi bo : Nat) (hbi : 1 ≤ bi) (hbo : 2 ≤ bo) (n v : Nat) :
    stepDigit bi bo (Nat.digits bo n) v = Nat.digits bo (n * bi + v) := by
  induction n using Nat.strong_induction_on generalizing v with
  | _ n ih =>
    rcases Nat.eq_zero_or_pos n with rfl | hpos
    · simp only [Nat.digits_zero, stepDigit, carryLoop, List.nil_append, Nat.zero_mul,
        Nat.zero_add]
      exact pushCarry_eq_digits bo hbo v v (Nat.le_refl _)
    · have hlt : n / bo < n := Nat.div_lt_self hpos (by omega)
      have ih' := ih (n / bo) hlt ((v + n % bo * bi) / bo)
      have hpos' : 0 < n * bi + v := by
        have : 0 < n * bi := Nat.mul_pos hpos hbi
        omega
      rw [Nat.digits_def' (by omega) hpos, Nat.digits_def' (by omega) hpos']
      unfold stepDigit at ih' ⊢
      simp only [carryLoop, List.cons_append]
      have hdecomp : n * bi + v = (v + n % bo * bi) + bo * (n / bo * bi) := by
        have h := Nat.div_add_mod n bo
        calc n * bi + v = (bo * (n / bo) + n % bo) * bi + v := by rw [h]
          _ = (v + n % bo * bi) + bo * (n / bo * bi) := by ring
      have hmod : (n * bi + v) % bo = (v + n % bo * bi) % bo := by
        rw [hdecomp, Nat.add_mul_mod_self_left]
      have hdiv : (n * bi + v) / bo = n / bo * bi + (v + n % bo * bi) / bo := by
        rw [hdecomp, Nat.add_mul_div_left _ _ (by omega : 0 < bo)]
        omega
      rw [hmod, hdiv, ih']

/-- Big-endian value of a digit list. -/
def val (b : Nat) (ds : List Nat) (n : Nat) : Nat := ds.foldl (fun n v => n * b + v) n

theorem foldl_stepDigit_digits (bi bo : Nat) (hbi : 1 ≤ bi) (hbo : 2 ≤ bo) (ds : List Nat)
    (n : Nat) :
    ds.foldl (stepDigit bi bo) (Nat.digits bo n) = Nat.digits bo (val bi ds n) := by
  induction ds generalizing n with
  | nil => simp [val]
  | cons x xs ih =>
    simp only [List.foldl_cons, val]
    rw [stepDigit_digits bi bo hbi hbo, ih]
    rfl

theorem val_eq_ofDigits (b : Nat) (ds : List Nat) : val b ds 0 = Nat.ofDigits b ds.reverse := by
  rw [Nat.ofDigits_eq_foldr, List.foldr_reverse]
  unfold val
  congr 1
  funext n v
  simp [Nat.mul_comm, Nat.add_comm]

theorem convLE_eq (bi bo : Nat) (hbi : 1 ≤ bi) (hbo : 2 ≤ bo) (ds : List Nat) :
    convLE bi bo ds = Nat.digits bo (Nat.ofDigits bi ds.reverse) := by
  unfold convLE
  have := foldl_stepDigit_digits bi bo hbi hbo ds 0
  rw [Nat.digits_zero] at this
  rw [this, val_eq_ofDigits]

/-! ## `conv_conv` -/

theorem leadingZeros_replicate_append (z : Nat) (R : List Nat) (hR : ∀ x ∈ R.head?, x ≠ 0) :
    leadingZeros (List.replicate z 0 ++ R) = z := by
  unfold leadingZeros
  rw [List.takeWhile_append_of_pos (by simp)]
  cases R with
  | nil => simp
  | cons x xs =>
    have hx : x ≠ 0 := hR x (by simp)
    rw [List.takeWhile_cons_of_neg (by simpa using hx)]
    simp

theorem split_leadingZeros (ds : List Nat) :
    ∃ rest, ds = List.replicate (leadingZeros ds) 0 ++ rest ∧ ∀ x ∈ rest.head?, x ≠ 0 := by
  induction ds with
  | nil => exact ⟨[], by simp [leadingZeros]⟩
  | cons x xs ih =>
    by_cases hx : x = 0
    · subst hx
      obtain ⟨rest, h1, h2⟩ := ih
      refine ⟨rest, ?_, h2⟩
      have : leadingZeros (0 :: xs) = leadingZeros xs + 1 := by simp [leadingZeros]
      rw [this, List.replicate_succ, List.cons_append, ← h1]
    · refine ⟨x :: xs, ?_, by simpa using hx⟩
      have : leadingZeros (x :: xs) = 0 := by simp [leadingZeros, hx]
      rw [this]; rfl

theorem conv_eq (bi bo : Nat) (hbi : 1 ≤ bi) (hbo : 2 ≤ bo) (ds : List Nat) :
    conv bi bo ds = List.replicate (leadingZeros ds) 0
      ++ (Nat.digits bo (Nat.ofDigits bi ds.reverse)).reverse := by
  unfold conv
  rw [convLE_eq bi bo hbi hbo, List.reverse_append, List.reverse_replicate]

theorem conv_conv (bi bo : Nat) (hbi : 2 ≤ bi) (hbo : 2 ≤ bo) (ds : List Nat)
    (h : ∀ d ∈ ds, d < bi) : conv bo bi (conv bi bo ds) = ds := by
  rw [conv_eq bi bo (by omega) hbo, conv_eq bo bi (by omega) hbi]
  have hlz : leadingZeros (List.replicate (leadingZeros ds) 0
      ++ (Nat.digits bo (Nat.ofDigits bi ds.reverse)).reverse) = leadingZeros ds := by
    apply leadingZeros_replicate_append
    intro x hx
    rw [List.head?_reverse, Option.mem_def] at hx
    have hne : Nat.digits bo (Nat.ofDigits bi ds.reverse) ≠ [] := by
      intro h0; rw [h0] at hx; simp at hx
    rw [List.getLast?_eq_some_getLast hne] at hx
    obtain rfl := Option.some.inj hx
    exact Nat.getLast_digit_ne_zero bo (Nat.digits_ne_nil_iff_ne_zero.mp hne)
  rw [hlz, List.reverse_append, List.reverse_reverse, List.reverse_replicate,
    Nat.ofDigits_append_replicate_zero, Nat.ofDigits_digits]
  obtain ⟨rest, h1, h2⟩ := split_leadingZeros ds
  have hrev : Nat.ofDigits bi ds.reverse = Nat.ofDigits bi rest.reverse := by
    conv_lhs => rw [h1]
    rw [List.reverse_append, List.reverse_replicate, Nat.ofDigits_append_replicate_zero]
  rw [hrev, Nat.digits_ofDigits bi (by omega) rest.reverse, List.reverse_reverse, ← h1]
  · intro l hl
    apply h
    rw [h1]
    exact List.mem_append_right _ (List.mem_reverse.1 hl)
  · intro hne
    rw [List.getLast_reverse]
    apply h2
    rw [Option.mem_def, List.head?_eq_some_head]

/-! ## Alphabet facts -/

set_option maxRecDepth 100000 in
theorem alphabet_enc : ∀ d, d < 58 →
    decodeChar (encodeDigit d) = some d ∧ encodeDigit d ≤ 127 := by decide

set_option maxRecDepth 100000 in
theorem alphabet_dec : ∀ c, c < 128 → ∀ d, d < 58 →
    decodeChar c = some d → encodeDigit d = c := by decide

theorem decodeChar_lt (c d : Nat) (h : decodeChar c = some d) : d < 58 := by
  unfold decodeChar at h
  split at h
  · next hlt => cases h; exact hlt
  · cases h

theorem digitsOf_map_encodeDigit (i : Nat) (ds : List Nat) (h : ∀ d ∈ ds, d < 58) :
    digitsOf i (ds.map encodeDigit) = .ok ds := by
  induction ds generalizing i with
  | nil => rfl
  | cons x xs ih =>
    have hx := alphabet_enc x (h x (by simp))
    have hxs := ih (i + 1) (fun d hd => h d (by simp [hd]))
    simp only [List.map_cons, digitsOf]
    rw [if_neg (by omega), hx.1]
    simp only [hxs]

theorem digitsOf_ok (i : Nat) (cs ds : List Nat) (h : digitsOf i cs = .ok ds) :
    ds.map encodeDigit = cs ∧ ∀ d ∈ ds, d < 58 := by
  induction cs generalizing i ds with
  | nil =>
    simp only [digitsOf] at h
    cases h
    simp
  | cons c cs ih =>
    simp only [digitsOf] at h
    split at h
    · cases h
    · next hc =>
      split at h
      · cases h
      · next d hd =>
        split at h
        · cases h
        · next ds' hds' =>
          cases h
          obtain ⟨h1, h2⟩ := ih (i + 1) ds' hds'
          have hd58 := decodeChar_lt c d hd
          have henc := alphabet_dec c (by omega) d hd58 hd
          refine ⟨by simp [henc, h1], ?_⟩
          intro x hx
          rcases List.mem_cons.1 hx with rfl | hx
          · exact hd58
          · exact h2 x hx

/-! ## Round trips -/

theorem map_toNat_map_ofNat (ns : List Nat) (h : ∀ n ∈ ns, n < 256) :
    (ns.map UInt8.ofNat).map (·.toNat) = ns := by
  rw [List.map_map]
  conv_rhs => rw [← List.map_id ns]
  apply List.map_congr_left
  intro n hn
  simp only [Function.comp, UInt8.toNat_ofNat', id]
  exact Nat.mod_eq_of_lt (h n hn)

theorem map_ofNat_map_toNat (bs : List UInt8) :
    (bs.map (·.toNat)).map UInt8.ofNat = bs := by
  rw [List.map_map]
  conv_rhs => rw [← List.map_id bs]
  apply List.map_congr_left
  intro b _
  simp

theorem map_ofNat_encodeDigit (l : List Nat) :
    l.map (fun d => UInt8.ofNat (encodeDigit d)) = (l.map encodeDigit).map UInt8.ofNat := by
  rw [List.map_map]; rfl

theorem decode_encode (bs : List UInt8) : decode (encode bs) = .ok bs := by
  have hlt := conv_lt 256 58 (by omega) (bs.map (·.toNat))
  have hs : (encode bs).map (·.toNat) = (conv 256 58 (bs.map (·.toNat))).map encodeDigit := by
    unfold encode
    rw [map_ofNat_encodeDigit]
    apply map_toNat_map_ofNat
    intro n hn
    obtain ⟨d, hd, rfl⟩ := List.mem_map.1 hn
    have := (alphabet_enc d (hlt d hd)).2
    omega
  unfold decode
  rw [hs, digitsOf_map_encodeDigit 0 _ hlt]
  simp only
  rw [conv_conv 256 58 (by omega) (by omega), map_ofNat_map_toNat]
  intro d hd
  obtain ⟨b, _, rfl⟩ := List.mem_map.1 hd
  exact b.toNat_lt

theorem encode_decode (s bs : List UInt8) (h : decode s = .ok bs) : encode bs = s := by
  unfold decode at h
  split at h
  · cases h
  · next ds hds =>
    cases h
    obtain ⟨h1, h2⟩ := digitsOf_ok 0 _ ds hds
    unfold encode
    rw [map_toNat_map_ofNat _ (conv_lt 58 256 (by omega) ds),
      conv_conv 58 256 (by omega) (by omega) ds h2,
      map_ofNat_encodeDigit, h1, map_ofNat_map_toNat]

end Litep2pVerif.Id.Base58

#print axioms Litep2pVerif.Id.Base58.conv_lt
#print axioms Litep2pVerif.Id.Base58.conv_conv
#print axioms Litep2pVerif.Id.Base58.decode_encode
#print axioms Litep2pVerif.Id.Base58.encode_decode
