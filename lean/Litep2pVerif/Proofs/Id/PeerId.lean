import Litep2pVerif.Model.Id.PeerId
import Litep2pVerif.Proofs.Id.Varint
import Litep2pVerif.Proofs.Id.Base58
/-!
Lemmas about the multihash and peer-id models: byte round trips, canonicity (for headers without
10-byte varints), and the invariant `Valid` of every constructible `PeerId`.
-/
namespace Litep2pVerif.Id
open Multihash (Multihash)

namespace Multihash

theorem fromBytes_toBytes (mh : Multihash) (h : Wf mh) : fromBytes (toBytes mh) = .ok mh := by
  obtain ⟨hc, hd⟩ := h
  unfold S at hd
  unfold fromBytes read toBytes
  rw [List.append_assoc, Varint.readU64_encodeU64 _ _ hc]
  simp only
  rw [Varint.readU64_encodeU8 _ _ (by omega)]
  have h1 : ¬ (mh.digest.length > S ∨ mh.digest.length > 255) := by unfold S; omega
  simp only [h1, if_false, Nat.lt_irrefl, List.take_length, List.drop_length, List.length_nil,
    ne_eq, not_true_eq_false]

theorem read_ok (bs rest : List UInt8) (mh : Multihash) (h : read bs = .ok (mh, rest)) :
    ∃ r1 r2 size, Varint.readU64 bs = .ok (mh.code, r1) ∧ Varint.readU64 r1 = .ok (size, r2) ∧
      size ≤ 64 ∧ size ≤ r2.length ∧ mh.digest = r2.take size ∧ rest = r2.drop size := by
  unfold read at h
  split at h
  · simp at h
  · rename_i code r1 h1
    split at h
    · simp at h
    · rename_i size r2 h2
      split at h
      · simp at h
      · rename_i hs
        split at h
        · simp at h
        · rename_i hl
          simp only [Except.ok.injEq, Prod.mk.injEq] at h
          obtain ⟨hm, hr⟩ := h
          subst hm
          unfold S at hs
          exact ⟨r1, r2, size, h1, h2, by omega, by omega, rfl, hr.symm⟩

theorem fromBytes_ok (bs : List UInt8) (mh : Multihash) (h : fromBytes bs = .ok mh) :
    ∃ r1 r2, Varint.readU64 bs = .ok (mh.code, r1) ∧
      Varint.readU64 r1 = .ok (mh.digest.length, r2) ∧ mh.digest.length ≤ 64 ∧ mh.digest = r2 := by
  unfold fromBytes at h
  split at h
  · simp at h
  · rename_i mh' rest hr
    split at h
    · simp at h
    · rename_i hrest
      simp only [Except.ok.injEq] at h
      subst h
      obtain ⟨r1, r2, size, h1, h2, hs, hl, hd, hrest'⟩ := read_ok bs rest mh' hr
      have hlen : r2.length = size := by
        have : (r2.drop size).length = 0 := by rw [← hrest']; simpa using hrest
        rw [List.length_drop] at this; omega
      have hd' : mh'.digest = r2 := by rw [hd, ← hlen, List.take_length]
      refine ⟨r1, r2, h1, ?_, ?_, hd'⟩
      · rw [hd', hlen]; exact h2
      · rw [hd', hlen]; exact hs

theorem fromBytes_wf (bs : List UInt8) (mh : Multihash) (h : fromBytes bs = .ok mh) : Wf mh := by
  obtain ⟨r1, r2, h1, _, hs, _⟩ := fromBytes_ok bs mh h
  exact ⟨Varint.readU64_lt _ _ _ h1, by unfold S; exact hs⟩

/-- Canonicity: if neither header varint is 10 bytes long, the accepted bytes are `to_bytes`. -/
theorem toBytes_fromBytes (bs : List UInt8) (mh : Multihash) (h : fromBytes bs = .ok mh)
    (hc : Varint.headLen bs ≤ 9) (hs : Varint.headLen (bs.drop (Varint.headLen bs)) ≤ 9) :
    toBytes mh = bs := by
  obtain ⟨r1, r2, h1, h2, hlen, hd⟩ := fromBytes_ok bs mh h
  obtain ⟨hr1, _, henc1⟩ := Varint.readU64_canon bs _ _ h1 hc
  rw [← hr1] at hs
  obtain ⟨_, hone, henc2⟩ := Varint.readU64_canon r1 _ _ h2 hs
  have hl1 : Varint.headLen r1 = 1 := hone (by omega)
  unfold toBytes Varint.encodeU64 Varint.encodeU8
  conv => rhs; rw [henc1 10 (by omega), henc2 2 (by omega), ← hd]
  rw [List.append_assoc]

theorem read_no_panic (bs : List UInt8) : read bs ≠ .error (.varint .shiftPanic) := by
  unfold read
  split
  · rename_i e he
    intro hcontra
    simp only [Except.error.injEq, Err.varint.injEq] at hcontra
    subst hcontra
    exact Varint.readU64_no_panic _ he
  · split
    · rename_i e he
      intro hcontra
      simp only [Except.error.injEq, Err.varint.injEq] at hcontra
      subst hcontra
      exact Varint.readU64_no_panic _ he
    · split
      · simp
      · split <;> simp

theorem fromBytes_no_panic (bs : List UInt8) : fromBytes bs ≠ .error (.varint .shiftPanic) := by
  unfold fromBytes
  split
  · rename_i e he
    intro hcontra
    simp only [Except.error.injEq] at hcontra
    subst hcontra
    exact read_no_panic _ he
  · split <;> simp

end Multihash

namespace PeerId

theorem fromMultihash_ok (M : Nat) (mh : Multihash) (p : PeerId) (h : fromMultihash M mh = .ok p) :
    p.multihash = mh ∧
    (mh.code = SHA2_256_CODE ∨ (mh.code = IDENTITY_CODE ∧ mh.digest.length ≤ M)) := by
  unfold fromMultihash at h
  split at h
  · simp only [Except.ok.injEq] at h; subst h; exact ⟨rfl, Or.inl ‹_›⟩
  · split at h
    · simp only [Except.ok.injEq] at h; subst h; exact ⟨rfl, Or.inr ‹_›⟩
    · simp at h

theorem fromMultihash_of (M : Nat) (mh : Multihash)
    (h : mh.code = SHA2_256_CODE ∨ (mh.code = IDENTITY_CODE ∧ mh.digest.length ≤ M)) :
    fromMultihash M mh = .ok ⟨mh⟩ := by
  unfold fromMultihash
  rcases h with h | h
  · simp [h]
  · by_cases h2 : mh.code = SHA2_256_CODE
    · simp [h2]
    · simp [h]

theorem fromBytes_ok (M : Nat) (bs : List UInt8) (p : PeerId) (h : fromBytes M bs = .ok p) :
    Multihash.fromBytes bs = .ok p.multihash ∧ Valid M p := by
  unfold fromBytes at h
  split at h
  · simp at h
  · rename_i mh hmh
    split at h
    · simp at h
    · rename_i p' hp
      simp only [Except.ok.injEq] at h
      subst h
      obtain ⟨he, hv⟩ := fromMultihash_ok M mh p' hp
      rw [he]
      exact ⟨hmh, by unfold Valid; rw [he]; exact ⟨Multihash.fromBytes_wf bs mh hmh, hv⟩⟩

theorem fromBytes_toBytes (M : Nat) (p : PeerId) (h : Valid M p) :
    fromBytes M (toBytes p) = .ok p := by
  unfold fromBytes toBytes
  rw [Multihash.fromBytes_toBytes _ h.1]
  simp only [fromMultihash_of M p.multihash h.2]

theorem fromStr_ok (M : Nat) (s : List UInt8) (p : PeerId) (h : fromStr M s = .ok p) :
    ∃ bs, Base58.decode s = .ok bs ∧ fromBytes M bs = .ok p := by
  unfold fromStr at h
  split at h
  · simp at h
  · rename_i bs hbs; exact ⟨bs, hbs, h⟩

theorem wrap_ok (code : Nat) (d : List UInt8) (h : d.length ≤ 64) :
    Multihash.wrap code d = .ok ⟨code, d⟩ := by
  unfold Multihash.wrap Multihash.S
  simp [Nat.not_lt.mpr h]

theorem constructible_valid (M : Nat) (hM32 : 32 ≤ M) (hM : M ≤ 64) (hash : List UInt8 → List UInt8)
    (hlen : ∀ x, (hash x).length = 32) (p : PeerId) (h : Constructible M hash p) : Valid M p := by
  cases h with
  | ofKey k p hk =>
    unfold fromPublicKeyProtobuf at hk
    split at hk
    · rename_i hle
      rw [wrap_ok _ _ (by omega)] at hk
      simp only [Except.ok.injEq] at hk; subst hk
      exact ⟨⟨by show IDENTITY_CODE < 2 ^ 64; decide, by unfold Multihash.S; simp; omega⟩, Or.inr ⟨rfl, hle⟩⟩
    · rw [wrap_ok _ _ (by rw [hlen]; omega)] at hk
      simp only [Except.ok.injEq] at hk; subst hk
      exact ⟨⟨by show SHA2_256_CODE < 2 ^ 64; decide, by unfold Multihash.S; simp [hlen]⟩, Or.inl rfl⟩
  | ofMultihash mh p hwf hmh =>
    obtain ⟨he, hv⟩ := fromMultihash_ok M mh p hmh
    unfold Valid; rw [he]; exact ⟨hwf, hv⟩
  | ofBytes bs p hb => exact (fromBytes_ok M bs p hb).2
  | ofStr s p hs =>
    obtain ⟨bs, _, hb⟩ := fromStr_ok M s p hs
    exact (fromBytes_ok M bs p hb).2
  | ofRandom r p hr hp =>
    unfold random at hp
    rw [wrap_ok _ _ (by omega)] at hp
    simp only [Except.ok.injEq] at hp; subst hp
    exact ⟨⟨by show IDENTITY_CODE < 2 ^ 64; decide, by unfold Multihash.S; simp; omega⟩, Or.inr ⟨rfl, by simp; omega⟩⟩
  | ofMultiaddr a p hwf ha =>
    unfold tryFromMultiaddr at ha
    split at ha
    · rename_i peer hlast
      split at ha
      · rename_i p' hp'
        simp only [Option.some.injEq] at ha; subst ha
        obtain ⟨he, hv⟩ := fromMultihash_ok M _ _ hp'
        unfold Valid; rw [he]
        exact ⟨hwf peer (List.mem_of_getLast? hlast), hv⟩
      · simp at ha
    · simp at ha
  | ofDeserialize hr v p hd =>
    unfold deserialize at hd
    split at hd
    · obtain ⟨bs, _, hb⟩ := fromStr_ok M v p hd
      exact (fromBytes_ok M bs p hb).2
    · exact (fromBytes_ok M v p hd).2

end PeerId
end Litep2pVerif.Id
