import Litep2pVerif.Model.Id.Varint
import Mathlib.Tactic.Ring
import Mathlib.Tactic.Linarith
/-!
Lemmas about the unsigned-varint model: `io::read_u64` is the `decode!` loop on the reader,
decoding an encoding gives the value back, and — as long as no 10-byte varint is involved — the
only byte string that decodes to a value is its encoding (minimality is enforced by `NotMinimal`).
-/
namespace Litep2pVerif.Id.Varint

/-! ### bytes and bits -/

set_option maxRecDepth 100000 in
theorem and80_aux : ∀ x, x < 256 → ((x &&& 0x80 == 0) = decide (x < 128)) := by decide

theorem isLast_iff (b : UInt8) : isLast b = true ↔ b.toNat < 128 := by
  unfold isLast
  rw [and80_aux b.toNat (UInt8.toNat_lt b)]
  simp

theorem isLast_false_iff (b : UInt8) : isLast b = false ↔ 128 ≤ b.toNat := by
  rw [← Bool.not_eq_true, isLast_iff]; omega

theorem and7F (x : Nat) : x &&& 0x7F = x % 128 := Nat.and_two_pow_sub_one_eq_mod x 7

theorem toNat_ofNat_lt (n : Nat) (h : n < 256) : (UInt8.ofNat n).toNat = n := by
  simp [UInt8.toNat_ofNat']; omega

theorem pow7 (i : Nat) : 2 ^ ((i + 1) * 7) = 128 * 2 ^ (i * 7) := by
  rw [Nat.add_mul, Nat.pow_add]; ring_nf

/-- Without truncation the accumulator step is addition in the next 7-bit position. -/
theorem accum_eq' (n i : Nat) (b : UInt8) (hn : n < 2 ^ (i * 7))
    (hlt : (b.toNat % 128) * 2 ^ (i * 7) < 2 ^ 64) :
    accum 64 n i b = n + (b.toNat % 128) * 2 ^ (i * 7) := by
  unfold accum
  rw [and7F, Nat.shiftLeft_eq]
  rw [Nat.mod_eq_of_lt hlt, ← Nat.shiftLeft_eq, Nat.or_comm, ← Nat.shiftLeft_add_eq_or_of_lt hn,
    Nat.shiftLeft_eq, Nat.add_comm]

theorem accum_eq (n i : Nat) (b : UInt8) (hn : n < 2 ^ (i * 7)) (hi : i ≤ 8) :
    accum 64 n i b = n + (b.toNat % 128) * 2 ^ (i * 7) := by
  apply accum_eq' n i b hn
  have hk : b.toNat % 128 < 128 := Nat.mod_lt _ (by decide)
  have hp : 2 ^ (i * 7) * 128 ≤ 2 ^ 64 := by
    have : 2 ^ (i * 7) * 128 = 2 ^ (i * 7 + 7) := by rw [Nat.pow_add]
    rw [this]; exact Nat.pow_le_pow_right (by decide) (by omega)
  have : (b.toNat % 128) * 2 ^ (i * 7) < 128 * 2 ^ (i * 7) :=
    Nat.mul_lt_mul_of_pos_right hk (Nat.two_pow_pos _)
  nlinarith

theorem accum_lt_next (n i : Nat) (b : UInt8) (hn : n < 2 ^ (i * 7)) (hi : i ≤ 8) :
    accum 64 n i b < 2 ^ ((i + 1) * 7) := by
  rw [accum_eq n i b hn hi, pow7]
  have hk : b.toNat % 128 < 128 := Nat.mod_lt _ (by decide)
  nlinarith [Nat.two_pow_pos (i * 7)]

theorem accum_lt (n i : Nat) (b : UInt8) (hn : n < 2 ^ 64) : accum 64 n i b < 2 ^ 64 := by
  unfold accum
  exact Nat.or_lt_two_pow hn (Nat.mod_lt _ (Nat.two_pow_pos _))

/-! ### `decode!`: no shift panic, result fits in `u64` -/

theorem decodeLoop_no_panic (bs : List UInt8) : ∀ n i, i ≤ 9 →
    decodeLoop 9 64 n i bs ≠ .error .shiftPanic := by
  induction bs with
  | nil => intro n i _; simp [decodeLoop]
  | cons b t ih =>
    intro n i hi
    unfold decodeLoop
    have : ¬ 64 ≤ i * 7 := by omega
    simp only [this, if_false]
    split
    · split <;> simp
    · split
      · simp
      · exact ih _ _ (by omega)

theorem decodeLoop_lt (bs : List UInt8) : ∀ n i v rest, n < 2 ^ 64 →
    decodeLoop 9 64 n i bs = .ok (v, rest) → v < 2 ^ 64 := by
  induction bs with
  | nil => intro n i v rest _ h; simp [decodeLoop] at h
  | cons b t ih =>
    intro n i v rest hn h
    unfold decodeLoop at h
    split at h
    · simp at h
    · split at h
      · split at h
        · simp at h
        · simp only [Except.ok.injEq, Prod.mk.injEq] at h
          rw [← h.1]; exact accum_lt n i b hn
      · split at h
        · simp at h
        · exact ih _ _ _ _ (accum_lt n i b hn) h

/-! ### `io::read_u64` = `decode::u64` on the reader -/

/-- Accumulator after a run of continuation bytes. -/
def accs : Nat → Nat → List UInt8 → Nat
  | n, _, [] => n
  | n, i, b :: t => accs (accum 64 n i b) (i + 1) t

theorem decodeLoop_prefix (buf : List UInt8) : ∀ n i bs, (∀ b ∈ buf, isLast b = false) →
    i + buf.length ≤ 9 →
    decodeLoop 9 64 n i (buf ++ bs) = decodeLoop 9 64 (accs n i buf) (i + buf.length) bs := by
  induction buf with
  | nil => intro n i bs _ _; simp [accs]
  | cons b t ih =>
    intro n i bs hb hi
    simp only [List.length_cons] at hi
    have hnl : isLast b = false := hb b (by simp)
    have h' := ih (accum 64 n i b) (i + 1) bs (fun x hx => hb x (by simp [hx])) (by omega)
    rw [List.cons_append]
    conv => lhs; unfold decodeLoop
    have h1 : ¬ 64 ≤ i * 7 := by omega
    have h2 : ¬ i = 9 := by omega
    simp only [h1, if_false, hnl, h2, Bool.false_eq_true]
    rw [h']
    have : i + 1 + t.length = i + (b :: t).length := by simp only [List.length_cons]; omega
    rw [this]; rfl

theorem decodeLoop_overflow (buf : List UInt8) : ∀ n i bs, (∀ b ∈ buf, isLast b = false) →
    i + buf.length = 10 → buf ≠ [] → decodeLoop 9 64 n i (buf ++ bs) = .error .overflow := by
  induction buf with
  | nil => intro n i bs _ _ h; exact absurd rfl h
  | cons b t ih =>
    intro n i bs hb hi _
    simp only [List.length_cons] at hi
    have hnl : isLast b = false := hb b (by simp)
    rw [List.cons_append]
    unfold decodeLoop
    have h1 : ¬ 64 ≤ i * 7 := by omega
    simp only [h1, if_false, hnl, Bool.false_eq_true]
    by_cases h9 : i = 9
    · simp [h9]
    · simp only [h9, if_false]
      have : t ≠ [] := by
        intro ht; subst ht; simp at hi; omega
      exact ih _ _ bs (fun x hx => hb x (by simp [hx])) (by omega) this

theorem readLoop_eq (f : Nat) : ∀ buf bs, f + buf.length = 10 → (∀ b ∈ buf, isLast b = false) →
    readLoop f buf bs = decodeLoop 9 64 0 0 (buf ++ bs) := by
  induction f with
  | zero =>
    intro buf bs hl hb
    have hne : buf ≠ [] := by intro h; subst h; simp at hl
    rw [decodeLoop_overflow buf 0 0 bs hb (by omega) hne]
    simp [readLoop]
  | succ f ih =>
    intro buf bs hl hb
    cases bs with
    | nil =>
      rw [decodeLoop_prefix buf 0 0 [] hb (by omega)]; simp [readLoop, decodeLoop]
    | cons b rest =>
      unfold readLoop
      by_cases hlast : isLast b = true
      · simp only [hlast, if_true]
        unfold decodeU64
        rw [decodeLoop_prefix buf 0 0 [b] hb (by omega), decodeLoop_prefix buf 0 0 (b :: rest) hb (by omega)]
        unfold decodeLoop
        simp only [Nat.zero_add]
        by_cases h1 : 64 ≤ buf.length * 7
        · simp only [h1, if_true]
        · by_cases h2 : b.toNat = 0 ∧ 0 < buf.length
          · simp only [h1, hlast, h2, if_true, if_false, and_self]
          · simp only [h1, hlast, h2, if_true, if_false]
      · have hnl : isLast b = false := by simpa using hlast
        simp only [hnl, Bool.false_eq_true, if_false]
        rw [ih (buf ++ [b]) rest (by simp; omega) (by
          intro x hx; rcases List.mem_append.mp hx with h | h
          · exact hb x h
          · simp at h; rw [h]; exact hnl)]
        simp

/-- `io::read_u64` is `decode::u64` applied to the reader's contents. -/
theorem readU64_eq (bs : List UInt8) : readU64 bs = decodeLoop 9 64 0 0 bs := by
  unfold readU64
  rw [readLoop_eq 10 [] bs (by simp) (by simp)]; simp

/-! ### decoding an encoding -/

theorem shift_bound (m i : Nat) (hm : m ≠ 0) (h : m * 2 ^ (i * 7) < 2 ^ 64) : i * 7 < 64 := by
  by_contra hc
  have h1 : 2 ^ 64 ≤ 2 ^ (i * 7) := Nat.pow_le_pow_right (by decide) (by omega)
  have h2 : 2 ^ (i * 7) ≤ m * 2 ^ (i * 7) := Nat.le_mul_of_pos_left _ (by omega)
  omega

/-- A value below 128 in the last position: one byte. -/
theorem decodeLoop_single (f m n i : Nat) (rest : List UInt8) (hn : n < 2 ^ (i * 7))
    (hv : m * 2 ^ (i * 7) + n < 2 ^ 64) (hm : m < 128) (hz : i = 0 ∨ m ≠ 0) :
    decodeLoop 9 64 n i (encodeLoop (f + 1) m ++ rest) = .ok (n + m * 2 ^ (i * 7), rest) := by
  have hd : m / 128 = 0 := Nat.div_eq_of_lt hm
  have hmod : m % 128 = m := Nat.mod_eq_of_lt hm
  have hb : (UInt8.ofNat m).toNat = m := toNat_ofNat_lt m (by omega)
  have h1 : ¬ 64 ≤ i * 7 := by
    rcases hz with h | h
    · subst h; decide
    · have := shift_bound m i h (by omega); omega
  simp only [encodeLoop, hd, if_true, hmod, List.singleton_append]
  unfold decodeLoop
  have hl : isLast (UInt8.ofNat m) = true := (isLast_iff _).2 (by omega)
  have h3 : ¬ ((UInt8.ofNat m).toNat = 0 ∧ 0 < i) := by
    rw [hb]; rcases hz with h | h <;> omega
  simp only [h1, if_false, hl, if_true, h3]
  rw [accum_eq' n i _ hn (by rw [hb, hmod]; omega), hb, hmod]

theorem decodeLoop_encodeLoop (f : Nat) : ∀ m n i rest, n < 2 ^ (i * 7) →
    m * 2 ^ (i * 7) + n < 2 ^ 64 → m < 128 ^ (f + 1) → (i = 0 ∨ m ≠ 0) →
    decodeLoop 9 64 n i (encodeLoop (f + 1) m ++ rest) = .ok (n + m * 2 ^ (i * 7), rest) := by
  induction f with
  | zero =>
    intro m n i rest hn hv hm hz
    exact decodeLoop_single 0 m n i rest hn hv (by simpa using hm) hz
  | succ f ih =>
    intro m n i rest hn hv hm hz
    by_cases hd : m / 128 = 0
    · have hm' : m < 128 := by
        by_contra hc
        have : 1 ≤ m / 128 := Nat.div_pos (by omega) (by decide)
        omega
      exact decodeLoop_single (f + 1) m n i rest hn hv hm' hz
    · have hP := Nat.two_pow_pos (i * 7)
      have hdm := Nat.div_add_mod m 128
      have hr : m % 128 < 128 := Nat.mod_lt _ (by decide)
      -- m = 128 * q + r, q ≠ 0
      have hq : 1 ≤ m / 128 := by omega
      have hb : (UInt8.ofNat (m % 128 + 128)).toNat = m % 128 + 128 := toNat_ofNat_lt _ (by omega)
      have hbm : (UInt8.ofNat (m % 128 + 128)).toNat % 128 = m % 128 := by rw [hb]; omega
      have hnl : isLast (UInt8.ofNat (m % 128 + 128)) = false := (isLast_false_iff _).2 (by omega)
      -- sizes: 128 * 2^(7i) ≤ m * 2^(7i) < 2^64
      have hmP : m * 2 ^ (i * 7) = 128 * (m / 128 * 2 ^ (i * 7)) + m % 128 * 2 ^ (i * 7) := by
        conv => lhs; rw [← hdm]
        ring
      have hqP : 2 ^ (i * 7) ≤ m / 128 * 2 ^ (i * 7) := Nat.le_mul_of_pos_left _ (by omega)
      have h7 := pow7 i
      have hi8 : i ≤ 8 := by
        by_contra hc
        have : 2 ^ 63 ≤ 2 ^ (i * 7) := Nat.pow_le_pow_right (by decide) (by omega)
        have : (2:Nat) ^ 64 = 2 * 2 ^ 63 := by decide
        omega
      have h1 : ¬ 64 ≤ i * 7 := by omega
      have h9 : ¬ i = 9 := by omega
      have hfuel : m / 128 < 128 ^ (f + 1) := by
        have : 128 ^ (f + 1 + 1) = 128 ^ (f + 1) * 128 := Nat.pow_succ ..
        rw [this] at hm
        exact Nat.div_lt_of_lt_mul (by rw [Nat.mul_comm]; exact hm)
      have hacc := accum_eq n i (UInt8.ofNat (m % 128 + 128)) hn hi8
      rw [hbm] at hacc
      have hrP : m % 128 * 2 ^ (i * 7) ≤ 127 * 2 ^ (i * 7) :=
        Nat.mul_le_mul_right _ (by omega)
      have step : encodeLoop (f + 1 + 1) m =
          UInt8.ofNat (m % 128 + 128) :: encodeLoop (f + 1) (m / 128) := by
        conv => lhs; unfold encodeLoop
        simp only [hd, if_false]
      rw [step, List.cons_append]
      unfold decodeLoop
      simp only [h1, if_false, hnl, Bool.false_eq_true, h9]
      rw [ih (m / 128) _ (i + 1) rest (by rw [hacc, h7]; omega) (by rw [hacc, h7]; nlinarith)
        hfuel (Or.inr (by omega))]
      rw [hacc, h7]
      congr 1
      rw [hmP]; ring_nf

/-- `read_u64` of an encoded `u64` (buffer of `f + 1 ≥` enough bytes) followed by anything. -/
theorem readU64_encode (f m : Nat) (rest : List UInt8) (hm : m < 2 ^ 64) (hf : m < 128 ^ (f + 1)) :
    readU64 (encodeLoop (f + 1) m ++ rest) = .ok (m, rest) := by
  rw [readU64_eq, decodeLoop_encodeLoop f m 0 0 rest (by simp) (by simpa using hm) hf (Or.inl rfl)]
  simp

theorem readU64_encodeU64 (m : Nat) (rest : List UInt8) (hm : m < 2 ^ 64) :
    readU64 (encodeU64 m ++ rest) = .ok (m, rest) :=
  readU64_encode 9 m rest hm (by have : (2:Nat) ^ 64 ≤ 128 ^ 10 := by decide
                                 omega)

theorem readU64_encodeU8 (m : Nat) (rest : List UInt8) (hm : m < 256) :
    readU64 (encodeU8 m ++ rest) = .ok (m, rest) :=
  readU64_encode 1 m rest (by omega) (by have : (256:Nat) ≤ 128 ^ 2 := by decide
                                         omega)

/-! ### canonicity: short varints decode only from their encoding -/

theorem headLen_pos (b : UInt8) (t : List UInt8) : 1 ≤ headLen (b :: t) := by
  unfold headLen; split <;> omega

/-- If `decode!` accepts a varint of fewer than 10 bytes, the bytes consumed are exactly the
encoding of the value (any buffer size that fits), and a value below 128 took one byte. -/
theorem decodeLoop_canon (bs : List UInt8) : ∀ n i v rest,
    decodeLoop 9 64 n i bs = .ok (v, rest) → n < 2 ^ (i * 7) → i + headLen bs ≤ 9 →
    ∃ m, v = n + m * 2 ^ (i * 7) ∧ (i = 0 ∨ m ≠ 0) ∧ (m < 128 → headLen bs = 1) ∧
      rest = bs.drop (headLen bs) ∧
      ∀ f, headLen bs ≤ f → bs = encodeLoop f m ++ rest := by
  induction bs with
  | nil => intro n i v rest h; simp [decodeLoop] at h
  | cons b t ih =>
    intro n i v rest h hn hi
    have hpos := headLen_pos b t
    have hi8 : i ≤ 8 := by omega
    unfold decodeLoop at h
    have h1 : ¬ 64 ≤ i * 7 := by omega
    simp only [h1, if_false] at h
    by_cases hl : isLast b = true
    · have hlen : headLen (b :: t) = 1 := by simp [headLen, hl]
      have hb : b.toNat < 128 := (isLast_iff b).1 hl
      simp only [hl, if_true] at h
      split at h
      · simp at h
      · rename_i hnm
        simp only [Except.ok.injEq, Prod.mk.injEq] at h
        refine ⟨b.toNat, ?_, ?_, fun _ => hlen, ?_, ?_⟩
        · rw [← h.1, accum_eq n i b hn hi8, Nat.mod_eq_of_lt hb]
        · omega
        · rw [hlen, ← h.2]; rfl
        · intro f hf
          rw [hlen] at hf
          obtain ⟨f', rfl⟩ : ∃ f', f = f' + 1 := ⟨f - 1, by omega⟩
          simp only [encodeLoop, Nat.div_eq_of_lt hb, if_true, Nat.mod_eq_of_lt hb,
            UInt8.ofNat_toNat, List.singleton_append, h.2]
    · have hnl : isLast b = false := by simpa using hl
      have hb : 128 ≤ b.toNat := (isLast_false_iff b).1 hnl
      have hb2 : b.toNat < 256 := UInt8.toNat_lt b
      have hlen : headLen (b :: t) = 1 + headLen t := by simp [headLen, hnl]
      have h9 : ¬ i = 9 := by omega
      simp only [hnl, Bool.false_eq_true, if_false, h9] at h
      have hacc := accum_eq n i b hn hi8
      have hP := Nat.two_pow_pos (i * 7)
      have h7 := pow7 i
      have hrP : b.toNat % 128 * 2 ^ (i * 7) ≤ 127 * 2 ^ (i * 7) :=
        Nat.mul_le_mul_right _ (by omega)
      obtain ⟨m', hv, hz, _, hrest, henc⟩ := ih _ (i + 1) v rest h
        (by rw [hacc, h7]; omega) (by omega)
      have hm' : m' ≠ 0 := by rcases hz with h | h <;> omega
      refine ⟨b.toNat % 128 + 128 * m', ?_, Or.inr (by omega), fun hlt => by omega, ?_, ?_⟩
      · rw [hv, hacc, h7]; ring
      · rw [hlen, hrest, Nat.add_comm 1, List.drop_succ_cons]
      · intro f hf
        rw [hlen] at hf
        obtain ⟨f', rfl⟩ : ∃ f', f = f' + 1 := ⟨f - 1, by omega⟩
        have hd : (b.toNat % 128 + 128 * m') / 128 = m' := by omega
        have hmod : (b.toNat % 128 + 128 * m') % 128 = b.toNat % 128 := by omega
        have hbb : b.toNat % 128 + 128 = b.toNat := by omega
        conv => rhs; unfold encodeLoop
        simp only [hd, hm', if_false, hmod, hbb, UInt8.ofNat_toNat, List.cons_append]
        rw [← henc f' (by omega)]

/-- `read_u64` accepted a varint shorter than 10 bytes: the input starts with the encoding. -/
theorem readU64_canon (bs : List UInt8) (v : Nat) (rest : List UInt8)
    (h : readU64 bs = .ok (v, rest)) (hs : headLen bs ≤ 9) :
    rest = bs.drop (headLen bs) ∧ (v < 128 → headLen bs = 1) ∧
    ∀ f, headLen bs ≤ f → bs = encodeLoop f v ++ rest := by
  rw [readU64_eq] at h
  obtain ⟨m, hv, _, h1, hr, henc⟩ := decodeLoop_canon bs 0 0 v rest h (by simp) (by omega)
  have : v = m := by simpa using hv
  subst this
  exact ⟨hr, h1, henc⟩

theorem readU64_lt (bs : List UInt8) (v : Nat) (rest : List UInt8)
    (h : readU64 bs = .ok (v, rest)) : v < 2 ^ 64 := by
  rw [readU64_eq] at h
  exact decodeLoop_lt bs 0 0 v rest (by decide) h

theorem readU64_no_panic (bs : List UInt8) : readU64 bs ≠ .error .shiftPanic := by
  rw [readU64_eq]; exact decodeLoop_no_panic bs 0 0 (by omega)

end Litep2pVerif.Id.Varint
