import Litep2pVerif.Proofs.Substream.Roundtrip
/-! `encode::usize` followed by `read_payload_size` is the identity on lengths below 2^64 (C04). -/
namespace Litep2pVerif.Substream

theorem encode_decode (fuel : Nat) : ∀ (v i acc : Nat), v < 128 ^ fuel → 0 < fuel → i + fuel ≤ 10 →
    (0 < i → v ≠ 0) →
    ∃ pre last, encodeLoop fuel v = pre ++ [last] ∧ (∀ b ∈ pre, isLast b = false) ∧ isLast last = true ∧
      pre.length < fuel ∧
      decodeLoop (pre ++ [last]) i acc = .ok ((acc + v * 2 ^ (7 * i)) % 2 ^ 64) := by
  induction fuel with
  | zero => intro v i acc _ h; omega
  | succ k ih =>
    intro v i acc hv _ hi hnz
    by_cases hq : v / 128 = 0
    · have hlt : v < 128 := by omega
      refine ⟨[], v, by simp [encodeLoop, hq]; omega, by simp, by simp [isLast, hlt], by simp, ?_⟩
      have hl : isLast v = true := by simp [isLast, hlt]
      have hnm : ¬ (v = 0 ∧ 0 < i) := fun ⟨h0, hi0⟩ => hnz hi0 h0
      simp only [List.nil_append, decodeLoop, hl, if_true, hnm, if_false]
      have : v % 128 = v := Nat.mod_eq_of_lt hlt
      rw [this]
    · have hk : 0 < k := by
        cases k with
        | zero => simp at hv; omega
        | succ j => omega
      have hdiv : v / 128 < 128 ^ k := by
        rw [Nat.pow_succ] at hv
        exact Nat.div_lt_of_lt_mul (by rw [Nat.mul_comm]; exact hv)
      obtain ⟨pre, last, he, hpre, hlast, hlen, hdec⟩ :=
        ih (v / 128) (i + 1) ((acc + (v % 128) * 2 ^ (7 * i)) % 2 ^ 64) hdiv hk (by omega) (fun _ => hq)
      have hb : isLast (v % 128 + 128) = false := by simp [isLast]
      refine ⟨(v % 128 + 128) :: pre, last, by simp [encodeLoop, hq, he], ?_, hlast, by simp; omega, ?_⟩
      · intro b hbm
        cases hbm with
        | head => exact hb
        | tail _ hbm => exact hpre b hbm
      · have h9 : ¬ (i = U64_MAX_BYTES) := by simp [U64_MAX_BYTES]; omega
        have hmod : (v % 128 + 128) % 128 = v % 128 := by omega
        simp only [List.cons_append, decodeLoop, hb, Bool.false_eq_true, if_false, h9, hmod]
        rw [hdec, Nat.mod_add_mod]
        congr 1
        have hp : 2 ^ (7 * (i + 1)) = 2 ^ (7 * i) * 128 := by rw [Nat.mul_add, Nat.pow_add]
        rw [hp]
        have hv' : v = v / 128 * 128 + v % 128 := by omega
        generalize 2 ^ (7 * i) = P
        generalize hqq : v / 128 = q at *
        generalize hrr : v % 128 = r at *
        subst hv'
        grind

theorem varintOk (L : Nat) (h : L < 2 ^ 64) : VarintOk L := by
  have hL : L < 128 ^ 10 := Nat.lt_of_lt_of_le h (by decide)
  obtain ⟨pre, last, he, hpre, hlast, hlen, hdec⟩ := encode_decode 10 L 0 0 hL (by decide) (by decide) (by omega)
  refine ⟨pre, last, he, hpre, by simpa [USIZE_LEN] using hlen, ?_⟩
  have hlen' : pre.length < USIZE_LEN := by simpa [USIZE_LEN] using hlen
  unfold readPayloadSize
  have hl : (pre ++ [last]).length = pre.length + 1 := by simp
  have hmin : min (pre ++ [last]).length USIZE_LEN = pre.length + 1 := by rw [hl]; omega
  rw [hmin, scanLast_append pre [last] 0 _ hpre (by omega)]
  simp only [scanLast, Nat.zero_add, hlast, if_true]
  have h2 : ¬ (pre.length + 1 ≤ pre.length) := by omega
  simp only [h2, if_false]
  have ht : List.take (pre.length + 1) (pre ++ [last]) = pre ++ [last] := by
    apply List.take_of_length_le; simp
  rw [ht, hdec]
  simp [Nat.mod_eq_of_lt h]

theorem rps_overflow (pre : Bytes) (b : Nat) (hpre : ∀ x ∈ pre, isLast x = false) (hb : isLast b = false)
    (hlen : pre.length + 1 = USIZE_LEN) : readPayloadSize (pre ++ [b]) = .error .overflow := by
  unfold readPayloadSize
  have hl : (pre ++ [b]).length = pre.length + 1 := by simp
  have hmin : min (pre ++ [b]).length USIZE_LEN = pre.length + 1 := by rw [hl]; omega
  rw [hmin, scanLast_append pre [b] 0 _ hpre (by omega)]
  simp only [scanLast, Nat.zero_add, hb, Bool.false_eq_true, if_false, hl]
  have h2 : ¬ (pre.length + 1 ≤ pre.length) := by omega
  simp only [h2, if_false]
  simp [hlen]

/-- An announced length above the configured maximum: the first thing the reader reports is an error. -/
theorem consume_oversize (m L : Nat) (rest : Bytes) (st : RState) (hi : IdleState (.varint (some m)) st)
    (hL : L < 2 ^ 64) (hbig : m < L) :
    (consume (.varint (some m)) st (encodeUsize L ++ rest)).1.head? = some (.err .readFailure) := by
  obtain ⟨rbLen, rbData, offset, cur, svData⟩ := st
  obtain ⟨ha, h2, h3, h4⟩ := hi
  simp only at ha h2 h3 h4
  subst h2 h3 h4
  obtain ⟨pre, last, henc, hpre, hplen, hrps⟩ := varintOk L hL
  rw [henc, consume_append, consume_append]
  have hp := consume_prefix (some m) rbLen rbData [] pre (by simpa using hpre) (by simpa using hplen)
  simp only [List.nil_append, List.length_nil] at hp
  rw [hp, consume_single]
  have hlast : onRead (.varint (some m)) ⟨rbLen, rbData, pre.length, none, pre⟩ (.ok [last]) =
      (⟨rbLen, rbData, 0, none, []⟩, some (.err .readFailure)) := by
    simp only [onRead, List.length_singleton]
    rw [if_neg (by omega), hrps]
    simp only []
    rw [if_neg (by omega)]
    have : overMax (some m) L = true := by simp [overMax, hbig]
    rw [this]; simp
  rw [hlast]
  simp [optList]

/-- Ten continuation bytes (no terminator within `usize_buffer`): the reader reports an error. -/
theorem consume_overlong (max : Option Nat) (pre : Bytes) (b : Nat) (rest : Bytes) (st : RState)
    (hi : IdleState (.varint max) st) (hpre : ∀ x ∈ pre, isLast x = false) (hb : isLast b = false)
    (hlen : pre.length + 1 = USIZE_LEN) :
    (consume (.varint max) st (pre ++ [b] ++ rest)).1.head? = some (.err .readFailure) := by
  obtain ⟨rbLen, rbData, offset, cur, svData⟩ := st
  obtain ⟨ha, h2, h3, h4⟩ := hi
  simp only at ha h2 h3 h4
  subst h2 h3 h4
  rw [consume_append, consume_append]
  have hp := consume_prefix max rbLen rbData [] pre (by simpa using hpre) (by simp; omega)
  simp only [List.nil_append, List.length_nil] at hp
  rw [hp, consume_single]
  have hlast : onRead (.varint max) ⟨rbLen, rbData, pre.length, none, pre⟩ (.ok [b]) =
      (⟨rbLen, rbData, 0, none, []⟩, some (.err .readFailure)) := by
    simp only [onRead, List.length_singleton]
    rw [if_neg (by omega), rps_overflow pre b hpre hb hlen]
  rw [hlast]
  simp [optList]

end Litep2pVerif.Substream
