import Litep2pVerif.Model.Substream.TokioCodec
import Litep2pVerif.Proofs.Substream.Varint
/-! Lemmas about the `tokio_util` codecs of `src/codec/` (C04): round trip, need-more on every proper
prefix, the maximum-size rule and the reservation bound. -/
namespace Litep2pVerif.Substream

/-! ## `decode::usize` with the rest -/

theorem uviRead_nonlast (pre : Bytes) (i acc : Nat) (hpre : ∀ b ∈ pre, isLast b = false) (hlen : i + pre.length ≤ 9) :
    uviRead pre i acc = .error .insufficient := by
  induction pre generalizing i acc with
  | nil => rfl
  | cons b t ih =>
    have hb := hpre b (by simp)
    simp only [List.length_cons] at hlen
    simp only [uviRead, hb, Bool.false_eq_true, if_false]
    rw [if_neg (by simp [U64_MAX_BYTES]; omega)]
    exact ih _ _ (fun x hx => hpre x (by simp [hx])) (by omega)

theorem uviRead_decodeLoop (pre : Bytes) (last : Nat) (rest : Bytes) (i acc v : Nat)
    (hd : decodeLoop (pre ++ [last]) i acc = .ok v) (hpre : ∀ b ∈ pre, isLast b = false) :
    uviRead (pre ++ last :: rest) i acc = .ok (v, rest) := by
  induction pre generalizing i acc with
  | nil =>
    simp only [List.nil_append, decodeLoop] at hd
    simp only [List.nil_append, uviRead]
    split at hd
    · rename_i hl
      rw [if_pos hl]
      split at hd
      · simp at hd
      · rename_i hnm
        rw [if_neg hnm]
        injection hd with hd; rw [hd]
    · rename_i hl
      split at hd <;> simp [decodeLoop] at hd
  | cons b t ih =>
    have hb := hpre b (by simp)
    simp only [List.cons_append, decodeLoop, hb, Bool.false_eq_true, if_false] at hd
    simp only [List.cons_append, uviRead, hb, Bool.false_eq_true, if_false]
    split at hd
    · simp at hd
    · rename_i h9
      rw [if_neg h9]
      exact ih _ _ hd (fun x hx => hpre x (by simp [hx]))

/-- The pieces of `encode::usize(n)`: continuation bytes and a final byte, at most ten in all. -/
theorem encodeUsize_shape (n : Nat) (hn : n < 2 ^ 64) :
    ∃ pre last, encodeUsize n = pre ++ [last] ∧ (∀ b ∈ pre, isLast b = false) ∧ pre.length ≤ 9 ∧
      ∀ rest, uviRead (pre ++ last :: rest) 0 0 = .ok (n, rest) := by
  have hL : n < 128 ^ 10 := Nat.lt_of_lt_of_le hn (by decide)
  obtain ⟨pre, last, he, hpre, _, hlen, hdec⟩ := encode_decode 10 n 0 0 hL (by decide) (by decide) (by omega)
  refine ⟨pre, last, he, hpre, by omega, ?_⟩
  intro rest
  have := uviRead_decodeLoop pre last rest 0 0 _ hdec hpre
  rw [this]
  simp [Nat.mod_eq_of_lt hn]

theorem uviRead_encode (n : Nat) (hn : n < 2 ^ 64) (rest : Bytes) :
    uviRead (encodeUsize n ++ rest) 0 0 = .ok (n, rest) := by
  obtain ⟨pre, last, he, _, _, hrd⟩ := encodeUsize_shape n hn
  rw [he, List.append_assoc]
  exact hrd rest

/-! ## `UnsignedVarint` -/

/-- `decode(encode(x) ++ rest) = x`, the rest stays in the buffer, nothing is reserved. -/
theorem uviDecode_encode (st : UviState) (item rest : Bytes) (hl : st.len = none) (hm : item.length ≤ st.max)
    (h64 : item.length < 2 ^ 64) :
    uviDecode st (encodeUsize item.length ++ item ++ rest) = (.frame item, st, rest, none) := by
  unfold uviDecode
  rw [hl, List.append_assoc, uviRead_encode _ h64]
  simp only [uviBody]
  rw [if_neg (by omega), if_pos (by simp)]
  simp only [List.take_left', List.drop_left', Prod.mk.injEq, true_and]
  refine ⟨?_, trivial⟩
  cases st; simp_all

/-- Every proper prefix of a frame: `None` (never an error, never a frame); the bytes stay available
(the length prefix is consumed once it is complete) and feeding the remainder yields the frame. -/
theorem uviDecode_prefix (st : UviState) (item : Bytes) (k : Nat) (hl : st.len = none) (hm : item.length ≤ st.max)
    (h64 : item.length < 2 ^ 64) (hk : k < (encodeUsize item.length ++ item).length) :
    ∃ st' buf rsv, uviDecode st ((encodeUsize item.length ++ item).take k) = (.needMore, st', buf, rsv) ∧
      (∀ r, rsv = some r → r ≤ st.max) ∧
      uviDecode st' (buf ++ (encodeUsize item.length ++ item).drop k) = (.frame item, st, [], none) := by
  obtain ⟨pre, last, he, hpre, hplen, hrd⟩ := encodeUsize_shape item.length h64
  have hst : ({ max := st.max, len := none } : UviState) = st := by cases st; simp_all
  by_cases hkp : k < (pre ++ [last]).length
  · -- inside the length prefix
    have htake : (encodeUsize item.length ++ item).take k = pre.take k := by
      rw [he, List.append_assoc, List.take_append_of_le_length (by simp at hkp ⊢; omega)]
    refine ⟨st, pre.take k, none, ?_, by simp, ?_⟩
    · rw [htake]
      unfold uviDecode
      rw [hl, uviRead_nonlast _ 0 0 (fun b hb => hpre b (List.mem_of_mem_take hb)) (by simp; omega)]
    · rw [← htake, List.take_append_drop]
      have := uviDecode_encode st item [] hl hm h64
      simpa using this
  · -- inside the body
    have hkp' : pre.length + 1 ≤ k := by simp at hkp; omega
    have hlenF : (encodeUsize item.length ++ item).length = pre.length + 1 + item.length := by rw [he]; simp; omega
    have htake : (encodeUsize item.length ++ item).take k = pre ++ last :: item.take (k - (pre.length + 1)) := by
      rw [he, List.take_append, List.take_of_length_le (by simp; omega)]
      simp
    have hdrop : (encodeUsize item.length ++ item).drop k = item.drop (k - (pre.length + 1)) := by
      rw [he, List.drop_append, List.drop_of_length_le (by simp; omega)]
      simp
    have hshort : (item.take (k - (pre.length + 1))).length < item.length := by
      simp only [List.length_take]; omega
    refine ⟨{ st with len := some item.length }, item.take (k - (pre.length + 1)),
      some (item.length - (item.take (k - (pre.length + 1))).length), ?_, ?_, ?_⟩
    · rw [htake]
      unfold uviDecode
      rw [hl, hrd]
      simp only [uviBody]
      rw [if_neg (by omega), if_neg (by omega)]
    · intro r hr; injection hr with hr; omega
    · rw [hdrop, List.take_append_drop]
      simp only [uviDecode, uviBody]
      rw [if_neg (by omega), if_pos (Nat.le_refl _)]
      simp [hst]

/-- The maximum-size rule, sender: a longer item is refused and nothing is written. -/
theorem uviEncode_refuses (st : UviState) (item dst : Bytes) (h : st.max < item.length) : uviEncode st item dst = none := by
  simp [uviEncode, h]

theorem uviEncode_accepts (st : UviState) (item dst : Bytes) (h : item.length ≤ st.max) :
    uviEncode st item dst = some (dst ++ encodeUsize item.length ++ item) := by
  simp [uviEncode]; omega

/-- The maximum-size rule, receiver: an announced length above the maximum is an error as soon as the
prefix is complete — whatever follows — and nothing is reserved for it. -/
theorem uviDecode_oversize (st : UviState) (n : Nat) (rest : Bytes) (hl : st.len = none) (hn : n < 2 ^ 64)
    (hbig : st.max < n) :
    uviDecode st (encodeUsize n ++ rest) = (.err .permissionDenied, st, rest, none) := by
  unfold uviDecode
  rw [hl, uviRead_encode _ hn]
  simp only [uviBody]
  rw [if_pos hbig]
  cases st; simp_all

/-- State invariant: a body is only awaited for an announced length within the maximum. -/
def UviInv (st : UviState) : Prop := ∀ n, st.len = some n → n ≤ st.max

theorem uviInv_new (max : Option Nat) : UviInv (UviState.new max) := by
  intro n h; simp [UviState.new] at h

theorem uviBody_spec (st : UviState) (n : Nat) (src : Bytes) :
    UviInv (uviBody st n src).2.1 ∧ (uviBody st n src).2.1.max = st.max ∧
    (∀ r, (uviBody st n src).2.2.2 = some r → r ≤ st.max) ∧
    (∀ f, (uviBody st n src).1 = .frame f → f.length ≤ st.max) := by
  unfold uviBody
  split
  · exact ⟨by intro k hk; simp at hk, rfl, by simp, by simp⟩
  · split
    · refine ⟨by intro k hk; simp at hk, rfl, by simp, ?_⟩
      intro f hf
      simp only [DecRes.frame.injEq] at hf
      subst hf
      simp only [List.length_take]; omega
    · refine ⟨?_, rfl, ?_, by simp⟩
      · intro k hk
        simp only [Option.some.injEq] at hk
        show k ≤ st.max
        omega
      · intro r hr; simp at hr; omega

/-- **No allocation beyond the declared maximum**: whatever the buffer holds, one `decode` call asks
`reserve` for at most `max` bytes, returns a frame of at most `max` bytes, and keeps the invariant. -/
theorem uviDecode_spec (st : UviState) (src : Bytes) (h : UviInv st) :
    UviInv (uviDecode st src).2.1 ∧ (uviDecode st src).2.1.max = st.max ∧
    (∀ r, (uviDecode st src).2.2.2 = some r → r ≤ st.max) ∧
    (∀ f, (uviDecode st src).1 = .frame f → f.length ≤ st.max) := by
  unfold uviDecode
  split
  · exact uviBody_spec st _ src
  · split
    · exact ⟨h, rfl, by simp, by simp⟩
    · exact ⟨h, rfl, by simp, by simp⟩
    · exact uviBody_spec st _ _

/-! ## `Identity` -/

theorem idDecode_encode (n : Nat) (item rest dst : Bytes) (hn : 0 < n) (hl : item.length = n) :
    idEncode n item dst = some (dst ++ item) ∧ idDecode n (item ++ rest) = (.frame item, rest) := by
  have hne : item ≠ [] := by intro h; subst h; simp at hl; omega
  refine ⟨?_, ?_⟩
  · simp only [idEncode]
    rw [if_neg]
    simp [hl, hne]
  · simp only [idDecode]
    rw [if_neg]
    · rw [← hl]; simp
    · simp [hne]; omega

theorem idDecode_short (n : Nat) (src : Bytes) (h : src.length < n) : idDecode n src = (.needMore, src) := by
  simp [idDecode, h]

theorem idEncode_refuses (n : Nat) (item dst : Bytes) (h : item.length ≠ n) : idEncode n item dst = none := by
  simp [idEncode, h]

theorem idDecode_frame_len (n : Nat) (src f : Bytes) (h : (idDecode n src).1 = .frame f) : f.length = n := by
  simp only [idDecode] at h
  split at h
  · simp at h
  · rename_i hc
    simp only [DecRes.frame.injEq] at h
    subst h
    simp only [List.length_take]
    simp at hc; omega

end Litep2pVerif.Substream
