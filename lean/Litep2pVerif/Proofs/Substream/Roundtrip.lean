import Litep2pVerif.Proofs.Substream.Codec
/-! Round trip of the reader model (C04): `poll_next` under any fragmentation behaves like feeding the
bytes one at a time (`consume`), and `consume` inverts the wire format. -/
namespace Litep2pVerif.Substream

/-- Feed bytes one at a time through the loop body, collecting what `poll_next` would return. -/
def consume (codec : Codec) : RState → Bytes → List Out × RState
  | st, [] => ([], st)
  | st, b :: bs =>
    match (onRead codec st (.ok [b])).2 with
    | some o => (o :: (consume codec (onRead codec st (.ok [b])).1 bs).1, (consume codec (onRead codec st (.ok [b])).1 bs).2)
    | none => consume codec (onRead codec st (.ok [b])).1 bs

def optList : Option Out → List Out
  | some o => [o]
  | none => []

theorem consume_append (codec : Codec) (st : RState) (a b : Bytes) :
    consume codec st (a ++ b) =
      ((consume codec st a).1 ++ (consume codec (consume codec st a).2 b).1,
       (consume codec (consume codec st a).2 b).2) := by
  induction a generalizing st with
  | nil => simp [consume]
  | cons x a ih =>
    simp only [List.cons_append, consume]
    cases h : (onRead codec st (.ok [x])).2 with
    | some o => simp only []; rw [ih]; simp
    | none => simp only []; rw [ih]

theorem consume_single (codec : Codec) (st : RState) (b : Nat) :
    consume codec st [b] = (optList (onRead codec st (.ok [b])).2, (onRead codec st (.ok [b])).1) := by
  simp only [consume]
  cases (onRead codec st (.ok [b])).2 <;> simp [optList]

/-- One inner read delivering a chunk is the same as delivering its bytes one by one. -/
theorem consume_chunk (codec : Codec) (st : RState) (h : RInv codec st) (cap : Nat)
    (hcap : readCap codec st = .ok cap) (bs : Bytes) (hne : bs ≠ []) (hle : bs.length ≤ cap) :
    consume codec st bs = (optList (onRead codec st (.ok bs)).2, (onRead codec st (.ok bs)).1) := by
  induction bs generalizing st cap with
  | nil => exact absurd rfl hne
  | cons b t ih =>
    cases t with
    | nil =>
      simp only [consume]
      cases (onRead codec st (.ok [b])).2 <;> simp [optList]
    | cons c t =>
      -- the first byte cannot complete anything: at least two bytes fit
      obtain ⟨rbLen, rbData, offset, cur, svData⟩ := st
      have hlen : 2 ≤ (b :: c :: t).length := by simp
      cases codec with
      | identity n =>
        obtain ⟨h1, h2, h3, h4⟩ := h
        simp only at h1 h2 h3 h4
        have hcap' : cap = n - offset := by
          simp only [readCap] at hcap
          rw [if_pos ⟨h3, by omega⟩] at hcap
          injection hcap with hcap; exact hcap.symm
        have hfirst : onRead (.identity n) ⟨rbLen, rbData, offset, cur, svData⟩ (.ok [b]) =
            (⟨rbLen, rbData ++ [b], offset + 1, cur, svData⟩, none) := by
          simp only [onRead, List.length_singleton]
          rw [if_neg (by omega), if_neg (by simp only [List.length_cons] at hle; omega)]
        have hinv1 : RInv (.identity n) ⟨rbLen, rbData ++ [b], offset + 1, cur, svData⟩ := by
          simp only [List.length_cons] at hle
          exact ⟨h1, by simp [h2], by show offset + 1 ≤ n; omega, fun _ => by show offset + 1 < n; omega⟩
        have hcap1 : readCap (.identity n) ⟨rbLen, rbData ++ [b], offset + 1, cur, svData⟩ = .ok (n - (offset + 1)) := by
          simp only [List.length_cons] at hle
          simp only [readCap]; rw [if_pos ⟨by omega, by omega⟩]
        rw [consume, hfirst]
        simp only []
        rw [ih _ hinv1 _ hcap1 (by simp) (by simp only [List.length_cons] at hle ⊢; omega)]
        simp only [onRead, List.length_cons, List.append_assoc, List.singleton_append]
        have e : offset + 1 + (t.length + 1) = offset + (t.length + 1 + 1) := by omega
        rw [e]; simp
      | varint max =>
        obtain ⟨ha, h⟩ := h
        cases cur with
        | none =>
          -- capacity 1
          simp only [readCap] at hcap
          split at hcap
          · injection hcap with hcap; simp only [List.length_cons] at hle; omega
          · simp at hcap
        | some fs =>
          obtain ⟨h1, h2, h3, h4, h5⟩ := h
          simp only at h1 h2 h3 h4 h5
          have hcap' : cap = rbLen - offset := by
            simp only [readCap] at hcap
            rw [if_pos (by omega)] at hcap
            injection hcap with hcap; exact hcap.symm
          have hfirst : onRead (.varint max) ⟨rbLen, rbData, offset, some fs, svData⟩ (.ok [b]) =
              (⟨rbLen, rbData ++ [b], offset + 1, some fs, svData⟩, none) := by
            simp only [onRead, List.length_singleton]
            rw [if_neg (by omega), if_neg (by simp only [List.length_cons] at hle; omega)]
          have hinv1 : RInv (.varint max) ⟨rbLen, rbData ++ [b], offset + 1, some fs, svData⟩ := by
            simp only [List.length_cons] at hle
            exact ⟨ha, h1, by simp [h2], by show offset + 1 < fs; omega, h4, h5⟩
          have hcap1 : readCap (.varint max) ⟨rbLen, rbData ++ [b], offset + 1, some fs, svData⟩ = .ok (rbLen - (offset + 1)) := by
            simp only [List.length_cons] at hle
            simp only [readCap]; rw [if_pos (by omega)]
          rw [consume, hfirst]
          simp only []
          rw [ih _ hinv1 _ hcap1 (by simp) (by simp only [List.length_cons] at hle ⊢; omega)]
          simp only [onRead, List.length_cons, List.append_assoc, List.singleton_append]
          have e : offset + 1 + (t.length + 1) = offset + (t.length + 1 + 1) := by omega
          rw [e]; simp

/-- Only data (non-empty) and `Pending`: the carrier of a healthy connection. -/
def DataOnly (car : Carrier) : Prop := ∀ s ∈ car, s = .pending ∨ ∃ bs, s = .data bs ∧ bs ≠ []

theorem cap_pos {codec : Codec} {st : RState} (h : RInv codec st) (hc : codec ≠ .identity 0) (cap : Nat)
    (hcap : readCap codec st = .ok cap) : 0 < cap := by
  obtain ⟨rbLen, rbData, offset, cur, svData⟩ := st
  cases codec with
  | identity n =>
    obtain ⟨h1, h2, h3, h4⟩ := h
    simp only at h1 h2 h3 h4
    have hn : 0 < n := by
      cases n with
      | zero => exact absurd rfl hc
      | succ k => omega
    simp only [readCap] at hcap
    rw [if_pos ⟨h3, by omega⟩] at hcap
    injection hcap with hcap
    have := h4 hn; omega
  | varint max =>
    obtain ⟨_, h⟩ := h
    cases cur with
    | some fs =>
      obtain ⟨h1, h2, h3, _⟩ := h
      simp only at h1 h2 h3
      simp only [readCap] at hcap
      rw [if_pos (by omega)] at hcap
      injection hcap with hcap; omega
    | none =>
      simp only [readCap] at hcap
      split at hcap
      · injection hcap with hcap; omega
      · simp at hcap

/-- `onRead` on a non-empty chunk never yields `Pending` or `eof`. -/
theorem onRead_ok_out (codec : Codec) (st : RState) (bs : Bytes) (hne : bs ≠ []) (o : Out)
    (h : (onRead codec st (.ok bs)).2 = some o) : o.isPending = false ∧ o ≠ .eof := by
  have hl : bs.length ≠ 0 := by cases bs <;> simp at hne ⊢
  obtain ⟨rbLen, rbData, offset, cur, svData⟩ := st
  cases codec with
  | identity n =>
    simp only [onRead] at h
    rw [if_neg hl] at h
    split at h <;> simp at h
    subst h; exact ⟨rfl, by simp⟩
  | varint max =>
    cases cur with
    | some fs =>
      simp only [onRead] at h
      rw [if_neg hl] at h
      split at h <;> simp at h
      subst h; exact ⟨rfl, by simp⟩
    | none =>
      simp only [onRead] at h
      rw [if_neg hl] at h
      split at h
      · simp at h
      · simp at h; subst h; exact ⟨rfl, by simp⟩
      · split at h
        · simp at h; subst h; exact ⟨rfl, by simp⟩
        · split at h
          · simp at h; subst h; exact ⟨rfl, by simp⟩
          · split at h
            · simp at h; subst h; exact ⟨rfl, by simp⟩
            · simp at h

theorem carBytes_dataOnly_cons (s : Seg) (r : Carrier) (h : DataOnly (s :: r)) : DataOnly r :=
  fun x hx => h x (List.mem_cons_of_mem _ hx)

/-- `poll_next` over a healthy carrier: it consumed a prefix of the carrier's bytes exactly as
`consume` does, returned `consume`'s single output (or `Pending` and no output), and made progress. -/
theorem pollNextF_consume (codec : Codec) (hc : codec ≠ .identity 0) (fuel : Nat) (st : RState) (car : Carrier)
    (h : RInv codec st) (hd : DataOnly car) (hf : carSize car < fuel) :
    ∃ consumed,
      carBytes car = consumed ++ carBytes (pollNextF codec fuel st car).2.2 ∧
      consume codec st consumed =
        ((if (pollNextF codec fuel st car).1.isPending then [] else [(pollNextF codec fuel st car).1]),
          (pollNextF codec fuel st car).2.1) ∧
      DataOnly (pollNextF codec fuel st car).2.2 ∧
      (car ≠ [] → carSize (pollNextF codec fuel st car).2.2 < carSize car) ∧
      (pollNextF codec fuel st car).1.isPanic = false := by
  induction fuel generalizing st car with
  | zero => omega
  | succ fuel ih =>
    obtain ⟨cap, hcap⟩ := readCap_ok h
    have hpos := cap_pos h hc cap hcap
    unfold pollNextF
    simp only [hcap]
    cases car with
    | nil =>
      have : (onRead codec st (carRead cap []).1) = (st, some .pending) := by
        simp only [carRead]
        obtain ⟨rbLen, rbData, offset, cur, svData⟩ := st
        cases codec with
        | identity n => rfl
        | varint max => cases cur <;> rfl
      rw [this]
      exact ⟨[], by simp [carRead, carBytes], by simp [consume, Out.isPending], by simpa [carRead] using hd,
        fun hne => absurd rfl hne, rfl⟩
    | cons s r =>
      have hdr := carBytes_dataOnly_cons s r hd
      rcases hd s (List.mem_cons_self) with hs | ⟨bs, hs, hbs⟩
      · subst hs
        have : (onRead codec st (carRead cap (.pending :: r)).1) = (st, some .pending) := by
          simp only [carRead]
          obtain ⟨rbLen, rbData, offset, cur, svData⟩ := st
          cases codec with
          | identity n => rfl
          | varint max => cases cur <;> rfl
        rw [this]
        exact ⟨[], by simp [carRead, carBytes], by simp [consume, Out.isPending], by simpa [carRead] using hdr,
          fun _ => by simp [carRead, carSize, segSize], rfl⟩
      · subst hs
        have hcz : cap ≠ 0 := by omega
        have hread1 : (carRead cap (.data bs :: r)).1 = .ok (bs.take cap) := by simp [carRead, hcz]
        have hread2 : (carRead cap (.data bs :: r)).2 = if bs.length ≤ cap then r else .data (bs.drop cap) :: r := by
          simp [carRead, hcz]
        have htne : bs.take cap ≠ [] := by
          cases bs with
          | nil => exact absurd rfl hbs
          | cons x t => cases cap with
            | zero => omega
            | succ k => simp
        have htle : (bs.take cap).length ≤ cap := by simp only [List.length_take]; exact Nat.min_le_left _ _
        have hchunk := consume_chunk codec st h cap hcap (bs.take cap) htne htle
        have hinv := onRead_inv h cap hcap (.ok (bs.take cap)) (fun x hx => by injection hx with hx; subst hx; exact htle)
        have hbytes : carBytes (.data bs :: r) = bs.take cap ++ carBytes (if bs.length ≤ cap then r else .data (bs.drop cap) :: r) := by
          by_cases hl : bs.length ≤ cap
          · simp [hl, carBytes, List.take_of_length_le hl]
          · simp [hl, carBytes, ← List.append_assoc, List.take_append_drop]
        have hdo : DataOnly (if bs.length ≤ cap then r else .data (bs.drop cap) :: r) := by
          by_cases hl : bs.length ≤ cap
          · simpa [hl] using hdr
          · simp only [hl, if_false]
            intro x hx
            cases hx with
            | head => exact Or.inr ⟨_, rfl, by intro he; have := congrArg List.length he; simp at this; omega⟩
            | tail _ hx => exact hdr x hx
        have hsz : carSize (if bs.length ≤ cap then r else .data (bs.drop cap) :: r) < carSize (.data bs :: r) := by
          by_cases hl : bs.length ≤ cap
          · simp [hl, carSize, segSize]
          · simp [hl, carSize, segSize]; omega
        rw [hread1, hread2]
        cases ho : onRead codec st (.ok (bs.take cap)) with
        | mk st' o =>
          rw [ho] at hchunk hinv
          cases o with
          | some out =>
            simp only []
            obtain ⟨hnp, hneof⟩ := onRead_ok_out codec st (bs.take cap) htne out (by rw [ho])
            refine ⟨bs.take cap, hbytes, ?_, hdo, fun _ => hsz, hinv.2 out rfl⟩
            rw [hchunk]; simp [optList, hnp]
          | none =>
            simp only []
            have hf' : carSize (if bs.length ≤ cap then r else .data (bs.drop cap) :: r) < fuel := by omega
            obtain ⟨consumed, c1, c2, c3, c4, c5⟩ := ih st' _ hinv.1 hdo hf'
            refine ⟨bs.take cap ++ consumed, ?_, ?_, c3, ?_, c5⟩
            · rw [hbytes, c1, List.append_assoc]
            · rw [consume_append, hchunk]; simp only [optList, List.nil_append]; rw [c2]
            · intro _
              by_cases hcar : (if bs.length ≤ cap then r else .data (bs.drop cap) :: r) = []
              · have := c4
                -- the rest is empty: nothing more can be consumed, sizes compare trivially
                have hle : carSize (pollNextF codec fuel st' (if bs.length ≤ cap then r else .data (bs.drop cap) :: r)).2.2 ≤
                    carSize (if bs.length ≤ cap then r else .data (bs.drop cap) :: r) := by
                  rw [hcar]
                  cases fuel with
                  | zero => simp [pollNextF, carSize]
                  | succ k =>
                    obtain ⟨cap', hcap'⟩ := readCap_ok hinv.1
                    unfold pollNextF
                    simp only [hcap', carRead]
                    cases hx : onRead codec st' RdRes.pending with
                    | mk a b => cases b <;> simp [carSize] <;>
                      (obtain ⟨rbLen, rbData, offset, cur, svData⟩ := st'
                       cases codec with
                       | identity n => simp [onRead] at hx
                       | varint max => cases cur <;> simp [onRead] at hx)
                omega
              · exact Nat.lt_trans (c4 hcar) hsz

theorem recvAllF_consume (codec : Codec) (hc : codec ≠ .identity 0) (fuel : Nat) (st : RState) (car : Carrier)
    (h : RInv codec st) (hd : DataOnly car) (hf : carSize car < fuel) :
    (recvAllF codec fuel st car).filter (fun o => !o.isPending) = (consume codec st (carBytes car)).1 := by
  induction fuel generalizing st car with
  | zero => omega
  | succ fuel ih =>
    unfold recvAllF
    cases car with
    | nil => simp [carBytes, consume]
    | cons s r =>
      simp only []
      obtain ⟨consumed, c1, c2, c3, c4, c5⟩ :=
        pollNextF_consume codec hc (carSize (s :: r) + 1) st (s :: r) h hd (by omega)
      have hinv := (pollNextF_inv codec (carSize (s :: r) + 1) st (s :: r) h).2
      have hlt := c4 (by simp)
      unfold pollNext
      simp only [c5, Bool.false_eq_true, if_false]
      rw [c1, consume_append, c2]
      simp only [List.filter_cons]
      rw [ih _ _ hinv c3 (by omega)]
      cases hp : (pollNextF codec (carSize (s :: r) + 1) st (s :: r)).1.isPending <;> simp

/-! ## `consume` inverts the wire format -/

/-- The length `L` survives `encode::usize` followed by `read_payload_size`: the encoding is a run of
continuation bytes (fewer than `USIZE_LEN`) and one terminating byte, and decodes to `L`. -/
def VarintOk (L : Nat) : Prop :=
  ∃ pre last, encodeUsize L = pre ++ [last] ∧ (∀ b ∈ pre, isLast b = false) ∧ pre.length < USIZE_LEN ∧
    readPayloadSize (pre ++ [last]) = .ok (L, pre.length + 1)

theorem rps_nonlast (pre : Bytes) (b : Nat) (hpre : ∀ x ∈ pre, isLast x = false) (hb : isLast b = false)
    (hlen : pre.length + 1 < USIZE_LEN) : readPayloadSize (pre ++ [b]) = .error .notEnoughBytes := by
  unfold readPayloadSize
  have hl : (pre ++ [b]).length = pre.length + 1 := by simp
  have hmin : min (pre ++ [b]).length USIZE_LEN = pre.length + 1 := by rw [hl]; omega
  rw [hmin, scanLast_append pre [b] 0 _ hpre (by omega)]
  simp only [scanLast]
  have h2 : ¬ (pre.length + 1 ≤ 0 + pre.length) := by omega
  simp only [h2, if_false, hb, Bool.false_eq_true, hl]
  simp [hlen]

theorem consume_prefix (max : Option Nat) (rbLen : Nat) (rbData p1 p2 : Bytes)
    (h : ∀ b ∈ p1 ++ p2, isLast b = false) (hl : (p1 ++ p2).length < USIZE_LEN) :
    consume (.varint max) ⟨rbLen, rbData, p1.length, none, p1⟩ p2 =
      ([], ⟨rbLen, rbData, (p1 ++ p2).length, none, p1 ++ p2⟩) := by
  induction p2 generalizing p1 with
  | nil => simp [consume]
  | cons b p2 ih =>
    have hp1 : ∀ x ∈ p1, isLast x = false := fun x hx => h x (List.mem_append_left _ hx)
    have hb : isLast b = false := h b (by simp)
    have hlen : p1.length + 1 < USIZE_LEN := by simp at hl; omega
    have hfirst : onRead (.varint max) ⟨rbLen, rbData, p1.length, none, p1⟩ (.ok [b]) =
        (⟨rbLen, rbData, p1.length + 1, none, p1 ++ [b]⟩, none) := by
      simp only [onRead, List.length_singleton]
      rw [if_neg (by omega), rps_nonlast p1 b hp1 hb hlen]
    rw [consume, hfirst]
    simp only []
    have e : p1.length + 1 = (p1 ++ [b]).length := by simp
    rw [e, ih (p1 ++ [b]) (by simpa using h) (by simpa using hl)]
    simp

def IdleState (codec : Codec) (st : RState) : Prop :=
  match codec with
  | .identity n => st.rbLen = n ∧ st.rbData = [] ∧ st.offset = 0
  | .varint max => AllocOk max st.rbLen ∧ st.offset = 0 ∧ st.cur = none ∧ st.svData = []

theorem idle_init (codec : Codec) : IdleState codec (RState.init codec) := by
  cases codec with
  | identity n => simp [IdleState, RState.init]
  | varint max => exact ⟨(rinv_init (.varint max)).1, rfl, rfl, rfl⟩

/-- Conditions under which a message is a valid frame for the round trip. -/
def Sendable (codec : Codec) (m : Bytes) : Prop :=
  accepts codec m = true ∧ match codec with | .identity _ => True | .varint _ => VarintOk m.length

theorem consume_msg (codec : Codec) (hc : codec ≠ .identity 0) (st : RState) (hi : IdleState codec st)
    (m : Bytes) (hm : Sendable codec m) :
    (consume codec st (encodeMsg codec m)).1 = [.frame m] ∧ IdleState codec (consume codec st (encodeMsg codec m)).2 := by
  obtain ⟨rbLen, rbData, offset, cur, svData⟩ := st
  cases codec with
  | identity n =>
    obtain ⟨h1, h2, h3⟩ := hi
    simp only at h1 h2 h3
    subst h1 h2 h3
    have hn : 0 < rbLen := by
      cases rbLen with
      | zero => exact absurd rfl hc
      | succ k => omega
    have hlen : m.length = rbLen := by simpa [accepts] using hm.1
    have hmne : m ≠ [] := by intro he; subst he; simp at hlen; omega
    have hinv : RInv (.identity rbLen) ⟨rbLen, [], 0, cur, svData⟩ := ⟨rfl, rfl, Nat.zero_le _, fun h => h⟩
    have hcap : readCap (.identity rbLen) ⟨rbLen, [], 0, cur, svData⟩ = .ok (rbLen - 0) := by
      simp [readCap]
    simp only [encodeMsg]
    rw [consume_chunk _ _ hinv _ hcap m hmne (by omega)]
    simp only [onRead]
    rw [if_neg (by omega), if_pos (by omega)]
    simp [optList, IdleState, List.take_of_length_le (Nat.le_of_eq hlen)]
  | varint max =>
    obtain ⟨ha, h2, h3, h4⟩ := hi
    simp only at ha h2 h3 h4
    subst h2 h3 h4
    obtain ⟨hacc, pre, last, henc, hpre, hplen, hrps⟩ := hm
    have hov : overMax max m.length = false := by simpa [accepts] using hacc
    simp only [encodeMsg]
    rw [henc, consume_append, consume_append]
    have hp := consume_prefix max rbLen rbData [] pre (by simpa using hpre) (by simpa using hplen)
    simp only [List.nil_append, List.length_nil] at hp
    rw [hp]
    simp only [List.nil_append]
    have hlast : onRead (.varint max) ⟨rbLen, rbData, pre.length, none, pre⟩ (.ok [last]) =
        if m.length = 0 then (⟨rbLen, rbData, 0, none, []⟩, some (.frame []))
        else (⟨m.length, [], 0, some m.length, []⟩, none) := by
      simp only [onRead, List.length_singleton]
      rw [if_neg (by omega), hrps]
      simp only []
      rw [if_neg (by omega), hov]
      simp
    by_cases hz : m.length = 0
    · have hm0 : m = [] := by cases m <;> simp_all
      subst hm0
      rw [consume_single, hlast]
      simp [consume, IdleState, ha, optList]
    · rw [consume_single, hlast]
      simp only [hz, if_false, consume, List.nil_append, optList]
      have hmne : m ≠ [] := by intro he; subst he; simp at hz
      have hinv : RInv (.varint max) ⟨m.length, [], 0, some m.length, []⟩ := by
        refine ⟨?_, rfl, rfl, by show 0 < m.length; omega, rfl, hov⟩
        cases max with
        | none => simp [AllocOk]
        | some mx =>
          simp [overMax] at hov
          exact Nat.le_trans hov (Nat.le_max_right _ _)
      have hcap : readCap (.varint max) ⟨m.length, [], 0, some m.length, []⟩ = .ok (m.length - 0) := by
        simp [readCap]
      rw [consume_chunk _ _ hinv _ hcap m hmne (by omega)]
      simp only [onRead]
      rw [if_neg hz, if_pos (by omega)]
      refine ⟨by simp [optList], ?_⟩
      refine ⟨?_, rfl, rfl, rfl⟩
      cases max <;> simp [AllocOk]

theorem consume_all (codec : Codec) (hc : codec ≠ .identity 0) (msgs : List Bytes) (st : RState)
    (hi : IdleState codec st) (hm : ∀ m ∈ msgs, Sendable codec m) :
    (consume codec st (encodeAll codec msgs)).1 = msgs.map .frame ∧
    IdleState codec (consume codec st (encodeAll codec msgs)).2 := by
  induction msgs generalizing st with
  | nil => simp [encodeAll, consume, hi]
  | cons m ms ih =>
    simp only [encodeAll]
    rw [consume_append]
    obtain ⟨h1, h2⟩ := consume_msg codec hc st hi m (hm m (List.mem_cons_self))
    obtain ⟨h3, h4⟩ := ih _ h2 (fun x hx => hm x (List.mem_cons_of_mem _ hx))
    simp only [h1, h3, List.map_cons]
    exact ⟨rfl, h4⟩

end Litep2pVerif.Substream
