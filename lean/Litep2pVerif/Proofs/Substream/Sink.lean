import Litep2pVerif.Model.Substream.Sink
/-! Lemmas about the sink model (C04). -/
namespace Litep2pVerif.Substream

/-- The carrier script contains no failure. -/
def NoErr (evs : List WrEv) : Prop := ∀ e ∈ evs, e ≠ WrEv.err

/-- `pending_out_bytes` counts exactly the queued bytes. -/
def WInv (st : WState) : Prop := st.bytes = (queued st).length

theorem winv_init : WInv WState.init := by
  simp [WInv, WState.init, queued]

@[simp] theorem queued_some (fs : List Bytes) (f : Bytes) (b : Nat) :
    queued ⟨fs, some f, b⟩ = f ++ fs.flatten := rfl

@[simp] theorem queued_none (fs : List Bytes) (b : Nat) :
    queued ⟨fs, none, b⟩ = fs.flatten := by simp [queued]

theorem queued_of_takeFrame_none {st : WState} (h : takeFrame st = none) :
    st.frame = none ∧ st.frames = [] ∧ queued st = [] := by
  obtain ⟨fs, fr, b⟩ := st
  cases fr <;> cases fs <;> simp_all [takeFrame]

theorem queued_of_takeFrame_some {st : WState} {f : Bytes} {fs : List Bytes}
    (h : takeFrame st = some (f, fs)) : queued st = f ++ fs.flatten := by
  obtain ⟨fs', fr, b⟩ := st
  cases fr <;> cases fs' <;> simp_all [takeFrame]

/-- Core lemma: whatever the carrier does (short of failing), the bytes handed over followed by
the bytes still queued are the bytes queued before; and a `Ready` result means nothing is left. -/
theorem pollFlush_spec (evs : List WrEv) (st : WState) (fl : FlEv) (hne : NoErr evs) :
    (pollFlush evs st fl).2.2 ++ queued (pollFlush evs st fl).2.1 = queued st ∧
    ((pollFlush evs st fl).1 = .ready → takeFrame (pollFlush evs st fl).2.1 = none) ∧
    (WInv st → WInv (pollFlush evs st fl).2.1) := by
  induction evs generalizing st with
  | nil =>
    unfold pollFlush
    cases htf : takeFrame st with
    | none => simp [htf]
    | some p =>
      obtain ⟨f, fs⟩ := p
      have hq := queued_of_takeFrame_some htf
      refine ⟨by simp [hq], by simp, ?_⟩
      intro hw; unfold WInv at *; rw [hq] at hw; simpa using hw
  | cons ev evs ih =>
    unfold pollFlush
    cases htf : takeFrame st with
    | none => simp [htf]
    | some p =>
      obtain ⟨f, fs⟩ := p
      have hq := queued_of_takeFrame_some htf
      cases ev with
      | err => exact absurd rfl (hne _ (List.mem_cons_self))
      | pending =>
        refine ⟨by simp [hq], by simp, ?_⟩
        intro hw; unfold WInv at *; rw [hq] at hw; simpa using hw
      | accept k =>
        have hne' : NoErr evs := fun e he => hne e (List.mem_cons_of_mem _ he)
        simp only []
        have := ih ⟨fs, if f.length ≤ min (k + 1) f.length then none else some (f.drop (min (k + 1) f.length)),
              st.bytes - min (k + 1) f.length⟩ hne'
        obtain ⟨h1, h2, h3⟩ := this
        have hq' : queued (⟨fs, if f.length ≤ min (k + 1) f.length then none else some (f.drop (min (k + 1) f.length)),
              st.bytes - min (k + 1) f.length⟩ : WState) = f.drop (min (k + 1) f.length) ++ fs.flatten := by
          by_cases hle : f.length ≤ min (k + 1) f.length
          · simp [hle, List.drop_of_length_le hle]
          · simp [hle]
        refine ⟨?_, h2, ?_⟩
        · rw [hq, List.append_assoc, h1, hq', ← List.append_assoc, List.take_append_drop]
        · intro hw
          apply h3
          unfold WInv at hw ⊢
          rw [hq']
          rw [hq] at hw
          simp only [List.length_append, List.length_drop] at hw ⊢
          have : min (k + 1) f.length ≤ f.length := Nat.min_le_right _ _
          omega

theorem startSend_spec (codec : Codec) (st st' : WState) (item : Bytes)
    (h : startSend codec st item = (.ok, st')) :
    queued st' = queued st ++ encodeMsg codec item ∧ accepts codec item = true ∧ (WInv st → WInv st') := by
  unfold startSend at h
  cases codec with
  | identity n =>
    simp only [] at h
    split at h
    · simp at h
    · rename_i hlen
      simp only [Prod.mk.injEq, true_and] at h
      subst h
      refine ⟨by simp [queued, encodeMsg], by simpa [accepts] using hlen, ?_⟩
      intro hw; unfold WInv at *; simp [queued] at *; omega
  | varint max =>
    simp only [] at h
    split at h
    · simp at h
    · rename_i hov
      simp only [Prod.mk.injEq, true_and] at h
      subst h
      refine ⟨by simp [queued, encodeMsg], by simp [accepts, hov], ?_⟩
      intro hw; unfold WInv at *; simp [queued] at *; omega

theorem startSend_refused (codec : Codec) (st : WState) (item : Bytes) (h : accepts codec item = false) :
    startSend codec st item = (.refused, st) ∧ framedBufs codec item = none := by
  cases codec with
  | identity n => simp [accepts] at h; simp [startSend, framedBufs, h]
  | varint max => simp [accepts] at h; simp [startSend, framedBufs, h]

theorem framedBufs_some (codec : Codec) (item : Bytes) (bufs : List Bytes) (h : framedBufs codec item = some bufs) :
    bufs.flatten = encodeMsg codec item ∧ accepts codec item = true := by
  cases codec with
  | identity n =>
    simp only [framedBufs] at h
    split at h
    · simp at h
    · rename_i hl; simp at h; subst h; simp [encodeMsg, accepts]; simpa using hl
  | varint max =>
    simp only [framedBufs] at h
    split at h
    · simp at h
    · rename_i hov; simp at h; subst h; simp [encodeMsg, accepts, hov]

theorem flatten_dropEmpty (bufs : List Bytes) : (dropEmpty bufs).flatten = bufs.flatten := by
  induction bufs with
  | nil => simp [dropEmpty]
  | cons b r ih => cases b <;> simp [dropEmpty, ih]

/-- `write_all` hands over a prefix of the buffers; all of them when it completes. -/
theorem writeAlls_spec (evs : List WrEv) (bufs : List Bytes) :
    (writeAlls evs bufs).2.1 ++ (writeAlls evs bufs).2.2.1.flatten = bufs.flatten ∧
    ((writeAlls evs bufs).1 = .done → (writeAlls evs bufs).2.2.1 = []) := by
  induction evs generalizing bufs with
  | nil =>
    unfold writeAlls
    have hfl := flatten_dropEmpty bufs
    cases h : dropEmpty bufs with
    | nil => rw [h] at hfl; exact ⟨by simpa using hfl, fun _ => rfl⟩
    | cons b r => rw [h] at hfl; exact ⟨by simpa using hfl, fun hd => by simp at hd⟩
  | cons ev evs ih =>
    unfold writeAlls
    have hfl := flatten_dropEmpty bufs
    cases h : dropEmpty bufs with
    | nil => rw [h] at hfl; exact ⟨by simpa using hfl, fun _ => rfl⟩
    | cons b r =>
      rw [h] at hfl
      cases ev with
      | pending => simp only []; rw [← hfl]; exact ih (b :: r)
      | err => exact ⟨by simpa using hfl, fun hd => by simp at hd⟩
      | accept k =>
        simp only []
        obtain ⟨h1, h2⟩ := ih (b.drop (min (k + 1) b.length) :: r)
        refine ⟨?_, h2⟩
        rw [List.append_assoc, h1, ← hfl]
        simp [← List.append_assoc, List.take_append_drop]

theorem encodeAll_append (codec : Codec) (a b : List Bytes) :
    encodeAll codec (a ++ b) = encodeAll codec a ++ encodeAll codec b := by
  induction a with
  | nil => simp [encodeAll]
  | cons m a ih => simp [encodeAll, ih]

def OpNoErr : SinkOp → Prop
  | .send _ evs _ => NoErr evs
  | .flush evs _ => NoErr evs

/-- The stream invariant of the sink: handed over ++ still queued = frames of the accepted messages. -/
def SinkInv (codec : Codec) (r : SinkRun) : Prop :=
  r.wire ++ queued r.st = encodeAll codec r.accepted ∧ WInv r.st

theorem sinkStep_inv (codec : Codec) (r : SinkRun) (op : SinkOp) (h : SinkInv codec r) (hne : OpNoErr op) :
    SinkInv codec (sinkStep codec r op) := by
  obtain ⟨hw, hi⟩ := h
  cases op with
  | flush evs fl =>
    obtain ⟨h1, _, h3⟩ := pollFlush_spec evs r.st fl hne
    simp only [sinkStep]
    refine ⟨?_, h3 hi⟩
    show (r.wire ++ (pollFlush evs r.st fl).2.2) ++ queued (pollFlush evs r.st fl).2.1 = _
    rw [List.append_assoc, h1, hw]
  | send item evs fl =>
    have hready : (pollReady r.st evs fl).2.2 ++ queued (pollReady r.st evs fl).2.1 = queued r.st ∧
        (WInv r.st → WInv (pollReady r.st evs fl).2.1) := by
      unfold pollReady
      split
      · obtain ⟨h1, _, h3⟩ := pollFlush_spec evs r.st fl hne; exact ⟨h1, h3⟩
      · exact ⟨by simp, fun h => h⟩
    obtain ⟨h1, h3⟩ := hready
    simp only [sinkStep]
    cases hp : pollReady r.st evs fl with
    | mk o rest =>
      obtain ⟨st', out⟩ := rest
      rw [hp] at h1 h3
      simp only at h1 h3
      have hbase : (r.wire ++ out) ++ queued st' = encodeAll codec r.accepted := by
        rw [List.append_assoc, h1, hw]
      cases o with
      | ready =>
        simp only []
        cases hs : startSend codec st' item with
        | mk res st'' =>
          cases res with
          | ok =>
            obtain ⟨hq, _, hwi⟩ := startSend_spec codec st' st'' item hs
            refine ⟨?_, hwi (h3 hi)⟩
            show (r.wire ++ out) ++ queued st'' = encodeAll codec (r.accepted ++ [item])
            rw [hq, ← List.append_assoc, hbase, encodeAll_append]
            simp [encodeAll]
          | refused =>
            have : st'' = st' := by
              unfold startSend at hs
              cases codec <;> simp only [] at hs <;> split at hs <;> simp at hs <;> exact hs.symm
            subst this
            exact ⟨hbase, h3 hi⟩
      | pending => exact ⟨hbase, h3 hi⟩
      | err => exact ⟨hbase, h3 hi⟩

theorem sinkRun_inv (codec : Codec) (ops : List SinkOp) (hne : ∀ op ∈ ops, OpNoErr op) :
    SinkInv codec (sinkRun codec ops) := by
  unfold sinkRun
  have : ∀ r, SinkInv codec r → SinkInv codec (ops.foldl (sinkStep codec) r) := by
    induction ops with
    | nil => intro r h; exact h
    | cons op ops ih =>
      intro r h
      exact ih (fun o ho => hne o (List.mem_cons_of_mem _ ho)) _
        (sinkStep_inv codec r op h (hne op (List.mem_cons_self)))
  exact this _ ⟨by simp [SinkRun.init, WState.init, queued, encodeAll], winv_init⟩

theorem foldl_append_single {α β : Type} (f : β → α → β) (l : List α) (a : α) (b : β) :
    (l ++ [a]).foldl f b = f (l.foldl f b) a := by simp

/-- Everything the sink accepted is admitted by the codec. -/
theorem sinkRun_accepts (codec : Codec) (ops : List SinkOp) :
    ∀ m ∈ (sinkRun codec ops).accepted, accepts codec m = true := by
  unfold sinkRun
  have : ∀ r : SinkRun, (∀ m ∈ r.accepted, accepts codec m = true) →
      ∀ m ∈ (ops.foldl (sinkStep codec) r).accepted, accepts codec m = true := by
    induction ops with
    | nil => intro r h; exact h
    | cons op ops ih =>
      intro r h
      apply ih
      cases op with
      | flush evs fl => simpa [sinkStep] using h
      | send item evs fl =>
        simp only [sinkStep]
        cases hp : pollReady r.st evs fl with
        | mk o rest =>
          obtain ⟨st', out⟩ := rest
          cases o with
          | ready =>
            simp only []
            cases hs : startSend codec st' item with
            | mk res st'' =>
              cases res with
              | ok =>
                simp only []
                intro m hm
                rcases List.mem_append.mp hm with hm | hm
                · exact h m hm
                · simp at hm; subst hm; exact (startSend_spec codec st' st'' _ hs).2.1
              | refused => simpa using h
          | pending => simpa using h
          | err => simpa using h
  exact this _ (by simp [SinkRun.init])

/-- After a final `poll_flush` that returned `Ready`, nothing is queued. -/
theorem sinkRun_flush_ready (codec : Codec) (ops : List SinkOp) (evs : List WrEv) (fl : FlEv)
    (hne : ∀ op ∈ ops, OpNoErr op) (hne' : OpNoErr (.flush evs fl))
    (h : (sinkRun codec (ops ++ [.flush evs fl])).last = .ready) :
    queued (sinkRun codec (ops ++ [.flush evs fl])).st = [] := by
  unfold sinkRun at h ⊢
  rw [foldl_append_single] at h ⊢
  simp only [sinkStep] at h ⊢
  obtain ⟨_, h2, _⟩ := pollFlush_spec evs (List.foldl (sinkStep codec) SinkRun.init ops).st fl hne'
  exact (queued_of_takeFrame_none (h2 h)).2.2

end Litep2pVerif.Substream
