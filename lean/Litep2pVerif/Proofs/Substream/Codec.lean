import Litep2pVerif.Model.Substream.Codec
/-! Lemmas about the reader model (C04): the invariant behind `no_oob` and `alloc_bound`. -/
namespace Litep2pVerif.Substream

theorem usize_le_size_vec : USIZE_LEN ≤ SIZE_VEC_LEN := by decide

/-- Bound on `read_buffer` allocations when a maximum is configured. -/
def AllocOk (max : Option Nat) (len : Nat) : Prop :=
  match max with
  | some m => len ≤ Nat.max INITIAL_READ_BUFFER m
  | none => True

/-- Invariant of the reader state at every loop head of `poll_next`. -/
def RInv (codec : Codec) (st : RState) : Prop :=
  match codec with
  | .identity n =>
    st.rbLen = n ∧ st.offset = st.rbData.length ∧ st.offset ≤ n ∧ (0 < n → st.offset < n)
  | .varint max =>
    AllocOk max st.rbLen ∧
    match st.cur with
    | some fs =>
      st.rbLen = fs ∧ st.offset = st.rbData.length ∧ st.offset < fs ∧ st.svData = [] ∧ overMax max fs = false
    | none =>
      st.offset = st.svData.length ∧ st.offset < USIZE_LEN ∧ ∀ b ∈ st.svData, isLast b = false

theorem rinv_init (codec : Codec) : RInv codec (RState.init codec) := by
  cases codec with
  | identity n => simp [RInv, RState.init]
  | varint max =>
    refine ⟨?_, ?_⟩
    · cases max <;> simp [AllocOk, RState.init, Nat.le_max_left]
    · simp [RState.init, USIZE_LEN]

theorem readCap_ok {codec : Codec} {st : RState} (h : RInv codec st) : ∃ cap, readCap codec st = .ok cap := by
  cases codec with
  | identity n =>
    obtain ⟨h1, _, h3, _⟩ := h
    exact ⟨n - st.offset, by simp [readCap, h3, h1]⟩
  | varint max =>
    obtain ⟨_, h⟩ := h
    unfold readCap
    cases hc : st.cur with
    | some fs =>
      rw [hc] at h
      obtain ⟨h1, _, h3, _⟩ := h
      exact ⟨st.rbLen - st.offset, by simp; omega⟩
    | none =>
      rw [hc] at h
      obtain ⟨_, h2, _⟩ := h
      have := usize_le_size_vec
      exact ⟨1, by simp; omega⟩

theorem carRead_le (cap : Nat) (car : Carrier) (bs : Bytes) (h : (carRead cap car).1 = .ok bs) :
    bs.length ≤ cap := by
  cases car with
  | nil => simp [carRead] at h
  | cons s r =>
    cases s with
    | data d =>
      simp only [carRead] at h
      split at h
      · simp at h; subst h; simp
      · simp at h; subst h; simp only [List.length_take]; exact Nat.min_le_left _ _
    | pending => simp [carRead] at h
    | err => simp [carRead] at h
    | eof => simp [carRead] at h; subst h; simp

theorem scanLast_append (pre l : Bytes) (i lim : Nat) (h : ∀ b ∈ pre, isLast b = false)
    (hl : i + pre.length ≤ lim) :
    scanLast (pre ++ l) i lim = scanLast l (i + pre.length) lim := by
  induction pre generalizing i with
  | nil => simp
  | cons b pre ih =>
    have hb : isLast b = false := h b (List.mem_cons_self)
    have hpre : ∀ b ∈ pre, isLast b = false := fun x hx => h x (List.mem_cons_of_mem _ hx)
    simp only [List.length_cons] at hl
    have h1 : ¬ lim ≤ i := by omega
    simp only [List.cons_append, scanLast, hb, h1, if_false, Bool.false_eq_true]
    rw [ih (i + 1) hpre (by omega)]
    congr 1
    simp only [List.length_cons]; omega

theorem scanLast_none_all (l : Bytes) (i lim : Nat) (hlen : i + l.length ≤ lim) (h : scanLast l i lim = none) :
    ∀ b ∈ l, isLast b = false := by
  induction l generalizing i with
  | nil => simp
  | cons b l ih =>
    simp only [scanLast] at h
    have h1 : ¬ lim ≤ i := by simp at hlen; omega
    simp only [h1, if_false] at h
    cases hb : isLast b with
    | true => simp [hb] at h
    | false =>
      simp [hb] at h
      intro x hx
      cases hx with
      | head => exact hb
      | tail _ hx => exact ih (i + 1) (by simp at hlen; omega) h x hx

/-- What `read_payload_size` says about a buffer whose bytes before the last one are all
continuation bytes (the situation in the length-prefix branch). -/
theorem readPayloadSize_cases (pre : Bytes) (b : Nat) (hpre : ∀ x ∈ pre, isLast x = false)
    (hlen : pre.length < USIZE_LEN) :
    (readPayloadSize (pre ++ [b]) = .error .notEnoughBytes ∧ isLast b = false ∧ pre.length + 1 < USIZE_LEN) ∨
    (readPayloadSize (pre ++ [b]) = .error .overflow) ∨
    (readPayloadSize (pre ++ [b]) = .error .decodeError) ∨
    (∃ size, readPayloadSize (pre ++ [b]) = .ok (size, pre.length + 1) ∧ isLast b = true) := by
  unfold readPayloadSize
  have hl : (pre ++ [b]).length = pre.length + 1 := by simp
  have hmin : min (pre ++ [b]).length USIZE_LEN = pre.length + 1 := by rw [hl]; unfold USIZE_LEN at *; omega
  rw [hmin, scanLast_append pre [b] 0 _ hpre (by omega)]
  simp only [scanLast]
  have h2 : ¬ (pre.length + 1 ≤ 0 + pre.length) := by omega
  simp only [h2, if_false]
  cases hb : isLast b with
  | false =>
    simp only [Bool.false_eq_true, if_false, hl]
    by_cases h3 : pre.length + 1 < USIZE_LEN
    · left; simp [h3]
    · right; left; simp [h3]
  | true =>
    simp only [if_true]
    rw [Nat.zero_add]
    cases decodeLoop (List.take (pre.length + 1) (pre ++ [b])) 0 0 with
    | error e => right; right; left; rfl
    | ok size => right; right; right; exact ⟨size, by simp, by simp⟩

theorem onRead_inv {codec : Codec} {st : RState} (h : RInv codec st) (cap : Nat)
    (hcap : readCap codec st = .ok cap) (r : RdRes) (hr : ∀ bs, r = .ok bs → bs.length ≤ cap) :
    RInv codec (onRead codec st r).1 ∧ ∀ o, (onRead codec st r).2 = some o → o.isPanic = false := by
  obtain ⟨rbLen, rbData, offset, cur, svData⟩ := st
  cases codec with
  | identity n =>
    simp only [RInv] at h
    obtain ⟨h1, h2, h3, h4⟩ := h
    have hinv0 : RInv (.identity n) ⟨rbLen, rbData, offset, cur, svData⟩ := ⟨h1, h2, h3, h4⟩
    have hcap' : cap = n - offset := by
      simp only [readCap] at hcap
      rw [if_pos ⟨h3, by omega⟩] at hcap
      injection hcap with hcap; exact hcap.symm
    cases r with
    | pending => exact ⟨hinv0, by intro o ho; simp [onRead] at ho; subst ho; rfl⟩
    | err => exact ⟨hinv0, by intro o ho; simp [onRead] at ho; subst ho; rfl⟩
    | ok bs =>
      have hle := hr bs rfl
      simp only [onRead]
      by_cases hz : bs.length = 0
      · rw [if_pos hz]; exact ⟨hinv0, by intro o ho; simp at ho; subst ho; rfl⟩
      · rw [if_neg hz]
        by_cases hoff : offset + bs.length = n
        · rw [if_pos hoff]
          refine ⟨⟨rfl, by simp, Nat.zero_le _, fun hn => hn⟩, ?_⟩
          intro o ho; simp at ho; subst ho; rfl
        · rw [if_neg hoff]
          refine ⟨⟨h1, ?_, ?_, ?_⟩, ?_⟩
          · simp only [List.length_append]; omega
          · show offset + bs.length ≤ n; omega
          · intro _; show offset + bs.length < n; omega
          · intro o ho; simp at ho
  | varint max =>
    obtain ⟨ha, h⟩ := h
    cases cur with
    | some fs =>
      simp only at h ha
      obtain ⟨h1, h2, h3, h4, h5⟩ := h
      have hinv0 : RInv (.varint max) ⟨rbLen, rbData, offset, some fs, svData⟩ := ⟨ha, h1, h2, h3, h4, h5⟩
      have hcap' : cap = rbLen - offset := by
        simp only [readCap] at hcap
        rw [if_pos (by omega)] at hcap
        injection hcap with hcap; exact hcap.symm
      cases r with
      | pending => exact ⟨hinv0, by intro o ho; simp [onRead] at ho; subst ho; rfl⟩
      | err => exact ⟨hinv0, by intro o ho; simp [onRead] at ho; subst ho; rfl⟩
      | ok bs =>
        have hle := hr bs rfl
        simp only [onRead]
        by_cases hz : bs.length = 0
        · rw [if_pos hz]; exact ⟨hinv0, by intro o ho; simp at ho; subst ho; rfl⟩
        · rw [if_neg hz]
          by_cases hoff : offset + bs.length = fs
          · rw [if_pos hoff]
            refine ⟨⟨?_, ?_⟩, ?_⟩
            · cases max <;> simp [AllocOk]
            · subst h4; simp [USIZE_LEN]
            · intro o ho; simp at ho; subst ho; rfl
          · rw [if_neg hoff]
            refine ⟨⟨ha, h1, ?_, ?_, h4, h5⟩, by intro o ho; simp at ho⟩
            · simp only [List.length_append]; omega
            · show offset + bs.length < fs; omega
    | none =>
      simp only at h ha
      obtain ⟨h1, h2, h3⟩ := h
      have hinv0 : RInv (.varint max) ⟨rbLen, rbData, offset, none, svData⟩ := ⟨ha, h1, h2, h3⟩
      have hreset : RInv (.varint max) ⟨rbLen, rbData, 0, none, []⟩ := ⟨ha, rfl, by simp [USIZE_LEN], by simp⟩
      have hsz := usize_le_size_vec
      have hcap' : cap = 1 := by
        simp only [readCap] at hcap
        rw [if_pos (by omega)] at hcap
        injection hcap with hcap; exact hcap.symm
      cases r with
      | pending => exact ⟨hinv0, by intro o ho; simp [onRead] at ho; subst ho; rfl⟩
      | err => exact ⟨hinv0, by intro o ho; simp [onRead] at ho; subst ho; rfl⟩
      | ok bs =>
        have hle := hr bs rfl
        simp only [onRead]
        by_cases hz : bs.length = 0
        · rw [if_pos hz]; exact ⟨hinv0, by intro o ho; simp at ho; subst ho; rfl⟩
        · rw [if_neg hz]
          have hbs : ∃ b, bs = [b] := by
            cases bs with
            | nil => simp at hz
            | cons b t => cases t with
              | nil => exact ⟨b, rfl⟩
              | cons c t => simp at hle; omega
          obtain ⟨b, rfl⟩ := hbs
          have hpl : svData.length < USIZE_LEN := by omega
          rcases readPayloadSize_cases svData b h3 hpl with ⟨he, hb, hlt⟩ | he | he | ⟨size, he, hb⟩
          · simp only [he]
            refine ⟨⟨ha, ?_, ?_, ?_⟩, by intro o ho; simp at ho⟩
            · simp only [List.length_append, List.length_singleton]; omega
            · show offset + 1 < USIZE_LEN; omega
            · intro x hx
              rcases List.mem_append.mp hx with hx | hx
              · exact h3 x hx
              · simp at hx; subst hx; exact hb
          · simp only [he]
            exact ⟨hreset, by intro o ho; simp at ho; subst ho; rfl⟩
          · simp only [he]
            exact ⟨hreset, by intro o ho; simp at ho; subst ho; rfl⟩
          · simp only [he]
            have hnb : ¬ (svData.length + 1 ≠ offset + 1) := by omega
            rw [if_neg hnb]
            by_cases hov : overMax max size = true
            · rw [if_pos hov]
              exact ⟨hreset, by intro o ho; simp at ho; subst ho; rfl⟩
            · rw [if_neg hov]
              by_cases hs0 : size = 0
              · rw [if_pos hs0]
                exact ⟨hreset, by intro o ho; simp at ho; subst ho; rfl⟩
              · rw [if_neg hs0]
                refine ⟨⟨?_, rfl, rfl, by show 0 < size; omega, rfl, by simpa using hov⟩, by intro o ho; simp at ho⟩
                cases max with
                | none => simp [AllocOk]
                | some m =>
                  simp [overMax] at hov
                  show size ≤ Nat.max INITIAL_READ_BUFFER m
                  exact Nat.le_trans hov (Nat.le_max_right _ _)

theorem pollNextF_inv (codec : Codec) (fuel : Nat) (st : RState) (car : Carrier) (h : RInv codec st) :
    (pollNextF codec fuel st car).1.isPanic = false ∧ RInv codec (pollNextF codec fuel st car).2.1 := by
  induction fuel generalizing st car with
  | zero => exact ⟨rfl, h⟩
  | succ fuel ih =>
    obtain ⟨cap, hcap⟩ := readCap_ok h
    unfold pollNextF
    simp only [hcap]
    have := onRead_inv h cap hcap (carRead cap car).1 (fun bs hbs => carRead_le cap car bs hbs)
    obtain ⟨hinv, hnp⟩ := this
    cases ho : (onRead codec st (carRead cap car).1) with
    | mk st' o =>
      rw [ho] at hinv hnp
      cases o with
      | some out => exact ⟨hnp out rfl, hinv⟩
      | none => exact ih st' _ hinv

theorem recvAllF_no_panic (codec : Codec) (fuel : Nat) (st : RState) (car : Carrier) (h : RInv codec st) :
    ∀ o ∈ recvAllF codec fuel st car, o.isPanic = false := by
  induction fuel generalizing st car with
  | zero => simp [recvAllF]
  | succ fuel ih =>
    unfold recvAllF
    cases car with
    | nil => simp
    | cons s r =>
      simp only []
      have := pollNextF_inv codec (carSize (s :: r) + 1) st (s :: r) h
      obtain ⟨hp, hinv⟩ := this
      unfold pollNext
      simp only [hp, Bool.false_eq_true, if_false]
      intro o ho
      cases ho with
      | head => exact hp
      | tail _ ho => exact ih _ _ hinv o ho

/-- States the reader can be in at a loop head of `poll_next`: the initial state, and the state
after any inner read result the carrier may produce (at most `cap` bytes). -/
inductive Reach (codec : Codec) : RState → Prop
  | init : Reach codec (RState.init codec)
  | step (st : RState) (cap : Nat) (r : RdRes) : Reach codec st → readCap codec st = .ok cap →
      (∀ bs, r = .ok bs → bs.length ≤ cap) → Reach codec (onRead codec st r).1

theorem reach_inv {codec : Codec} {st : RState} (h : Reach codec st) : RInv codec st := by
  induction h with
  | init => exact rinv_init codec
  | step st cap r _ hcap hr ih => exact (onRead_inv ih cap hcap r hr).1

/-- Every state `poll_next` passes through or ends in is such a state. -/
theorem reach_pollNextF (codec : Codec) (fuel : Nat) (st : RState) (car : Carrier) (h : Reach codec st) :
    Reach codec (pollNextF codec fuel st car).2.1 := by
  induction fuel generalizing st car with
  | zero => exact h
  | succ fuel ih =>
    obtain ⟨cap, hcap⟩ := readCap_ok (reach_inv h)
    unfold pollNextF
    simp only [hcap]
    have hstep := Reach.step st cap (carRead cap car).1 h hcap (fun bs hbs => carRead_le cap car bs hbs)
    cases ho : (onRead codec st (carRead cap car).1) with
    | mk st' o =>
      rw [ho] at hstep
      cases o with
      | some out => exact hstep
      | none => exact ih st' _ hstep

end Litep2pVerif.Substream
