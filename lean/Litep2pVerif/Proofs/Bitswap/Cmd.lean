import Litep2pVerif.Model.Bitswap.Cmd
import Litep2pVerif.Proofs.Kad.Events
/-! Lemmas about the bitswap command channel (`Model/Bitswap/Cmd.lean`), on top of the bounded-channel lemmas of
`Proofs/Kad/Events.lean`. -/
namespace Litep2pVerif.Bitswap.Cmd
open Litep2pVerif.Bitswap Litep2pVerif.Bitswap.Proto Litep2pVerif.Kad.Events

variable {α : Type}

theorem pushed_all (es : List α) (c : Chan α) :
    (es.foldl (fun c e => (c.emit e).runOne) c).all = c.all ++ es := by
  induction es generalizing c with
  | nil => simp
  | cons e r ih => rw [List.foldl_cons, ih, runOne_all, emit_all]; simp

theorem pushed_wf (es : List α) {c : Chan α} (h : WF c) :
    WF (es.foldl (fun c e => (c.emit e).runOne) c) := by
  induction es generalizing c with
  | nil => exact h
  | cons e r ih => exact ih (runOne_wf (emit_wf h e))

/-- Whatever the capacity, the consumer that keeps reading receives exactly what was pushed, in order. -/
theorem heldThenDrained_got (cap : Nat) (hcap : 0 < cap) (es : List α) :
    (heldThenDrained ({ cap := cap } : Chan α) es).got = es ∧
    (heldThenDrained ({ cap := cap } : Chan α) es).pending = 0 := by
  unfold heldThenDrained
  have hwf := pushed_wf es (fresh_wf (α := α) cap hcap)
  have hall := pushed_all es ({ cap := cap } : Chan α)
  have := drain_all _ _ hwf (Nat.le_succ _)
  refine ⟨?_, this.1⟩
  rw [this.2, hall]
  simp [Chan.all]

end Litep2pVerif.Bitswap.Cmd
