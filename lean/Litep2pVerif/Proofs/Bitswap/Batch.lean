import Litep2pVerif.Model.Bitswap.Batch
/-! Helper lemmas for the bitswap batching model (C20). -/
namespace Litep2pVerif.Bitswap

variable {β : Type} (S : Sized β) (m cap : Nat)

/-- "the block's data fits a batch" -/
def Sized.fits (S : Sized β) (m : Nat) (b : β) : Bool := decide (S.dataLen b ≤ m)

/-! ## dropOversized -/

theorem dropOversized_filter (l : List β) :
    (dropOversized S m l).filter (S.fits m) = l.filter (S.fits m) := by
  induction l with
  | nil => rfl
  | cons b rest ih =>
    unfold dropOversized
    split
    · rename_i h
      have : S.fits m b = false := by simp [Sized.fits]; omega
      rw [ih, List.filter_cons, this]; simp
    · rfl

theorem dropOversized_length (l : List β) : (dropOversized S m l).length ≤ l.length := by
  induction l with
  | nil => simp [dropOversized]
  | cons b rest ih =>
    unfold dropOversized
    split
    · simp only [List.length_cons]; omega
    · simp

theorem dropOversized_head {l : List β} {b : β} {rest : List β}
    (h : dropOversized S m l = b :: rest) : S.dataLen b ≤ m := by
  induction l with
  | nil => simp [dropOversized] at h
  | cons x xs ih =>
    unfold dropOversized at h
    split at h
    · exact ih h
    · rename_i hx
      simp only [List.cons.injEq] at h
      rw [← h.1]; omega

/-! ## countFit -/

theorem countFit_ge (l : List β) : ∀ t c, c ≤ countFit S m cap l t c := by
  induction l with
  | nil => intro t c; simp [countFit]
  | cons b rest ih =>
    intro t c
    unfold countFit
    split
    · omega
    · split
      · omega
      · have := ih (t + S.dataLen b) (c + 1); omega

theorem countFit_le_length (l : List β) : ∀ t c, countFit S m cap l t c ≤ c + l.length := by
  induction l with
  | nil => intro t c; simp [countFit]
  | cons b rest ih =>
    intro t c
    unfold countFit
    split
    · omega
    · split
      · omega
      · have := ih (t + S.dataLen b) (c + 1); simp only [List.length_cons]; omega

theorem countFit_le_cap (l : List β) : ∀ t c, c ≤ cap → countFit S m cap l t c ≤ cap := by
  induction l with
  | nil => intro t c h; simpa [countFit] using h
  | cons b rest ih =>
    intro t c h
    unfold countFit
    split
    · omega
    · split
      · omega
      · exact ih _ _ (by omega)

theorem countFit_sum (l : List β) : ∀ t c, t ≤ m →
    t + ((l.take (countFit S m cap l t c - c)).map S.dataLen).sum ≤ m := by
  induction l with
  | nil => intro t c h; simpa [countFit] using h
  | cons b rest ih =>
    intro t c h
    unfold countFit
    split
    · simpa using h
    · split
      · simpa using h
      · rename_i h1 _
        have hge := countFit_ge S m cap rest (t + S.dataLen b) (c + 1)
        have hk : countFit S m cap rest (t + S.dataLen b) (c + 1) - c =
            (countFit S m cap rest (t + S.dataLen b) (c + 1) - (c + 1)) + 1 := by omega
        rw [hk, List.take_succ_cons, List.map_cons, List.sum_cons]
        have := ih (t + S.dataLen b) (c + 1) (by omega)
        omega

theorem countFit_all_fit (l : List β) : ∀ t c,
    ∀ x ∈ l.take (countFit S m cap l t c - c), S.dataLen x ≤ m := by
  induction l with
  | nil => intro t c x hx; simp at hx
  | cons b rest ih =>
    intro t c x hx
    unfold countFit at hx
    split at hx
    · simp at hx
    · split at hx
      · simp at hx
      · rename_i h1 _
        have hge := countFit_ge S m cap rest (t + S.dataLen b) (c + 1)
        have hk : countFit S m cap rest (t + S.dataLen b) (c + 1) - c =
            (countFit S m cap rest (t + S.dataLen b) (c + 1) - (c + 1)) + 1 := by omega
        rw [hk, List.take_succ_cons, List.mem_cons] at hx
        rcases hx with rfl | hx
        · omega
        · exact ih _ _ x hx

theorem countFit_pos (b : β) (rest : List β) (t c : Nat) (h1 : t + S.dataLen b ≤ m) (h2 : c < cap) :
    c < countFit S m cap (b :: rest) t c := by
  unfold countFit
  have : ¬ (t + S.dataLen b > m) := by omega
  have h3 : ¬ (c = cap) := by omega
  simp only [this, h3, if_false]
  have := countFit_ge S m cap rest (t + S.dataLen b) (c + 1)
  omega

/-! ## extractNextBatch -/

theorem filter_fits_of_all {l : List β} (h : ∀ x ∈ l, S.dataLen x ≤ m) : l.filter (S.fits m) = l := by
  apply List.filter_eq_self.mpr
  intro x hx
  simpa [Sized.fits] using h x hx

theorem extract_none {blocks : List β} (h : extractNextBatch S m cap blocks = none) :
    blocks.filter (S.fits m) = [] := by
  unfold extractNextBatch at h
  split at h
  · rename_i hd
    rw [← dropOversized_filter, hd]; rfl
  · simp at h

theorem extract_some {blocks batch rest : List β} (hcap : 1 ≤ cap)
    (h : extractNextBatch S m cap blocks = some (batch, rest)) :
    batch ≠ [] ∧ (batch.map S.dataLen).sum ≤ m ∧ batch.length ≤ cap ∧
    batch ++ rest.filter (S.fits m) = blocks.filter (S.fits m) ∧ rest.length < blocks.length := by
  unfold extractNextBatch at h
  split at h
  · simp at h
  · rename_i b tl hd
    simp only [Option.some.injEq, Prod.mk.injEq] at h
    obtain ⟨hb, hr⟩ := h
    have hhead := dropOversized_head S m hd
    have hpos := countFit_pos S m cap b tl 0 0 (by omega) (by omega)
    have hlen := countFit_le_length S m cap (b :: tl) 0 0
    have hle := countFit_le_cap S m cap (b :: tl) 0 0 (by omega)
    have hsum := countFit_sum S m cap (b :: tl) 0 0 (by omega)
    have hfit := countFit_all_fit S m cap (b :: tl) 0 0
    have hdl := dropOversized_length S m blocks
    simp only [Nat.sub_zero, Nat.zero_add] at hsum hfit hlen
    generalize countFit S m cap (b :: tl) 0 0 = n at *
    subst hb hr
    refine ⟨?_, hsum, ?_, ?_, ?_⟩
    · intro h0
      have : ((b :: tl).take n).length = 0 := by rw [h0]; rfl
      simp only [List.length_take, List.length_cons] at this
      omega
    · simp only [List.length_take]; omega
    · rw [← dropOversized_filter S m blocks, hd]
      conv => rhs; rw [← List.take_append_drop n (b :: tl), List.filter_append]
      rw [filter_fits_of_all S m hfit]
    · rw [hd] at hdl
      simp only [List.length_drop]
      simp only [List.length_cons] at hdl hlen ⊢
      omega

/-! ## the send loop -/

theorem sendLoop_spec (hcap : 1 ≤ cap) (maxMsg : Nat) : ∀ (fuel : Nat) (blocks : List β),
    blocks.length < fuel →
    (sendLoop S m cap maxMsg fuel blocks).2 = true ∧
    ((sendLoop S m cap maxMsg fuel blocks).1.map (·.batch)).flatten = blocks.filter (S.fits m) ∧
    ∀ st ∈ (sendLoop S m cap maxMsg fuel blocks).1,
      st.batch ≠ [] ∧ (st.batch.map S.dataLen).sum ≤ m ∧ st.batch.length ≤ cap ∧
      st = mkStep S maxMsg st.batch := by
  intro fuel
  induction fuel with
  | zero => intro blocks h; omega
  | succ f ih =>
    intro blocks hlen
    unfold sendLoop
    split
    · rename_i hn
      exact ⟨rfl, by simp [extract_none S m cap hn], by simp⟩
    · rename_i batch rest hs
      obtain ⟨hne, hsum, hl, hpart, hlt⟩ := extract_some S m cap hcap hs
      obtain ⟨i1, i2, i3⟩ := ih rest (by omega)
      refine ⟨i1, ?_, ?_⟩
      · simp only [List.map_cons, List.flatten_cons, i2]
        have : (mkStep S maxMsg batch).batch = batch := by
          unfold mkStep; split <;> rfl
        rw [this, hpart]
      · intro st hst
        simp only [List.mem_cons] at hst
        rcases hst with rfl | hst
        · have hb : (mkStep S maxMsg batch).batch = batch := by
            unfold mkStep; split <;> rfl
          rw [hb]
          exact ⟨hne, hsum, hl, rfl⟩
        · exact i3 st hst

/-! ## size of the encoded message -/

theorem pbVarintLen_small {n : Nat} (h : n < 128) : pbVarintLen n = 1 := by
  simp [pbVarintLen, h]

theorem pbVarintLen_le4 {n : Nat} (h : n < 268435456) : pbVarintLen n ≤ 4 := by
  unfold pbVarintLen
  repeat' split
  all_goals omega

theorem pbVarintLen_pos (n : Nat) : 1 ≤ pbVarintLen n := by
  unfold pbVarintLen
  repeat' split
  all_goals omega

/-- A block costs at most 35 bytes on top of its data when its prefix has at most 23 bytes. -/
theorem blockEntryLen_le {p d : Nat} (hp : p ≤ 23) (hd : d + 30 < 268435456) :
    blockEntryLen p d ≤ 35 + d := by
  have hbody : blockBodyLen p d ≤ 30 + d := by
    unfold blockBodyLen pbBytesField
    have h1 := pbVarintLen_small (n := p) (by omega)
    have h2 := pbVarintLen_le4 (n := d) (by omega)
    split <;> split <;> omega
  unfold blockEntryLen
  have := pbVarintLen_le4 (n := blockBodyLen p d) (by omega)
  omega

theorem entries_sum_le (batch : List β)
    (h : ∀ b ∈ batch, S.prefixLen b ≤ 23 ∧ S.dataLen b + 30 < 268435456) :
    (batch.map S.entryLen).sum ≤ 35 * batch.length + (batch.map S.dataLen).sum := by
  induction batch with
  | nil => simp
  | cons b rest ih =>
    have hb := h b (by simp)
    have := blockEntryLen_le hb.1 hb.2
    have := ih (fun x hx => h x (by simp [hx]))
    simp only [List.map_cons, List.sum_cons, List.length_cons, Sized.entryLen] at *
    omega

theorem sum_le_of_mem {l : List Nat} {x : Nat} (h : x ∈ l) : x ≤ l.sum := by
  induction l with
  | nil => simp at h
  | cons a as ih =>
    simp only [List.mem_cons] at h
    simp only [List.sum_cons]
    rcases h with rfl | h
    · omega
    · have := ih h; omega

/-! ## replicate (for the witness) -/

theorem dropOversized_replicate (n : Nat) (b : β) (h : S.dataLen b ≤ m) :
    dropOversized S m (List.replicate n b) = List.replicate n b := by
  cases n with
  | zero => rfl
  | succ k =>
    have : ¬ (S.dataLen b > m) := by omega
    simp [List.replicate_succ, dropOversized, this]

theorem countFit_replicate (b : β) : ∀ (n t c : Nat), t + n * S.dataLen b ≤ m → c + n ≤ cap →
    countFit S m cap (List.replicate n b) t c = c + n := by
  intro n
  induction n with
  | zero => intro t c _ _; simp [countFit]
  | succ k ih =>
    intro t c h1 h2
    rw [Nat.succ_mul] at h1
    have e1 : ¬ (t + S.dataLen b > m) := by omega
    have e2 : ¬ (c = cap) := by omega
    simp only [List.replicate_succ, countFit, e1, e2, if_false]
    rw [ih (t + S.dataLen b) (c + 1) (by omega) (by omega)]
    omega

theorem sum_map_replicate (f : β → Nat) (n : Nat) (b : β) :
    ((List.replicate n b).map f).sum = n * f b := by
  induction n with
  | zero => simp
  | succ k ih => simp only [List.replicate_succ, List.map_cons, List.sum_cons, ih, Nat.succ_mul]; omega

/-- A response of `n ≥ 1` equal blocks that all pass the two checks of `extract_next_batch` is one
batch. -/
theorem sendResponse_replicate (maxMsg n : Nat) (b : β) (hn : 1 ≤ n)
    (h1 : n * S.dataLen b ≤ m) (h2 : n ≤ cap) :
    sendResponse S m cap maxMsg (List.replicate n b) =
      ([⟨List.replicate n b, some (2 + n * S.entryLen b), decide (2 + n * S.entryLen b ≤ maxMsg)⟩], true) := by
  obtain ⟨k, rfl⟩ : ∃ k, n = k + 1 := ⟨n - 1, by omega⟩
  have hd : S.dataLen b ≤ m := by
    rw [Nat.succ_mul] at h1; omega
  have hc := countFit_replicate S m cap b (k + 1) 0 0 (by omega) (by omega)
  have hex : extractNextBatch S m cap (List.replicate (k + 1) b) = some (List.replicate (k + 1) b, []) := by
    unfold extractNextBatch
    rw [dropOversized_replicate S m (k + 1) b hd]
    simp only [List.replicate_succ] at hc ⊢
    rw [hc]
    simp [List.take_of_length_le, List.drop_of_length_le]
  have hnil : extractNextBatch S m cap ([] : List β) = none := rfl
  unfold sendResponse
  simp only [List.length_replicate]
  unfold sendLoop
  rw [hex]
  simp only
  unfold sendLoop
  rw [hnil]
  have hm : blocksMessageLen S (List.replicate (k + 1) b) = some (2 + (k + 1) * S.entryLen b) := by
    unfold blocksMessageLen
    rw [sum_map_replicate]
    simp [List.replicate_succ]
  simp only [mkStep, hm]

/-! ## the whole of `send_response` (presence message + block loop with writes) -/

variable {π : Type}

theorem mkStep_batch (maxMsg : Nat) (batch : List β) : (mkStep S maxMsg batch).batch = batch := by
  unfold mkStep; split <;> rfl

/-- When the codec accepts everything the size guard lets through (`maxMsg ≤ codecMax`), no write
fails: the loop with writes sends exactly the batches the plan (`sendLoop`) marks as sent, every
written frame is within `maxMsg`, and it returns `Ok` when the plan ends by itself. -/
theorem respondLoop_spec (maxMsg codecMax : Nat) (hcodec : maxMsg ≤ codecMax) :
    ∀ (fuel : Nat) (blocks : List β),
    blockBatches (respondLoop π S m cap maxMsg codecMax fuel blocks).1 =
      sentBatches (sendLoop S m cap maxMsg fuel blocks).1 ∧
    (respondLoop π S m cap maxMsg codecMax fuel blocks).2 =
      (if (sendLoop S m cap maxMsg fuel blocks).2 then SendResult.ok else SendResult.outOfFuel) ∧
    (∀ f ∈ (respondLoop π S m cap maxMsg codecMax fuel blocks).1,
      f.len ≤ maxMsg ∧ ∃ batch, f = Frame.blocks batch f.len ∧ blocksMessageLen S batch = some f.len) := by
  intro fuel
  induction fuel with
  | zero => intro blocks; simp [respondLoop, sendLoop, blockBatches, sentBatches]
  | succ f ih =>
    intro blocks
    unfold respondLoop sendLoop
    split
    · simp [blockBatches, sentBatches]
    · rename_i batch rest hs
      obtain ⟨i1, i2, i3⟩ := ih rest
      simp only
      split
      · rename_i hn
        have : (mkStep S maxMsg batch).sent = false := by unfold mkStep; rw [hn]
        refine ⟨?_, i2, i3⟩
        rw [i1]; simp [sentBatches, this]
      · rename_i len hl
        by_cases hle : len ≤ maxMsg
        · have hw : sendFramed codecMax len = true := by simp [sendFramed]; omega
          have hsent : (mkStep S maxMsg batch).sent = true := by
            unfold mkStep; rw [hl]; simpa using hle
          simp only [hle, hw, if_true]
          refine ⟨?_, i2, ?_⟩
          · simp only [blockBatches, i1, sentBatches, List.filter_cons, hsent, if_true, List.map_cons,
              mkStep_batch]
          · intro fr hfr
            simp only [List.mem_cons] at hfr
            rcases hfr with rfl | hfr
            · exact ⟨hle, batch, rfl, hl⟩
            · exact i3 fr hfr
        · have hsent : (mkStep S maxMsg batch).sent = false := by
            unfold mkStep; rw [hl]; simpa using hle
          simp only [hle, if_false]
          refine ⟨?_, i2, i3⟩
          rw [i1]; simp [sentBatches, hsent]

/-- Whatever the limits, the loop writes block frames only. -/
theorem respondLoop_blocks_only (maxMsg codecMax : Nat) : ∀ (fuel : Nat) (blocks : List β),
    ∀ f ∈ (respondLoop π S m cap maxMsg codecMax fuel blocks).1, ∃ batch len, f = Frame.blocks batch len := by
  intro fuel
  induction fuel with
  | zero => intro blocks f hf; simp [respondLoop] at hf
  | succ k ih =>
    intro blocks f hf
    unfold respondLoop at hf
    split at hf
    · simp at hf
    · rename_i batch rest _
      split at hf
      · exact ih rest f hf
      · rename_i len _
        split at hf
        · split at hf
          · simp only [List.mem_cons] at hf
            rcases hf with rfl | hf
            · exact ⟨batch, len, rfl⟩
            · exact ih rest f hf
          · simp at hf
        · exact ih rest f hf

theorem blocksOf_map_block (l : List β) : blocksOf (l.map (Entry.block (π := π))) = l := by
  induction l with
  | nil => rfl
  | cons b rest ih => simp only [List.map_cons, blocksOf, ih]

theorem presencesOf_map_block (l : List β) : presencesOf (l.map (Entry.block (π := π))) = [] := by
  induction l with
  | nil => rfl
  | cons b rest ih => simp only [List.map_cons, presencesOf, ih]

/-- A block-only response is the block loop. -/
theorem respond_blocks_only (P : PSized π) (maxMsg codecMax : Nat) (l : List β) :
    respond P S m cap maxMsg codecMax (l.map Entry.block) =
      respondLoop π S m cap maxMsg codecMax (l.length + 1) l := by
  unfold respond
  rw [presencesOf_map_block, blocksOf_map_block]
  rfl

/-- Shape of `respond`: an optional presence frame (written iff there is a presence and the message
is within both limits), then the block loop — or nothing at all after a rejected presence write. -/
theorem respond_cases (P : PSized π) (maxMsg codecMax : Nat) (entries : List (Entry π β)) :
    (presencesOf entries = [] ∧
      respond P S m cap maxMsg codecMax entries =
        respondLoop π S m cap maxMsg codecMax ((blocksOf entries).length + 1) (blocksOf entries)) ∨
    (∃ len, presencesMessageLen P (presencesOf entries) = some len ∧ maxMsg < len ∧
      respond P S m cap maxMsg codecMax entries =
        respondLoop π S m cap maxMsg codecMax ((blocksOf entries).length + 1) (blocksOf entries)) ∨
    (∃ len, presencesMessageLen P (presencesOf entries) = some len ∧ len ≤ maxMsg ∧ len ≤ codecMax ∧
      respond P S m cap maxMsg codecMax entries =
        (Frame.presences (presencesOf entries) len ::
          (respondLoop π S m cap maxMsg codecMax ((blocksOf entries).length + 1) (blocksOf entries)).1,
         (respondLoop π S m cap maxMsg codecMax ((blocksOf entries).length + 1) (blocksOf entries)).2)) ∨
    (∃ len, presencesMessageLen P (presencesOf entries) = some len ∧ len ≤ maxMsg ∧ codecMax < len ∧
      respond P S m cap maxMsg codecMax entries = ([], SendResult.writeError)) := by
  unfold respond
  split
  · rename_i hn
    left
    refine ⟨?_, rfl⟩
    unfold presencesMessageLen at hn
    split at hn
    · rename_i he; simpa using he
    · simp at hn
  · rename_i len hl
    right
    by_cases hle : len ≤ maxMsg
    · by_cases hc : len ≤ codecMax
      · right; left
        exact ⟨len, hl, hle, hc, by simp [hle, sendFramed, hc]⟩
      · right; right
        exact ⟨len, hl, hle, by omega, by simp [hle, sendFramed, hc]⟩
    · left
      exact ⟨len, hl, by omega, by simp [hle]⟩

end Litep2pVerif.Bitswap
