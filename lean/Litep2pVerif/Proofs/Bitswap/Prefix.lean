import Litep2pVerif.Model.Bitswap.Prefix
import Mathlib.Tactic.Ring
/-! Helper lemmas for the bitswap prefix codec and inbound path (C20). -/
namespace Litep2pVerif.Bitswap

/-! ## unsigned-varint round trip -/

theorem uvarDecAux_enc (f : Nat) : ∀ (i acc n : Nat) (rest : Bytes),
    n < 2 ^ (7 * f) → 1 ≤ f → i + f ≤ 10 → (0 < i → n ≠ 0) → acc + n * 2 ^ (i * 7) < 2 ^ 64 →
    uvarDecAux i acc (uvarEncAux f n ++ rest) = .ok (acc + n * 2 ^ (i * 7), rest) := by
  induction f with
  | zero => intro i acc n rest _ h; omega
  | succ k ih =>
    intro i acc n rest hn _ hif hpos hb
    unfold uvarEncAux
    by_cases hq : n / 128 = 0
    · have hlt : n < 128 := by omega
      have hm : n % 128 = n := Nat.mod_eq_of_lt hlt
      simp only [hq, if_true, List.cons_append, List.nil_append, uvarDecAux, hm, hlt]
      have hz : ¬ (n = 0 ∧ i > 0) := fun h => hpos h.2 h.1
      simp only [hz, if_false, uvarAcc, hm]
      rw [Nat.mod_eq_of_lt hb]
    · have hge : 128 ≤ n := by omega
      have hk : 1 ≤ k := by
        rcases Nat.eq_zero_or_pos k with h0 | h0
        · subst h0; simp at hn; omega
        · exact h0
      have hi : i ≠ 9 := by omega
      have hb1 : ¬ (n % 128 + 128 < 128) := by omega
      have hbm : (n % 128 + 128) % 128 = n % 128 := by omega
      have hP : 2 ^ ((i + 1) * 7) = 2 ^ (i * 7) * 128 := by
        rw [Nat.add_mul, Nat.pow_add]
      have hdm : n = 128 * (n / 128) + n % 128 := (Nat.div_add_mod n 128).symm
      have hsplit : acc + n % 128 * 2 ^ (i * 7) + n / 128 * 2 ^ ((i + 1) * 7) = acc + n * 2 ^ (i * 7) := by
        rw [hP]
        conv => rhs; rw [hdm]
        ring
      have hle : acc + n % 128 * 2 ^ (i * 7) ≤ acc + n * 2 ^ (i * 7) :=
        Nat.add_le_add_left (Nat.mul_le_mul_right _ (Nat.mod_le n 128)) acc
      have hacc : uvarAcc i acc (n % 128 + 128) = acc + n % 128 * 2 ^ (i * 7) := by
        simp only [uvarAcc, hbm]
        exact Nat.mod_eq_of_lt (by omega)
      have hqlt : n / 128 < 2 ^ (7 * k) := by
        apply Nat.div_lt_of_lt_mul
        have : 2 ^ (7 * (k + 1)) = 128 * 2 ^ (7 * k) := by
          rw [Nat.mul_add, Nat.pow_add]; ring
        omega
      simp only [hq, if_false, List.cons_append, uvarDecAux, hb1, hi, hacc]
      rw [ih (i + 1) _ (n / 128) rest hqlt hk (by omega) (fun _ => hq) (by rw [hsplit]; exact hb), hsplit]

/-- `decode::u64 (encode::u64 n ++ rest) = Ok (n, rest)` for every `u64`. -/
theorem uvarDec_enc (n : Nat) (rest : Bytes) (h : n < 2 ^ 64) :
    uvarDec (uvarEnc n ++ rest) = .ok (n, rest) := by
  have := uvarDecAux_enc 10 0 0 n rest (Nat.lt_of_lt_of_le h (Nat.pow_le_pow_right (by omega) (by omega))) (by omega) (by omega)
    (by omega) (by simpa using h)
  simpa [uvarDec, uvarEnc] using this

theorem uvarDec_enc_nil (n : Nat) (h : n < 2 ^ 64) : uvarDec (uvarEnc n) = .ok (n, []) := by
  simpa using uvarDec_enc n [] h

/-! ## lengths -/

theorem uvarEncAux_length_le (f n : Nat) : (uvarEncAux f n).length ≤ f := by
  induction f generalizing n with
  | zero => simp [uvarEncAux]
  | succ k ih =>
    unfold uvarEncAux
    split
    · simp
    · simp only [List.length_cons]; have := ih (n / 128); omega

theorem uvarEnc_length_le (n : Nat) : (uvarEnc n).length ≤ 10 := uvarEncAux_length_le 10 n

theorem uvarEnc_length_small (n : Nat) (h : n < 128) : (uvarEnc n).length = 1 := by
  have : n / 128 = 0 := by omega
  simp [uvarEnc, uvarEncAux, this]

theorem uvarEnc_length_two (n : Nat) (h : n < 16384) : (uvarEnc n).length ≤ 2 := by
  unfold uvarEnc uvarEncAux
  split
  · simp
  · unfold uvarEncAux
    have : n / 128 / 128 = 0 := by omega
    simp [this]

/-- The prefix written for a CID of version 0/1 with a digest of at most 255 bytes has at most 23
bytes (1 + 10 + 10 + 2). -/
theorem toPrefix_length_le (c : Cid) (hv : c.version ≤ 1) (hd : c.digest.length ≤ 255) :
    c.toPrefix.toBytes.length ≤ 23 := by
  simp only [Cid.toPrefix, Prefix.toBytes, List.length_append]
  have h1 := uvarEnc_length_small c.version (by omega)
  have h2 := uvarEnc_length_le c.codec
  have h3 := uvarEnc_length_le c.hashCode
  have h4 := uvarEnc_length_two c.digest.length (by omega)
  omega

/-! ## inbound path -/

theorem cidNew_some {version codec code : Nat} {d : Bytes} {c : Cid}
    (h : cidNew version codec code d = some c) (hv : version ≤ 1) :
    c.version = version ∧ c.codec = codec ∧ c.hashCode = code ∧ c.digest = d := by
  unfold cidNew at h
  split at h
  · split at h
    · simp at h
    · split at h
      · simp at h
      · rename_i hv0 hc _
        simp only [Option.some.injEq] at h
        subst h
        simp only [ne_eq, Decidable.not_not] at hc
        exact ⟨hv0.symm, hc.symm, rfl, rfl⟩
  · simp only [Option.some.injEq] at h
    subst h
    exact ⟨by simp only; omega, rfl, rfl, rfl⟩

theorem fromBytes_version_le {bs : Bytes} {p : Prefix} (h : Prefix.fromBytes bs = some p) :
    p.version ≤ 1 ∧ p.mhLen ≤ 255 := by
  unfold Prefix.fromBytes at h
  repeat' split at h
  all_goals first
    | (simp at h; done)
    | (simp only [Option.some.injEq] at h; subst h; exact ⟨by simp only; omega, by simp only; omega⟩)

/-- What a delivered block looks like. -/
theorem blockToResponse_some {H : HashFamily} {pfx data : Bytes} {c : Cid} {d : Bytes}
    (h : blockToResponse H pfx data = some (c, d)) :
    d = data ∧ ∃ p, Prefix.fromBytes pfx = some p ∧ H.supported p.mhType = true ∧
      c.version = p.version ∧ c.codec = p.codec ∧ c.hashCode = p.mhType ∧
      c.digest = H.digest p.mhType data ∧ c.digest.length ≤ MH_ALLOC := by
  unfold blockToResponse at h
  split at h
  · simp at h
  · rename_i p hp
    split at h
    · simp at h
    · rename_i hs
      split at h
      · simp at h
      · rename_i hl
        split at h
        · rename_i cid hc
          simp only [Option.some.injEq, Prod.mk.injEq] at h
          obtain ⟨rfl, rfl⟩ := h
          have := cidNew_some hc (fromBytes_version_le hp).1
          refine ⟨rfl, p, hp, by simpa using hs, this.1, this.2.1, this.2.2.1, this.2.2.2, ?_⟩
          rw [this.2.2.2]; omega
        · simp at h

end Litep2pVerif.Bitswap
