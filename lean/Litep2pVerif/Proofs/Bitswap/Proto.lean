import Litep2pVerif.Model.Bitswap.Proto
/-!
# Bitswap protocol level: helper lemmas and the queue invariant (C20)
-/
namespace Litep2pVerif.Bitswap.Proto
open Litep2pVerif.Bitswap

variable {α : Type}

/-! ## association lists -/

theorem alookup_ainsert_self (k : Nat) (v : α) (l : List (Nat × α)) : alookup k (ainsert k v l) = some v := by
  simp [alookup, ainsert]

theorem alookup_aerase_self (k : Nat) (l : List (Nat × α)) : alookup k (aerase k l) = none := by
  simp only [alookup, aerase, Option.map_eq_none_iff, List.find?_eq_none, List.mem_filter]
  intro x hx
  simp only [bne_iff_ne, ne_eq] at hx
  simp [hx.2]

theorem mem_of_alookup {k : Nat} {v : α} {l : List (Nat × α)} (h : alookup k l = some v) : (k, v) ∈ l := by
  simp only [alookup, Option.map_eq_some_iff] at h
  obtain ⟨e, he, hv⟩ := h
  have hm := List.mem_of_find?_eq_some he
  have hk := List.find?_some he
  simp only [beq_iff_eq] at hk
  cases e with
  | mk a b => simp only at hk hv; subst hk; subst hv; exact hm

theorem mem_aerase {k : Nat} {e : Nat × α} {l : List (Nat × α)} (h : e ∈ aerase k l) : e ∈ l := by
  simp only [aerase, List.mem_filter] at h
  exact h.1

/-! ## what is queued -/

/-- every action waiting in `pending_outbound` -/
def queuedIn (po : List (Nat × List Action)) : List Action := po.flatMap (·.2)

def St.queued (st : St) : List Action := queuedIn st.pendingOutbound

theorem mem_queuedIn {x : Action} {po : List (Nat × List Action)} :
    x ∈ queuedIn po ↔ ∃ p q, (p, q) ∈ po ∧ x ∈ q := by
  simp only [queuedIn, List.mem_flatMap]
  constructor
  · rintro ⟨⟨p, q⟩, hm, hx⟩
    exact ⟨p, q, hm, hx⟩
  · rintro ⟨p, q, hm, hx⟩
    exact ⟨(p, q), hm, hx⟩

theorem queuedIn_aerase {x : Action} {k : Nat} {po : List (Nat × List Action)} (h : x ∈ queuedIn (aerase k po)) :
    x ∈ queuedIn po := by
  obtain ⟨p, q, hm, hx⟩ := mem_queuedIn.mp h
  exact mem_queuedIn.mpr ⟨p, q, mem_aerase hm, hx⟩

theorem queuedIn_ainsert {x : Action} {k : Nat} {v : List Action} {po : List (Nat × List Action)}
    (h : x ∈ queuedIn (ainsert k v po)) : x ∈ v ∨ x ∈ queuedIn po := by
  obtain ⟨p, q, hm, hx⟩ := mem_queuedIn.mp h
  simp only [ainsert, List.mem_cons, Prod.mk.injEq] at hm
  rcases hm with ⟨_, hq⟩ | hm
  · subst hq
    exact Or.inl hx
  · exact Or.inr (mem_queuedIn.mpr ⟨p, q, mem_aerase hm, hx⟩)

theorem queued_of_alookup {st : St} {p : Nat} {q : List Action} (h : alookup p st.pendingOutbound = some q)
    {x : Action} (hx : x ∈ q) : x ∈ st.queued :=
  mem_queuedIn.mpr ⟨p, q, mem_of_alookup h, hx⟩

/-! ## handlers never invent a queued action -/

theorem dropQueue_queued {st : St} {p : Nat} {x : Action} (h : x ∈ (dropQueue st p).queued) : x ∈ st.queued :=
  queuedIn_aerase h

theorem openSubstream_pending {st st1 : St} {p s : Nat} (h : openSubstream st p = some (st1, s)) :
    st1.pendingOutbound = st.pendingOutbound := by
  unfold openSubstream at h
  split at h
  · simp only [Option.some.injEq, Prod.mk.injEq] at h
    rw [← h.1]
  · simp at h

theorem openSubstreamOrDial_queued {st : St} {p : Nat} {x : Action}
    (h : x ∈ (openSubstreamOrDial st p).1.queued) : x ∈ st.queued := by
  unfold openSubstreamOrDial at h
  split at h
  · rename_i st1 s heq
    simp only [St.queued] at h ⊢
    rw [← openSubstream_pending heq]
    exact h
  · split at h
    · exact h
    · exact h
    · exact dropQueue_queued h
    · exact dropQueue_queued h

theorem enqueue_queued {st : St} {p : Nat} {a x : Action} (h : x ∈ (enqueue st p a).1.queued) :
    x = a ∨ x ∈ st.queued := by
  unfold enqueue at h
  split at h
  · rename_i y ys heq
    simp only [St.queued] at h
    rcases queuedIn_ainsert h with h | h
    · simp only [List.mem_append, List.mem_cons, List.not_mem_nil, or_false] at h
      rcases h with h | h
      · exact Or.inr (queued_of_alookup heq (by simpa using h))
      · exact Or.inl h
    · exact Or.inr h
  · have h := openSubstreamOrDial_queued h
    simp only [St.queued] at h
    rcases queuedIn_ainsert h with h | h
    · simp only [List.mem_cons, List.not_mem_nil, or_false] at h
      exact Or.inl h
    · exact Or.inr h

theorem enqueue_attempts (st : St) (p : Nat) (a : Action) : (enqueue st p a).2.attempts = [] := by
  unfold enqueue
  split
  · rfl
  · unfold openSubstreamOrDial
    split
    · rfl
    · split <;> rfl

theorem setFar_pending (st : St) (s : Nat) (f : Far) : (st.setFar s f).pendingOutbound = st.pendingOutbound := rfl

theorem dropSub_pending (st : St) (s : Nat) : (st.dropSub s).pendingOutbound = st.pendingOutbound := rfl

theorem attempt_action (L : Limits) (s : Nat) (f : Far) (a : Action) : (attempt L s f a).1.action = a := rfl

theorem attempt_sub (L : Limits) (s : Nat) (f : Far) (a : Action) : (attempt L s f a).1.sub = s := rfl

theorem onCommand_queued {L : Limits} {st : St} {p : Nat} {a x : Action}
    (h : x ∈ (onCommand L st p a).1.queued) : x = a ∨ x ∈ st.queued := by
  unfold onCommand at h
  split at h
  · split at h
    · exact Or.inr h
    · have h2 := enqueue_queued h
      exact h2
  · exact enqueue_queued h

theorem onCommand_attempts {L : Limits} {st : St} {p : Nat} {a : Action} {t : Attempt}
    (h : t ∈ (onCommand L st p a).2.attempts) : t.action = a := by
  unfold onCommand at h
  split at h
  · split at h
    · simp only [List.mem_cons, List.not_mem_nil, or_false] at h
      rw [h]; rfl
    · simp only [Out.append, enqueue_attempts, List.append_nil, List.mem_cons, List.not_mem_nil, or_false] at h
      rw [h]; rfl
  · rw [enqueue_attempts] at h
    simp at h

/-- The loop of `on_outbound_substream`: the calls made are for the first actions of the queue, in
queue order, each for the action as queued. -/
theorem runActions_actions (L : Limits) (s : Nat) : ∀ (q : List Action) (f : Far),
    (runActions L s f q).1.map (·.action) = q.take (runActions L s f q).1.length := by
  intro q
  induction q with
  | nil => intro f; simp [runActions]
  | cons a rest ih =>
    intro f
    unfold runActions
    split
    · simp only [List.map_cons, List.length_cons, List.take_succ_cons, List.cons.injEq]
      exact ⟨rfl, ih _⟩
    · simp [attempt_action]

theorem runActions_mem {L : Limits} {s : Nat} {q : List Action} {f : Far} {t : Attempt}
    (h : t ∈ (runActions L s f q).1) : t.action ∈ q := by
  have h1 : t.action ∈ (runActions L s f q).1.map (·.action) := List.mem_map.mpr ⟨t, h, rfl⟩
  rw [runActions_actions] at h1
  exact List.mem_of_mem_take h1

/-- … every call but the last returned `Ok`, and the loop reports success iff all did. -/
theorem runActions_ok (L : Limits) (s : Nat) : ∀ (q : List Action) (f : Far),
    (∀ t ∈ (runActions L s f q).1.dropLast, t.ok = true) ∧
    ((runActions L s f q).2.2 = true ↔ ((runActions L s f q).1.length = q.length ∧ ∀ t ∈ (runActions L s f q).1, t.ok = true)) := by
  intro q
  induction q with
  | nil => intro f; simp [runActions]
  | cons a rest ih =>
    intro f
    unfold runActions
    split
    · rename_i hok
      obtain ⟨ih1, ih2⟩ := ih (attempt L s f a).2
      refine ⟨?_, ?_⟩
      · intro t ht
        cases hr : (runActions L s (attempt L s f a).2 rest).1 with
        | nil => simp [hr] at ht
        | cons y ys =>
          simp only [hr, List.dropLast_cons_cons, List.mem_cons] at ht
          rcases ht with ht | ht
          · rw [ht]; exact hok
          · apply ih1; rw [hr]; exact ht
      · simp only [List.length_cons, Nat.add_right_cancel_iff, List.mem_cons, forall_eq_or_imp]
        rw [ih2]
        constructor
        · rintro ⟨h1, h2⟩; exact ⟨h1, hok, h2⟩
        · rintro ⟨h1, _, h2⟩; exact ⟨h1, h2⟩
    · rename_i hok
      simp only [List.dropLast_singleton, List.not_mem_nil, false_imp_iff, implies_true, List.length_cons,
        List.length_nil, Nat.zero_add, List.mem_cons, or_false, forall_eq, true_and, Bool.false_eq_true, false_iff,
        not_and]
      intro _
      exact hok

theorem onOutboundSubstream_queued {L : Limits} {st : St} {p s : Nat} {f : Far} {x : Action}
    (h : x ∈ (onOutboundSubstream L st p s f).1.queued) : x ∈ st.queued := by
  unfold onOutboundSubstream at h
  split at h
  · exact h
  · split at h
    · exact queuedIn_aerase h
    · exact queuedIn_aerase h

theorem onOutboundSubstream_attempts {L : Limits} {st : St} {p s : Nat} {f : Far} {t : Attempt}
    (h : t ∈ (onOutboundSubstream L st p s f).2.attempts) : t.action ∈ st.queued := by
  unfold onOutboundSubstream at h
  split at h
  · simp at h
  · rename_i actions heq
    split at h
    · exact queued_of_alookup heq (runActions_mem h)
    · exact queued_of_alookup heq (runActions_mem h)

theorem onConnectionEstablished_queued {st : St} {p : Nat} {x : Action}
    (h : x ∈ (onConnectionEstablished st p).1.queued) : x ∈ st.queued := by
  unfold onConnectionEstablished at h
  split at h
  · split at h
    · rename_i st1 s heq
      simp only [St.queued] at h ⊢
      rw [openSubstream_pending heq] at h
      exact h
    · exact dropQueue_queued h
  · exact h

theorem onConnectionEstablished_attempts (st : St) (p : Nat) : (onConnectionEstablished st p).2.attempts = [] := by
  unfold onConnectionEstablished
  split
  · split <;> rfl
  · rfl

theorem onConnectionClosed_queued {st : St} {p : Nat} {x : Action}
    (h : x ∈ (onConnectionClosed st p).queued) : x ∈ st.queued := by
  unfold onConnectionClosed at h
  exact queuedIn_aerase h

theorem onDialFailure_queued {st : St} {p : Nat} {x : Action}
    (h : x ∈ (onDialFailure st p).queued) : x ∈ st.queued := by
  unfold onDialFailure at h
  split at h
  · exact dropQueue_queued h
  · exact h

theorem onSubstreamOpenFailure_queued {st : St} {s : Nat} {x : Action}
    (h : x ∈ (onSubstreamOpenFailure st s).queued) : x ∈ st.queued := by
  unfold onSubstreamOpenFailure at h
  split at h
  · exact h
  · exact dropQueue_queued h

/-- the actions an operation hands to the protocol -/
def handedOf : Op → List Action
  | .command _ a => [a]
  | _ => []

theorem handed_cons (op : Op) (ops : List Op) : handed (op :: ops) = handedOf op ++ handed ops := by
  cases op <;> rfl

/-- One operation: whatever is queued afterwards was queued before or has just been handed over, and
every call of `send_*` is for such an action. -/
theorem step_queued (L : Limits) (st : St) (op : Op) :
    (∀ x ∈ (step L st op).1.queued, x ∈ st.queued ∨ x ∈ handedOf op) ∧
    (∀ t ∈ (step L st op).2.2.attempts, t.action ∈ st.queued ∨ t.action ∈ handedOf op) := by
  cases op with
  | conn p alive =>
    simp only [step]
    split
    · exact ⟨fun x h => Or.inl h, by simp⟩
    · refine ⟨fun x h => Or.inl ?_, ?_⟩
      · have h2 := onConnectionEstablished_queued h
        exact h2
      · rw [onConnectionEstablished_attempts]; simp
  | disc p =>
    simp only [step]
    split
    · exact ⟨fun x h => Or.inl h, by simp⟩
    · refine ⟨fun x h => Or.inl ?_, by simp⟩
      have h2 := onConnectionClosed_queued h
      exact h2
  | conndead p =>
    simp only [step]
    split
    · exact ⟨fun x h => Or.inl h, by simp⟩
    · exact ⟨fun x h => Or.inl h, by simp⟩
  | dialfail p =>
    simp only [step]
    refine ⟨fun x h => Or.inl ?_, by simp⟩
    have h := onDialFailure_queued h
    split at h <;> exact h
  | view p v => exact ⟨fun x h => Or.inl h, by simp [step]⟩
  | subopen s budget off delays =>
    simp only [step]
    split
    · exact ⟨fun x h => Or.inl h, by simp⟩
    · refine ⟨fun x h => Or.inl ?_, fun t h => Or.inl ?_⟩
      · have h2 := onOutboundSubstream_queued h
        exact h2
      · have h2 := onOutboundSubstream_attempts h
        exact h2
  | subfail s =>
    simp only [step]
    split
    · exact ⟨fun x h => Or.inl h, by simp⟩
    · refine ⟨fun x h => Or.inl ?_, by simp⟩
      have h2 := onSubstreamOpenFailure_queued h
      exact h2
  | plan s budget off delays =>
    simp only [step]
    split
    · exact ⟨fun x h => Or.inl h, by simp⟩
    · split
      · exact ⟨fun x h => Or.inl h, by simp⟩
      · exact ⟨fun x h => Or.inl h, by simp⟩
  | command p a =>
    simp only [step, handedOf, List.mem_cons, List.not_mem_nil, or_false]
    refine ⟨fun x h => ?_, fun t h => Or.inr (onCommand_attempts h)⟩
    rcases onCommand_queued h with h | h
    · exact Or.inr h
    · exact Or.inl h
  | insub p =>
    simp only [step]
    split
    · exact ⟨fun x h => Or.inl h, by simp⟩
    · exact ⟨fun x h => Or.inl h, by simp⟩
  | inmsg k d =>
    simp only [step]
    split
    · exact ⟨fun x h => Or.inl h, by simp⟩
    · split
      · exact ⟨fun x h => Or.inl h, by simp⟩
      · split
        · exact ⟨fun x h => Or.inl h, by simp⟩
        · exact ⟨fun x h => Or.inl h, by simp⟩
  | inhold k =>
    simp only [step]
    split
    · exact ⟨fun x h => Or.inl h, by simp⟩
    · split
      · exact ⟨fun x h => Or.inl h, by simp⟩
      · exact ⟨fun x h => Or.inl h, by simp⟩
  | inrest k d =>
    simp only [step]
    split
    · exact ⟨fun x h => Or.inl h, by simp⟩
    · split
      · split
        · exact ⟨fun x h => Or.inl h, by simp⟩
        · exact ⟨fun x h => Or.inl h, by simp⟩
      · exact ⟨fun x h => Or.inl h, by simp⟩
  | inend k =>
    simp only [step]
    split
    · exact ⟨fun x h => Or.inl h, by simp⟩
    · exact ⟨fun x h => Or.inl h, by simp⟩

/-- Histories: every call of `send_*` is for an action that was queued at the start or handed over
during the history. -/
theorem run_attempts (L : Limits) : ∀ (ops : List Op) (st : St) (t : Attempt),
    t ∈ (run L st ops).2 → t.action ∈ st.queued ∨ t.action ∈ handed ops := by
  intro ops
  induction ops with
  | nil => intro st t h; simp [run] at h
  | cons op ops ih =>
    intro st t h
    simp only [run, List.mem_append] at h
    rw [handed_cons]
    obtain ⟨hq, ha⟩ := step_queued L st op
    rcases h with h | h
    · rcases ha t h with h | h
      · exact Or.inl h
      · exact Or.inr (List.mem_append_left _ h)
    · rcases ih _ t h with h | h
      · rcases hq _ h with h | h
        · exact Or.inl h
        · exact Or.inr (List.mem_append_left _ h)
      · exact Or.inr (List.mem_append_right _ h)

/-! ## every call writes a prefix of the whole action, from its first message -/

/-- What is true of a single `send_request` / `send_response` call: the frames the far end took are
the first frames of the complete sequence for the action it was called with; `Ok` means all of them. -/
def Attempt.WellFormed (L : Limits) (t : Attempt) : Prop :=
  t.written = (actionFrames L t.action).1.take t.written.length ∧
  (t.ok = true → t.written = (actionFrames L t.action).1) ∧
  (t.ok = false → t.written.length < (actionFrames L t.action).1.length ∨ (actionFrames L t.action).2 = false)

theorem timely_le (wt : Nat) : ∀ (n : Nat) (ds : List Nat), timely wt ds n ≤ n := by
  intro n
  induction n with
  | zero => intro ds; simp [timely]
  | succ n ih =>
    intro ds
    unfold timely
    split
    · have := ih (delayTail ds); omega
    · omega

theorem Far.take_le (wt : Nat) (f : Far) (n : Nat) : (f.take wt n).1 ≤ n := by
  have hle := timely_le wt n f.delays
  unfold Far.take
  cases f.budget with
  | none => exact hle
  | some k =>
    by_cases hn : n ≤ k
    · simp only [hn, if_true]; exact hle
    · simp only [hn, if_false]; omega

theorem Far.take_ok {wt : Nat} {f : Far} {n : Nat} (h : (f.take wt n).2 = true) : (f.take wt n).1 = n := by
  unfold Far.take at h ⊢
  cases hb : f.budget with
  | none =>
    simp only [hb, beq_iff_eq] at h ⊢
    exact h
  | some k =>
    simp only [hb] at h ⊢
    by_cases hn : n ≤ k
    · simp only [hn, if_true, beq_iff_eq] at h ⊢
      exact h
    · simp [hn] at h

theorem Far.take_fail {wt : Nat} {f : Far} {n : Nat} (h : (f.take wt n).2 = false) : (f.take wt n).1 < n := by
  have hle := timely_le wt n f.delays
  unfold Far.take at h ⊢
  cases hb : f.budget with
  | none =>
    simp only [hb, beq_eq_false_iff_ne, ne_eq] at h ⊢
    omega
  | some k =>
    simp only [hb] at h ⊢
    by_cases hn : n ≤ k
    · simp only [hn, if_true, beq_eq_false_iff_ne, ne_eq] at h ⊢
      omega
    · simp only [hn, if_false]; omega

/-! ## time: each frame has its own `WRITE_TIMEOUT`, nothing bounds the whole -/

/-- A slow but healthy link: the far end refuses nothing and takes at most `wt` for every frame. -/
def Far.Timely (wt : Nat) (f : Far) : Prop := f.budget = none ∧ ∀ d ∈ f.delays, d ≤ wt

theorem delayHead_le {wt : Nat} {ds : List Nat} (h : ∀ d ∈ ds, d ≤ wt) : delayHead ds ≤ wt := by
  cases ds with
  | nil => simp [delayHead]
  | cons d t => exact h d (by simp)

theorem mem_delayTail {d : Nat} {ds : List Nat} (h : d ∈ delayTail ds) : d ∈ ds := by
  match ds, h with
  | [x], h => simpa [delayTail] using h
  | _ :: _ :: _, h => exact List.mem_cons_of_mem _ (by simpa [delayTail] using h)

theorem mem_delaysAfter {d : Nat} : ∀ (n : Nat) {ds : List Nat}, d ∈ delaysAfter n ds → d ∈ ds := by
  intro n
  induction n with
  | zero => intro ds h; simpa [delaysAfter] using h
  | succ n ih => intro ds h; exact mem_delayTail (ih (by simpa [delaysAfter] using h))

/-- every frame within the timeout: all `n` frames are accepted, whatever they add up to -/
theorem timely_all {wt : Nat} : ∀ (n : Nat) {ds : List Nat}, (∀ d ∈ ds, d ≤ wt) → timely wt ds n = n := by
  intro n
  induction n with
  | zero => intro ds _; simp [timely]
  | succ n ih =>
    intro ds h
    unfold timely
    rw [if_pos (delayHead_le h), ih (fun d hd => h d (mem_delayTail hd))]

/-- the first frame slower than the timeout ends the call: exactly the frames before it are accepted -/
theorem timely_late {wt : Nat} : ∀ (j : Nat) {ds : List Nat} {n : Nat}, timely wt ds j = j →
    wt < delayHead (delaysAfter j ds) → j < n → timely wt ds n = j := by
  intro j
  induction j with
  | zero =>
    intro ds n _ hl hn
    cases n with
    | zero => omega
    | succ n =>
      unfold timely
      simp only [delaysAfter] at hl
      rw [if_neg (by omega)]
  | succ j ih =>
    intro ds n hj hl hn
    cases n with
    | zero => omega
    | succ n =>
      unfold timely at hj ⊢
      have hle := timely_le wt j (delayTail ds)
      split at hj
      · rename_i hd
        rw [if_pos hd, ih (by omega) (by simpa [delaysAfter] using hl) (by omega)]
      · omega

theorem Far.take_timely {wt : Nat} {f : Far} (h : f.Timely wt) (n : Nat) : f.take wt n = (n, true) := by
  unfold Far.take
  rw [h.1]
  simp only [timely_all n h.2, beq_self_eq_true]

theorem Far.after_timely {wt : Nat} {f : Far} (h : f.Timely wt) (n : Nat) : (f.after wt n).Timely wt := by
  have hb := h.1
  unfold Far.after
  split
  · exact ⟨hb, fun d hd => h.2 d (mem_delaysAfter _ hd)⟩
  · rename_i k hk
    rw [hb] at hk
    cases hk

/-- `send_*` over a slow but healthy link: every frame of the action is written, the call returns what
the codec says, the time is the sum of the frames' times — no bound on it —, and the link stays as it is. -/
theorem attempt_timely (L : Limits) (s : Nat) (f : Far) (a : Action) (h : f.Timely L.writeTimeout) :
    (attempt L s f a).1.written = (actionFrames L a).1 ∧
    (attempt L s f a).1.ok = (actionFrames L a).2 ∧
    (attempt L s f a).1.partialBytes = 0 ∧
    (attempt L s f a).1.elapsed = elapsedOf f.delays (actionFrames L a).1.length ∧
    (attempt L s f a).2.Timely L.writeTimeout := by
  refine ⟨?_, ?_, ?_, ?_, Far.after_timely h _⟩
  · simp only [attempt, Far.take_timely h, List.take_length]
  · simp only [attempt, Far.take_timely h, Bool.true_and]
  · simp only [attempt, Far.partialOf, h.1]
  · simp only [attempt, Far.take_timely h]

/-- the loop of `on_outbound_substream` over a slow but healthy link: every queued action is sent
completely, in order -/
theorem runActions_timely (L : Limits) (s : Nat) : ∀ (q : List Action) (f : Far), f.Timely L.writeTimeout →
    (∀ a ∈ q, (actionFrames L a).2 = true) →
    (runActions L s f q).1.map (fun t => (t.action, t.written, t.ok)) =
      q.map (fun a => (a, (actionFrames L a).1, true)) ∧
    (runActions L s f q).2.2 = true := by
  intro q
  induction q with
  | nil => intro f _ _; simp [runActions]
  | cons a rest ih =>
    intro f hf hc
    obtain ⟨h1, h2, _, _, h5⟩ := attempt_timely L s f a hf
    have hok : (attempt L s f a).1.ok = true := by rw [h2]; exact hc a (by simp)
    obtain ⟨i1, i2⟩ := ih (attempt L s f a).2 h5 (fun b hb => hc b (List.mem_cons_of_mem _ hb))
    unfold runActions
    rw [if_pos hok]
    refine ⟨?_, i2⟩
    simp only [List.map_cons, i1, h1, hok]
    rfl

theorem attempt_wf (L : Limits) (s : Nat) (f : Far) (a : Action) : (attempt L s f a).1.WellFormed L := by
  have hle := Far.take_le L.writeTimeout f (actionFrames L a).1.length
  refine ⟨?_, ?_, ?_⟩
  · simp only [attempt, List.length_take, Nat.min_eq_left hle]
  · intro hok
    simp only [attempt, Bool.and_eq_true] at hok ⊢
    rw [Far.take_ok hok.1, List.take_length]
  · intro hok
    simp only [attempt, Bool.and_eq_false_iff] at hok ⊢
    rcases hok with hok | hok
    · left
      have := Far.take_fail hok
      simp only [List.length_take]
      omega
    · exact Or.inr hok

theorem runActions_wf (L : Limits) (s : Nat) : ∀ (q : List Action) (f : Far) (t : Attempt),
    t ∈ (runActions L s f q).1 → t.WellFormed L ∧ t.sub = s := by
  intro q
  induction q with
  | nil => intro f t h; simp [runActions] at h
  | cons a rest ih =>
    intro f t h
    unfold runActions at h
    split at h
    · simp only [List.mem_cons] at h
      rcases h with h | h
      · rw [h]; exact ⟨attempt_wf L s f a, rfl⟩
      · exact ih _ t h
    · simp only [List.mem_cons, List.not_mem_nil, or_false] at h
      rw [h]; exact ⟨attempt_wf L s f a, rfl⟩

theorem step_wf (L : Limits) (st : St) (op : Op) : ∀ t ∈ (step L st op).2.2.attempts, t.WellFormed L := by
  cases op with
  | command p a =>
    intro t h
    simp only [step] at h
    unfold onCommand at h
    split at h
    · split at h
      · simp only [List.mem_cons, List.not_mem_nil, or_false] at h
        rw [h]; exact attempt_wf _ _ _ _
      · simp only [Out.append, enqueue_attempts, List.append_nil, List.mem_cons, List.not_mem_nil, or_false] at h
        rw [h]; exact attempt_wf _ _ _ _
    · rw [enqueue_attempts] at h
      simp at h
  | subopen s budget off delays =>
    intro t h
    simp only [step] at h
    split at h
    · simp at h
    · unfold onOutboundSubstream at h
      split at h
      · simp at h
      · split at h
        · exact (runActions_wf L _ _ _ t h).1
        · exact (runActions_wf L _ _ _ t h).1
  | conn p alive =>
    intro t h
    simp only [step] at h
    split at h
    · simp at h
    · rw [onConnectionEstablished_attempts] at h; simp at h
  | disc p => intro t h; simp only [step] at h; split at h <;> simp at h
  | conndead p => intro t h; simp only [step] at h; split at h <;> simp at h
  | dialfail p => intro t h; simp [step] at h
  | view p v => intro t h; simp [step] at h
  | subfail s => intro t h; simp only [step] at h; split at h <;> simp at h
  | plan s budget off delays =>
    intro t h
    simp only [step] at h
    split at h
    · simp at h
    · split at h <;> simp at h
  | insub p => intro t h; simp only [step] at h; split at h <;> simp at h
  | inmsg k d =>
    intro t h
    simp only [step] at h
    split at h
    · simp at h
    · split at h
      · simp at h
      · split at h <;> simp at h
  | inhold k =>
    intro t h
    simp only [step] at h
    split at h
    · simp at h
    · split at h <;> simp at h
  | inrest k d =>
    intro t h
    simp only [step] at h
    split at h
    · simp at h
    · split at h
      · split at h <;> simp at h
      · simp at h
  | inend k => intro t h; simp only [step] at h; split at h <;> simp at h

theorem run_wf (L : Limits) : ∀ (ops : List Op) (st : St) (t : Attempt), t ∈ (run L st ops).2 → t.WellFormed L := by
  intro ops
  induction ops with
  | nil => intro st t h; simp [run] at h
  | cons op ops ih =>
    intro st t h
    simp only [run, List.mem_append] at h
    rcases h with h | h
    · exact step_wf L st op t h
    · exact ih _ t h

/-! ## the cached substream fails: the action takes the slow path as handed over -/

theorem openSubstreamOrDial_lookup {st : St} {p : Nat} {q : List Action}
    (h : alookup p st.pendingOutbound = some q) :
    alookup p (openSubstreamOrDial st p).1.pendingOutbound = some q ∨
    (alookup p (openSubstreamOrDial st p).1.pendingOutbound = none ∧ openSubstream st p = none ∧
      (dialResult st p = .alreadyConnected ∨ dialResult st p = .error)) := by
  unfold openSubstreamOrDial
  split
  · rename_i st1 s heq
    left
    simp only
    rw [openSubstream_pending heq]
    exact h
  · rename_i heq
    split
    · exact Or.inl h
    · exact Or.inl h
    · rename_i hd
      exact Or.inr ⟨alookup_aerase_self _ _, heq, Or.inl hd⟩
    · rename_i hd
      exact Or.inr ⟨alookup_aerase_self _ _, heq, Or.inr hd⟩

/-- `enqueue`: afterwards the action is the last of the peer's queue, unless no substream can be had
at all (`open_substream` failed and `dial` answered `AlreadyConnected` or an error): then the peer's
whole queue is dropped. -/
theorem enqueue_lookup (st : St) (p : Nat) (a : Action) :
    (∃ q, alookup p (enqueue st p a).1.pendingOutbound = some (q ++ [a])) ∨
    (alookup p (enqueue st p a).1.pendingOutbound = none ∧
      openSubstream { st with pendingOutbound := ainsert p [a] st.pendingOutbound } p = none ∧
      (dialResult { st with pendingOutbound := ainsert p [a] st.pendingOutbound } p = .alreadyConnected ∨
       dialResult { st with pendingOutbound := ainsert p [a] st.pendingOutbound } p = .error)) := by
  unfold enqueue
  split
  · rename_i x xs heq
    left
    exact ⟨x :: xs, alookup_ainsert_self _ _ _⟩
  · have h : alookup p ({ st with pendingOutbound := ainsert p [a] st.pendingOutbound } : St).pendingOutbound = some [a] :=
      alookup_ainsert_self _ _ _
    rcases openSubstreamOrDial_lookup h with h | h
    · exact Or.inl ⟨[], h⟩
    · exact Or.inr h

end Litep2pVerif.Bitswap.Proto
