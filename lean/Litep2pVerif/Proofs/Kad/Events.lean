import Litep2pVerif.Model.Kad.Events
/-! Lemmas about the event-channel model (`Model/Kad/Events.lean`): conservation under every schedule, and the
user who keeps reading gets everything. -/
namespace Litep2pVerif.Kad.Events
variable {α : Type}

/-- Events a schedule emits, in order. -/
def emitted : List (Step α) → List α
  | [] => []
  | .emit e :: r => e :: emitted r
  | _ :: r => emitted r

/-- Channel well-formedness: at most `cap` events inside, `cap > 0` (tokio panics on 0), and a suspended `send`
means the channel is full. -/
structure WF (c : Chan α) : Prop where
  pos : 0 < c.cap
  len : c.queue.length ≤ c.cap
  full : c.blocked.isSome → c.queue.length = c.cap

theorem runOne_all (c : Chan α) : c.runOne.all = c.all := by
  unfold Chan.runOne Chan.all
  split
  · split <;> simp_all
  · rfl

theorem read_all (c : Chan α) : c.read.all = c.all := by
  unfold Chan.read Chan.all
  split
  · rfl
  · split <;> simp_all

theorem emit_all (c : Chan α) (e : α) : (c.emit e).all = c.all ++ [e] := by
  simp [Chan.emit, Chan.all]

theorem step_all (c : Chan α) (s : Step α) : (c.step s).all = c.all ++ emitted [s] := by
  cases s <;> simp [Chan.step, emitted, runOne_all, read_all, emit_all]

theorem emitted_append (a b : List (Step α)) : emitted (a ++ b) = emitted a ++ emitted b := by
  induction a with
  | nil => rfl
  | cons s r ih => cases s <;> simp [emitted, ih]

theorem steps_all (sched : List (Step α)) (c : Chan α) :
    (sched.foldl Chan.step c).all = c.all ++ emitted sched := by
  induction sched generalizing c with
  | nil => simp [emitted]
  | cons s r ih =>
    rw [List.foldl_cons, ih, step_all]
    cases s <;> simp [emitted]

theorem runOne_wf {c : Chan α} (h : WF c) : WF c.runOne := by
  unfold Chan.runOne
  split
  · rename_i hb ht
    split
    · rename_i hlt
      exact ⟨h.pos, by simp; omega, by simp [hb]⟩
    · rename_i hge
      exact ⟨h.pos, h.len, fun _ => by have := h.len; simp at *; omega⟩
  · exact h

theorem read_wf {c : Chan α} (h : WF c) : WF c.read := by
  unfold Chan.read
  split
  · exact h
  · rename_i e rest hq
    have hl := h.len
    rw [hq] at hl
    split
    · exact ⟨h.pos, by simp at *; omega, by simp⟩
    · rename_i hb
      exact ⟨h.pos, by simp at *; omega, by simp [hb]⟩

theorem emit_wf {c : Chan α} (h : WF c) (e : α) : WF (c.emit e) := ⟨h.pos, h.len, h.full⟩

theorem step_wf {c : Chan α} (h : WF c) (s : Step α) : WF (c.step s) := by
  cases s
  · exact emit_wf h _
  · exact runOne_wf h
  · exact read_wf h

theorem steps_wf (sched : List (Step α)) {c : Chan α} (h : WF c) : WF (sched.foldl Chan.step c) := by
  induction sched generalizing c with
  | nil => exact h
  | cons s r ih => exact ih (step_wf h s)

theorem runOne_pending (c : Chan α) : c.runOne.pending = c.pending := by
  unfold Chan.runOne Chan.pending
  split
  · rename_i hb ht
    split <;> simp [hb, ht] <;> omega
  · rfl

theorem runOne_nonempty {c : Chan α} (h : WF c) (hp : 0 < c.pending) : c.runOne.queue ≠ [] := by
  unfold Chan.runOne
  have hpos := h.pos
  split
  · split
    · simp
    · rename_i hge
      intro hq
      have hq' : c.queue = [] := hq
      rw [hq'] at hge
      simp at hge
      omega
  · rename_i hcase
    intro hq
    cases hb : c.blocked with
    | some b =>
      have := h.full (by simp [hb])
      simp [hq] at this
      omega
    | none =>
      cases ht : c.todo with
      | nil => simp [Chan.pending, hq, hb, ht] at hp
      | cons e r => exact hcase e r hb ht

theorem read_pending {c : Chan α} (hq : c.queue ≠ []) : c.read.pending + 1 = c.pending := by
  unfold Chan.read Chan.pending
  split
  · contradiction
  · rename_i e rest hq'
    split <;> simp_all <;> omega

theorem round_pending {c : Chan α} (h : WF c) (hp : 0 < c.pending) :
    (c.runOne.read.runOne).pending + 1 = c.pending := by
  rw [runOne_pending, read_pending (runOne_nonempty h hp), runOne_pending]

theorem round_all (c : Chan α) : (c.runOne.read.runOne).all = c.all := by
  rw [runOne_all, read_all, runOne_all]

theorem round_wf {c : Chan α} (h : WF c) : WF (c.runOne.read.runOne) := runOne_wf (read_wf (runOne_wf h))

theorem drain_zero_pending (n : Nat) (c : Chan α) (hp : c.pending = 0) : Chan.drain n c = c := by
  induction n generalizing c with
  | zero => rfl
  | succ n ih =>
    have hq : c.queue = [] := by
      cases hq : c.queue with
      | nil => rfl
      | cons a b => simp [Chan.pending, hq] at hp
    have hb : c.blocked = none := by
      cases hb : c.blocked with
      | none => rfl
      | some b => simp [Chan.pending, hb] at hp
    have ht : c.todo = [] := by
      cases ht : c.todo with
      | nil => rfl
      | cons a b => simp [Chan.pending, ht] at hp
    have h1 : c.runOne = c := by simp [Chan.runOne, hb, ht]
    have h2 : c.read = c := by simp [Chan.read, hq]
    show Chan.drain n (c.runOne.read.runOne) = c
    rw [h1, h2, h1]
    exact ih c hp

/-- The user who keeps reading gets everything: after at least `pending` reads nothing is left anywhere and what was
read is everything that was ever emitted, in emission order. -/
theorem drain_all (n : Nat) (c : Chan α) (h : WF c) (hn : c.pending ≤ n) :
    (Chan.drain n c).pending = 0 ∧ (Chan.drain n c).got = c.all := by
  induction n generalizing c with
  | zero =>
    have hp : c.pending = 0 := by omega
    refine ⟨hp, ?_⟩
    show c.got = c.all
    unfold Chan.pending at hp
    have hq : c.queue = [] := List.eq_nil_of_length_eq_zero (by omega)
    have ht : c.todo = [] := List.eq_nil_of_length_eq_zero (by omega)
    have hb : c.blocked.toList = [] := List.eq_nil_of_length_eq_zero (by omega)
    simp [Chan.all, hq, ht, hb]
  | succ n ih =>
    by_cases hp : c.pending = 0
    · rw [drain_zero_pending _ _ hp]
      refine ⟨hp, ?_⟩
      unfold Chan.pending at hp
      have hq : c.queue = [] := List.eq_nil_of_length_eq_zero (by omega)
      have ht : c.todo = [] := List.eq_nil_of_length_eq_zero (by omega)
      have hb : c.blocked.toList = [] := List.eq_nil_of_length_eq_zero (by omega)
      simp [Chan.all, hq, ht, hb]
    · have hr := round_pending h (by omega)
      have := ih (c.runOne.read.runOne) (round_wf h) (by omega)
      show (Chan.drain n (c.runOne.read.runOne)).pending = 0 ∧ (Chan.drain n (c.runOne.read.runOne)).got = c.all
      rw [← round_all c]
      exact this

theorem runOne_cap (c : Chan α) : c.runOne.cap = c.cap := by
  unfold Chan.runOne
  split
  · split <;> rfl
  · rfl

theorem read_cap (c : Chan α) : c.read.cap = c.cap := by
  unfold Chan.read
  split
  · rfl
  · split <;> rfl

theorem steps_cap (sched : List (Step α)) (c : Chan α) : (sched.foldl Chan.step c).cap = c.cap := by
  induction sched generalizing c with
  | nil => rfl
  | cons s r ih =>
    rw [List.foldl_cons, ih]
    cases s
    · rfl
    · exact runOne_cap c
    · exact read_cap c

/-- A fresh channel of positive capacity is well-formed. -/
theorem fresh_wf (cap : Nat) (h : 0 < cap) : WF ({ cap := cap } : Chan α) := ⟨h, by simp, by simp⟩

end Litep2pVerif.Kad.Events
