import Litep2pVerif.Proofs.Kad.LookupSim
/-!
# Whole runs of a freshly started lookup (C15)

`lookup_run` instantiates `runG_spec` at the initial state of a lookup; the rest of the file is what
value and provider lookups need on top of it: the measure that also counts partial results, "no
stall", and what a terminal action implies.
-/
namespace Litep2pVerif.Kad.Query

/-- A lookup started on `inPeers`: for every event list. -/
theorem lookup_run {d U} {σ ε : Type} {step : σ → ε → σ × Option QAction} {view : σ → View}
    {ok : ε → Prop} {learn : σ → ε → List Nat} {prod : σ → ε → Bool}
    (sim : Simulates d U step view ok learn prod) (s0 : σ) (l : Nat) (inPeers : List KPeer)
    (hv : view s0 = ⟨l, initCandidates inPeers, [], []⟩)
    (hc : ∀ kp ∈ inPeers, kp.dist = d kp.peer ∧ kp.peer ∈ U ∧ kp.peer ≠ l)
    (evs : List ε) (hok : ∀ e ∈ evs, ok e) :
    (sentPeers (runG step s0 evs).2).Nodup ∧ l ∉ sentPeers (runG step s0 evs).2 ∧
    (view (runG step s0 evs).1).Fr d U ∧ (view (runG step s0 evs).1).l = l ∧
    (view (runG step s0 evs).1).mu U + prodCountG step prod s0 evs ≤ 2 * U.length ∧
    (InjOn d U → ∀ p ∈ inPeers.map (·.peer) ++ learnedG step learn s0 evs, p ≠ l →
      (view (runG step s0 evs).1).knows p) := by
  have hfr : (view s0).Fr d U := by rw [hv]; exact Frontier.init inPeers hc
  obtain ⟨r1, r2, _, r4, r5, r6, r7⟩ := runG_spec sim evs s0 hfr hok
  have hl : (view s0).l = l := by rw [hv]
  have hmu : (view s0).mu U ≤ 2 * U.length := by rw [hv]; exact measure_le _ _ _ rfl
  refine ⟨r5, fun hm => (r6 l hm).1 hl.symm, r1, r2.trans hl, by omega, ?_⟩
  intro inj p hp hpl
  apply r7 inj p _ (hl ▸ hpl)
  rcases List.mem_append.1 hp with hp | hp
  · obtain ⟨kp, hkp, rfl⟩ := List.mem_map.1 hp
    left; left
    rw [hv]
    exact initCandidates_known inj (fun x hx => ⟨(hc x hx).1, (hc x hx).2.1⟩) kp hkp
  · exact Or.inr hp

/-- A known peer that is not a candidate has been contacted. -/
theorem View.knows_contacted {d U} {v : View} (hfr : v.Fr d U) {p bound : Nat} (hk : v.knows p)
    (hb : ∀ c ∈ v.cands, bound ≤ c.2.dist) (hlt : d p < bound) : p ∈ v.pend ∨ p ∈ v.queried := by
  rcases hk with hk | hk | hk
  · obtain ⟨x, hx, rfl⟩ := List.mem_map.1 hk
    have := hb x hx
    have hkey := (hfr.key x hx).2
    omega
  · exact Or.inl hk
  · exact Or.inr hk

/-! ### value lookups -/

theorem GetRecord.run_par (evs : List GREv) : ∀ (s : GetRecord), (s.run evs).1.par = s.par := by
  induction evs with
  | nil => intro s; rfl
  | cons e es ih =>
    intro s
    have := (s.step_cfg e).2.2.2.1
    simp only [GetRecord.run]
    split <;> rw [ih, this]

theorem GetRecord.run_localPeer_view (s : GetRecord) : s.view.l = s.localPeer := rfl

/-- With nothing in flight `next_action` never answers `None`. -/
theorem GetRecord.next_ne_none (s : GetRecord) (hp : s.pending = []) (ha : 1 ≤ s.par) :
    s.nextAction.2 ≠ none := by
  unfold GetRecord.nextAction
  split
  · simp
  · split
    · simp
    · rename_i hnd
      split
      · simp
      · split
        · rename_i hpar; rw [hp] at hpar; simp at hpar; omega
        · unfold GetRecord.scheduleNextPeer
          split
          · rename_i hc
            exfalso; apply hnd; simp [hp, hc]
          · simp

/-- One step of a value lookup against the measure `3·never contacted + 2·in flight + queued
records`. -/
theorem GetRecord.step_w3 {d U} (s : GetRecord) (e : GREv) (hok : e.ok d U) (hfr : s.view.Fr d U) :
    (s.step e).1.view.w3 U + (s.step e).1.records.length + (if s.productive e then 1 else 0) ≤
      s.view.w3 U + s.records.length := by
  obtain ⟨_, _, _, _, hw, _⟩ := (GetRecord.sim d U s e hok).spec hfr
  cases e with
  | next =>
    simp only [GetRecord.step, GetRecord.moved, GetRecord.productive] at hw ⊢
    have hr := congrArg List.length s.next_records
    simp only [List.length_append] at hr
    obtain ⟨o, hout⟩ : ∃ o, s.nextAction.2 = o := ⟨_, rfl⟩
    simp only [hout] at hw hr ⊢
    cases o with
    | none => simp [isSend, isPartial, sendOf, outRec] at hw hr ⊢; omega
    | some a =>
      cases a <;> simp [isSend, isPartial, sendOf, outRec] at hw hr ⊢ <;> omega
  | resp p r peers =>
    simp only [GetRecord.step, GetRecord.moved, GetRecord.productive, sendOf] at hw ⊢
    obtain ⟨o, hl⟩ : ∃ o, kpLookup p s.pending = o := ⟨_, rfl⟩
    cases o with
    | none =>
      have : s.registerResponse p r peers = s := by simp [GetRecord.registerResponse, hl]
      simp [this, hl]
    | some kp =>
      have hlen : (s.registerResponse p r peers).records.length ≤ s.records.length + 1 := by
        simp only [GetRecord.registerResponse, hl]
        split <;> simp
      simp [hl] at hw ⊢
      omega
  | fail p =>
    simp only [GetRecord.step, GetRecord.moved, GetRecord.productive, sendOf] at hw ⊢
    obtain ⟨o, hl⟩ : ∃ o, kpLookup p s.pending = o := ⟨_, rfl⟩
    cases o with
    | none =>
      have : s.registerResponseFailure p = s := by simp [GetRecord.registerResponseFailure, hl]
      simp [this, hl]
    | some kp =>
      have hlen : (s.registerResponseFailure p).records = s.records := by
        simp only [GetRecord.registerResponseFailure, hl]
      simp [hl, hlen] at hw ⊢
      omega

theorem GetRecord.run_w3 {d U} (evs : List GREv) : ∀ (s : GetRecord), s.view.Fr d U →
    (∀ e ∈ evs, e.ok d U) →
    (s.run evs).1.view.w3 U + (s.run evs).1.records.length + s.productiveCount evs ≤
      s.view.w3 U + s.records.length := by
  induction evs with
  | nil => intro s _ _; simp [GetRecord.run, GetRecord.productiveCount]
  | cons e es ih =>
    intro s hfr hok
    have he := hok e (List.mem_cons_self ..)
    have h1 := s.step_w3 e he hfr
    have hfr' := ((GetRecord.sim d U s e he).spec hfr).1
    have h2 := ih (s.step e).1 hfr' (fun x hx => hok x (List.mem_cons_of_mem _ hx))
    have hrun : (s.run (e :: es)).1 = (GetRecord.run (s.step e).1 es).1 := by
      simp only [GetRecord.run]; split <;> rfl
    rw [hrun]
    simp only [GetRecord.productiveCount]
    omega

/-- What a terminal action of a value lookup means: the quorum is met, or nothing is left to ask. -/
theorem GetRecord.terminal_means (s : GetRecord) (q : Nat)
    (h : s.nextAction.2 = some (.succeeded q) ∨ s.nextAction.2 = some (.failed q)) :
    s.sufficient s.foundRecords = true ∨ (s.pending = [] ∧ s.candidates = []) := by
  unfold GetRecord.nextAction at h
  split at h
  · simp at h
  · split at h
    · rename_i hd
      right
      exact ⟨by simpa using hd.1, by simpa using hd.2⟩
    · split at h
      · left; assumption
      · split at h
        · simp at h
        · unfold GetRecord.scheduleNextPeer at h
          split at h <;> simp at h

/-- A value lookup reports failure only when nothing is left to ask. -/
theorem GetRecord.failed_means (s : GetRecord) (q : Nat) (h : s.nextAction.2 = some (.failed q)) :
    s.pending = [] ∧ s.candidates = [] := by
  unfold GetRecord.nextAction at h
  split at h
  · simp at h
  · split at h
    · rename_i hd
      exact ⟨by simpa using hd.1, by simpa using hd.2⟩
    · split at h
      · simp at h
      · split at h
        · simp at h
        · unfold GetRecord.scheduleNextPeer at h
          split at h <;> simp at h

/-! ### provider lookups -/

theorem GetProviders.step_par (s : GetProviders) (e : GPEv) : (s.step e).1.par = s.par := by
  cases e with
  | next =>
    simp only [GetProviders.step]
    unfold GetProviders.nextAction
    split
    · rfl
    · split
      · rfl
      · unfold GetProviders.scheduleNextPeer
        split <;> rfl
  | resp p r peers =>
    simp only [GetProviders.step]
    unfold GetProviders.registerResponse
    split <;> rfl
  | fail p =>
    simp only [GetProviders.step]
    unfold GetProviders.registerResponseFailure
    split <;> rfl

theorem GetProviders.run_par (evs : List GPEv) : ∀ (s : GetProviders), (s.run evs).1.par = s.par := by
  induction evs with
  | nil => intro s; rfl
  | cons e es ih =>
    intro s
    have := s.step_par e
    simp only [GetProviders.run]
    split <;> rw [ih, this]

theorem GetProviders.next_ne_none (s : GetProviders) (hp : s.pending = []) (ha : 1 ≤ s.par) :
    s.nextAction.2 ≠ none := by
  unfold GetProviders.nextAction
  split
  · simp
  · rename_i hnd
    split
    · rename_i hpar; rw [hp] at hpar; simp at hpar; omega
    · unfold GetProviders.scheduleNextPeer
      split
      · rename_i hc
        exfalso; apply hnd; simp [hp, hc]
      · simp

/-- A provider lookup emits its terminal action only when nothing is left to ask. -/
theorem GetProviders.terminal_means (s : GetProviders) (q : Nat)
    (h : s.nextAction.2 = some (.succeeded q) ∨ s.nextAction.2 = some (.failed q)) :
    s.pending = [] ∧ s.candidates = [] := by
  unfold GetProviders.nextAction at h
  split at h
  · rename_i hd
    exact ⟨by simpa using hd.1, by simpa using hd.2⟩
  · split at h
    · simp at h
    · unfold GetProviders.scheduleNextPeer at h
      split at h <;> simp at h

end Litep2pVerif.Kad.Query
