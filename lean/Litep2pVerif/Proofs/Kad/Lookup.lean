import Litep2pVerif.Proofs.Kad.FindNode
/-!
# The frontier of an iterative lookup, generically (C15)

`FindNodeContext`, `GetRecordContext` and `GetProvidersContext` share (textually) the way they move
peers between `candidates`, `pending` and `queried`. `View` is that part of the state, `VStep` the
three moves (nothing / schedule the closest candidate / accept an answer or a failure of a pending
peer). Everything that "no self", "no re-query", the termination measure and "everything learned is
known" need is proved once for `VStep` and once for runs of any system whose steps are `VStep`s
(`runG_spec`). No clock is involved anywhere in this file.
-/
namespace Litep2pVerif.Kad.Query

structure View where
  l : Nat
  cands : DMap
  pend : List Nat
  queried : List Nat

def candPeers (m : DMap) : List Nat := m.map (·.2.peer)

def View.Fr (d : Nat → Nat) (U : List Nat) (v : View) : Prop :=
  Frontier d U v.l v.cands v.pend v.queried

def View.visited (v : View) (q : Nat) : Prop := q ∈ v.pend ∨ q ∈ v.queried

/-- The lookup still knows of `p`: as a candidate, as an outstanding request, or as a peer it is
done with. -/
def View.knows (v : View) (p : Nat) : Prop := p ∈ candPeers v.cands ∨ p ∈ v.pend ∨ p ∈ v.queried

def View.mu (U : List Nat) (v : View) : Nat := measure U v.pend v.queried

/-- Three times the number of peers never contacted plus twice the number of outstanding requests
(the measure for lookups that also hand out partial results). -/
def View.w3 (U : List Nat) (v : View) : Nat :=
  3 * (U.filter (fun u => u ∉ v.pend ∧ u ∉ v.queried)).length + 2 * v.pend.length

/-- `d` is injective on the universe. -/
def InjOn (d : Nat → Nat) (U : List Nat) : Prop := ∀ a ∈ U, ∀ b ∈ U, d a = d b → a = b

/-- One move of the frontier: the view before and after, the peer a request is sent to, the peers
learned, and whether the move is productive. -/
inductive VStep (d : Nat → Nat) (U : List Nat) : View → View → Option Nat → List Nat → Bool → Prop
  | stay (v : View) : VStep d U v v none [] false
  | send (v : View) (k : Nat) (c : KPeer) (rest : DMap) (h : v.cands = (k, c) :: rest) :
      VStep d U v { v with cands := rest, pend := c.peer :: v.pend.filter (· ≠ c.peer) }
        (some c.peer) [] true
  | answer (v : View) (p : Nat) (peers : List KPeer) (hp : p ∈ v.pend)
      (hpeers : ∀ kp ∈ peers, kp.dist = d kp.peer ∧ kp.peer ∈ U) :
      VStep d U v
        { v with cands := addCandidates v.l (sinsert p v.queried) (v.pend.filter (· ≠ p)) v.cands peers
                 pend := v.pend.filter (· ≠ p)
                 queried := sinsert p v.queried }
        none (peers.map (·.peer)) true

theorem VStep.stay' {d U} {v v' : View} (h : v' = v) : VStep d U v v' none [] false := by
  subst h; exact VStep.stay _

theorem filter_ne_of_not_mem {l : List Nat} {p : Nat} (h : p ∉ l) : l.filter (· ≠ p) = l := by
  apply List.filter_eq_self.2
  intro a ha
  simp only [ne_eq, decide_eq_true_eq]
  intro e; exact h (e ▸ ha)

/-! ### candidates stay known (needs injectivity of the distance) -/

theorem candPeers_dinsert {d : Nat → Nat} {U : List Nat} (inj : InjOn d U) {k : Nat} {v : KPeer}
    {m : DMap} (hm : ∀ x ∈ m, x.1 = d x.2.peer ∧ x.2.peer ∈ U) (hk : k = d v.peer) (hv : v.peer ∈ U) :
    (∀ p ∈ candPeers m, p ∈ candPeers (dinsert k v m)) ∧ v.peer ∈ candPeers (dinsert k v m) ∧
      (∀ x ∈ dinsert k v m, x.1 = d x.2.peer ∧ x.2.peer ∈ U) := by
  have hself : v.peer ∈ candPeers (dinsert k v m) :=
    List.mem_map.2 ⟨(k, v), mem_dinsert_self k v m, rfl⟩
  refine ⟨?_, hself, ?_⟩
  · intro p hp
    obtain ⟨x, hx, rfl⟩ := List.mem_map.1 hp
    by_cases hxk : x.1 = k
    · have h1 := hm x hx
      have : x.2.peer = v.peer := inj _ h1.2 _ hv (by rw [← h1.1, hxk, hk])
      rw [this]; exact hself
    · exact List.mem_map.2 ⟨x, mem_dinsert_of_ne hx hxk, rfl⟩
  · intro x hx
    rcases mem_dinsert_sub hx with hx | hx
    · subst hx; exact ⟨hk, hv⟩
    · exact hm x hx

theorem addCandidates_known {d : Nat → Nat} {U : List Nat} (inj : InjOn d U) {l : Nat}
    {qd pd : List Nat} {peers : List KPeer}
    (hpeers : ∀ kp ∈ peers, kp.dist = d kp.peer ∧ kp.peer ∈ U) : ∀ {c : DMap},
    (∀ x ∈ c, x.1 = d x.2.peer ∧ x.2.peer ∈ U) →
    (∀ p ∈ candPeers c, p ∈ candPeers (addCandidates l qd pd c peers)) ∧
    (∀ kp ∈ peers, kp.peer ∈ qd ∨ kp.peer ∈ pd ∨ kp.peer = l ∨
      kp.peer ∈ candPeers (addCandidates l qd pd c peers)) := by
  unfold addCandidates
  induction peers with
  | nil => intro c _; exact ⟨fun p hp => hp, by simp⟩
  | cons kp ps ih =>
    intro c hc
    have hps : ∀ kp ∈ ps, kp.dist = d kp.peer ∧ kp.peer ∈ U :=
      fun x hx => hpeers x (List.mem_cons_of_mem _ hx)
    have hkp := hpeers kp (List.mem_cons_self ..)
    simp only [List.foldl_cons]
    by_cases h1 : kp.peer ∈ qd
    · simp only [h1, if_true]
      obtain ⟨i1, i2⟩ := ih hps hc
      refine ⟨i1, ?_⟩
      intro x hx
      rcases List.mem_cons.1 hx with hx | hx
      · subst hx; exact Or.inl h1
      · exact i2 x hx
    · by_cases h2 : kp.peer ∈ pd
      · simp only [h1, h2, if_true, if_false]
        obtain ⟨i1, i2⟩ := ih hps hc
        refine ⟨i1, ?_⟩
        intro x hx
        rcases List.mem_cons.1 hx with hx | hx
        · subst hx; exact Or.inr (Or.inl h2)
        · exact i2 x hx
      · by_cases h3 : l = kp.peer
        · rw [if_neg h1, if_neg h2, if_pos h3]
          obtain ⟨i1, i2⟩ := ih hps hc
          refine ⟨i1, ?_⟩
          intro x hx
          rcases List.mem_cons.1 hx with hx | hx
          · subst hx; exact Or.inr (Or.inr (Or.inl h3.symm))
          · exact i2 x hx
        · rw [if_neg h1, if_neg h2, if_neg h3]
          obtain ⟨j1, j2, j3⟩ := candPeers_dinsert inj hc hkp.1 hkp.2
          obtain ⟨i1, i2⟩ := ih hps j3
          refine ⟨fun p hp => i1 p (j1 p hp), ?_⟩
          intro x hx
          rcases List.mem_cons.1 hx with hx | hx
          · subst hx; exact Or.inr (Or.inr (Or.inr (i1 _ j2)))
          · exact i2 x hx

theorem initCandidates_known {d : Nat → Nat} {U : List Nat} (inj : InjOn d U) {inPeers : List KPeer}
    (h : ∀ kp ∈ inPeers, kp.dist = d kp.peer ∧ kp.peer ∈ U) :
    ∀ kp ∈ inPeers, kp.peer ∈ candPeers (initCandidates inPeers) := by
  have key : ∀ (ps : List KPeer), (∀ kp ∈ ps, kp.dist = d kp.peer ∧ kp.peer ∈ U) → ∀ (c : DMap),
      (∀ x ∈ c, x.1 = d x.2.peer ∧ x.2.peer ∈ U) →
      (∀ p ∈ candPeers c, p ∈ candPeers (ps.foldl (fun acc c => dinsert c.dist c acc) c)) ∧
      (∀ kp ∈ ps, kp.peer ∈ candPeers (ps.foldl (fun acc c => dinsert c.dist c acc) c)) := by
    intro ps
    induction ps with
    | nil => intro _ c _; exact ⟨fun p hp => hp, by simp⟩
    | cons kp ps ih =>
      intro hps c hc
      have hkp := hps kp (List.mem_cons_self ..)
      obtain ⟨j1, j2, j3⟩ := candPeers_dinsert inj hc hkp.1 hkp.2
      obtain ⟨i1, i2⟩ := ih (fun x hx => hps x (List.mem_cons_of_mem _ hx)) _ j3
      simp only [List.foldl_cons]
      refine ⟨fun p hp => i1 p (j1 p hp), ?_⟩
      intro x hx
      rcases List.mem_cons.1 hx with hx | hx
      · subst hx; exact i1 _ j2
      · exact i2 x hx
  exact (key inPeers h [] (by simp)).2

/-! ### one move -/

/-- Everything one move guarantees, given the frontier invariant before it. -/
theorem VStep.spec {d U} {v v' : View} {o : Option Nat} {L : List Nat} {b : Bool}
    (hs : VStep d U v v' o L b) (h : v.Fr d U) :
    v'.Fr d U ∧ v'.l = v.l ∧ (∀ q, v.visited q → v'.visited q) ∧
    v'.mu U + (if b then 1 else 0) ≤ v.mu U ∧
    v'.w3 U + (if b then (if o.isSome then 1 else 2) else 0) ≤ v.w3 U ∧
    (∀ c, o = some c → c ≠ v.l ∧ ¬ v.visited c ∧ v'.visited c ∧ c ∈ v'.pend) ∧
    (o = none → v'.pend.length ≤ v.pend.length) ∧
    (v'.pend.length ≤ v.pend.length + 1) ∧
    (InjOn d U → ∀ p, (v.knows p ∨ p ∈ L) → p ≠ v.l → v'.knows p) := by
  cases hs with
  | stay =>
    exact ⟨h, rfl, fun q hq => hq, by simp, by simp, by simp, fun _ => Nat.le_refl _, by omega,
      fun _ p hp _ => by simpa using hp⟩
  | send k c rest hc =>
    unfold View.Fr at h
    rw [hc] at h
    obtain ⟨hfr', h1, h2, h3, h4⟩ := h.send
    have he : v.pend.filter (· ≠ c.peer) = v.pend := filter_ne_of_not_mem h2
    have hms := measure_send h4 h2 h3
    refine ⟨?_, rfl, ?_, ?_, ?_, ?_, by simp, ?_, ?_⟩
    · unfold View.Fr; simp only [he]; exact hfr'
    · intro q hq
      unfold View.visited at hq ⊢
      simp only [he, List.mem_cons]
      rcases hq with hq | hq
      · exact Or.inl (Or.inr hq)
      · exact Or.inr hq
    · unfold View.mu; simp only [he, if_true]; exact hms
    · unfold View.w3 measure at *
      simp only [he, if_true, Option.isSome_some, List.length_cons] at hms ⊢
      omega
    · intro c' hc'
      simp only [Option.some.injEq] at hc'
      subst hc'
      refine ⟨h1, ?_, ?_, ?_⟩
      · unfold View.visited; simp only [not_or]; exact ⟨h2, h3⟩
      · unfold View.visited; simp
      · simp
    · simp only [he, List.length_cons]; omega
    · intro _ p hp _
      unfold View.knows at hp ⊢
      simp only [he, List.mem_cons]
      rcases hp with (hp | hp | hp) | hp
      · rw [hc] at hp
        simp only [candPeers, List.map_cons, List.mem_cons] at hp
        rcases hp with hp | hp
        · exact Or.inr (Or.inl (Or.inl hp))
        · exact Or.inl hp
      · exact Or.inr (Or.inl (Or.inr hp))
      · exact Or.inr (Or.inr hp)
      · simp at hp
  | answer p peers hp hpeers =>
    have hfr := Frontier.answer p peers h hp hpeers
    have hma := measure_answer (U := U) (queried := v.queried) hp h.pendNodup
    have hlen := filter_ne_length hp h.pendNodup
    refine ⟨hfr, rfl, ?_, ?_, ?_, by simp, ?_, ?_, ?_⟩
    · intro q hq
      unfold View.visited at hq ⊢
      simp only [mem_sinsert, List.mem_filter]
      by_cases hqp : q = p
      · exact Or.inr (Or.inl hqp)
      · rcases hq with hq | hq
        · exact Or.inl ⟨hq, by simpa using hqp⟩
        · exact Or.inr (Or.inr hq)
    · unfold View.mu; simp only [if_true]; omega
    · unfold View.w3 measure at *
      simp only [if_true, Option.isSome_none] at hma ⊢
      simp only [Bool.false_eq_true, if_false]
      omega
    · intro _; simp only; omega
    · simp only; omega
    · intro inj q hq hql
      have hc : ∀ x ∈ v.cands, x.1 = d x.2.peer ∧ x.2.peer ∈ U := by
        intro x hx
        have := h.key x hx
        exact ⟨this.1.trans this.2, (h.fresh x hx).2.2.2⟩
      obtain ⟨a1, a2⟩ := addCandidates_known inj (l := v.l) (qd := sinsert p v.queried)
        (pd := v.pend.filter (· ≠ p)) hpeers hc
      unfold View.knows at hq ⊢
      simp only [mem_sinsert, List.mem_filter]
      rcases hq with (hq | hq | hq) | hq
      · exact Or.inl (a1 q hq)
      · by_cases hqp : q = p
        · exact Or.inr (Or.inr (Or.inl hqp))
        · exact Or.inr (Or.inl ⟨hq, by simpa using hqp⟩)
      · exact Or.inr (Or.inr (Or.inr hq))
      · obtain ⟨kp, hkp, rfl⟩ := List.mem_map.1 hq
        rcases a2 kp hkp with h1 | h1 | h1 | h1
        · exact Or.inr (Or.inr (mem_sinsert.1 h1))
        · exact Or.inr (Or.inl (by simpa using h1))
        · exact absurd h1 hql
        · exact Or.inl h1

/-! ### runs of any system whose steps are moves -/

/-- The run function of the three contexts (`FindNode.run`, `GetRecord.run`, `GetProviders.run` are
instances). -/
def runG {σ ε : Type} (step : σ → ε → σ × Option QAction) (s : σ) : List ε → σ × List QAction
  | [] => (s, [])
  | e :: es =>
    match (step s e).2 with
    | some a => ((runG step (step s e).1 es).1, a :: (runG step (step s e).1 es).2)
    | none => runG step (step s e).1 es

def learnedG {σ ε : Type} (step : σ → ε → σ × Option QAction) (learn : σ → ε → List Nat) (s : σ) :
    List ε → List Nat
  | [] => []
  | e :: es => learn s e ++ learnedG step learn (step s e).1 es

def prodCountG {σ ε : Type} (step : σ → ε → σ × Option QAction) (prod : σ → ε → Bool) (s : σ) :
    List ε → Nat
  | [] => 0
  | e :: es => (if prod s e then 1 else 0) + prodCountG step prod (step s e).1 es

def sendOf : Option QAction → Option Nat
  | some (.send _ p) => some p
  | _ => none

theorem sentPeers_cons' (a : QAction) (as : List QAction) :
    sentPeers (a :: as) = (sendOf (some a)).toList ++ sentPeers as := by
  cases a <;> simp [sentPeers, sendOf]

theorem runG_fst {σ ε : Type} (step : σ → ε → σ × Option QAction) (s : σ) (e : ε) (es : List ε) :
    (runG step s (e :: es)).1 = (runG step (step s e).1 es).1 := by
  simp only [runG]; split <;> rfl

theorem runG_sent {σ ε : Type} (step : σ → ε → σ × Option QAction) (s : σ) (e : ε) (es : List ε) :
    sentPeers (runG step s (e :: es)).2 =
      (sendOf (step s e).2).toList ++ sentPeers (runG step (step s e).1 es).2 := by
  simp only [runG]
  split
  · rename_i a ha; rw [ha, sentPeers_cons']
  · rename_i ha; rw [ha]; simp [sendOf]

/-- A system whose every (well-formed) step is a move of its view. -/
def Simulates (d : Nat → Nat) (U : List Nat) {σ ε : Type} (step : σ → ε → σ × Option QAction)
    (view : σ → View) (ok : ε → Prop) (learn : σ → ε → List Nat) (prod : σ → ε → Bool) : Prop :=
  ∀ s e, ok e → VStep d U (view s) (view (step s e).1) (sendOf (step s e).2) (learn s e) (prod s e)

/-- The frontier along a whole event sequence: invariant at the end, sent peers pairwise different,
none of them the local peer, none of them contacted before, the termination measure, and
everything learned stays known. -/
theorem runG_spec {d U} {σ ε : Type} {step : σ → ε → σ × Option QAction} {view : σ → View}
    {ok : ε → Prop} {learn : σ → ε → List Nat} {prod : σ → ε → Bool}
    (sim : Simulates d U step view ok learn prod) (evs : List ε) : ∀ (s : σ), (view s).Fr d U →
    (∀ e ∈ evs, ok e) →
    (view (runG step s evs).1).Fr d U ∧ (view (runG step s evs).1).l = (view s).l ∧
    (∀ q, (view s).visited q → (view (runG step s evs).1).visited q) ∧
    (view (runG step s evs).1).mu U + prodCountG step prod s evs ≤ (view s).mu U ∧
    (sentPeers (runG step s evs).2).Nodup ∧
    (∀ c ∈ sentPeers (runG step s evs).2,
      c ≠ (view s).l ∧ ¬ (view s).visited c ∧ (view (runG step s evs).1).visited c) ∧
    (InjOn d U → ∀ p, ((view s).knows p ∨ p ∈ learnedG step learn s evs) → p ≠ (view s).l →
      (view (runG step s evs).1).knows p) := by
  induction evs with
  | nil =>
    intro s h _
    exact ⟨h, rfl, fun q hq => hq, by simp [runG, prodCountG], by simp [runG, sentPeers],
      by simp [runG, sentPeers], fun _ p hp _ => by simpa [learnedG, runG] using hp⟩
  | cons e es ih =>
    intro s h hok
    obtain ⟨s1, s2, s3, s4, _, s6, _, _, s9⟩ := (sim s e (hok e (List.mem_cons_self ..))).spec h
    obtain ⟨r1, r2, r3, r4, r5, r6, r7⟩ := ih (step s e).1 s1 (fun x hx => hok x (List.mem_cons_of_mem _ hx))
    rw [runG_fst, runG_sent]
    refine ⟨r1, r2.trans s2, fun q hq => r3 q (s3 q hq), ?_, ?_, ?_, ?_⟩
    · simp only [prodCountG]; omega
    · cases ho : sendOf (step s e).2 with
      | none => simpa using r5
      | some c =>
        simp only [Option.toList_some, List.singleton_append, List.nodup_cons]
        exact ⟨fun hm => (r6 c hm).2.1 (s6 c ho).2.2.1, r5⟩
    · intro c hc
      rcases List.mem_append.1 hc with hc | hc
      · cases ho : sendOf (step s e).2 with
        | none => rw [ho] at hc; simp at hc
        | some c' =>
          rw [ho] at hc
          simp only [Option.toList_some, List.mem_singleton] at hc
          subst hc
          obtain ⟨y1, y2, y3, _⟩ := s6 c ho
          exact ⟨y1, y2, r3 c y3⟩
      · obtain ⟨x1, x2, x3⟩ := r6 c hc
        exact ⟨s2 ▸ x1, fun hv => x2 (s3 c hv), x3⟩
    · intro inj p hp hpl
      apply r7 inj p _ (s2 ▸ hpl)
      simp only [learnedG, List.mem_append] at hp
      rcases hp with hp | hp | hp
      · exact Or.inl (s9 inj p (Or.inl hp) hpl)
      · exact Or.inl (s9 inj p (Or.inr hp) hpl)
      · exact Or.inr hp

end Litep2pVerif.Kad.Query
