import Litep2pVerif.Proofs.Kad.Engine
import Litep2pVerif.Proofs.Kad.LookupRun
/-!
# Per-query frontier at engine level (C15)

The engine routes every event to the context stored under the event's query id. For a fixed id `q`
every operation of the engine (that does not start `q` again) is, on the context of `q`, one move of
its frontier or nothing — whatever the other queries do, in whatever order `next_action` visits
them, also for events about ids that are not active.
-/
namespace Litep2pVerif.Kad.Query

/-! ### the query map -/

theorem qLookup_eq_none {q : Nat} {l : List (Nat × QueryType)} (h : q ∉ keys l) : qLookup q l = none := by
  cases hl : qLookup q l with
  | none => rfl
  | some t => exact absurd (List.mem_map.2 ⟨_, qLookup_some hl, rfl⟩) h

theorem qLookup_qSet_same {q : Nat} {t t0 : QueryType} {l : List (Nat × QueryType)}
    (h : qLookup q l = some t0) : qLookup q (qSet q t l) = some t := by
  induction l with
  | nil => simp [qLookup] at h
  | cons x xs ih =>
    simp only [qLookup] at h
    simp only [qSet]
    split
    · simp [qLookup]
    · rename_i hx
      simp only [hx, if_false] at h
      simp only [qLookup, hx, if_false]
      exact ih h

theorem qLookup_qSet_ne {q q' : Nat} {t : QueryType} {l : List (Nat × QueryType)} (hne : q ≠ q') :
    qLookup q (qSet q' t l) = qLookup q l := by
  induction l with
  | nil => rfl
  | cons x xs ih =>
    simp only [qSet]
    split
    · rename_i hx
      have h1 : ¬ q' = q := fun e => hne e.symm
      have h2 : ¬ x.1 = q := fun e => hne (e ▸ hx ▸ rfl)
      simp [qLookup, h1, h2]
    · simp only [qLookup, ih]

theorem qLookup_qErase_same (q : Nat) (l : List (Nat × QueryType)) : qLookup q (qErase q l) = none := by
  apply qLookup_eq_none
  intro hm
  exact (mem_keys_qErase.1 hm).2 rfl

theorem qLookup_qErase_ne {q q' : Nat} {l : List (Nat × QueryType)} (hne : q ≠ q') :
    qLookup q (qErase q' l) = qLookup q l := by
  induction l with
  | nil => rfl
  | cons x xs ih =>
    simp only [qErase, List.filter_cons]
    by_cases hx : x.1 = q'
    · have h2 : ¬ x.1 = q := fun e => hne (e ▸ hx ▸ rfl)
      simp only [hx, ne_eq, not_true_eq_false, decide_false, Bool.false_eq_true, if_false]
      simp only [qLookup, h2, if_false]
      exact ih
    · simp only [ne_eq, hx, not_false_eq_true, decide_true, if_true, qLookup]
      split
      · rfl
      · exact ih

theorem qLookup_qInsert_ne {q q' : Nat} {t : QueryType} {l : List (Nat × QueryType)} (hne : q ≠ q') :
    qLookup q (qInsert q' t l) = qLookup q l := by
  have h1 : ¬ q' = q := fun e => hne e.symm
  simp only [qInsert, qLookup, h1, if_false]
  exact qLookup_qErase_ne hne

theorem qLookup_qInsert_same (q : Nat) (t : QueryType) (l : List (Nat × QueryType)) :
    qLookup q (qInsert q t l) = some t := by
  simp [qInsert, qLookup]

/-! ### the view of a query -/

/-- The frontier of a query (`L` is the local peer; contexts without a frontier have the empty one). -/
def QueryType.view (L : Nat) : QueryType → View
  | .findNode c => c.view
  | .putRecord _ _ c => c.view
  | .addProvider _ _ _ c => c.view
  | .getRecord c => c.view
  | .getProviders c => c.view
  | _ => ⟨L, [], [], []⟩

theorem VStep.none_eq {d U} {v v' : View} {Lr : List Nat} (h : VStep d U v v' none Lr false) : v' = v := by
  cases h
  rfl

theorem typeNext_sim (d : Nat → Nat) (U : List Nat) (L now : Nat) (t : QueryType) :
    VStep d U (t.view L) ((Engine.typeNext now t).1.view L) (sendOf (Engine.typeNext now t).2) []
      (isSend (Engine.typeNext now t).2) := by
  cases t with
  | findNode c => exact FindNode.next_sim d U c now
  | putRecord r qu c => exact FindNode.next_sim d U c now
  | addProvider k p qu c => exact FindNode.next_sim d U c now
  | getRecord c => exact GetRecord.next_sim d U c
  | getProviders c => exact GetProviders.next_sim d U c
  | putRecordToPeers r qu c => exact VStep.stay _
  | putRecordToFoundNodes c =>
    simp only [Engine.typeNext, QueryType.view]
    unfold PutTarget.nextAction
    split
    · split <;> exact VStep.stay _
    · exact VStep.stay _
  | addProviderToFoundNodes c =>
    simp only [Engine.typeNext, QueryType.view]
    unfold PutTarget.nextAction
    split
    · split <;> exact VStep.stay _
    · exact VStep.stay _

theorem failType_sim (d : Nat → Nat) (U : List Nat) (L p : Nat) (t : QueryType) :
    ∃ Lr b, VStep d U (t.view L) ((Engine.failType p t).view L) none Lr b := by
  cases t with
  | findNode c => exact ⟨_, _, FindNode.sim d U c (.fail p) trivial⟩
  | putRecord r qu c => exact ⟨_, _, FindNode.sim d U c (.fail p) trivial⟩
  | addProvider k p' qu c => exact ⟨_, _, FindNode.sim d U c (.fail p) trivial⟩
  | getRecord c => exact ⟨_, _, GetRecord.sim d U c (.fail p) trivial⟩
  | getProviders c => exact ⟨_, _, GetProviders.sim d U c (.fail p) trivial⟩
  | putRecordToPeers r qu c => exact ⟨_, _, VStep.stay _⟩
  | putRecordToFoundNodes c => exact ⟨_, _, VStep.stay _⟩
  | addProviderToFoundNodes c => exact ⟨_, _, VStep.stay _⟩

theorem respType_sim (d : Nat → Nat) (U : List Nat) (L p : Nat) (m : Msg) (t : QueryType) (hm : m.ok d U) :
    ∃ Lr b, VStep d U (t.view L) ((Engine.respType p m t).view L) none Lr b := by
  cases t with
  | findNode c =>
    cases m with
    | findNode peers => exact ⟨_, _, FindNode.sim d U c (.resp p peers) hm⟩
    | putValue => exact ⟨_, _, FindNode.sim d U c (.fail p) trivial⟩
    | getRecord r peers => exact ⟨_, _, FindNode.sim d U c (.fail p) trivial⟩
    | addProvider => exact ⟨_, _, FindNode.sim d U c (.fail p) trivial⟩
    | getProviders pr peers => exact ⟨_, _, FindNode.sim d U c (.fail p) trivial⟩
  | putRecord r qu c =>
    cases m with
    | findNode peers => exact ⟨_, _, FindNode.sim d U c (.resp p peers) hm⟩
    | putValue => exact ⟨_, _, FindNode.sim d U c (.fail p) trivial⟩
    | getRecord r peers => exact ⟨_, _, FindNode.sim d U c (.fail p) trivial⟩
    | addProvider => exact ⟨_, _, FindNode.sim d U c (.fail p) trivial⟩
    | getProviders pr peers => exact ⟨_, _, FindNode.sim d U c (.fail p) trivial⟩
  | addProvider k p' qu c =>
    cases m with
    | findNode peers => exact ⟨_, _, FindNode.sim d U c (.resp p peers) hm⟩
    | putValue => exact ⟨_, _, FindNode.sim d U c (.fail p) trivial⟩
    | getRecord r peers => exact ⟨_, _, FindNode.sim d U c (.fail p) trivial⟩
    | addProvider => exact ⟨_, _, FindNode.sim d U c (.fail p) trivial⟩
    | getProviders pr peers => exact ⟨_, _, FindNode.sim d U c (.fail p) trivial⟩
  | getRecord c =>
    cases m with
    | getRecord r peers => exact ⟨_, _, GetRecord.sim d U c (.resp p r peers) hm⟩
    | putValue => exact ⟨_, _, GetRecord.sim d U c (.fail p) trivial⟩
    | findNode peers => exact ⟨_, _, GetRecord.sim d U c (.fail p) trivial⟩
    | addProvider => exact ⟨_, _, GetRecord.sim d U c (.fail p) trivial⟩
    | getProviders pr peers => exact ⟨_, _, GetRecord.sim d U c (.fail p) trivial⟩
  | getProviders c =>
    cases m with
    | getProviders pr peers => exact ⟨_, _, GetProviders.sim d U c (.resp p pr peers) hm⟩
    | putValue => exact ⟨_, _, GetProviders.sim d U c (.fail p) trivial⟩
    | findNode peers => exact ⟨_, _, GetProviders.sim d U c (.fail p) trivial⟩
    | addProvider => exact ⟨_, _, GetProviders.sim d U c (.fail p) trivial⟩
    | getRecord r peers => exact ⟨_, _, GetProviders.sim d U c (.fail p) trivial⟩
  | putRecordToPeers r qu c => exact ⟨_, _, VStep.stay _⟩
  | putRecordToFoundNodes c => exact ⟨_, _, VStep.stay _⟩
  | addProviderToFoundNodes c => exact ⟨_, _, VStep.stay _⟩

theorem sendFailType_view (L p : Nat) (t : QueryType) : (Engine.sendFailType p t).view L = t.view L := by
  cases t <;> rfl

theorem sendOkType_view (L p : Nat) (t : QueryType) : (Engine.sendOkType p t).view L = t.view L := by
  cases t <;> rfl

/-! ### one operation, seen from query `q` -/

theorem sentNow_of_ne {q : Nat} {a : EAction} (h : a.query ≠ q) : sentNow q (.act a) = none := by
  cases a <;> simp only [sentNow]
  rename_i q' p
  simp only [EAction.query] at h
  simp [h]

theorem successAction_query {q : Nat} {t : QueryType} (hk : t.query = q) :
    (Engine.successAction q t).query = q := by
  cases t <;> simp [Engine.successAction, EAction.query, QueryType.query] at hk ⊢ <;> exact hk

theorem successAction_not_send (q q' : Nat) (t : QueryType) : sentNow q (.act (Engine.successAction q' t)) = none := by
  cases t <;> rfl

/-- What one operation does to the context of `q` when `q` is active: it stays active and its
frontier makes one move (sending to the peer the outcome names, if it names one for `q`), or it is
removed and nothing is sent for it. -/
def QMove (d : Nat → Nat) (U : List Nat) (L q : Nat) (t : QueryType) (e' : Engine) (o : Outcome) : Prop :=
  (∃ t' Lr b, qLookup q e'.queries = some t' ∧ VStep d U (t.view L) (t'.view L) (sentNow q o) Lr b) ∨
  (qLookup q e'.queries = none ∧ sentNow q o = none)

theorem QMove.stay {d U L q t} {e' : Engine} {o : Outcome} (h1 : qLookup q e'.queries = some t)
    (h2 : sentNow q o = none) : QMove d U L q t e' o :=
  Or.inl ⟨t, _, _, h1, h2 ▸ VStep.stay _⟩

theorem nextAction_view (d : Nat → Nat) (U : List Nat) (L q now : Nat) (order : List Nat) :
    ∀ (e : Engine), KeyOk e → ∀ t, qLookup q e.queries = some t →
      QMove d U L q t (e.nextAction now order).1 (e.nextAction now order).2 := by
  induction order with
  | nil => intro e _ t ht; exact QMove.stay ht rfl
  | cons q2 rest ih =>
    intro e hk t ht
    simp only [Engine.nextAction]
    split
    · exact ih e hk t ht
    · rename_i t2 hl2
      have hkey2 : t2.query = q2 := hk _ (qLookup_some hl2)
      obtain ⟨n1, n2⟩ := typeNext_query now t2
      have hset : KeyOk { e with queries := qSet q2 (Engine.typeNext now t2).1 e.queries } :=
        hk.set q2 _ (n1.trans hkey2)
      by_cases hq : q2 = q
      · -- the visited query is `q` itself
        subst hq
        have htt : t2 = t := by rw [hl2] at ht; exact Option.some.inj ht
        subst htt
        have hsim := typeNext_sim d U L now t2
        have hl1 : qLookup q2 (qSet q2 (Engine.typeNext now t2).1 e.queries) = some (Engine.typeNext now t2).1 :=
          qLookup_qSet_same hl2
        split
        · rename_i q' ha
          have hq' : q' = q2 := by have := n2 _ ha; simp only [QAction.query] at this; omega
          subst hq'
          unfold Engine.onQuerySucceeded
          simp only [hl1]
          exact Or.inr ⟨qLookup_qErase_same _ _, successAction_not_send _ _ _⟩
        · rename_i q' ha
          have hq' : q' = q2 := by have := n2 _ ha; simp only [QAction.query] at this; omega
          subst hq'
          unfold Engine.onQueryFailed
          simp only [hl1]
          exact Or.inr ⟨qLookup_qErase_same _ _, rfl⟩
        · rename_i q' p ha
          have hq' : q' = q2 := by have := n2 _ ha; simp only [QAction.query] at this; omega
          subst hq'
          rw [ha] at hsim
          refine Or.inl ⟨_, [], true, hl1, ?_⟩
          simpa [sentNow, sendOf, isSend] using hsim
        · rename_i q' p v ha
          rw [ha] at hsim
          refine Or.inl ⟨_, [], false, hl1, ?_⟩
          simpa [sentNow, sendOf, isSend] using hsim
        · rename_i ha
          rw [ha] at hsim
          have hv : (Engine.typeNext now t2).1.view L = t2.view L := VStep.none_eq hsim
          have := ih _ hset _ hl1
          unfold QMove at this ⊢
          rw [hv] at this
          exact this
      · -- another query is visited: the context of `q` is not touched
        have hne : q ≠ q2 := fun e => hq e.symm
        have hl1 : qLookup q (qSet q2 (Engine.typeNext now t2).1 e.queries) = some t := by
          rw [qLookup_qSet_ne hne]; exact ht
        split
        · rename_i q' ha
          have hq' : q' = q2 := by have := n2 _ ha; simp only [QAction.query] at this; omega
          subst hq'
          unfold Engine.onQuerySucceeded
          split
          · exact QMove.stay hl1 rfl
          · rename_i t' hl'
            refine QMove.stay (by simp only; rw [qLookup_qErase_ne hne]; exact hl1) ?_
            exact sentNow_of_ne (by rw [successAction_query (hset _ (qLookup_some hl'))]; exact hq)
        · rename_i q' ha
          have hq' : q' = q2 := by have := n2 _ ha; simp only [QAction.query] at this; omega
          subst hq'
          unfold Engine.onQueryFailed
          split
          · exact QMove.stay hl1 rfl
          · exact QMove.stay (by simp only; rw [qLookup_qErase_ne hne]; exact hl1)
              (sentNow_of_ne (by simpa [EAction.query] using hq))
        · rename_i q' p ha
          have hq' : q' = q2 := by have := n2 _ ha; simp only [QAction.query] at this; omega
          subst hq'
          exact QMove.stay hl1 (sentNow_of_ne (by simpa [EAction.query] using hq))
        · rename_i q' p v ha
          exact QMove.stay hl1 rfl
        · exact ih _ hset _ hl1

theorem register_view (d : Nat → Nat) (U : List Nat) (L q q' : Nat) (f : QueryType → QueryType)
    (hf : ∀ t, ∃ Lr b, VStep d U (t.view L) ((f t).view L) none Lr b) (e : Engine) (t : QueryType)
    (ht : qLookup q e.queries = some t) :
    ∃ t' Lr b, qLookup q (match qLookup q' e.queries with
        | none => e
        | some t => { e with queries := qSet q' (f t) e.queries }).queries = some t' ∧
      VStep d U (t.view L) (t'.view L) none Lr b := by
  by_cases hq : q' = q
  · subst hq
    simp only [ht]
    obtain ⟨Lr, b, hv⟩ := hf t
    exact ⟨_, Lr, b, qLookup_qSet_same ht, hv⟩
  · have hne : q ≠ q' := fun e => hq e.symm
    split
    · exact ⟨t, _, _, ht, VStep.stay _⟩
    · exact ⟨t, _, _, by simp only; rw [qLookup_qSet_ne hne]; exact ht, VStep.stay _⟩

theorem view_eq_sim (d : Nat → Nat) (U : List Nat) (L : Nat) {t t' : QueryType} (h : t'.view L = t.view L) :
    ∃ Lr b, VStep d U (t.view L) (t'.view L) none Lr b :=
  ⟨_, _, VStep.stay' h⟩

/-- Every operation that does not start `q` again is a `QMove` for `q`. -/
theorem step_view (d : Nat → Nat) (U : List Nat) (L q : Nat) (e : Engine) (op : EOp) (hk : KeyOk e)
    (hst : op.starts ≠ some q) (hok : op.okFor d U q) (t : QueryType) (ht : qLookup q e.queries = some t) :
    QMove d U L q t (e.step op).1 (e.step op).2 := by
  have start : ∀ (q' : Nat) (t' : QueryType), some q' ≠ some q →
      QMove d U L q t { e with queries := qInsert q' t' e.queries } .none := by
    intro q' t' hne
    have : q ≠ q' := fun e => hne (by rw [e])
    exact QMove.stay (by simp only; rw [qLookup_qInsert_ne this]; exact ht) rfl
  have reg : ∀ (q' : Nat) (f : QueryType → QueryType),
      (∀ t, ∃ Lr b, VStep d U (t.view L) ((f t).view L) none Lr b) → ∀ (e : Engine) (t : QueryType),
      qLookup q e.queries = some t →
      QMove d U L q t (match qLookup q' e.queries with
        | none => e
        | some t => { e with queries := qSet q' (f t) e.queries }) .none := by
    intro q' f hf e t ht
    obtain ⟨t', Lr, b, h1, h2⟩ := register_view d U L q q' f hf e t ht
    exact Or.inl ⟨t', Lr, b, h1, h2⟩
  cases op with
  | next now order => exact nextAction_view d U L q now order e hk t ht
  | startFindNode q' c => exact start q' _ hst
  | startPutRecord q' r c qu => exact start q' _ hst
  | startPutRecordToPeers q' r p qu => exact start q' _ hst
  | startGetRecord q' c qu l => exact start q' _ hst
  | startAddProvider q' k p c qu => exact start q' _ hst
  | startGetProviders q' c kn => exact start q' _ hst
  | startPutRecordTracking q' k ps qu => exact start q' _ hst
  | startAddProviderTracking q' k ps qu => exact start q' _ hst
  | response q' p m =>
    by_cases hq : q' = q
    · exact reg q' (Engine.respType p m) (fun t => respType_sim d U L p m t (hok hq)) e t ht
    · have hne : q ≠ q' := fun e => hq e.symm
      simp only [Engine.step, Engine.registerResponse]
      split
      · exact QMove.stay ht rfl
      · exact QMove.stay (by simp only; rw [qLookup_qSet_ne hne]; exact ht) rfl
  | responseFailure q' p => exact reg q' (Engine.failType p) (failType_sim d U L p) e t ht
  | sendSuccess q' p =>
    exact reg q' (Engine.sendOkType p) (fun t => view_eq_sim d U L (sendOkType_view L p t)) e t ht
  | sendFailure q' p =>
    exact reg q' (Engine.sendFailType p) (fun t => view_eq_sim d U L (sendFailType_view L p t)) e t ht
  | peerFailure q' p =>
    obtain ⟨t1, _, _, h1, v1⟩ := register_view d U L q q' (Engine.sendFailType p)
      (fun t => view_eq_sim d U L (sendFailType_view L p t)) e t ht
    have hv1 : t1.view L = t.view L := by
      by_cases hq : q' = q
      · subst hq
        simp only [ht] at h1
        rw [qLookup_qSet_same ht] at h1
        rw [← Option.some.inj h1]; exact sendFailType_view L p t
      · have hne : q ≠ q' := fun e => hq e.symm
        have : qLookup q (match qLookup q' e.queries with
            | none => e
            | some t => { e with queries := qSet q' (Engine.sendFailType p t) e.queries }).queries = some t := by
          split
          · exact ht
          · simp only; rw [qLookup_qSet_ne hne]; exact ht
        rw [this] at h1
        rw [← Option.some.inj h1]
    have := reg q' (Engine.failType p) (failType_sim d U L p) _ t1 h1
    unfold QMove at this ⊢
    rw [hv1] at this
    exact this

/-! ### whole runs, seen from query `q` -/

theorem sentNow_absent (e : Engine) (op : EOp) (hk : KeyOk e) (q : Nat) (hq : qLookup q e.queries = none) :
    sentNow q (e.step op).2 = none := by
  cases ho : (e.step op).2 with
  | none => rfl
  | bug => rfl
  | act a =>
    have := ((step_spec e op hk).2.2.2 a ho).1
    exact sentNow_of_ne (fun e' => qLookup_none hq (e' ▸ this))

/-- The frontier of query `q` along every operation list that does not start `q` again: the peers
sent to are pairwise different, none of them is `L`, none was contacted before. -/
theorem run_view (d : Nat → Nat) (U : List Nat) (L q : Nat) (ops : List EOp) : ∀ (e : Engine), KeyOk e →
    (∀ op ∈ ops, op.starts ≠ some q) → (∀ op ∈ ops, op.okFor d U q) →
    (∀ t, qLookup q e.queries = some t → (t.view L).Fr d U ∧ (t.view L).l = L) →
    (sentTo q (e.run ops).2).Nodup ∧
    (∀ c ∈ sentTo q (e.run ops).2, c ≠ L ∧ ∃ t, qLookup q e.queries = some t ∧ ¬ (t.view L).visited c) ∧
    (∀ t, qLookup q (e.run ops).1.queries = some t → (t.view L).Fr d U ∧ (t.view L).l = L) := by
  induction ops with
  | nil => intro e _ _ _ hfr; exact ⟨by simp [Engine.run, sentTo], by simp [Engine.run, sentTo], hfr⟩
  | cons op ops ih =>
    intro e hk hst hok hfr
    have hk' := (step_spec e op hk).1
    have hst' := fun o ho => hst o (List.mem_cons_of_mem _ ho)
    have hok' := fun o ho => hok o (List.mem_cons_of_mem _ ho)
    simp only [Engine.run, sentTo]
    cases ht : qLookup q e.queries with
    | none =>
      have habs : qLookup q (e.step op).1.queries = none :=
        qLookup_eq_none ((step_spec e op hk).2.1 q (qLookup_none ht) (hst op (List.mem_cons_self ..)))
      obtain ⟨i1, i2, i3⟩ := ih _ hk' hst' hok' (fun t h => by rw [habs] at h; cases h)
      rw [sentNow_absent e op hk q ht]
      refine ⟨by simpa using i1, ?_, i3⟩
      intro c hc
      simp only [Option.toList_none, List.nil_append] at hc
      obtain ⟨_, t, h, _⟩ := i2 c hc
      rw [habs] at h; cases h
    | some t =>
      obtain ⟨hfr0, hl0⟩ := hfr t ht
      rcases step_view d U L q e op hk (hst op (List.mem_cons_self ..)) (hok op (List.mem_cons_self ..)) t ht
        with ⟨t', Lr, b, h1, hv⟩ | ⟨h1, h2⟩
      · obtain ⟨s1, s2, s3, _, _, s6, _⟩ := hv.spec hfr0
        obtain ⟨i1, i2, i3⟩ := ih _ hk' hst' hok'
          (fun t2 h => by rw [h1] at h; cases h; exact ⟨s1, s2.trans hl0⟩)
        refine ⟨?_, ?_, i3⟩
        · cases ho : sentNow q (e.step op).2 with
          | none => simpa using i1
          | some c =>
            simp only [Option.toList_some, List.singleton_append, List.nodup_cons]
            refine ⟨fun hm => ?_, i1⟩
            obtain ⟨_, t2, h, hnv⟩ := i2 c hm
            rw [h1] at h; cases h
            exact hnv (s6 c ho).2.2.1
        · intro c hc
          rcases List.mem_append.1 hc with hc | hc
          · cases ho : sentNow q (e.step op).2 with
            | none => rw [ho] at hc; simp at hc
            | some c' =>
              rw [ho] at hc
              simp only [Option.toList_some, List.mem_singleton] at hc
              subst hc
              obtain ⟨y1, y2, _⟩ := s6 c ho
              exact ⟨hl0 ▸ y1, t, rfl, y2⟩
          · obtain ⟨x1, t2, h, hnv⟩ := i2 c hc
            rw [h1] at h; cases h
            exact ⟨x1, t, rfl, fun hv' => hnv (s3 c hv')⟩
      · obtain ⟨i1, i2, i3⟩ := ih _ hk' hst' hok' (fun t2 h => by rw [h1] at h; cases h)
        rw [h2]
        refine ⟨by simpa using i1, ?_, i3⟩
        intro c hc
        simp only [Option.toList_none, List.nil_append] at hc
        obtain ⟨_, t2, h, _⟩ := i2 c hc
        rw [h1] at h; cases h

/-- The frontier of a lookup that was just started by the engine. -/
theorem start_view (d : Nat → Nat) (U : List Nat) (e : Engine) (q : Nat) (inPeers : List KPeer) (op : EOp)
    (hop : op.startsLookup q inPeers)
    (hc : ∀ kp ∈ inPeers, kp.dist = d kp.peer ∧ kp.peer ∈ U ∧ kp.peer ≠ e.localPeer) :
    ∃ t, qLookup q (e.step op).1.queries = some t ∧ t.view e.localPeer = ⟨e.localPeer, initCandidates inPeers, [], []⟩ := by
  cases op with
  | startFindNode q' c => obtain ⟨rfl, rfl⟩ := hop; exact ⟨_, qLookup_qInsert_same _ _ _, rfl⟩
  | startPutRecord q' r c qu => obtain ⟨rfl, rfl⟩ := hop; exact ⟨_, qLookup_qInsert_same _ _ _, rfl⟩
  | startGetRecord q' c qu l => obtain ⟨rfl, rfl⟩ := hop; exact ⟨_, qLookup_qInsert_same _ _ _, rfl⟩
  | startAddProvider q' k p c qu => obtain ⟨rfl, rfl⟩ := hop; exact ⟨_, qLookup_qInsert_same _ _ _, rfl⟩
  | startGetProviders q' c kn => obtain ⟨rfl, rfl⟩ := hop; exact ⟨_, qLookup_qInsert_same _ _ _, rfl⟩
  | startPutRecordToPeers q' r p qu => exact absurd hop (by simp [EOp.startsLookup])
  | startPutRecordTracking q' k ps qu => exact absurd hop (by simp [EOp.startsLookup])
  | startAddProviderTracking q' k ps qu => exact absurd hop (by simp [EOp.startsLookup])
  | response q' p m => exact absurd hop (by simp [EOp.startsLookup])
  | responseFailure q' p => exact absurd hop (by simp [EOp.startsLookup])
  | sendSuccess q' p => exact absurd hop (by simp [EOp.startsLookup])
  | sendFailure q' p => exact absurd hop (by simp [EOp.startsLookup])
  | peerFailure q' p => exact absurd hop (by simp [EOp.startsLookup])
  | next now order => exact absurd hop (by simp [EOp.startsLookup])

end Litep2pVerif.Kad.Query
