import Litep2pVerif.Model.Kad.Store
/-! Helper lemmas and the invariant for the `MemoryStore` model (C17). -/
namespace Litep2pVerif.Kad.Store

/-! ## Records -/

theorem lookupRec_none {k : Nat} {l : List Rec} : lookupRec k l = none ↔ k ∉ l.map (·.key) := by
  induction l with
  | nil => simp [lookupRec]
  | cons r rs ih => simp only [lookupRec]; split <;> simp_all <;> omega

theorem lookupRec_some {k : Nat} {l : List Rec} {r : Rec} (h : lookupRec k l = some r) :
    r ∈ l ∧ r.key = k := by
  induction l with
  | nil => simp [lookupRec] at h
  | cons x xs ih =>
    simp only [lookupRec] at h
    split at h
    · simp_all
    · have := ih h; simp_all

theorem replaceRec_keys (r : Rec) (l : List Rec) : (replaceRec r l).map (·.key) = l.map (·.key) := by
  induction l with
  | nil => rfl
  | cons x xs ih => simp only [replaceRec]; split <;> simp_all

theorem replaceRec_length (r : Rec) (l : List Rec) : (replaceRec r l).length = l.length := by
  have := congrArg List.length (replaceRec_keys r l); simpa using this

theorem mem_replaceRec {r x : Rec} {l : List Rec} (h : x ∈ replaceRec r l) : x = r ∨ x ∈ l := by
  induction l with
  | nil => simp [replaceRec] at h
  | cons y ys ih =>
    simp only [replaceRec] at h
    split at h <;> grind

theorem eraseRec_sublist (k : Nat) (l : List Rec) : (eraseRec k l).Sublist l := by
  induction l with
  | nil => simp [eraseRec]
  | cons x xs ih => simp only [eraseRec]; split <;> simp_all

theorem eraseRec_not_mem {k : Nat} {l : List Rec} (hn : (l.map (·.key)).Nodup) :
    k ∉ (eraseRec k l).map (·.key) := by
  induction l with
  | nil => simp [eraseRec]
  | cons x xs ih =>
    simp only [eraseRec]
    simp only [List.map_cons, List.nodup_cons] at hn
    split
    · rename_i h; rw [← h]; exact hn.1
    · rename_i h; simp only [List.map_cons, List.mem_cons, not_or]; exact ⟨fun e => h e.symm, ih hn.2⟩

/-! ## Provider keys -/

theorem lookupProv_none {k : Nat} {l : List (Nat × List Prov)} :
    lookupProv k l = none ↔ k ∉ l.map (·.1) := by
  induction l with
  | nil => simp [lookupProv]
  | cons r rs ih => obtain ⟨k', ps⟩ := r; simp only [lookupProv]; split <;> simp_all <;> omega

theorem lookupProv_some {k : Nat} {l : List (Nat × List Prov)} {ps : List Prov}
    (h : lookupProv k l = some ps) : (k, ps) ∈ l := by
  induction l with
  | nil => simp [lookupProv] at h
  | cons x xs ih =>
    obtain ⟨k', qs⟩ := x
    simp only [lookupProv] at h
    split at h
    · simp_all
    · simp [ih h]

theorem setProvKey_keys (k : Nat) (v : List Prov) (l : List (Nat × List Prov)) :
    (setProvKey k v l).map (·.1) = l.map (·.1) := by
  induction l with
  | nil => rfl
  | cons x xs ih => obtain ⟨k', qs⟩ := x; simp only [setProvKey]; split <;> simp_all

theorem setProvKey_length (k : Nat) (v : List Prov) (l : List (Nat × List Prov)) :
    (setProvKey k v l).length = l.length := by
  have := congrArg List.length (setProvKey_keys k v l); simpa using this

theorem mem_setProvKey {k : Nat} {v : List Prov} {l : List (Nat × List Prov)} {x : Nat × List Prov}
    (h : x ∈ setProvKey k v l) : x = (k, v) ∨ x ∈ l := by
  induction l with
  | nil => simp [setProvKey] at h
  | cons y ys ih =>
    obtain ⟨k', qs⟩ := y
    simp only [setProvKey] at h
    split at h <;> grind

theorem eraseProvKey_sublist (k : Nat) (l : List (Nat × List Prov)) : (eraseProvKey k l).Sublist l := by
  induction l with
  | nil => simp [eraseProvKey]
  | cons x xs ih => obtain ⟨k', qs⟩ := x; simp only [eraseProvKey]; split <;> simp_all

/-! ## Sorted provider lists -/

/-- Strictly increasing distances. -/
def Sorted (ps : List Prov) : Prop := ps.Pairwise (fun a b => a.dist < b.dist)

theorem lowerBound_le (d : Nat) (ps : List Prov) : lowerBound d ps ≤ ps.length := by
  unfold lowerBound; exact (List.takeWhile_sublist _).length_le

theorem lowerBound_cons (d : Nat) (p : Prov) (ps : List Prov) :
    lowerBound d (p :: ps) = if p.dist < d then lowerBound d ps + 1 else 0 := by
  unfold lowerBound; simp only [List.takeWhile_cons]; split <;> simp_all



theorem sorted_cons {p : Prov} {ps : List Prov} :
    Sorted (p :: ps) ↔ (∀ q ∈ ps, p.dist < q.dist) ∧ Sorted ps := by
  simp [Sorted]

theorem sorted_insert {d : Nat} {p : Prov} (hp : p.dist = d) :
    ∀ {ps : List Prov}, Sorted ps → (∀ q, ps[lowerBound d ps]? = some q → q.dist ≠ d) →
      Sorted (ps.insertIdx (lowerBound d ps) p)
  | [], _, _ => by simp [lowerBound, Sorted]
  | x :: xs, hs, hne => by
    rw [lowerBound_cons]
    rw [sorted_cons] at hs
    split
    · rename_i hlt
      rw [List.insertIdx_succ_cons, sorted_cons]
      have ih := sorted_insert hp hs.2 (by
        intro q hq; apply hne q; rw [lowerBound_cons, if_pos hlt]; simpa using hq)
      refine ⟨?_, ih⟩
      intro q hq
      rcases List.mem_insertIdx (lowerBound_le d xs) |>.1 hq with h | h
      · subst h; omega
      · exact hs.1 q h
    · rename_i hge
      have hx : x.dist ≠ d := by
        apply hne x; rw [lowerBound_cons, if_neg hge]; rfl
      rw [List.insertIdx_zero, sorted_cons]
      refine ⟨?_, sorted_cons.2 hs⟩
      intro q hq
      rcases List.mem_cons.1 hq with h | h
      · subst h; omega
      · have := hs.1 q h; omega

theorem dropLast_insertIdx {p : Prov} : ∀ {ps : List Prov} {i : Nat}, i < ps.length →
    ps.dropLast.insertIdx i p = (ps.insertIdx i p).dropLast
  | [], i, h => by simp at h
  | [x], i, h => by
    have : i = 0 := by simpa using h
    subst this; simp
  | x :: y :: ys, 0, _ => by simp
  | x :: y :: ys, i+1, h => by
    have ih := dropLast_insertIdx (p := p) (ps := y :: ys) (i := i) (by simpa using h)
    simp only [List.dropLast_cons_cons, List.insertIdx_succ_cons] at *
    rw [ih]
    cases hh : (y :: ys).insertIdx i p with
    | nil =>
      have := congrArg List.length hh
      simp [List.length_insertIdx] at this h
      split at this <;> omega
    | cons a as => simp


theorem sorted_set {p : Prov} : ∀ {ps : List Prov} {i : Nat} {q : Prov}, Sorted ps → ps[i]? = some q →
    q.dist = p.dist → Sorted (ps.set i p)
  | [], _, _, _, h, _ => by simp at h
  | x :: xs, 0, q, hs, h, hd => by
    simp only [List.getElem?_cons_zero, Option.some.injEq] at h
    subst h
    rw [sorted_cons] at hs
    simp only [List.set_cons_zero, sorted_cons]
    exact ⟨fun r hr => by have := hs.1 r hr; omega, hs.2⟩
  | x :: xs, i+1, q, hs, h, hd => by
    rw [sorted_cons] at hs
    simp only [List.getElem?_cons_succ] at h
    simp only [List.set_cons_succ, sorted_cons]
    refine ⟨?_, sorted_set hs.2 h hd⟩
    intro r hr
    rcases List.mem_or_eq_of_mem_set hr with h' | h'
    · exact hs.1 r h'
    · subst h'
      have := hs.1 q (List.mem_of_getElem? h)
      omega

theorem sorted_sublist {a b : List Prov} (h : a.Sublist b) (hs : Sorted b) : Sorted a :=
  List.Pairwise.sublist h hs

/-- The per-key invariant of a provider list. -/
structure ProvListInv (cfg : Cfg) (ps : List Prov) : Prop where
  len : ps.length ≤ cfg.maxProvidersPerKey
  sorted : Sorted ps
  addrs : ∀ p ∈ ps, p.addrs.length ≤ cfg.maxProviderAddrs
  nonempty : ps ≠ []

theorem search_ok {d : Nat} {ps : List Prov} {i : Nat} (h : search d ps = .ok i) :
    ∃ q, ps[i]? = some q ∧ q.dist = d ∧ i = lowerBound d ps := by
  unfold search at h
  simp only at h
  split at h
  · split at h
    · rename_i q hq hd
      injection h with h; subst h; exact ⟨q, hq, hd, rfl⟩
    · cases h
  · cases h

theorem search_error {d : Nat} {ps : List Prov} {i : Nat} (h : search d ps = .error i) :
    i = lowerBound d ps ∧ ∀ q, ps[lowerBound d ps]? = some q → q.dist ≠ d := by
  unfold search at h
  simp only at h
  split at h
  · split at h
    · cases h
    · rename_i q hq hd
      injection h with h; subst h
      refine ⟨rfl, ?_⟩
      intro q' hq'; rw [hq] at hq'; injection hq' with e; subst e; exact hd
  · rename_i hn
    injection h with h; subst h
    refine ⟨rfl, ?_⟩
    intro q' hq'; rw [hn] at hq'; cases hq'

theorem putProvList_inv {cfg : Cfg} {ps : List Prov} {p : Prov} 
    (hi : ProvListInv cfg ps) (hp : p.addrs.length ≤ cfg.maxProviderAddrs) :
    ProvListInv cfg (putProvList cfg.maxProvidersPerKey ps p).1 := by
  unfold putProvList
  split
  · rename_i i hs
    obtain ⟨q, hq, hd, _⟩ := search_ok hs
    refine ⟨by simpa using hi.len, sorted_set hi.sorted hq hd, ?_, ?_⟩
    · intro r hr
      rcases List.mem_or_eq_of_mem_set hr with h | h
      · exact hi.addrs r h
      · subst h; exact hp
    · intro h; have := congrArg List.length h; simp at this; exact hi.nonempty this
  · rename_i i hs
    obtain ⟨hi', hne⟩ := search_error hs
    split
    · exact hi
    · rename_i hmax
      have hle := lowerBound_le p.dist ps
      have hsorted := sorted_insert (p := p) rfl hi.sorted hne
      have hmem : ∀ r ∈ ps.insertIdx (lowerBound p.dist ps) p, r.addrs.length ≤ cfg.maxProviderAddrs := by
        intro r hr
        rcases (List.mem_insertIdx hle).1 hr with h | h
        · subst h; exact hp
        · exact hi.addrs r h
      subst hi'
      simp only
      split
      · rename_i hlen
        have hlt : lowerBound p.dist ps < ps.length := by omega
        rw [dropLast_insertIdx hlt]
        refine ⟨?_, sorted_sublist (List.dropLast_sublist _) hsorted, ?_, ?_⟩
        · simp [List.length_insertIdx_of_le_length hle]; omega
        · intro r hr; exact hmem r (List.dropLast_subset _ hr)
        · intro h; have := congrArg List.length h; simp [List.length_insertIdx_of_le_length hle] at this; exact hi.nonempty this
      · rename_i hlen
        have := hi.len
        refine ⟨?_, hsorted, hmem, ?_⟩
        · simp [List.length_insertIdx_of_le_length hle]; omega
        · intro h; have := congrArg List.length h; simp [List.length_insertIdx_of_le_length hle] at this



/-- The store invariant (C17 bounds + the representation invariants they rest on). -/
structure Inv (cfg : Cfg) (s : Store) : Prop where
  recLen : s.records.length ≤ cfg.maxRecords
  recSize : ∀ r ∈ s.records, r.value.length < cfg.maxRecordSize
  recKeys : (s.records.map (·.key)).Nodup
  provLen : s.providerKeys.length ≤ cfg.maxProviderKeys
  provKeys : (s.providerKeys.map (·.1)).Nodup
  provLists : ∀ kv ∈ s.providerKeys, ProvListInv cfg kv.2

theorem inv_empty (cfg : Cfg) : Inv cfg Store.empty := by
  constructor <;> simp [Store.empty]

theorem put_inv {cfg : Cfg} {s : Store} (r : Rec) (h : Inv cfg s) : Inv cfg (put cfg s r) := by
  unfold put
  split
  · exact h
  · rename_i hsz
    have hrep : Inv cfg { s with records := replaceRec r s.records } := by
      refine { h with recLen := ?_, recSize := ?_, recKeys := ?_ }
      · simpa [replaceRec_length] using h.recLen
      · intro x hx
        rcases mem_replaceRec hx with e | e
        · subst e; omega
        · exact h.recSize x e
      · simpa [replaceRec_keys] using h.recKeys
    split
    · split
      · split
        · exact h
        · exact hrep
      · exact hrep
    · rename_i hnone
      split
      · exact h
      · refine { h with recLen := ?_, recSize := ?_, recKeys := ?_ }
        · simp; omega
        · intro x hx
          rcases List.mem_cons.1 hx with e | e
          · subst e; omega
          · exact h.recSize x e
        · simp only [List.map_cons, List.nodup_cons]
          exact ⟨lookupRec_none.1 hnone, h.recKeys⟩

theorem get_inv {cfg : Cfg} {s : Store} (k now : Nat) (h : Inv cfg s) : Inv cfg (getRecord s k now).1 := by
  unfold getRecord
  split
  · exact h
  · split
    · have hsub := eraseRec_sublist k s.records
      refine { h with recLen := ?_, recSize := ?_, recKeys := ?_ }
      · exact Nat.le_trans hsub.length_le h.recLen
      · intro x hx; exact h.recSize x (hsub.subset hx)
      · exact List.Nodup.sublist (hsub.map _) h.recKeys
    · exact h

theorem setProvKey_inv {cfg : Cfg} {s : Store} {k : Nat} {ps : List Prov} (h : Inv cfg s)
    (hps : ProvListInv cfg ps) : Inv cfg { s with providerKeys := setProvKey k ps s.providerKeys } := by
  refine { h with provLen := ?_, provKeys := ?_, provLists := ?_ }
  · simpa [setProvKey_length] using h.provLen
  · simpa [setProvKey_keys] using h.provKeys
  · intro kv hkv
    rcases mem_setProvKey hkv with e | e
    · subst e; exact hps
    · exact h.provLists kv e

theorem eraseProvKey_inv {cfg : Cfg} {s : Store} {k : Nat} (h : Inv cfg s) :
    Inv cfg { s with providerKeys := eraseProvKey k s.providerKeys } := by
  have hsub := eraseProvKey_sublist k s.providerKeys
  refine { h with provLen := ?_, provKeys := ?_, provLists := ?_ }
  · exact Nat.le_trans hsub.length_le h.provLen
  · exact List.Nodup.sublist (hsub.map _) h.provKeys
  · intro kv hkv; exact h.provLists kv (hsub.subset hkv)

theorem putProvider_inv {cfg : Cfg} {s : Store} (h1 : 1 ≤ cfg.maxProvidersPerKey)
    (k peer dist : Nat) (addrs : List Nat) (now : Nat) (h : Inv cfg s) :
    Inv cfg (putProvider cfg s k peer dist addrs now).1 := by
  unfold putProvider
  simp only
  have hp : (addrs.take cfg.maxProviderAddrs).length ≤ cfg.maxProviderAddrs := by
    simp [List.length_take]; omega
  split
  · rename_i hnone
    split
    · rename_i hlt
      refine { h with provLen := ?_, provKeys := ?_, provLists := ?_ }
      · simp; omega
      · simp only [List.map_cons, List.nodup_cons]
        exact ⟨lookupProv_none.1 hnone, h.provKeys⟩
      · intro kv hkv
        rcases List.mem_cons.1 hkv with e | e
        · subst e
          exact ⟨by simpa using h1, by simp [Sorted], by intro p hp'; simp at hp'; subst hp'; exact hp, by simp⟩
        · exact h.provLists kv e
    · exact h
  · rename_i ps hsome
    have hps := h.provLists _ (lookupProv_some hsome)
    exact setProvKey_inv h (putProvList_inv hps hp)

theorem getProviders_inv {cfg : Cfg} {s : Store} (k now : Nat) (h : Inv cfg s) :
    Inv cfg (getProviders s k now).1 := by
  unfold getProviders
  split
  · exact h
  · rename_i ps hsome
    have hps := h.provLists _ (lookupProv_some hsome)
    simp only
    split
    · exact eraseProvKey_inv h
    · rename_i hne
      apply setProvKey_inv h
      have hsub : (ps.filter fun p => !p.expiredAt now).Sublist ps := List.filter_sublist
      refine ⟨Nat.le_trans hsub.length_le hps.len, sorted_sublist hsub hps.sorted,
        fun p hp => hps.addrs p (hsub.subset hp), ?_⟩
      intro e; rw [e] at hne; simp at hne

theorem putLocalProvider_inv {cfg : Cfg} {s : Store} (h1 : 1 ≤ cfg.maxProvidersPerKey)
    (k lp ld now : Nat) (h : Inv cfg s) : Inv cfg (putLocalProvider cfg s k lp ld now).1 := by
  unfold putLocalProvider
  have := putProvider_inv h1 k lp ld [] now h
  split
  rename_i s' ok heq
  rw [heq] at this
  split
  · exact { this with }
  · exact this

theorem removeLocalProvider_inv {cfg : Cfg} {s : Store} (k ld : Nat) (h : Inv cfg s) :
    Inv cfg (removeLocalProvider s k ld).1 := by
  unfold removeLocalProvider
  split
  · exact h
  · have h' : Inv cfg { s with localProviders := s.localProviders.erase k } := { h with }
    simp only
    split
    · exact h'
    · rename_i ps hsome
      have hps := h'.provLists _ (lookupProv_some hsome)
      split
      · rename_i i hs
        split
        · exact eraseProvKey_inv h'
        · rename_i hne
          apply setProvKey_inv h'
          have hsub : (ps.eraseIdx i).Sublist ps := List.eraseIdx_sublist _ _
          refine ⟨Nat.le_trans hsub.length_le hps.len, sorted_sublist hsub hps.sorted,
            fun p hp => hps.addrs p (hsub.subset hp), ?_⟩
          intro e; rw [e] at hne; simp at hne
      · exact h'

theorem apply_inv {cfg : Cfg} (h1 : 1 ≤ cfg.maxProvidersPerKey) {s : Store} (op : Op) (h : Inv cfg s) :
    Inv cfg (apply cfg s op) := by
  cases op with
  | put r => exact put_inv r h
  | get k now => exact get_inv k now h
  | putProvider k peer dist addrs now => exact putProvider_inv h1 k peer dist addrs now h
  | getProviders k now => exact getProviders_inv k now h
  | putLocal k lp ld now => exact putLocalProvider_inv h1 k lp ld now h
  | removeLocal k ld => exact removeLocalProvider_inv k ld h

theorem foldl_inv {cfg : Cfg} (h1 : 1 ≤ cfg.maxProvidersPerKey) (ops : List Op) {s : Store} (h : Inv cfg s) :
    Inv cfg (ops.foldl (apply cfg) s) := by
  induction ops generalizing s with
  | nil => exact h
  | cons op ops ih => exact ih (apply_inv h1 op h)



theorem lookupProv_setProvKey {k : Nat} {v ps : List Prov} : ∀ {l : List (Nat × List Prov)},
    lookupProv k l = some ps → lookupProv k (setProvKey k v l) = some v
  | [], h => by simp [lookupProv] at h
  | (k', ps') :: rest, h => by
    unfold lookupProv at h
    unfold setProvKey
    split at h
    · rename_i hk; simp [hk, lookupProv]
    · rename_i hk; simp only [hk, if_false, lookupProv]; exact lookupProv_setProvKey h

theorem lowerBound_of_getElem {d : Nat} : ∀ {ps : List Prov} {i : Nat} {q : Prov}, Sorted ps →
    ps[i]? = some q → q.dist = d → lowerBound d ps = i
  | [], _, _, _, h, _ => by simp at h
  | x :: xs, 0, q, hs, h, hd => by
    simp only [List.getElem?_cons_zero, Option.some.injEq] at h
    subst h; rw [lowerBound_cons]; simp [hd]
  | x :: xs, i+1, q, hs, h, hd => by
    rw [sorted_cons] at hs
    simp only [List.getElem?_cons_succ] at h
    have := hs.1 q (List.mem_of_getElem? h)
    rw [lowerBound_cons, if_pos (by omega), lowerBound_of_getElem hs.2 h hd]

theorem search_of_getElem {d : Nat} {ps : List Prov} {i : Nat} {q : Prov} (hs : Sorted ps)
    (h : ps[i]? = some q) (hd : q.dist = d) : search d ps = .ok i := by
  unfold search
  simp only [lowerBound_of_getElem hs h hd, h, hd, if_true]

theorem take_insertIdx_length {p : Prov} {ps : List Prov} :
    (ps.insertIdx ps.length p).take ps.length = ps := by
  induction ps with
  | nil => simp
  | cons x xs ih => simp [List.insertIdx_succ_cons]

theorem dropLast_eq_take (l : List Prov) : l.dropLast = l.take (l.length - 1) := by
  simp [List.dropLast_eq_take]



/-- Unbounded announcement: replace in place if present, else sorted insertion. -/
def insProv (ps : List Prov) (p : Prov) : List Prov :=
  match search p.dist ps with
  | .ok i => ps.set i p
  | .error i => ps.insertIdx i p

theorem lowerBound_take_lt {d : Nat} : ∀ {ps : List Prov} {m : Nat}, lowerBound d ps < m →
    lowerBound d (ps.take m) = lowerBound d ps
  | [], m, _ => by simp [lowerBound]
  | x :: xs, 0, h => by omega
  | x :: xs, m+1, h => by
    rw [List.take_succ_cons, lowerBound_cons, lowerBound_cons] at *
    split
    · rename_i hx
      rw [if_pos hx] at h
      rw [lowerBound_take_lt (by omega)]
    · rfl

theorem lowerBound_take_ge {d : Nat} : ∀ {ps : List Prov} {m : Nat}, m ≤ lowerBound d ps →
    lowerBound d (ps.take m) = m
  | ps, 0, _ => by simp [lowerBound]
  | [], m+1, h => by simp [lowerBound] at h
  | x :: xs, m+1, h => by
    rw [lowerBound_cons] at h
    rw [List.take_succ_cons, lowerBound_cons]
    split
    · rename_i hx
      rw [if_pos hx] at h
      rw [lowerBound_take_ge (by omega)]
    · rename_i hx
      rw [if_neg hx] at h; omega

theorem getElem?_take_lt {α : Type} {l : List α} {m i : Nat} (h : i < m) : (l.take m)[i]? = l[i]? := by
  simp [h]

theorem take_insertIdx_ge {α : Type} {l : List α} {m i : Nat} {a : α} (h : m ≤ i) (hi : i ≤ l.length) :
    (l.insertIdx i a).take m = l.take m := by
  induction l generalizing m i with
  | nil =>
    have : i = 0 := by simpa using hi
    subst this
    have : m = 0 := by omega
    subst this; simp
  | cons x xs ih =>
    cases i with
    | zero => have : m = 0 := by omega
              subst this; simp
    | succ i =>
      cases m with
      | zero => simp
      | succ m =>
        simp only [List.insertIdx_succ_cons, List.take_succ_cons]
        rw [ih (by omega) (by simpa using hi)]

theorem take_insertIdx_lt {α : Type} {l : List α} {m i : Nat} {a : α} (h : i < m) (hi : i ≤ l.length) :
    (l.insertIdx i a).take m = ((l.take (m - 1)).insertIdx i a) := by
  induction l generalizing m i with
  | nil =>
    have : i = 0 := by simpa using hi
    subst this
    cases m with
    | zero => omega
    | succ m => simp
  | cons x xs ih =>
    cases m with
    | zero => omega
    | succ m =>
      cases i with
      | zero => simp
      | succ i =>
        have hm : 0 < m := by omega
        obtain ⟨m', rfl⟩ : ∃ m', m = m' + 1 := ⟨m - 1, by omega⟩
        simp only [List.insertIdx_succ_cons, List.take_succ_cons, Nat.add_sub_cancel]
        rw [ih (by omega) (by simpa using hi)]
        simp

theorem take_set_lt {α : Type} {l : List α} {m i : Nat} {a : α} :
    (l.set i a).take m = (l.take m).set i a := by
  simp [List.take_set]

theorem take_set_ge {α : Type} {l : List α} {m i : Nat} {a : α} (h : m ≤ i) :
    (l.set i a).take m = l.take m := by
  rw [List.take_set]
  apply List.set_eq_of_length_le
  simp; omega

/-- One bounded announcement on the truncated list = truncation of the unbounded announcement. -/
theorem putProvList_take (m : Nat) (ps : List Prov) (p : Prov) (hs : Sorted ps) :
    (putProvList m (ps.take m) p).1 = (insProv ps p).take m := by
  have hle := lowerBound_le p.dist ps
  unfold insProv
  cases hsr : search p.dist ps with
  | ok i =>
    obtain ⟨q, hq, hd, hi⟩ := search_ok hsr
    simp only
    by_cases him : i < m
    · have hq' : (ps.take m)[i]? = some q := by rw [getElem?_take_lt him]; exact hq
      have hs' : Sorted (ps.take m) := sorted_sublist (List.take_sublist _ _) hs
      have := search_of_getElem hs' hq' hd
      unfold putProvList
      rw [this]
      simp [List.take_set]
    · have hge : m ≤ lowerBound p.dist ps := by omega
      have hlb := lowerBound_take_ge hge
      unfold putProvList search
      simp only [hlb]
      have hnone : (ps.take m)[m]? = none := by simp; omega
      rw [hnone]
      simp only [if_true]
      rw [take_set_ge (by omega)]
  | error i =>
    obtain ⟨hi, hne⟩ := search_error hsr
    subst hi
    simp only
    by_cases him : lowerBound p.dist ps < m
    · have hlb := lowerBound_take_lt him
      have hsr' : search p.dist (ps.take m) = .error (lowerBound p.dist ps) := by
        unfold search
        simp only [hlb, getElem?_take_lt him]
        unfold search at hsr
        simp only at hsr
        split at hsr
        · rename_i q hq
          split at hsr
          · cases hsr
          · rename_i hd; simp [hq, hd]
        · rename_i hq; simp [hq]
      unfold putProvList
      rw [hsr']
      have hne' : ¬ lowerBound p.dist ps = m := by omega
      simp only [hne', if_false]
      rw [take_insertIdx_lt him hle]
      split
      · rename_i hl
        have : (ps.take m).dropLast = ps.take (m - 1) := by
          rw [List.dropLast_eq_take, List.take_take]
          congr 1
          simp at hl ⊢; omega
        rw [this]
      · rename_i hl
        have hlen : ps.length < m := by
          simp at hl; omega
        rw [List.take_of_length_le (by omega), List.take_of_length_le (by omega)]
    · have hge : m ≤ lowerBound p.dist ps := by omega
      have hlb := lowerBound_take_ge hge
      unfold putProvList search
      simp only [hlb]
      have hnone : (ps.take m)[m]? = none := by simp; omega
      rw [hnone]
      simp only [if_true]
      rw [take_insertIdx_ge hge hle]

theorem insProv_sorted {ps : List Prov} {p : Prov} (hs : Sorted ps) : Sorted (insProv ps p) := by
  unfold insProv
  cases hsr : search p.dist ps with
  | ok i =>
    obtain ⟨q, hq, hd, _⟩ := search_ok hsr
    exact sorted_set hs hq hd
  | error i =>
    obtain ⟨hi, hne⟩ := search_error hsr
    subst hi
    exact sorted_insert rfl hs hne

/-- All announcements for one key, bounded store vs. unbounded reference. -/
theorem foldl_putProvList_take (m : Nat) (anns : List Prov) :
    ∀ (ps : List Prov), Sorted ps →
      anns.foldl (fun l p => (putProvList m l p).1) (ps.take m) =
        (anns.foldl insProv ps).take m := by
  induction anns with
  | nil => intro ps _; rfl
  | cons a as ih =>
    intro ps hs
    simp only [List.foldl_cons]
    rw [putProvList_take m ps a hs]
    exact ih _ (insProv_sorted hs)


theorem insProv_dists {ps : List Prov} {p : Prov} (d : Nat) :
    d ∈ (insProv ps p).map (·.dist) ↔ d = p.dist ∨ d ∈ ps.map (·.dist) := by
  unfold insProv
  cases hsr : search p.dist ps with
  | ok i =>
    obtain ⟨q, hq, hd, _⟩ := search_ok hsr
    simp only
    have hmap : (ps.set i p).map (·.dist) = ps.map (·.dist) := by
      rw [List.map_set]
      apply List.ext_getElem? 
      intro j
      by_cases hj : j = i
      · subst hj
        have hlt : j < ps.length := by
          rcases Nat.lt_or_ge j ps.length with h | h
          · exact h
          · rw [List.getElem?_eq_none h] at hq; cases hq
        have hq2 : ps[j] = q := by
          have := List.getElem?_eq_getElem hlt
          rw [this] at hq; injection hq
        simp [hlt, hq2, hd]
      · simp [List.getElem?_set, Ne.symm hj]
    rw [hmap]
    constructor
    · intro h; exact Or.inr h
    · rintro (h | h)
      · subst h
        exact List.mem_map.2 ⟨q, List.mem_of_getElem? hq, hd⟩
      · exact h
  | error i =>
    obtain ⟨hi, _⟩ := search_error hsr
    subst hi
    simp only [List.mem_map]
    constructor
    · rintro ⟨q, hq, rfl⟩
      rcases (List.mem_insertIdx (lowerBound_le _ _)).1 hq with h | h
      · subst h; exact Or.inl rfl
      · exact Or.inr ⟨q, h, rfl⟩
    · rintro (h | ⟨q, hq, rfl⟩)
      · exact ⟨p, (List.mem_insertIdx (lowerBound_le _ _)).2 (Or.inl rfl), h.symm⟩
      · exact ⟨q, (List.mem_insertIdx (lowerBound_le _ _)).2 (Or.inr hq), rfl⟩

theorem foldl_insProv_sorted (anns : List Prov) : ∀ {ps : List Prov}, Sorted ps → Sorted (anns.foldl insProv ps) := by
  induction anns with
  | nil => intro ps h; exact h
  | cons a as ih => intro ps h; exact ih (insProv_sorted h)

theorem foldl_insProv_dists (anns : List Prov) : ∀ (ps : List Prov) (d : Nat),
    d ∈ (anns.foldl insProv ps).map (·.dist) ↔ d ∈ anns.map (·.dist) ∨ d ∈ ps.map (·.dist) := by
  induction anns with
  | nil => intro ps d; simp
  | cons a as ih =>
    intro ps d
    simp only [List.foldl_cons, List.map_cons, List.mem_cons]
    rw [ih, insProv_dists]
    constructor
    · rintro (h | h | h)
      · exact Or.inl (Or.inr h)
      · exact Or.inl (Or.inl h)
      · exact Or.inr h
    · rintro ((h | h) | h)
      · exact Or.inr (Or.inl h)
      · exact Or.inl h
      · exact Or.inr (Or.inr h)

end Litep2pVerif.Kad.Store
