import Litep2pVerif.Proofs.Kad.Lookup
import Litep2pVerif.Proofs.Kad.Values
/-!
# The three lookup contexts are instances of the generic frontier (C15)

For every event (every clock reading, every peer list) a step of `FindNodeContext`,
`GetRecordContext`, `GetProvidersContext` is a `VStep` of its view; their runs are `runG`.
-/
namespace Litep2pVerif.Kad.Query

/-! ### FindNodeContext -/

def FindNode.view (s : FindNode) : View := ⟨s.localPeer, s.candidates, pendPeers s.pending, s.queried⟩

/-- The peers learned by one event. -/
def FindNode.learn (s : FindNode) : Ev → List Nat
  | .resp p peers => if (pendLookup p s.pending).isSome then peers.map (·.peer) else []
  | _ => []

theorem markTimeouts_fields (s : FindNode) (now : Nat) :
    (s.markTimeouts now).pending = s.pending ∧ (s.markTimeouts now).queried = s.queried ∧
    (s.markTimeouts now).candidates = s.candidates ∧ (s.markTimeouts now).responses = s.responses ∧
    (s.markTimeouts now).localPeer = s.localPeer ∧ (s.markTimeouts now).repl = s.repl ∧
    (s.markTimeouts now).par = s.par ∧ (s.markTimeouts now).query = s.query ∧
    (s.markTimeouts now).peerTimeout = s.peerTimeout := by
  have key : ∀ (l : List (KPeer × Nat)) (s : FindNode),
      (l.foldl (FindNode.markOne now) s).pending = s.pending ∧
      (l.foldl (FindNode.markOne now) s).queried = s.queried ∧
      (l.foldl (FindNode.markOne now) s).candidates = s.candidates ∧
      (l.foldl (FindNode.markOne now) s).responses = s.responses ∧
      (l.foldl (FindNode.markOne now) s).localPeer = s.localPeer ∧
      (l.foldl (FindNode.markOne now) s).repl = s.repl ∧
      (l.foldl (FindNode.markOne now) s).par = s.par ∧
      (l.foldl (FindNode.markOne now) s).query = s.query ∧
      (l.foldl (FindNode.markOne now) s).peerTimeout = s.peerTimeout := by
    intro l
    induction l with
    | nil => intro s; exact ⟨rfl, rfl, rfl, rfl, rfl, rfl, rfl, rfl, rfl⟩
    | cons x xs ih =>
      intro s
      simp only [List.foldl_cons]
      obtain ⟨b1, b2, b3, b4, b5, b6, b7, b8, b9⟩ := ih (FindNode.markOne now s x)
      obtain ⟨c1, c2, c3, c4, c5, c6, c7, c8, c9⟩ := markOne_fields now s x
      exact ⟨b1.trans c1, b2.trans c2, b3.trans c3, b4.trans c4, b5.trans c5, b6.trans c6,
        b7.trans c7, b8.trans c8, b9.trans c9⟩
  exact key s.pending s

theorem FindNode.schedule_sim (d : Nat → Nat) (U : List Nat) (s : FindNode) (now : Nat) :
    VStep d U s.view (s.scheduleNextPeer now).1.view (sendOf (s.scheduleNextPeer now).2) []
      (isSend (s.scheduleNextPeer now).2) := by
  unfold FindNode.scheduleNextPeer
  split
  · exact VStep.stay _
  · rename_i k c rest hc
    have hv : FindNode.view { s with candidates := rest, pending := (c, now) :: pendErase c.peer s.pending,
                                     pendingResponses := s.pendingResponses + 1 } =
        { s.view with cands := rest, pend := c.peer :: s.view.pend.filter (· ≠ c.peer) } := by
      simp only [FindNode.view]
      rw [show pendPeers ((c, now) :: pendErase c.peer s.pending) =
        c.peer :: pendPeers (pendErase c.peer s.pending) from rfl, pendPeers_erase]
    simp only [hv]
    exact VStep.send s.view k c rest hc

theorem FindNode.next_sim (d : Nat → Nat) (U : List Nat) (s : FindNode) (now : Nat) :
    VStep d U s.view (s.nextAction now).1.view (sendOf (s.nextAction now).2) []
      (isSend (s.nextAction now).2) := by
  unfold FindNode.nextAction
  split
  · simp only
    split <;> exact VStep.stay _
  · obtain ⟨m1, m2, m3, _, m5, _⟩ := markTimeouts_fields s now
    have hv : (s.markTimeouts now).view = s.view := by
      simp only [FindNode.view, m1, m2, m3, m5]
    rw [← hv]
    unfold FindNode.decide
    split
    · exact VStep.stay _
    · split
      · exact FindNode.schedule_sim d U _ now
      · split
        · split
          · exact FindNode.schedule_sim d U _ now
          · exact VStep.stay _
        · exact VStep.stay _

theorem FindNode.register_view (s : FindNode) (p : Nat) (peers : List KPeer) {kp : KPeer} {tm : Nat}
    (hl : pendLookup p s.pending = some (kp, tm)) :
    (s.registerResponse p peers).view =
      { s.view with
        cands := addCandidates s.view.l (sinsert p s.view.queried) (s.view.pend.filter (· ≠ p))
          s.view.cands peers
        pend := s.view.pend.filter (· ≠ p)
        queried := sinsert p s.view.queried } := by
  have hpeer : kp.peer = p := (pendLookup_some hl).2
  subst hpeer
  unfold FindNode.registerResponse
  simp only [hl]
  obtain ⟨d1, _, _, _, d5, _⟩ := discount_fields { s with pending := pendErase kp.peer s.pending } kp.peer
  simp only [FindNode.view, d1, d5, pendPeers_erase]

theorem FindNode.fail_view (s : FindNode) (p : Nat) {kp : KPeer} {tm : Nat}
    (hl : pendLookup p s.pending = some (kp, tm)) :
    (s.registerResponseFailure p).view =
      { s.view with
        cands := addCandidates s.view.l (sinsert p s.view.queried) (s.view.pend.filter (· ≠ p))
          s.view.cands []
        pend := s.view.pend.filter (· ≠ p)
        queried := sinsert p s.view.queried } := by
  have hpeer : kp.peer = p := (pendLookup_some hl).2
  subst hpeer
  unfold FindNode.registerResponseFailure
  simp only [hl]
  obtain ⟨d1, _, d3, _, d5, _⟩ := discount_fields { s with pending := pendErase kp.peer s.pending } kp.peer
  simp only [FindNode.view, d1, d3, d5, pendPeers_erase, addCandidates, List.foldl_nil]

/-- Every step of `FindNodeContext` — for every clock reading — is a move of its frontier. -/
theorem FindNode.sim (d : Nat → Nat) (U : List Nat) :
    Simulates d U FindNode.step FindNode.view (Ev.ok d U) FindNode.learn FindNode.productive := by
  intro s e hok
  cases e with
  | next now => exact FindNode.next_sim d U s now
  | resp p peers =>
    simp only [FindNode.step, FindNode.learn, FindNode.productive]
    cases hl : pendLookup p s.pending with
    | none =>
      have : s.registerResponse p peers = s := by simp [FindNode.registerResponse, hl]
      rw [this]; exact VStep.stay _
    | some x =>
      obtain ⟨kp, tm⟩ := x
      rw [FindNode.register_view s p peers hl]
      exact VStep.answer s.view p peers (pendLookup_isSome.1 (by simp [hl])) hok
  | fail p =>
    simp only [FindNode.step, FindNode.learn, FindNode.productive]
    cases hl : pendLookup p s.pending with
    | none =>
      have : s.registerResponseFailure p = s := by simp [FindNode.registerResponseFailure, hl]
      rw [this]; exact VStep.stay _
    | some x =>
      obtain ⟨kp, tm⟩ := x
      rw [FindNode.fail_view s p hl]
      exact VStep.answer s.view p [] (pendLookup_isSome.1 (by simp [hl])) (by simp)

theorem FindNode.run_eq (evs : List Ev) : ∀ (s : FindNode), s.run evs = runG FindNode.step s evs := by
  induction evs with
  | nil => intro s; rfl
  | cons e es ih =>
    intro s
    simp only [FindNode.run, runG, ih]
    generalize (s.step e).2 = o
    cases o <;> rfl

theorem FindNode.learned_eq (evs : List Ev) : ∀ (s : FindNode),
    s.learned evs = learnedG FindNode.step FindNode.learn s evs := by
  induction evs with
  | nil => intro s; rfl
  | cons e es ih =>
    intro s
    cases e with
    | next now => simp [FindNode.learned, learnedG, FindNode.learn, ih]
    | fail p => simp [FindNode.learned, learnedG, FindNode.learn, ih]
    | resp p peers =>
      simp only [FindNode.learned, learnedG, FindNode.learn, ih]
      split <;> simp

theorem FindNode.productiveCount_eq (evs : List Ev) : ∀ (s : FindNode),
    s.productiveCount evs = prodCountG FindNode.step FindNode.productive s evs := by
  induction evs with
  | nil => intro s; rfl
  | cons e es ih => intro s; simp only [FindNode.productiveCount, prodCountG, ih]

/-! ### GetRecordContext -/

def kpPeers (l : List KPeer) : List Nat := l.map (·.peer)

theorem kpPeers_erase (p : Nat) (l : List KPeer) : kpPeers (kpErase p l) = (kpPeers l).filter (· ≠ p) := by
  unfold kpPeers kpErase
  rw [List.filter_map]
  rfl

theorem map_kpErase (p : Nat) (l : List KPeer) :
    (kpErase p l).map (·.peer) = (l.map (·.peer)).filter (· ≠ p) := kpPeers_erase p l

theorem kpLookup_isSome {p : Nat} {l : List KPeer} : (kpLookup p l).isSome = true ↔ p ∈ kpPeers l := by
  induction l with
  | nil => simp [kpLookup, kpPeers]
  | cons y ys ih =>
    simp only [kpLookup, kpPeers, List.map_cons, List.mem_cons]
    split
    · rename_i h; simp [h]
    · rename_i h
      rw [ih]
      constructor
      · exact Or.inr
      · rintro (e | e)
        · exact absurd e.symm h
        · exact e

def GetRecord.view (s : GetRecord) : View := ⟨s.localPeer, s.candidates, kpPeers s.pending, s.queried⟩

def GetRecord.learn (s : GetRecord) : GREv → List Nat
  | .resp p _ peers => if (kpLookup p s.pending).isSome then peers.map (·.peer) else []
  | _ => []

/-- The frontier moved (a request was sent, or an outstanding one was consumed). -/
def GetRecord.moved (s : GetRecord) : GREv → Bool
  | .next => isSend s.nextAction.2
  | .resp p _ _ => (kpLookup p s.pending).isSome
  | .fail p => (kpLookup p s.pending).isSome

theorem GetRecord.next_sim (d : Nat → Nat) (U : List Nat) (s : GetRecord) :
    VStep d U s.view s.nextAction.1.view (sendOf s.nextAction.2) [] (isSend s.nextAction.2) := by
  unfold GetRecord.nextAction
  split
  · exact VStep.stay _
  · split
    · simp only
      split <;> exact VStep.stay _
    · split
      · exact VStep.stay _
      · split
        · exact VStep.stay _
        · unfold GetRecord.scheduleNextPeer
          split
          · exact VStep.stay _
          · rename_i k c rest hc
            have hv : GetRecord.view { s with candidates := rest, pending := c :: kpErase c.peer s.pending } =
                { s.view with cands := rest, pend := c.peer :: s.view.pend.filter (· ≠ c.peer) } := by
              simp only [GetRecord.view]
              rw [show kpPeers (c :: kpErase c.peer s.pending) =
                c.peer :: kpPeers (kpErase c.peer s.pending) from rfl, kpPeers_erase]
            simp only [hv]
            exact VStep.send s.view k c rest hc

theorem GetRecord.sim (d : Nat → Nat) (U : List Nat) :
    Simulates d U GetRecord.step GetRecord.view (GREv.ok d U) GetRecord.learn GetRecord.moved := by
  intro s e hok
  cases e with
  | next => exact GetRecord.next_sim d U s
  | resp p r peers =>
    simp only [GetRecord.step, GetRecord.learn, GetRecord.moved]
    cases hl : kpLookup p s.pending with
    | none =>
      have : s.registerResponse p r peers = s := by simp [GetRecord.registerResponse, hl]
      rw [this]; exact VStep.stay _
    | some kp =>
      have hpeer := kpLookup_peer hl
      have hv : (s.registerResponse p r peers).view =
          { s.view with
            cands := addCandidates s.view.l (sinsert p s.view.queried) (s.view.pend.filter (· ≠ p))
              s.view.cands peers
            pend := s.view.pend.filter (· ≠ p)
            queried := sinsert p s.view.queried } := by
        simp only [GetRecord.registerResponse, hl, GetRecord.view, map_kpErase, hpeer, kpPeers]
      rw [hv]
      exact VStep.answer s.view p peers (kpLookup_isSome.1 (by simp [hl])) hok
  | fail p =>
    simp only [GetRecord.step, GetRecord.learn, GetRecord.moved]
    cases hl : kpLookup p s.pending with
    | none =>
      have : s.registerResponseFailure p = s := by simp [GetRecord.registerResponseFailure, hl]
      rw [this]; exact VStep.stay _
    | some kp =>
      have hpeer := kpLookup_peer hl
      have hv : (s.registerResponseFailure p).view =
          { s.view with
            cands := addCandidates s.view.l (sinsert p s.view.queried) (s.view.pend.filter (· ≠ p))
              s.view.cands []
            pend := s.view.pend.filter (· ≠ p)
            queried := sinsert p s.view.queried } := by
        simp only [GetRecord.registerResponseFailure, hl, GetRecord.view, map_kpErase, hpeer, kpPeers,
          addCandidates, List.foldl_nil]
      rw [hv]
      exact VStep.answer s.view p [] (kpLookup_isSome.1 (by simp [hl])) (by simp)

theorem GetRecord.run_eq (evs : List GREv) : ∀ (s : GetRecord), s.run evs = runG GetRecord.step s evs := by
  induction evs with
  | nil => intro s; rfl
  | cons e es ih =>
    intro s
    simp only [GetRecord.run, runG, ih]
    generalize (s.step e).2 = o
    cases o <;> rfl

theorem GetRecord.learned_eq (evs : List GREv) : ∀ (s : GetRecord),
    s.learned evs = learnedG GetRecord.step GetRecord.learn s evs := by
  induction evs with
  | nil => intro s; rfl
  | cons e es ih =>
    intro s
    cases e with
    | next => simp [GetRecord.learned, learnedG, GetRecord.learn, ih]
    | fail p => simp [GetRecord.learned, learnedG, GetRecord.learn, ih]
    | resp p r peers =>
      simp only [GetRecord.learned, learnedG, GetRecord.learn, ih]
      split <;> simp

/-! ### GetProvidersContext -/

def GetProviders.view (s : GetProviders) : View := ⟨s.localPeer, s.candidates, kpPeers s.pending, s.queried⟩

def GetProviders.learn (s : GetProviders) : GPEv → List Nat
  | .resp p _ peers => if (kpLookup p s.pending).isSome then peers.map (·.peer) else []
  | _ => []

theorem GetProviders.next_sim (d : Nat → Nat) (U : List Nat) (s : GetProviders) :
    VStep d U s.view s.nextAction.1.view (sendOf s.nextAction.2) [] (isSend s.nextAction.2) := by
  unfold GetProviders.nextAction
  split
  · simp only
    split <;> exact VStep.stay _
  · split
    · exact VStep.stay _
    · unfold GetProviders.scheduleNextPeer
      split
      · exact VStep.stay _
      · rename_i k c rest hc
        have hv : GetProviders.view { s with candidates := rest, pending := c :: kpErase c.peer s.pending } =
            { s.view with cands := rest, pend := c.peer :: s.view.pend.filter (· ≠ c.peer) } := by
          simp only [GetProviders.view]
          rw [show kpPeers (c :: kpErase c.peer s.pending) =
            c.peer :: kpPeers (kpErase c.peer s.pending) from rfl, kpPeers_erase]
        simp only [hv]
        exact VStep.send s.view k c rest hc

theorem GetProviders.sim (d : Nat → Nat) (U : List Nat) :
    Simulates d U GetProviders.step GetProviders.view (GPEv.ok d U) GetProviders.learn
      GetProviders.productive := by
  intro s e hok
  cases e with
  | next => exact GetProviders.next_sim d U s
  | resp p r peers =>
    simp only [GetProviders.step, GetProviders.learn, GetProviders.productive]
    cases hl : kpLookup p s.pending with
    | none =>
      have : s.registerResponse p r peers = s := by simp [GetProviders.registerResponse, hl]
      rw [this]; exact VStep.stay _
    | some kp =>
      have hpeer := kpLookup_peer hl
      have hv : (s.registerResponse p r peers).view =
          { s.view with
            cands := addCandidates s.view.l (sinsert p s.view.queried) (s.view.pend.filter (· ≠ p))
              s.view.cands peers
            pend := s.view.pend.filter (· ≠ p)
            queried := sinsert p s.view.queried } := by
        simp only [GetProviders.registerResponse, hl, GetProviders.view, map_kpErase, hpeer, kpPeers]
      rw [hv]
      exact VStep.answer s.view p peers (kpLookup_isSome.1 (by simp [hl])) hok
  | fail p =>
    simp only [GetProviders.step, GetProviders.learn, GetProviders.productive]
    cases hl : kpLookup p s.pending with
    | none =>
      have : s.registerResponseFailure p = s := by simp [GetProviders.registerResponseFailure, hl]
      rw [this]; exact VStep.stay _
    | some kp =>
      have hpeer := kpLookup_peer hl
      have hv : (s.registerResponseFailure p).view =
          { s.view with
            cands := addCandidates s.view.l (sinsert p s.view.queried) (s.view.pend.filter (· ≠ p))
              s.view.cands []
            pend := s.view.pend.filter (· ≠ p)
            queried := sinsert p s.view.queried } := by
        simp only [GetProviders.registerResponseFailure, hl, GetProviders.view, map_kpErase, hpeer, kpPeers,
          addCandidates, List.foldl_nil]
      rw [hv]
      exact VStep.answer s.view p [] (kpLookup_isSome.1 (by simp [hl])) (by simp)

theorem GetProviders.run_eq (evs : List GPEv) : ∀ (s : GetProviders),
    s.run evs = runG GetProviders.step s evs := by
  induction evs with
  | nil => intro s; rfl
  | cons e es ih =>
    intro s
    simp only [GetProviders.run, runG, ih]
    generalize (s.step e).2 = o
    cases o <;> rfl

theorem GetProviders.learned_eq (evs : List GPEv) : ∀ (s : GetProviders),
    s.learned evs = learnedG GetProviders.step GetProviders.learn s evs := by
  induction evs with
  | nil => intro s; rfl
  | cons e es ih =>
    intro s
    cases e with
    | next => simp [GetProviders.learned, learnedG, GetProviders.learn, ih]
    | fail p => simp [GetProviders.learned, learnedG, GetProviders.learn, ih]
    | resp p r peers =>
      simp only [GetProviders.learned, learnedG, GetProviders.learn, ih]
      split <;> simp

theorem GetProviders.productiveCount_eq (evs : List GPEv) : ∀ (s : GetProviders),
    s.productiveCount evs = prodCountG GetProviders.step GetProviders.productive s evs := by
  induction evs with
  | nil => intro s; rfl
  | cons e es ih => intro s; simp only [GetProviders.productiveCount, prodCountG, ih]

end Litep2pVerif.Kad.Query
