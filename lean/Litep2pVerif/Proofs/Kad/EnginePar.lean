import Litep2pVerif.Proofs.Kad.EngineLookup
import Litep2pVerif.Proofs.Kad.FindNodeRun
/-!
# The parallelism bound per query at engine level (C15)

`TPar` is, for the context stored under one id, the invariant behind the parallelism bound (`FInv`
for `FindNodeContext`, `pending.len() ≤ parallelism` for value and provider lookups). Every engine
operation that does not start the id again preserves it, whatever happens to the other queries.
-/
namespace Litep2pVerif.Kad.Query

theorem FInv.mono {d U s A t t'} (h : FInv d U s A t) (ht : t ≤ t') : FInv d U s A t' :=
  ⟨h.fr, h.c.mono ht, h.rs, h.rkey, h.rlen⟩

/-- The invariant of the context of one query; `P` is the parallelism factor, `T` the last clock
reading of the engine. -/
def TPar (d : Nat → Nat) (U : List Nat) (P T : Nat) : QueryType → Prop
  | .findNode c => (∃ A, FInv d U c A T) ∧ c.par = P
  | .putRecord _ _ c => (∃ A, FInv d U c A T) ∧ c.par = P
  | .addProvider _ _ _ c => (∃ A, FInv d U c A T) ∧ c.par = P
  | .getRecord c => c.pending.length ≤ c.par ∧ c.par = P
  | .getProviders c => c.pending.length ≤ c.par ∧ c.par = P
  | _ => True

theorem TPar.mono {d U P T T'} {t : QueryType} (h : TPar d U P T t) (hT : T ≤ T') : TPar d U P T' t := by
  cases t with
  | findNode c => obtain ⟨⟨A, h1⟩, h2⟩ := h; exact ⟨⟨A, h1.mono hT⟩, h2⟩
  | putRecord r qu c => obtain ⟨⟨A, h1⟩, h2⟩ := h; exact ⟨⟨A, h1.mono hT⟩, h2⟩
  | addProvider k p qu c => obtain ⟨⟨A, h1⟩, h2⟩ := h; exact ⟨⟨A, h1.mono hT⟩, h2⟩
  | getRecord c => exact h
  | getProviders c => exact h
  | putRecordToPeers r qu c => trivial
  | putRecordToFoundNodes c => trivial
  | addProviderToFoundNodes c => trivial

theorem TPar.inFlight_le {d U P T} {t : QueryType} (h : TPar d U P T t) (now : Nat) (hT : T ≤ now) :
    t.inFlight now ≤ P := by
  cases t with
  | findNode c => obtain ⟨⟨A, h1⟩, h2⟩ := h; exact h2 ▸ h1.c.fresh_le now hT
  | putRecord r qu c => obtain ⟨⟨A, h1⟩, h2⟩ := h; exact h2 ▸ h1.c.fresh_le now hT
  | addProvider k p qu c => obtain ⟨⟨A, h1⟩, h2⟩ := h; exact h2 ▸ h1.c.fresh_le now hT
  | getRecord c => exact h.2 ▸ h.1
  | getProviders c => exact h.2 ▸ h.1
  | putRecordToPeers r qu c => exact Nat.zero_le _
  | putRecordToFoundNodes c => exact Nat.zero_le _
  | addProviderToFoundNodes c => exact Nat.zero_le _

theorem GetRecord.step_pending_le (s : GetRecord) (e : GREv) (h : s.pending.length ≤ s.par) :
    (s.step e).1.pending.length ≤ (s.step e).1.par ∧ (s.step e).1.par = s.par := by
  have h1 := GetRecord.run_pending_le [e] s h
  have h2 : (s.run [e]).1 = (s.step e).1 := by simp only [GetRecord.run]; split <;> rfl
  have h3 := (s.step_cfg e).2.2.2.1
  rw [h2] at h1
  exact ⟨h3 ▸ h1, h3⟩

theorem GetProviders.step_pending_le (s : GetProviders) (e : GPEv) (h : s.pending.length ≤ s.par) :
    (s.step e).1.pending.length ≤ (s.step e).1.par ∧ (s.step e).1.par = s.par := by
  have h1 := GetProviders.run_pending_le [e] s h
  have h2 : (s.run [e]).1 = (s.step e).1 := by simp only [GetProviders.run]; split <;> rfl
  have h3 := s.step_par e
  rw [h2] at h1
  exact ⟨h3 ▸ h1, h3⟩

theorem typeNext_par {d U P now} {t : QueryType} (h : TPar d U P now t) :
    TPar d U P now (Engine.typeNext now t).1 := by
  cases t with
  | findNode c =>
    obtain ⟨⟨A, h1⟩, h2⟩ := h
    obtain ⟨n1, n2, _⟩ := h1.next now (Nat.le_refl _)
    exact ⟨⟨A, n1⟩, n2.2.2.1.trans h2⟩
  | putRecord r qu c =>
    obtain ⟨⟨A, h1⟩, h2⟩ := h
    obtain ⟨n1, n2, _⟩ := h1.next now (Nat.le_refl _)
    exact ⟨⟨A, n1⟩, n2.2.2.1.trans h2⟩
  | addProvider k p qu c =>
    obtain ⟨⟨A, h1⟩, h2⟩ := h
    obtain ⟨n1, n2, _⟩ := h1.next now (Nat.le_refl _)
    exact ⟨⟨A, n1⟩, n2.2.2.1.trans h2⟩
  | getRecord c =>
    obtain ⟨s1, s2⟩ := c.step_pending_le .next h.1
    exact ⟨s1, s2.trans h.2⟩
  | getProviders c =>
    obtain ⟨s1, s2⟩ := c.step_pending_le .next h.1
    exact ⟨s1, s2.trans h.2⟩
  | putRecordToPeers r qu c => trivial
  | putRecordToFoundNodes c => trivial
  | addProviderToFoundNodes c => trivial

theorem FindNode.fail_par {d U P T} {c : FindNode} (p : Nat) (h : (∃ A, FInv d U c A T) ∧ c.par = P) :
    (∃ A, FInv d U (c.registerResponseFailure p) A T) ∧ (c.registerResponseFailure p).par = P := by
  obtain ⟨⟨A, h1⟩, h2⟩ := h
  obtain ⟨n1, n2, _⟩ := h1.fail p
  exact ⟨⟨A, n1⟩, n2.2.2.1.trans h2⟩

theorem FindNode.resp_par {d U P T} {c : FindNode} (p : Nat) (peers : List KPeer)
    (hm : ∀ kp ∈ peers, kp.dist = d kp.peer ∧ kp.peer ∈ U) (h : (∃ A, FInv d U c A T) ∧ c.par = P) :
    (∃ A, FInv d U (c.registerResponse p peers) A T) ∧ (c.registerResponse p peers).par = P := by
  obtain ⟨⟨A, h1⟩, h2⟩ := h
  obtain ⟨n1, n2, _⟩ := h1.resp p peers hm
  exact ⟨⟨_, n1⟩, n2.2.2.1.trans h2⟩

theorem failType_par {d U P T} (p : Nat) {t : QueryType} (h : TPar d U P T t) :
    TPar d U P T (Engine.failType p t) := by
  cases t with
  | findNode c => exact FindNode.fail_par p h
  | putRecord r qu c => exact FindNode.fail_par p h
  | addProvider k p' qu c => exact FindNode.fail_par p h
  | getRecord c =>
    obtain ⟨s1, s2⟩ := c.step_pending_le (.fail p) h.1
    exact ⟨s1, s2.trans h.2⟩
  | getProviders c =>
    obtain ⟨s1, s2⟩ := c.step_pending_le (.fail p) h.1
    exact ⟨s1, s2.trans h.2⟩
  | putRecordToPeers r qu c => trivial
  | putRecordToFoundNodes c => trivial
  | addProviderToFoundNodes c => trivial

theorem respType_par {d U P T} (p : Nat) (m : Msg) (hm : m.ok d U) {t : QueryType} (h : TPar d U P T t) :
    TPar d U P T (Engine.respType p m t) := by
  cases t with
  | findNode c =>
    cases m with
    | findNode peers => exact FindNode.resp_par p peers hm h
    | putValue => exact FindNode.fail_par p h
    | getRecord r peers => exact FindNode.fail_par p h
    | addProvider => exact FindNode.fail_par p h
    | getProviders pr peers => exact FindNode.fail_par p h
  | putRecord r qu c =>
    cases m with
    | findNode peers => exact FindNode.resp_par p peers hm h
    | putValue => exact FindNode.fail_par p h
    | getRecord r peers => exact FindNode.fail_par p h
    | addProvider => exact FindNode.fail_par p h
    | getProviders pr peers => exact FindNode.fail_par p h
  | addProvider k p' qu c =>
    cases m with
    | findNode peers => exact FindNode.resp_par p peers hm h
    | putValue => exact FindNode.fail_par p h
    | getRecord r peers => exact FindNode.fail_par p h
    | addProvider => exact FindNode.fail_par p h
    | getProviders pr peers => exact FindNode.fail_par p h
  | getRecord c =>
    cases m with
    | getRecord r peers =>
      obtain ⟨s1, s2⟩ := c.step_pending_le (.resp p r peers) h.1
      exact ⟨s1, s2.trans h.2⟩
    | putValue => exact failType_par (t := .getRecord c) p h
    | findNode peers => exact failType_par (t := .getRecord c) p h
    | addProvider => exact failType_par (t := .getRecord c) p h
    | getProviders pr peers => exact failType_par (t := .getRecord c) p h
  | getProviders c =>
    cases m with
    | getProviders pr peers =>
      obtain ⟨s1, s2⟩ := c.step_pending_le (.resp p pr peers) h.1
      exact ⟨s1, s2.trans h.2⟩
    | putValue => exact failType_par (t := .getProviders c) p h
    | findNode peers => exact failType_par (t := .getProviders c) p h
    | addProvider => exact failType_par (t := .getProviders c) p h
    | getRecord r peers => exact failType_par (t := .getProviders c) p h
  | putRecordToPeers r qu c => trivial
  | putRecordToFoundNodes c => trivial
  | addProviderToFoundNodes c => trivial

theorem sendFailType_par {d U P T} (p : Nat) {t : QueryType} (h : TPar d U P T t) :
    TPar d U P T (Engine.sendFailType p t) := by
  cases t <;> first | exact h | trivial

theorem sendOkType_par {d U P T} (p : Nat) {t : QueryType} (h : TPar d U P T t) :
    TPar d U P T (Engine.sendOkType p t) := by
  cases t <;> first | exact h | trivial

/-! ### preservation of a predicate on the context of `q` by engine operations -/

theorem qLookup_qErase_some {q q' : Nat} {l : List (Nat × QueryType)} {t : QueryType}
    (h : qLookup q (qErase q' l) = some t) : qLookup q l = some t := by
  by_cases hq : q = q'
  · subst hq; rw [qLookup_qErase_same] at h; cases h
  · rw [qLookup_qErase_ne hq] at h; exact h

theorem qLookup_qSet_some {q q' : Nat} {l : List (Nat × QueryType)} {t t' : QueryType}
    (h : qLookup q (qSet q' t' l) = some t) :
    (q = q' ∧ t = t' ∧ ∃ t0, qLookup q l = some t0) ∨ (q ≠ q' ∧ qLookup q l = some t) := by
  by_cases hq : q = q'
  · subst hq
    cases hl : qLookup q l with
    | none =>
      have : q ∉ keys (qSet q t' l) := by rw [keys_qSet]; exact qLookup_none hl
      rw [qLookup_eq_none this] at h; cases h
    | some t0 =>
      rw [qLookup_qSet_same hl] at h
      exact Or.inl ⟨rfl, (Option.some.inj h).symm, t0, rfl⟩
  · rw [qLookup_qSet_ne hq] at h; exact Or.inr ⟨hq, h⟩

theorem nextAction_pres (q now : Nat) (P : QueryType → Prop)
    (hP : ∀ t, P t → P (Engine.typeNext now t).1) (order : List Nat) : ∀ (e : Engine),
    (∀ t, qLookup q e.queries = some t → P t) →
    ∀ t', qLookup q (e.nextAction now order).1.queries = some t' → P t' := by
  induction order with
  | nil => intro e h t' ht'; exact h t' ht'
  | cons q2 rest ih =>
    intro e h
    simp only [Engine.nextAction]
    split
    · exact ih e h
    · rename_i t2 hl2
      have hset : ∀ t, qLookup q (qSet q2 (Engine.typeNext now t2).1 e.queries) = some t → P t := by
        intro t ht
        rcases qLookup_qSet_some ht with ⟨rfl, rfl, _⟩ | ⟨_, h2⟩
        · exact hP t2 (h t2 hl2)
        · exact h t h2
      split
      · unfold Engine.onQuerySucceeded
        split
        · exact hset
        · intro t' ht'; exact hset t' (qLookup_qErase_some ht')
      · unfold Engine.onQueryFailed
        split
        · exact hset
        · intro t' ht'; exact hset t' (qLookup_qErase_some ht')
      · exact hset
      · exact hset
      · exact ih _ hset

theorem register_pres (q q' : Nat) (P : QueryType → Prop) (f : QueryType → QueryType)
    (hf : q' = q → ∀ t, P t → P (f t)) (e : Engine) (h : ∀ t, qLookup q e.queries = some t → P t) :
    ∀ t', qLookup q (match qLookup q' e.queries with
        | none => e
        | some t => { e with queries := qSet q' (f t) e.queries }).queries = some t' → P t' := by
  split
  · exact h
  · rename_i t hl
    intro t' ht'
    rcases qLookup_qSet_some ht' with ⟨rfl, rfl, _⟩ | ⟨_, h2⟩
    · exact hf rfl t (h t hl)
    · exact h t' h2

theorem eLastNow_cons (T : Nat) (op : EOp) (ops : List EOp) :
    eLastNow T (op :: ops) = eLastNow (eLastNow T [op]) ops := by
  cases op <;> simp [eLastNow]

theorem eMonotoneFrom_cons {T : Nat} {op : EOp} {ops : List EOp} (h : eMonotoneFrom T (op :: ops)) :
    T ≤ eLastNow T [op] ∧ eMonotoneFrom (eLastNow T [op]) ops := by
  cases op <;> simp_all [eMonotoneFrom, eLastNow]

/-- One operation preserves the invariant of the context of `q`. -/
theorem step_par (d : Nat → Nat) (U : List Nat) (P q T : Nat) (e : Engine) (op : EOp)
    (hst : op.starts ≠ some q) (hok : op.okFor d U q) (hT : T ≤ eLastNow T [op])
    (h : ∀ t, qLookup q e.queries = some t → TPar d U P T t) :
    ∀ t', qLookup q (e.step op).1.queries = some t' → TPar d U P (eLastNow T [op]) t' := by
  have start : ∀ (q' : Nat) (t0 : QueryType), some q' ≠ some q →
      ∀ t', qLookup q (qInsert q' t0 e.queries) = some t' → TPar d U P T t' := by
    intro q' t0 hne t' ht'
    have : q ≠ q' := fun e => hne (by rw [e])
    rw [qLookup_qInsert_ne this] at ht'
    exact h t' ht'
  cases op with
  | next now order =>
    simp only [eLastNow] at hT ⊢
    exact nextAction_pres q now (TPar d U P now) (fun t ht => typeNext_par ht) order e
      (fun t ht => (h t ht).mono hT)
  | startFindNode q' c => exact start q' _ hst
  | startPutRecord q' r c qu => exact start q' _ hst
  | startPutRecordToPeers q' r p qu => exact start q' _ hst
  | startGetRecord q' c qu l => exact start q' _ hst
  | startAddProvider q' k p c qu => exact start q' _ hst
  | startGetProviders q' c kn => exact start q' _ hst
  | startPutRecordTracking q' k ps qu => exact start q' _ hst
  | startAddProviderTracking q' k ps qu => exact start q' _ hst
  | response q' p m =>
    exact register_pres q q' (TPar d U P T) (Engine.respType p m)
      (fun hq t ht => respType_par p m (hok hq) ht) e h
  | responseFailure q' p =>
    exact register_pres q q' (TPar d U P T) (Engine.failType p) (fun _ t ht => failType_par p ht) e h
  | sendSuccess q' p =>
    exact register_pres q q' (TPar d U P T) (Engine.sendOkType p) (fun _ t ht => sendOkType_par p ht) e h
  | sendFailure q' p =>
    exact register_pres q q' (TPar d U P T) (Engine.sendFailType p) (fun _ t ht => sendFailType_par p ht) e h
  | peerFailure q' p =>
    exact register_pres q q' (TPar d U P T) (Engine.failType p) (fun _ t ht => failType_par p ht) _
      (register_pres q q' (TPar d U P T) (Engine.sendFailType p) (fun _ t ht => sendFailType_par p ht) e h)

theorem run_par (d : Nat → Nat) (U : List Nat) (P q : Nat) (ops : List EOp) : ∀ (T : Nat) (e : Engine),
    (∀ op ∈ ops, op.starts ≠ some q) → (∀ op ∈ ops, op.okFor d U q) → eMonotoneFrom T ops →
    (∀ t, qLookup q e.queries = some t → TPar d U P T t) →
    ∀ t', qLookup q (e.run ops).1.queries = some t' → TPar d U P (eLastNow T ops) t' := by
  induction ops with
  | nil => intro T e _ _ _ h; exact h
  | cons op ops ih =>
    intro T e hst hok hm h
    obtain ⟨m1, m2⟩ := eMonotoneFrom_cons hm
    rw [eLastNow_cons]
    simp only [Engine.run]
    exact ih _ _ (fun o ho => hst o (List.mem_cons_of_mem _ ho)) (fun o ho => hok o (List.mem_cons_of_mem _ ho))
      m2 (step_par d U P q T e op (hst op (List.mem_cons_self ..)) (hok op (List.mem_cons_self ..)) m1 h)

/-- The invariant holds for a lookup that was just started by the engine (at any time `T`). -/
theorem start_par (d : Nat → Nat) (U : List Nat) (T : Nat) (e : Engine) (q : Nat) (inPeers : List KPeer)
    (op : EOp) (hop : op.startsLookup q inPeers)
    (hc : ∀ kp ∈ inPeers, kp.dist = d kp.peer ∧ kp.peer ∈ U ∧ kp.peer ≠ e.localPeer) :
    ∀ t, qLookup q (e.step op).1.queries = some t → TPar d U e.par T t := by
  have hfn : ∀ q', (∃ A, FInv d U (e.newFindNode q' inPeers) A T) ∧ (e.newFindNode q' inPeers).par = e.par :=
    fun q' => ⟨⟨[], (FInv.init e.localPeer e.repl e.par q' e.peerTimeout inPeers hc).mono (Nat.zero_le _)⟩, rfl⟩
  intro t ht
  cases op with
  | startFindNode q' c =>
    obtain ⟨rfl, rfl⟩ := hop
    simp only [Engine.step, Engine.startFindNode, qLookup_qInsert_same, Option.some.injEq] at ht
    subst ht; exact hfn _
  | startPutRecord q' r c qu =>
    obtain ⟨rfl, rfl⟩ := hop
    simp only [Engine.step, Engine.startPutRecord, qLookup_qInsert_same, Option.some.injEq] at ht
    subst ht; exact hfn _
  | startAddProvider q' k p c qu =>
    obtain ⟨rfl, rfl⟩ := hop
    simp only [Engine.step, Engine.startAddProvider, qLookup_qInsert_same, Option.some.injEq] at ht
    subst ht; exact hfn _
  | startGetRecord q' c qu l =>
    obtain ⟨rfl, rfl⟩ := hop
    simp only [Engine.step, Engine.startGetRecord, qLookup_qInsert_same, Option.some.injEq] at ht
    subst ht; exact ⟨Nat.zero_le _, rfl⟩
  | startGetProviders q' c kn =>
    obtain ⟨rfl, rfl⟩ := hop
    simp only [Engine.step, Engine.startGetProviders, qLookup_qInsert_same, Option.some.injEq] at ht
    subst ht; exact ⟨Nat.zero_le _, rfl⟩
  | startPutRecordToPeers q' r p qu => exact absurd hop (by simp [EOp.startsLookup])
  | startPutRecordTracking q' k ps qu => exact absurd hop (by simp [EOp.startsLookup])
  | startAddProviderTracking q' k ps qu => exact absurd hop (by simp [EOp.startsLookup])
  | response q' p m => exact absurd hop (by simp [EOp.startsLookup])
  | responseFailure q' p => exact absurd hop (by simp [EOp.startsLookup])
  | sendSuccess q' p => exact absurd hop (by simp [EOp.startsLookup])
  | sendFailure q' p => exact absurd hop (by simp [EOp.startsLookup])
  | peerFailure q' p => exact absurd hop (by simp [EOp.startsLookup])
  | next now order => exact absurd hop (by simp [EOp.startsLookup])

end Litep2pVerif.Kad.Query
