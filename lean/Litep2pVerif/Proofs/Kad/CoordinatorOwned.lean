import Litep2pVerif.Proofs.Kad.Coordinator
/-!
The ownership invariant of the Kademlia coordinator model (C16) as a theorem:
`waitingOwned_reachable : Reachable s → WaitingOwned s`.

* `Owned s q lk p` — Prop form of `ownedB`: an outstanding obligation of the environment (dial,
  tracked substream open, executor future) carries an action of query `q` for peer `p` that belongs to
  the phase `lk` (lookup / send phase) of the query.
* `Aux` — what the proof needs besides: `ctx ⊆ connected` (so that the `Entry::Occupied` branch of
  `on_connection_established` is unreachable) and uniqueness/bound of the substream ids in
  `pending_substreams`, in the environment's `opening` and in the pending actions.
* `Sub e e'` — every query of `e'` is a query of `e` in the same phase that waits for no more peers;
  `Gone e q lk p` — no query `q` in phase `lk` waits for `p`.
* `WO.preserve` — the one induction principle: every new waited-for peer is owned, and every owner
  that disappears has told its query (`Transfers`).
-/
namespace Litep2pVerif.Kad.Coordinator

/-! ## Small list facts -/

theorem eq_of_nodup_map {α β} (f : α → β) (l : List α) (hn : (l.map f).Nodup) :
    ∀ x ∈ l, ∀ y ∈ l, f x = f y → x = y := by
  induction l with
  | nil => intro x hx; exact absurd hx (by simp)
  | cons a l ih =>
    simp only [List.map_cons, List.nodup_cons] at hn
    intro x hx y hy hxy
    rcases List.mem_cons.mp hx with hxa | hx <;> rcases List.mem_cons.mp hy with hya | hy
    · rw [hxa, hya]
    · exact absurd (List.mem_map.mpr ⟨y, hy, by rw [← hxy, hxa]⟩) hn.1
    · exact absurd (List.mem_map.mpr ⟨x, hx, by rw [hxy, hya]⟩) hn.1
    · exact ih hn.2 x hx y hy hxy

theorem find?_eq_of_unique {α} (l : List α) (pred : α → Bool) (x : α) (hx : x ∈ l) (hp : pred x = true)
    (hu : ∀ y ∈ l, pred y = true → y = x) : l.find? pred = some x := by
  cases h : l.find? pred with
  | none => exact absurd hp (by simpa using List.find?_eq_none.mp h x hx)
  | some y => rw [hu y (List.mem_of_find?_eq_some h) (List.find?_some h)]

theorem nodup_map_of_sublist {α β} (f : α → β) {l l' : List α} (h : l'.Sublist l) (hn : (l.map f).Nodup) :
    (l'.map f).Nodup := hn.sublist (h.map f)

theorem nodup_map_append_fresh {α} (f : α → Nat) (l : List α) (x : α) (hn : (l.map f).Nodup)
    (hf : ∀ y ∈ l, f y < f x) : ((l ++ [x]).map f).Nodup := by
  rw [List.map_append, List.nodup_append]
  refine ⟨hn, by simp, ?_⟩
  intro a ha b hb
  simp at hb
  subst hb
  obtain ⟨y, hy, rfl⟩ := List.mem_map.mp ha
  exact Nat.ne_of_lt (hf y hy)

/-! ## Ownership, Prop form -/

def mA (lk : Bool) : AKind → Bool
  | .findNode => lk
  | _ => !lk

def mF (lk : Bool) : FKind → Bool
  | .reqResp => lk
  | _ => !lk

theorem matchA_eq (st : QState) (k : AKind) : matchA st k = mA st.isLookup k := by
  cases st <;> cases k <;> rfl

theorem matchF_eq (st : QState) (k : FKind) : matchF st k = mF st.isLookup k := by
  cases st <;> cases k <;> rfl

def Owned (s : State) (q : Qid) (lk : Bool) (p : Peer) : Prop :=
  (∃ a, (p, a) ∈ s.dials ∧ a.q = q ∧ mA lk a.kind = true ∧ p ∈ s.dialing) ∨
  (∃ sid a, (p, sid, a) ∈ s.actions ∧ a.q = q ∧ mA lk a.kind = true ∧
      (sid, p) ∈ s.opening ∧ (sid, p) ∈ s.pendingSubs ∧ p ∈ s.ctx) ∨
  (∃ k, (⟨p, q, k⟩ : Fut) ∈ s.futs ∧ mF lk k = true)

theorem ownedB_iff (s : State) (x : Query) (p : Peer) :
    ownedB s x p = true ↔ Owned s x.id x.st.isLookup p := by
  unfold ownedB Owned
  simp only [Bool.or_eq_true, List.any_eq_true, Bool.and_eq_true, beq_iff_eq, List.contains_iff_mem,
    matchA_eq, matchF_eq]
  constructor
  · rintro ((⟨d, hd, ⟨⟨h1, h2⟩, h3⟩, h4⟩ | ⟨a, ha, ⟨⟨⟨⟨h1, h2⟩, h3⟩, h4⟩, h5⟩, h6⟩) | ⟨f, hf, ⟨h1, h2⟩, h3⟩)
    · obtain ⟨dp, da⟩ := d
      simp only at h1 h2 h3
      subst h1
      exact .inl ⟨da, hd, h2, h3, h4⟩
    · obtain ⟨ap, asid, aa⟩ := a
      simp only at h1 h2 h3 h4 h5
      subst h1
      exact .inr (.inl ⟨asid, aa, ha, h2, h3, h4, h5, h6⟩)
    · obtain ⟨fp, fq, fk⟩ := f
      simp only at h1 h2 h3
      subst h1; subst h2
      exact .inr (.inr ⟨fk, hf, h3⟩)
  · rintro (⟨a, hd, h2, h3, h4⟩ | ⟨sid, a, ha, h2, h3, h4, h5, h6⟩ | ⟨k, hf, h3⟩)
    · exact .inl (.inl ⟨(p, a), hd, ⟨⟨rfl, h2⟩, h3⟩, h4⟩)
    · exact .inl (.inr ⟨(p, sid, a), ha, ⟨⟨⟨⟨rfl, h2⟩, h3⟩, h4⟩, h5⟩, h6⟩)
    · exact .inr ⟨⟨p, x.id, k⟩, hf, ⟨rfl, rfl⟩, h3⟩

/-- The obligations of `s` are obligations of `s'`. -/
structure OwnersLe (s s' : State) : Prop where
  dials : ∀ x ∈ s.dials, x ∈ s'.dials
  dialing : ∀ x ∈ s.dialing, x ∈ s'.dialing
  actions : ∀ x ∈ s.actions, x ∈ s'.actions
  opening : ∀ x ∈ s.opening, x ∈ s'.opening
  pendingSubs : ∀ x ∈ s.pendingSubs, x ∈ s'.pendingSubs
  ctx : ∀ x ∈ s.ctx, x ∈ s'.ctx
  futs : ∀ x ∈ s.futs, x ∈ s'.futs

theorem OwnersLe.rfl' (s : State) : OwnersLe s s :=
  ⟨fun _ h => h, fun _ h => h, fun _ h => h, fun _ h => h, fun _ h => h, fun _ h => h, fun _ h => h⟩

theorem OwnersLe.trans {a b c : State} (h1 : OwnersLe a b) (h2 : OwnersLe b c) : OwnersLe a c :=
  ⟨fun x h => h2.dials x (h1.dials x h), fun x h => h2.dialing x (h1.dialing x h),
   fun x h => h2.actions x (h1.actions x h), fun x h => h2.opening x (h1.opening x h),
   fun x h => h2.pendingSubs x (h1.pendingSubs x h), fun x h => h2.ctx x (h1.ctx x h),
   fun x h => h2.futs x (h1.futs x h)⟩

theorem Owned.mono {s s' : State} (h : OwnersLe s s') {q lk p} (ho : Owned s q lk p) : Owned s' q lk p := by
  rcases ho with ⟨a, hd, h2, h3, h4⟩ | ⟨sid, a, ha, h2, h3, h4, h5, h6⟩ | ⟨k, hf, h3⟩
  · exact .inl ⟨a, h.dials _ hd, h2, h3, h.dialing _ h4⟩
  · exact .inr (.inl ⟨sid, a, h.actions _ ha, h2, h3, h.opening _ h4, h.pendingSubs _ h5, h.ctx _ h6⟩)
  · exact .inr (.inr ⟨k, h.futs _ hf, h3⟩)

/-! ## Engines: `Sub` and `Gone` -/

def Sub (e e' : Engine) : Prop :=
  ∀ x' ∈ e', ∃ x ∈ e, x.id = x'.id ∧ x.st.isLookup = x'.st.isLookup ∧ ∀ p ∈ x'.st.pending, p ∈ x.st.pending

theorem Sub.refl (e : Engine) : Sub e e := fun x hx => ⟨x, hx, rfl, rfl, fun _ h => h⟩

theorem Sub.trans {a b c : Engine} (h1 : Sub a b) (h2 : Sub b c) : Sub a c := by
  intro x'' hx''
  obtain ⟨x', hx', hi', hl', hp'⟩ := h2 x'' hx''
  obtain ⟨x, hx, hi, hl, hp⟩ := h1 x' hx'
  exact ⟨x, hx, hi.trans hi', hl.trans hl', fun p h => hp p (hp' p h)⟩

theorem sub_updQ (e : Engine) (q : Qid) (f : QState → QState)
    (hf : ∀ st, (f st).isLookup = st.isLookup ∧ ∀ p ∈ (f st).pending, p ∈ st.pending) : Sub e (updQ e q f) := by
  intro x' hx'
  obtain ⟨x, hx, hid, _, hst⟩ := mem_updQ hx'
  refine ⟨x, hx, hid.symm, ?_, ?_⟩
  · rcases hst with ⟨_, hst⟩ | ⟨_, hst⟩ <;> rw [hst]
    exact ((hf x.st).1).symm
  · rcases hst with ⟨_, hst⟩ | ⟨_, hst⟩ <;> rw [hst]
    · exact fun _ h => h
    · exact (hf x.st).2

theorem respDone_shrinks (p : Peer) (st : QState) :
    (st.respDone p).isLookup = st.isLookup ∧ ∀ p' ∈ (st.respDone p).pending, p' ∈ st.pending := by
  cases st with
  | lookup k qu ps => exact ⟨rfl, fun p' h => (List.mem_filter.mp h).1⟩
  | tracker b t => exact ⟨rfl, fun _ h => h⟩

theorem sendFail_shrinks (p : Peer) (st : QState) :
    (st.sendFail p).isLookup = st.isLookup ∧ ∀ p' ∈ (st.sendFail p).pending, p' ∈ st.pending := by
  cases st with
  | lookup k qu ps => exact ⟨rfl, fun _ h => h⟩
  | tracker b t =>
    refine ⟨rfl, ?_⟩
    simp only [QState.sendFail, Tracker.sendFailure, QState.pending]
    split
    · exact fun p' h => (List.mem_filter.mp h).1
    · exact fun _ h => h

theorem sendOk_shrinks (p : Peer) (st : QState) :
    (st.sendOk p).isLookup = st.isLookup ∧ ∀ p' ∈ (st.sendOk p).pending, p' ∈ st.pending := by
  cases st with
  | lookup k qu ps => exact ⟨rfl, fun _ h => h⟩
  | tracker b t =>
    refine ⟨rfl, ?_⟩
    simp only [QState.sendOk, Tracker.sendSuccess, QState.pending]
    split
    · exact fun p' h => (List.mem_filter.mp h).1
    · exact fun _ h => h

theorem sub_regRespDone (e q p) : Sub e (regRespDone e q p) := sub_updQ e q _ (respDone_shrinks p)
theorem sub_regSendFail (e q p) : Sub e (regSendFail e q p) := sub_updQ e q _ (sendFail_shrinks p)
theorem sub_regSendOk (e q p) : Sub e (regSendOk e q p) := sub_updQ e q _ (sendOk_shrinks p)

theorem Shrinks.sub {e e' : Engine} (h : Shrinks e e') : Sub e e' := by
  induction h with
  | refl => exact Sub.refl _
  | respDone q p _ ih => exact ih.trans (sub_regRespDone _ _ _)
  | sendFail q p _ ih => exact ih.trans (sub_regSendFail _ _ _)

theorem sub_removeQ (e : Engine) (q : Qid) : Sub e (removeQ e q) :=
  fun x hx => ⟨x, (List.mem_filter.mp hx).1, rfl, rfl, fun _ h => h⟩

/-- No query `q` in phase `lk` waits for `p`. -/
def Gone (e : Engine) (q : Qid) (lk : Bool) (p : Peer) : Prop :=
  ∀ x ∈ e, x.id = q → x.st.isLookup = lk → p ∉ x.st.pending

theorem Gone.sub {e e' : Engine} (hs : Sub e e') {q lk p} (h : Gone e q lk p) : Gone e' q lk p := by
  intro x' hx' hid hlk hp
  obtain ⟨x, hx, hi, hl, hpp⟩ := hs x' hx'
  exact h x hx (hi.trans hid) (hl.trans hlk) (hpp p hp)

theorem gone_updQ (e : Engine) (q : Qid) (f : QState → QState) (lk : Bool) (p : Peer)
    (hf : ∀ st, (f st).isLookup = lk → p ∉ (f st).pending) : Gone (updQ e q f) q lk p := by
  intro x' hx' hid hlk
  obtain ⟨x, _, hid', _, hst⟩ := mem_updQ hx'
  rcases hst with ⟨hne, _⟩ | ⟨_, hst⟩
  · exact absurd (hid'.symm.trans hid) hne
  · rw [hst] at hlk ⊢
    exact hf _ hlk

theorem gone_regRespDone (e q p) : Gone (regRespDone e q p) q true p := by
  apply gone_updQ
  intro st hlk
  cases st with
  | lookup k qu ps => simp [QState.respDone, QState.pending]
  | tracker b t => simp [QState.respDone, QState.isLookup] at hlk

theorem gone_regSendFail (e q p) : Gone (regSendFail e q p) q false p := by
  apply gone_updQ
  intro st hlk
  cases st with
  | lookup k qu ps => simp [QState.sendFail, QState.isLookup] at hlk
  | tracker b t =>
    simp only [QState.sendFail, Tracker.sendFailure, QState.pending]
    split
    · simp
    · assumption

theorem gone_regSendOk (e q p) : Gone (regSendOk e q p) q false p := by
  apply gone_updQ
  intro st hlk
  cases st with
  | lookup k qu ps => simp [QState.sendOk, QState.isLookup] at hlk
  | tracker b t =>
    simp only [QState.sendOk, Tracker.sendSuccess, QState.pending]
    split
    · simp
    · assumption

/-- `register_send_failure` + `register_response_failure`: whatever its phase, the query no longer
waits for the peer. -/
theorem gone_bothFail (e q p) (lk : Bool) : Gone (regRespDone (regSendFail e q p) q p) q lk p := by
  cases lk with
  | true => exact gone_regRespDone _ _ _
  | false => exact (gone_regSendFail e q p).sub (sub_regRespDone _ _ _)

theorem gone_peerFail (e q p) (lk : Bool) : Gone (regPeerFail e q p) q lk p := gone_bothFail e q p lk

theorem gone_respOfSendOk (e q p) (lk : Bool) : Gone (regRespDone (regSendOk e q p) q p) q lk p := by
  cases lk with
  | true => exact gone_regRespDone _ _ _
  | false => exact (gone_regSendOk e q p).sub (sub_regRespDone _ _ _)

/-! ## The invariant and its induction principle -/

/-- Every peer a live query waits for is owned (Prop form of `WaitingOwned`). -/
def WO (s : State) : Prop := ∀ x ∈ s.engine, ∀ p ∈ x.st.pending, Owned s x.id x.st.isLookup p

theorem WO_iff (s : State) : WaitingOwned s ↔ WO s := by
  unfold WaitingOwned waitingOwnedB WO
  simp only [List.all_eq_true, ownedB_iff]

/-- Every owner of `s` is still an owner in `s'`, or its query has been told. -/
def Transfers (s s' : State) : Prop :=
  ∀ q lk p, Owned s q lk p → Owned s' q lk p ∨ Gone s'.engine q lk p

theorem WO.preserve {s s' : State} (h : WO s)
    (hnew : ∀ x' ∈ s'.engine, ∀ p ∈ x'.st.pending,
      (∃ x ∈ s.engine, x.id = x'.id ∧ x.st.isLookup = x'.st.isLookup ∧ p ∈ x.st.pending) ∨
      Owned s' x'.id x'.st.isLookup p)
    (ht : Transfers s s') : WO s' := by
  intro x' hx' p hp
  rcases hnew x' hx' p hp with ⟨x, hx, hid, hlk, hpx⟩ | ho
  · rcases ht _ _ _ (h x hx p hpx) with ho | hg
    · rw [hid, hlk] at ho; exact ho
    · exact absurd hp (hg x' hx' hid.symm hlk.symm)
  · exact ho

theorem WO.preserve_sub {s s' : State} (h : WO s) (hs : Sub s.engine s'.engine) (ht : Transfers s s') : WO s' :=
  h.preserve (fun x' hx' p hp =>
    let ⟨x, hx, hid, hlk, hpp⟩ := hs x' hx'
    .inl ⟨x, hx, hid, hlk, hpp p hp⟩) ht

theorem Transfers.of_le {s s' : State} (h : OwnersLe s s') : Transfers s s' :=
  fun _ _ _ ho => .inl (ho.mono h)

/-! ## Auxiliary invariants -/

structure Aux (s : State) : Prop where
  ctxConn : ∀ p ∈ s.ctx, p ∈ s.connected
  subsLt : ∀ x ∈ s.pendingSubs, x.1 < s.nextSid
  subsNodup : (s.pendingSubs.map (·.1)).Nodup
  openLt : ∀ x ∈ s.opening, x.1 < s.nextSid
  openNodup : (s.opening.map (·.1)).Nodup
  actLt : ∀ a ∈ s.actions, a.2.1 < s.nextSid
  actNodup : (s.actions.map (·.2.1)).Nodup

theorem Aux.init : Aux {} := by
  constructor <;> simp

/-- Nothing new is tracked. -/
theorem Aux.of_sublist {s s' : State} (h : Aux s) (hc : ∀ p ∈ s'.ctx, p ∈ s'.connected)
    (h1 : s'.pendingSubs.Sublist s.pendingSubs) (h2 : s'.opening.Sublist s.opening)
    (h3 : s'.actions.Sublist s.actions) (hn : s'.nextSid = s.nextSid) : Aux s' :=
  ⟨hc, fun x hx => hn ▸ h.subsLt x (h1.subset hx), nodup_map_of_sublist _ h1 h.subsNodup,
   fun x hx => hn ▸ h.openLt x (h2.subset hx), nodup_map_of_sublist _ h2 h.openNodup,
   fun x hx => hn ▸ h.actLt x (h3.subset hx), nodup_map_of_sublist _ h3 h.actNodup⟩

/-- One accepted substream open is tracked under the next substream id. -/
theorem Aux.addSub {s s' : State} (h : Aux s) (p : Peer) (a : PAction) (hc : ∀ p ∈ s'.ctx, p ∈ s'.connected)
    (h1 : s'.pendingSubs = s.pendingSubs ++ [(s.nextSid, p)]) (h2 : s'.opening = s.opening ++ [(s.nextSid, p)])
    (h3 : s'.actions = s.actions ++ [(p, s.nextSid, a)]) (hn : s'.nextSid = s.nextSid + 1) : Aux s' := by
  refine ⟨hc, ?_, ?_, ?_, ?_, ?_, ?_⟩
  · rw [h1, hn]
    intro x hx
    rcases List.mem_append.mp hx with hx | hx
    · exact Nat.lt_succ_of_lt (h.subsLt x hx)
    · simp at hx; subst hx; exact Nat.lt_succ_self _
  · rw [h1]; exact nodup_map_append_fresh _ _ _ h.subsNodup h.subsLt
  · rw [h2, hn]
    intro x hx
    rcases List.mem_append.mp hx with hx | hx
    · exact Nat.lt_succ_of_lt (h.openLt x hx)
    · simp at hx; subst hx; exact Nat.lt_succ_self _
  · rw [h2]; exact nodup_map_append_fresh _ _ _ h.openNodup h.openLt
  · rw [h3, hn]
    intro x hx
    rcases List.mem_append.mp hx with hx | hx
    · exact Nat.lt_succ_of_lt (h.actLt x hx)
    · simp at hx; subst hx; exact Nat.lt_succ_self _
  · rw [h3]; exact nodup_map_append_fresh (fun a : Peer × Sid × PAction => a.2.1) _ _ h.actNodup h.actLt


/-- Fields identical, filtered or appended to. -/
macro "owners_le" : tactic =>
  `(tactic| (constructor <;> intro x hx <;>
      first
        | exact hx
        | exact (List.mem_filter.mp hx).1
        | exact List.mem_append_left _ hx
        | exact List.mem_append_left _ (List.mem_filter.mp hx).1))

/-! ## `disconnect_peer` -/

theorem disconnectPeer_sub (s : State) (p : Peer) (query : Option Qid) :
    Sub s.engine (disconnectPeer s p query).engine :=
  (disconnectPeer_shrinks s p query _ (.refl _)).sub

theorem peerFail_step_shrinks (p : Peer) (query : Option Qid) (e : Engine) (a : PAction) :
    Shrinks e (if some a.q ≠ query then regPeerFail e a.q p else e) := by
  split
  · exact Shrinks.peerFail _ _ _
  · exact .refl _

theorem foldl_peerFail_gone (p : Peer) (query : Option Qid) (l : List PAction) (e0 : Engine) (a : PAction)
    (ha : a ∈ l) (lk : Bool) (h0 : some a.q = query → Gone e0 a.q lk p) :
    Gone (l.foldl (fun e a => if some a.q ≠ query then regPeerFail e a.q p else e) e0) a.q lk p := by
  induction l generalizing e0 with
  | nil => exact absurd ha (by simp)
  | cons b l ih =>
    simp only [List.foldl_cons]
    rcases List.mem_cons.mp ha with hab | ha
    · subst hab
      refine Gone.sub (Shrinks.foldl _ (peerFail_step_shrinks p query) _ _).sub ?_
      split
      · exact gone_peerFail _ _ _ _
      · rename_i hq
        exact h0 (Classical.not_not.mp hq)
    · apply ih _ ha
      intro hq
      exact (h0 hq).sub (peerFail_step_shrinks p query e0 b).sub

theorem disconnectPeer_gone_action (s : State) (p : Peer) (query : Option Qid) (sid : Sid) (a : PAction)
    (ha : (p, sid, a) ∈ s.actions) (lk : Bool) : Gone (disconnectPeer s p query).engine a.q lk p := by
  unfold disconnectPeer
  simp only []
  apply foldl_peerFail_gone
  · exact List.mem_map.mpr ⟨(p, sid, a), List.mem_filter.mpr ⟨ha, by simp⟩, rfl⟩
  · intro hq
    subst hq
    exact gone_peerFail _ _ _ _

theorem disconnectPeer_gone_query (s : State) (p : Peer) (q : Qid) (lk : Bool) :
    Gone (disconnectPeer s p (some q)).engine q lk p := by
  unfold disconnectPeer
  simp only []
  exact Gone.sub (Shrinks.foldl _ (peerFail_step_shrinks p (some q)) _ _).sub (gone_peerFail _ _ _ _)

theorem disconnectPeer_transfers (s : State) (p : Peer) (query : Option Qid) :
    Transfers s (disconnectPeer s p query) := by
  intro q lk p' ho
  rcases ho with ⟨a, hd, h2, h3, h4⟩ | ⟨sid, a, ha, h2, h3, h4, h5, h6⟩ | ⟨k, hf, h3⟩
  · exact .inl (.inl ⟨a, hd, h2, h3, h4⟩)
  · by_cases hp : p' = p
    · subst hp
      exact .inr (h2 ▸ disconnectPeer_gone_action s p' query sid a ha lk)
    · refine .inl (.inr (.inl ⟨sid, a, ?_, h2, h3, h4, h5, ?_⟩))
      · exact List.mem_filter.mpr ⟨ha, by simp [hp]⟩
      · exact List.mem_filter.mpr ⟨h6, by simp [hp]⟩
  · exact .inl (.inr (.inr ⟨k, hf, h3⟩))

theorem Aux.disconnectPeer {s : State} (h : Aux s) (p : Peer) (query : Option Qid) :
    Aux (disconnectPeer s p query) :=
  h.of_sublist (fun p' hp' => h.ctxConn p' (List.mem_filter.mp hp').1) (List.Sublist.refl _) (List.Sublist.refl _)
    List.filter_sublist rfl

/-! ## Executor results -/

theorem owned_erase (s : State) (f : Fut) {q lk p} (ho : Owned s q lk p) :
    Owned { s with futs := s.futs.erase f } q lk p ∨ (f.peer = p ∧ f.q = q ∧ mF lk f.kind = true) := by
  rcases ho with ⟨a, hd, h2, h3, h4⟩ | ⟨sid, a, ha, h2, h3, h4, h5, h6⟩ | ⟨k, hf, h3⟩
  · exact .inl (.inl ⟨a, hd, h2, h3, h4⟩)
  · exact .inl (.inr (.inl ⟨sid, a, ha, h2, h3, h4, h5, h6⟩))
  · by_cases hff : (⟨p, q, k⟩ : Fut) = f
    · subst hff; exact .inr ⟨rfl, rfl, h3⟩
    · exact .inl (.inr (.inr ⟨k, (List.mem_erase_of_ne hff).mpr hf, h3⟩))

theorem execResult_transfers (s : State) (f : Fut) (r : Res) : Transfers s (execResult s f r) := by
  intro q lk p ho
  unfold execResult
  split
  · rename_i hg
    simp only []
    rcases owned_erase s f ho with h1 | ⟨hp, hq, hm⟩
    · cases r
      · exact .inl (h1.mono (by owners_le))
      · exact .inl (h1.mono (by owners_le))
      · exact disconnectPeer_transfers _ _ _ _ _ _ h1
      · exact .inl (h1.mono (by owners_le))
      · exact disconnectPeer_transfers _ _ _ _ _ _ h1
    · subst hp; subst hq
      have hal := hg.2
      cases r
      · have : lk = false := by
          cases hk : f.kind <;> cases lk <;> simp_all [Res.allowed, mF]
        subst this
        exact .inr (gone_regSendOk _ _ _)
      · have : lk = false := by
          cases hk : f.kind <;> cases lk <;> simp_all [Res.allowed, mF]
        subst this
        exact .inr (gone_regSendOk _ _ _)
      · exact .inr (disconnectPeer_gone_query _ _ _ _)
      · exact .inr (gone_respOfSendOk _ _ _ _)
      · exact .inr (disconnectPeer_gone_query _ _ _ _)
  · exact .inl ho

theorem execResult_sub (s : State) (f : Fut) (r : Res) : Sub s.engine (execResult s f r).engine := by
  rcases execResult_engine s f r with h | ⟨_, _, h, _⟩
  · exact h.sub
  · exact (sub_regSendOk _ _ _).trans h.sub

theorem Aux.execResult {s : State} (h : Aux s) (f : Fut) (r : Res) : Aux (execResult s f r) := by
  unfold Coordinator.execResult
  split
  · simp only []
    have h1 : Aux { s with futs := s.futs.erase f } :=
      h.of_sublist h.ctxConn (List.Sublist.refl _) (List.Sublist.refl _) (List.Sublist.refl _) rfl
    cases r
    · exact h.of_sublist h.ctxConn (List.Sublist.refl _) (List.Sublist.refl _) (List.Sublist.refl _) rfl
    · exact h.of_sublist h.ctxConn (List.Sublist.refl _) (List.Sublist.refl _) (List.Sublist.refl _) rfl
    · exact h1.disconnectPeer _ _
    · exact h.of_sublist h.ctxConn (List.Sublist.refl _) (List.Sublist.refl _) (List.Sublist.refl _) rfl
    · exact h1.disconnectPeer _ _
  · exact h


/-! ## Substream events -/

/-- `s` without what is tracked under substream id `sid` (for peer `p`). -/
def minusSid (s : State) (sid : Sid) (p : Peer) : State :=
  { s with opening := s.opening.filter (fun o => o.1 != sid)
           pendingSubs := s.pendingSubs.filter (fun x => x.1 != sid)
           actions := s.actions.filter (fun x => !(x.1 == p && x.2.1 == sid)) }

/-- An owner is either not tracked under `sid`, or it is the pending action of that substream. -/
theorem owned_split_sid (s : State) (sid : Sid) (p : Peer) {q lk p'} (ho : Owned s q lk p') :
    Owned (minusSid s sid p) q lk p' ∨
    (∃ a, (p', sid, a) ∈ s.actions ∧ a.q = q ∧ mA lk a.kind = true ∧ (sid, p') ∈ s.opening ∧
      (sid, p') ∈ s.pendingSubs ∧ p' ∈ s.ctx) := by
  rcases ho with ⟨a, hd, h2, h3, h4⟩ | ⟨sid', a, ha, h2, h3, h4, h5, h6⟩ | ⟨k, hf, h3⟩
  · exact .inl (.inl ⟨a, hd, h2, h3, h4⟩)
  · by_cases hs : sid' = sid
    · subst hs; exact .inr ⟨a, ha, h2, h3, h4, h5, h6⟩
    · refine .inl (.inr (.inl ⟨sid', a, ?_, h2, h3, ?_, ?_, h6⟩))
      · exact List.mem_filter.mpr ⟨ha, by simp [hs]⟩
      · exact List.mem_filter.mpr ⟨h4, by simp [hs]⟩
      · exact List.mem_filter.mpr ⟨h5, by simp [hs]⟩
  · exact .inl (.inr (.inr ⟨k, hf, h3⟩))

theorem opening_find (s : State) (hA : Aux s) (sid : Sid) (p : Peer) (h : (sid, p) ∈ s.opening) :
    s.opening.find? (fun o => o.1 == sid) = some (sid, p) :=
  find?_eq_of_unique _ _ _ h (by simp) (fun y hy hp =>
    eq_of_nodup_map (·.1) _ hA.openNodup y hy (sid, p) h (by simpa using hp))

theorem subs_find (s : State) (hA : Aux s) (sid : Sid) (p : Peer) (h : (sid, p) ∈ s.pendingSubs) :
    s.pendingSubs.find? (fun o => o.1 == sid) = some (sid, p) :=
  find?_eq_of_unique _ _ _ h (by simp) (fun y hy hp =>
    eq_of_nodup_map (·.1) _ hA.subsNodup y hy (sid, p) h (by simpa using hp))

theorem actions_find (s : State) (hA : Aux s) (sid : Sid) (p : Peer) (a : PAction) (h : (p, sid, a) ∈ s.actions) :
    s.actions.find? (fun x => x.1 == p && x.2.1 == sid) = some (p, sid, a) :=
  find?_eq_of_unique _ _ _ h (by simp) (fun y hy hp =>
    eq_of_nodup_map (fun x : Peer × Sid × PAction => x.2.1) _ hA.actNodup y hy (p, sid, a) h (by
      have := (Bool.and_eq_true _ _).mp hp
      simpa using this.2))

theorem findQ_of_mem {e : Engine} (hN : (ids e).Nodup) {x : Query} (hx : x ∈ e) : findQ e x.id = some x :=
  find?_eq_of_unique _ _ _ hx (by simp) (fun y hy hp =>
    eq_of_nodup_map (fun x : Query => x.id) e hN y hy x hx (by simpa using hp))

theorem gone_of_not_nextPeerAction {e : Engine} (hN : (ids e).Nodup) {q : Qid} {p : Peer}
    (h : nextPeerAction e q p = false) : Gone e q true p := by
  intro x hx hid hlk hp
  have hf := findQ_of_mem hN hx
  rw [hid] at hf
  unfold nextPeerAction at h
  rw [hf] at h
  obtain ⟨xi, xk, xs⟩ := x
  cases xs with
  | lookup k qu ps => simp [QState.pending] at hp; simp [hp] at h
  | tracker b t => simp [QState.isLookup] at hlk

theorem subOpened_le_minus (s : State) (sid : Sid) (p : Peer)
    (hfind : s.opening.find? (fun o => o.1 == sid) = some (sid, p)) :
    OwnersLe (minusSid s sid p) (subOpened s sid).1 := by
  unfold subOpened minusSid
  rw [hfind]
  simp only []
  split
  · split
    · owners_le
    · split
      · split <;> owners_le
      · owners_le
      · owners_le
  · owners_le

theorem subOpened_transfers (s : State) (sid : Sid) (hA : Aux s) (hN : (ids s.engine).Nodup) :
    Transfers s (subOpened s sid).1 := by
  intro q lk p' ho
  cases hfind : s.opening.find? (fun o => o.1 == sid) with
  | none =>
    unfold subOpened
    rw [hfind]
    exact .inl ho
  | some o =>
    obtain ⟨sid0, p⟩ := o
    have hs0 : sid0 = sid := by simpa using List.find?_some hfind
    subst hs0
    rcases owned_split_sid s sid0 p ho with h1 | ⟨a, ha, h2, h3, h4, h5, h6⟩
    · exact .inl (h1.mono (subOpened_le_minus s sid0 p hfind))
    · have hpp : p' = p := by
        have := opening_find s hA sid0 p' h4
        rw [hfind] at this
        simpa using this.symm
      subst hpp
      have hact : actionAt { s with opening := s.opening.filter (fun o => o.1 != sid0)
                                    pendingSubs := s.pendingSubs.filter (fun x => x.1 != sid0) } p' sid0 = some a := by
        unfold actionAt
        simp only []
        rw [actions_find s hA sid0 p' a ha]
        rfl
      unfold subOpened
      rw [hfind]
      simp only []
      rw [if_pos h6, hact]
      simp only []
      subst h2
      cases hk : a.kind with
      | findNode =>
        simp only []
        rw [hk] at h3
        have hlk : lk = true := h3
        subst hlk
        split
        · exact .inl (.inr (.inr ⟨.reqResp, by simp, rfl⟩))
        · rename_i hn
          exact .inr (gone_of_not_nextPeerAction hN (by simpa using hn))
      | putValue =>
        simp only []
        rw [hk] at h3
        exact .inl (.inr (.inr ⟨.putEat, by simp, h3⟩))
      | addProvider =>
        simp only []
        rw [hk] at h3
        exact .inl (.inr (.inr ⟨.sendMsg, by simp, h3⟩))

theorem Aux.subOpened {s : State} (h : Aux s) (sid : Sid) : Aux (subOpened s sid).1 := by
  unfold Coordinator.subOpened
  split
  · exact h
  · simp only []
    split
    · split
      · exact h.of_sublist h.ctxConn List.filter_sublist List.filter_sublist (List.Sublist.refl _) rfl
      · split
        · split <;> exact h.of_sublist h.ctxConn List.filter_sublist List.filter_sublist List.filter_sublist rfl
        · exact h.of_sublist h.ctxConn List.filter_sublist List.filter_sublist List.filter_sublist rfl
        · exact h.of_sublist h.ctxConn List.filter_sublist List.filter_sublist List.filter_sublist rfl
    · exact h.of_sublist h.ctxConn List.filter_sublist List.filter_sublist (List.Sublist.refl _) rfl


theorem subOpenFailure_transfers (s : State) (sid : Sid) (hA : Aux s) : Transfers s (subOpenFailure s sid) := by
  intro q lk p' ho
  cases hfind : s.opening.find? (fun o => o.1 == sid) with
  | none =>
    unfold subOpenFailure
    rw [hfind]
    exact .inl ho
  | some o =>
    cases hsub : s.pendingSubs.find? (fun x => x.1 == sid) with
    | none =>
      have hres : subOpenFailure s sid = { s with opening := s.opening.filter (fun o => o.1 != sid) } := by
        unfold subOpenFailure subPeer
        rw [hfind]
        simp only [hsub, Option.map_none]
      rw [hres]
      rcases owned_split_sid s sid 0 ho with h1 | ⟨a, ha, h2, h3, h4, h5, h6⟩
      · exact .inl (h1.mono (by unfold minusSid; owners_le))
      · rw [subs_find s hA sid p' h5] at hsub
        exact absurd hsub (by simp)
    | some sp =>
      obtain ⟨sid0, p⟩ := sp
      rcases owned_split_sid s sid p ho with h1 | ⟨a, ha, h2, h3, h4, h5, h6⟩
      · unfold subOpenFailure subPeer
        rw [hfind]
        simp only [hsub, Option.map_some]
        split
        · exact disconnectPeer_transfers _ _ _ _ _ _ h1
        · exact .inl (h1.mono (by unfold minusSid; owners_le))
      · have hpp : p = p' := by
          rw [subs_find s hA sid p' h5] at hsub
          simpa using (congrArg (fun o => o.map (·.2)) hsub).symm
        subst hpp
        have hact : actionAt { s with opening := s.opening.filter (fun o => o.1 != sid)
                                      pendingSubs := s.pendingSubs.filter (fun x => x.1 != sid) } p sid = some a := by
          unfold actionAt
          simp only []
          rw [actions_find s hA sid p a ha]
          rfl
        unfold subOpenFailure subPeer
        rw [hfind]
        simp only [hsub, Option.map_some]
        rw [if_pos h6, hact]
        subst h2
        exact .inr (disconnectPeer_gone_query _ _ _ _)

theorem Aux.subOpenFailure {s : State} (h : Aux s) (sid : Sid) : Aux (subOpenFailure s sid) := by
  unfold Coordinator.subOpenFailure
  split
  · exact h
  · simp only []
    split
    · exact h.of_sublist h.ctxConn (List.Sublist.refl _) List.filter_sublist (List.Sublist.refl _) rfl
    · split
      · apply Aux.disconnectPeer
        exact h.of_sublist h.ctxConn List.filter_sublist List.filter_sublist List.filter_sublist rfl
      · exact h.of_sublist h.ctxConn List.filter_sublist List.filter_sublist (List.Sublist.refl _) rfl

/-! ## Connection events -/

theorem closed_transfers (s : State) (p : Peer) : Transfers s (closed s p) := by
  intro q lk p' ho
  unfold closed
  split
  · have h1 : Owned { s with connected := s.connected.filter (· != p)
                             opening := s.opening.filter (fun o => o.2 != p) } q lk p' ∨
        (∃ sid a, (p, sid, a) ∈ s.actions ∧ a.q = q) := by
      rcases ho with ⟨a, hd, h2, h3, h4⟩ | ⟨sid, a, ha, h2, h3, h4, h5, h6⟩ | ⟨k, hf, h3⟩
      · exact .inl (.inl ⟨a, hd, h2, h3, h4⟩)
      · by_cases hp : p' = p
        · subst hp; exact .inr ⟨sid, a, ha, h2⟩
        · exact .inl (.inr (.inl ⟨sid, a, ha, h2, h3, List.mem_filter.mpr ⟨h4, by simp [hp]⟩, h5, h6⟩))
      · exact .inl (.inr (.inr ⟨k, hf, h3⟩))
    rcases h1 with h1 | ⟨sid, a, ha, h2⟩
    · exact disconnectPeer_transfers _ _ _ _ _ _ h1
    · by_cases hp : p' = p
      · subst hp; subst h2
        exact .inr (disconnectPeer_gone_action _ _ _ sid a ha lk)
      · -- an owner for another peer survives
        have h1' : Owned { s with connected := s.connected.filter (· != p)
                                  opening := s.opening.filter (fun o => o.2 != p) } q lk p' := by
          rcases ho with ⟨a, hd, h2, h3, h4⟩ | ⟨sid, a, ha, h2, h3, h4, h5, h6⟩ | ⟨k, hf, h3⟩
          · exact .inl ⟨a, hd, h2, h3, h4⟩
          · exact .inr (.inl ⟨sid, a, ha, h2, h3, List.mem_filter.mpr ⟨h4, by simp [hp]⟩, h5, h6⟩)
          · exact .inr (.inr ⟨k, hf, h3⟩)
        exact disconnectPeer_transfers _ _ _ _ _ _ h1'
  · exact .inl ho

theorem Aux.closed {s : State} (h : Aux s) (p : Peer) : Aux (closed s p) := by
  unfold Coordinator.closed
  split
  · have h1 : Aux (Coordinator.disconnectPeer s p none) := h.disconnectPeer p none
    refine ⟨?_, h1.subsLt, h1.subsNodup, ?_, ?_, h1.actLt, h1.actNodup⟩
    · intro p' hp'
      have := List.mem_filter.mp hp'
      exact List.mem_filter.mpr ⟨h.ctxConn p' this.1, this.2⟩
    · exact fun x hx => h.openLt x (List.mem_filter.mp hx).1
    · exact nodup_map_of_sublist _ List.filter_sublist h.openNodup
  · exact h

theorem foldl_bothFail_gone (p : Peer) (l : List PAction) (e0 : Engine) (a : PAction) (ha : a ∈ l) (lk : Bool) :
    Gone (l.foldl (fun e a => regRespDone (regSendFail e a.q p) a.q p) e0) a.q lk p := by
  induction l generalizing e0 with
  | nil => exact absurd ha (by simp)
  | cons b l ih =>
    simp only [List.foldl_cons]
    rcases List.mem_cons.mp ha with hab | ha
    · subst hab
      exact Gone.sub (Shrinks.foldl _ (fun e (a : PAction) => Shrinks.bothFail e a.q p) _ _).sub
        (gone_bothFail _ _ _ _)
    · exact ih _ ha

theorem dialFailure_transfers (s : State) (p : Peer) : Transfers s (dialFailure s p) := by
  intro q lk p' ho
  rcases ho with ⟨a, hd, h2, h3, h4⟩ | ⟨sid, a, ha, h2, h3, h4, h5, h6⟩ | ⟨k, hf, h3⟩
  · by_cases hp : p' = p
    · subst hp; subst h2
      refine .inr ?_
      unfold dialFailure
      simp only []
      apply foldl_bothFail_gone
      exact List.mem_map.mpr ⟨(p', a), List.mem_filter.mpr ⟨hd, by simp⟩, rfl⟩
    · exact .inl (.inl ⟨a, List.mem_filter.mpr ⟨hd, by simp [hp]⟩, h2, h3, List.mem_filter.mpr ⟨h4, by simp [hp]⟩⟩)
  · exact .inl (.inr (.inl ⟨sid, a, ha, h2, h3, h4, h5, h6⟩))
  · exact .inl (.inr (.inr ⟨k, hf, h3⟩))

theorem Aux.dialFailure {s : State} (h : Aux s) (p : Peer) : Aux (dialFailure s p) :=
  h.of_sublist h.ctxConn (List.Sublist.refl _) (List.Sublist.refl _) (List.Sublist.refl _) rfl


/-! ### `on_connection_established` -/

theorem drainDials_le (p : Peer) (s : State) (acts : List PAction) (outs : List Bool) :
    OwnersLe s (drainDials p s acts outs) := by
  induction acts generalizing s outs with
  | nil => exact OwnersLe.rfl' _
  | cons a as ih =>
    unfold drainDials
    split
    · exact OwnersLe.trans (by owners_le) (ih _ _)
    · exact OwnersLe.trans (by owners_le) (ih _ _)

theorem drainDials_ctx (p : Peer) (s : State) (acts : List PAction) (outs : List Bool) :
    (drainDials p s acts outs).ctx = s.ctx ∧ (drainDials p s acts outs).connected = s.connected := by
  induction acts generalizing s outs with
  | nil => exact ⟨rfl, rfl⟩
  | cons a as ih =>
    unfold drainDials
    split
    · exact ih _ _
    · exact ih _ _

/-- Every drained dial action is tracked as a pending substream open, or its query has been told. -/
theorem drainDials_owned (p : Peer) (s : State) (acts : List PAction) (outs : List Bool) (hctx : p ∈ s.ctx)
    (a : PAction) (ha : a ∈ acts) (lk : Bool) (hm : mA lk a.kind = true) :
    Owned (drainDials p s acts outs) a.q lk p ∨ Gone (drainDials p s acts outs).engine a.q lk p := by
  induction acts generalizing s outs with
  | nil => exact absurd ha (by simp)
  | cons b as ih =>
    unfold drainDials
    rcases List.mem_cons.mp ha with hab | ha
    · subst hab
      split
      · refine .inl (Owned.mono (drainDials_le _ _ _ _) ?_)
        exact .inr (.inl ⟨s.nextSid, a, by simp, rfl, hm, by simp, by simp, hctx⟩)
      · exact .inr (Gone.sub (drainDials_shrinks _ _ _ _ _ (.refl _)).sub (gone_bothFail _ _ _ _))
    · split
      · exact ih _ _ hctx ha
      · exact ih _ _ hctx ha

theorem Aux.drainDials {s : State} (h : Aux s) (p : Peer) (acts : List PAction) (outs : List Bool) :
    Aux (drainDials p s acts outs) := by
  induction acts generalizing s outs with
  | nil => exact h
  | cons a as ih =>
    unfold Coordinator.drainDials
    split
    · apply ih
      exact h.addSub p a h.ctxConn rfl rfl rfl rfl
    · apply ih
      exact h.of_sublist h.ctxConn (List.Sublist.refl _) (List.Sublist.refl _) (List.Sublist.refl _) rfl

theorem established_transfers (s : State) (p : Peer) (outs : List Bool) (hA : Aux s) :
    Transfers s (established s p outs) := by
  intro q lk p' ho
  unfold established
  split
  · exact .inl ho
  · rename_i hconn
    have hctx : p ∉ s.ctx := fun hc => hconn (hA.ctxConn p hc)
    unfold onConnectionEstablished
    simp only []
    rw [if_neg hctx]
    -- owners that are not dial actions of `p`
    have hsplit : (∀ s1 : State, s1.dials = s.dials.filter (fun d => d.1 != p) →
          s1.dialing = s.dialing.filter (· != p) → s1.actions = s.actions → s1.opening = s.opening →
          s1.pendingSubs = s.pendingSubs → (∀ x ∈ s.ctx, x ∈ s1.ctx) → s1.futs = s.futs → Owned s1 q lk p') ∨
        (p' = p ∧ ∃ a, (p, a) ∈ s.dials ∧ a.q = q ∧ mA lk a.kind = true) := by
      rcases ho with ⟨a, hd, h2, h3, h4⟩ | ⟨sid, a, ha, h2, h3, h4, h5, h6⟩ | ⟨k, hf, h3⟩
      · by_cases hp : p' = p
        · subst hp; exact .inr ⟨rfl, a, hd, h2, h3⟩
        · refine .inl (fun s1 e1 e2 _ _ _ _ _ => .inl ⟨a, ?_, h2, h3, ?_⟩)
          · rw [e1]; exact List.mem_filter.mpr ⟨hd, by simp [hp]⟩
          · rw [e2]; exact List.mem_filter.mpr ⟨h4, by simp [hp]⟩
      · refine .inl (fun s1 _ _ e3 e4 e5 e6 _ => .inr (.inl ⟨sid, a, ?_, h2, h3, ?_, ?_, e6 _ h6⟩))
        · rw [e3]; exact ha
        · rw [e4]; exact h4
        · rw [e5]; exact h5
      · refine .inl (fun s1 _ _ _ _ _ _ e7 => .inr (.inr ⟨k, ?_, h3⟩))
        rw [e7]; exact hf
    cases hda : dialActions { s with connected := s.connected ++ [p], dialing := s.dialing.filter (· != p) } p with
    | nil =>
      simp only []
      rcases hsplit with h1 | ⟨hp, a, hd, h2, h3⟩
      · -- the dial entries of other peers are untouched
        rcases ho with ⟨a, hd, h2, h3, h4⟩ | ⟨sid, a, ha, h2, h3, h4, h5, h6⟩ | ⟨k, hf, h3⟩
        · by_cases hp : p' = p
          · subst hp
            have : a ∈ dialActions { s with connected := s.connected ++ [p'], dialing := s.dialing.filter (· != p') } p' :=
              List.mem_map.mpr ⟨(p', a), List.mem_filter.mpr ⟨hd, by simp⟩, rfl⟩
            rw [hda] at this
            exact absurd this (by simp)
          · exact .inl (.inl ⟨a, hd, h2, h3, List.mem_filter.mpr ⟨h4, by simp [hp]⟩⟩)
        · exact .inl (.inr (.inl ⟨sid, a, ha, h2, h3, h4, h5, h6⟩))
        · exact .inl (.inr (.inr ⟨k, hf, h3⟩))
      · have : a ∈ dialActions { s with connected := s.connected ++ [p], dialing := s.dialing.filter (· != p) } p :=
          List.mem_map.mpr ⟨(p, a), List.mem_filter.mpr ⟨hd, by simp⟩, rfl⟩
        rw [hda] at this
        exact absurd this (by simp)
    | cons b bs =>
      simp only []
      rcases hsplit with h1 | ⟨hp, a, hd, h2, h3⟩
      · refine .inl (Owned.mono (drainDials_le _ _ _ _) ?_)
        exact h1 _ rfl rfl rfl rfl rfl (fun x hx => List.mem_append_left _ hx) rfl
      · subst hp; subst h2
        have hmem : a ∈ b :: bs := by
          rw [← hda]
          exact List.mem_map.mpr ⟨(p', a), List.mem_filter.mpr ⟨hd, by simp⟩, rfl⟩
        exact drainDials_owned p' _ (b :: bs) outs (by simp) a hmem lk h3

theorem Aux.established {s : State} (h : Aux s) (p : Peer) (outs : List Bool) : Aux (established s p outs) := by
  unfold Coordinator.established
  split
  · exact h
  · have h0 : Aux { s with connected := s.connected ++ [p], dialing := s.dialing.filter (· != p) } :=
      h.of_sublist (fun x hx => List.mem_append_left _ (h.ctxConn x hx)) (List.Sublist.refl _) (List.Sublist.refl _)
        (List.Sublist.refl _) rfl
    unfold onConnectionEstablished
    split
    · exact h0
    · simp only []
      split
      · exact h0
      · apply Aux.drainDials
        refine h.of_sublist ?_ (List.Sublist.refl _) (List.Sublist.refl _) (List.Sublist.refl _) rfl
        intro x hx
        rcases List.mem_append.mp hx with hx | hx
        · exact List.mem_append_left _ (h.ctxConn x hx)
        · exact List.mem_append_right _ hx

/-! ## `open_substream_or_dial` and the engine actions -/

theorem openSub_le (s : State) (p : Peer) (a : PAction) : OwnersLe s (openSub s p a) := by
  unfold openSub
  constructor <;> intro x hx <;> first | exact hx | exact List.mem_append_left _ hx | skip
  simp only []
  split
  · exact hx
  · exact List.mem_append_left _ hx

theorem openSub_owned (s : State) (p : Peer) (a : PAction) (lk : Bool) (hm : mA lk a.kind = true) :
    Owned (openSub s p a) a.q lk p := by
  refine .inr (.inl ⟨s.nextSid, a, by simp [openSub], rfl, hm, by simp [openSub], by simp [openSub], ?_⟩)
  unfold openSub
  simp only []
  split
  · assumption
  · simp

theorem Aux.openSub {s : State} (h : Aux s) (p : Peer) (a : PAction) (hp : p ∈ s.connected) : Aux (openSub s p a) := by
  refine h.addSub p a ?_ rfl rfl rfl rfl
  intro x hx
  unfold Coordinator.openSub at hx
  simp only [] at hx
  split at hx
  · exact h.ctxConn x hx
  · rcases List.mem_append.mp hx with hx | hx
    · exact h.ctxConn x hx
    · simp at hx; subst hx; exact hp

theorem osd_le (s : State) (p : Peer) (a : PAction) (o : OsdIn) : OwnersLe s (osd s p a o).1 := by
  unfold osd
  split
  · exact openSub_le ..
  · split
    · constructor <;> intro x hx <;> first | exact hx | exact List.mem_append_left _ hx | skip
      simp only []
      split
      · exact hx
      · exact List.mem_append_left _ hx
    · split
      · exact openSub_le ..
      · exact OwnersLe.rfl' _
    · exact OwnersLe.rfl' _

theorem osd_owned (s : State) (p : Peer) (a : PAction) (o : OsdIn) (lk : Bool) (hm : mA lk a.kind = true)
    (hok : (osd s p a o).2 = true) : Owned (osd s p a o).1 a.q lk p := by
  unfold osd at hok ⊢
  split
  · exact openSub_owned _ _ _ _ hm
  · rename_i h1
    rw [if_neg h1] at hok
    split
    · refine .inl ⟨a, by simp, rfl, hm, ?_⟩
      simp only []
      split
      · assumption
      · simp
    · rename_i hd
      rw [hd] at hok
      simp only [] at hok
      split
      · exact openSub_owned _ _ _ _ hm
      · rename_i h2
        rw [if_neg h2] at hok
        exact absurd hok (by simp)
    · rename_i hd
      rw [hd] at hok
      exact absurd hok (by simp)

theorem Aux.osd {s : State} (h : Aux s) (p : Peer) (a : PAction) (o : OsdIn) : Aux (osd s p a o).1 := by
  unfold Coordinator.osd
  split
  · rename_i h1; exact h.openSub p a h1.1
  · split
    · exact h.of_sublist h.ctxConn (List.Sublist.refl _) (List.Sublist.refl _) (List.Sublist.refl _) rfl
    · split
      · rename_i h2; exact h.openSub p a h2.1
      · exact h
    · exact h

theorem fanOut_le (k : AKind) (q : Qid) (s : State) (ps : List Peer) (outs : List OsdIn) :
    OwnersLe s (fanOut k q s ps outs).1 := by
  induction ps generalizing s outs with
  | nil => exact OwnersLe.rfl' _
  | cons p ps ih => simp only [fanOut]; exact (osd_le ..).trans (ih _ _)

/-- Every target of the fan-out is owned afterwards, or is in the list of failed targets. -/
theorem fanOut_owned (k : AKind) (q : Qid) (s : State) (ps : List Peer) (outs : List OsdIn) (lk : Bool)
    (hm : mA lk k = true) (p : Peer) (hp : p ∈ ps) :
    p ∈ (fanOut k q s ps outs).2 ∨ Owned (fanOut k q s ps outs).1 q lk p := by
  induction ps generalizing s outs with
  | nil => exact absurd hp (by simp)
  | cons p0 ps ih =>
    simp only [fanOut]
    by_cases hok : (osd s p0 ⟨k, q⟩ (outs.headD default)).2 = true
    · rw [if_pos hok]
      rcases List.mem_cons.mp hp with hpp | hp
      · subst hpp
        exact .inr (Owned.mono (fanOut_le ..) (osd_owned s p ⟨k, q⟩ _ lk hm hok))
      · exact ih _ _ hp
    · rw [if_neg hok]
      rcases List.mem_cons.mp hp with hpp | hp
      · subst hpp; exact .inl List.mem_cons_self
      · rcases ih (osd s p0 ⟨k, q⟩ (outs.headD default)).1 outs.tail hp with h | h
        · exact .inl (List.mem_cons_of_mem _ h)
        · exact .inr h

theorem Aux.fanOut {s : State} (h : Aux s) (k : AKind) (q : Qid) (ps : List Peer) (outs : List OsdIn) :
    Aux (fanOut k q s ps outs).1 := by
  induction ps generalizing s outs with
  | nil => exact h
  | cons p ps ih => simp only [Coordinator.fanOut]; exact ih (h.osd ..) _


/-! ## User commands and engine actions -/

theorem WO.of_same {s s' : State} (h : WO s) (he : s'.engine = s.engine) (hl : OwnersLe s s') : WO s' :=
  h.preserve_sub (he ▸ Sub.refl _) (Transfers.of_le hl)

theorem WO.startLookup {s : State} (h : WO s) (kind : QKind) (key : Nat) (quorum : Quorum) :
    WO (startLookup s kind key quorum) := by
  refine h.preserve ?_ (Transfers.of_le (by unfold Coordinator.startLookup; owners_le))
  intro x' hx' p hp
  unfold Coordinator.startLookup at hx'
  rcases List.mem_append.mp hx' with hx | hx
  · exact .inl ⟨x', hx, rfl, rfl, hp⟩
  · simp at hx; subst hx; simp [QState.pending] at hp

theorem WO.command {s : State} (h : WO s) (c : Cmd) : WO (command s c) := by
  cases c <;> simp only [Coordinator.command]
  · exact h.startLookup _ _ _
  · exact WO.startLookup (h.of_same rfl (by owners_le)) _ _ _
  · exact h.startLookup _ _ _
  · split
    · exact h.of_same rfl (by owners_le)
    · exact h.startLookup _ _ _
  · exact h.startLookup _ _ _
  · exact h.startLookup _ _ _

theorem Aux.command {s : State} (h : Aux s) (c : Cmd) : Aux (command s c) := by
  cases c <;> simp only [Coordinator.command, Coordinator.startLookup]
  all_goals first
    | exact h.of_sublist h.ctxConn (List.Sublist.refl _) (List.Sublist.refl _) (List.Sublist.refl _) rfl
    | (split <;> exact h.of_sublist h.ctxConn (List.Sublist.refl _) (List.Sublist.refl _) (List.Sublist.refl _) rfl)

theorem sendMessage_le (s : State) (q : Qid) (p : Peer) (o : OsdIn) : OwnersLe s (sendMessage s q p o) := by
  unfold sendMessage
  split
  · exact osd_le ..
  · exact (osd_le s p ⟨.findNode, q⟩ o).trans (by owners_le)

theorem Aux.sendMessage {s : State} (h : Aux s) (q : Qid) (p : Peer) (o : OsdIn) : Aux (sendMessage s q p o) := by
  unfold Coordinator.sendMessage
  split
  · exact h.osd ..
  · have := h.osd p ⟨.findNode, q⟩ o
    exact this.of_sublist this.ctxConn (List.Sublist.refl _) (List.Sublist.refl _) (List.Sublist.refl _) rfl

theorem foldl_sendFail_gone (q : Qid) (l : List Peer) (e0 : Engine) (p : Peer) (hp : p ∈ l) :
    Gone (l.foldl (fun e p => regSendFail e q p) e0) q false p := by
  induction l generalizing e0 with
  | nil => exact absurd hp (by simp)
  | cons b l ih =>
    simp only [List.foldl_cons]
    rcases List.mem_cons.mp hp with hpb | hp
    · subst hpb
      exact Gone.sub (Shrinks.foldl _ (fun e p => Shrinks.sendFail q p (.refl e)) _ _).sub (gone_regSendFail _ _ _)
    · exact ih _ hp

theorem send_classify {e : Engine} {q : Qid} {x0 : Query} (hx0 : x0 ∈ e) (hid0 : x0.id = q) {kind quorum ps}
    (hst0 : x0.st = .lookup kind quorum ps) (p : Peer) :
    ∀ x1 ∈ updQ e q (fun _ => .lookup kind quorum (ps ++ [p])), ∀ p' ∈ x1.st.pending,
      (∃ x ∈ e, x.id = x1.id ∧ x.st.isLookup = x1.st.isLookup ∧ p' ∈ x.st.pending) ∨
      (x1.id = q ∧ x1.st.isLookup = true ∧ p' = p) := by
  intro x1 hx1 p' hp'
  obtain ⟨x, hx, hid, _, hst⟩ := mem_updQ hx1
  rcases hst with ⟨_, hst⟩ | ⟨hq, hst⟩
  · exact .inl ⟨x, hx, hid.symm, by rw [hst], by rw [← hst]; exact hp'⟩
  · rw [hst] at hp'
    simp only [QState.pending] at hp'
    rcases List.mem_append.mp hp' with hps | hpp
    · refine .inl ⟨x0, hx0, by rw [hid0, hid, hq], by rw [hst, hst0]; rfl, ?_⟩
      rw [hst0]; exact hps
    · refine .inr ⟨by rw [hid, hq], by rw [hst]; rfl, by simpa using hpp⟩

theorem engineStep_inv {s s' : State} (hA : Aux s) (h : WO s) {act : EAct} {outs : List OsdIn}
    (hstep : engineStep s act outs = some s') : Aux s' ∧ WO s' := by
  unfold engineStep at hstep
  cases act with
  | send q p =>
    simp only at hstep
    split at hstep
    · rename_i qi key kind quorum ps hf
      split at hstep
      · exact absurd hstep (by simp)
      · injection hstep with hstep
        subst hstep
        have hx0 := findQ_mem hf
        refine ⟨?_, ?_⟩
        · apply Aux.sendMessage
          exact hA.of_sublist hA.ctxConn (List.Sublist.refl _) (List.Sublist.refl _) (List.Sublist.refl _) rfl
        refine h.preserve ?_ (Transfers.of_le (OwnersLe.trans (by owners_le) (sendMessage_le _ _ _ _)))
        intro x' hx' p' hp'
        unfold sendMessage at hx' ⊢
        split
        · rename_i hok
          rw [if_pos hok, osd_engine] at hx'
          rcases send_classify hx0.1 hx0.2 rfl p x' hx' p' hp' with hl | ⟨hid, hlk, hpp⟩
          · exact .inl hl
          · rw [hid, hlk, hpp]
            exact .inr (osd_owned _ p ⟨.findNode, q⟩ _ true rfl hok)
        · rename_i hok
          rw [if_neg hok] at hx'
          simp only [osd_engine] at hx'
          obtain ⟨x1, hx1, hid1, hlk1, hpp1⟩ :=
            ((sub_regSendFail _ q p).trans (sub_regRespDone _ q p)) x' hx'
          rcases send_classify hx0.1 hx0.2 rfl p x1 hx1 p' (hpp1 p' hp') with ⟨x, hx, hid, hlk, hpx⟩ | ⟨hid, hlk, hpp⟩
          · exact .inl ⟨x, hx, hid.trans hid1, hlk.trans hlk1, hpx⟩
          · exfalso
            subst hpp
            exact gone_bothFail _ q p' true x' hx' (hid1.symm.trans hid) (hlk1.symm.trans hlk) hp'
    · exact absurd hstep (by simp)
  | lookupDone q ok peers =>
    simp only at hstep
    split at hstep
    · rename_i qi key kind quorum ps hf
      have fin : ∀ ok, Aux (emit { s with engine := removeQ s.engine q } q ok) ∧
          WO (emit { s with engine := removeQ s.engine q } q ok) := fun ok =>
        ⟨hA.of_sublist hA.ctxConn (List.Sublist.refl _) (List.Sublist.refl _) (List.Sublist.refl _) rfl,
         h.preserve_sub (sub_removeQ _ _) (Transfers.of_le (by unfold emit; owners_le))⟩
      split at hstep
      · split at hstep
        · exact absurd hstep (by simp)
        · injection hstep with hstep; subst hstep; exact fin false
      · split at hstep
        · injection hstep with hstep; subst hstep; exact fin true
        · injection hstep with hstep; subst hstep; exact fin true
        · injection hstep with hstep; subst hstep; exact fin true
        · split at hstep
          · exact absurd hstep (by simp)
          · injection hstep with hstep
            subst hstep
            have hA0 : Aux { s with engine := removeQ s.engine q } :=
              hA.of_sublist hA.ctxConn (List.Sublist.refl _) (List.Sublist.refl _) (List.Sublist.refl _) rfl
            have hAf := hA0.fanOut (if kind = .addProvider then .addProvider else .putValue) q peers outs
            have hle : OwnersLe s (fanOut (if kind = .addProvider then .addProvider else .putValue) q
                { s with engine := removeQ s.engine q } peers outs).1 :=
              OwnersLe.trans (by owners_le) (fanOut_le ..)
            have hm : mA false (if kind = QKind.addProvider then AKind.addProvider else AKind.putValue) = true := by
              split <;> rfl
            refine ⟨hAf.of_sublist hAf.ctxConn (List.Sublist.refl _) (List.Sublist.refl _) (List.Sublist.refl _) rfl, ?_⟩
            refine h.preserve ?_ (Transfers.of_le (hle.trans (by unfold startTracking; owners_le)))
            intro x' hx' p' hp'
            have hsub := (Shrinks.foldl (fun e p => regSendFail e q p)
              (fun e p => Shrinks.sendFail q p (.refl e))
              (fanOut (if kind = .addProvider then .addProvider else .putValue) q
                { s with engine := removeQ s.engine q } peers outs).2
              ((fanOut (if kind = .addProvider then .addProvider else .putValue) q
                { s with engine := removeQ s.engine q } peers outs).1.engine ++
                [⟨q, key, .tracker (kind != .addProvider) (Tracker.new peers quorum)⟩])).sub
            obtain ⟨x, hx, hid, hlk, hpp⟩ := hsub x' hx'
            rcases List.mem_append.mp hx with hx | hx
            · rw [fanOut_engine] at hx
              exact .inl ⟨x, (List.mem_filter.mp hx).1, hid, hlk, hpp p' hp'⟩
            · simp only [List.mem_singleton] at hx
              subst hx
              have hpeers : p' ∈ peers := List.mem_eraseDups.mp (hpp p' hp')
              rcases fanOut_owned (if kind = .addProvider then .addProvider else .putValue) q
                { s with engine := removeQ s.engine q } peers outs false hm p' hpeers with hfail | hown
              · exfalso
                exact foldl_sendFail_gone q _ _ p' hfail x' hx' hid.symm hlk.symm hp'
              · rw [← hid, ← hlk]
                exact .inr (hown.mono (by unfold startTracking; owners_le))
    · exact absurd hstep (by simp)
  | partialResult q =>
    simp only at hstep
    split at hstep
    · injection hstep with hstep; subst hstep; exact ⟨hA, h⟩
    · exact absurd hstep (by simp)
  | trackerDone q =>
    simp only at hstep
    split at hstep
    · split at hstep
      · split at hstep
        · injection hstep with hstep
          subst hstep
          exact ⟨hA.of_sublist hA.ctxConn (List.Sublist.refl _) (List.Sublist.refl _) (List.Sublist.refl _) rfl,
            h.preserve_sub (sub_removeQ _ _) (Transfers.of_le (by unfold emit; owners_le))⟩
        · injection hstep with hstep
          subst hstep
          exact ⟨hA.of_sublist hA.ctxConn (List.Sublist.refl _) (List.Sublist.refl _) (List.Sublist.refl _) rfl,
            h.preserve_sub (sub_removeQ _ _) (Transfers.of_le (by unfold emit; owners_le))⟩
      · exact absurd hstep (by simp)
    · exact absurd hstep (by simp)

/-! ## Every reachable state -/

theorem step_inv {s s' : State} (hL : Ledger s) (hA : Aux s) (h : WO s) {l : Label} (hstep : step s l = some s') :
    Aux s' ∧ WO s' := by
  cases l with
  | cmd c => injection hstep with hstep; subst hstep; exact ⟨hA.command c, h.command c⟩
  | engine a outs => exact engineStep_inv hA h hstep
  | established p outs =>
    injection hstep with hstep; subst hstep
    exact ⟨hA.established p outs, h.preserve_sub (established_shrinks ..).sub (established_transfers s p outs hA)⟩
  | closed p =>
    injection hstep with hstep; subst hstep
    exact ⟨hA.closed p, h.preserve_sub (closed_shrinks ..).sub (closed_transfers s p)⟩
  | dialFailure p =>
    injection hstep with hstep; subst hstep
    exact ⟨hA.dialFailure p, h.preserve_sub (dialFailure_shrinks ..).sub (dialFailure_transfers s p)⟩
  | subOpened sid =>
    injection hstep with hstep; subst hstep
    exact ⟨hA.subOpened sid, h.preserve_sub (by rw [subOpened_engine]; exact Sub.refl _)
      (subOpened_transfers s sid hA hL.idsNodup)⟩
  | subOpenFailure sid =>
    injection hstep with hstep; subst hstep
    exact ⟨hA.subOpenFailure sid, h.preserve_sub (subOpenFailure_shrinks ..).sub (subOpenFailure_transfers s sid hA)⟩
  | result f r =>
    injection hstep with hstep; subst hstep
    exact ⟨hA.execResult f r, h.preserve_sub (execResult_sub s f r) (execResult_transfers s f r)⟩
  | inbound p =>
    injection hstep with hstep; subst hstep
    unfold inbound
    split
    · rename_i hp
      refine ⟨hA.of_sublist ?_ (List.Sublist.refl _) (List.Sublist.refl _) (List.Sublist.refl _) rfl,
        h.of_same rfl ?_⟩
      · intro x hx
        simp only [] at hx
        split at hx
        · exact hA.ctxConn x hx
        · rcases List.mem_append.mp hx with hx | hx
          · exact hA.ctxConn x hx
          · simp at hx; subst hx; exact hp
      · constructor <;> intro x hx <;> first | exact hx | skip
        simp only []
        split
        · exact hx
        · exact List.mem_append_left _ hx
    · exact ⟨hA, h⟩
  | inboundFailed p =>
    injection hstep with hstep; subst hstep
    exact ⟨hA.disconnectPeer p none, h.preserve_sub (disconnectPeer_sub s p none) (disconnectPeer_transfers s p none)⟩
  | setStored keys =>
    injection hstep with hstep; subst hstep
    exact ⟨hA.of_sublist hA.ctxConn (List.Sublist.refl _) (List.Sublist.refl _) (List.Sublist.refl _) rfl,
      h.of_same rfl (by owners_le)⟩

theorem inv_reachable {s : State} (h : Reachable s) : Aux s ∧ WO s := by
  induction h with
  | init => exact ⟨Aux.init, fun x hx => absurd hx (by simp)⟩
  | step l hr hstep ih => exact step_inv (Ledger.reachable hr) ih.1 ih.2 hstep

/-- **The ownership invariant holds in every reachable state.** -/
theorem waitingOwned_reachable {s : State} (h : Reachable s) : WaitingOwned s :=
  (WO_iff s).mpr (inv_reachable h).2

/-- `peers` (the coordinator's per-peer contexts) only has connected peers as keys … -/
theorem ctx_connected {s : State} (h : Reachable s) : ∀ p ∈ s.ctx, p ∈ s.connected := (inv_reachable h).1.ctxConn

/-- … hence the `Entry::Occupied` branch of `on_connection_established` ("connection already exists,
discarding opening substreams") is unreachable: `ConnectionEstablished` is only reported for a peer
without connection, and such a peer has no context. -/
theorem occupied_unreachable {s : State} (h : Reachable s) (p : Peer) (hp : p ∉ s.connected) : p ∉ s.ctx :=
  fun hc => hp (ctx_connected h p hc)


/-- Whatever `run` reaches is reachable (labels the engine cannot produce are skipped). -/
theorem reachable_run {s : State} (h : Reachable s) (ls : List Label) : Reachable (run s ls) := by
  induction ls generalizing s with
  | nil => exact h
  | cons l ls ih =>
    unfold run
    cases hs : step s l with
    | none => exact ih h
    | some s' => exact ih (.step l h hs)

end Litep2pVerif.Kad.Coordinator
