import Litep2pVerif.Model.Kad.Coordinator
/-!
Helper lemmas and invariants for the Kademlia coordinator model (C16).

* `Shrinks e e'`: `e'` is obtained from `e` by registering response/send failures only — what every
  handler except the engine actions, the user commands and the send-success results does to the engine.
* `Ledger`: the terminal-event ledger (ids unique, an id is live xor has one terminal event).
* `QuorumInv`: what a tracker counted is backed by send-success results.
-/
namespace Litep2pVerif.Kad.Coordinator

/-! ## Basic engine facts -/

def ids (e : Engine) : List Qid := e.map (·.id)

@[simp] theorem ids_updQ (e : Engine) (q : Qid) (f : QState → QState) : ids (updQ e q f) = ids e := by
  unfold ids updQ
  rw [List.map_map]
  apply List.map_congr_left
  intro x _
  by_cases h : x.id = q <;> simp [h]

@[simp] theorem ids_regRespDone (e q p) : ids (regRespDone e q p) = ids e := ids_updQ ..
@[simp] theorem ids_regSendFail (e q p) : ids (regSendFail e q p) = ids e := ids_updQ ..
@[simp] theorem ids_regSendOk (e q p) : ids (regSendOk e q p) = ids e := ids_updQ ..
@[simp] theorem ids_regPeerFail (e q p) : ids (regPeerFail e q p) = ids e := by simp [regPeerFail]

theorem mem_updQ {e : Engine} {q : Qid} {f : QState → QState} {x' : Query} (h : x' ∈ updQ e q f) :
    ∃ x ∈ e, x'.id = x.id ∧ x'.key = x.key ∧ ((x.id ≠ q ∧ x'.st = x.st) ∨ (x.id = q ∧ x'.st = f x.st)) := by
  unfold updQ at h
  rw [List.mem_map] at h
  obtain ⟨x, hx, rfl⟩ := h
  refine ⟨x, hx, ?_⟩
  by_cases hq : x.id = q <;> simp [hq]

/-- The only ways a handler other than an engine action shrinks the engine. -/
inductive Shrinks : Engine → Engine → Prop
  | refl (e) : Shrinks e e
  | respDone {e e'} (q p) : Shrinks e e' → Shrinks e (regRespDone e' q p)
  | sendFail {e e'} (q p) : Shrinks e e' → Shrinks e (regSendFail e' q p)

theorem Shrinks.trans {a b c : Engine} (h1 : Shrinks a b) (h2 : Shrinks b c) : Shrinks a c := by
  induction h2 with
  | refl => exact h1
  | respDone q p _ ih => exact .respDone q p ih
  | sendFail q p _ ih => exact .sendFail q p ih

theorem Shrinks.peerFail (e : Engine) (q p) : Shrinks e (regPeerFail e q p) :=
  .respDone q p (.sendFail q p (.refl e))

theorem Shrinks.bothFail (e : Engine) (q p) : Shrinks e (regRespDone (regSendFail e q p) q p) :=
  .respDone q p (.sendFail q p (.refl e))

theorem Shrinks.foldl {α} (g : Engine → α → Engine) (hg : ∀ e a, Shrinks e (g e a)) (l : List α) (e : Engine) :
    Shrinks e (l.foldl g e) := by
  induction l generalizing e with
  | nil => exact .refl e
  | cons a l ih => exact (hg e a).trans (ih (g e a))

theorem Shrinks.ids {e e' : Engine} (h : Shrinks e e') : ids e' = ids e := by
  induction h with
  | refl => rfl
  | respDone q p _ ih => simp [ih]
  | sendFail q p _ ih => simp [ih]

/-! ### Handlers only shrink -/

theorem disconnectPeer_shrinks (s : State) (p : Peer) (query : Option Qid) (e0 : Engine)
    (h0 : Shrinks e0 s.engine) : Shrinks e0 (disconnectPeer s p query).engine := by
  unfold disconnectPeer
  simp only []
  refine h0.trans (Shrinks.trans ?_ (Shrinks.foldl _ ?_ _ _))
  · cases query with
    | none => exact .refl _
    | some q => exact Shrinks.peerFail _ q p
  · intro e a
    split
    · exact Shrinks.peerFail _ _ _
    · exact .refl _

theorem drainDials_shrinks (p : Peer) (s : State) (acts : List PAction) (outs : List Bool) (e0 : Engine)
    (h0 : Shrinks e0 s.engine) : Shrinks e0 (drainDials p s acts outs).engine := by
  induction acts generalizing s outs with
  | nil => exact h0
  | cons a as ih =>
    unfold drainDials
    split
    · exact ih _ _ h0
    · exact ih _ _ (h0.trans (Shrinks.bothFail _ _ _))

theorem established_shrinks (s : State) (p : Peer) (outs : List Bool) :
    Shrinks s.engine (established s p outs).engine := by
  unfold established onConnectionEstablished
  split
  · exact .refl _
  · simp only []
    split
    · exact .refl _
    · split
      · exact .refl _
      · exact drainDials_shrinks _ _ _ _ _ (.refl _)

theorem closed_shrinks (s : State) (p : Peer) : Shrinks s.engine (closed s p).engine := by
  unfold closed
  split
  · exact disconnectPeer_shrinks _ _ _ _ (.refl _)
  · exact .refl _

theorem dialFailure_shrinks (s : State) (p : Peer) : Shrinks s.engine (dialFailure s p).engine := by
  unfold dialFailure
  exact Shrinks.foldl _ (fun e (a : PAction) => Shrinks.bothFail e a.q p) _ _

theorem subOpenFailure_shrinks (s : State) (sid : Sid) : Shrinks s.engine (subOpenFailure s sid).engine := by
  unfold subOpenFailure
  split
  · exact .refl _
  · simp only []
    split
    · exact .refl _
    · split
      · exact disconnectPeer_shrinks _ _ _ _ (.refl _)
      · exact .refl _

theorem subOpened_engine (s : State) (sid : Sid) : (subOpened s sid).1.engine = s.engine := by
  unfold subOpened
  split
  · rfl
  · simp only []
    split
    · split
      · rfl
      · split
        · split <;> rfl
        · rfl
        · rfl
    · rfl

theorem osd_engine (s : State) (p : Peer) (a : PAction) (o : OsdIn) : (osd s p a o).1.engine = s.engine := by
  unfold osd openSub
  split
  · rfl
  · split
    · rfl
    · split <;> rfl
    · rfl

theorem fanOut_engine (k : AKind) (q : Qid) (s : State) (ps : List Peer) (outs : List OsdIn) :
    (fanOut k q s ps outs).1.engine = s.engine := by
  induction ps generalizing s outs with
  | nil => rfl
  | cons p ps ih => simp only [fanOut]; rw [ih, osd_engine]

/-- Fields that only the user commands and the engine actions change. -/
structure SameLedger (s s' : State) : Prop where
  events : s'.events = s.events
  started : s'.started = s.started
  nextQid : s'.nextQid = s.nextQid
  successLog : s'.successLog = s.successLog
  sendResults : s'.sendResults = s.sendResults

theorem SameLedger.rfl' (s : State) : SameLedger s s := ⟨rfl, rfl, rfl, rfl, rfl⟩

theorem SameLedger.trans {a b c : State} (h1 : SameLedger a b) (h2 : SameLedger b c) : SameLedger a c :=
  ⟨h2.events.trans h1.events, h2.started.trans h1.started, h2.nextQid.trans h1.nextQid,
   h2.successLog.trans h1.successLog, h2.sendResults.trans h1.sendResults⟩

theorem disconnectPeer_same (s : State) (p : Peer) (query : Option Qid) : SameLedger s (disconnectPeer s p query) :=
  ⟨rfl, rfl, rfl, rfl, rfl⟩

theorem drainDials_same (p : Peer) (s : State) (acts : List PAction) (outs : List Bool) (s0 : State)
    (h0 : SameLedger s0 s) : SameLedger s0 (drainDials p s acts outs) := by
  induction acts generalizing s outs with
  | nil => exact h0
  | cons a as ih =>
    unfold drainDials
    split
    · exact ih _ _ (h0.trans ⟨rfl, rfl, rfl, rfl, rfl⟩)
    · exact ih _ _ (h0.trans ⟨rfl, rfl, rfl, rfl, rfl⟩)

theorem established_same (s : State) (p : Peer) (outs : List Bool) : SameLedger s (established s p outs) := by
  unfold established onConnectionEstablished
  split
  · exact .rfl' _
  · simp only []
    split
    · exact ⟨rfl, rfl, rfl, rfl, rfl⟩
    · split
      · exact ⟨rfl, rfl, rfl, rfl, rfl⟩
      · exact drainDials_same _ _ _ _ _ ⟨rfl, rfl, rfl, rfl, rfl⟩

theorem closed_same (s : State) (p : Peer) : SameLedger s (closed s p) := by
  unfold closed
  split
  · exact ⟨rfl, rfl, rfl, rfl, rfl⟩
  · exact .rfl' _

theorem dialFailure_same (s : State) (p : Peer) : SameLedger s (dialFailure s p) := ⟨rfl, rfl, rfl, rfl, rfl⟩

theorem subOpenFailure_same (s : State) (sid : Sid) : SameLedger s (subOpenFailure s sid) := by
  unfold subOpenFailure
  split
  · exact .rfl' _
  · simp only []
    split
    · exact ⟨rfl, rfl, rfl, rfl, rfl⟩
    · split
      · exact ⟨rfl, rfl, rfl, rfl, rfl⟩
      · exact ⟨rfl, rfl, rfl, rfl, rfl⟩

theorem subOpened_same (s : State) (sid : Sid) : SameLedger s (subOpened s sid).1 := by
  unfold subOpened
  split
  · exact .rfl' _
  · simp only []
    split
    · split
      · exact ⟨rfl, rfl, rfl, rfl, rfl⟩
      · split
        · split <;> exact ⟨rfl, rfl, rfl, rfl, rfl⟩
        · exact ⟨rfl, rfl, rfl, rfl, rfl⟩
        · exact ⟨rfl, rfl, rfl, rfl, rfl⟩
    · exact ⟨rfl, rfl, rfl, rfl, rfl⟩

theorem osd_same (s : State) (p : Peer) (a : PAction) (o : OsdIn) : SameLedger s (osd s p a o).1 := by
  unfold osd openSub
  split
  · exact ⟨rfl, rfl, rfl, rfl, rfl⟩
  · split
    · exact ⟨rfl, rfl, rfl, rfl, rfl⟩
    · split <;> exact ⟨rfl, rfl, rfl, rfl, rfl⟩
    · exact ⟨rfl, rfl, rfl, rfl, rfl⟩

theorem fanOut_same (k : AKind) (q : Qid) (s : State) (ps : List Peer) (outs : List OsdIn) (s0 : State)
    (h0 : SameLedger s0 s) : SameLedger s0 (fanOut k q s ps outs).1 := by
  induction ps generalizing s outs with
  | nil => exact h0
  | cons p ps ih => simp only [fanOut]; exact ih _ _ (h0.trans (osd_same ..))

theorem inbound_engine (s : State) (p : Peer) : (inbound s p).engine = s.engine := by
  unfold inbound; split <;> rfl

theorem inbound_same (s : State) (p : Peer) : SameLedger s (inbound s p) := by
  unfold inbound; split <;> exact ⟨rfl, rfl, rfl, rfl, rfl⟩

theorem execResult_same (s : State) (f : Fut) (r : Res) :
    (execResult s f r).events = s.events ∧ (execResult s f r).started = s.started ∧
    (execResult s f r).nextQid = s.nextQid ∧ (execResult s f r).successLog = s.successLog := by
  unfold execResult
  split
  · simp only []
    cases r <;> exact ⟨rfl, rfl, rfl, rfl⟩
  · exact ⟨rfl, rfl, rfl, rfl⟩

/-- The engine after an executor result: shrunk, possibly after one `register_send_success`. -/
theorem execResult_engine (s : State) (f : Fut) (r : Res) :
    Shrinks s.engine (execResult s f r).engine ∨
    (f ∈ s.futs ∧ (r = .sendOk ∨ r = .assumeOk ∨ r = .readOk) ∧
      Shrinks (regSendOk s.engine f.q f.peer) (execResult s f r).engine ∧
      (execResult s f r).sendResults = (f.q, f.peer, f.kind) :: s.sendResults) := by
  unfold execResult
  split
  · rename_i h
    simp only []
    cases r
    · exact .inr ⟨h.1, .inl rfl, .refl _, rfl⟩
    · exact .inr ⟨h.1, .inr (.inl rfl), .refl _, rfl⟩
    · exact .inl (disconnectPeer_shrinks _ _ _ _ (.refl _))
    · exact .inr ⟨h.1, .inr (.inr rfl), .respDone _ _ (.refl _), rfl⟩
    · exact .inl (disconnectPeer_shrinks _ _ _ _ (.refl _))
  · exact .inl (.refl _)

theorem execResult_sendResults_mono (s : State) (f : Fut) (r : Res) :
    ∀ x ∈ s.sendResults, x ∈ (execResult s f r).sendResults := by
  intro x hx
  unfold execResult
  split
  · simp only []
    cases r <;> simp_all [disconnectPeer]
  · exact hx

/-! ## The terminal-event ledger -/

structure Ledger (s : State) : Prop where
  idsNodup : (ids s.engine).Nodup
  idsLt : ∀ q ∈ ids s.engine, q < s.nextQid
  evNodup : (s.events.map (·.1)).Nodup
  evLt : ∀ q ∈ s.events.map (·.1), q < s.nextQid
  disjoint : ∀ q ∈ s.events.map (·.1), q ∉ ids s.engine
  accounted : ∀ q, q ∈ s.started ↔ (q ∈ ids s.engine ∨ q ∈ s.events.map (·.1))

theorem Ledger.init : Ledger {} := by
  constructor <;> simp [ids]

theorem Ledger.of_same {s s' : State} (h : Ledger s) (hs : SameLedger s s') (hi : ids s'.engine = ids s.engine) :
    Ledger s' := by
  obtain ⟨h1, h2, h3, h4, h5, h6⟩ := h
  constructor
  · rw [hi]; exact h1
  · rw [hi, hs.nextQid]; exact h2
  · rw [hs.events]; exact h3
  · rw [hs.events, hs.nextQid]; exact h4
  · rw [hs.events, hi]; exact h5
  · rw [hs.events, hi, hs.started]; exact h6

theorem Ledger.of_same' {s s' : State} (h : Ledger s) (he : s'.events = s.events) (hst : s'.started = s.started)
    (hn : s'.nextQid = s.nextQid) (hi : ids s'.engine = ids s.engine) : Ledger s' := by
  obtain ⟨h1, h2, h3, h4, h5, h6⟩ := h
  constructor
  · rw [hi]; exact h1
  · rw [hi, hn]; exact h2
  · rw [he]; exact h3
  · rw [he, hn]; exact h4
  · rw [he, hi]; exact h5
  · rw [he, hi, hst]; exact h6

theorem ids_removeQ (e : Engine) (q : Qid) : ids (removeQ e q) = (ids e).filter (· != q) := by
  unfold ids removeQ
  induction e with
  | nil => rfl
  | cons x xs ih =>
    simp only [List.filter_cons, List.map_cons]
    by_cases h : x.id = q <;> simp [h, ih]

theorem findQ_mem {e : Engine} {q : Qid} {x : Query} (h : findQ e q = some x) : x ∈ e ∧ x.id = q := by
  unfold findQ at h
  exact ⟨List.mem_of_find?_eq_some h, by simpa using List.find?_some h⟩

/-- A live query ends: it leaves the engine and gets its terminal event. -/
theorem Ledger.finish {s : State} (h : Ledger s) {q : Qid} (hq : q ∈ ids s.engine) (ok : Bool) (s1 : State)
    (he : s1.engine = removeQ s.engine q) (hs : SameLedger s s1) : Ledger (emit s1 q ok) := by
  obtain ⟨h1, h2, h3, h4, h5, h6⟩ := h
  have hid : ids s1.engine = (ids s.engine).filter (· != q) := by rw [he, ids_removeQ]
  unfold emit
  constructor
  · simp only [hid]; exact h1.filter _
  · simp only [hid, hs.nextQid]
    intro x hx
    exact h2 x (List.mem_filter.mp hx).1
  · simp only [hs.events, List.map_append, List.map_cons, List.map_nil]
    rw [List.nodup_append]
    refine ⟨h3, by simp, ?_⟩
    intro a ha b hb
    simp at hb
    subst hb
    intro hab
    subst hab
    exact h5 a ha hq
  · simp only [hs.events, hs.nextQid, List.map_append, List.map_cons, List.map_nil, List.mem_append,
      List.mem_singleton]
    rintro x (hx | rfl)
    · exact h4 x hx
    · exact h2 x hq
  · simp only [hs.events, hid, List.map_append, List.map_cons, List.map_nil, List.mem_append,
      List.mem_singleton, List.mem_filter]
    rintro x (hx | rfl)
    · exact fun hc => h5 x hx hc.1
    · simp
  · intro x
    simp only [hs.events, hs.started, hid, List.map_append, List.map_cons, List.map_nil, List.mem_append,
      List.mem_singleton, List.mem_filter]
    rw [h6 x]
    by_cases hx : x = q
    · subst hx; simp [hq]
    · simp [hx]

theorem Ledger.finish' {s : State} (h : Ledger s) {q : Qid} (hq : q ∈ ids s.engine) (ok : Bool) :
    Ledger (emit { s with engine := removeQ s.engine q } q ok) :=
  h.finish hq ok { s with engine := removeQ s.engine q } rfl ⟨rfl, rfl, rfl, rfl, rfl⟩

theorem Ledger.startLookup {s : State} (h : Ledger s) (kind : QKind) (key : Nat) (quorum : Quorum) :
    Ledger (startLookup s kind key quorum) := by
  obtain ⟨h1, h2, h3, h4, h5, h6⟩ := h
  unfold Coordinator.startLookup
  constructor <;> dsimp only
  · simp only [ids, List.map_append, List.map_cons, List.map_nil]
    rw [List.nodup_append]
    refine ⟨h1, by simp, ?_⟩
    intro a ha b hb
    simp at hb
    subst hb
    intro hab
    subst hab
    exact Nat.lt_irrefl _ (h2 _ ha)
  · simp only [ids, List.map_append, List.map_cons, List.map_nil, List.mem_append, List.mem_singleton]
    rintro x (hx | rfl)
    · exact Nat.lt_succ_of_lt (h2 x hx)
    · exact Nat.lt_succ_self _
  · exact h3
  · intro x hx; exact Nat.lt_succ_of_lt (h4 x hx)
  · simp only [ids, List.map_append, List.map_cons, List.map_nil, List.mem_append, List.mem_singleton]
    intro x hx
    rintro (hc | rfl)
    · exact h5 x hx hc
    · exact Nat.lt_irrefl _ (h4 _ hx)
  · intro x
    simp only [ids, List.map_append, List.map_cons, List.map_nil, List.mem_append, List.mem_singleton]
    have := h6 x
    simp only [ids] at this
    rw [this]
    constructor
    · rintro ((a | b) | c)
      · exact .inl (.inl a)
      · exact .inr b
      · exact .inl (.inr c)
    · rintro ((a | c) | b)
      · exact .inl (.inl a)
      · exact .inr c
      · exact .inl (.inr b)

theorem Ledger.setSuccessLog {s : State} (h : Ledger s) (l : List SuccessRec) : Ledger { s with successLog := l } :=
  ⟨h.idsNodup, h.idsLt, h.evNodup, h.evLt, h.disjoint, h.accounted⟩

theorem Ledger.setStored {s : State} (h : Ledger s) (st : List Nat) : Ledger { s with stored := st } :=
  h.of_same ⟨rfl, rfl, rfl, rfl, rfl⟩ rfl

theorem Ledger.immediate {s : State} (h : Ledger s) :
    Ledger { s with started := s.started ++ [s.nextQid], nextQid := s.nextQid + 1
                    events := s.events ++ [(s.nextQid, true)] } := by
  obtain ⟨h1, h2, h3, h4, h5, h6⟩ := h
  constructor <;> dsimp only
  · exact h1
  · intro x hx; exact Nat.lt_succ_of_lt (h2 x hx)
  · simp only [List.map_append, List.map_cons, List.map_nil]
    rw [List.nodup_append]
    refine ⟨h3, by simp, ?_⟩
    intro a ha b hb
    simp at hb
    subst hb
    intro hab
    subst hab
    exact Nat.lt_irrefl _ (h4 _ ha)
  · simp only [List.map_append, List.map_cons, List.map_nil, List.mem_append, List.mem_singleton]
    rintro x (hx | rfl)
    · exact Nat.lt_succ_of_lt (h4 x hx)
    · exact Nat.lt_succ_self _
  · simp only [List.map_append, List.map_cons, List.map_nil, List.mem_append, List.mem_singleton]
    rintro x (hx | rfl)
    · exact h5 x hx
    · exact fun hc => Nat.lt_irrefl _ (h2 _ hc)
  · intro x
    simp only [List.map_append, List.map_cons, List.map_nil, List.mem_append, List.mem_singleton]
    rw [h6 x]
    constructor
    · rintro ((a | b) | c)
      · exact .inl a
      · exact .inr (.inl b)
      · exact .inr (.inr c)
    · rintro (a | b | c)
      · exact .inl (.inl a)
      · exact .inl (.inr b)
      · exact .inr c

theorem Ledger.command {s : State} (h : Ledger s) (c : Cmd) : Ledger (command s c) := by
  cases c <;> simp only [Coordinator.command]
  · exact h.startLookup ..
  · exact (h.setStored _).startLookup ..
  · exact h.startLookup ..
  · split
    · exact h.immediate
    · exact h.startLookup ..
  · exact h.startLookup ..
  · exact h.startLookup ..

theorem startTracking_ids (r : State × List Peer) (q key isPut peers quorum) :
    ids (startTracking r q key isPut peers quorum).engine = ids r.1.engine ++ [q] := by
  unfold startTracking
  simp only []
  rw [(Shrinks.foldl _ (fun e p => Shrinks.sendFail q p (.refl e)) _ _).ids]
  simp [ids]

theorem startTracking_same (r : State × List Peer) (q key isPut peers quorum) (s0 : State)
    (h0 : SameLedger s0 r.1) : SameLedger s0 (startTracking r q key isPut peers quorum) :=
  h0.trans ⟨rfl, rfl, rfl, rfl, rfl⟩

/-- The fan-out: the lookup is replaced by a tracker with the same id, no event. -/
theorem Ledger.refan {s s' : State} (h : Ledger s) {q : Qid} (hq : q ∈ ids s.engine) (hs : SameLedger s s')
    (hi : ids s'.engine = (ids s.engine).filter (· != q) ++ [q]) : Ledger s' := by
  obtain ⟨h1, h2, h3, h4, h5, h6⟩ := h
  constructor
  · rw [hi, List.nodup_append]
    refine ⟨h1.filter _, by simp, ?_⟩
    intro a ha b hb
    simp at hb
    subst hb
    simp at ha
    exact ha.2
  · rw [hi, hs.nextQid]
    simp only [List.mem_append, List.mem_filter, List.mem_singleton]
    rintro x (hx | rfl)
    · exact h2 x hx.1
    · exact h2 x hq
  · rw [hs.events]; exact h3
  · rw [hs.events, hs.nextQid]; exact h4
  · rw [hs.events, hi]
    simp only [List.mem_append, List.mem_filter, List.mem_singleton]
    intro x hx
    rintro (hc | rfl)
    · exact h5 x hx hc.1
    · exact h5 x hx hq
  · intro x
    rw [hs.events, hs.started, hi, h6 x]
    simp only [List.mem_append, List.mem_filter, List.mem_singleton]
    by_cases hx : x = q
    · subst hx; simp [hq]
    · simp [hx]

theorem sendMessage_shrinks (s : State) (q : Qid) (p : Peer) (o : OsdIn) (e0 : Engine)
    (h0 : Shrinks e0 s.engine) : Shrinks e0 (sendMessage s q p o).engine := by
  unfold sendMessage
  split
  · rw [osd_engine]; exact h0
  · simp only [osd_engine]; exact h0.trans (Shrinks.bothFail ..)

theorem sendMessage_same (s : State) (q : Qid) (p : Peer) (o : OsdIn) (s0 : State) (h0 : SameLedger s0 s) :
    SameLedger s0 (sendMessage s q p o) := by
  unfold sendMessage
  split
  · exact h0.trans (osd_same ..)
  · exact h0.trans ((osd_same s p ⟨.findNode, q⟩ o).trans ⟨rfl, rfl, rfl, rfl, rfl⟩)

theorem Ledger.engineStep {s s' : State} (h : Ledger s) {act : EAct} {outs : List OsdIn}
    (hstep : engineStep s act outs = some s') : Ledger s' := by
  unfold Coordinator.engineStep at hstep
  cases act with
  | send q p =>
    simp only at hstep
    split at hstep
    · rename_i kind quorum ps hf
      split at hstep
      · exact absurd hstep (by simp)
      · injection hstep with hstep
        subst hstep
        refine h.of_same (sendMessage_same _ _ _ _ _ ⟨rfl, rfl, rfl, rfl, rfl⟩) ?_
        rw [(sendMessage_shrinks _ _ _ _ _ (.refl _)).ids]
        simp
    · exact absurd hstep (by simp)
  | lookupDone q ok peers =>
    simp only at hstep
    split at hstep
    · rename_i key kind quorum ps hf
      have hq : q ∈ ids s.engine := by
        have := findQ_mem hf
        exact List.mem_map.mpr ⟨_, this.1, this.2⟩
      split at hstep
      · split at hstep
        · exact absurd hstep (by simp)
        · injection hstep with hstep
          subst hstep
          exact h.finish' hq false
      · split at hstep
        · injection hstep with hstep; subst hstep; exact h.finish' hq true
        · injection hstep with hstep; subst hstep; exact h.finish' hq true
        · injection hstep with hstep; subst hstep; exact h.finish' hq true
        · split at hstep
          · exact absurd hstep (by simp)
          · injection hstep with hstep
            subst hstep
            refine h.refan hq ?_ ?_
            · exact startTracking_same _ _ _ _ _ _ _ (fanOut_same _ _ _ _ _ _ ⟨rfl, rfl, rfl, rfl, rfl⟩)
            · rw [startTracking_ids, fanOut_engine, ids_removeQ]
    · exact absurd hstep (by simp)
  | partialResult q =>
    simp only at hstep
    split at hstep
    · injection hstep with hstep; subst hstep; exact h
    · exact absurd hstep (by simp)
  | trackerDone q =>
    simp only at hstep
    split at hstep
    · rename_i key b t hf
      have hq : q ∈ ids s.engine := by
        have := findQ_mem hf
        exact List.mem_map.mpr ⟨_, this.1, this.2⟩
      split at hstep
      · split at hstep
        · injection hstep with hstep
          subst hstep
          exact (h.finish' hq _).setSuccessLog _
        · injection hstep with hstep
          subst hstep
          exact h.finish' hq _
      · exact absurd hstep (by simp)
    · exact absurd hstep (by simp)

theorem execResult_ids (s : State) (f : Fut) (r : Res) : ids (execResult s f r).engine = ids s.engine := by
  rcases execResult_engine s f r with h | ⟨_, _, h, _⟩
  · exact h.ids
  · rw [h.ids]; simp

theorem Ledger.step {s s' : State} (h : Ledger s) {l : Label} (hstep : step s l = some s') : Ledger s' := by
  cases l with
  | cmd c => injection hstep with hstep; subst hstep; exact h.command c
  | engine a outs => exact h.engineStep hstep
  | established p outs =>
    injection hstep with hstep; subst hstep
    exact h.of_same (established_same ..) (established_shrinks ..).ids
  | closed p =>
    injection hstep with hstep; subst hstep
    exact h.of_same (closed_same ..) (closed_shrinks ..).ids
  | dialFailure p =>
    injection hstep with hstep; subst hstep
    exact h.of_same (dialFailure_same ..) (dialFailure_shrinks ..).ids
  | subOpened sid =>
    injection hstep with hstep; subst hstep
    exact h.of_same (subOpened_same ..) (by rw [subOpened_engine])
  | subOpenFailure sid =>
    injection hstep with hstep; subst hstep
    exact h.of_same (subOpenFailure_same ..) (subOpenFailure_shrinks ..).ids
  | result f r =>
    injection hstep with hstep; subst hstep
    have hs := execResult_same s f r
    exact h.of_same' hs.1 hs.2.1 hs.2.2.1 (execResult_ids ..)
  | inbound p =>
    injection hstep with hstep; subst hstep
    exact h.of_same (inbound_same ..) (by rw [inbound_engine])
  | inboundFailed p =>
    injection hstep with hstep; subst hstep
    exact h.of_same (disconnectPeer_same ..) (disconnectPeer_shrinks _ _ _ _ (.refl _)).ids
  | setStored keys =>
    injection hstep with hstep; subst hstep
    exact h.setStored keys

theorem Ledger.reachable {s : State} (h : Reachable s) : Ledger s := by
  induction h with
  | init => exact Ledger.init
  | step l _ hstep ih => exact ih.step hstep

/-! ## What a tracker counted is backed by send-success results -/

abbrev SendLog := List (Qid × Peer × FKind)

def TrackerOk (sr : SendLog) (q : Qid) (t : Tracker) : Prop :=
  t.counted.length = t.nSucceeded ∧ t.peersToSucceed = clampQuorum t.quorum t.nTargets ∧ t.counted.Nodup ∧
  (∀ p ∈ t.counted, p ∉ t.pending) ∧ (∀ p ∈ t.counted, ∃ k, k ≠ .reqResp ∧ (q, p, k) ∈ sr)

def StOk (sr : SendLog) (q : Qid) : QState → Prop
  | .tracker _ t => TrackerOk sr q t
  | .lookup .. => True

def EngOk (sr : SendLog) (e : Engine) : Prop := ∀ x ∈ e, StOk sr x.id x.st

def LogOk (sr : SendLog) (l : List SuccessRec) : Prop :=
  ∀ r ∈ l, clampQuorum r.quorum r.nTargets ≤ r.counted.length ∧ r.counted.Nodup ∧
    ∀ p ∈ r.counted, ∃ k, k ≠ .reqResp ∧ (r.q, p, k) ∈ sr

structure QuorumInv (s : State) : Prop where
  eng : EngOk s.sendResults s.engine
  log : LogOk s.sendResults s.successLog

theorem StOk.mono {sr sr' : SendLog} (h : ∀ x ∈ sr, x ∈ sr') {q : Qid} {st : QState} (hs : StOk sr q st) :
    StOk sr' q st := by
  cases st with
  | lookup => trivial
  | tracker b t =>
    obtain ⟨h1, h2, h3, h4, h5⟩ := hs
    exact ⟨h1, h2, h3, h4, fun p hp => let ⟨k, hk, hm⟩ := h5 p hp; ⟨k, hk, h _ hm⟩⟩

theorem StOk.respDone {sr : SendLog} {q : Qid} {st : QState} (p : Peer) (hs : StOk sr q st) :
    StOk sr q (st.respDone p) := by
  cases st with
  | lookup => trivial
  | tracker b t => exact hs

theorem StOk.sendFail {sr : SendLog} {q : Qid} {st : QState} (p : Peer) (hs : StOk sr q st) :
    StOk sr q (st.sendFail p) := by
  cases st with
  | lookup => trivial
  | tracker b t =>
    obtain ⟨h1, h2, h3, h4, h5⟩ := hs
    simp only [QState.sendFail, Tracker.sendFailure]
    split
    · refine ⟨h1, h2, h3, ?_, h5⟩
      intro p' hp' hc
      exact h4 p' hp' (List.mem_filter.mp hc).1
    · exact ⟨h1, h2, h3, h4, h5⟩

theorem StOk.sendOk {sr : SendLog} {q : Qid} {st : QState} (p : Peer) (hs : StOk sr q st)
    (hw : p ∈ st.pending → st.isLookup = false → ∃ k, k ≠ .reqResp ∧ (q, p, k) ∈ sr) : StOk sr q (st.sendOk p) := by
  cases st with
  | lookup => trivial
  | tracker b t =>
    obtain ⟨h1, h2, h3, h4, h5⟩ := hs
    simp only [QState.sendOk, Tracker.sendSuccess]
    split
    · rename_i hp
      refine ⟨by simp [h1], h2, ?_, ?_, ?_⟩
      · exact List.nodup_cons.mpr ⟨fun hc => h4 p hc hp, h3⟩
      · intro p' hp' hc
        have hf := List.mem_filter.mp hc
        rcases List.mem_cons.mp hp' with rfl | hp'
        · simp at hf
        · exact h4 p' hp' hf.1
      · intro p' hp'
        rcases List.mem_cons.mp hp' with rfl | hp'
        · exact hw hp rfl
        · exact h5 p' hp'
    · exact ⟨h1, h2, h3, h4, h5⟩

theorem EngOk.updQ {sr : SendLog} {e : Engine} (h : EngOk sr e) (q : Qid) (f : QState → QState)
    (hf : ∀ st, StOk sr q st → StOk sr q (f st)) : EngOk sr (updQ e q f) := by
  intro x' hx'
  obtain ⟨x, hx, hid, _, hst⟩ := mem_updQ hx'
  rcases hst with ⟨_, hst⟩ | ⟨hq, hst⟩
  · rw [hid, hst]; exact h x hx
  · rw [hid, hst, hq]; exact hf _ (hq ▸ h x hx)

theorem EngOk.updQ' {sr : SendLog} {e : Engine} (h : EngOk sr e) (q : Qid) (f : QState → QState)
    (hf : ∀ x ∈ e, x.id = q → StOk sr q x.st → StOk sr q (f x.st)) : EngOk sr (Coordinator.updQ e q f) := by
  intro x' hx'
  obtain ⟨x, hx, hid, _, hst⟩ := mem_updQ hx'
  rcases hst with ⟨_, hst⟩ | ⟨hq, hst⟩
  · rw [hid, hst]; exact h x hx
  · rw [hid, hst, hq]; exact hf x hx hq (hq ▸ h x hx)

theorem EngOk.shrinks {sr : SendLog} {e e' : Engine} (hs : Shrinks e e') (h : EngOk sr e) : EngOk sr e' := by
  induction hs with
  | refl => exact h
  | respDone q p _ ih => exact ih.updQ q _ (fun _ => StOk.respDone p)
  | sendFail q p _ ih => exact ih.updQ q _ (fun _ => StOk.sendFail p)

theorem EngOk.mono {sr sr' : SendLog} (hm : ∀ x ∈ sr, x ∈ sr') {e : Engine} (h : EngOk sr e) : EngOk sr' e :=
  fun x hx => (h x hx).mono hm

theorem LogOk.mono {sr sr' : SendLog} (hm : ∀ x ∈ sr, x ∈ sr') {l : List SuccessRec} (h : LogOk sr l) : LogOk sr' l :=
  fun r hr => ⟨(h r hr).1, (h r hr).2.1, fun p hp => let ⟨k, hk, hmem⟩ := (h r hr).2.2 p hp; ⟨k, hk, hm _ hmem⟩⟩

theorem QuorumInv.of_shrinks {s s' : State} (h : QuorumInv s) (hs : SameLedger s s')
    (he : Shrinks s.engine s'.engine) : QuorumInv s' :=
  ⟨by rw [hs.sendResults]; exact h.eng.shrinks he, by rw [hs.sendResults, hs.successLog]; exact h.log⟩

theorem EngOk.removeQ {sr : SendLog} {e : Engine} (h : EngOk sr e) (q : Qid) : EngOk sr (removeQ e q) :=
  fun x hx => h x (List.mem_filter.mp hx).1

theorem EngOk.append_lookup {sr : SendLog} {e : Engine} (h : EngOk sr e) (q key kind quorum ps) :
    EngOk sr (e ++ [⟨q, key, .lookup kind quorum ps⟩]) := by
  intro x hx
  rcases List.mem_append.mp hx with hx | hx
  · exact h x hx
  · simp at hx; subst hx; trivial

theorem QuorumInv.command {s : State} (h : QuorumInv s) (c : Cmd) : QuorumInv (command s c) := by
  cases c <;> simp only [Coordinator.command, Coordinator.startLookup]
  · exact ⟨h.eng.append_lookup _ _ _ _ _, h.log⟩
  · exact ⟨h.eng.append_lookup _ _ _ _ _, h.log⟩
  · exact ⟨h.eng.append_lookup _ _ _ _ _, h.log⟩
  · split
    · exact ⟨h.eng, h.log⟩
    · exact ⟨h.eng.append_lookup _ _ _ _ _, h.log⟩
  · exact ⟨h.eng.append_lookup _ _ _ _ _, h.log⟩
  · exact ⟨h.eng.append_lookup _ _ _ _ _, h.log⟩

theorem QuorumInv.engineStep {s s' : State} (h : QuorumInv s) {act : EAct} {outs : List OsdIn}
    (hstep : engineStep s act outs = some s') : QuorumInv s' := by
  unfold Coordinator.engineStep at hstep
  cases act with
  | send q p =>
    simp only at hstep
    split at hstep
    · rename_i kind quorum ps hf
      split at hstep
      · exact absurd hstep (by simp)
      · injection hstep with hstep
        subst hstep
        have hs := sendMessage_same
          { s with engine := updQ s.engine q (fun _ => QState.lookup kind quorum (ps ++ [p])) } q p
          (outs.headD default) s ⟨rfl, rfl, rfl, rfl, rfl⟩
        have he := sendMessage_shrinks
          { s with engine := updQ s.engine q (fun _ => QState.lookup kind quorum (ps ++ [p])) } q p
          (outs.headD default) _ (.refl _)
        refine ⟨?_, ?_⟩
        · rw [hs.sendResults]
          exact (h.eng.updQ q (fun _ => QState.lookup kind quorum (ps ++ [p])) (fun _ _ => trivial)).shrinks he
        · rw [hs.sendResults, hs.successLog]; exact h.log
    · exact absurd hstep (by simp)
  | lookupDone q ok peers =>
    simp only at hstep
    split at hstep
    · rename_i key kind quorum ps hf
      split at hstep
      · split at hstep
        · exact absurd hstep (by simp)
        · injection hstep with hstep
          subst hstep
          exact ⟨h.eng.removeQ q, h.log⟩
      · split at hstep
        · injection hstep with hstep; subst hstep; exact ⟨h.eng.removeQ q, h.log⟩
        · injection hstep with hstep; subst hstep; exact ⟨h.eng.removeQ q, h.log⟩
        · injection hstep with hstep; subst hstep; exact ⟨h.eng.removeQ q, h.log⟩
        · split at hstep
          · exact absurd hstep (by simp)
          · injection hstep with hstep
            subst hstep
            have hs := fanOut_same (if kind = .addProvider then .addProvider else .putValue) q
              { s with engine := Coordinator.removeQ s.engine q } peers outs s ⟨rfl, rfl, rfl, rfl, rfl⟩
            have he := fanOut_engine (if kind = .addProvider then .addProvider else .putValue) q
              { s with engine := Coordinator.removeQ s.engine q } peers outs
            refine ⟨?_, ?_⟩
            · show EngOk _ (startTracking _ _ _ _ _ _).engine
              unfold startTracking
              simp only []
              rw [hs.sendResults]
              refine EngOk.shrinks (Shrinks.foldl _ (fun e p => Shrinks.sendFail q p (.refl e)) _ _) ?_
              rw [he]
              intro x hx
              rcases List.mem_append.mp hx with hx | hx
              · exact h.eng.removeQ q x hx
              · simp at hx
                subst hx
                exact ⟨rfl, rfl, List.nodup_nil, fun _ hp => absurd hp (by simp [Tracker.new]),
                  fun _ hp => absurd hp (by simp [Tracker.new])⟩
            · show LogOk (startTracking _ _ _ _ _ _).sendResults (startTracking _ _ _ _ _ _).successLog
              have := startTracking_same (fanOut (if kind = .addProvider then .addProvider else .putValue) q
                { s with engine := Coordinator.removeQ s.engine q } peers outs) q key (kind != .addProvider) peers quorum s hs
              rw [this.sendResults, this.successLog]
              exact h.log
    · exact absurd hstep (by simp)
  | partialResult q =>
    simp only at hstep
    split at hstep
    · injection hstep with hstep; subst hstep; exact h
    · exact absurd hstep (by simp)
  | trackerDone q =>
    simp only at hstep
    split at hstep
    · rename_i key b t hf
      have hx := findQ_mem hf
      have ht : TrackerOk s.sendResults q t := by
        have := h.eng _ hx.1
        rw [hx.2] at this
        exact this
      split at hstep
      · split at hstep
        · rename_i hsucc
          injection hstep with hstep
          subst hstep
          refine ⟨h.eng.removeQ q, ?_⟩
          intro r hr
          rcases List.mem_append.mp hr with hr | hr
          · exact h.log r hr
          · simp at hr
            subst hr
            obtain ⟨h1, h2, h3, _, h5⟩ := ht
            refine ⟨?_, h3, h5⟩
            simp only [Tracker.isSucceeded, decide_eq_true_eq] at hsucc
            rw [← h2, h1]
            exact hsucc
        · injection hstep with hstep
          subst hstep
          exact ⟨h.eng.removeQ q, h.log⟩
      · exact absurd hstep (by simp)
    · exact absurd hstep (by simp)

/-- `hNoReq` (an invariant, `LInv.noReq` in `CoordinatorQuorum.lean`): no request/response future of a query
is in flight for a peer its tracker waits for. -/
theorem QuorumInv.step {s s' : State} (h : QuorumInv s)
    (hNoReq : ∀ x ∈ s.engine, x.st.isLookup = false → ∀ p ∈ x.st.pending, (⟨p, x.id, .reqResp⟩ : Fut) ∉ s.futs)
    {l : Label} (hstep : step s l = some s') : QuorumInv s' := by
  cases l with
  | cmd c => injection hstep with hstep; subst hstep; exact h.command c
  | engine a outs => exact h.engineStep hstep
  | established p outs =>
    injection hstep with hstep; subst hstep
    exact h.of_shrinks (established_same ..) (established_shrinks ..)
  | closed p =>
    injection hstep with hstep; subst hstep
    exact h.of_shrinks (closed_same ..) (closed_shrinks ..)
  | dialFailure p =>
    injection hstep with hstep; subst hstep
    exact h.of_shrinks (dialFailure_same ..) (dialFailure_shrinks ..)
  | subOpened sid =>
    injection hstep with hstep; subst hstep
    exact h.of_shrinks (subOpened_same ..) (by rw [subOpened_engine]; exact .refl _)
  | subOpenFailure sid =>
    injection hstep with hstep; subst hstep
    exact h.of_shrinks (subOpenFailure_same ..) (subOpenFailure_shrinks ..)
  | result f r =>
    injection hstep with hstep; subst hstep
    have hs := execResult_same s f r
    have hm := execResult_sendResults_mono s f r
    rcases execResult_engine s f r with he | ⟨hfm, _, he, hsr⟩
    · exact ⟨(h.eng.mono hm).shrinks he, by rw [hs.2.2.2]; exact h.log.mono hm⟩
    · refine ⟨?_, by rw [hs.2.2.2]; exact h.log.mono hm⟩
      refine EngOk.shrinks he ((h.eng.mono hm).updQ' f.q _ (fun x hx hxq hst =>
        hst.sendOk f.peer (fun hp hlk => ⟨f.kind, ?_, ?_⟩)))
      · intro hk
        apply hNoReq x hx hlk f.peer hp
        rw [hxq, ← hk]
        exact hfm
      · rw [hsr]; exact List.mem_cons_self
  | inbound p =>
    injection hstep with hstep; subst hstep
    exact h.of_shrinks (inbound_same ..) (by rw [inbound_engine]; exact .refl _)
  | inboundFailed p =>
    injection hstep with hstep; subst hstep
    exact h.of_shrinks (disconnectPeer_same ..) (disconnectPeer_shrinks _ _ _ _ (.refl _))
  | setStored keys =>
    injection hstep with hstep; subst hstep
    exact h.of_shrinks ⟨rfl, rfl, rfl, rfl, rfl⟩ (.refl _)

end Litep2pVerif.Kad.Coordinator
