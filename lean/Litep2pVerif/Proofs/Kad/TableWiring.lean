import Litep2pVerif.Proofs.Kad.Table
import Litep2pVerif.Model.Kad.TableWiring
/-! Which table operations keep a `Connected` entry connected, and the coordinator's event handlers on top. -/
namespace Litep2pVerif.Kad.Table
open Litep2pVerif.Kad.Key Litep2pVerif.Kad.Bucket

/-- Bucket steps with the connection flag tracked: `dg` = the operation may downgrade the entry of ITS key. -/
inductive CStep (K key : Nat) (dg : Bool) : Bucket → Bucket → Prop
  | refl (b) : CStep K key dg b b
  | push (b s) : CStep K key dg b (b ++ [s])
  | update (b i p q) : b[i]? = some (.real p) → p.key = key → q.key = p.key → q.peer = p.peer →
      (dg = false → p.conn = .connected → q.conn = .connected) → CStep K key dg b (b.set i (.real q))
  | replace (b i s q) : b[i]? = some s → s.replaceable = true → CStep K key dg b (b.set i (.real q))

theorem cstep_occupied (K key : Nat) (dg : Bool) (b : Bucket) (i : Nat) (p : Peer) (f : Peer → Peer)
    (h : b[i]? = some (.real p)) (hkey : p.key = key) (hk : ∀ p, (f p).key = p.key) (hp : ∀ p, (f p).peer = p.peer)
    (hc : dg = false → ∀ p, p.conn = .connected → (f p).conn = .connected) :
    CStep K key dg b (b.modify i (updateReal f)) := by
  rw [modify_eq_set b i _ _ h]
  exact CStep.update b i p (f p) h hkey (hk p) (hp p) (fun hd => hc hd p)

theorem cstep_addKnownPeer (K : Nat) (b : Bucket) (peer key naddrs : Nat) (conn : Conn) (rnd : Nat) :
    CStep K key (conn != .connected) b (addKnownPeer K b peer key naddrs conn rnd) := by
  unfold addKnownPeer
  rcases entry_cases K b key rnd with ⟨i, p, he, hb, hk⟩ | ⟨hno, ⟨hlen, he⟩ | ⟨hlen, i, s, he, hs, hr⟩ | he⟩
  · rw [he]
    refine cstep_occupied K key _ b i p _ hb hk (fun _ => rfl) (fun _ => rfl) (fun hd _ _ => ?_)
    cases conn <;> simp_all
  · rw [he]
    simp only [Bucket.insert]
    rw [List.set_append_right _ _ (Nat.le_refl _)]
    simp only [Nat.sub_self, List.set_cons_zero]
    exact CStep.push b _
  · rw [he]
    simp only [Bucket.insert]
    exact CStep.replace b i s _ hs hr
  · rw [he]; exact CStep.refl b

theorem cstep_onConnectionEstablished (K : Nat) (b : Bucket) (key : Nat) (dialer : Bool) (rnd : Nat) :
    CStep K key false b (onConnectionEstablished K b key dialer rnd) := by
  unfold onConnectionEstablished
  rcases entry_cases K b key rnd with ⟨i, p, he, hb, hk⟩ | ⟨hno, ⟨hlen, he⟩ | ⟨hlen, i, s, he, hs, hr⟩ | he⟩
  · rw [he]; exact cstep_occupied K key _ b i p _ hb hk (fun _ => rfl) (fun _ => rfl) (fun _ _ _ => rfl)
  · rw [he]; exact CStep.push b _
  · rw [he]; exact CStep.refl b
  · rw [he]; exact CStep.refl b

theorem cstep_onDialFailure (K : Nat) (b : Bucket) (key naddrs rnd : Nat) :
    CStep K key false b (onDialFailure K b key naddrs rnd) := by
  unfold onDialFailure
  rcases entry_cases K b key rnd with ⟨i, p, he, hb, hk⟩ | ⟨hno, ⟨hlen, he⟩ | ⟨hlen, i, s, he, hs, hr⟩ | he⟩
  · rw [he]; exact cstep_occupied K key _ b i p _ hb hk (fun _ => rfl) (fun _ => rfl) (fun _ _ h => h)
  · rw [he]; exact CStep.push b _
  · rw [he]; exact CStep.refl b
  · rw [he]; exact CStep.refl b

theorem cstep_onDisconnected (K : Nat) (b : Bucket) (key rnd : Nat) :
    CStep K key true b (onDisconnected K b key rnd) := by
  unfold onDisconnected
  rcases entry_cases K b key rnd with ⟨i, p, he, hb, hk⟩ | ⟨hno, ⟨hlen, he⟩ | ⟨hlen, i, s, he, hs, hr⟩ | he⟩
  · rw [he]; exact cstep_occupied K key _ b i p _ hb hk (fun _ => rfl) (fun _ => rfl) (fun h => by cases h)
  · rw [he]; exact CStep.push b _
  · rw [he]; exact CStep.refl b
  · rw [he]; exact CStep.refl b

theorem cstep_entry (K : Nat) (b : Bucket) (key rnd : Nat) : CStep K key false b (entry K b key rnd).1 := by
  rcases entry_cases K b key rnd with ⟨i, p, he, hb, hk⟩ | ⟨hno, ⟨hlen, he⟩ | ⟨hlen, i, s, he, hs, hr⟩ | he⟩
  · rw [he]; exact CStep.refl b
  · rw [he]; exact CStep.push b _
  · rw [he]; exact CStep.refl b
  · rw [he]; exact CStep.refl b

/-- A `Connected` entry keeps slot, identity and flag under a step that may not downgrade its key. -/
theorem cstep_keep {K key : Nat} {dg : Bool} {b b' : Bucket} (hs : CStep K key dg b b') {j : Nat} {p : Peer}
    (hj : b[j]? = some (.real p)) (hc : p.conn = .connected) (hd : dg = true → p.key ≠ key) :
    ∃ p', b'[j]? = some (.real p') ∧ p'.peer = p.peer ∧ p'.key = p.key ∧ p'.conn = .connected := by
  have hjl : j < b.length := by
    rcases Nat.lt_or_ge j b.length with h' | h'
    · exact h'
    · rw [List.getElem?_eq_none h'] at hj; simp at hj
  cases hs with
  | refl => exact ⟨p, hj, rfl, rfl, hc⟩
  | push s => exact ⟨p, by rw [List.getElem?_append_left hjl]; exact hj, rfl, rfl, hc⟩
  | update i p0 q hi hkey hk hp hq =>
    by_cases hij : i = j
    · subst hij
      rw [hj] at hi; cases hi
      cases hdg : dg with
      | true => exact absurd hkey (hd hdg)
      | false => exact ⟨q, by rw [List.getElem?_set]; simp [hjl], hp, hk, hq hdg hc⟩
    · exact ⟨p, by rw [List.getElem?_set]; simp [hij, hj], rfl, rfl, hc⟩
  | replace i s q hi hr =>
    by_cases hij : i = j
    · subst hij
      rw [hj] at hi; cases hi
      simp [Slot.replaceable, Slot.conn, hc] at hr
    · exact ⟨p, by rw [List.getElem?_set]; simp [hij, hj], rfl, rfl, hc⟩

/-- May the operation take the `Connected` flag from the entry of its key? -/
def Op.downgrades : Op → Bool
  | .add _ _ _ conn _ => conn != .connected
  | .disconnected _ _ => true
  | _ => false

theorem cstep_spec (K : Nat) (t : Table) (op : Op) :
    step K t op = t ∨ ∃ f, (∀ b, CStep K op.key op.downgrades b (f b)) ∧ step K t op = t.atBucket op.key f := by
  cases op with
  | add peer key naddrs conn rnd =>
    simp only [step, Table.addKnownPeer, Op.key]
    split
    · exact Or.inl rfl
    · exact Or.inr ⟨_, fun b => cstep_addKnownPeer K b peer key naddrs conn rnd, rfl⟩
  | connected key dialer rnd =>
    exact Or.inr ⟨_, fun b => cstep_onConnectionEstablished K b key dialer rnd, rfl⟩
  | dialFailure key naddrs rnd =>
    exact Or.inr ⟨_, fun b => cstep_onDialFailure K b key naddrs rnd, rfl⟩
  | disconnected key rnd =>
    exact Or.inr ⟨_, fun b => cstep_onDisconnected K b key rnd, rfl⟩
  | entry key rnd =>
    simp only [step, Table.entry, Op.key]
    split
    · exact Or.inl rfl
    · exact Or.inr ⟨_, fun b => cstep_entry K b key rnd, rfl⟩

theorem step_keeps_connected (K : Nat) (t : Table) (op : Op) {bi si : Nat} {p : Peer}
    (h : (t.buckets.getD bi [])[si]? = some (.real p)) (hc : p.conn = .connected)
    (hd : op.downgrades = true → p.key ≠ op.key) :
    ∃ p', ((step K t op).buckets.getD bi [])[si]? = some (.real p') ∧ p'.peer = p.peer ∧ p'.key = p.key ∧
      p'.conn = .connected := by
  rcases cstep_spec K t op with he | ⟨f, hf, he⟩
  · rw [he]; exact ⟨p, h, rfl, rfl, hc⟩
  · rw [he]
    unfold Table.atBucket
    split
    · exact ⟨p, h, rfl, rfl, hc⟩
    · rename_i i hi
      show ∃ p', ((t.buckets.modify i f).getD bi [])[si]? = _ ∧ _
      rw [getD_modify]
      split
      · exact cstep_keep (hf _) h hc hd
      · exact ⟨p, h, rfl, rfl, hc⟩

end Litep2pVerif.Kad.Table

namespace Litep2pVerif.Kad.Wiring
open Litep2pVerif.Kad.Key Litep2pVerif.Kad.Bucket Litep2pVerif.Kad.Table

/-- The coordinator's table is the table model run on the operations its handlers performed. -/
theorem wrun_table_aux (K : Nat) (evs : List Ev) (w : W) :
    (evs.foldl (wstep K) w).table = (opsOf K w evs).foldl (step K) w.table := by
  induction evs generalizing w with
  | nil => rfl
  | cons e r ih =>
    rw [List.foldl_cons, ih]
    simp [opsOf, List.foldl_append, wstep]

theorem wrun_table (K nb lk : Nat) (evs : List Ev) :
    (wrun K nb lk evs).table = run K nb lk (opsOf K { table := Table.new nb lk } evs) :=
  wrun_table_aux K evs _

theorem wrun_append (K nb lk : Nat) (evs : List Ev) (e : Ev) :
    wrun K nb lk (evs ++ [e]) = wstep K (wrun K nb lk evs) e := by
  simp [wrun, List.foldl_append]

/-- One event: a `Connected` entry keeps slot, identity and flag unless the event closes that peer's connection or
is an `add_known_peer` for it while it has no `PeerContext`. -/
theorem wstep_keeps_connected (K : Nat) (w : W) (e : Ev) {bi si : Nat} {p : Peer}
    (h : (w.table.buckets.getD bi [])[si]? = some (.real p)) (hc : p.conn = .connected)
    (hclose : ∀ q, e ≠ .closed q p.key)
    (hadd : ∀ q n, e = .addKnown q p.key n → q ∈ w.peers ∨ n = 0) :
    ∃ p', ((wstep K w e).table.buckets.getD bi [])[si]? = some (.real p') ∧ p'.peer = p.peer ∧ p'.key = p.key ∧
      p'.conn = .connected := by
  cases e with
  | addKnown q k n =>
    have ht : (wstep K w (.addKnown q k n)).table =
        step K w.table (.add q k n (if q ∈ w.peers then .connected else .notConnected) 0) := rfl
    rw [ht]
    by_cases hq : q ∈ w.peers
    · simp only [hq, if_true]
      exact step_keeps_connected K _ (.add q k n .connected 0) h hc (by simp [Op.downgrades])
    · simp only [hq, if_false]
      by_cases hk : k = p.key
      · subst hk
        rcases hadd q n rfl with h' | h'
        · exact absurd h' hq
        · subst h'
          simp only [step, Table.addKnownPeer, if_true]
          exact ⟨p, h, rfl, rfl, hc⟩
      · exact step_keeps_connected K _ (.add q k n .notConnected 0) h hc
          (fun _ => by simp only [Op.key]; exact fun h' => hk h'.symm)
  | established q k d pd =>
    have ht : (wstep K w (.established q k d pd)).table = step K w.table (.connected k d 0) := rfl
    rw [ht]
    exact step_keeps_connected K _ (.connected k d 0) h hc (by simp [Op.downgrades])
  | closed q k =>
    have ht : (wstep K w (.closed q k)).table = step K w.table (.disconnected k 0) := rfl
    rw [ht]
    refine step_keeps_connected K _ (.disconnected k 0) h hc (fun _ => ?_)
    simp only [Op.key]
    intro hk
    exact hclose q (by rw [hk])
  | dialFailure q k n =>
    have ht : (wstep K w (.dialFailure q k n)).table = step K w.table (.dialFailure k n 0) := rfl
    rw [ht]
    exact step_keeps_connected K _ (.dialFailure k n 0) h hc (by simp [Op.downgrades])
  | inbound q => exact ⟨p, h, rfl, rfl, hc⟩

theorem wrun_keeps_connected (K nb lk : Nat) (more : List Ev) : ∀ (evs : List Ev) {bi si : Nat} {p : Peer},
    ((wrun K nb lk evs).table.buckets.getD bi [])[si]? = some (.real p) → p.conn = .connected →
    (∀ e ∈ more, e.harmless p.key) →
    ∃ p', ((wrun K nb lk (evs ++ more)).table.buckets.getD bi [])[si]? = some (.real p') ∧ p'.peer = p.peer ∧
      p'.key = p.key ∧ p'.conn = .connected := by
  induction more with
  | nil => intro evs bi si p h hc _; rw [List.append_nil]; exact ⟨p, h, rfl, rfl, hc⟩
  | cons e r ih =>
    intro evs bi si p h hc hm
    have he := hm e (List.mem_cons_self ..)
    obtain ⟨p1, h1, hp1, hk1, hc1⟩ := wstep_keeps_connected K (wrun K nb lk evs) e h hc
      (fun q heq => by subst heq; exact he rfl)
      (fun q n heq => by subst heq; rcases he with h' | h'; exact absurd rfl h'; exact Or.inr h')
    rw [← wrun_append] at h1
    obtain ⟨p2, h2, hp2, hk2, hc2⟩ := ih (evs ++ [e]) h1 hc1 (fun e' he' => hk1 ▸ hm e' (List.mem_cons_of_mem _ he'))
    refine ⟨p2, ?_, hp2.trans hp1, hk2.trans hk1, hc2⟩
    rw [List.append_assoc] at h2
    exact h2

end Litep2pVerif.Kad.Wiring
