import Litep2pVerif.Proofs.Kad.CoordinatorOwned
/-!
Why a send success counted by a PUT_VALUE / ADD_PROVIDER tracker can only come from a PUT_VALUE /
ADD_PROVIDER future (C16, `put_quorum_sound`).

The query id is the same in the lookup phase and in the send phase, and a `ReadSuccess` of a FIND_NODE
request is reported to the engine as a send success as well; if such a request to a fan-out target were
still in flight when the lookup ends, the tracker would count it. It cannot be:

* `LInv.one` — while a query is in its lookup phase, the coordinator holds at most one record (pending dial
  action, pending substream action, executor future) for the query and a peer, and none unless the lookup
  is waiting for that peer (the engine never queries a peer it is waiting for);
* the engine only hands out fan-out targets it is not waiting for, hence
* `LInv.noReq` — no request/response future of the query is in flight for a peer its tracker waits for.
-/
namespace Litep2pVerif.Kad.Coordinator

/-! ## Counting lemmas -/

theorem countP_filter_key {α} (l : List α) (key : α → Peer) (P : α → Bool) (p p' : Peer)
    (hP : ∀ x, P x = true → key x = p') :
    (l.filter (fun x => key x != p)).countP P = if p' = p then 0 else l.countP P := by
  rw [List.countP_filter]
  split
  · rename_i h
    subst h
    rw [List.countP_eq_zero]
    intro a _ hc
    have := (Bool.and_eq_true _ _).mp hc
    have hk := hP a this.1
    simp [hk] at this
  · rename_i h
    apply List.countP_congr
    intro x _
    constructor
    · intro hc; exact ((Bool.and_eq_true _ _).mp hc).1
    · intro hc
      have hk := hP x hc
      simp [hc, hk, h]

theorem countP_erase_le {α} [BEq α] [LawfulBEq α] (l : List α) (P : α → Bool) (a : α) :
    (l.erase a).countP P ≤ l.countP P := (List.erase_sublist).countP_le

theorem countP_erase_of_mem {α} [BEq α] [LawfulBEq α] (l : List α) (P : α → Bool) (a : α) (ha : a ∈ l)
    (hP : P a = true) : (l.erase a).countP P + 1 = l.countP P := by
  induction l with
  | nil => exact absurd ha (by simp)
  | cons b l ih =>
    by_cases hba : b = a
    · subst hba
      simp [hP]
    · have hne : (b == a) = false := by simpa using hba
      rw [List.erase_cons, hne]
      simp only [Bool.false_eq_true, if_false, List.countP_cons]
      have := ih (by
        rcases List.mem_cons.mp ha with h | h
        · exact absurd h.symm hba
        · exact h)
      omega

/-- Removing the elements that satisfy `R` removes at least one `P`-element if some element satisfies both. -/
theorem countP_filter_not_lt {α} (l : List α) (P R : α → Bool) (x : α) (hx : x ∈ l) (hP : P x = true)
    (hR : R x = true) : (l.filter (fun y => !R y)).countP P + 1 ≤ l.countP P := by
  induction l with
  | nil => exact absurd hx (by simp)
  | cons b l ih =>
    have hle : (l.filter (fun y => !R y)).countP P ≤ l.countP P := (List.filter_sublist).countP_le
    rcases List.mem_cons.mp hx with h | h
    · subst h
      simp only [List.filter_cons, hR, Bool.not_true, Bool.false_eq_true, if_false, List.countP_cons, hP, if_true]
      omega
    · have := ih h
      simp only [List.filter_cons, List.countP_cons]
      split
      · simp only [List.countP_cons]; omega
      · split <;> omega

/-! ## Records per query and peer -/

def dcnt (s : State) (q : Qid) (p : Peer) : Nat := s.dials.countP (fun d => d.2.q == q && d.1 == p)
def acnt (s : State) (q : Qid) (p : Peer) : Nat := s.actions.countP (fun a => a.2.2.q == q && a.1 == p)
def fcnt (s : State) (q : Qid) (p : Peer) : Nat := s.futs.countP (fun f => f.q == q && f.peer == p)

/-- Number of records (pending dial actions, pending substream actions, executor futures) of query `q`
for peer `p`. -/
def cnt (s : State) (q : Qid) (p : Peer) : Nat := dcnt s q p + acnt s q p + fcnt s q p

theorem acnt_pos {s : State} {q : Qid} {p : Peer} {sid : Sid} {a : PAction} (h : (p, sid, a) ∈ s.actions)
    (hq : a.q = q) : 0 < acnt s q p :=
  List.countP_pos_iff.mpr ⟨_, h, by simp [hq]⟩

theorem dcnt_pos {s : State} {q : Qid} {p : Peer} {a : PAction} (h : (p, a) ∈ s.dials) (hq : a.q = q) :
    0 < dcnt s q p :=
  List.countP_pos_iff.mpr ⟨_, h, by simp [hq]⟩

theorem fcnt_pos {s : State} {f : Fut} (h : f ∈ s.futs) : 0 < fcnt s f.q f.peer :=
  List.countP_pos_iff.mpr ⟨_, h, by simp⟩

theorem not_mem_futs_of_cnt {s : State} {q : Qid} {p : Peer} (h : cnt s q p = 0) (k : FKind) :
    (⟨p, q, k⟩ : Fut) ∉ s.futs := by
  intro hf
  have := fcnt_pos hf
  unfold cnt at h
  simp only at this
  omega

/-! ## Labelled shrinking of the engine -/

/-- `e'` is obtained from `e` by `register_send_failure`, `register_send_success` and — only for pairs
satisfying `T` — `register_response(_failure)`. -/
inductive ShrT (T : Qid → Peer → Prop) : Engine → Engine → Prop
  | refl (e) : ShrT T e e
  | respDone {e e'} (q p) : T q p → ShrT T e e' → ShrT T e (regRespDone e' q p)
  | sendFail {e e'} (q p) : ShrT T e e' → ShrT T e (regSendFail e' q p)
  | sendOk {e e'} (q p) : ShrT T e e' → ShrT T e (regSendOk e' q p)

theorem ShrT.trans {T} {a b c : Engine} (h1 : ShrT T a b) (h2 : ShrT T b c) : ShrT T a c := by
  induction h2 with
  | refl => exact h1
  | respDone q p ht _ ih => exact .respDone q p ht ih
  | sendFail q p _ ih => exact .sendFail q p ih
  | sendOk q p _ ih => exact .sendOk q p ih

theorem ShrT.mono {T T' : Qid → Peer → Prop} (hm : ∀ q p, T q p → T' q p) {a b : Engine} (h : ShrT T a b) :
    ShrT T' a b := by
  induction h with
  | refl => exact .refl _
  | respDone q p ht _ ih => exact .respDone q p (hm _ _ ht) ih
  | sendFail q p _ ih => exact .sendFail q p ih
  | sendOk q p _ ih => exact .sendOk q p ih

theorem ShrT.bothFail {T} (e : Engine) (q p) (ht : T q p) : ShrT T e (regRespDone (regSendFail e q p) q p) :=
  .respDone q p ht (.sendFail q p (.refl e))

theorem ShrT.peerFail {T} (e : Engine) (q p) (ht : T q p) : ShrT T e (regPeerFail e q p) :=
  ShrT.bothFail e q p ht

theorem ShrT.foldl {T} {α} (g : Engine → α → Engine) (l : List α) (hg : ∀ a ∈ l, ∀ e, ShrT T e (g e a))
    (e : Engine) : ShrT T e (l.foldl g e) := by
  induction l generalizing e with
  | nil => exact .refl e
  | cons a l ih =>
    exact (hg a List.mem_cons_self e).trans (ih (fun b hb => hg b (List.mem_cons_of_mem _ hb)) (g e a))

theorem ShrT.sub {T} {e e' : Engine} (h : ShrT T e e') : Sub e e' := by
  induction h with
  | refl => exact Sub.refl _
  | respDone q p _ _ ih => exact ih.trans (sub_regRespDone _ _ _)
  | sendFail q p _ ih => exact ih.trans (sub_regSendFail _ _ _)
  | sendOk q p _ ih => exact ih.trans (sub_regSendOk _ _ _)

theorem lookup_sendFail {st : QState} (h : st.isLookup = true) (p : Peer) : st.sendFail p = st := by
  cases st with
  | lookup => rfl
  | tracker => simp [QState.isLookup] at h

theorem lookup_sendOk {st : QState} (h : st.isLookup = true) (p : Peer) : st.sendOk p = st := by
  cases st with
  | lookup => rfl
  | tracker => simp [QState.isLookup] at h

/-- What the queries in their lookup phase see of a labelled shrinking. -/
def LookSub (T : Qid → Peer → Prop) (e e' : Engine) : Prop :=
  ∀ x' ∈ e', x'.st.isLookup = true →
    ∃ x ∈ e, x.id = x'.id ∧ x.st.isLookup = true ∧ (∀ p ∈ x'.st.pending, p ∈ x.st.pending) ∧
      (∀ p ∈ x.st.pending, p ∈ x'.st.pending ∨ T x.id p)

theorem lookSub_updQ_id {T} {e e' : Engine} (h : LookSub T e e') (q : Qid) (f : QState → QState)
    (hf : ∀ st, (f st).isLookup = true → f st = st) : LookSub T e (updQ e' q f) := by
  intro x'' hx'' hlk
  obtain ⟨x', hx', hid, _, hst⟩ := mem_updQ hx''
  have hst' : x''.st = x'.st := by
    rcases hst with ⟨_, hst⟩ | ⟨_, hst⟩
    · exact hst
    · rw [hst]; rw [hst] at hlk; exact hf _ hlk
  obtain ⟨x, hx, hi, hl, h1, h2⟩ := h x' hx' (hst' ▸ hlk)
  exact ⟨x, hx, hi.trans hid.symm, hl, by rw [hst']; exact h1, by rw [hst']; exact h2⟩

theorem ShrT.lookups {T} {e e' : Engine} (h : ShrT T e e') : LookSub T e e' := by
  induction h with
  | refl => exact fun x hx hl => ⟨x, hx, rfl, hl, fun _ h => h, fun _ h => .inl h⟩
  | sendFail q p _ ih =>
    refine lookSub_updQ_id ih q _ (fun st hl => ?_)
    cases st with
    | lookup => rfl
    | tracker b t => simp [QState.sendFail, QState.isLookup] at hl
  | sendOk q p _ ih =>
    refine lookSub_updQ_id ih q _ (fun st hl => ?_)
    cases st with
    | lookup => rfl
    | tracker b t => simp [QState.sendOk, QState.isLookup] at hl
  | respDone q p ht _ ih =>
    intro x'' hx'' hlk
    obtain ⟨x', hx', hid, _, hst⟩ := mem_updQ hx''
    rcases hst with ⟨_, hst⟩ | ⟨hq, hst⟩
    · obtain ⟨x, hx, hi, hl, h1, h2⟩ := ih x' hx' (hst ▸ hlk)
      exact ⟨x, hx, hi.trans hid.symm, hl, by rw [hst]; exact h1, by rw [hst]; exact h2⟩
    · have hlk' : x'.st.isLookup = true := by
        rw [hst] at hlk
        cases hs : x'.st with
        | lookup => rfl
        | tracker b t => rw [hs] at hlk; simp [QState.respDone, QState.isLookup] at hlk
      obtain ⟨x, hx, hi, hl, h1, h2⟩ := ih x' hx' hlk'
      refine ⟨x, hx, hi.trans hid.symm, hl, ?_, ?_⟩
      · intro p0 hp0
        rw [hst] at hp0
        exact h1 p0 ((respDone_shrinks p x'.st).2 p0 hp0)
      · intro p0 hp0
        rcases h2 p0 hp0 with h | h
        · by_cases hpp : p0 = p
          · subst hpp
            exact .inr (by rw [hi, hq]; exact ht)
          · refine .inl ?_
            rw [hst]
            cases hs : x'.st with
            | lookup k qu ps =>
              rw [hs] at h
              simp only [QState.respDone, QState.pending] at h ⊢
              exact List.mem_filter.mpr ⟨h, by simp [hpp]⟩
            | tracker b t => rw [hs] at hlk'; simp [QState.isLookup] at hlk'
        · exact .inr h

/-! ## The invariant -/

structure LInv (s : State) : Prop where
  /-- no record carries a query id that has not been handed out -/
  fresh : ∀ q p, s.nextQid ≤ q → cnt s q p = 0
  /-- lookup phase: at most one record per peer, none for a peer the lookup is not waiting for -/
  one : ∀ x ∈ s.engine, x.st.isLookup = true → ∀ p, cnt s x.id p ≤ if p ∈ x.st.pending then 1 else 0
  /-- send phase: no request/response future of the query is in flight for a peer the tracker waits for -/
  noReq : ∀ x ∈ s.engine, x.st.isLookup = false → ∀ p ∈ x.st.pending, (⟨p, x.id, .reqResp⟩ : Fut) ∉ s.futs

theorem LInv.init : LInv {} := by
  constructor
  · intro q p _; rfl
  · intro x hx; exact absurd hx (by simp)
  · intro x hx; exact absurd hx (by simp)

/-- Handlers that only consume records: every `register_response(_failure)` is paid for by a record. -/
theorem LInv.preserve_env {s s' : State} (h : LInv s) (T : Qid → Peer → Prop)
    (hsh : ShrT T s.engine s'.engine) (hn : s'.nextQid = s.nextQid)
    (hle : ∀ q p, cnt s' q p ≤ cnt s q p) (hT : ∀ q p, T q p → cnt s' q p < cnt s q p)
    (hf : ∀ x' ∈ s'.engine, x'.st.isLookup = false → ∀ p, (⟨p, x'.id, .reqResp⟩ : Fut) ∈ s'.futs →
      (⟨p, x'.id, .reqResp⟩ : Fut) ∈ s.futs) : LInv s' := by
  refine ⟨?_, ?_, ?_⟩
  · intro q p hq
    have := h.fresh q p (hn ▸ hq)
    have := hle q p
    omega
  · intro x' hx' hlk p
    obtain ⟨x, hx, hid, hl, h1, h2⟩ := hsh.lookups x' hx' hlk
    have hone := h.one x hx hl p
    have hle' := hle x.id p
    rw [← hid]
    by_cases hp' : p ∈ x'.st.pending
    · rw [if_pos hp']
      rw [if_pos (h1 p hp')] at hone
      omega
    · rw [if_neg hp']
      by_cases hp : p ∈ x.st.pending
      · rw [if_pos hp] at hone
        rcases h2 p hp with hc | ht
        · exact absurd hc hp'
        · have := hT _ _ ht; omega
      · rw [if_neg hp] at hone; omega
  · intro x' hx' hlk p hp hfut
    obtain ⟨x, hx, hid, hl, hpp⟩ := hsh.sub x' hx'
    have := hf x' hx' hlk p hfut
    rw [← hid] at this
    exact h.noReq x hx (hl.trans hlk) p (hpp p hp) this


/-- Same engine up to labelled shrinking, records only consumed, no new request/response future. -/
theorem LInv.preserve_drop {s s' : State} (h : LInv s) (T : Qid → Peer → Prop)
    (hsh : ShrT T s.engine s'.engine) (hn : s'.nextQid = s.nextQid)
    (hle : ∀ q p, cnt s' q p ≤ cnt s q p) (hT : ∀ q p, T q p → cnt s' q p < cnt s q p)
    (hf : ∀ f ∈ s'.futs, f ∈ s.futs) : LInv s' :=
  h.preserve_env T hsh hn hle hT (fun _ _ _ _ hfut => hf _ hfut)

/-! ## `disconnect_peer` and its callers -/

def TDisc (s : State) (p : Peer) (query : Option Qid) (q : Qid) (p' : Peer) : Prop :=
  p' = p ∧ (query = some q ∨ 0 < acnt s q p)

theorem disconnectPeer_shrT (s : State) (p : Peer) (query : Option Qid) :
    ShrT (TDisc s p query) s.engine (disconnectPeer s p query).engine := by
  unfold disconnectPeer
  simp only []
  refine ShrT.trans ?_ (ShrT.foldl _ _ ?_ _)
  · cases query with
    | none => exact .refl _
    | some q => exact ShrT.peerFail _ q p ⟨rfl, .inl rfl⟩
  · intro a ha e
    split
    · refine ShrT.peerFail _ _ _ ⟨rfl, .inr ?_⟩
      unfold actionsOf at ha
      obtain ⟨x, hx, rfl⟩ := List.mem_map.mp ha
      have := List.mem_filter.mp hx
      exact List.countP_pos_iff.mpr ⟨x, this.1, by simpa using this.2⟩
    · exact .refl _

theorem disconnectPeer_shrT' (s0 s : State) (p : Peer) (query : Option Qid) (he : s.engine = s0.engine) :
    ShrT (TDisc s p query) s0.engine (disconnectPeer s p query).engine := he ▸ disconnectPeer_shrT s p query

theorem cnt_disconnectPeer (s : State) (p : Peer) (query : Option Qid) (q : Qid) (p' : Peer) :
    cnt (disconnectPeer s p query) q p' = if p' = p then dcnt s q p' + fcnt s q p' else cnt s q p' := by
  unfold cnt dcnt acnt fcnt disconnectPeer
  simp only []
  rw [countP_filter_key s.actions (·.1) _ p p' (by intro x hx; simpa using ((Bool.and_eq_true _ _).mp hx).2)]
  split <;> omega

theorem LInv.closed {s : State} (h : LInv s) (p : Peer) : LInv (closed s p) := by
  unfold Coordinator.closed
  split
  · refine h.preserve_drop _ (disconnectPeer_shrT' s _ p none rfl) rfl ?_ ?_ (fun _ hf => hf)
    · intro q p'
      rw [cnt_disconnectPeer]
      split
      · show _ ≤ cnt s q p'; unfold cnt dcnt fcnt; simp only []; omega
      · exact Nat.le_refl _
    · rintro q p' ⟨hp, hq | ha⟩
      · exact absurd hq (by simp)
      · subst hp
        rw [cnt_disconnectPeer, if_pos rfl]
        have : acnt s q p' = acnt { s with connected := s.connected.filter (· != p')
                                           opening := s.opening.filter (fun o => o.2 != p') } q p' := rfl
        show _ < cnt s q p'
        unfold cnt dcnt fcnt at *
        simp only [] at *
        omega
  · exact h

/-- `disconnect_peer(peer, None)` by itself (a query-less future of an inbound request failed). -/
theorem LInv.inboundFailed {s : State} (h : LInv s) (p : Peer) : LInv (inboundFailed s p) := by
  unfold Coordinator.inboundFailed
  refine h.preserve_drop _ (disconnectPeer_shrT s p none) rfl ?_ ?_ (fun _ hf => hf)
  · intro q p'
    rw [cnt_disconnectPeer]
    split
    · unfold cnt; omega
    · exact Nat.le_refl _
  · rintro q p' ⟨hp, hq | ha⟩
    · exact absurd hq (by simp)
    · subst hp
      rw [cnt_disconnectPeer, if_pos rfl]
      unfold cnt; omega

theorem LInv.subOpenFailure {s : State} (h : LInv s) (sid : Sid) : LInv (subOpenFailure s sid) := by
  unfold Coordinator.subOpenFailure
  split
  · exact h
  · simp only []
    split
    · exact h.preserve_drop (fun _ _ => False) (.refl _) rfl (fun _ _ => Nat.le_refl _) (fun _ _ hc => hc.elim)
        (fun _ hf => hf)
    · rename_i p _
      split
      · have hsub : ∀ q p', acnt { s with actions := s.actions.filter (fun a => !(a.1 == p && a.2.1 == sid)) } q p' ≤
            acnt s q p' := fun q p' => (List.filter_sublist).countP_le
        refine h.preserve_drop _ (disconnectPeer_shrT' s _ p _ rfl) rfl ?_ ?_ (fun _ hf => hf)
        · intro q p'
          rw [cnt_disconnectPeer]
          have := hsub q p'
          split
          · show _ ≤ cnt s q p'; unfold cnt dcnt fcnt acnt at *; simp only [] at *; omega
          · show cnt _ q p' ≤ cnt s q p'; unfold cnt dcnt fcnt acnt at *; simp only [] at *; omega
        · rintro q p' ⟨hp, hq | ha⟩
          · subst hp
            rw [cnt_disconnectPeer, if_pos rfl]
            -- the failed substream carried an action of `q` for `p'`
            have hpos : 0 < acnt s q p' := by
              unfold actionAt at hq
              simp only [] at hq
              cases hfa : s.actions.find? (fun a => a.1 == p' && a.2.1 == sid) with
              | none => rw [hfa] at hq; simp at hq
              | some x =>
                rw [hfa] at hq
                have hx := List.mem_of_find?_eq_some hfa
                have hpx := List.find?_some hfa
                have hq' : x.2.2.q = q := by simpa using hq
                exact List.countP_pos_iff.mpr ⟨x, hx, by
                  have := ((Bool.and_eq_true _ _).mp hpx).1
                  simp [hq']
                  simpa using this⟩
            show _ < cnt s q p'
            unfold cnt dcnt fcnt acnt at *
            simp only [] at *
            omega
          · subst hp
            rw [cnt_disconnectPeer, if_pos rfl]
            have := hsub q p'
            show _ < cnt s q p'
            unfold cnt dcnt fcnt acnt at *
            simp only [] at *
            omega
      · exact h.preserve_drop (fun _ _ => False) (.refl _) rfl (fun _ _ => Nat.le_refl _) (fun _ _ hc => hc.elim)
          (fun _ hf => hf)

theorem cnt_erase_le (s : State) (f : Fut) (q : Qid) (p : Peer) :
    cnt { s with futs := s.futs.erase f } q p ≤ cnt s q p := by
  have := countP_erase_le s.futs (fun f => f.q == q && f.peer == p) f
  unfold cnt dcnt acnt fcnt
  simp only []
  omega

theorem cnt_erase_lt (s : State) (f : Fut) (hf : f ∈ s.futs) :
    cnt { s with futs := s.futs.erase f } f.q f.peer < cnt s f.q f.peer := by
  have := countP_erase_of_mem s.futs (fun g => g.q == f.q && g.peer == f.peer) f hf (by simp)
  unfold cnt dcnt acnt fcnt
  simp only []
  omega

theorem LInv.execResult {s : State} (h : LInv s) (f : Fut) (r : Res) : LInv (execResult s f r) := by
  unfold Coordinator.execResult
  split
  · rename_i hg
    simp only []
    have hfail : LInv (disconnectPeer { s with futs := s.futs.erase f } f.peer (some f.q)) := by
      refine h.preserve_drop _ (disconnectPeer_shrT' s _ f.peer (some f.q) rfl) rfl ?_ ?_
        (fun _ hf => List.mem_of_mem_erase hf)
      · intro q p'
        rw [cnt_disconnectPeer]
        have := cnt_erase_le s f q p'
        split
        · unfold cnt dcnt acnt fcnt at *; simp only [] at *; omega
        · exact this
      · rintro q p' ⟨hp, hq | ha⟩
        · subst hp
          have hq' : f.q = q := by simpa using hq
          subst hq'
          rw [cnt_disconnectPeer, if_pos rfl]
          have := cnt_erase_lt s f hg.1
          unfold cnt dcnt acnt fcnt at *; simp only [] at *; omega
        · subst hp
          rw [cnt_disconnectPeer, if_pos rfl]
          have := cnt_erase_le s f q f.peer
          unfold cnt dcnt acnt fcnt at *; simp only [] at *; omega
    cases r
    · exact h.preserve_drop (fun _ _ => False) (.sendOk _ _ (.refl _)) rfl (cnt_erase_le s f)
        (fun _ _ hc => hc.elim) (fun _ hf => List.mem_of_mem_erase hf)
    · exact h.preserve_drop (fun _ _ => False) (.sendOk _ _ (.refl _)) rfl (cnt_erase_le s f)
        (fun _ _ hc => hc.elim) (fun _ hf => List.mem_of_mem_erase hf)
    · exact hfail
    · refine h.preserve_drop (fun q p => q = f.q ∧ p = f.peer) (.respDone _ _ ⟨rfl, rfl⟩ (.sendOk _ _ (.refl _))) rfl
        (cnt_erase_le s f) ?_ (fun _ hf => List.mem_of_mem_erase hf)
      rintro q p ⟨rfl, rfl⟩
      exact cnt_erase_lt s f hg.1
    · exact hfail
  · exact h

theorem LInv.dialFailure {s : State} (h : LInv s) (p : Peer) : LInv (dialFailure s p) := by
  have hc : ∀ q p', cnt (Coordinator.dialFailure s p) q p' = if p' = p then acnt s q p' + fcnt s q p' else cnt s q p' := by
    intro q p'
    unfold cnt dcnt acnt fcnt Coordinator.dialFailure
    simp only []
    rw [countP_filter_key s.dials (·.1) _ p p' (by intro x hx; simpa using ((Bool.and_eq_true _ _).mp hx).2)]
    split <;> omega
  refine h.preserve_drop (fun q p' => p' = p ∧ 0 < dcnt s q p) ?_ rfl ?_ ?_ (fun _ hf => hf)
  · unfold Coordinator.dialFailure
    simp only []
    refine ShrT.foldl _ _ ?_ _
    intro a ha e
    refine ShrT.bothFail _ _ _ ⟨rfl, ?_⟩
    unfold dialActions at ha
    obtain ⟨x, hx, rfl⟩ := List.mem_map.mp ha
    have := List.mem_filter.mp hx
    exact List.countP_pos_iff.mpr ⟨x, this.1, by simpa using this.2⟩
  · intro q p'
    rw [hc]
    split
    · unfold cnt; omega
    · exact Nat.le_refl _
  · rintro q p' ⟨hp, hd⟩
    subst hp
    rw [hc, if_pos rfl]
    unfold cnt; omega


/-! ## `on_connection_established` -/

/-- The pending dial actions whose substream could not be opened. -/
def drainFailed : List PAction → List Bool → List PAction
  | [], _ => []
  | a :: as, outs => if outs.headD false then drainFailed as outs.tail else a :: drainFailed as outs.tail

theorem drainDials_shrT (T : Qid → Peer → Prop) (p : Peer) (s : State) (acts : List PAction) (outs : List Bool)
    (hT : ∀ a ∈ drainFailed acts outs, T a.q p) (e0 : Engine) (h0 : ShrT T e0 s.engine) :
    ShrT T e0 (drainDials p s acts outs).engine := by
  induction acts generalizing s outs with
  | nil => exact h0
  | cons a as ih =>
    unfold drainDials
    unfold drainFailed at hT
    split
    · rename_i ho
      rw [if_pos ho] at hT
      exact ih _ _ hT h0
    · rename_i ho
      rw [if_neg ho] at hT
      exact ih _ _ (fun b hb => hT b (List.mem_cons_of_mem _ hb))
        (h0.trans (ShrT.bothFail _ _ _ (hT a List.mem_cons_self)))

theorem drainDials_fields (p : Peer) (s : State) (acts : List PAction) (outs : List Bool) :
    (drainDials p s acts outs).dials = s.dials ∧ (drainDials p s acts outs).futs = s.futs ∧
    (drainDials p s acts outs).nextQid = s.nextQid := by
  induction acts generalizing s outs with
  | nil => exact ⟨rfl, rfl, rfl⟩
  | cons a as ih =>
    unfold drainDials
    split
    · exact ih _ _
    · exact ih _ _

theorem drainDials_acnt_ne (p : Peer) (s : State) (acts : List PAction) (outs : List Bool) (q : Qid) (p' : Peer)
    (hp : p' ≠ p) : acnt (drainDials p s acts outs) q p' = acnt s q p' := by
  induction acts generalizing s outs with
  | nil => rfl
  | cons a as ih =>
    unfold drainDials
    split
    · rw [ih]
      unfold acnt
      simp only [List.countP_append, List.countP_singleton]
      have : ¬ p = p' := fun h => hp h.symm
      simp [this]
    · rw [ih]
      rfl

theorem drainDials_acnt_eq (p : Peer) (s : State) (acts : List PAction) (outs : List Bool) (q : Qid) :
    acnt (drainDials p s acts outs) q p + (drainFailed acts outs).countP (·.q == q) =
      acnt s q p + acts.countP (·.q == q) := by
  induction acts generalizing s outs with
  | nil => rfl
  | cons a as ih =>
    unfold drainDials drainFailed
    split
    · rw [ih]
      unfold acnt
      simp only [List.countP_append, List.countP_cons]
      by_cases hq : a.q = q <;> simp [hq] <;> omega
    · simp only [List.countP_cons]
      have := ih { s with engine := regRespDone (regSendFail s.engine a.q p) a.q p } outs.tail
      have hs : acnt { s with engine := regRespDone (regSendFail s.engine a.q p) a.q p } q p = acnt s q p := rfl
      rw [hs] at this
      omega

theorem dialActions_countP (s : State) (p : Peer) (q : Qid) :
    (dialActions s p).countP (·.q == q) = dcnt s q p := by
  unfold dialActions dcnt
  rw [List.countP_map, List.countP_filter]
  apply List.countP_congr
  intro x _
  simp

theorem LInv.established {s : State} (h : LInv s) (p : Peer) (outs : List Bool) : LInv (established s p outs) := by
  have same : ∀ s' : State, s'.engine = s.engine → s'.nextQid = s.nextQid → s'.dials = s.dials →
      s'.actions = s.actions → s'.futs = s.futs → LInv s' := by
    intro s' he hn hd ha hf
    refine h.preserve_drop (fun _ _ => False) (he ▸ .refl _) hn ?_ (fun _ _ hc => hc.elim) (fun _ hx => hf ▸ hx)
    intro q p'
    unfold cnt dcnt acnt fcnt
    rw [hd, ha, hf]
    exact Nat.le_refl _
  unfold Coordinator.established
  split
  · exact h
  · unfold onConnectionEstablished
    split
    · exact same _ rfl rfl rfl rfl rfl
    · simp only []
      split
      · exact same _ rfl rfl rfl rfl rfl
      · rename_i acts hne
        generalize hS1 : ({ s with connected := s.connected ++ [p], dialing := s.dialing.filter (· != p),
                                   dials := s.dials.filter (fun d => d.1 != p), ctx := s.ctx ++ [p] } : State) = S1
        generalize hacts : dialActions { s with connected := s.connected ++ [p],
                                                dialing := s.dialing.filter (· != p) } p = acts0
        have hd1 : ∀ q p', dcnt S1 q p' = if p' = p then 0 else dcnt s q p' := by
          intro q p'
          subst hS1
          unfold dcnt
          simp only []
          exact countP_filter_key s.dials (·.1) _ p p'
            (by intro x hx; simpa using ((Bool.and_eq_true _ _).mp hx).2)
        have ha1 : ∀ q p', acnt S1 q p' = acnt s q p' := by intro q p'; subst hS1; rfl
        have hf1 : ∀ q p', fcnt S1 q p' = fcnt s q p' := by intro q p'; subst hS1; rfl
        have he1 : S1.engine = s.engine := by subst hS1; rfl
        have hn1 : S1.nextQid = s.nextQid := by subst hS1; rfl
        have hfu1 : S1.futs = s.futs := by subst hS1; rfl
        have hda : ∀ q, acts0.countP (·.q == q) = dcnt s q p := by
          intro q; subst hacts; exact dialActions_countP _ p q
        have hfields := drainDials_fields p S1 acts0 outs
        have key : ∀ q p', cnt (drainDials p S1 acts0 outs) q p' +
            (if p' = p then (drainFailed acts0 outs).countP (·.q == q) else 0) = cnt s q p' := by
          intro q p'
          have e1 : dcnt (drainDials p S1 acts0 outs) q p' = dcnt S1 q p' := by unfold dcnt; rw [hfields.1]
          have e2 : fcnt (drainDials p S1 acts0 outs) q p' = fcnt S1 q p' := by unfold fcnt; rw [hfields.2.1]
          unfold cnt
          rw [e1, e2, hd1, hf1]
          by_cases hp : p' = p
          · subst hp
            have := drainDials_acnt_eq p' S1 acts0 outs q
            rw [ha1, hda] at this
            simp only [if_true]
            omega
          · rw [drainDials_acnt_ne p S1 acts0 outs q p' hp, ha1]
            simp only [if_neg hp]
            omega
        refine h.preserve_drop (fun q p' => p' = p ∧ ∃ a ∈ drainFailed acts0 outs, a.q = q)
          (drainDials_shrT _ p S1 acts0 outs (fun a ha => ⟨rfl, a, ha, rfl⟩) _ (he1 ▸ .refl _)) ?_ ?_ ?_ ?_
        · rw [hfields.2.2, hn1]
        · intro q p'
          have := key q p'
          omega
        · rintro q p' ⟨hp, a, ha, hq⟩
          have := key q p'
          rw [if_pos hp] at this
          have hpos : 0 < (drainFailed acts0 outs).countP (·.q == q) :=
            List.countP_pos_iff.mpr ⟨a, ha, by simp [hq]⟩
          omega
        · intro f hf
          rw [hfields.2.1, hfu1] at hf
          exact hf


/-! ## `on_outbound_substream` -/

/-- A pending substream action becomes an executor future. -/
theorem cnt_move {s s' : State} (R : Peer × Sid × PAction → Bool) (x : Peer × Sid × PAction) (k : FKind)
    (hx : x ∈ s.actions) (hR : R x = true) (hd : s'.dials = s.dials)
    (ha : s'.actions = s.actions.filter (fun y => !R y)) (hf : s'.futs = s.futs ++ [⟨x.1, x.2.2.q, k⟩])
    (q : Qid) (p : Peer) : cnt s' q p ≤ cnt s q p := by
  unfold cnt dcnt acnt fcnt
  rw [hd, ha, hf, List.countP_append, List.countP_singleton]
  have hle : (s.actions.filter (fun y => !R y)).countP (fun a => a.2.2.q == q && a.1 == p) ≤
      s.actions.countP (fun a => a.2.2.q == q && a.1 == p) := (List.filter_sublist).countP_le
  split
  · rename_i hc
    have := countP_filter_not_lt s.actions (fun a => a.2.2.q == q && a.1 == p) R x hx (by simpa using hc) hR
    omega
  · omega

theorem cnt_drop {s s' : State} (hd : s'.dials = s.dials) (ha : s'.actions.Sublist s.actions) (hf : s'.futs = s.futs)
    (q : Qid) (p : Peer) : cnt s' q p ≤ cnt s q p := by
  unfold cnt dcnt acnt fcnt
  rw [hd, hf]
  have := ha.countP_le (p := fun a => a.2.2.q == q && a.1 == p)
  omega

theorem LInv.subOpened {s : State} (h : LInv s) (hN : (ids s.engine).Nodup) (sid : Sid) : LInv (subOpened s sid).1 := by
  have drop : ∀ s' : State, s'.engine = s.engine → s'.nextQid = s.nextQid → s'.dials = s.dials →
      s'.actions.Sublist s.actions → s'.futs = s.futs → LInv s' := by
    intro s' he hn hd ha hf
    exact h.preserve_drop (fun _ _ => False) (he ▸ .refl _) hn (cnt_drop hd ha hf) (fun _ _ hc => hc.elim)
      (fun _ hx => hf ▸ hx)
  unfold Coordinator.subOpened
  split
  · exact h
  · rename_i sid0 p hfind
    simp only []
    split
    · cases hact : actionAt { s with opening := s.opening.filter (fun o => o.1 != sid),
                                     pendingSubs := s.pendingSubs.filter (fun x => x.1 != sid) } p sid with
      | none => exact drop _ rfl rfl rfl (List.Sublist.refl _) rfl
      | some a =>
        simp only []
        -- the action found
        obtain ⟨x, hx, hRx, hxa⟩ : ∃ x ∈ s.actions, (x.1 == p && x.2.1 == sid) = true ∧ x.2.2 = a := by
          unfold actionAt at hact
          simp only [] at hact
          cases hfa : s.actions.find? (fun a => a.1 == p && a.2.1 == sid) with
          | none => rw [hfa] at hact; simp at hact
          | some x =>
            rw [hfa] at hact
            exact ⟨x, List.mem_of_find?_eq_some hfa, by simpa using List.find?_some hfa, by simpa using hact⟩
        have hx1 : x.1 = p := by simpa using ((Bool.and_eq_true _ _).mp hRx).1
        have moved : ∀ (k : FKind) (s' : State), s'.engine = s.engine → s'.nextQid = s.nextQid → s'.dials = s.dials →
            s'.actions = s.actions.filter (fun y => !(y.1 == p && y.2.1 == sid)) →
            s'.futs = s.futs ++ [⟨p, a.q, k⟩] →
            (k = .reqResp → nextPeerAction s.engine a.q p = true) → LInv s' := by
          intro k s' he hn hd ha hf hk
          refine h.preserve_env (fun _ _ => False) (he ▸ .refl _) hn
            (cnt_move (fun y => y.1 == p && y.2.1 == sid) x k hx hRx hd ha (by rw [hf, hx1, hxa]))
            (fun _ _ hc => hc.elim) ?_
          intro x' hx' hlk p0 hfut
          rw [hf] at hfut
          rcases List.mem_append.mp hfut with hfut | hfut
          · exact hfut
          · exfalso
            simp only [List.mem_singleton, Fut.mk.injEq] at hfut
            obtain ⟨_, hq, hkk⟩ := hfut
            have hnp := hk hkk.symm
            rw [he] at hx'
            have hfq := findQ_of_mem hN hx'
            unfold nextPeerAction at hnp
            rw [← hq, hfq] at hnp
            obtain ⟨xi, xk, xs⟩ := x'
            cases xs with
            | lookup => simp [QState.isLookup] at hlk
            | tracker b t => simp at hnp
        cases hk : a.kind with
        | findNode =>
          simp only []
          split
          · rename_i hnp
            exact moved .reqResp _ rfl rfl rfl rfl rfl (fun _ => hnp)
          · exact drop _ rfl rfl rfl List.filter_sublist rfl
        | putValue =>
          simp only []
          exact moved .putEat _ rfl rfl rfl rfl rfl (fun hc => by cases hc)
        | addProvider =>
          simp only []
          exact moved .sendMsg _ rfl rfl rfl rfl rfl (fun hc => by cases hc)
    · exact drop _ rfl rfl rfl (List.Sublist.refl _) rfl


/-! ## User commands and engine actions -/

theorem cnt_congr {s s' : State} (hd : s'.dials = s.dials) (ha : s'.actions = s.actions) (hf : s'.futs = s.futs)
    (q : Qid) (p : Peer) : cnt s' q p = cnt s q p := by
  unfold cnt dcnt acnt fcnt
  rw [hd, ha, hf]

/-- Queries only leave the engine, nothing else changes (but ledgers and the query-id counter). -/
theorem LInv.subEngine {s s' : State} (h : LInv s) (he : ∀ x ∈ s'.engine, x ∈ s.engine)
    (hn : s.nextQid ≤ s'.nextQid) (hd : s'.dials = s.dials) (ha : s'.actions = s.actions)
    (hf : s'.futs = s.futs) : LInv s' := by
  refine ⟨?_, ?_, ?_⟩
  · intro q p hq
    rw [cnt_congr hd ha hf]
    exact h.fresh q p (Nat.le_trans hn hq)
  · intro x hx hl p
    rw [cnt_congr hd ha hf]
    exact h.one x (he x hx) hl p
  · intro x hx hl p hp
    rw [hf]
    exact h.noReq x (he x hx) hl p hp

theorem LInv.startLookup {s : State} (h : LInv s) (kind : QKind) (key : Nat) (quorum : Quorum) :
    LInv (startLookup s kind key quorum) := by
  unfold Coordinator.startLookup
  refine ⟨?_, ?_, ?_⟩
  · intro q p hq
    show cnt s q p = 0
    exact h.fresh q p (Nat.le_of_succ_le hq)
  · intro x hx hl p
    show cnt s x.id p ≤ _
    rcases List.mem_append.mp hx with hx | hx
    · exact h.one x hx hl p
    · simp only [List.mem_singleton] at hx
      subst hx
      rw [h.fresh _ p (Nat.le_refl _)]
      exact Nat.zero_le _
  · intro x hx hl p hp
    rcases List.mem_append.mp hx with hx | hx
    · exact h.noReq x hx hl p hp
    · simp only [List.mem_singleton] at hx
      subst hx
      simp [QState.isLookup] at hl

theorem LInv.command {s : State} (h : LInv s) (c : Cmd) : LInv (command s c) := by
  cases c <;> simp only [Coordinator.command]
  · exact h.startLookup _ _ _
  · apply LInv.startLookup
    exact h.subEngine (fun _ hx => hx) (Nat.le_refl _) rfl rfl rfl
  · exact h.startLookup _ _ _
  · split
    · exact h.subEngine (fun _ hx => hx) (Nat.le_succ _) rfl rfl rfl
    · exact h.startLookup _ _ _
  · exact h.startLookup _ _ _
  · exact h.startLookup _ _ _

theorem cnt_openSub (s : State) (p : Peer) (a : PAction) (q' : Qid) (p' : Peer) :
    cnt (openSub s p a) q' p' = cnt s q' p' + if (a.q = q' ∧ p = p') then 1 else 0 := by
  unfold cnt dcnt acnt fcnt openSub
  simp only [List.countP_append, List.countP_singleton, Bool.and_eq_true, beq_iff_eq]
  omega

theorem cnt_osd (s : State) (p : Peer) (a : PAction) (o : OsdIn) (q' : Qid) (p' : Peer) :
    cnt (osd s p a o).1 q' p' = cnt s q' p' + if ((osd s p a o).2 = true ∧ a.q = q' ∧ p = p') then 1 else 0 := by
  unfold osd
  split
  · rw [cnt_openSub]; simp
  · split
    · unfold cnt dcnt acnt fcnt
      simp only [List.countP_append, List.countP_singleton, Bool.and_eq_true, beq_iff_eq, true_and]
      omega
    · split
      · rw [cnt_openSub]; simp
      · simp
    · simp

theorem osd_futs (s : State) (p : Peer) (a : PAction) (o : OsdIn) : (osd s p a o).1.futs = s.futs := by
  unfold osd openSub
  split
  · rfl
  · split
    · rfl
    · split <;> rfl
    · rfl

theorem fanOut_futs (k : AKind) (q : Qid) (s : State) (ps : List Peer) (outs : List OsdIn) :
    (fanOut k q s ps outs).1.futs = s.futs := by
  induction ps generalizing s outs with
  | nil => rfl
  | cons p ps ih => simp only [fanOut]; rw [ih, osd_futs]

theorem cnt_fanOut_ne (k : AKind) (q : Qid) (s : State) (ps : List Peer) (outs : List OsdIn) (q' : Qid) (p' : Peer)
    (hq : q ≠ q') : cnt (fanOut k q s ps outs).1 q' p' = cnt s q' p' := by
  induction ps generalizing s outs with
  | nil => rfl
  | cons p ps ih =>
    simp only [fanOut]
    rw [ih, cnt_osd]
    simp [hq]

theorem ite_le_ite_of_imp {a b : Prop} [Decidable a] [Decidable b] (h : a → b) :
    (if a then 1 else 0) ≤ (if b then 1 else 0 : Nat) := by
  by_cases ha : a
  · rw [if_pos ha, if_pos (h ha)]; exact Nat.le_refl _
  · rw [if_neg ha]; exact Nat.zero_le _

theorem LInv.engineStep {s s' : State} (h : LInv s) (hL : Ledger s) {act : EAct} {outs : List OsdIn}
    (hstep : engineStep s act outs = some s') : LInv s' := by
  unfold Coordinator.engineStep at hstep
  cases act with
  | send q p =>
    simp only at hstep
    split at hstep
    · rename_i qi key kind quorum ps hfq
      split at hstep
      · exact absurd hstep (by simp)
      · rename_i hguard
        injection hstep with hstep
        subst hstep
        have hx0 := findQ_mem hfq
        have hqi : qi = q := hx0.2
        subst hqi
        have hpps : p ∉ ps := fun hc => hguard (.inr hc)
        have hqlt : (qi : Nat) < s.nextQid := hL.idsLt qi (List.mem_map.mpr ⟨_, hx0.1, rfl⟩)
        have hcnt0 : cnt s qi p = 0 := by
          have := h.one _ hx0.1 rfl p
          simp [QState.pending, hpps] at this
          omega
        generalize hE1 : updQ s.engine qi (fun _ => QState.lookup kind quorum (ps ++ [p])) = E1
        generalize ho : outs.headD default = o
        -- the state after `open_substream_or_dial`
        have hcnt : ∀ q' p', cnt (sendMessage { s with engine := E1 } qi p o) q' p' =
            cnt s q' p' + if ((osd { s with engine := E1 } p ⟨.findNode, qi⟩ o).2 = true ∧ qi = q' ∧ p = p') then 1 else 0 := by
          intro q' p'
          have := cnt_osd { s with engine := E1 } p ⟨.findNode, qi⟩ o q' p'
          unfold sendMessage
          split
          · exact this
          · exact this
        have hfuts : (sendMessage { s with engine := E1 } qi p o).futs = s.futs := by
          unfold sendMessage
          split
          · exact osd_futs ..
          · exact osd_futs { s with engine := E1 } p ⟨.findNode, qi⟩ o
        have hnq : (sendMessage { s with engine := E1 } qi p o).nextQid = s.nextQid :=
          (sendMessage_same { s with engine := E1 } qi p o s ⟨rfl, rfl, rfl, rfl, rfl⟩).nextQid
        have hsh : ShrT (fun q0 p0 => ¬ (osd { s with engine := E1 } p ⟨.findNode, qi⟩ o).2 = true ∧ q0 = qi ∧ p0 = p)
            E1 (sendMessage { s with engine := E1 } qi p o).engine := by
          unfold sendMessage
          split
          · rw [osd_engine]; exact .refl _
          · rename_i hok
            simp only [osd_engine]
            exact ShrT.bothFail _ _ _ ⟨hok, rfl, rfl⟩
        -- queries of `E1`
        have hE1mem : ∀ x1 ∈ E1, ∃ x ∈ s.engine, x1.id = x.id ∧
            ((x.id ≠ qi ∧ x1.st = x.st) ∨ (x.id = qi ∧ x1.st = .lookup kind quorum (ps ++ [p]))) := by
          intro x1 hx1
          rw [← hE1] at hx1
          obtain ⟨x, hx, hid, _, hst⟩ := mem_updQ hx1
          exact ⟨x, hx, hid, hst⟩
        refine ⟨?_, ?_, ?_⟩
        · intro q' p' hq'
          have hq'' : s.nextQid ≤ q' := hnq ▸ hq'
          rw [hcnt, h.fresh q' p' hq'']
          have : qi ≠ q' := fun hc => by subst hc; exact Nat.lt_irrefl _ (Nat.lt_of_lt_of_le hqlt hq'')
          simp [this]
        · intro x' hx' hlk p0
          obtain ⟨x1, hx1, hid1, hl1, hsub1, hsup1⟩ := hsh.lookups x' hx' hlk
          obtain ⟨x, hx, hid, hst⟩ := hE1mem x1 hx1
          rw [hcnt, ← hid1, hid]
          rcases hst with ⟨hne, hst⟩ | ⟨heq, hst⟩
          · have hno : ¬ ((osd { s with engine := E1 } p ⟨.findNode, qi⟩ o).2 = true ∧ qi = x.id ∧ p = p0) :=
              fun hc => hne hc.2.1.symm
            rw [if_neg hno, Nat.add_zero]
            refine Nat.le_trans (h.one x hx (hst ▸ hl1) p0) (ite_le_ite_of_imp ?_)
            intro hp0
            rcases hsup1 p0 (hst ▸ hp0) with hc | ⟨_, hc, _⟩
            · exact hc
            · exact absurd (hid.symm.trans hc) hne
          · by_cases hp0 : p0 = p
            · subst hp0
              rw [heq, hcnt0, Nat.zero_add]
              by_cases hok : (osd { s with engine := E1 } p0 ⟨.findNode, qi⟩ o).2 = true
              · refine ite_le_ite_of_imp (fun _ => ?_)
                have : p0 ∈ x1.st.pending := by rw [hst]; simp [QState.pending]
                rcases hsup1 p0 this with hc | ⟨hc, _⟩
                · exact hc
                · exact absurd hok hc
              · have : ¬ ((osd { s with engine := E1 } p0 ⟨.findNode, qi⟩ o).2 = true ∧ qi = qi ∧ p0 = p0) :=
                  fun hc => hok hc.1
                rw [if_neg this]
                exact Nat.zero_le _
            · have hno : ¬ ((osd { s with engine := E1 } p ⟨.findNode, qi⟩ o).2 = true ∧ qi = x.id ∧ p = p0) :=
                fun hc => hp0 hc.2.2.symm
              rw [if_neg hno, Nat.add_zero]
              have hxx : x = ⟨qi, key, .lookup kind quorum ps⟩ := by
                have := findQ_of_mem hL.idsNodup hx
                rw [heq, hfq] at this
                exact (Option.some.inj this).symm
              have hone := h.one x hx (by rw [hxx]; rfl) p0
              refine Nat.le_trans hone (ite_le_ite_of_imp ?_)
              intro hp0'
              have : p0 ∈ x1.st.pending := by
                rw [hst]
                rw [hxx] at hp0'
                simp only [QState.pending] at hp0' ⊢
                exact List.mem_append_left _ hp0'
              rcases hsup1 p0 this with hc | ⟨_, _, hc⟩
              · exact hc
              · exact absurd hc hp0
        · intro x' hx' hlk p0 hp0
          rw [hfuts]
          obtain ⟨x1, hx1, hid1, hl1, hsub1⟩ := hsh.sub x' hx'
          obtain ⟨x, hx, hid, hst⟩ := hE1mem x1 hx1
          rcases hst with ⟨_, hst⟩ | ⟨_, hst⟩
          · rw [← hid1, hid]
            exact h.noReq x hx (by rw [← hst, hl1, hlk]) p0 (hst ▸ hsub1 p0 hp0)
          · rw [hst] at hl1
            rw [hlk] at hl1
            simp [QState.isLookup] at hl1
    · exact absurd hstep (by simp)
  | lookupDone q ok peers =>
    simp only at hstep
    split at hstep
    · rename_i qi key kind quorum ps hfq
      have fin : ∀ ok, LInv (emit { s with engine := removeQ s.engine q } q ok) := fun ok =>
        h.subEngine (fun x hx => (List.mem_filter.mp hx).1) (Nat.le_refl _) rfl rfl rfl
      split at hstep
      · split at hstep
        · exact absurd hstep (by simp)
        · injection hstep with hstep; subst hstep; exact fin false
      · split at hstep
        · injection hstep with hstep; subst hstep; exact fin true
        · injection hstep with hstep; subst hstep; exact fin true
        · injection hstep with hstep; subst hstep; exact fin true
        · split at hstep
          · exact absurd hstep (by simp)
          · rename_i hguard
            injection hstep with hstep
            subst hstep
            have hx0 := findQ_mem hfq
            have hqi : qi = q := hx0.2
            subst hqi
            have hqlt : (qi : Nat) < s.nextQid := hL.idsLt qi (List.mem_map.mpr ⟨_, hx0.1, rfl⟩)
            generalize hk : (if kind = QKind.addProvider then AKind.addProvider else AKind.putValue) = k
            generalize hR : fanOut k qi { s with engine := removeQ s.engine qi } peers outs = R
            have hRe : R.1.engine = removeQ s.engine qi := by rw [← hR]; exact fanOut_engine ..
            have hRf : R.1.futs = s.futs := by rw [← hR]; exact fanOut_futs ..
            have hRn : R.1.nextQid = s.nextQid := by
              rw [← hR]
              exact (fanOut_same k qi { s with engine := removeQ s.engine qi } peers outs s ⟨rfl, rfl, rfl, rfl, rfl⟩).nextQid
            have hRc : ∀ q' p', qi ≠ q' → cnt R.1 q' p' = cnt s q' p' := by
              intro q' p' hne
              rw [← hR, cnt_fanOut_ne k qi _ peers outs q' p' hne]
              rfl
            have hsh : ShrT (fun _ _ => False)
                (R.1.engine ++ [⟨qi, key, .tracker (kind != .addProvider) (Tracker.new peers quorum)⟩])
                (startTracking R qi key (kind != .addProvider) peers quorum).engine := by
              unfold startTracking
              simp only []
              exact ShrT.foldl _ _ (fun p _ e => .sendFail qi p (.refl e)) _
            have hcnt' : ∀ q' p', cnt (startTracking R qi key (kind != .addProvider) peers quorum) q' p' = cnt R.1 q' p' :=
              fun _ _ => rfl
            refine ⟨?_, ?_, ?_⟩
            · intro q' p' hq'
              have hq'' : s.nextQid ≤ q' := by
                have : (startTracking R qi key (kind != .addProvider) peers quorum).nextQid = R.1.nextQid := rfl
                omega
              rw [hcnt', hRc q' p' (fun hc => by subst hc; exact Nat.lt_irrefl _ (Nat.lt_of_lt_of_le hqlt hq''))]
              exact h.fresh q' p' hq''
            · intro x' hx' hlk p0
              obtain ⟨x1, hx1, hid1, hl1, _, hsup1⟩ := hsh.lookups x' hx' hlk
              rcases List.mem_append.mp hx1 with hx1 | hx1
              · rw [hRe] at hx1
                have hm := List.mem_filter.mp hx1
                have hne : qi ≠ x1.id := by
                  intro hc
                  have := hm.2
                  simp [hc] at this
                rw [hcnt', ← hid1, hRc _ _ hne]
                refine Nat.le_trans (h.one x1 hm.1 hl1 p0) (ite_le_ite_of_imp ?_)
                intro hp0
                rcases hsup1 p0 hp0 with hc | hc
                · exact hc
                · exact hc.elim
              · simp only [List.mem_singleton] at hx1
                subst hx1
                simp [QState.isLookup] at hl1
            · intro x' hx' hlk p0 hp0
              show _ ∉ R.1.futs
              rw [hRf]
              obtain ⟨x1, hx1, hid1, hl1, hsub1⟩ := hsh.sub x' hx'
              rcases List.mem_append.mp hx1 with hx1 | hx1
              · rw [hRe] at hx1
                rw [← hid1]
                exact h.noReq x1 (List.mem_filter.mp hx1).1 (hl1.trans hlk) p0 (hsub1 p0 hp0)
              · simp only [List.mem_singleton] at hx1
                subst hx1
                have hp0' : p0 ∈ peers := List.mem_eraseDups.mp (hsub1 p0 hp0)
                have hnps : p0 ∉ ps := by
                  intro hc
                  apply hguard
                  exact List.any_eq_true.mpr ⟨p0, hp0', by simpa using hc⟩
                have hc0 : cnt s qi p0 = 0 := by
                  have := h.one _ hx0.1 rfl p0
                  simp [QState.pending, hnps] at this
                  omega
                rw [← hid1]
                exact not_mem_futs_of_cnt hc0 _
    · exact absurd hstep (by simp)
  | partialResult q =>
    simp only at hstep
    split at hstep
    · injection hstep with hstep; subst hstep; exact h
    · exact absurd hstep (by simp)
  | trackerDone q =>
    simp only at hstep
    split at hstep
    · split at hstep
      · split at hstep
        · injection hstep with hstep
          subst hstep
          exact h.subEngine (fun x hx => (List.mem_filter.mp hx).1) (Nat.le_refl _) rfl rfl rfl
        · injection hstep with hstep
          subst hstep
          exact h.subEngine (fun x hx => (List.mem_filter.mp hx).1) (Nat.le_refl _) rfl rfl rfl
      · exact absurd hstep (by simp)
    · exact absurd hstep (by simp)

theorem LInv.step {s s' : State} (h : LInv s) (hL : Ledger s) {l : Label} (hstep : step s l = some s') : LInv s' := by
  cases l with
  | cmd c => injection hstep with hstep; subst hstep; exact h.command c
  | engine a outs => exact h.engineStep hL hstep
  | established p outs => injection hstep with hstep; subst hstep; exact h.established p outs
  | closed p => injection hstep with hstep; subst hstep; exact h.closed p
  | dialFailure p => injection hstep with hstep; subst hstep; exact h.dialFailure p
  | subOpened sid => injection hstep with hstep; subst hstep; exact h.subOpened hL.idsNodup sid
  | subOpenFailure sid => injection hstep with hstep; subst hstep; exact h.subOpenFailure sid
  | result f r => injection hstep with hstep; subst hstep; exact h.execResult f r
  | inbound p =>
    injection hstep with hstep; subst hstep
    unfold inbound
    split
    · exact h.subEngine (fun _ hx => hx) (Nat.le_refl _) rfl rfl rfl
    · exact h
  | inboundFailed p => injection hstep with hstep; subst hstep; exact h.inboundFailed p
  | setStored keys =>
    injection hstep with hstep; subst hstep
    exact h.subEngine (fun _ hx => hx) (Nat.le_refl _) rfl rfl rfl

theorem LInv.reachable {s : State} (h : Reachable s) : LInv s := by
  induction h with
  | init => exact LInv.init
  | step l hr hstep ih => exact ih.step (Ledger.reachable hr) hstep


/-- What a tracker counted is backed by send-success results of PUT_VALUE / ADD_PROVIDER futures. -/
theorem QuorumInv.reachable {s : State} (h : Reachable s) : QuorumInv s := by
  induction h with
  | init => exact ⟨fun _ hx => absurd hx (by simp), fun _ hr => absurd hr (by simp)⟩
  | step l hr hstep ih => exact ih.step (LInv.reachable hr).noReq hstep

end Litep2pVerif.Kad.Coordinator
