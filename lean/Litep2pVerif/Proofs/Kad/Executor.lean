import Litep2pVerif.Model.Kad.Executor
/-!
# Lemmas about the executor model (`Model/Kad/Executor.lean`)

Invariant of the pool: every submitted id is either pending or was yielded exactly once; a pending future is well
formed, its deadline lies in the future and its horizon is at most `submission + w + r`; a yielded result is one its
kind allows and was yielded no later than `submission + w + r`.
-/
namespace Litep2pVerif.Kad.Executor

/-- The phase fits the kind. -/
def Fut.WF (f : Fut) : Prop :=
  match f.phase with
  | .writing _ => f.kind ≠ .read
  | .reading _ => f.kind ≠ .send ∧ f.kind ≠ .sendEat
  | .done => True

/-- The deadline of a pending future has not passed. -/
def Fut.Live (f : Fut) (now : Nat) : Prop :=
  match f.phase with
  | .writing dl => now < dl
  | .reading dl => now < dl
  | .done => False

theorem applyDue_id (f : Fut) (now : Nat) : (f.applyDue now).id = f.id ∧ (f.applyDue now).kind = f.kind ∧
    (f.applyDue now).phase = f.phase ∧ (f.applyDue now).big = f.big := ⟨rfl, rfl, rfl, rfl⟩

theorem readResult_allowed {k : Kind} (hk : k ≠ .send ∧ k ≠ .sendEat) {o : ReadOut} {res : Res}
    (h : readResult k o = some res) : Res.allowed k res = true := by
  cases k <;> cases o <;> simp [readResult] at h <;> subst h <;> simp_all [Res.allowed]

/-- One poll: identity and kind are kept; a result is allowed by the kind; a future that stays pending is well formed,
live, and its horizon did not grow — provided it was polled no later than its deadline. -/
theorem poll_spec (f : Fut) (now r : Nat) (hwf : f.WF) (hlive : ∀ dl, f.phase = .writing dl → now ≤ dl) :
    (f.poll now r).1.id = f.id ∧ (f.poll now r).1.kind = f.kind ∧
    (∀ res, (f.poll now r).2 = some res → Res.allowed f.kind res = true) ∧
    ((f.poll now r).2 = none → f.phase ≠ .done →
      (f.poll now r).1.WF ∧ (f.poll now r).1.Live now ∧ (f.poll now r).1.horizon r ≤ f.horizon r) := by
  unfold Fut.poll
  cases hp : f.phase with
  | done => simp [hp]
  | reading dl =>
    simp only []
    have hk : f.kind ≠ .send ∧ f.kind ≠ .sendEat := by simpa [Fut.WF, hp] using hwf
    cases hrr : readResult f.kind (pollRead f.pipe now dl) with
    | some res =>
      simp only []
      exact ⟨by first | rfl | trivial, by first | rfl | trivial, fun res' h => by injection h with h; subst h; exact readResult_allowed hk hrr, by simp⟩
    | none =>
      simp only []
      refine ⟨by first | rfl | trivial, by first | rfl | trivial, by simp, fun _ _ => ⟨hwf, ?_, Nat.le_refl _⟩⟩
      have : pollRead f.pipe now dl = .pending := by
        cases h : pollRead f.pipe now dl <;> simp [readResult, h] at hrr; rfl
      unfold pollRead at this
      simp only [Fut.Live, hp]
      split at this
      · simp at this
      · split at this <;> try simp at this
        split at this
        · simp at this
        · split at this
          · simp at this
          · omega
  | writing dl =>
    simp only []
    have hk : f.kind ≠ .read := by simpa [Fut.WF, hp] using hwf
    have hnow := hlive dl hp
    cases hw : pollWrite f.big f.pipe now dl with
    | pending =>
      simp only []
      refine ⟨by first | rfl | trivial, by first | rfl | trivial, by simp, fun _ _ => ⟨hwf, ?_, Nat.le_refl _⟩⟩
      simp only [Fut.Live, hp]
      unfold pollWrite at hw
      split at hw
      · simp at hw
      · split at hw
        · simp at hw
        · split at hw
          · simp at hw
          · split at hw
            · simp at hw
            · omega
    | timeout =>
      simp only []
      refine ⟨by first | rfl | trivial, by first | rfl | trivial, fun res h => ?_, by simp⟩
      injection h with h; subst h
      cases hkk : f.kind <;> simp_all [Res.allowed]
    | closed =>
      simp only []
      refine ⟨by first | rfl | trivial, by first | rfl | trivial, fun res h => ?_, by simp⟩
      injection h with h; subst h
      cases hkk : f.kind <;> simp_all [Res.allowed]
    | ok =>
      simp only []
      split
      · rename_i hs
        refine ⟨by first | rfl | trivial, by first | rfl | trivial, fun res h => ?_, by simp⟩
        injection h with h; subst h
        rcases hs with hs | hs <;> simp [hs, Res.allowed]
      · rename_i hs
        have hk2 : f.kind ≠ .send ∧ f.kind ≠ .sendEat := by
          constructor <;> intro h <;> exact hs (by simp [h])
        cases hrr : readResult f.kind (pollRead f.pipe now (now + r)) with
        | some res =>
          simp only []
          exact ⟨by first | rfl | trivial, by first | rfl | trivial, fun res' h => by injection h with h; subst h; exact readResult_allowed hk2 hrr, by simp⟩
        | none =>
          simp only []
          refine ⟨by first | rfl | trivial, by first | rfl | trivial, by simp, fun _ _ => ⟨?_, ?_, ?_⟩⟩
          · simpa [Fut.WF] using hk2
          · have : pollRead f.pipe now (now + r) = .pending := by
              cases h : pollRead f.pipe now (now + r) <;> simp [readResult, h] at hrr; rfl
            unfold pollRead at this
            simp only [Fut.Live]
            split at this
            · simp at this
            · split at this <;> try simp at this
              split at this
              · simp at this
              · split at this
                · simp at this
                · omega
          · simp only [Fut.horizon, hp]; omega

theorem poll_spec_id (f : Fut) (now r : Nat) : (f.poll now r).1.id = f.id := by
  unfold Fut.poll
  split
  · rfl
  · split <;> rfl
  · split
    · rfl
    · rfl
    · rfl
    · split
      · rfl
      · split <;> rfl

/-- A poll at or after the horizon of a live-so-far future yields. -/
theorem poll_yields_at_horizon (f : Fut) (now r : Nat) (hne : f.phase ≠ .done)
    (hlive : ∀ dl, f.phase = .writing dl → now ≤ dl) (hh : f.horizon r ≤ now) : (f.poll now r).2 ≠ none := by
  unfold Fut.poll
  cases hp : f.phase with
  | done => exact absurd hp hne
  | reading dl =>
    simp only []
    have hdl : dl ≤ now := by simpa [Fut.horizon, hp] using hh
    have : pollRead f.pipe now dl ≠ .pending := by
      unfold pollRead
      split
      · simp
      · split <;> try simp
        split
        · simp
        · simp [hdl]
    cases h : pollRead f.pipe now dl <;> simp_all [readResult]
  | writing dl =>
    -- `dl + r ≤ now ≤ dl`: only with `r = 0`, where the read deadline `now + 0` has passed as well
    simp only []
    have h1 := hlive dl hp
    have h2 : dl + r ≤ now := by simpa [Fut.horizon, hp] using hh
    have hr : r = 0 := by omega
    have hdl : dl ≤ now := by omega
    have hw : pollWrite f.big f.pipe now dl ≠ .pending := by
      unfold pollWrite
      split
      · simp
      · split
        · simp
        · split
          · simp
          · simp [hdl]
    cases hw' : pollWrite f.big f.pipe now dl with
    | pending => exact absurd hw' hw
    | timeout => simp
    | closed => simp
    | ok =>
      simp only []
      split
      · simp
      · have : pollRead f.pipe now (now + r) ≠ .pending := by
          unfold pollRead
          split
          · simp
          · split <;> try simp
            split
            · simp
            · simp [hr]
        cases h : pollRead f.pipe now (now + r) <;> simp_all [readResult]

/-! ## The pool -/

theorem pollAll_spec (now r : Nat) (fs : List Fut)
    (h : ∀ f ∈ fs, f.WF ∧ f.phase ≠ .done ∧ ∀ dl, f.phase = .writing dl → now ≤ dl) :
    ((pollAll now r fs).1.map (·.id) ++ (pollAll now r fs).2.map (·.1)).Perm (fs.map (·.id)) ∧
    (∀ f' ∈ (pollAll now r fs).1, ∃ f ∈ fs, f'.id = f.id ∧ f'.kind = f.kind ∧ f'.WF ∧ f'.Live now ∧
        f'.horizon r ≤ f.horizon r) ∧
    (∀ d ∈ (pollAll now r fs).2, ∃ f ∈ fs, d.1 = f.id ∧ Res.allowed f.kind d.2.1 = true ∧ d.2.2.2 = now) := by
  induction fs with
  | nil => simp [pollAll]
  | cons f fs ih =>
    have ih := ih (fun g hg => h g (List.mem_cons_of_mem _ hg))
    have hf := h f List.mem_cons_self
    have hs := poll_spec f now r hf.1 hf.2.2
    unfold pollAll
    cases hp : f.poll now r with
    | mk f' o =>
      rw [hp] at hs
      cases o with
      | none =>
        simp only []
        have hs4 := hs.2.2.2 rfl hf.2.1
        refine ⟨?_, ?_, ?_⟩
        · simp only [List.map_cons, List.cons_append]
          rw [hs.1]
          exact ih.1.cons _
        · intro g hg
          rcases List.mem_cons.mp hg with hg | hg
          · subst hg
            exact ⟨f, List.mem_cons_self, hs.1, hs.2.1, hs4.1, hs4.2.1, hs4.2.2⟩
          · obtain ⟨f0, hf0, rest⟩ := ih.2.1 g hg
            exact ⟨f0, List.mem_cons_of_mem _ hf0, rest⟩
        · intro d hd
          obtain ⟨f0, hf0, rest⟩ := ih.2.2 d hd
          exact ⟨f0, List.mem_cons_of_mem _ hf0, rest⟩
      | some res =>
        simp only []
        refine ⟨?_, ?_, ?_⟩
        · simp only [List.map_cons]
          rw [hs.1]
          exact (List.perm_middle).trans (ih.1.cons _)
        · intro g hg
          obtain ⟨f0, hf0, rest⟩ := ih.2.1 g hg
          exact ⟨f0, List.mem_cons_of_mem _ hf0, rest⟩
        · intro d hd
          rcases List.mem_cons.mp hd with hd | hd
          · subst hd
            exact ⟨f, List.mem_cons_self, hs.1, hs.2.2.1 res rfl, rfl⟩
          · obtain ⟨f0, hf0, rest⟩ := ih.2.2 d hd
            exact ⟨f0, List.mem_cons_of_mem _ hf0, rest⟩

/-- A future still pending after the poll at `now` had its horizon after `now`; one polled at its horizon is yielded. -/
theorem pollAll_pending_before_horizon (now r : Nat) (fs : List Fut)
    (h : ∀ f ∈ fs, f.phase ≠ .done ∧ ∀ dl, f.phase = .writing dl → now ≤ dl) :
    ∀ f' ∈ (pollAll now r fs).1, ∃ f ∈ fs, f'.id = f.id ∧ now < f.horizon r := by
  induction fs with
  | nil => simp [pollAll]
  | cons f fs ih =>
    have ih := ih (fun g hg => h g (List.mem_cons_of_mem _ hg))
    have hf := h f List.mem_cons_self
    unfold pollAll
    cases hp : f.poll now r with
    | mk f' o =>
      cases o with
      | none =>
        simp only []
        intro g hg
        rcases List.mem_cons.mp hg with hg | hg
        · subst hg
          refine ⟨f, List.mem_cons_self, ?_, ?_⟩
          · have := (poll_spec_id f now r); rw [hp] at this; exact this
          · apply Nat.lt_of_not_le
            intro hle
            have := poll_yields_at_horizon f now r hf.1 hf.2 hle
            rw [hp] at this
            exact this rfl
        · obtain ⟨f0, hf0, rest⟩ := ih g hg
          exact ⟨f0, List.mem_cons_of_mem _ hf0, rest⟩
      | some res =>
        simp only []
        intro g hg
        obtain ⟨f0, hf0, rest⟩ := ih g hg
        exact ⟨f0, List.mem_cons_of_mem _ hf0, rest⟩

structure PInv (w r : Nat) (p : Pool) : Prop where
  perm : (p.pending.map (·.id) ++ p.delivered.map (·.1)).Perm (p.submitted.map (·.1))
  nodup : (p.submitted.map (·.1)).Nodup
  pend : ∀ f ∈ p.pending, f.WF ∧ f.Live p.now ∧ ∃ t, (f.id, f.kind, t) ∈ p.submitted ∧ f.horizon r ≤ t + w + r
  deliv : ∀ d ∈ p.delivered, ∃ k t, (d.1, k, t) ∈ p.submitted ∧ Res.allowed k d.2.1 = true ∧ d.2.2.2 ≤ t + w + r
  clock : ∀ x ∈ p.submitted, x.2.2 ≤ p.now

theorem live_pre {f : Fut} {now : Nat} (h : f.Live now) :
    f.phase ≠ .done ∧ ∀ dl, f.phase = .writing dl → now + 1 ≤ dl := by
  unfold Fut.Live at h
  cases hp : f.phase <;> simp_all <;> omega

theorem live_horizon {f : Fut} {now r : Nat} (h : f.Live now) : now + 1 ≤ f.horizon r := by
  unfold Fut.Live at h
  unfold Fut.horizon
  cases hp : f.phase <;> simp_all <;> omega

theorem PInv.tick {w r : Nat} {p : Pool} (h : PInv w r p) : PInv w r (p.tick r) := by
  have hpre : ∀ f ∈ p.pending.map (fun f => f.applyDue (p.now + 1)),
      f.WF ∧ f.phase ≠ .done ∧ ∀ dl, f.phase = .writing dl → p.now + 1 ≤ dl := by
    intro f hf
    obtain ⟨g, hg, rfl⟩ := List.mem_map.mp hf
    have hg' := h.pend g hg
    exact ⟨hg'.1, (live_pre hg'.2.1).1, (live_pre hg'.2.1).2⟩
  have hs := pollAll_spec (p.now + 1) r _ hpre
  have hids : (p.pending.map (fun f => f.applyDue (p.now + 1))).map (·.id) = p.pending.map (·.id) := by
    rw [List.map_map]; rfl
  refine ⟨?_, h.nodup, ?_, ?_, ?_⟩
  · show (((pollAll (p.now + 1) r _).1.map (·.id)) ++ (p.delivered ++ (pollAll (p.now + 1) r _).2).map (·.1)).Perm _
    rw [List.map_append]
    refine List.Perm.trans ?_ h.perm
    rw [← hids]
    refine List.Perm.trans ?_ (hs.1.append_right _)
    rw [List.append_assoc]
    exact List.Perm.append_left _ List.perm_append_comm
  · intro f' hf'
    obtain ⟨f, hf, hid, hkind, hwf, hlive, hhor⟩ := hs.2.1 f' hf'
    obtain ⟨g, hg, rfl⟩ := List.mem_map.mp hf
    obtain ⟨_, _, t, ht, hb⟩ := h.pend g hg
    refine ⟨hwf, hlive, t, ?_, Nat.le_trans hhor hb⟩
    rw [hid, hkind]; exact ht
  · intro d hd
    rcases List.mem_append.mp hd with hd | hd
    · exact h.deliv d hd
    · obtain ⟨f, hf, hid, hall, htime⟩ := hs.2.2 d hd
      obtain ⟨g, hg, rfl⟩ := List.mem_map.mp hf
      obtain ⟨_, hlive, t, ht, hb⟩ := h.pend g hg
      refine ⟨g.kind, t, by rw [hid]; exact ht, hall, ?_⟩
      rw [htime]
      exact Nat.le_trans (live_horizon hlive) hb
  · intro x hx
    exact Nat.le_succ_of_le (h.clock x hx)

theorem PInv.submit {w r : Nat} {p : Pool} (h : PInv w r p) (id : Nat) (kind : Kind) (big : Bool)
    (events : List (Nat × Ev)) (hfresh : id ∉ p.submitted.map (·.1)) : PInv w r (p.submit w r id kind big events) := by
  let f0 : Fut :=
    { id := id, kind := kind, big := big
      phase := if kind = .read then .reading (p.now + r) else .writing (p.now + w)
      evs := events.map (fun e => (p.now + e.1, e.2)) }
  have hpre : ∀ f ∈ [f0.applyDue p.now], f.WF ∧ f.phase ≠ .done ∧ ∀ dl, f.phase = .writing dl → p.now ≤ dl := by
    intro f hf
    simp only [List.mem_singleton] at hf
    subst hf
    by_cases hk : kind = .read
    · simp [Fut.WF, Fut.applyDue, f0, hk]
    · simp only [Fut.WF, Fut.applyDue, f0, hk, if_false]
      refine ⟨hk, by simp, fun dl hdl => ?_⟩
      injection hdl with hdl; omega
  have hs := pollAll_spec p.now r _ hpre
  have hhor : (f0.applyDue p.now).horizon r ≤ p.now + w + r := by
    by_cases hk : kind = .read <;> simp [Fut.horizon, Fut.applyDue, f0, hk] <;> omega
  refine ⟨?_, ?_, ?_, ?_, ?_⟩
  · show ((p.pending ++ (pollAll p.now r _).1).map (·.id) ++ (p.delivered ++ (pollAll p.now r _).2).map (·.1)).Perm
      ((p.submitted ++ [(id, kind, p.now)]).map (·.1))
    simp only [List.map_append]
    have h1 : ((pollAll p.now r [f0.applyDue p.now]).1.map (·.id) ++
        (pollAll p.now r [f0.applyDue p.now]).2.map (·.1)).Perm [id] := hs.1
    have h2 := h.perm.append h1
    refine List.Perm.trans ?_ h2
    simp only [List.append_assoc]
    refine List.Perm.append_left _ ?_
    rw [← List.append_assoc, ← List.append_assoc]
    exact List.Perm.append_right _ List.perm_append_comm
  · show ((p.submitted ++ [(id, kind, p.now)]).map (·.1)).Nodup
    rw [List.map_append, List.nodup_append]
    refine ⟨h.nodup, by simp, ?_⟩
    intro a ha b hb
    simp only [List.map_cons, List.map_nil, List.mem_singleton] at hb
    subst hb
    intro hab; subst hab; exact hfresh ha
  · intro f hf
    rcases List.mem_append.mp hf with hf | hf
    · obtain ⟨hwf, hlive, t, ht, hb⟩ := h.pend f hf
      exact ⟨hwf, hlive, t, List.mem_append_left _ ht, hb⟩
    · obtain ⟨g, hg, hid, hkind, hwf, hlive, hh⟩ := hs.2.1 f hf
      simp only [List.mem_singleton] at hg
      subst hg
      refine ⟨hwf, hlive, p.now, ?_, Nat.le_trans hh hhor⟩
      rw [hid, hkind]
      exact List.mem_append_right _ (List.mem_singleton.mpr rfl)
  · intro d hd
    rcases List.mem_append.mp hd with hd | hd
    · obtain ⟨k, t, ht, rest⟩ := h.deliv d hd
      exact ⟨k, t, List.mem_append_left _ ht, rest⟩
    · obtain ⟨g, hg, hid, hall, htime⟩ := hs.2.2 d hd
      simp only [List.mem_singleton] at hg
      subst hg
      refine ⟨kind, p.now, ?_, hall, by rw [htime]; omega⟩
      rw [hid]
      exact List.mem_append_right _ (List.mem_singleton.mpr rfl)
  · intro x hx
    rcases List.mem_append.mp hx with hx | hx
    · exact h.clock x hx
    · simp only [List.mem_singleton] at hx; subst hx; exact Nat.le_refl _

theorem PInv.reach {w r : Nat} {p : Pool} (h : Reach w r p) : PInv w r p := by
  induction h with
  | init => exact ⟨by simp, by simp, by simp, by simp, by simp⟩
  | submit id kind big events _ hfresh ih => exact ih.submit id kind big events hfresh
  | tick _ ih => exact ih.tick

theorem filter_length_le_one {α} (l : List α) (key : α → Nat) (h : (l.map key).Nodup) (id : Nat) :
    (l.filter (fun d => key d == id)).length ≤ 1 := by
  induction l with
  | nil => simp
  | cons e l ih =>
    simp only [List.map_cons, List.nodup_cons] at h
    simp only [List.filter_cons]
    split
    · rename_i heq
      have hq : key e = id := by simpa using heq
      have : l.filter (fun d => key d == id) = [] := by
        rw [List.filter_eq_nil_iff]
        intro a ha hc
        have : key a = id := by simpa using hc
        exact h.1 (List.mem_map.mpr ⟨a, ha, by rw [this, hq]⟩)
      simp [this]
    · exact ih h.2

theorem filter_length_pos {α} (l : List α) (key : α → Nat) (id : Nat) (h : id ∈ l.map key) :
    1 ≤ (l.filter (fun d => key d == id)).length := by
  obtain ⟨a, ha, hk⟩ := List.mem_map.mp h
  have : a ∈ l.filter (fun d => key d == id) := List.mem_filter.mpr ⟨ha, by simp [hk]⟩
  exact List.length_pos_of_mem this

end Litep2pVerif.Kad.Executor
