import Litep2pVerif.Model.Kad.QueryRun
/-!
# Value and provider lookups: records and providers are reported once, the quorum stops the lookup,
at most `parallelism` requests are in flight (C15)
-/
namespace Litep2pVerif.Kad.Query

/-! ### GetRecordContext -/

theorem kpErase_length_le (p : Nat) (l : List KPeer) : (kpErase p l).length ≤ l.length :=
  List.length_filter_le _ _

theorem GetRecord.schedule_fields (s : GetRecord) :
    s.scheduleNextPeer.1.records = s.records ∧ s.scheduleNextPeer.1.foundRecords = s.foundRecords ∧
    s.scheduleNextPeer.1.knownRecords = s.knownRecords ∧ s.scheduleNextPeer.1.quorum = s.quorum ∧
    s.scheduleNextPeer.1.repl = s.repl ∧ s.scheduleNextPeer.1.par = s.par ∧
    s.scheduleNextPeer.1.pending.length ≤ s.pending.length + 1 := by
  unfold GetRecord.scheduleNextPeer
  split
  · exact ⟨rfl, rfl, rfl, rfl, rfl, rfl, by simp only; omega⟩
  · refine ⟨rfl, rfl, rfl, rfl, rfl, rfl, ?_⟩
    have := kpErase_length_le (by assumption : KPeer).peer s.pending
    simp only [List.length_cons]; omega

/-- Configuration is constant, the number of found records never decreases. -/
theorem GetRecord.step_cfg (s : GetRecord) (e : GREv) :
    (s.step e).1.knownRecords = s.knownRecords ∧ (s.step e).1.quorum = s.quorum ∧
    (s.step e).1.repl = s.repl ∧ (s.step e).1.par = s.par ∧
    s.foundRecords ≤ (s.step e).1.foundRecords := by
  cases e with
  | next =>
    simp only [GetRecord.step]
    unfold GetRecord.nextAction
    split
    · exact ⟨rfl, rfl, rfl, rfl, Nat.le_refl _⟩
    · split
      · exact ⟨rfl, rfl, rfl, rfl, Nat.le_refl _⟩
      · split
        · exact ⟨rfl, rfl, rfl, rfl, Nat.le_refl _⟩
        · split
          · exact ⟨rfl, rfl, rfl, rfl, Nat.le_refl _⟩
          · obtain ⟨_, a, b, c, d, e, _⟩ := s.schedule_fields
            exact ⟨b, c, d, e, by omega⟩
  | resp p r peers =>
    simp only [GetRecord.step]
    unfold GetRecord.registerResponse
    split
    · exact ⟨rfl, rfl, rfl, rfl, Nat.le_refl _⟩
    · refine ⟨rfl, rfl, rfl, rfl, ?_⟩
      simp only
      split <;> omega
  | fail p =>
    simp only [GetRecord.step]
    unfold GetRecord.registerResponseFailure
    split <;> exact ⟨rfl, rfl, rfl, rfl, Nat.le_refl _⟩

theorem GetRecord.sufficient_mono (s s' : GetRecord) (h1 : s'.knownRecords = s.knownRecords)
    (h2 : s'.quorum = s.quorum) (h3 : s'.repl = s.repl) {n n' : Nat} (hn : n ≤ n')
    (h : s.sufficient n = true) : s'.sufficient n' = true := by
  unfold GetRecord.sufficient at h ⊢
  rw [h1, h2, h3]
  cases hq : s.quorum <;> simp only [hq, decide_eq_true_eq] at h ⊢ <;> omega

/-- Once the quorum is met `next_action` never schedules a peer. -/
theorem GetRecord.no_send_when_sufficient (s : GetRecord) (h : s.sufficient s.foundRecords = true) :
    isSend s.nextAction.2 = false := by
  unfold GetRecord.nextAction
  split
  · rfl
  · split
    · split <;> rfl
    · simp [h, isSend]

theorem GetRecord.run_no_send (evs : List GREv) : ∀ (s : GetRecord),
    s.sufficient s.foundRecords = true → sentPeers (s.run evs).2 = [] := by
  induction evs with
  | nil => intro s _; rfl
  | cons e es ih =>
    intro s h
    obtain ⟨c1, c2, c3, _, c5⟩ := s.step_cfg e
    have h' := GetRecord.sufficient_mono s (s.step e).1 c1 c2 c3 c5 h
    simp only [GetRecord.run]
    split
    · rename_i a ha
      have hns : isSend (s.step e).2 = false := by
        cases e with
        | next => exact s.no_send_when_sufficient h
        | resp _ _ _ => rfl
        | fail _ => rfl
      rw [ha] at hns
      cases a with
      | send q p => simp [isSend] at hns
      | succeeded q => simpa [sentPeers] using ih _ h'
      | failed q => simpa [sentPeers] using ih _ h'
      | partialRecord _ _ _ => simpa [sentPeers] using ih _ h'
    · exact ih _ h'

def outRec : Option QAction → List (Nat × Nat)
  | some (.partialRecord _ p v) => [(p, v)]
  | _ => []

theorem GetRecord.schedule_out (s : GetRecord) : outRec s.scheduleNextPeer.2 = [] := by
  unfold GetRecord.scheduleNextPeer
  split <;> rfl

theorem GetRecord.next_records (s : GetRecord) :
    outRec s.nextAction.2 ++ s.nextAction.1.records = s.records := by
  cases hr : s.records with
  | cons x rest => obtain ⟨p, v⟩ := x; simp [GetRecord.nextAction, hr, outRec]
  | nil =>
    unfold GetRecord.nextAction
    simp only [hr]
    split
    · split <;> simp [outRec, hr]
    · split
      · simp [outRec, hr]
      · split
        · simp [outRec, hr]
        · rw [s.schedule_out, s.schedule_fields.1, hr]; rfl

theorem kpLookup_peer {p : Nat} {l : List KPeer} {kp : KPeer} (h : kpLookup p l = some kp) : kp.peer = p := by
  induction l with
  | nil => simp [kpLookup] at h
  | cons y ys ih =>
    simp only [kpLookup] at h
    split at h
    · simp only [Option.some.injEq] at h; subst h; assumption
    · exact ih h

theorem GetRecord.step_records (s : GetRecord) (e : GREv) :
    outRec (s.step e).2 ++ (s.step e).1.records = s.records ++ s.received [e] := by
  cases e with
  | next => simp only [GetRecord.step, GetRecord.received, List.append_nil]; exact s.next_records
  | fail p =>
    simp only [GetRecord.step, GetRecord.received, List.append_nil, outRec, List.nil_append]
    unfold GetRecord.registerResponseFailure
    split <;> rfl
  | resp p r peers =>
    simp only [GetRecord.step, outRec, List.nil_append]
    unfold GetRecord.registerResponse
    split
    · rename_i hl
      cases r with
      | none => simp [GetRecord.received]
      | some rv => obtain ⟨v, b⟩ := rv; cases b <;> simp [GetRecord.received, hl]
    · rename_i kp hl
      have hkp := kpLookup_peer hl
      cases r with
      | none => simp [GetRecord.received]
      | some rv =>
        obtain ⟨v, b⟩ := rv
        cases b
        · simp [GetRecord.received, hl, hkp]
        · simp [GetRecord.received]

theorem GetRecord.received_cons (s : GetRecord) (e : GREv) (es : List GREv) :
    s.received (e :: es) = s.received [e] ++ (s.step e).1.received es := by
  cases e with
  | next => simp [GetRecord.received]
  | fail p => simp [GetRecord.received]
  | resp p r peers =>
    cases r with
    | none => simp [GetRecord.received]
    | some rv =>
      obtain ⟨v, b⟩ := rv
      cases b
      · simp only [GetRecord.received]; split <;> simp
      · simp [GetRecord.received]

theorem reportedRecords_cons (a : QAction) (as : List QAction) :
    reportedRecords (a :: as) = outRec (some a) ++ reportedRecords as := by
  cases a <;> simp [reportedRecords, outRec]

/-- Conservation of records: reported ++ queued = queued before ++ received. -/
theorem GetRecord.run_records (evs : List GREv) : ∀ (s : GetRecord),
    reportedRecords (s.run evs).2 ++ (s.run evs).1.records = s.records ++ s.received evs := by
  induction evs with
  | nil => intro s; simp [GetRecord.run, reportedRecords, GetRecord.received]
  | cons e es ih =>
    intro s
    have hstep := s.step_records e
    have ih' := ih (s.step e).1
    rw [s.received_cons, ← List.append_assoc, ← hstep, List.append_assoc, ← ih', ← List.append_assoc]
    simp only [GetRecord.run]
    split
    · rename_i a ha
      rw [ha, reportedRecords_cons]
    · rename_i ha
      rw [ha]; simp [outRec]

/-- A terminal action is only produced when every queued record has been handed out. -/
theorem GetRecord.terminal_drained (s : GetRecord) (q : Nat)
    (h : s.nextAction.2 = some (.succeeded q) ∨ s.nextAction.2 = some (.failed q)) : s.records = [] := by
  unfold GetRecord.nextAction at h
  split at h
  · simp at h
  · assumption

/-- At most `parallelism` requests in flight. -/
theorem GetRecord.run_pending_le (evs : List GREv) : ∀ (s : GetRecord), s.pending.length ≤ s.par →
    (s.run evs).1.pending.length ≤ s.par := by
  induction evs with
  | nil => intro s h; exact h
  | cons e es ih =>
    intro s h
    have hs : (s.step e).1.pending.length ≤ (s.step e).1.par ∧ (s.step e).1.par = s.par := by
      refine ⟨?_, (s.step_cfg e).2.2.2.1⟩
      cases e with
      | next =>
        simp only [GetRecord.step]
        unfold GetRecord.nextAction
        split
        · exact h
        · split
          · exact h
          · split
            · exact h
            · split
              · exact h
              · rename_i hne
                obtain ⟨_, _, _, _, _, e6, e7⟩ := s.schedule_fields
                rw [e6]; omega
      | resp p r peers =>
        simp only [GetRecord.step]
        unfold GetRecord.registerResponse
        split
        · exact h
        · have := kpErase_length_le p s.pending
          simp only; omega
      | fail p =>
        simp only [GetRecord.step]
        unfold GetRecord.registerResponseFailure
        split
        · exact h
        · have := kpErase_length_le p s.pending
          simp only; omega
    have := ih _ hs.1
    rw [hs.2] at this
    simp only [GetRecord.run]
    split <;> exact this

/-! ### GetProvidersContext -/

theorem GetProviders.run_pending_le (evs : List GPEv) : ∀ (s : GetProviders), s.pending.length ≤ s.par →
    (s.run evs).1.pending.length ≤ s.par := by
  induction evs with
  | nil => intro s h; exact h
  | cons e es ih =>
    intro s h
    have hs : (s.step e).1.pending.length ≤ (s.step e).1.par ∧ (s.step e).1.par = s.par := by
      cases e with
      | next =>
        simp only [GetProviders.step]
        unfold GetProviders.nextAction
        split
        · exact ⟨h, rfl⟩
        · split
          · exact ⟨h, rfl⟩
          · unfold GetProviders.scheduleNextPeer
            split
            · exact ⟨h, rfl⟩
            · rename_i hne _ c _ _
              have := kpErase_length_le c.peer s.pending
              simp only [List.length_cons, and_true]
              omega
      | resp p r peers =>
        simp only [GetProviders.step]
        unfold GetProviders.registerResponse
        split
        · exact ⟨h, rfl⟩
        · have := kpErase_length_le p s.pending
          simp only [and_true]; omega
      | fail p =>
        simp only [GetProviders.step]
        unfold GetProviders.registerResponseFailure
        split
        · exact ⟨h, rfl⟩
        · have := kpErase_length_le p s.pending
          simp only [and_true]; omega
    have := ih _ hs.1
    rw [hs.2] at this
    simp only [GetProviders.run]
    split <;> exact this

/-! ### `merge_and_sort_providers` -/

theorem mergeProv_peers (p : Prov) (acc : List Prov) :
    (mergeProv p acc).map (·.peer) =
      if p.peer ∈ acc.map (·.peer) then acc.map (·.peer) else acc.map (·.peer) ++ [p.peer] := by
  induction acc with
  | nil => simp [mergeProv]
  | cons q qs ih =>
    simp only [mergeProv]
    split
    · rename_i hq; simp [hq]
    · rename_i hq
      simp only [List.map_cons, ih, List.mem_cons]
      have : ¬ p.peer = q.peer := fun e => hq e.symm
      by_cases hm : p.peer ∈ qs.map (·.peer)
      · simp [hm]
      · simp [hm, this]

theorem foldl_mergeProv_peers (ps : List Prov) : ∀ (acc : List Prov), (acc.map (·.peer)).Nodup →
    ((ps.foldl (fun acc p => mergeProv p acc) acc).map (·.peer)).Nodup ∧
    ∀ x, x ∈ (ps.foldl (fun acc p => mergeProv p acc) acc).map (·.peer) ↔
      x ∈ acc.map (·.peer) ∨ x ∈ ps.map (·.peer) := by
  induction ps with
  | nil => intro acc h; exact ⟨h, fun x => by simp⟩
  | cons p ps ih =>
    intro acc h
    simp only [List.foldl_cons]
    have hn : ((mergeProv p acc).map (·.peer)).Nodup := by
      rw [mergeProv_peers]
      split
      · exact h
      · rename_i hm
        refine List.nodup_append.2 ⟨h, by simp, ?_⟩
        intro a ha b hb
        simp only [List.mem_singleton] at hb
        intro e
        exact hm (hb ▸ e ▸ ha)
    obtain ⟨i1, i2⟩ := ih _ hn
    refine ⟨i1, fun x => ?_⟩
    rw [i2 x, mergeProv_peers]
    split
    · rename_i hm
      simp only [List.map_cons, List.mem_cons]
      constructor
      · rintro (h | h)
        · exact Or.inl h
        · exact Or.inr (Or.inr h)
      · rintro (h | h | h)
        · exact Or.inl h
        · exact Or.inl (h ▸ hm)
        · exact Or.inr h
    · simp only [List.mem_append, List.mem_singleton, List.map_cons, List.mem_cons, List.mem_nil_iff, or_false]
      constructor
      · rintro ((h | h) | h)
        · exact Or.inl h
        · exact Or.inr (Or.inl h)
        · exact Or.inr (Or.inr h)
      · rintro (h | h | h)
        · exact Or.inl (Or.inl h)
        · exact Or.inl (Or.inr h)
        · exact Or.inr h

theorem provSortInsert_perm (p : Prov) (l : List Prov) : (provSortInsert p l).Perm (p :: l) := by
  induction l with
  | nil => exact List.Perm.refl _
  | cons q qs ih =>
    simp only [provSortInsert]
    split
    · exact List.Perm.refl _
    · exact ((List.Perm.cons q ih).trans (List.Perm.swap p q qs))

theorem foldr_provSortInsert_perm (l : List Prov) : (l.foldr provSortInsert []).Perm l := by
  induction l with
  | nil => exact List.Perm.refl _
  | cons q qs ih =>
    simp only [List.foldr_cons]
    exact (provSortInsert_perm q _).trans (List.Perm.cons q ih)

theorem provSortInsert_sorted (p : Prov) (l : List Prov) (h : l.Pairwise (fun a b => a.dist ≤ b.dist)) :
    (provSortInsert p l).Pairwise (fun a b => a.dist ≤ b.dist) := by
  induction l with
  | nil => simp [provSortInsert]
  | cons q qs ih =>
    have hc := List.pairwise_cons.1 h
    simp only [provSortInsert]
    split
    · rename_i hlt
      refine List.pairwise_cons.2 ⟨?_, h⟩
      intro b hb
      rcases List.mem_cons.1 hb with hb | hb
      · subst hb; omega
      · have := hc.1 b hb; omega
    · rename_i hge
      refine List.pairwise_cons.2 ⟨?_, ih hc.2⟩
      intro b hb
      rcases List.mem_cons.1 ((provSortInsert_perm p qs).subset hb) with hb | hb
      · subst hb; omega
      · exact hc.1 b hb

theorem foldr_provSortInsert_sorted (l : List Prov) :
    (l.foldr provSortInsert []).Pairwise (fun a b => a.dist ≤ b.dist) := by
  induction l with
  | nil => simp
  | cons q qs ih => exact provSortInsert_sorted q _ ih

/-- The merged provider list names every received provider exactly once and is sorted. -/
theorem mergeAndSort_spec (ps : List Prov) :
    ((mergeAndSortProviders ps).map (·.peer)).Nodup ∧
    (∀ x, x ∈ (mergeAndSortProviders ps).map (·.peer) ↔ x ∈ ps.map (·.peer)) ∧
    (mergeAndSortProviders ps).Pairwise (fun a b => a.dist ≤ b.dist) := by
  unfold mergeAndSortProviders
  obtain ⟨h1, h2⟩ := foldl_mergeProv_peers ps [] (by simp)
  have hp := (foldr_provSortInsert_perm (ps.foldl (fun acc p => mergeProv p acc) [])).map (·.peer)
  refine ⟨hp.nodup_iff.2 h1, fun x => ?_, foldr_provSortInsert_sorted _⟩
  rw [hp.mem_iff, h2 x]
  simp

end Litep2pVerif.Kad.Query
