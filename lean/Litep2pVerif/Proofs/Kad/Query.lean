import Litep2pVerif.Model.Kad.QueryRun
/-!
# Lemmas about the query contexts (C15): the candidate frontier

The three iterative lookups share the frontier `(candidates, pending, queried)`; `Frontier` is the
invariant that makes "no self, no re-query" work, stated once and used by every context.
-/
namespace Litep2pVerif.Kad.Query

/-! ### `dinsert` -/

theorem mem_dinsert_self (k : Nat) (v : KPeer) (m : DMap) : (k, v) ∈ dinsert k v m := by
  induction m with
  | nil => simp [dinsert]
  | cons x xs ih =>
    obtain ⟨k', v'⟩ := x
    simp only [dinsert]
    split
    · simp
    · split
      · simp
      · simp [ih]

theorem mem_dinsert_sub {k : Nat} {v : KPeer} {m : DMap} {x : Nat × KPeer}
    (h : x ∈ dinsert k v m) : x = (k, v) ∨ x ∈ m := by
  induction m with
  | nil => simp [dinsert] at h; exact Or.inl h
  | cons y ys ih =>
    obtain ⟨k', v'⟩ := y
    simp only [dinsert] at h
    split at h
    · rcases List.mem_cons.1 h with h | h
      · exact Or.inl h
      · exact Or.inr h
    · split at h
      · rcases List.mem_cons.1 h with h | h
        · exact Or.inl h
        · exact Or.inr (List.mem_cons_of_mem _ h)
      · rcases List.mem_cons.1 h with h | h
        · exact Or.inr (h ▸ List.mem_cons_self ..)
        · rcases ih h with h | h
          · exact Or.inl h
          · exact Or.inr (List.mem_cons_of_mem _ h)

theorem mem_dinsert_of_ne {k : Nat} {v : KPeer} {m : DMap} {x : Nat × KPeer}
    (h : x ∈ m) (hne : x.1 ≠ k) : x ∈ dinsert k v m := by
  induction m with
  | nil => simp at h
  | cons y ys ih =>
    obtain ⟨k', v'⟩ := y
    simp only [dinsert]
    split
    · exact List.mem_cons_of_mem _ h
    · split
      · rename_i heq
        rcases List.mem_cons.1 h with h | h
        · subst h; simp at hne; omega
        · exact List.mem_cons_of_mem _ h
      · rcases List.mem_cons.1 h with h | h
        · subst h; exact List.mem_cons_self ..
        · exact List.mem_cons_of_mem _ (ih h)

abbrev Sorted (m : DMap) : Prop := m.Pairwise (fun a b => a.1 < b.1)

theorem dinsert_sorted {k : Nat} {v : KPeer} {m : DMap} (h : Sorted m) : Sorted (dinsert k v m) := by
  induction m with
  | nil => simp [dinsert, Sorted]
  | cons y ys ih =>
    obtain ⟨k', v'⟩ := y
    have hc := List.pairwise_cons.1 h
    simp only [dinsert]
    split
    · rename_i hlt
      refine List.pairwise_cons.2 ⟨?_, h⟩
      intro b hb
      rcases List.mem_cons.1 hb with hb | hb
      · subst hb; exact hlt
      · have := hc.1 b hb; simp at this ⊢; omega
    · split
      · rename_i heq
        refine List.pairwise_cons.2 ⟨?_, hc.2⟩
        intro b hb
        have := hc.1 b hb; simp at this ⊢; omega
      · refine List.pairwise_cons.2 ⟨?_, ih hc.2⟩
        intro b hb
        rcases mem_dinsert_sub hb with hb | hb
        · subst hb; simp; omega
        · exact hc.1 b hb

theorem dinsert_length_le (k : Nat) (v : KPeer) (m : DMap) : (dinsert k v m).length ≤ m.length + 1 := by
  induction m with
  | nil => simp [dinsert]
  | cons y ys ih =>
    obtain ⟨k', v'⟩ := y
    simp only [dinsert]
    split
    · simp
    · split
      · simp
      · simp; omega

/-! ### `addCandidates`, `initCandidates` -/

theorem mem_addCandidates {l : Nat} {qd pd : List Nat} {c : DMap} {peers : List KPeer} {x : Nat × KPeer}
    (h : x ∈ addCandidates l qd pd c peers) :
    x ∈ c ∨ ∃ kp ∈ peers, x = (kp.dist, kp) ∧ kp.peer ∉ qd ∧ kp.peer ∉ pd ∧ l ≠ kp.peer := by
  unfold addCandidates at h
  induction peers generalizing c with
  | nil => exact Or.inl h
  | cons p ps ih =>
    simp only [List.foldl_cons] at h
    rcases ih h with h | ⟨kp, hkp, hx⟩
    · split at h
      · exact Or.inl h
      · split at h
        · exact Or.inl h
        · split at h
          · exact Or.inl h
          · rcases mem_dinsert_sub h with h | h
            · exact Or.inr ⟨p, List.mem_cons_self .., h, by assumption, by assumption, by assumption⟩
            · exact Or.inl h
    · exact Or.inr ⟨kp, List.mem_cons_of_mem _ hkp, hx⟩

theorem addCandidates_sorted {l : Nat} {qd pd : List Nat} {c : DMap} {peers : List KPeer}
    (h : Sorted c) : Sorted (addCandidates l qd pd c peers) := by
  unfold addCandidates
  induction peers generalizing c with
  | nil => exact h
  | cons p ps ih =>
    simp only [List.foldl_cons]
    apply ih
    split
    · exact h
    · split
      · exact h
      · split
        · exact h
        · exact dinsert_sorted h

theorem mem_foldl_dinsert {inPeers : List KPeer} {x : Nat × KPeer} (c : DMap)
    (h : x ∈ inPeers.foldl (fun acc c => dinsert c.dist c acc) c) :
    x ∈ c ∨ ∃ kp ∈ inPeers, x = (kp.dist, kp) := by
  induction inPeers generalizing c with
  | nil => exact Or.inl h
  | cons p ps ih =>
    simp only [List.foldl_cons] at h
    rcases ih _ h with h | ⟨kp, hkp, hx⟩
    · rcases mem_dinsert_sub h with h | h
      · exact Or.inr ⟨p, List.mem_cons_self .., h⟩
      · exact Or.inl h
    · exact Or.inr ⟨kp, List.mem_cons_of_mem _ hkp, hx⟩

theorem mem_initCandidates {inPeers : List KPeer} {x : Nat × KPeer} (h : x ∈ initCandidates inPeers) :
    ∃ kp ∈ inPeers, x = (kp.dist, kp) := by
  rcases mem_foldl_dinsert [] h with h | h
  · simp at h
  · exact h

theorem initCandidates_sorted (inPeers : List KPeer) : Sorted (initCandidates inPeers) := by
  have : ∀ (c : DMap), Sorted c → Sorted (inPeers.foldl (fun acc c => dinsert c.dist c acc) c) := by
    induction inPeers with
    | nil => intro c h; exact h
    | cons p ps ih => intro c h; exact ih _ (dinsert_sorted h)
  exact this [] (by simp [Sorted])

/-! ### The frontier invariant -/

theorem mem_sinsert {p q : Nat} {s : List Nat} : q ∈ sinsert p s ↔ q = p ∨ q ∈ s := by
  unfold sinsert
  split
  · constructor
    · exact Or.inr
    · rintro (h | h)
      · subst h; assumption
      · exact h
  · simp

/-- `candidates`, the peers of `pending`, and `queried` of a lookup whose peers live in the universe
`U` and whose distances are given by `d`. -/
structure Frontier (d : Nat → Nat) (U : List Nat) (l : Nat) (cands : DMap) (pend queried : List Nat) :
    Prop where
  sorted : Sorted cands
  key : ∀ x ∈ cands, x.1 = x.2.dist ∧ x.2.dist = d x.2.peer
  fresh : ∀ x ∈ cands, x.2.peer ≠ l ∧ x.2.peer ∉ pend ∧ x.2.peer ∉ queried ∧ x.2.peer ∈ U
  pendNodup : pend.Nodup
  pendQ : ∀ p ∈ pend, p ∉ queried ∧ p ≠ l

theorem Frontier.send {d U l k c rest pend queried}
    (h : Frontier d U l ((k, c) :: rest) pend queried) :
    Frontier d U l rest (c.peer :: pend) queried ∧
      c.peer ≠ l ∧ c.peer ∉ pend ∧ c.peer ∉ queried ∧ c.peer ∈ U := by
  have hc := h.fresh (k, c) (List.mem_cons_self ..)
  have hk := h.key (k, c) (List.mem_cons_self ..)
  have hs := List.pairwise_cons.1 h.sorted
  refine ⟨⟨hs.2, fun x hx => h.key x (List.mem_cons_of_mem _ hx), ?_, ?_, ?_⟩, hc⟩
  · intro x hx
    have hf := h.fresh x (List.mem_cons_of_mem _ hx)
    have hkx := h.key x (List.mem_cons_of_mem _ hx)
    refine ⟨hf.1, ?_, hf.2.2⟩
    intro hm
    rcases List.mem_cons.1 hm with hm | hm
    · have := hs.1 x hx
      simp only at this hk
      rw [hkx.1, hkx.2, hm, ← hk.2, ← hk.1] at this
      omega
    · exact hf.2.1 hm
  · exact List.nodup_cons.2 ⟨hc.2.1, h.pendNodup⟩
  · intro p hp
    rcases List.mem_cons.1 hp with hp | hp
    · subst hp; exact ⟨hc.2.2.1, hc.1⟩
    · exact h.pendQ p hp

theorem Frontier.answer {d U l cands pend queried} (p : Nat) (peers : List KPeer)
    (h : Frontier d U l cands pend queried) (hp : p ∈ pend)
    (hpeers : ∀ kp ∈ peers, kp.dist = d kp.peer ∧ kp.peer ∈ U) :
    Frontier d U l (addCandidates l (sinsert p queried) (pend.filter (· ≠ p)) cands peers)
      (pend.filter (· ≠ p)) (sinsert p queried) := by
  refine ⟨addCandidates_sorted h.sorted, ?_, ?_, h.pendNodup.filter _, ?_⟩
  · intro x hx
    rcases mem_addCandidates hx with hx | ⟨kp, hkp, rfl, _⟩
    · exact h.key x hx
    · exact ⟨rfl, (hpeers kp hkp).1⟩
  · intro x hx
    rcases mem_addCandidates hx with hx | ⟨kp, hkp, rfl, h1, h2, h3⟩
    · have hf := h.fresh x hx
      refine ⟨hf.1, ?_, ?_, hf.2.2.2⟩
      · intro hm; exact hf.2.1 (List.mem_filter.1 hm).1
      · intro hm
        rcases mem_sinsert.1 hm with hm | hm
        · exact hf.2.1 (hm ▸ hp)
        · exact hf.2.2.1 hm
    · exact ⟨fun e => h3 e.symm, h2, h1, (hpeers kp hkp).2⟩
  · intro q hq
    have hq' := List.mem_filter.1 hq
    have := h.pendQ q hq'.1
    refine ⟨?_, this.2⟩
    intro hm
    rcases mem_sinsert.1 hm with hm | hm
    · simp [hm] at hq'
    · exact this.1 hm

theorem Frontier.fail {d U l cands pend queried} (p : Nat)
    (h : Frontier d U l cands pend queried) (hp : p ∈ pend) :
    Frontier d U l cands (pend.filter (· ≠ p)) (sinsert p queried) := by
  have := Frontier.answer p [] h hp (by simp)
  simpa [addCandidates] using this

theorem Frontier.init {d U l} (inPeers : List KPeer)
    (h : ∀ kp ∈ inPeers, kp.dist = d kp.peer ∧ kp.peer ∈ U ∧ kp.peer ≠ l) :
    Frontier d U l (initCandidates inPeers) [] [] := by
  refine ⟨initCandidates_sorted _, ?_, ?_, List.nodup_nil, by simp⟩
  · intro x hx
    obtain ⟨kp, hkp, rfl⟩ := mem_initCandidates hx
    exact ⟨rfl, (h kp hkp).1⟩
  · intro x hx
    obtain ⟨kp, hkp, rfl⟩ := mem_initCandidates hx
    exact ⟨(h kp hkp).2.2, by simp, by simp, (h kp hkp).2.1⟩

/-! ### The termination measure -/

/-- Twice the number of peers of the universe that were never contacted plus the number of
outstanding requests. -/
def measure (U pend queried : List Nat) : Nat :=
  2 * (U.filter (fun u => u ∉ pend ∧ u ∉ queried)).length + pend.length

theorem measure_le (U pend queried : List Nat) (h : pend = []) : measure U pend queried ≤ 2 * U.length := by
  subst h
  unfold measure
  have := List.length_filter_le (fun u => decide (u ∉ ([] : List Nat) ∧ u ∉ queried)) U
  simp at this ⊢
  omega

theorem filter_length_lt {α : Type} (l : List α) (P Q : α → Bool) (himp : ∀ x, Q x → P x)
    (c : α) (hc : c ∈ l) (hP : P c) (hQ : ¬ Q c) : (l.filter Q).length < (l.filter P).length := by
  induction l with
  | nil => simp at hc
  | cons y ys ih =>
    have hmono : (ys.filter Q).length ≤ (ys.filter P).length := by
      clear ih hc
      induction ys with
      | nil => simp
      | cons z zs ih2 =>
        simp only [List.filter_cons]
        by_cases hq : Q z
        · simp [hq, himp z hq]; exact ih2
        · by_cases hp : P z
          · simp [hq, hp]; omega
          · simp [hq, hp]; exact ih2
    simp only [List.filter_cons]
    rcases List.mem_cons.1 hc with hc | hc
    · subst hc
      simp [hP, hQ]; omega
    · have := ih hc
      by_cases hq : Q y
      · simp [hq, himp y hq]; exact this
      · by_cases hp : P y
        · simp [hq, hp]; omega
        · simp [hq, hp]; exact this

theorem measure_send {U pend queried : List Nat} {c : Nat} (hU : c ∈ U) (hp : c ∉ pend)
    (hq : c ∉ queried) : measure U (c :: pend) queried + 1 ≤ measure U pend queried := by
  unfold measure
  have := filter_length_lt U (fun u => decide (u ∉ pend ∧ u ∉ queried))
    (fun u => decide (u ∉ c :: pend ∧ u ∉ queried)) (by simp; intro x h1 h2 h3; exact ⟨h2, h3⟩) c hU
    (by simp [hp, hq]) (by simp)
  simp only [List.length_cons]
  omega

theorem measure_answer {U pend queried : List Nat} {p : Nat} (hp : p ∈ pend) (hn : pend.Nodup) :
    measure U (pend.filter (· ≠ p)) (sinsert p queried) + 1 = measure U pend queried := by
  unfold measure
  have h1 : U.filter (fun u => decide (u ∉ pend.filter (· ≠ p) ∧ u ∉ sinsert p queried)) =
      U.filter (fun u => decide (u ∉ pend ∧ u ∉ queried)) := by
    apply List.filter_congr
    intro u _
    simp only [decide_eq_decide, List.mem_filter, mem_sinsert]
    constructor
    · rintro ⟨h1, h2⟩
      refine ⟨fun hm => ?_, fun hm => h2 (Or.inr hm)⟩
      by_cases hup : u = p
      · exact h2 (Or.inl hup)
      · exact h1 ⟨hm, by simpa using hup⟩
    · rintro ⟨h1, h2⟩
      refine ⟨fun hm => h1 hm.1, ?_⟩
      rintro (hm | hm)
      · exact h1 (hm ▸ hp)
      · exact h2 hm
  have h2 : (pend.filter (· ≠ p)).length + 1 = pend.length := by
    clear h1
    induction pend with
    | nil => simp at hp
    | cons y ys ih =>
      have hn' := List.nodup_cons.1 hn
      simp only [List.filter_cons]
      rcases List.mem_cons.1 hp with hp | hp
      · subst hp
        have : ys.filter (· ≠ p) = ys := by
          apply List.filter_eq_self.2
          intro a ha
          simp; intro e; exact hn'.1 (e ▸ ha)
        rw [if_neg (by simp), this]
        simp
      · have hne : y ≠ p := fun e => hn'.1 (e ▸ hp)
        rw [if_pos (by simpa using hne)]
        simp only [List.length_cons]
        have := ih hp hn'.2
        omega
  rw [h1]
  omega

end Litep2pVerif.Kad.Query
