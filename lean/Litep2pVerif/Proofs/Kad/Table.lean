import Mathlib.Data.Nat.Bitwise
import Litep2pVerif.Model.Kad.Table
/-!
# Lemmas about the routing-table model (property C14)

* bit-level order lemma (`xor_lt_of_before`),
* what `ClosestBucketsIter` yields (`iterList_eq`) and which buckets `closest` visits (`visited_*`),
* the per-bucket invariant preserved by every operation (`BInv`, `TInv`),
* `closest` returns the `k` closest stored peers with addresses (`closest_spec`).
-/
namespace Litep2pVerif.Kad.Table
open Litep2pVerif.Kad.Key Litep2pVerif.Kad.Bucket

/-! ## Bits -/

theorem testBit_top {a i : Nat} (h : bucketIndex a = some i) : a.testBit i = true := by
  unfold bucketIndex at h
  split at h
  · simp at h
  · rename_i ha
    simp only [Option.some.injEq] at h
    subst h
    exact Nat.testBit_log2 ha

theorem testBit_above {a i m : Nat} (h : bucketIndex a = some i) (hm : i < m) : a.testBit m = false := by
  unfold bucketIndex at h
  split at h
  · simp at h
  · simp only [Option.some.injEq] at h
    subst h
    apply Nat.testBit_lt_two_pow
    calc a < 2 ^ (a.log2 + 1) := Nat.lt_log2_self
      _ ≤ 2 ^ m := Nat.pow_le_pow_right (by decide) hm

/-- Visit order of bucket indices for distance `d`. -/
def Before (d i j : Nat) : Prop :=
  (d.testBit i = true ∧ d.testBit j = true ∧ j < i) ∨
  (d.testBit i = true ∧ d.testBit j = false) ∨
  (d.testBit i = false ∧ d.testBit j = false ∧ i < j)

theorem xor_lt_of_before {d a b i j : Nat} (ha : bucketIndex a = some i) (hb : bucketIndex b = some j)
    (h : Before d i j) : a ^^^ d < b ^^^ d := by
  have hai := testBit_top ha
  have hbj := testBit_top hb
  have haa := fun m => @testBit_above a i m ha
  have hbb := fun m => @testBit_above b j m hb
  rcases h with ⟨hi, hj, hji⟩ | ⟨hi, hj⟩ | ⟨hi, hj, hij⟩
  · apply Nat.lt_of_testBit i
    · simp [Nat.testBit_xor, hai, hi]
    · simp [Nat.testBit_xor, hbb i hji, hi]
    · intro m hm
      simp [Nat.testBit_xor, haa m hm, hbb m (by omega)]
  · have hne : i ≠ j := by rintro rfl; simp [hi] at hj
    rcases Nat.lt_or_gt_of_ne hne with hlt | hgt
    · apply Nat.lt_of_testBit j
      · simp [Nat.testBit_xor, haa j hlt, hj]
      · simp [Nat.testBit_xor, hbj, hj]
      · intro m hm
        simp [Nat.testBit_xor, haa m (by omega), hbb m hm]
    · apply Nat.lt_of_testBit i
      · simp [Nat.testBit_xor, hai, hi]
      · simp [Nat.testBit_xor, hbb i hgt, hi]
      · intro m hm
        simp [Nat.testBit_xor, haa m hm, hbb m (by omega)]
  · apply Nat.lt_of_testBit j
    · simp [Nat.testBit_xor, haa j hij, hj]
    · simp [Nat.testBit_xor, hbj, hj]
    · intro m hm
      simp [Nat.testBit_xor, haa m (by omega), hbb m hm]

/-! ## The bucket iterator -/

def onesBelow (d : Nat) : Nat → List Nat
  | 0 => []
  | i + 1 => if d.testBit i then i :: onesBelow d i else onesBelow d i

def zerosFrom (d j : Nat) : Nat → List Nat
  | 0 => []
  | n + 1 => if !d.testBit j then j :: zerosFrom d (j + 1) n else zerosFrom d (j + 1) n

theorem nextIn_spec (d i : Nat) :
    (nextIn d i = none ∧ onesBelow d i = []) ∨
    (∃ j, nextIn d i = some j ∧ j < i ∧ onesBelow d i = j :: onesBelow d j) := by
  induction i with
  | zero => left; simp [nextIn, onesBelow]
  | succ i ih =>
    by_cases hb : d.testBit i = true
    · right; exact ⟨i, by simp [nextIn, hb], by omega, by simp [onesBelow, hb]⟩
    · simp only [nextIn, onesBelow, hb]
      rcases ih with h | ⟨j, h1, h2, h3⟩
      · left; simpa using h
      · right; exact ⟨j, by simpa using h1, by omega, by simpa using h3⟩

theorem nextOutFrom_spec (d : Nat) (n : Nat) : ∀ j,
    (nextOutFrom d j n = none ∧ zerosFrom d j n = []) ∨
    (∃ m, nextOutFrom d j n = some m ∧ j ≤ m ∧ m < j + n ∧
      zerosFrom d j n = m :: zerosFrom d (m + 1) (j + n - (m + 1))) := by
  induction n with
  | zero => intro j; left; simp [nextOutFrom, zerosFrom]
  | succ n ih =>
    intro j
    by_cases hb : d.testBit j = true
    · simp only [nextOutFrom, zerosFrom, hb]
      rcases ih (j + 1) with h | ⟨m, h1, h2, h3, h4⟩
      · left; simpa using h
      · right
        refine ⟨m, by simpa using h1, by omega, by omega, ?_⟩
        have : j + (n + 1) - (m + 1) = j + 1 + n - (m + 1) := by omega
        rw [this]; simpa using h4
    · right
      refine ⟨j, by simp [nextOutFrom, hb], Nat.le_refl _, by omega, ?_⟩
      have : j + (n + 1) - (j + 1) = n := by omega
      rw [this]; simp [zerosFrom, hb]

theorem drain_zoomOut (nb d : Nat) : ∀ fuel i, nb - (i + 1) < fuel →
    Iter.drain nb fuel ⟨d, .zoomOut i⟩ = zerosFrom d (i + 1) (nb - (i + 1)) := by
  intro fuel
  induction fuel with
  | zero => intro i h; omega
  | succ fuel ih =>
    intro i h
    simp only [Iter.drain, Iter.next, nextOut]
    rcases nextOutFrom_spec d (nb - (i + 1)) (i + 1) with ⟨h1, h2⟩ | ⟨m, h1, h2, h3, h4⟩
    · rw [h1, h2]
    · rw [h1, h4]
      simp only
      have e : i + 1 + (nb - (i + 1)) - (m + 1) = nb - (m + 1) := by omega
      rw [e, ih m (by omega)]

theorem drain_zoomIn (nb d : Nat) : ∀ fuel i, i + nb + 2 ≤ fuel →
    Iter.drain nb fuel ⟨d, .zoomIn i⟩ = onesBelow d i ++ 0 :: zerosFrom d 1 (nb - 1) := by
  intro fuel
  induction fuel with
  | zero => intro i h; omega
  | succ fuel ih =>
    intro i h
    simp only [Iter.drain, Iter.next]
    rcases nextIn_spec d i with ⟨h1, h2⟩ | ⟨j, h1, h2, h3⟩
    · rw [h1, h2]
      simp only [List.nil_append]
      rw [drain_zoomOut nb d fuel 0 (by omega)]
    · rw [h1, h3]
      simp only [List.cons_append]
      rw [ih j (by omega)]

/-- The index `ClosestBucketsIter::new` starts with. -/
def startIndex (d : Nat) : Nat := (bucketIndex d).getD 0

theorem iterList_eq (nb d : Nat) :
    iterList nb d = startIndex d :: onesBelow d (startIndex d) ++ 0 :: zerosFrom d 1 (nb - 1) := by
  have hle : startIndex d ≤ d.log2 := by
    unfold startIndex bucketIndex; split <;> simp
  have hnew : Iter.new d = ⟨d, .start (startIndex d)⟩ := by
    unfold Iter.new startIndex bucketIndex
    by_cases h : d = 0 <;> simp [h]
  have hstep : ∀ fuel i, Iter.drain nb (fuel + 1) ⟨d, .start i⟩ = i :: Iter.drain nb fuel ⟨d, .zoomIn i⟩ :=
    fun _ _ => rfl
  unfold iterList
  rw [hnew, hstep, drain_zoomIn nb d _ _ (by omega)]
  rfl

theorem onesBelow_eq_filter (d i : Nat) :
    onesBelow d i = (List.range i).reverse.filter (fun j => d.testBit j) := by
  induction i with
  | zero => rfl
  | succ i ih => simp [onesBelow, List.range_succ, List.filter_cons, ih]

theorem zerosFrom_eq_filter (d : Nat) (n : Nat) : ∀ j,
    zerosFrom d j n = (List.range' j n).filter (fun i => !d.testBit i) := by
  induction n with
  | zero => intro j; rfl
  | succ n ih => intro j; simp [zerosFrom, List.range'_succ, List.filter_cons, ih]


/-! ## The buckets `closest` visits -/

theorem mem_onesBelow {d i a : Nat} : a ∈ onesBelow d i ↔ a < i ∧ d.testBit a = true := by
  rw [onesBelow_eq_filter]; simp

theorem pairwise_onesBelow (d i : Nat) : (onesBelow d i).Pairwise (fun a b => b < a) := by
  induction i with
  | zero => simp [onesBelow]
  | succ i ih =>
    simp only [onesBelow]
    split
    · refine List.pairwise_cons.2 ⟨fun b hb => (mem_onesBelow.1 hb).1, ih⟩
    · exact ih

theorem mem_zerosFrom {d j n a : Nat} : a ∈ zerosFrom d j n ↔ j ≤ a ∧ a < j + n ∧ d.testBit a = false := by
  rw [zerosFrom_eq_filter]; simp only [List.mem_filter, List.mem_range'_1, Bool.not_eq_true', and_assoc]

theorem pairwise_zerosFrom (d : Nat) (n : Nat) : ∀ j, (zerosFrom d j n).Pairwise (fun a b => a < b) := by
  induction n with
  | zero => intro j; simp [zerosFrom]
  | succ n ih =>
    intro j
    simp only [zerosFrom]
    split
    · refine List.pairwise_cons.2 ⟨fun b hb => ?_, ih _⟩
      have := (mem_zerosFrom.1 hb).1; omega
    · exact ih _

theorem skipRepeats_nodup : ∀ (l : List Nat) (prev : Option Nat), l.Nodup → (∀ x, prev = some x → x ∉ l) →
    skipRepeats prev l = l := by
  intro l
  induction l with
  | nil => intros; rfl
  | cons a l ih =>
    intro prev hn hp
    have hne : prev ≠ some a := fun h => hp a h (List.mem_cons_self ..)
    rw [List.nodup_cons] at hn
    simp only [skipRepeats, hne, if_false]
    rw [ih (some a) hn.2 (by intro x hx; cases hx; exact hn.1)]

theorem skipRepeats_dup (a : Nat) (r : List Nat) : ∀ (s : List Nat) (prev : Option Nat),
    skipRepeats prev (s ++ a :: a :: r) = skipRepeats prev (s ++ a :: r) := by
  intro s
  induction s with
  | nil => intro prev; simp [skipRepeats]
  | cons x s ih => intro prev; simp only [List.cons_append, skipRepeats, ih]

theorem before_irrefl (d i : Nat) : ¬ Before d i i := by
  unfold Before; intro h
  rcases h with ⟨_, _, h⟩ | ⟨h1, h2⟩ | ⟨_, _, h⟩
  · omega
  · simp [h1] at h2
  · omega

theorem startIndex_lt {nb d : Nat} (hnb : 0 < nb) (hd : d < 2 ^ nb) : startIndex d < nb := by
  unfold startIndex bucketIndex
  by_cases h : d = 0
  · simp [h, hnb]
  · simp only [h, if_false, Option.getD_some]
    exact (Nat.log2_lt h).2 hd

/-- The head part of the visit: the set bits of `d` in decreasing order (just `[0]` for `d = 0`). -/
def headPart (d : Nat) : List Nat := startIndex d :: onesBelow d (startIndex d)

theorem mem_headPart {d a : Nat} : a ∈ headPart d ↔ (d = 0 ∧ a = 0) ∨ d.testBit a = true := by
  unfold headPart startIndex bucketIndex
  by_cases h : d = 0
  · subst h; simp [onesBelow]
  · simp only [h, if_false, Option.getD_some, List.mem_cons, mem_onesBelow, false_and, false_or]
    constructor
    · rintro (rfl | ⟨_, hb⟩)
      · exact Nat.testBit_log2 h
      · exact hb
    · intro hb
      have : a ≤ d.log2 := (Nat.le_log2 h).2 (Nat.ge_two_pow_of_testBit hb)
      rcases Nat.lt_or_eq_of_le this with h1 | h1
      · exact Or.inr ⟨h1, hb⟩
      · exact Or.inl h1

theorem pairwise_headPart (d : Nat) : (headPart d).Pairwise (fun a b => b < a) := by
  unfold headPart
  exact List.pairwise_cons.2 ⟨fun b hb => (mem_onesBelow.1 hb).1, pairwise_onesBelow _ _⟩

theorem visited_eq (nb d : Nat) :
    visited nb d = if 0 ∈ headPart d then headPart d ++ zerosFrom d 1 (nb - 1)
      else headPart d ++ 0 :: zerosFrom d 1 (nb - 1) := by
  have hZ0 : (0 : Nat) ∉ zerosFrom d 1 (nb - 1) := by
    intro h; have := (mem_zerosFrom.1 h).1; omega
  have hZn : (zerosFrom d 1 (nb - 1)).Nodup :=
    (pairwise_zerosFrom d _ 1).imp (fun h => Nat.ne_of_lt h)
  have hAn : (headPart d).Nodup := (pairwise_headPart d).imp (fun h => (Nat.ne_of_lt h).symm)
  have hdisj : ∀ a ∈ headPart d, a ∉ zerosFrom d 1 (nb - 1) := by
    intro a ha hz
    have hz' := mem_zerosFrom.1 hz
    rcases mem_headPart.1 ha with ⟨_, rfl⟩ | hb
    · omega
    · simp [hb] at hz'
  unfold visited
  rw [iterList_eq]
  show skipRepeats none (headPart d ++ 0 :: zerosFrom d 1 (nb - 1)) = _
  split
  · rename_i h0
    obtain ⟨s, t, hst⟩ := List.append_of_mem h0
    have ht : t = [] := by
      cases t with
      | nil => rfl
      | cons x t =>
        have hp := pairwise_headPart d
        rw [hst] at hp
        have := (List.pairwise_append.1 hp).2.1
        have := (List.pairwise_cons.1 this).1 x (List.mem_cons_self ..)
        omega
    subst ht
    rw [hst, List.append_assoc]
    show skipRepeats none (s ++ 0 :: 0 :: _) = _
    rw [skipRepeats_dup, skipRepeats_nodup _ _ _ (by simp)]
    · simp
    · have : (headPart d ++ zerosFrom d 1 (nb - 1)).Nodup :=
        List.nodup_append.2 ⟨hAn, hZn, fun a ha b hb hab => hdisj a ha (hab ▸ hb)⟩
      rw [hst] at this
      simpa using this
  · rename_i h0
    rw [skipRepeats_nodup _ _ _ (by simp)]
    refine List.nodup_append.2 ⟨hAn, List.nodup_cons.2 ⟨hZ0, hZn⟩, ?_⟩
    intro a ha b hb hab
    subst hab
    rcases List.mem_cons.1 hb with rfl | hb
    · exact h0 ha
    · exact hdisj a ha hb


theorem iterList_nodup_iff (nb d : Nat) : (iterList nb d).Nodup ↔ 0 ∉ headPart d := by
  rw [iterList_eq]
  show (headPart d ++ 0 :: zerosFrom d 1 (nb - 1)).Nodup ↔ _
  have hZ0 : (0 : Nat) ∉ zerosFrom d 1 (nb - 1) := by
    intro h; have := (mem_zerosFrom.1 h).1; omega
  have hZn : (zerosFrom d 1 (nb - 1)).Nodup :=
    (pairwise_zerosFrom d _ 1).imp (fun h => Nat.ne_of_lt h)
  have hAn : (headPart d).Nodup := (pairwise_headPart d).imp (fun h => (Nat.ne_of_lt h).symm)
  constructor
  · intro h h0
    exact (List.nodup_append.1 h).2.2 0 h0 0 (List.mem_cons_self ..) rfl
  · intro h0
    refine List.nodup_append.2 ⟨hAn, List.nodup_cons.2 ⟨hZ0, hZn⟩, ?_⟩
    intro a ha b hb hab
    subst hab
    rcases List.mem_cons.1 hb with rfl | hb
    · exact h0 ha
    · have hz' := mem_zerosFrom.1 hb
      rcases mem_headPart.1 ha with ⟨_, rfl⟩ | hbit
      · omega
      · simp [hbit] at hz'

theorem mem_visited {nb d a : Nat} :
    a ∈ visited nb d ↔ a ∈ headPart d ∨ a = 0 ∨ a ∈ zerosFrom d 1 (nb - 1) := by
  rw [visited_eq]
  split
  · rename_i h0
    simp only [List.mem_append]
    constructor
    · rintro (h | h); exact Or.inl h; exact Or.inr (Or.inr h)
    · rintro (h | rfl | h); exact Or.inl h; exact Or.inl h0; exact Or.inr h
  · simp only [List.mem_append, List.mem_cons]

theorem visited_pairwise (nb d : Nat) : (visited nb d).Pairwise (Before d) := by
  have hA : (headPart d).Pairwise (Before d) := by
    refine (pairwise_headPart d).imp_of_mem ?_
    intro a b ha hb hlt
    rcases mem_headPart.1 ha with ⟨_, rfl⟩ | ha'
    · omega
    · rcases mem_headPart.1 hb with ⟨h0, rfl⟩ | hb'
      · subst h0; simp at ha'
      · exact Or.inl ⟨ha', hb', hlt⟩
  have hZ : (zerosFrom d 1 (nb - 1)).Pairwise (Before d) := by
    refine (pairwise_zerosFrom d _ 1).imp_of_mem ?_
    intro a b ha hb hlt
    exact Or.inr (Or.inr ⟨(mem_zerosFrom.1 ha).2.2, (mem_zerosFrom.1 hb).2.2, hlt⟩)
  have hAZ : ∀ a ∈ headPart d, ∀ z ∈ zerosFrom d 1 (nb - 1), Before d a z := by
    intro a ha z hz
    have hz' := mem_zerosFrom.1 hz
    rcases mem_headPart.1 ha with ⟨h0, rfl⟩ | ha'
    · subst h0
      exact Or.inr (Or.inr ⟨by simp, hz'.2.2, by omega⟩)
    · exact Or.inr (Or.inl ⟨ha', hz'.2.2⟩)
  rw [visited_eq]
  split
  · exact List.pairwise_append.2 ⟨hA, hZ, hAZ⟩
  · rename_i h0
    have hb0 : d.testBit 0 = false := by
      cases hb : d.testBit 0 with
      | false => rfl
      | true => exact absurd (mem_headPart.2 (Or.inr hb)) h0
    refine List.pairwise_append.2 ⟨hA, List.pairwise_cons.2 ⟨?_, hZ⟩, ?_⟩
    · intro z hz
      have hz' := mem_zerosFrom.1 hz
      exact Or.inr (Or.inr ⟨hb0, hz'.2.2, by omega⟩)
    · intro a ha b hb
      rcases List.mem_cons.1 hb with rfl | hb
      · rcases mem_headPart.1 ha with ⟨_, rfl⟩ | ha'
        · exact absurd ha h0
        · exact Or.inr (Or.inl ⟨ha', hb0⟩)
      · exact hAZ a ha b hb

theorem visited_perm {nb d : Nat} (hnb : 0 < nb) (hd : d < 2 ^ nb) :
    (visited nb d).Perm (List.range nb) := by
  have hn : (visited nb d).Nodup :=
    (visited_pairwise nb d).imp (fun {a b} h (hab : a = b) => before_irrefl d a (by rw [← hab] at h; exact h))
  refine (List.perm_ext_iff_of_nodup hn List.nodup_range).2 ?_
  intro a
  rw [mem_visited, List.mem_range]
  constructor
  · rintro (h | rfl | h)
    · rcases mem_headPart.1 h with ⟨_, rfl⟩ | hb
      · exact hnb
      · apply Nat.lt_of_not_le
        intro hle
        have : d.testBit a = false :=
          Nat.testBit_lt_two_pow (Nat.lt_of_lt_of_le hd (Nat.pow_le_pow_right (by decide) hle))
        simp [hb] at this
    · exact hnb
    · have := mem_zerosFrom.1 h; omega
  · intro ha
    cases hb : d.testBit a with
    | true => exact Or.inl (mem_headPart.2 (Or.inr hb))
    | false =>
      rcases Nat.eq_zero_or_pos a with rfl | hpos
      · exact Or.inr (Or.inl rfl)
      · exact Or.inr (Or.inr (mem_zerosFrom.2 ⟨hpos, by omega, hb⟩))



/-! ## Bucket operations and the bucket invariant -/


theorem entry_cases (K : Nat) (b : Bucket) (key rnd : Nat) :
    (∃ i p, entry K b key rnd = (b, .occupied i) ∧ b[i]? = some (.real p) ∧ p.key = key) ∨
    ((∀ s ∈ b, Slot.matchesKey key s = false) ∧
      ((b.length < K ∧ entry K b key rnd = (b ++ [.junk rnd], .vacant b.length)) ∨
       (K ≤ b.length ∧ ∃ i s, entry K b key rnd = (b, .vacant i) ∧ b[i]? = some s ∧ s.replaceable = true) ∨
       entry K b key rnd = (b, .noSlot))) := by
  unfold entry
  cases h : b.findIdx? (Slot.matchesKey key) with
  | some i =>
    left
    obtain ⟨hi, hm, _⟩ := List.findIdx?_eq_some_iff_getElem.1 h
    cases hs : b[i] with
    | junk k => simp [hs, Slot.matchesKey] at hm
    | real p =>
      refine ⟨i, p, rfl, ?_, ?_⟩
      · rw [List.getElem?_eq_getElem hi, hs]
      · simpa [hs, Slot.matchesKey] using hm
  | none =>
    right
    refine ⟨List.findIdx?_eq_none_iff.1 h, ?_⟩
    by_cases hlen : b.length < K
    · left; simp [hlen]
    · right
      simp only [hlen, if_false]
      cases h2 : b.findIdx? Slot.replaceable with
      | some i =>
        left
        obtain ⟨hi, hm, _⟩ := List.findIdx?_eq_some_iff_getElem.1 h2
        exact ⟨by omega, i, b[i], rfl, List.getElem?_eq_getElem hi, hm⟩
      | none => right; rfl

theorem modify_eq_set {α} (l : List α) (i : Nat) (g : α → α) (s : α) (h : l[i]? = some s) :
    l.modify i g = l.set i (g s) := by
  apply List.ext_getElem?
  intro j
  rw [List.getElem?_modify, List.getElem?_set]
  by_cases hij : i = j
  · subst hij
    have hi : i < l.length := by
      rcases Nat.lt_or_ge i l.length with h' | h'
      · exact h'
      · rw [List.getElem?_eq_none h'] at h; simp at h
    have hs : l[i] = s := by rw [List.getElem?_eq_getElem hi] at h; exact Option.some.inj h
    simp [hi, hs]
  · simp [hij]

/-- What one table operation can do to the selected bucket (`key` = the key operated on). -/
inductive BStep (K key : Nat) : Bucket → Bucket → Prop
  | refl (b) : BStep K key b b
  | push (b rnd) : b.length < K → BStep K key b (b ++ [.junk rnd])
  | pushReal (b q) : b.length < K → (∀ s ∈ b, Slot.matchesKey key s = false) → q.key = key →
      BStep K key b (b ++ [.real q])
  | update (b i p q) : b[i]? = some (.real p) → q.key = p.key → q.peer = p.peer →
      BStep K key b (b.set i (.real q))
  | replace (b i s q) : b[i]? = some s → s.replaceable = true →
      (∀ s ∈ b, Slot.matchesKey key s = false) → q.key = key → BStep K key b (b.set i (.real q))

theorem bstep_occupied (K key : Nat) (b : Bucket) (i : Nat) (p : Peer) (f : Peer → Peer)
    (h : b[i]? = some (.real p)) (hk : ∀ p, (f p).key = p.key) (hp : ∀ p, (f p).peer = p.peer) :
    BStep K key b (b.modify i (updateReal f)) := by
  rw [modify_eq_set b i _ _ h]
  exact BStep.update b i p (f p) h (hk p) (hp p)

theorem bstep_addKnownPeer (K : Nat) (b : Bucket) (peer key naddrs : Nat) (conn : Conn) (rnd : Nat) :
    BStep K key b (addKnownPeer K b peer key naddrs conn rnd) := by
  unfold addKnownPeer
  rcases entry_cases K b key rnd with ⟨i, p, he, hb, hk⟩ | ⟨hno, ⟨hlen, he⟩ | ⟨hlen, i, s, he, hs, hr⟩ | he⟩
  · rw [he]; exact bstep_occupied K key b i p _ hb (fun _ => rfl) (fun _ => rfl)
  · rw [he]
    simp only [Bucket.insert]
    rw [List.set_append_right _ _ (Nat.le_refl _)]
    simp only [Nat.sub_self, List.set_cons_zero]
    exact BStep.pushReal b _ hlen hno rfl
  · rw [he]
    simp only [Bucket.insert]
    exact BStep.replace b i s _ hs hr hno rfl
  · rw [he]; exact BStep.refl b

theorem bstep_onConnectionEstablished (K : Nat) (b : Bucket) (key : Nat) (dialer : Bool) (rnd : Nat) :
    BStep K key b (onConnectionEstablished K b key dialer rnd) := by
  unfold onConnectionEstablished
  rcases entry_cases K b key rnd with ⟨i, p, he, hb, hk⟩ | ⟨hno, ⟨hlen, he⟩ | ⟨hlen, i, s, he, hs, hr⟩ | he⟩
  · rw [he]; exact bstep_occupied K key b i p _ hb (fun _ => rfl) (fun _ => rfl)
  · rw [he]; exact BStep.push b rnd hlen
  · rw [he]; exact BStep.refl b
  · rw [he]; exact BStep.refl b

theorem bstep_onDialFailure (K : Nat) (b : Bucket) (key naddrs rnd : Nat) :
    BStep K key b (onDialFailure K b key naddrs rnd) := by
  unfold onDialFailure
  rcases entry_cases K b key rnd with ⟨i, p, he, hb, hk⟩ | ⟨hno, ⟨hlen, he⟩ | ⟨hlen, i, s, he, hs, hr⟩ | he⟩
  · rw [he]; exact bstep_occupied K key b i p _ hb (fun _ => rfl) (fun _ => rfl)
  · rw [he]; exact BStep.push b rnd hlen
  · rw [he]; exact BStep.refl b
  · rw [he]; exact BStep.refl b

theorem bstep_onDisconnected (K : Nat) (b : Bucket) (key rnd : Nat) :
    BStep K key b (onDisconnected K b key rnd) := by
  unfold onDisconnected
  rcases entry_cases K b key rnd with ⟨i, p, he, hb, hk⟩ | ⟨hno, ⟨hlen, he⟩ | ⟨hlen, i, s, he, hs, hr⟩ | he⟩
  · rw [he]; exact bstep_occupied K key b i p _ hb (fun _ => rfl) (fun _ => rfl)
  · rw [he]; exact BStep.push b rnd hlen
  · rw [he]; exact BStep.refl b
  · rw [he]; exact BStep.refl b

theorem bstep_entry (K : Nat) (b : Bucket) (key rnd : Nat) :
    BStep K key b (entry K b key rnd).1 := by
  rcases entry_cases K b key rnd with ⟨i, p, he, hb, hk⟩ | ⟨hno, ⟨hlen, he⟩ | ⟨hlen, i, s, he, hs, hr⟩ | he⟩
  · rw [he]; exact BStep.refl b
  · rw [he]; exact BStep.push b rnd hlen
  · rw [he]; exact BStep.refl b
  · rw [he]; exact BStep.refl b

/-- Two nodes do not hold the same key. -/
def DistinctKeys (s t : Slot) : Prop := ∀ p q, s = .real p → t = .real q → p.key ≠ q.key

/-- Invariant of the bucket with index `idx` of a table with local key `lk`. -/
structure BInv (K lk idx : Nat) (b : Bucket) : Prop where
  len : b.length ≤ K
  place : ∀ p, Slot.real p ∈ b → bucketIndex (distance lk p.key) = some idx
  keys : b.Pairwise DistinctKeys

theorem binv_nil (K lk idx : Nat) : BInv K lk idx [] :=
  ⟨Nat.zero_le _, fun _ h => by simp at h, List.Pairwise.nil⟩

theorem pairwise_set_of {R : Slot → Slot → Prop} (b : Bucket) (i : Nat) (x : Slot)
    (hb : b.Pairwise R)
    (h1 : ∀ j (hj : j < b.length), j ≠ i → R x b[j] ∧ R b[j] x) : (b.set i x).Pairwise R := by
  rw [List.pairwise_iff_getElem] at hb ⊢
  intro a c ha hc hac
  rw [List.length_set] at ha hc
  rw [List.getElem_set, List.getElem_set]
  by_cases hia : i = a
  · subst hia
    have : ¬ i = c := by omega
    simp only [this, if_true, if_false]
    exact (h1 c hc (by omega)).1
  · by_cases hic : i = c
    · subst hic
      simp only [hia, if_true, if_false]
      exact (h1 a ha (by omega)).2
    · simp only [hia, hic, if_false]
      exact hb a c ha hc hac

theorem not_matches_of {key : Nat} {b : Bucket} (hno : ∀ s ∈ b, Slot.matchesKey key s = false)
    {p : Peer} (hp : Slot.real p ∈ b) : p.key ≠ key := by
  have := hno _ hp
  simpa [Slot.matchesKey] using this

theorem binv_step {K lk idx key : Nat} {b b' : Bucket} (hidx : bucketIndex (distance lk key) = some idx)
    (hs : BStep K key b b') (h : BInv K lk idx b) : BInv K lk idx b' := by
  cases hs with
  | refl => exact h
  | push rnd hlen =>
    refine ⟨by simp; omega, ?_, ?_⟩
    · intro p hp
      simp only [List.mem_append, List.mem_singleton] at hp
      rcases hp with hp | hp
      · exact h.place p hp
      · cases hp
    · refine List.pairwise_append.2 ⟨h.keys, List.pairwise_singleton _ _, ?_⟩
      intro s _ t ht p q _ hq
      simp only [List.mem_singleton] at ht
      subst ht; cases hq
  | pushReal q hlen hno hq =>
    refine ⟨by simp; omega, ?_, ?_⟩
    · intro p hp
      simp only [List.mem_append, List.mem_singleton] at hp
      rcases hp with hp | hp
      · exact h.place p hp
      · cases hp; rw [hq]; exact hidx
    · refine List.pairwise_append.2 ⟨h.keys, List.pairwise_singleton _ _, ?_⟩
      intro s hs t ht p q' hp hq'
      simp only [List.mem_singleton] at ht
      subst ht; cases hq'; subst hp
      rw [hq]; exact not_matches_of hno hs
  | update i p q hi hk hp =>
    have hil : i < b.length := by
      rcases Nat.lt_or_ge i b.length with h' | h'
      · exact h'
      · rw [List.getElem?_eq_none h'] at hi; simp at hi
    have hbi : b[i] = .real p := by rw [List.getElem?_eq_getElem hil] at hi; exact Option.some.inj hi
    have hpm : Slot.real p ∈ b := hbi ▸ List.getElem_mem hil
    refine ⟨by rw [List.length_set]; exact h.len, ?_, ?_⟩
    · intro x hx
      rcases List.mem_or_eq_of_mem_set hx with hx | hx
      · exact h.place x hx
      · cases hx; rw [hk]; exact h.place p hpm
    · have hk' := List.pairwise_iff_getElem.1 h.keys
      refine pairwise_set_of b i _ h.keys ?_
      intro j hj hji
      constructor
      · intro x y hx hy
        cases hx
        rw [hk]
        rcases Nat.lt_or_gt_of_ne hji with hlt | hgt
        · exact fun e => hk' j i hj hil hlt y p hy hbi e.symm
        · exact hk' i j hil hj hgt p y hbi hy
      · intro x y hx hy
        cases hy
        rw [hk]
        rcases Nat.lt_or_gt_of_ne hji with hlt | hgt
        · exact hk' j i hj hil hlt x p hx hbi
        · exact fun e => hk' i j hil hj hgt p x hbi hx e.symm
  | replace i s q hi hr hno hq =>
    refine ⟨by rw [List.length_set]; exact h.len, ?_, ?_⟩
    · intro x hx
      rcases List.mem_or_eq_of_mem_set hx with hx | hx
      · exact h.place x hx
      · cases hx; rw [hq]; exact hidx
    · refine pairwise_set_of b i _ h.keys ?_
      intro j hj hji
      constructor
      · intro x y hx hy
        cases hx
        rw [hq]
        exact (not_matches_of hno (hy ▸ List.getElem_mem hj)).symm
      · intro x y hx hy
        cases hy
        rw [hq]
        exact not_matches_of hno (hx ▸ List.getElem_mem hj)

/-- A node whose connection is `Connected`/`CanConnect` keeps its slot and identity. -/
theorem protected_step {K key : Nat} {b b' : Bucket} (hs : BStep K key b b') {j : Nat} {p : Peer}
    (hj : b[j]? = some (.real p)) (hc : p.conn = .connected ∨ p.conn = .canConnect) :
    ∃ p', b'[j]? = some (.real p') ∧ p'.peer = p.peer ∧ p'.key = p.key := by
  have hjl : j < b.length := by
    rcases Nat.lt_or_ge j b.length with h' | h'
    · exact h'
    · rw [List.getElem?_eq_none h'] at hj; simp at hj
  cases hs with
  | refl => exact ⟨p, hj, rfl, rfl⟩
  | push rnd hlen => exact ⟨p, by rw [List.getElem?_append_left hjl]; exact hj, rfl, rfl⟩
  | pushReal q hlen hno hq => exact ⟨p, by rw [List.getElem?_append_left hjl]; exact hj, rfl, rfl⟩
  | update i p0 q hi hk hp =>
    by_cases hij : i = j
    · subst hij
      rw [hj] at hi; cases hi
      exact ⟨q, by rw [List.getElem?_set]; simp [hjl], hp, hk⟩
    · exact ⟨p, by rw [List.getElem?_set]; simp [hij, hj], rfl, rfl⟩
  | replace i s q hi hr hno hq =>
    by_cases hij : i = j
    · subst hij
      rw [hj] at hi; cases hi
      rcases hc with hc | hc <;> simp [Slot.replaceable, Slot.conn, hc] at hr
    · exact ⟨p, by rw [List.getElem?_set]; simp [hij, hj], rfl, rfl⟩


/-! ## Table invariant -/

def TInv (K nb : Nat) (t : Table) : Prop :=
  t.buckets.length = nb ∧ ∀ i, BInv K t.localKey i (t.buckets.getD i [])

theorem getD_modify (l : List Bucket) (i j : Nat) (f : Bucket → Bucket) :
    (l.modify i f).getD j [] = if i = j ∧ j < l.length then f (l.getD j []) else l.getD j [] := by
  simp only [List.getD_eq_getElem?_getD, List.getElem?_modify]
  by_cases hj : j < l.length
  · rw [List.getElem?_eq_getElem hj]
    by_cases hij : i = j <;> simp [hij, hj]
  · rw [List.getElem?_eq_none (by omega)]
    simp [hj]

theorem tinv_new (K nb lk : Nat) : TInv K nb (Table.new nb lk) := by
  refine ⟨by simp [Table.new], fun i => ?_⟩
  have : (Table.new nb lk).buckets.getD i [] = [] := by
    simp only [Table.new, List.getD_eq_getElem?_getD, List.getElem?_replicate]
    split <;> rfl
  rw [this]; exact binv_nil _ _ _

theorem atBucket_localKey (t : Table) (key : Nat) (f : Bucket → Bucket) :
    (t.atBucket key f).localKey = t.localKey := by
  unfold Table.atBucket; split <;> rfl

theorem tinv_atBucket {K nb : Nat} {t : Table} (key : Nat) (f : Bucket → Bucket)
    (hf : ∀ b, BStep K key b (f b)) (h : TInv K nb t) : TInv K nb (t.atBucket key f) := by
  unfold Table.atBucket
  split
  · exact h
  · rename_i i hi
    refine ⟨by simp [h.1], fun j => ?_⟩
    show BInv K t.localKey j ((t.buckets.modify i f).getD j [])
    rw [getD_modify]
    split
    · rename_i hij
      rw [← hij.1]
      exact binv_step hi (hf _) (hij.1 ▸ h.2 j)
    · exact h.2 j

theorem step_spec (K : Nat) (t : Table) (op : Op) :
    step K t op = t ∨ ∃ f, (∀ b, BStep K op.key b (f b)) ∧ step K t op = t.atBucket op.key f := by
  cases op with
  | add peer key naddrs conn rnd =>
    simp only [step, Table.addKnownPeer, Op.key]
    split
    · exact Or.inl rfl
    · exact Or.inr ⟨_, fun b => bstep_addKnownPeer K b peer key naddrs conn rnd, rfl⟩
  | connected key dialer rnd =>
    exact Or.inr ⟨_, fun b => bstep_onConnectionEstablished K b key dialer rnd, rfl⟩
  | dialFailure key naddrs rnd =>
    exact Or.inr ⟨_, fun b => bstep_onDialFailure K b key naddrs rnd, rfl⟩
  | disconnected key rnd =>
    exact Or.inr ⟨_, fun b => bstep_onDisconnected K b key rnd, rfl⟩
  | entry key rnd =>
    simp only [step, Table.entry, Op.key]
    split
    · exact Or.inl rfl
    · exact Or.inr ⟨_, fun b => bstep_entry K b key rnd, rfl⟩

theorem tinv_step {K nb : Nat} {t : Table} (op : Op) (h : TInv K nb t) : TInv K nb (step K t op) := by
  rcases step_spec K t op with he | ⟨f, hf, he⟩
  · rw [he]; exact h
  · rw [he]; exact tinv_atBucket _ f hf h

theorem step_localKey (K : Nat) (t : Table) (op : Op) : (step K t op).localKey = t.localKey := by
  rcases step_spec K t op with he | ⟨f, hf, he⟩
  · rw [he]
  · rw [he]; exact atBucket_localKey ..

theorem foldl_tinv {K nb : Nat} (ops : List Op) : ∀ {t : Table}, TInv K nb t → TInv K nb (ops.foldl (step K) t) := by
  induction ops with
  | nil => intro t h; exact h
  | cons op ops ih => intro t h; exact ih (tinv_step op h)

theorem foldl_localKey (K : Nat) (ops : List Op) : ∀ (t : Table), (ops.foldl (step K) t).localKey = t.localKey := by
  induction ops with
  | nil => intro t; rfl
  | cons op ops ih => intro t; rw [List.foldl_cons, ih, step_localKey]

theorem run_tinv (K nb lk : Nat) (ops : List Op) : TInv K nb (run K nb lk ops) :=
  foldl_tinv ops (tinv_new K nb lk)

theorem run_localKey (K nb lk : Nat) (ops : List Op) : (run K nb lk ops).localKey = lk :=
  foldl_localKey K ops _

theorem step_protected (K : Nat) (t : Table) (op : Op) {bi si : Nat} {p : Peer}
    (h : (t.buckets.getD bi [])[si]? = some (.real p)) (hc : p.conn = .connected ∨ p.conn = .canConnect) :
    ∃ p', ((step K t op).buckets.getD bi [])[si]? = some (.real p') ∧ p'.peer = p.peer ∧ p'.key = p.key := by
  rcases step_spec K t op with he | ⟨f, hf, he⟩
  · rw [he]; exact ⟨p, h, rfl, rfl⟩
  · rw [he]
    unfold Table.atBucket
    split
    · exact ⟨p, h, rfl, rfl⟩
    · rename_i i hi
      show ∃ p', ((t.buckets.modify i f).getD bi [])[si]? = _ ∧ _
      rw [getD_modify]
      split
      · exact protected_step (hf _) h hc
      · exact ⟨p, h, rfl, rfl⟩

/-- Every stored node is in range, in its bucket. -/
theorem mem_bucket_of_tinv {K nb : Nat} {t : Table} (h : TInv K nb t) {i : Nat} {p : Peer}
    (hp : Slot.real p ∈ t.buckets.getD i []) : bucketIndex (distance t.localKey p.key) = some i :=
  (h.2 i).place p hp


/-! ## `closest` -/

theorem xor_swap (l p t : Nat) : (l ^^^ p) ^^^ (l ^^^ t) = t ^^^ p := by
  apply Nat.eq_of_testBit_eq
  intro i
  simp only [Nat.testBit_xor]
  cases l.testBit i <;> cases p.testBit i <;> cases t.testBit i <;> rfl

/-- Strictly closer to the target. -/
def Closer (target : Nat) (a b : Slot) : Prop := distance target a.key < distance target b.key

theorem distinctKeys_symm {s t : Slot} (h : DistinctKeys s t) : DistinctKeys t s :=
  fun p q hp hq e => h q p hq hp e.symm

theorem real_of_hasAddr {s : Slot} (h : s.hasAddr = true) : ∃ p, s = .real p := by
  cases s with
  | junk k => simp [Slot.hasAddr] at h
  | real p => exact ⟨p, rfl⟩

theorem mem_closestIter {target : Nat} {b : Bucket} {s : Slot} :
    s ∈ closestIter target b ↔ s ∈ b ∧ s.hasAddr = true := by
  unfold closestIter
  rw [List.mem_filter, (List.mergeSort_perm b _).mem_iff]

theorem closestIter_perm (target : Nat) (b : Bucket) :
    (closestIter target b).Perm (b.filter Slot.hasAddr) :=
  (List.mergeSort_perm b _).filter _

/-- Within one bucket: strictly sorted by distance to the target. -/
theorem closestIter_sorted (target : Nat) {b : Bucket} (hk : b.Pairwise DistinctKeys) :
    (closestIter target b).Pairwise (Closer target) := by
  unfold closestIter
  have h1 := List.pairwise_mergeSort
    (le := fun x y : Slot => decide (distance target x.key ≤ distance target y.key))
    (by intro a b c; simp only [decide_eq_true_eq]; exact Nat.le_trans)
    (by intro a b; simp only [Bool.or_eq_true, decide_eq_true_eq]; exact Nat.le_total _ _) b
  have h2 := (List.Perm.pairwise_iff (fun {x y} => @distinctKeys_symm x y) (List.mergeSort_perm b
    (fun x y : Slot => decide (distance target x.key ≤ distance target y.key)))).2 hk
  refine ((h1.and h2).filter Slot.hasAddr).imp_of_mem ?_
  intro s t hs ht ⟨hle, hd⟩
  obtain ⟨p, rfl⟩ := real_of_hasAddr (List.mem_filter.1 hs).2
  obtain ⟨q, rfl⟩ := real_of_hasAddr (List.mem_filter.1 ht).2
  simp only [decide_eq_true_eq] at hle
  have hne : distance target p.key ≠ distance target q.key := by
    intro e
    exact hd p q rfl rfl (Nat.xor_right_injective e)
  exact Nat.lt_of_le_of_ne hle hne

theorem perm_flatMap_of {α β} (l : List α) (f g : α → List β) (h : ∀ a ∈ l, (f a).Perm (g a)) :
    (l.flatMap f).Perm (l.flatMap g) := by
  induction l with
  | nil => exact List.Perm.refl _
  | cons a l ih =>
    simp only [List.flatMap_cons]
    exact (h a (List.mem_cons_self ..)).append (ih fun x hx => h x (List.mem_cons_of_mem _ hx))

theorem flatMap_range_getD (l : List Bucket) (g : Bucket → List Slot) :
    (List.range l.length).flatMap (fun i => g (l.getD i [])) = l.flatMap g := by
  have : (List.range l.length).map (fun i => l.getD i []) = l := by
    apply List.ext_getElem
    · simp
    · intro i h1 h2
      simp [List.getD_eq_getElem?_getD, List.getElem?_eq_getElem h2]
  rw [← List.flatMap_map, this]

/-- The stored nodes that have at least one known address. -/
def addressed (t : Table) : List Slot := t.buckets.flatMap (fun b => b.filter Slot.hasAddr)

/-- Everything `closest` would return without a limit. -/
def closestAll (nb : Nat) (t : Table) (target : Nat) : List Slot :=
  (visited nb (distance t.localKey target)).flatMap (fun i => closestIter target (t.buckets.getD i []))

theorem closestAll_sorted {K nb : Nat} {t : Table} (h : TInv K nb t) (target : Nat) :
    (closestAll nb t target).Pairwise (Closer target) := by
  unfold closestAll
  rw [List.pairwise_flatMap]
  refine ⟨fun i _ => closestIter_sorted target (h.2 i).keys, ?_⟩
  refine (visited_pairwise nb _).imp ?_
  intro i j hij x hx y hy
  obtain ⟨hxm, hxa⟩ := mem_closestIter.1 hx
  obtain ⟨hym, hya⟩ := mem_closestIter.1 hy
  obtain ⟨p, rfl⟩ := real_of_hasAddr hxa
  obtain ⟨q, rfl⟩ := real_of_hasAddr hya
  have hp := (h.2 i).place p hxm
  have hq := (h.2 j).place q hym
  have := xor_lt_of_before hp hq hij
  unfold distance at this
  rw [xor_swap, xor_swap] at this
  exact this

theorem closestAll_perm {K nb : Nat} {t : Table} (h : TInv K nb t) (hnb : 0 < nb) {target : Nat}
    (hd : distance t.localKey target < 2 ^ nb) : (closestAll nb t target).Perm (addressed t) := by
  unfold closestAll addressed
  refine ((visited_perm hnb hd).flatMap_right _).trans ?_
  refine (perm_flatMap_of _ _ (fun i => (t.buckets.getD i []).filter Slot.hasAddr)
    (fun i _ => closestIter_perm target _)).trans ?_
  rw [← h.1, flatMap_range_getD t.buckets (fun b => b.filter Slot.hasAddr)]

theorem closest_eq_take (nb : Nat) (t : Table) (target limit : Nat) :
    t.closest nb target limit = (closestAll nb t target).take limit := rfl

/-- `closest` = the `limit` closest addressed nodes, strictly sorted. -/
theorem closest_spec {K nb : Nat} {t : Table} (h : TInv K nb t) (hnb : 0 < nb) {target : Nat}
    (hd : distance t.localKey target < 2 ^ nb) (limit : Nat) :
    (t.closest nb target limit).Pairwise (Closer target) ∧
    (∀ s ∈ t.closest nb target limit, s ∈ addressed t) ∧
    (t.closest nb target limit).length = min limit (addressed t).length ∧
    (∀ s ∈ addressed t, s ∉ t.closest nb target limit →
      ∀ r ∈ t.closest nb target limit, Closer target r s) := by
  have hs := closestAll_sorted h target
  have hp := closestAll_perm h hnb hd
  rw [closest_eq_take]
  refine ⟨hs.sublist (List.take_sublist _ _), ?_, ?_, ?_⟩
  · intro s hs'
    exact hp.mem_iff.1 (List.mem_of_mem_take hs')
  · rw [List.length_take, hp.length_eq]
  · intro s hsa hnot r hr
    have hsl : s ∈ closestAll nb t target := hp.mem_iff.2 hsa
    rw [← List.take_append_drop limit (closestAll nb t target)] at hsl hs
    rcases List.mem_append.1 hsl with h1 | h1
    · exact absurd h1 hnot
    · exact (List.pairwise_append.1 hs).2.2 r hr s h1


end Litep2pVerif.Kad.Table
