import Mathlib.Data.Nat.Bitwise
import Litep2pVerif.Model.Kad.Table
/-!
# Lemmas about the routing-table model (property C14)

* bit-level order lemma (`xor_lt_of_before`),
* what `ClosestBucketsIter` yields (`iterList_eq`) and which buckets `closest` visits (`visited_*`),
* the per-bucket invariant preserved by every operation (`BInv`, `TInv`),
* `closest` returns the `k` closest stored peers with addresses (`closest_spec`).
-/
namespace Litep2pVerif.Kad.Table
open Litep2pVerif.Kad.Key Litep2pVerif.Kad.Bucket

/-! ## Bits -/

theorem testBit_top {a i : Nat} (h : bucketIndex a = some i) : a.testBit i = true := by
  unfold bucketIndex at h
  split at h
  · simp at h
  · rename_i ha
    simp only [Option.some.injEq] at h
    subst h
    exact Nat.testBit_log2 ha

theorem testBit_above {a i m : Nat} (h : bucketIndex a = some i) (hm : i < m) : a.testBit m = false := by
  unfold bucketIndex at h
  split at h
  · simp at h
  · simp only [Option.some.injEq] at h
    subst h
    apply Nat.testBit_lt_two_pow
    calc a < 2 ^ (a.log2 + 1) := Nat.lt_log2_self
      _ ≤ 2 ^ m := Nat.pow_le_pow_right (by decide) hm

/-- Visit order of bucket indices for distance `d`. -/
def Before (d i j : Nat) : Prop :=
  (d.testBit i = true ∧ d.testBit j = true ∧ j < i) ∨
  (d.testBit i = true ∧ d.testBit j = false) ∨
  (d.testBit i = false ∧ d.testBit j = false ∧ i < j)

theorem xor_lt_of_before {d a b i j : Nat} (ha : bucketIndex a = some i) (hb : bucketIndex b = some j)
    (h : Before d i j) : a ^^^ d < b ^^^ d := by
  have hai := testBit_top ha
  have hbj := testBit_top hb
  have haa := fun m => @testBit_above a i m ha
  have hbb := fun m => @testBit_above b j m hb
  rcases h with ⟨hi, hj, hji⟩ | ⟨hi, hj⟩ | ⟨hi, hj, hij⟩
  · apply Nat.lt_of_testBit i
    · simp [Nat.testBit_xor, hai, hi]
    · simp [Nat.testBit_xor, hbb i hji, hi]
    · intro m hm
      simp [Nat.testBit_xor, haa m hm, hbb m (by omega)]
  · have hne : i ≠ j := by rintro rfl; simp [hi] at hj
    rcases Nat.lt_or_gt_of_ne hne with hlt | hgt
    · apply Nat.lt_of_testBit j
      · simp [Nat.testBit_xor, haa j hlt, hj]
      · simp [Nat.testBit_xor, hbj, hj]
      · intro m hm
        simp [Nat.testBit_xor, haa m (by omega), hbb m hm]
    · apply Nat.lt_of_testBit i
      · simp [Nat.testBit_xor, hai, hi]
      · simp [Nat.testBit_xor, hbb i hgt, hi]
      · intro m hm
        simp [Nat.testBit_xor, haa m hm, hbb m (by omega)]
  · apply Nat.lt_of_testBit j
    · simp [Nat.testBit_xor, haa j hij, hj]
    · simp [Nat.testBit_xor, hbj, hj]
    · intro m hm
      simp [Nat.testBit_xor, haa m (by omega), hbb m hm]

/-! ## The bucket iterator -/

def onesBelow (d : Nat) : Nat → List Nat
  | 0 => []
  | i + 1 => if d.testBit i then i :: onesBelow d i else onesBelow d i

def zerosFrom (d j : Nat) : Nat → List Nat
  | 0 => []
  | n + 1 => if !d.testBit j then j :: zerosFrom d (j + 1) n else zerosFrom d (j + 1) n

theorem nextIn_spec (d i : Nat) :
    (nextIn d i = none ∧ onesBelow d i = []) ∨
    (∃ j, nextIn d i = some j ∧ j < i ∧ onesBelow d i = j :: onesBelow d j) := by
  induction i with
  | zero => left; simp [nextIn, onesBelow]
  | succ i ih =>
    by_cases hb : d.testBit i = true
    · right; exact ⟨i, by simp [nextIn, hb], by omega, by simp [onesBelow, hb]⟩
    · simp only [nextIn, onesBelow, hb]
      rcases ih with h | ⟨j, h1, h2, h3⟩
      · left; simpa using h
      · right; exact ⟨j, by simpa using h1, by omega, by simpa using h3⟩

theorem nextOutFrom_spec (d : Nat) (n : Nat) : ∀ j,
    (nextOutFrom d j n = none ∧ zerosFrom d j n = []) ∨
    (∃ m, nextOutFrom d j n = some m ∧ j ≤ m ∧ m < j + n ∧
      zerosFrom d j n = m :: zerosFrom d (m + 1) (j + n - (m + 1))) := by
  induction n with
  | zero => intro j; left; simp [nextOutFrom, zerosFrom]
  | succ n ih =>
    intro j
    by_cases hb : d.testBit j = true
    · simp only [nextOutFrom, zerosFrom, hb]
      rcases ih (j + 1) with h | ⟨m, h1, h2, h3, h4⟩
      · left; simpa using h
      · right
        refine ⟨m, by simpa using h1, by omega, by omega, ?_⟩
        have : j + (n + 1) - (m + 1) = j + 1 + n - (m + 1) := by omega
        rw [this]; simpa using h4
    · right
      refine ⟨j, by simp [nextOutFrom, hb], Nat.le_refl _, by omega, ?_⟩
      have : j + (n + 1) - (j + 1) = n := by omega
      rw [this]; simp [zerosFrom, hb]

theorem drain_zoomOut (nb d : Nat) : ∀ fuel i, nb - (i + 1) < fuel →
    Iter.drain nb fuel ⟨d, .zoomOut i⟩ = zerosFrom d (i + 1) (nb - (i + 1)) := by
  intro fuel
  induction fuel with
  | zero => intro i h; omega
  | succ fuel ih =>
    intro i h
    simp only [Iter.drain, Iter.next, nextOut]
    rcases nextOutFrom_spec d (nb - (i + 1)) (i + 1) with ⟨h1, h2⟩ | ⟨m, h1, h2, h3, h4⟩
    · rw [h1, h2]
    · rw [h1, h4]
      simp only
      have e : i + 1 + (nb - (i + 1)) - (m + 1) = nb - (m + 1) := by omega
      rw [e, ih m (by omega)]

theorem drain_zoomIn (nb d : Nat) : ∀ fuel i, i + nb + 2 ≤ fuel →
    Iter.drain nb fuel ⟨d, .zoomIn i⟩ = onesBelow d i ++ 0 :: zerosFrom d 1 (nb - 1) := by
  intro fuel
  induction fuel with
  | zero => intro i h; omega
  | succ fuel ih =>
    intro i h
    simp only [Iter.drain, Iter.next]
    rcases nextIn_spec d i with ⟨h1, h2⟩ | ⟨j, h1, h2, h3⟩
    · rw [h1, h2]
      simp only [List.nil_append]
      rw [drain_zoomOut nb d fuel 0 (by omega)]
    · rw [h1, h3]
      simp only [List.cons_append]
      rw [ih j (by omega)]

/-- The index `ClosestBucketsIter::new` starts with. -/
def startIndex (d : Nat) : Nat := (bucketIndex d).getD 0

theorem iterList_eq (nb d : Nat) :
    iterList nb d = startIndex d :: onesBelow d (startIndex d) ++ 0 :: zerosFrom d 1 (nb - 1) := by
  have hle : startIndex d ≤ d.log2 := by
    unfold startIndex bucketIndex; split <;> simp
  have hnew : Iter.new d = ⟨d, .start (startIndex d)⟩ := by
    unfold Iter.new startIndex bucketIndex
    by_cases h : d = 0 <;> simp [h]
  have hstep : ∀ fuel i, Iter.drain nb (fuel + 1) ⟨d, .start i⟩ = i :: Iter.drain nb fuel ⟨d, .zoomIn i⟩ :=
    fun _ _ => rfl
  unfold iterList
  rw [hnew, hstep, drain_zoomIn nb d _ _ (by omega)]
  rfl

theorem onesBelow_eq_filter (d i : Nat) :
    onesBelow d i = (List.range i).reverse.filter (fun j => d.testBit j) := by
  induction i with
  | zero => rfl
  | succ i ih => simp [onesBelow, List.range_succ, List.filter_cons, ih]

theorem zerosFrom_eq_filter (d : Nat) (n : Nat) : ∀ j,
    zerosFrom d j n = (List.range' j n).filter (fun i => !d.testBit i) := by
  induction n with
  | zero => intro j; rfl
  | succ n ih => intro j; simp [zerosFrom, List.range'_succ, List.filter_cons, ih]


/-! ## The buckets `closest` visits -/

theorem mem_onesBelow {d i a : Nat} : a ∈ onesBelow d i ↔ a < i ∧ d.testBit a = true := by
  rw [onesBelow_eq_filter]; simp

theorem pairwise_onesBelow (d i : Nat) : (onesBelow d i).Pairwise (fun a b => b < a) := by
  induction i with
  | zero => simp [onesBelow]
  | succ i ih =>
    simp only [onesBelow]
    split
    · refine List.pairwise_cons.2 ⟨fun b hb => (mem_onesBelow.1 hb).1, ih⟩
    · exact ih

theorem mem_zerosFrom {d j n a : Nat} : a ∈ zerosFrom d j n ↔ j ≤ a ∧ a < j + n ∧ d.testBit a = false := by
  rw [zerosFrom_eq_filter]; simp only [List.mem_filter, List.mem_range'_1, Bool.not_eq_true', and_assoc]

theorem pairwise_zerosFrom (d : Nat) (n : Nat) : ∀ j, (zerosFrom d j n).Pairwise (fun a b => a < b) := by
  induction n with
  | zero => intro j; simp [zerosFrom]
  | succ n ih =>
    intro j
    simp only [zerosFrom]
    split
    · refine List.pairwise_cons.2 ⟨fun b hb => ?_, ih _⟩
      have := (mem_zerosFrom.1 hb).1; omega
    · exact ih _

theorem skipRepeats_nodup : ∀ (l : List Nat) (prev : Option Nat), l.Nodup → (∀ x, prev = some x → x ∉ l) →
    skipRepeats prev l = l := by
  intro l
  induction l with
  | nil => intros; rfl
  | cons a l ih =>
    intro prev hn hp
    have hne : prev ≠ some a := fun h => hp a h (List.mem_cons_self ..)
    rw [List.nodup_cons] at hn
    simp only [skipRepeats, hne, if_false]
    rw [ih (some a) hn.2 (by intro x hx; cases hx; exact hn.1)]

theorem skipRepeats_dup (a : Nat) (r : List Nat) : ∀ (s : List Nat) (prev : Option Nat),
    skipRepeats prev (s ++ a :: a :: r) = skipRepeats prev (s ++ a :: r) := by
  intro s
  induction s with
  | nil => intro prev; simp [skipRepeats]
  | cons x s ih => intro prev; simp only [List.cons_append, skipRepeats, ih]

theorem before_irrefl (d i : Nat) : ¬ Before d i i := by
  unfold Before; intro h
  rcases h with ⟨_, _, h⟩ | ⟨h1, h2⟩ | ⟨_, _, h⟩
  · omega
  · simp [h1] at h2
  · omega

theorem startIndex_lt {nb d : Nat} (hnb : 0 < nb) (hd : d < 2 ^ nb) : startIndex d < nb := by
  unfold startIndex bucketIndex
  by_cases h : d = 0
  · simp [h, hnb]
  · simp only [h, if_false, Option.getD_some]
    exact (Nat.log2_lt h).2 hd

/-- The head part of the visit: the set bits of `d` in decreasing order (just `[0]` for `d = 0`). -/
def headPart (d : Nat) : List Nat := startIndex d :: onesBelow d (startIndex d)

theorem mem_headPart {d a : Nat} : a ∈ headPart d ↔ (d = 0 ∧ a = 0) ∨ d.testBit a = true := by
  unfold headPart startIndex bucketIndex
  by_cases h : d = 0
  · subst h; simp [onesBelow]
  · simp only [h, if_false, Option.getD_some, List.mem_cons, mem_onesBelow, false_and, false_or]
    constructor
    · rintro (rfl | ⟨_, hb⟩)
      · exact Nat.testBit_log2 h
      · exact hb
    · intro hb
      have : a ≤ d.log2 := (Nat.le_log2 h).2 (Nat.ge_two_pow_of_testBit hb)
      rcases Nat.lt_or_eq_of_le this with h1 | h1
      · exact Or.inr ⟨h1, hb⟩
      · exact Or.inl h1

theorem pairwise_headPart (d : Nat) : (headPart d).Pairwise (fun a b => b < a) := by
  unfold headPart
  exact List.pairwise_cons.2 ⟨fun b hb => (mem_onesBelow.1 hb).1, pairwise_onesBelow _ _⟩

theorem visited_eq (nb d : Nat) :
    visited nb d = if 0 ∈ headPart d then headPart d ++ zerosFrom d 1 (nb - 1)
      else headPart d ++ 0 :: zerosFrom d 1 (nb - 1) := by
  have hZ0 : (0 : Nat) ∉ zerosFrom d 1 (nb - 1) := by
    intro h; have := (mem_zerosFrom.1 h).1; omega
  have hZn : (zerosFrom d 1 (nb - 1)).Nodup :=
    (pairwise_zerosFrom d _ 1).imp (fun h => Nat.ne_of_lt h)
  have hAn : (headPart d).Nodup := (pairwise_headPart d).imp (fun h => (Nat.ne_of_lt h).symm)
  have hdisj : ∀ a ∈ headPart d, a ∉ zerosFrom d 1 (nb - 1) := by
    intro a ha hz
    have hz' := mem_zerosFrom.1 hz
    rcases mem_headPart.1 ha with ⟨_, rfl⟩ | hb
    · omega
    · simp [hb] at hz'
  unfold visited
  rw [iterList_eq]
  show skipRepeats none (headPart d ++ 0 :: zerosFrom d 1 (nb - 1)) = _
  split
  · rename_i h0
    obtain ⟨s, t, hst⟩ := List.append_of_mem h0
    have ht : t = [] := by
      cases t with
      | nil => rfl
      | cons x t =>
        have hp := pairwise_headPart d
        rw [hst] at hp
        have := (List.pairwise_append.1 hp).2.1
        have := (List.pairwise_cons.1 this).1 x (List.mem_cons_self ..)
        omega
    subst ht
    rw [hst, List.append_assoc]
    show skipRepeats none (s ++ 0 :: 0 :: _) = _
    rw [skipRepeats_dup, skipRepeats_nodup _ _ _ (by simp)]
    · simp
    · have : (headPart d ++ zerosFrom d 1 (nb - 1)).Nodup :=
        List.nodup_append.2 ⟨hAn, hZn, fun a ha b hb hab => hdisj a ha (hab ▸ hb)⟩
      rw [hst] at this
      simpa using this
  · rename_i h0
    rw [skipRepeats_nodup _ _ _ (by simp)]
    refine List.nodup_append.2 ⟨hAn, List.nodup_cons.2 ⟨hZ0, hZn⟩, ?_⟩
    intro a ha b hb hab
    subst hab
    rcases List.mem_cons.1 hb with rfl | hb
    · exact h0 ha
    · exact hdisj a ha hb


theorem mem_visited {nb d a : Nat} :
    a ∈ visited nb d ↔ a ∈ headPart d ∨ a = 0 ∨ a ∈ zerosFrom d 1 (nb - 1) := by
  rw [visited_eq]
  split
  · rename_i h0
    simp only [List.mem_append]
    constructor
    · rintro (h | h); exact Or.inl h; exact Or.inr (Or.inr h)
    · rintro (h | rfl | h); exact Or.inl h; exact Or.inl h0; exact Or.inr h
  · simp only [List.mem_append, List.mem_cons]

theorem visited_pairwise (nb d : Nat) : (visited nb d).Pairwise (Before d) := by
  have hA : (headPart d).Pairwise (Before d) := by
    refine (pairwise_headPart d).imp_of_mem ?_
    intro a b ha hb hlt
    rcases mem_headPart.1 ha with ⟨_, rfl⟩ | ha'
    · omega
    · rcases mem_headPart.1 hb with ⟨h0, rfl⟩ | hb'
      · subst h0; simp at ha'
      · exact Or.inl ⟨ha', hb', hlt⟩
  have hZ : (zerosFrom d 1 (nb - 1)).Pairwise (Before d) := by
    refine (pairwise_zerosFrom d _ 1).imp_of_mem ?_
    intro a b ha hb hlt
    exact Or.inr (Or.inr ⟨(mem_zerosFrom.1 ha).2.2, (mem_zerosFrom.1 hb).2.2, hlt⟩)
  have hAZ : ∀ a ∈ headPart d, ∀ z ∈ zerosFrom d 1 (nb - 1), Before d a z := by
    intro a ha z hz
    have hz' := mem_zerosFrom.1 hz
    rcases mem_headPart.1 ha with ⟨h0, rfl⟩ | ha'
    · subst h0
      exact Or.inr (Or.inr ⟨by simp, hz'.2.2, by omega⟩)
    · exact Or.inr (Or.inl ⟨ha', hz'.2.2⟩)
  rw [visited_eq]
  split
  · exact List.pairwise_append.2 ⟨hA, hZ, hAZ⟩
  · rename_i h0
    have hb0 : d.testBit 0 = false := by
      cases hb : d.testBit 0 with
      | false => rfl
      | true => exact absurd (mem_headPart.2 (Or.inr hb)) h0
    refine List.pairwise_append.2 ⟨hA, List.pairwise_cons.2 ⟨?_, hZ⟩, ?_⟩
    · intro z hz
      have hz' := mem_zerosFrom.1 hz
      exact Or.inr (Or.inr ⟨hb0, hz'.2.2, by omega⟩)
    · intro a ha b hb
      rcases List.mem_cons.1 hb with rfl | hb
      · rcases mem_headPart.1 ha with ⟨_, rfl⟩ | ha'
        · exact absurd ha h0
        · exact Or.inr (Or.inl ⟨ha', hb0⟩)
      · exact hAZ a ha b hb

theorem visited_perm {nb d : Nat} (hnb : 0 < nb) (hd : d < 2 ^ nb) :
    (visited nb d).Perm (List.range nb) := by
  have hn : (visited nb d).Nodup :=
    (visited_pairwise nb d).imp (fun {a b} h (hab : a = b) => before_irrefl d a (by rw [← hab] at h; exact h))
  refine (List.perm_ext_iff_of_nodup hn List.nodup_range).2 ?_
  intro a
  rw [mem_visited, List.mem_range]
  constructor
  · rintro (h | rfl | h)
    · rcases mem_headPart.1 h with ⟨_, rfl⟩ | hb
      · exact hnb
      · apply Nat.lt_of_not_le
        intro hle
        have : d.testBit a = false :=
          Nat.testBit_lt_two_pow (Nat.lt_of_lt_of_le hd (Nat.pow_le_pow_right (by decide) hle))
        simp [hb] at this
    · exact hnb
    · have := mem_zerosFrom.1 h; omega
  · intro ha
    cases hb : d.testBit a with
    | true => exact Or.inl (mem_headPart.2 (Or.inr hb))
    | false =>
      rcases Nat.eq_zero_or_pos a with rfl | hpos
      · exact Or.inr (Or.inl rfl)
      · exact Or.inr (Or.inr (mem_zerosFrom.2 ⟨hpos, by omega, hb⟩))


end Litep2pVerif.Kad.Table
