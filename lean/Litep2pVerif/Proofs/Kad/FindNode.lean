import Litep2pVerif.Proofs.Kad.Query
/-!
# Invariants of `FindNodeContext` (C15)
-/
namespace Litep2pVerif.Kad.Query

/-! ### pending map -/

theorem pendLookup_some {p : Nat} {l : List (KPeer × Nat)} {x : KPeer × Nat}
    (h : pendLookup p l = some x) : x ∈ l ∧ x.1.peer = p := by
  induction l with
  | nil => simp [pendLookup] at h
  | cons y ys ih =>
    simp only [pendLookup] at h
    split at h
    · simp only [Option.some.injEq] at h; subst h; exact ⟨List.mem_cons_self .., by assumption⟩
    · exact ⟨List.mem_cons_of_mem _ (ih h).1, (ih h).2⟩

theorem pendLookup_none {p : Nat} {l : List (KPeer × Nat)} (h : pendLookup p l = none) :
    p ∉ pendPeers l := by
  induction l with
  | nil => simp [pendPeers]
  | cons y ys ih =>
    simp only [pendLookup] at h
    split at h
    · simp at h
    · rename_i hne
      simp only [pendPeers, List.map_cons, List.mem_cons, not_or]
      exact ⟨fun e => hne e.symm, ih h⟩

theorem pendLookup_isSome {p : Nat} {l : List (KPeer × Nat)} :
    (pendLookup p l).isSome = true ↔ p ∈ pendPeers l := by
  constructor
  · intro h
    obtain ⟨x, hx⟩ := Option.isSome_iff_exists.1 h
    have := pendLookup_some hx
    exact List.mem_map.2 ⟨x, this.1, this.2⟩
  · intro h
    cases hl : pendLookup p l with
    | none => exact absurd h (pendLookup_none hl)
    | some x => rfl

theorem pendPeers_erase (p : Nat) (l : List (KPeer × Nat)) :
    pendPeers (pendErase p l) = (pendPeers l).filter (· ≠ p) := by
  unfold pendPeers pendErase
  rw [List.filter_map]
  rfl

theorem pendErase_of_not_mem {p : Nat} {l : List (KPeer × Nat)} (h : p ∉ pendPeers l) :
    pendErase p l = l := by
  apply List.filter_eq_self.2
  intro a ha
  simp only [ne_eq, decide_eq_true_eq]
  intro e
  exact h (List.mem_map.2 ⟨a, ha, e⟩)

/-! ### the parallelism accounting -/

/-- Pending requests that still count towards the parallelism factor. -/
def FindNode.live (s : FindNode) : List (KPeer × Nat) :=
  s.pending.filter (fun x => x.1.peer ∉ s.timedOut)

/-- Invariant of the counter `pending_responses` and the set `timed_out`; `t` is the last clock
reading. -/
structure CInv (s : FindNode) (t : Nat) : Prop where
  live : s.live.length ≤ s.pendingResponses
  ctr : s.pendingResponses ≤ s.par
  toNodup : s.timedOut.Nodup
  toPend : ∀ p ∈ s.timedOut, p ∈ pendPeers s.pending
  stale : ∀ x ∈ s.pending, x.1.peer ∈ s.timedOut → s.peerTimeout < t - x.2
  upper : s.pendingResponses + s.timedOut.length ≤ s.pending.length

theorem filter_ne_length {l : List Nat} {p : Nat} (hp : p ∈ l) (hn : l.Nodup) :
    (l.filter (· ≠ p)).length + 1 = l.length := by
  induction l with
  | nil => simp at hp
  | cons y ys ih =>
    have hn' := List.nodup_cons.1 hn
    simp only [List.filter_cons]
    rcases List.mem_cons.1 hp with hp | hp
    · subst hp
      have : ys.filter (· ≠ p) = ys := by
        apply List.filter_eq_self.2
        intro a ha
        simp; intro e; exact hn'.1 (e ▸ ha)
      rw [if_neg (by simp), this]
      simp
    · have hne : y ≠ p := fun e => hn'.1 (e ▸ hp)
      rw [if_pos (by simpa using hne)]
      simp only [List.length_cons]
      have := ih hp hn'.2
      omega

theorem pendErase_length {l : List (KPeer × Nat)} {p : Nat} (hp : p ∈ pendPeers l)
    (hn : (pendPeers l).Nodup) : (pendErase p l).length + 1 = l.length := by
  have := filter_ne_length hp hn
  rw [← pendPeers_erase] at this
  simpa [pendPeers] using this

theorem filter_length_le_of_imp {α : Type} (l : List α) (P Q : α → Bool) (h : ∀ x ∈ l, P x → Q x) :
    (l.filter P).length ≤ (l.filter Q).length := by
  induction l with
  | nil => simp
  | cons y ys ih =>
    have ih' := ih (fun x hx => h x (List.mem_cons_of_mem _ hx))
    simp only [List.filter_cons]
    by_cases hp : P y
    · simp [hp, h y (List.mem_cons_self ..) hp]; exact ih'
    · by_cases hq : Q y
      · simp [hp, hq]; omega
      · simp [hp, hq]; exact ih'

theorem filter_length_lt_of_imp {α : Type} (l : List α) (P Q : α → Bool) (h : ∀ x ∈ l, P x → Q x)
    (c : α) (hc : c ∈ l) (hQ : Q c) (hP : ¬ P c) : (l.filter P).length < (l.filter Q).length := by
  induction l with
  | nil => simp at hc
  | cons y ys ih =>
    have hmono := filter_length_le_of_imp ys P Q (fun x hx => h x (List.mem_cons_of_mem _ hx))
    simp only [List.filter_cons]
    rcases List.mem_cons.1 hc with hc | hc
    · subst hc; simp [hP, hQ]; omega
    · have := ih (fun x hx => h x (List.mem_cons_of_mem _ hx)) hc
      by_cases hp : P y
      · simp [hp, h y (List.mem_cons_self ..) hp]; exact this
      · by_cases hq : Q y
        · simp [hp, hq]; omega
        · simp [hp, hq]; exact this

/-- The fresh requests are among the live ones, hence at most `pending_responses ≤ parallelism`. -/
theorem CInv.fresh_le {s : FindNode} {t : Nat} (h : CInv s t) (now : Nat) (ht : t ≤ now) :
    (s.fresh now).length ≤ s.par := by
  have : (s.fresh now).length ≤ s.live.length := by
    unfold FindNode.fresh FindNode.live
    apply filter_length_le_of_imp
    intro x hx hf
    simp only [decide_eq_true_eq] at hf ⊢
    intro hm
    have := h.stale x hx hm
    omega
  have := h.live
  have := h.ctr
  omega

theorem CInv.mono {s : FindNode} {t t' : Nat} (h : CInv s t) (ht : t ≤ t') : CInv s t' :=
  ⟨h.live, h.ctr, h.toNodup, h.toPend, fun x hx hm => by have := h.stale x hx hm; omega, h.upper⟩

theorem CInv.congr {s s' : FindNode} {t : Nat} (h : CInv s t) (h1 : s'.pending = s.pending)
    (h2 : s'.timedOut = s.timedOut) (h3 : s'.pendingResponses = s.pendingResponses)
    (h4 : s'.par = s.par) (h5 : s'.peerTimeout = s.peerTimeout) : CInv s' t := by
  refine ⟨?_, ?_, ?_, ?_, ?_, ?_⟩
  · have := h.live; unfold FindNode.live at this ⊢; rw [h1, h2, h3]; exact this
  · rw [h3, h4]; exact h.ctr
  · rw [h2]; exact h.toNodup
  · rw [h1, h2]; exact h.toPend
  · rw [h1, h2, h5]; exact h.stale
  · rw [h1, h2, h3]; exact h.upper

/-- Removing an answered peer from `pending` and settling the counter. -/
theorem CInv.register {s : FindNode} {t peer : Nat} {kp : KPeer} {tm : Nat} (h : CInv s t)
    (hn : (pendPeers s.pending).Nodup) (hl : pendLookup peer s.pending = some (kp, tm)) :
    CInv (FindNode.discount { s with pending := pendErase peer s.pending } kp.peer) t := by
  obtain ⟨hmem, hpeer⟩ := pendLookup_some hl
  simp only at hpeer
  subst hpeer
  have hlen : (pendErase kp.peer s.pending).length + 1 = s.pending.length :=
    pendErase_length (List.mem_map.2 ⟨(kp, tm), hmem, rfl⟩) hn
  unfold FindNode.discount
  simp only []
  split
  · rename_i hto
    refine ⟨?_, h.ctr, h.toNodup.erase _, ?_, ?_, ?_⟩
    · refine Nat.le_trans ?_ h.live
      unfold FindNode.live pendErase
      simp only [List.filter_filter]
      apply filter_length_le_of_imp
      intro x _ hx
      simp only [ne_eq, Bool.and_eq_true, decide_eq_true_eq] at hx ⊢
      intro hm
      exact hx.1 ((List.mem_erase_of_ne hx.2).2 hm)
    · intro q hq
      simp only at hq ⊢
      have hq' := (h.toNodup.mem_erase_iff).1 hq
      rw [pendPeers_erase]
      exact List.mem_filter.2 ⟨h.toPend q hq'.2, by simpa using hq'.1⟩
    · intro x hx hm
      simp only at hx hm ⊢
      exact h.stale x (List.mem_filter.1 hx).1 (List.mem_of_mem_erase hm)
    · have := h.upper
      have := List.length_erase_of_mem hto
      simp only [this] at *
      have : 0 < s.timedOut.length := List.length_pos_of_mem hto
      omega
  · rename_i hto
    have hlt : (FindNode.live { s with pending := pendErase kp.peer s.pending }).length < s.live.length := by
      unfold FindNode.live pendErase
      simp only [List.filter_filter]
      apply filter_length_lt_of_imp _ _ _ _ (kp, tm) hmem
      · simpa using hto
      · simp
      · intro x _ hx
        simp only [ne_eq, Bool.and_eq_true, decide_eq_true_eq] at hx ⊢
        exact hx.1
    refine ⟨?_, ?_, h.toNodup, ?_, ?_, ?_⟩
    · have := h.live
      simp only [FindNode.live] at hlt this ⊢
      omega
    · have := h.ctr; simp only; omega
    rotate_left 2
    · have := h.upper
      have := h.live
      simp only [FindNode.live] at hlt this ⊢
      omega
    · intro q hq
      simp only at hq ⊢
      rw [pendPeers_erase]
      refine List.mem_filter.2 ⟨h.toPend q hq, ?_⟩
      simp only [ne_eq, decide_eq_true_eq]
      intro e; exact hto (e ▸ hq)
    · intro x hx hm
      simp only at hx hm ⊢
      exact h.stale x (List.mem_filter.1 hx).1 hm

theorem map_inj_of_nodup {α β : Type} (f : α → β) {l : List α} (h : (l.map f).Nodup) {x y : α}
    (hx : x ∈ l) (hy : y ∈ l) (e : f x = f y) : x = y := by
  induction l with
  | nil => simp at hx
  | cons z zs ih =>
    simp only [List.map_cons, List.nodup_cons] at h
    rcases List.mem_cons.1 hx with hx | hx <;> rcases List.mem_cons.1 hy with hy | hy
    · rw [hx, hy]
    · exact absurd (List.mem_map.2 ⟨y, hy, by rw [← e, hx]⟩) h.1
    · exact absurd (List.mem_map.2 ⟨x, hx, by rw [e, hy]⟩) h.1
    · exact ih h.2 hx hy

theorem CInv.markOne {s : FindNode} {now : Nat} {x : KPeer × Nat} (h : CInv s now)
    (hn : (pendPeers s.pending).Nodup) (hx : x ∈ s.pending) :
    CInv (FindNode.markOne now s x) now := by
  unfold FindNode.markOne
  split
  · rename_i hc
    have hlt : (FindNode.live { s with timedOut := x.1.peer :: s.timedOut, pendingResponses := s.pendingResponses - 1 }).length < s.live.length := by
      unfold FindNode.live
      simp only []
      apply filter_length_lt_of_imp _ _ _ _ x hx
      · simpa using hc.2
      · simp
      · intro y _ hy
        simp only [List.mem_cons, not_or, decide_eq_true_eq] at hy ⊢
        exact hy.2
    refine ⟨?_, ?_, List.nodup_cons.2 ⟨hc.2, h.toNodup⟩, ?_, ?_, ?_⟩
    · have := h.live
      simp only [FindNode.live] at hlt this ⊢
      omega
    · have := h.ctr; simp only; omega
    rotate_left 2
    · have := h.upper
      have := h.live
      simp only [FindNode.live, List.length_cons] at hlt this ⊢
      omega
    · intro q hq
      simp only at hq ⊢
      rcases List.mem_cons.1 hq with hq | hq
      · subst hq; exact List.mem_map.2 ⟨x, hx, rfl⟩
      · exact h.toPend q hq
    · intro y hy hm
      simp only at hy hm ⊢
      rcases List.mem_cons.1 hm with hm | hm
      · have : y = x := map_inj_of_nodup (fun z : KPeer × Nat => z.1.peer) hn hy hx hm
        subst this; exact hc.1
      · exact h.stale y hy hm
  · exact h

theorem markOne_fields (now : Nat) (s : FindNode) (x : KPeer × Nat) :
    (FindNode.markOne now s x).pending = s.pending ∧
    (FindNode.markOne now s x).queried = s.queried ∧
    (FindNode.markOne now s x).candidates = s.candidates ∧
    (FindNode.markOne now s x).responses = s.responses ∧
    (FindNode.markOne now s x).localPeer = s.localPeer ∧
    (FindNode.markOne now s x).repl = s.repl ∧
    (FindNode.markOne now s x).par = s.par ∧
    (FindNode.markOne now s x).query = s.query ∧
    (FindNode.markOne now s x).peerTimeout = s.peerTimeout := by
  unfold FindNode.markOne
  split <;> simp

theorem foldl_markOne (now : Nat) (l : List (KPeer × Nat)) (s : FindNode) (h : CInv s now)
    (hn : (pendPeers s.pending).Nodup) (hl : ∀ x ∈ l, x ∈ s.pending) :
    CInv (l.foldl (FindNode.markOne now) s) now ∧
    (l.foldl (FindNode.markOne now) s).pending = s.pending ∧
    (l.foldl (FindNode.markOne now) s).queried = s.queried ∧
    (l.foldl (FindNode.markOne now) s).candidates = s.candidates ∧
    (l.foldl (FindNode.markOne now) s).responses = s.responses ∧
    (l.foldl (FindNode.markOne now) s).localPeer = s.localPeer ∧
    (l.foldl (FindNode.markOne now) s).repl = s.repl ∧
    (l.foldl (FindNode.markOne now) s).par = s.par ∧
    (l.foldl (FindNode.markOne now) s).query = s.query ∧
    (l.foldl (FindNode.markOne now) s).peerTimeout = s.peerTimeout := by
  induction l generalizing s with
  | nil => exact ⟨h, rfl, rfl, rfl, rfl, rfl, rfl, rfl, rfl, rfl⟩
  | cons x xs ih =>
    simp only [List.foldl_cons]
    have hf := markOne_fields now s x
    have := ih (FindNode.markOne now s x) (h.markOne hn (hl x (List.mem_cons_self ..)))
      (by rw [hf.1]; exact hn) (by rw [hf.1]; exact fun y hy => hl y (List.mem_cons_of_mem _ hy))
    obtain ⟨a, b1, b2, b3, b4, b5, b6, b7, b8, b9⟩ := this
    obtain ⟨c1, c2, c3, c4, c5, c6, c7, c8, c9⟩ := hf
    exact ⟨a, b1.trans c1, b2.trans c2, b3.trans c3, b4.trans c4, b5.trans c5, b6.trans c6,
      b7.trans c7, b8.trans c8, b9.trans c9⟩

theorem CInv.schedule {s : FindNode} {now : Nat} {c : KPeer} {rest : DMap} (h : CInv s now)
    (hne : s.pendingResponses ≠ s.par) (hc : c.peer ∉ pendPeers s.pending) :
    CInv { s with candidates := rest, pending := (c, now) :: pendErase c.peer s.pending,
                  pendingResponses := s.pendingResponses + 1 } now := by
  have hto : c.peer ∉ s.timedOut := fun hm => hc (h.toPend _ hm)
  rw [pendErase_of_not_mem hc]
  refine ⟨?_, ?_, h.toNodup, ?_, ?_, ?_⟩
  · have := h.live
    simp only [FindNode.live, List.filter_cons] at this ⊢
    simp only [hto, not_false_eq_true, decide_true, if_true, List.length_cons]
    omega
  · have := h.ctr; simp only; omega
  rotate_left 2
  · have := h.upper
    simp only [List.length_cons]
    omega
  · intro q hq
    simp only [pendPeers, List.map_cons, List.mem_cons]
    exact Or.inr (h.toPend q hq)
  · intro x hx hm
    simp only at hx hm ⊢
    rcases List.mem_cons.1 hx with hx | hx
    · subst hx; exact absurd hm hto
    · exact h.stale x hx hm

/-! ### responses -/

theorem insertResponse_inv (repl : Nat) (r : DMap) (kp : KPeer) (P : Nat × KPeer → Prop)
    (hs : Sorted r) (hP : ∀ x ∈ r, P x) (hkp : P (kp.dist, kp)) (hlen : r.length ≤ repl) :
    Sorted (insertResponse repl r kp) ∧ (∀ x ∈ insertResponse repl r kp, P x) ∧
      (insertResponse repl r kp).length ≤ repl := by
  have hP' : ∀ x ∈ dinsert kp.dist kp r, P x := by
    intro x hx
    rcases mem_dinsert_sub hx with hx | hx
    · exact hx ▸ hkp
    · exact hP x hx
  unfold insertResponse
  split
  · exact ⟨dinsert_sorted hs, hP', by have := dinsert_length_le kp.dist kp r; omega⟩
  · split
    · split
      · refine ⟨(dinsert_sorted hs).sublist (List.dropLast_sublist _), ?_, ?_⟩
        · intro x hx; exact hP' x ((List.dropLast_sublist _).subset hx)
        · have := dinsert_length_le kp.dist kp r
          simp only [List.length_dropLast]; omega
      · exact ⟨dinsert_sorted hs, hP', by omega⟩
    · exact ⟨hs, hP, hlen⟩

/-! ### the combined invariant and its preservation by every step -/

/-- `A`: peers whose response was accepted so far; `t`: last clock reading. -/
structure FInv (d : Nat → Nat) (U : List Nat) (s : FindNode) (A : List Nat) (t : Nat) : Prop where
  fr : Frontier d U s.localPeer s.candidates (pendPeers s.pending) s.queried
  c : CInv s t
  rs : Sorted s.responses
  rkey : ∀ x ∈ s.responses, x.1 = x.2.dist ∧ x.2.peer ∈ A
  rlen : s.responses.length ≤ s.repl

def SameCfg (s s' : FindNode) : Prop :=
  s'.localPeer = s.localPeer ∧ s'.repl = s.repl ∧ s'.par = s.par ∧ s'.query = s.query ∧
    s'.peerTimeout = s.peerTimeout

def FindNode.visited (s : FindNode) (q : Nat) : Prop := q ∈ pendPeers s.pending ∨ q ∈ s.queried

def FindNode.mu (U : List Nat) (s : FindNode) : Nat := measure U (pendPeers s.pending) s.queried

theorem discount_fields (s : FindNode) (p : Nat) :
    (s.discount p).pending = s.pending ∧ (s.discount p).queried = s.queried ∧
    (s.discount p).candidates = s.candidates ∧ (s.discount p).responses = s.responses ∧
    (s.discount p).localPeer = s.localPeer ∧ (s.discount p).repl = s.repl ∧
    (s.discount p).par = s.par ∧ (s.discount p).query = s.query ∧
    (s.discount p).peerTimeout = s.peerTimeout := by
  unfold FindNode.discount
  split <;> simp

theorem FInv.fail {d U s A t} (p : Nat) (h : FInv d U s A t) :
    FInv d U (s.registerResponseFailure p) A t ∧ SameCfg s (s.registerResponseFailure p) ∧
    (∀ q, s.visited q → (s.registerResponseFailure p).visited q) ∧
    (s.registerResponseFailure p).mu U + (if (pendLookup p s.pending).isSome then 1 else 0) = s.mu U := by
  unfold FindNode.registerResponseFailure
  split
  · rename_i hl
    simp only [hl, Option.isSome_none]
    exact ⟨h, ⟨rfl, rfl, rfl, rfl, rfl⟩, fun q hq => hq, by simp⟩
  · rename_i kp tm hl
    obtain ⟨hmem, hpeer⟩ := pendLookup_some hl
    simp only at hpeer
    subst hpeer
    have hp : kp.peer ∈ pendPeers s.pending := pendLookup_isSome.1 (by simp [hl])
    have hd := discount_fields { s with pending := pendErase kp.peer s.pending } kp.peer
    simp only [] at hd
    obtain ⟨d1, d2, d3, d4, d5, d6, d7, d8, d9⟩ := hd
    have hfr := Frontier.fail kp.peer h.fr hp
    refine ⟨⟨?_, ?_, ?_, ?_, ?_⟩, ⟨d5, d6, d7, d8, d9⟩, ?_, ?_⟩
    · simp only [d1, d3, d5, pendPeers_erase]; exact hfr
    · exact (h.c.register h.fr.pendNodup hl).congr rfl rfl rfl rfl rfl
    · simp only [d4]; exact h.rs
    · simp only [d4]; exact h.rkey
    · simp only [d4, d6]; exact h.rlen
    · intro q hq
      unfold FindNode.visited at hq ⊢
      simp only [d1, pendPeers_erase, mem_sinsert, List.mem_filter]
      by_cases hqp : q = kp.peer
      · exact Or.inr (Or.inl hqp)
      · rcases hq with hq | hq
        · exact Or.inl ⟨hq, by simpa using hqp⟩
        · exact Or.inr (Or.inr hq)
    · unfold FindNode.mu
      simp only [d1, pendPeers_erase, hl, Option.isSome_some, if_true]
      exact measure_answer hp h.fr.pendNodup

theorem FInv.resp {d U s A t} (p : Nat) (peers : List KPeer) (h : FInv d U s A t)
    (hpeers : ∀ kp ∈ peers, kp.dist = d kp.peer ∧ kp.peer ∈ U) :
    FInv d U (s.registerResponse p peers) (if (pendLookup p s.pending).isSome then p :: A else A) t ∧
    SameCfg s (s.registerResponse p peers) ∧
    (∀ q, s.visited q → (s.registerResponse p peers).visited q) ∧
    (s.registerResponse p peers).mu U + (if (pendLookup p s.pending).isSome then 1 else 0) = s.mu U := by
  unfold FindNode.registerResponse
  split
  · rename_i hl
    simp only [hl, Option.isSome_none]
    exact ⟨h, ⟨rfl, rfl, rfl, rfl, rfl⟩, fun q hq => hq, by simp⟩
  · rename_i kp tm hl
    obtain ⟨hmem, hpeer⟩ := pendLookup_some hl
    simp only at hpeer
    subst hpeer
    have hp : kp.peer ∈ pendPeers s.pending := pendLookup_isSome.1 (by simp [hl])
    have hd := discount_fields { s with pending := pendErase kp.peer s.pending } kp.peer
    simp only [] at hd
    obtain ⟨d1, d2, d3, d4, d5, d6, d7, d8, d9⟩ := hd
    have hfr := Frontier.answer kp.peer peers h.fr hp hpeers
    have hkey := h.fr.pendNodup
    have hins := insertResponse_inv s.repl s.responses kp (fun x => x.1 = x.2.dist ∧ x.2.peer ∈ kp.peer :: A)
      h.rs (fun x hx => ⟨(h.rkey x hx).1, List.mem_cons_of_mem _ (h.rkey x hx).2⟩)
      ⟨rfl, by simp⟩ h.rlen
    simp only [hl, Option.isSome_some, if_true]
    refine ⟨⟨?_, ?_, ?_, ?_, ?_⟩, ⟨d5, d6, d7, d8, d9⟩, ?_, ?_⟩
    · simp only [d1, d5, pendPeers_erase]; exact hfr
    · exact (h.c.register h.fr.pendNodup hl).congr rfl rfl rfl rfl rfl
    · exact hins.1
    · exact hins.2.1
    · simp only [d6]; exact hins.2.2
    · intro q hq
      unfold FindNode.visited at hq ⊢
      simp only [d1, pendPeers_erase, mem_sinsert, List.mem_filter]
      by_cases hqp : q = kp.peer
      · exact Or.inr (Or.inl hqp)
      · rcases hq with hq | hq
        · exact Or.inl ⟨hq, by simpa using hqp⟩
        · exact Or.inr (Or.inr hq)
    · unfold FindNode.mu
      simp only [d1, pendPeers_erase]
      exact measure_answer hp h.fr.pendNodup

/-- What one call of `next_action` guarantees about its result. -/
def NextSpec (U : List Nat) (s s' : FindNode) : Option QAction → Prop
  | some (.send q c) =>
    q = s.query ∧ c ≠ s.localPeer ∧ ¬ s.visited c ∧ c ∈ pendPeers s'.pending ∧ s'.mu U + 1 ≤ s.mu U
  | some (.succeeded q) =>
    q = s.query ∧ s'.pending = s.pending ∧ s'.queried = s.queried ∧ s'.candidates = s.candidates ∧
      s'.responses = s.responses ∧
      (∀ x ∈ s.responses.getLast?, ∀ c ∈ s.candidates, x.1 ≤ c.2.dist)
  | some (.failed q) =>
    q = s.query ∧ s'.pending = s.pending ∧ s'.queried = s.queried ∧ s'.candidates = s.candidates ∧
      s'.responses = s.responses ∧ s.pending = [] ∧ s.candidates = []
  | some (.partialRecord _ _ _) => False
  | none =>
    s'.pending = s.pending ∧ s'.queried = s.queried ∧ s'.candidates = s.candidates ∧
      s'.responses = s.responses ∧ (1 ≤ s.par → s.pending ≠ []) ∧
      (s.par = 0 → s.candidates = [] → s.pending ≠ [])

theorem FInv.schedule {d U s A now} (h : FInv d U s A now) (hne : s.pendingResponses ≠ s.par)
    (hnd : ¬ (s.pending.isEmpty ∧ s.candidates.isEmpty)) :
    FInv d U (s.scheduleNextPeer now).1 A now ∧ SameCfg s (s.scheduleNextPeer now).1 ∧
    (∀ q, s.visited q → (s.scheduleNextPeer now).1.visited q) ∧
    NextSpec U s (s.scheduleNextPeer now).1 (s.scheduleNextPeer now).2 := by
  unfold FindNode.scheduleNextPeer
  split
  · rename_i hc
    refine ⟨h, ⟨rfl, rfl, rfl, rfl, rfl⟩, fun q hq => hq, rfl, rfl, rfl, rfl, ?_, ?_⟩
    · intro _ hp
      apply hnd
      simp [hp, hc]
    · intro _ _ hp
      apply hnd
      simp [hp, hc]
  · rename_i k c rest hc
    have hfr := h.fr
    rw [hc] at hfr
    obtain ⟨hfr', h1, h2, h3, h4⟩ := hfr.send
    have he : pendErase c.peer s.pending = s.pending := pendErase_of_not_mem h2
    refine ⟨⟨?_, ?_, h.rs, h.rkey, h.rlen⟩, ⟨rfl, rfl, rfl, rfl, rfl⟩, ?_, rfl, h1, ?_, ?_, ?_⟩
    · simp only [he, pendPeers, List.map_cons]; exact hfr'
    · exact h.c.schedule hne h2
    · intro q hq
      unfold FindNode.visited at hq ⊢
      simp only [he, pendPeers, List.map_cons, List.mem_cons]
      rcases hq with hq | hq
      · exact Or.inl (Or.inr hq)
      · exact Or.inr hq
    · unfold FindNode.visited; simp only [not_or]; exact ⟨h2, h3⟩
    · simp [pendPeers]
    · unfold FindNode.mu
      simp only [he, pendPeers, List.map_cons]
      exact measure_send h4 h2 h3

theorem head_le_of_sorted {m : DMap} {x : Nat × KPeer} (hs : Sorted m) (hx : m.head? = some x) :
    ∀ y ∈ m, x.1 ≤ y.1 := by
  cases m with
  | nil => simp at hx
  | cons z zs =>
    simp only [List.head?_cons, Option.some.injEq] at hx
    subst hx
    intro y hy
    rcases List.mem_cons.1 hy with hy | hy
    · subst hy; exact Nat.le_refl _
    · exact Nat.le_of_lt ((List.pairwise_cons.1 hs).1 y hy)

theorem FInv.next {d U s A t} (now : Nat) (h : FInv d U s A t) (ht : t ≤ now) :
    FInv d U (s.nextAction now).1 A now ∧ SameCfg s (s.nextAction now).1 ∧
    (∀ q, s.visited q → (s.nextAction now).1.visited q) ∧
    NextSpec U s (s.nextAction now).1 (s.nextAction now).2 := by
  have hnow : FInv d U s A now := ⟨h.fr, h.c.mono ht, h.rs, h.rkey, h.rlen⟩
  unfold FindNode.nextAction
  split
  · rename_i hdone
    have hp : s.pending = [] := by simpa using hdone.1
    have hc : s.candidates = [] := by simpa using hdone.2
    refine ⟨hnow, ⟨rfl, rfl, rfl, rfl, rfl⟩, fun q hq => hq, ?_⟩
    simp only
    split
    · exact ⟨rfl, rfl, rfl, rfl, rfl, hp, hc⟩
    · refine ⟨rfl, rfl, rfl, rfl, rfl, ?_⟩
      intro x _ c hcm
      simp [hc] at hcm
  · rename_i hnd
    obtain ⟨m0, m1, m2, m3, m4, m5, m6, m7, m8, m9⟩ :=
      foldl_markOne now s.pending s hnow.c h.fr.pendNodup (fun x hx => hx)
    have hm : FInv d U (s.markTimeouts now) A now := by
      unfold FindNode.markTimeouts
      refine ⟨?_, m0, ?_, ?_, ?_⟩
      · rw [m1, m2, m3, m5]; exact h.fr
      · rw [m4]; exact h.rs
      · rw [m4]; exact h.rkey
      · rw [m4, m6]; exact h.rlen
    have hvis : ∀ q, s.visited q ↔ (s.markTimeouts now).visited q := by
      intro q; unfold FindNode.visited FindNode.markTimeouts; rw [m1, m2]
    have hmu : (s.markTimeouts now).mu U = s.mu U := by
      unfold FindNode.mu FindNode.markTimeouts; rw [m1, m2]
    have hnd' : ¬ ((s.markTimeouts now).pending.isEmpty ∧ (s.markTimeouts now).candidates.isEmpty) := by
      unfold FindNode.markTimeouts; rw [m1, m3]; exact hnd
    have hcfg : SameCfg s (s.markTimeouts now) := by
      unfold FindNode.markTimeouts; exact ⟨m5, m6, m7, m8, m9⟩
    -- transport a result about the marked state back to `s`
    have transport : ∀ (s' : FindNode) (o : Option QAction),
        (FInv d U s' A now ∧ SameCfg (s.markTimeouts now) s' ∧
          (∀ q, (s.markTimeouts now).visited q → s'.visited q) ∧
          NextSpec U (s.markTimeouts now) s' o) →
        (FInv d U s' A now ∧ SameCfg s s' ∧ (∀ q, s.visited q → s'.visited q) ∧ NextSpec U s s' o) := by
      intro s' o ⟨a, b, c, e⟩
      refine ⟨a, ?_, fun q hq => c q ((hvis q).1 hq), ?_⟩
      · obtain ⟨b1, b2, b3, b4, b5⟩ := b
        obtain ⟨c1, c2, c3, c4, c5⟩ := hcfg
        exact ⟨b1.trans c1, b2.trans c2, b3.trans c3, b4.trans c4, b5.trans c5⟩
      · unfold FindNode.markTimeouts at e hmu
        cases o with
        | none =>
          simp only [NextSpec] at e ⊢
          rw [m1, m2, m3, m4, m7] at e
          exact e
        | some a =>
          cases a with
          | send q c =>
            simp only [NextSpec, FindNode.visited] at e ⊢
            rw [m1, m2, m5, m8, hmu] at e
            exact e
          | succeeded q =>
            simp only [NextSpec] at e ⊢
            rw [m1, m2, m3, m4, m8] at e
            exact e
          | failed q =>
            simp only [NextSpec] at e ⊢
            rw [m1, m2, m3, m4, m8] at e
            exact e
          | partialRecord _ _ _ => exact e
    apply transport
    unfold FindNode.decide
    split
    · rename_i hpar
      refine ⟨hm, ⟨rfl, rfl, rfl, rfl, rfl⟩, fun q hq => hq, rfl, rfl, rfl, rfl, ?_, ?_⟩
      · intro h1 hp
        have := hm.c.upper
        rw [hp] at this
        simp only [List.length_nil] at this
        omega
      · intro _ hc hp
        apply hnd'
        simp [hp, hc]
    · rename_i hpar
      split
      · exact hm.schedule hpar hnd'
      · split
        · rename_i k c kr r hhead hlast
          split
          · exact hm.schedule hpar hnd'
          · rename_i hlt
            refine ⟨hm, ⟨rfl, rfl, rfl, rfl, rfl⟩, fun q hq => hq, rfl, rfl, rfl, rfl, rfl, ?_⟩
            intro x hx c' hc'
            rw [hlast] at hx
            simp only [Option.mem_def, Option.some.injEq] at hx
            subst hx
            have h1 := head_le_of_sorted hm.fr.sorted hhead c' hc'
            have h2 := (hm.fr.key (k, c) (List.mem_of_mem_head? hhead)).1
            have h3 := (hm.fr.key c' hc').1
            simp only at h1 h2 ⊢
            omega
        · rename_i hno
          refine ⟨hm, ⟨rfl, rfl, rfl, rfl, rfl⟩, fun q hq => hq, rfl, rfl, rfl, rfl, rfl, ?_⟩
          intro x hx c' hc'
          exfalso
          cases hh : (s.markTimeouts now).candidates.head? with
          | none =>
            have : (s.markTimeouts now).candidates = [] := List.head?_eq_none_iff.1 hh
            rw [this] at hc'; simp at hc'
          | some y =>
            exact hno y.1 y.2 x.1 x.2 hh hx

end Litep2pVerif.Kad.Query
