import Litep2pVerif.Proofs.Kad.Store
/-!
# The record half of `MemoryStore` refines a finite map with an admission rule (C17)

`lookupRec k s.records` is the abstraction of the store (the value the map holds under `k`).
`put` and `get` are characterised completely in terms of it: what a later `get` of ANY key returns
after any history is then determined by the admission rule `putAccepts` and the expiry rule, and by
nothing else (no operation touches another key).
-/
namespace Litep2pVerif.Kad.Store

theorem lookupRec_replaceRec (r : Rec) (k : Nat) (l : List Rec) :
    lookupRec k (replaceRec r l) =
      if k = r.key then (if (lookupRec r.key l).isSome then some r else none) else lookupRec k l := by
  induction l with
  | nil => simp [replaceRec, lookupRec]
  | cons x xs ih =>
    unfold replaceRec
    by_cases hx : x.key = r.key
    · simp only [hx, if_true]
      by_cases hk : k = r.key
      · simp [lookupRec, hk, hx]
      · have : ¬ r.key = k := fun h => hk h.symm
        simp [lookupRec, hk, hx, this]
    · simp only [hx, if_false]
      by_cases hk : k = r.key
      · subst hk
        simp only [lookupRec, hx, if_false, ih, if_true]
      · by_cases hxk : x.key = k
        · simp [lookupRec, hxk, hk]
        · simp [lookupRec, hxk, hk, ih]

theorem lookupRec_eraseRec {k : Nat} {l : List Rec} (hn : (l.map (·.key)).Nodup) (k' : Nat) :
    lookupRec k' (eraseRec k l) = if k' = k then none else lookupRec k' l := by
  induction l with
  | nil => simp [eraseRec, lookupRec]
  | cons x xs ih =>
    have hn' : (xs.map (·.key)).Nodup := (List.nodup_cons.mp (by simpa using hn)).2
    have hx : x.key ∉ xs.map (·.key) := (List.nodup_cons.mp (by simpa using hn)).1
    unfold eraseRec
    by_cases hxk : x.key = k
    · simp only [hxk, if_true]
      by_cases hk : k' = k
      · subst hk
        simp only [if_true]
        exact lookupRec_none.mpr (hxk ▸ hx)
      · have : ¬ k = k' := fun h => hk h.symm
        simp [lookupRec, hxk, hk, this]
    · simp only [hxk, if_false]
      by_cases hk : k' = k
      · subst hk
        simp [lookupRec, hxk, ih hn']
      · by_cases hxk' : x.key = k'
        · simp [lookupRec, hxk', hk]
        · simp [lookupRec, hxk', hk, ih hn']

/-- The admission rule of `MemoryStore::put`, as a decidable predicate on the store before the call. -/
def putAccepts (cfg : Cfg) (s : Store) (r : Rec) : Bool :=
  decide (r.value.length < cfg.maxRecordSize) &&
  (match lookupRec r.key s.records with
   | some old =>
     (match old.expires, r.expires with
      | some stored, some new => decide (stored ≤ new)
      | _, _ => true)
   | none => decide (s.records.length < cfg.maxRecords))

/-- `put` is "insert under the record's key iff admitted": every key's content afterwards. -/
theorem put_lookup (cfg : Cfg) (s : Store) (r : Rec) (k : Nat) :
    lookupRec k (put cfg s r).records =
      if k = r.key ∧ putAccepts cfg s r = true then some r else lookupRec k s.records := by
  obtain ⟨rk, rv, re⟩ := r
  unfold put putAccepts
  by_cases hsz : cfg.maxRecordSize ≤ rv.length
  · have : ¬ rv.length < cfg.maxRecordSize := by omega
    simp [hsz, this]
  · have hlt : rv.length < cfg.maxRecordSize := by omega
    simp only [hsz, if_false, hlt, decide_true, Bool.true_and]
    cases hl : lookupRec rk s.records with
    | none =>
      simp only
      by_cases hfull : cfg.maxRecords ≤ s.records.length
      · have : ¬ s.records.length < cfg.maxRecords := by omega
        simp [hfull, this]
      · have hlt' : s.records.length < cfg.maxRecords := by omega
        simp only [hfull, if_false, hlt', decide_true, and_true]
        by_cases hk : k = rk
        · subst hk; simp [lookupRec]
        · have : ¬ rk = k := fun h => hk h.symm
          simp [lookupRec, hk, this]
    | some old =>
      obtain ⟨ok, ov, oe⟩ := old
      have hrep : ∀ k, lookupRec k (replaceRec ⟨rk, rv, re⟩ s.records) =
          if k = rk then some ⟨rk, rv, re⟩ else lookupRec k s.records := by
        intro k; simp [lookupRec_replaceRec, hl]
      cases oe with
      | none => by_cases hk : k = rk <;> simp [hrep, hk]
      | some stored =>
        cases re with
        | none => by_cases hk : k = rk <;> simp [hrep, hk]
        | some new =>
          by_cases hlt2 : new < stored
          · have : ¬ stored ≤ new := by omega
            simp [hlt2, this]
          · have hle : stored ≤ new := by omega
            have hrep' := hrep
            by_cases hk : k = rk <;> simp [hrep', hk, hlt2, hle]

/-- `get` returns the stored record unless it has expired … -/
theorem get_result (s : Store) (k now : Nat) :
    (getRecord s k now).2 = (lookupRec k s.records).filter (fun r => !r.expiredAt now) := by
  unfold getRecord
  cases h : lookupRec k s.records with
  | none => simp
  | some r =>
    by_cases he : r.expiredAt now = true
    · simp [he, Option.filter]
    · simp [he, Option.filter]

/-- … and removes exactly the expired record it found: no other key is touched. -/
theorem get_lookup {cfg : Cfg} {s : Store} (h : Inv cfg s) (k now k' : Nat) :
    lookupRec k' (getRecord s k now).1.records =
      if k' = k then (lookupRec k s.records).filter (fun r => !r.expiredAt now)
      else lookupRec k' s.records := by
  unfold getRecord
  cases hl : lookupRec k s.records with
  | none =>
    by_cases hk : k' = k
    · subst hk; simp [hl]
    · simp [hk]
  | some r =>
    by_cases he : r.expiredAt now = true
    · simp only [he, if_true, lookupRec_eraseRec h.recKeys]
      by_cases hk : k' = k <;> simp [hk, Option.filter, he]
    · by_cases hk : k' = k
      · subst hk; simp [he, hl, Option.filter]
      · simp [he, hk]

/-- Provider operations never touch the records. -/
theorem provider_ops_keep_records (cfg : Cfg) (s : Store) (op : Op)
    (hop : match op with | .put _ => False | .get _ _ => False | _ => True) :
    (apply cfg s op).records = s.records := by
  cases op with
  | put r => exact absurd hop (by simp)
  | get k now => exact absurd hop (by simp)
  | putProvider k peer dist addrs now =>
    simp only [apply, putProvider]
    split <;> (try split) <;> rfl
  | getProviders k now =>
    simp only [apply, getProviders]
    split <;> (try split) <;> rfl
  | putLocal k lp ld now =>
    simp only [apply, putLocalProvider, putProvider]
    split <;> (try split) <;> (try split) <;> rfl
  | removeLocal k ld =>
    simp only [apply, removeLocalProvider]
    split
    · rfl
    · split
      · rfl
      · split
        · split <;> rfl
        · rfl

end Litep2pVerif.Kad.Store
