import Litep2pVerif.Model.Kad.Serve
/-!
# Lemmas about the serving side of the Kademlia coordinator (`Model/Kad/Serve.lean`)
-/
namespace Litep2pVerif.Kad.Serve

def keys (st : SState) : List Nat := st.records.map (·.key)

theorem storePut_keys (cfg : Cfg) (st : SState) (r : Rec) :
    ∀ k ∈ keys (storePut cfg st r), k ∈ keys st ∨ k = r.key := by
  intro k hk
  unfold storePut at hk
  split at hk
  · exact .inl hk
  · split at hk
    · simp only [keys, List.mem_map] at hk ⊢
      obtain ⟨x, hx, rfl⟩ := hk
      obtain ⟨y, hy, rfl⟩ := hx
      split
      · exact .inr rfl
      · exact .inl ⟨y, hy, rfl⟩
    · split at hk
      · exact .inl hk
      · simp only [keys, List.map_append, List.mem_append, List.map_cons, List.map_nil, List.mem_singleton] at hk
        exact hk

theorem storeGet_keys (st : SState) (k0 : Nat) : ∀ k ∈ keys (storeGet st k0).1, k ∈ keys st := by
  intro k hk
  unfold storeGet at hk
  split at hk
  · split at hk
    · simp only [keys, List.mem_map] at hk ⊢
      obtain ⟨x, hx, rfl⟩ := hk
      exact ⟨x, (List.mem_filter.mp hx).1, rfl⟩
    · exact hk
  · exact hk

theorem putProvider_records (st : SState) (k p : Nat) : (putProvider st k p).records = st.records ∧
    (putProvider st k p).table = st.table := by
  unfold putProvider; split <;> exact ⟨rfl, rfl⟩

/-- In manual validation mode serving a request never adds a key to the record store. -/
theorem serve_manual_keys (cfg : Cfg) (hm : cfg.manualValidation = true) (st : SState) (p : Nat) (req : Req) :
    ∀ k ∈ keys (serve cfg st p req).1, k ∈ keys st := by
  intro k hk
  cases req with
  | findNode => exact hk
  | getValue key =>
    cases key with
    | none => exact hk
    | some k0 => exact storeGet_keys st k0 k hk
  | putValue k0 size => simpa [serve, hm] using hk
  | addProvider k0 prov =>
    simp only [serve] at hk
    split at hk
    · simpa [keys, (putProvider_records st k0 p).1] using hk
    · exact hk
  | getProviders key => cases key <;> exact hk
  | garbage => exact hk

theorem serve_table (cfg : Cfg) (st : SState) (p : Nat) (req : Req) : (serve cfg st p req).1.table = st.table := by
  cases req with
  | findNode => rfl
  | getValue key =>
    cases key with
    | none => rfl
    | some k0 =>
      simp only [serve, storeGet]
      split
      · split <;> rfl
      · rfl
  | putValue k0 size =>
    simp only [serve]
    split
    · rfl
    · unfold storePut; split
      · rfl
      · split
        · rfl
        · split <;> rfl
  | addProvider k0 prov =>
    simp only [serve]
    split
    · exact (putProvider_records st k0 p).2
    · rfl
  | getProviders key => cases key <;> rfl
  | garbage => rfl

theorem storePut_table (cfg : Cfg) (st : SState) (r : Rec) : (storePut cfg st r).table = st.table := by
  unfold storePut; split
  · rfl
  · split
    · rfl
    · split <;> rfl

theorem storeGet_table (st : SState) (k : Nat) : (storeGet st k).1.table = st.table := by
  unfold storeGet; split
  · split <;> rfl
  · rfl

theorem addKnown_table (st : SState) (p : Nat) (a : Bool) : ∀ x ∈ (addKnown st p a).table, x ∈ st.table ∨ x = p := by
  intro x hx
  unfold addKnown at hx
  split at hx
  · simp only [List.mem_append, List.mem_singleton] at hx; exact hx
  · exact .inl hx

theorem addKnown_records (st : SState) (p : Nat) (a : Bool) : (addKnown st p a).records = st.records := by
  unfold addKnown; split <;> rfl

theorem learn_records (cfg : Cfg) (st : SState) (peers : List (Nat × Bool)) : (learn cfg st peers).records = st.records := by
  unfold learn
  split
  · rfl
  · induction peers generalizing st with
    | nil => rfl
    | cons p ps ih => simp only [List.foldl_cons]; rw [ih, addKnown_records]

/-- **Manual validation.** Whatever remote peers send, in manual validation mode every key of the record store was
stored by the user (`put_record`, `put_record_to_peers` with local update, `store_record`). -/
theorem manual_keys (cfg : Cfg) (hm : cfg.manualValidation = true) (ops : List Op) (st : SState) :
    ∀ k ∈ keys (run cfg st ops), k ∈ keys st ∨ k ∈ userKeys ops := by
  induction ops generalizing st with
  | nil => intro k hk; exact .inl hk
  | cons op ops ih =>
    intro k hk
    have h := ih (step cfg st op) k (by simpa [run] using hk)
    cases op with
    | inbound sender req =>
      rcases h with h | h
      · exact .inl (serve_manual_keys cfg hm st sender req k h)
      · exact .inr h
    | userPut key size =>
      rcases h with h | h
      · rcases storePut_keys cfg st _ k h with h | h
        · exact .inl h
        · exact .inr (by simp [userKeys, h])
      · exact .inr (by simp [userKeys, h])
    | getRecord key =>
      rcases h with h | h
      · exact .inl (storeGet_keys st key k h)
      · exact .inr h
    | startProviding now key =>
      rcases h with h | h
      · refine .inl ?_
        simpa [step, putLocalProvider, keys, (putProvider_records st key 0).1] using h
      · exact .inr h
    | stopProviding key =>
      rcases h with h | h
      · refine .inl ?_
        simp only [step, stopProviding] at h
        split at h <;> exact h
      · exact .inr h
    | addKnown p a =>
      rcases h with h | h
      · exact .inl (by simpa [step, keys, addKnown_records] using h)
      · exact .inr h
    | learn peers =>
      rcases h with h | h
      · exact .inl (by simpa [step, keys, learn_records] using h)
      · exact .inr h

/-- **Manual routing-table updates.** In manual update mode every peer of the routing table was added by the user. -/
theorem manual_table (cfg : Cfg) (hm : cfg.manualUpdate = true) (ops : List Op) (st : SState) :
    ∀ p ∈ (run cfg st ops).table, p ∈ st.table ∨ p ∈ userPeers ops := by
  induction ops generalizing st with
  | nil => intro k hk; exact .inl hk
  | cons op ops ih =>
    intro k hk
    have h := ih (step cfg st op) k (by simpa [run] using hk)
    cases op with
    | inbound sender req =>
      rcases h with h | h
      · exact .inl (by simpa [step, serve_table] using h)
      · exact .inr h
    | userPut key size =>
      rcases h with h | h
      · exact .inl (by simpa [step, storePut_table] using h)
      · exact .inr h
    | getRecord key =>
      rcases h with h | h
      · exact .inl (by simpa [step, storeGet_table] using h)
      · exact .inr h
    | startProviding now key =>
      rcases h with h | h
      · exact .inl (by simpa [step, putLocalProvider, (putProvider_records st key 0).2] using h)
      · exact .inr h
    | stopProviding key =>
      rcases h with h | h
      · refine .inl ?_
        simp only [step, stopProviding] at h
        split at h <;> exact h
      · exact .inr h
    | addKnown p a =>
      rcases h with h | h
      · rcases addKnown_table st p a k h with h | h
        · exact .inl h
        · exact .inr (by simp [userPeers, h])
      · exact .inr (by simp [userPeers, h])
    | learn peers =>
      rcases h with h | h
      · exact .inl (by simpa [step, learn, hm] using h)
      · exact .inr h

/-- Which requests are answered — independent of the configuration. -/
def Req.answered : Req → Bool
  | .findNode | .getValue (some _) | .putValue .. | .getProviders (some _) => true
  | _ => false

theorem serve_reply_iff (cfg : Cfg) (st : SState) (p : Nat) (req : Req) :
    (serve cfg st p req).2.1.isSome = req.answered := by
  cases req with
  | findNode => rfl
  | getValue key => cases key <;> rfl
  | putValue k0 size => rfl
  | addProvider k0 prov => simp only [serve]; split <;> rfl
  | getProviders key => cases key <;> rfl
  | garbage => rfl

/-- In automatic validation mode an acceptable inbound record is stored. -/
theorem serve_auto_stores (cfg : Cfg) (ha : cfg.manualValidation = false) (st : SState) (p k size : Nat)
    (hsize : size < cfg.maxRecordSize) (hroom : hasKey st.records k = true ∨ st.records.length < cfg.maxRecords) :
    k ∈ keys (serve cfg st p (.putValue k size)).1 := by
  simp only [serve, ha, Bool.false_eq_true, if_false, storePut]
  rw [if_neg (by omega)]
  split
  · rename_i hk
    simp only [hasKey, List.any_eq_true] at hk
    obtain ⟨x, hx, hxk⟩ := hk
    simp only [keys, List.map_map, List.mem_map]
    refine ⟨x, hx, ?_⟩
    have : x.key = k := by simpa using hxk
    simp [this]
  · rename_i hk
    rcases hroom with h | h
    · exact absurd h hk
    · rw [if_neg (by omega)]
      simp [keys]

end Litep2pVerif.Kad.Serve
