import Litep2pVerif.Proofs.Kad.FindNode
/-!
# `FindNodeContext` over whole event sequences (C15)
-/
namespace Litep2pVerif.Kad.Query

theorem FInv.init {d U} (localPeer repl par query timeout : Nat) (inPeers : List KPeer)
    (h : ∀ kp ∈ inPeers, kp.dist = d kp.peer ∧ kp.peer ∈ U ∧ kp.peer ≠ localPeer) :
    FInv d U (FindNode.new localPeer repl par query timeout inPeers) [] 0 := by
  refine ⟨Frontier.init inPeers h, ⟨?_, ?_, ?_, ?_, ?_, ?_⟩, ?_, ?_, ?_⟩ <;>
    simp [FindNode.new, FindNode.live, Sorted]

theorem next_mu_aux {U : List Nat} {s s' : FindNode} (o : Option QAction) (h4 : NextSpec U s s' o) :
    s'.mu U + (if isSend o then 1 else 0) ≤ s.mu U := by
  cases o with
  | none => simp only [NextSpec] at h4; unfold FindNode.mu; rw [h4.1, h4.2.1]; simp [isSend]
  | some a =>
    cases a with
    | send q c => simp only [NextSpec] at h4; simp [isSend]; exact h4.2.2.2.2
    | succeeded q => simp only [NextSpec] at h4; unfold FindNode.mu; rw [h4.2.1, h4.2.2.1]; simp [isSend]
    | failed q => simp only [NextSpec] at h4; unfold FindNode.mu; rw [h4.2.1, h4.2.2.1]; simp [isSend]
    | partialRecord _ _ _ => exact absurd h4 (by simp [NextSpec])

/-- One step: the invariant, and what the emitted action guarantees. -/
theorem FInv.step {d U s A t} (e : Ev) (h : FInv d U s A t) (hok : e.ok d U)
    (hm : monotoneFrom t [e]) :
    ∃ A', FInv d U (s.step e).1 A' (lastNow t [e]) ∧
      (∀ p ∈ A', p ∈ A ∨ p ∈ s.answered [e]) ∧
      SameCfg s (s.step e).1 ∧ (∀ q, s.visited q → (s.step e).1.visited q) ∧
      (s.step e).1.mu U + (if s.productive e then 1 else 0) ≤ s.mu U ∧
      (∀ q c, (s.step e).2 = some (.send q c) →
        q = s.query ∧ c ≠ s.localPeer ∧ ¬ s.visited c ∧ (s.step e).1.visited c) ∧
      (∀ a, (s.step e).2 = some a → (∃ c, a = .send s.query c) ∨ a = .succeeded s.query ∨ a = .failed s.query) := by
  cases e with
  | next now =>
    simp only [monotoneFrom, and_true] at hm
    obtain ⟨h1, h2, h3, h4⟩ := h.next now hm
    refine ⟨A, h1, fun p hp => Or.inl hp, h2, h3, ?_, ?_, ?_⟩
    · simp only [FindNode.step, FindNode.productive]
      exact next_mu_aux _ h4
    · intro q c ho
      simp only [FindNode.step] at ho ⊢
      rw [ho] at h4
      simp only [NextSpec] at h4
      exact ⟨h4.1, h4.2.1, h4.2.2.1, Or.inl h4.2.2.2.1⟩
    · intro a ho
      simp only [FindNode.step] at ho
      rw [ho] at h4
      cases a with
      | send q c => simp only [NextSpec] at h4; exact Or.inl ⟨c, by rw [h4.1]⟩
      | succeeded q => simp only [NextSpec] at h4; exact Or.inr (Or.inl (by rw [h4.1]))
      | failed q => simp only [NextSpec] at h4; exact Or.inr (Or.inr (by rw [h4.1]))
      | partialRecord _ _ _ => exact absurd h4 (by simp [NextSpec])
  | resp p peers =>
    obtain ⟨h1, h2, h3, h4⟩ := h.resp p peers hok
    refine ⟨_, h1, ?_, h2, h3, ?_, ?_, ?_⟩
    · intro q hq
      simp only [FindNode.answered]
      split at hq
      · rename_i hs
        simp only [hs, if_true]
        rcases List.mem_cons.1 hq with hq | hq
        · exact Or.inr (by simp [hq])
        · exact Or.inl hq
      · exact Or.inl hq
    · simp only [FindNode.step, FindNode.productive]
      by_cases hs : (pendLookup p s.pending).isSome <;> simp [hs] at h4 ⊢ <;> omega
    · intro q c ho; simp [FindNode.step] at ho
    · intro a ho; simp [FindNode.step] at ho
  | fail p =>
    obtain ⟨h1, h2, h3, h4⟩ := h.fail p
    refine ⟨A, h1, fun q hq => Or.inl hq, h2, h3, ?_, ?_, ?_⟩
    · simp only [FindNode.step, FindNode.productive]
      by_cases hs : (pendLookup p s.pending).isSome <;> simp [hs] at h4 ⊢ <;> omega
    · intro q c ho; simp [FindNode.step] at ho
    · intro a ho; simp [FindNode.step] at ho

theorem answered_cons (s : FindNode) (e : Ev) (es : List Ev) :
    s.answered (e :: es) = s.answered [e] ++ (s.step e).1.answered es := by
  cases e with
  | next now => simp [FindNode.answered]
  | resp p peers =>
    simp only [FindNode.answered]
    split <;> simp
  | fail p => simp [FindNode.answered]

theorem lastNow_cons (t : Nat) (e : Ev) (es : List Ev) :
    lastNow t (e :: es) = lastNow (lastNow t [e]) es := by
  cases e <;> simp [lastNow]

theorem monotoneFrom_cons {t : Nat} {e : Ev} {es : List Ev} (h : monotoneFrom t (e :: es)) :
    monotoneFrom t [e] ∧ monotoneFrom (lastNow t [e]) es := by
  cases e <;> simp_all [monotoneFrom, lastNow]

theorem sentPeers_cons (a : QAction) (as : List QAction) :
    sentPeers (a :: as) = (match a with | .send _ p => [p] | _ => []) ++ sentPeers as := by
  cases a <;> simp [sentPeers]

/-- The invariant along a whole event sequence, with everything the property theorems need. -/
theorem FInv.run {d U} (evs : List Ev) : ∀ {s A t}, FInv d U s A t → (∀ e ∈ evs, e.ok d U) →
    monotoneFrom t evs →
    ∃ A', FInv d U (s.run evs).1 A' (lastNow t evs) ∧
      (∀ p ∈ A', p ∈ A ∨ p ∈ s.answered evs) ∧
      SameCfg s (s.run evs).1 ∧ (∀ q, s.visited q → (s.run evs).1.visited q) ∧
      (s.run evs).1.mu U + s.productiveCount evs ≤ s.mu U ∧
      (sentPeers (s.run evs).2).Nodup ∧
      (∀ c ∈ sentPeers (s.run evs).2, c ≠ s.localPeer ∧ ¬ s.visited c ∧ (s.run evs).1.visited c) ∧
      (∀ a ∈ (s.run evs).2, (∃ c, a = .send s.query c) ∨ a = .succeeded s.query ∨ a = .failed s.query) := by
  induction evs with
  | nil =>
    intro s A t h _ _
    exact ⟨A, h, fun p hp => Or.inl hp, ⟨rfl, rfl, rfl, rfl, rfl⟩, fun q hq => hq, by simp [FindNode.run, FindNode.productiveCount],
      by simp [FindNode.run, sentPeers], by simp [FindNode.run, sentPeers], by simp [FindNode.run]⟩
  | cons e es ih =>
    intro s A t h hok hm
    obtain ⟨hm1, hm2⟩ := monotoneFrom_cons hm
    obtain ⟨A1, s1, s2, s3, s4, s5, s6, s7⟩ := h.step e (hok e (List.mem_cons_self ..)) hm1
    obtain ⟨A2, r1, r2, r3, r4, r5, r6, r7, r8⟩ :=
      ih s1 (fun e' he' => hok e' (List.mem_cons_of_mem _ he')) hm2
    have hcfg : SameCfg s (FindNode.run (s.step e).1 es).1 := by
      obtain ⟨b1, b2, b3, b4, b5⟩ := r3
      obtain ⟨c1, c2, c3, c4, c5⟩ := s3
      exact ⟨b1.trans c1, b2.trans c2, b3.trans c3, b4.trans c4, b5.trans c5⟩
    have hq : (s.step e).1.query = s.query := s3.2.2.2.1
    have hl : (s.step e).1.localPeer = s.localPeer := s3.1
    have hrun1 : (s.run (e :: es)).1 = (FindNode.run (s.step e).1 es).1 := by
      simp only [FindNode.run]; split <;> rfl
    rw [hrun1, lastNow_cons, answered_cons]
    refine ⟨A2, r1, ?_, hcfg, fun q hq => r4 q (s4 q hq), ?_, ?_, ?_, ?_⟩
    · intro p hp
      rcases r2 p hp with hp | hp
      · rcases s2 p hp with hp | hp
        · exact Or.inl hp
        · exact Or.inr (List.mem_append_left _ hp)
      · exact Or.inr (List.mem_append_right _ hp)
    · simp only [FindNode.productiveCount]; omega
    · simp only [FindNode.run]
      split
      · rename_i a ha
        rw [sentPeers_cons]
        cases a with
        | send q c =>
          simp only [List.singleton_append, List.nodup_cons]
          refine ⟨fun hmem => ?_, r6⟩
          exact (r7 c hmem).2.1 (s6 q c ha).2.2.2
        | succeeded q => simpa using r6
        | failed q => simpa using r6
        | partialRecord _ _ _ => simpa using r6
      · exact r6
    · simp only [FindNode.run]
      have hrest : ∀ c ∈ sentPeers (FindNode.run (s.step e).1 es).2,
          c ≠ s.localPeer ∧ ¬ s.visited c ∧ (FindNode.run (s.step e).1 es).1.visited c := by
        intro c hc
        obtain ⟨x1, x2, x3⟩ := r7 c hc
        exact ⟨hl ▸ x1, fun hv => x2 (s4 c hv), x3⟩
      split
      · rename_i a ha
        rw [sentPeers_cons]
        intro c hc
        rcases List.mem_append.1 hc with hc | hc
        · cases a with
          | send q c' =>
            simp only [List.mem_singleton] at hc
            subst hc
            obtain ⟨y1, y2, y3, y4⟩ := s6 q c ha
            exact ⟨y2, y3, r4 c y4⟩
          | succeeded q => simp at hc
          | failed q => simp at hc
          | partialRecord _ _ _ => simp at hc
        · exact hrest c hc
      · exact hrest
    · simp only [FindNode.run]
      have hrest : ∀ a ∈ (FindNode.run (s.step e).1 es).2,
          (∃ c, a = .send s.query c) ∨ a = .succeeded s.query ∨ a = .failed s.query := by
        intro a ha; rw [← hq]; exact r8 a ha
      split
      · rename_i a ha
        intro a' ha'
        rcases List.mem_cons.1 ha' with ha' | ha'
        · subst ha'; exact s7 a' ha
        · exact hrest a' ha'
      · exact hrest

end Litep2pVerif.Kad.Query
