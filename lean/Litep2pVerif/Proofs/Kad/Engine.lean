import Litep2pVerif.Proofs.Kad.FindNode
/-!
# `QueryEngine`: every active query is stored under its own id; terminal actions remove it (C15)
-/
namespace Litep2pVerif.Kad.Query

def QAction.query : QAction → Nat
  | .send q _ => q
  | .succeeded q => q
  | .failed q => q
  | .partialRecord q _ _ => q

/-- The id stored inside the context of a query. -/
def QueryType.query : QueryType → Nat
  | .findNode c => c.query
  | .putRecord _ _ c => c.query
  | .putRecordToPeers _ _ c => c.query
  | .putRecordToFoundNodes c => c.query
  | .getRecord c => c.query
  | .addProvider _ _ _ c => c.query
  | .addProviderToFoundNodes c => c.query
  | .getProviders c => c.query

def keys (l : List (Nat × QueryType)) : List Nat := l.map (·.1)

/-- Every query is stored under the id its context carries. -/
def KeyOk (e : Engine) : Prop := ∀ x ∈ e.queries, x.2.query = x.1

/-! ### contexts keep their id and label their actions with it -/

theorem foldl_markOne_query (now : Nat) (l : List (KPeer × Nat)) (s : FindNode) :
    (l.foldl (FindNode.markOne now) s).query = s.query ∧
    (l.foldl (FindNode.markOne now) s).candidates = s.candidates := by
  induction l generalizing s with
  | nil => exact ⟨rfl, rfl⟩
  | cons x xs ih =>
    simp only [List.foldl_cons]
    have := markOne_fields now s x
    exact ⟨(ih _).1.trans this.2.2.2.2.2.2.2.1, (ih _).2.trans this.2.2.1⟩

theorem FindNode.fail_query (s : FindNode) (p : Nat) : (s.registerResponseFailure p).query = s.query := by
  unfold FindNode.registerResponseFailure
  split
  · rfl
  · exact (discount_fields _ _).2.2.2.2.2.2.2.1

theorem FindNode.resp_query (s : FindNode) (p : Nat) (ps : List KPeer) :
    (s.registerResponse p ps).query = s.query := by
  unfold FindNode.registerResponse
  split
  · rfl
  · exact (discount_fields _ _).2.2.2.2.2.2.2.1

theorem FindNode.schedule_query (s : FindNode) (now : Nat) :
    (s.scheduleNextPeer now).1.query = s.query ∧
    ∀ a, (s.scheduleNextPeer now).2 = some a → a.query = s.query := by
  unfold FindNode.scheduleNextPeer
  split
  · exact ⟨rfl, fun a h => by simp at h⟩
  · refine ⟨rfl, fun a h => ?_⟩
    simp only [Option.some.injEq] at h
    subst h; rfl

theorem FindNode.next_query (s : FindNode) (now : Nat) :
    (s.nextAction now).1.query = s.query ∧
    ∀ a, (s.nextAction now).2 = some a → a.query = s.query := by
  unfold FindNode.nextAction
  split
  · refine ⟨rfl, fun a h => ?_⟩
    simp only [Option.some.injEq] at h
    subst h
    split <;> rfl
  · have hq : (s.markTimeouts now).query = s.query := (foldl_markOne_query now s.pending s).1
    have hs := FindNode.schedule_query (s.markTimeouts now) now
    rw [hq] at hs
    unfold FindNode.decide
    split
    · exact ⟨hq, fun a h => by simp at h⟩
    · split
      · exact hs
      · split
        · split
          · exact hs
          · exact ⟨hq, fun a h => by simp only [Option.some.injEq] at h; subst h; exact hq⟩
        · exact ⟨hq, fun a h => by simp only [Option.some.injEq] at h; subst h; exact hq⟩

theorem GetRecord.fail_query (s : GetRecord) (p : Nat) : (s.registerResponseFailure p).query = s.query := by
  unfold GetRecord.registerResponseFailure
  split <;> rfl

theorem GetRecord.resp_query (s : GetRecord) (p : Nat) (r : Option (Nat × Bool)) (ps : List KPeer) :
    (s.registerResponse p r ps).query = s.query := by
  unfold GetRecord.registerResponse
  split <;> rfl

theorem GetRecord.next_query (s : GetRecord) :
    s.nextAction.1.query = s.query ∧ ∀ a, s.nextAction.2 = some a → a.query = s.query := by
  unfold GetRecord.nextAction
  split
  · exact ⟨rfl, fun a h => by simp only [Option.some.injEq] at h; subst h; rfl⟩
  · split
    · refine ⟨rfl, fun a h => ?_⟩
      simp only [Option.some.injEq] at h
      subst h
      split <;> rfl
    · split
      · exact ⟨rfl, fun a h => by simp only [Option.some.injEq] at h; subst h; rfl⟩
      · split
        · exact ⟨rfl, fun a h => by simp at h⟩
        · unfold GetRecord.scheduleNextPeer
          split
          · exact ⟨rfl, fun a h => by simp at h⟩
          · exact ⟨rfl, fun a h => by simp only [Option.some.injEq] at h; subst h; rfl⟩

theorem GetProviders.fail_query (s : GetProviders) (p : Nat) :
    (s.registerResponseFailure p).query = s.query := by
  unfold GetProviders.registerResponseFailure
  split <;> rfl

theorem GetProviders.resp_query (s : GetProviders) (p : Nat) (r : List Prov) (ps : List KPeer) :
    (s.registerResponse p r ps).query = s.query := by
  unfold GetProviders.registerResponse
  split <;> rfl

theorem GetProviders.next_query (s : GetProviders) :
    s.nextAction.1.query = s.query ∧ ∀ a, s.nextAction.2 = some a → a.query = s.query := by
  unfold GetProviders.nextAction
  split
  · refine ⟨rfl, fun a h => ?_⟩
    simp only [Option.some.injEq] at h
    subst h
    split <;> rfl
  · split
    · exact ⟨rfl, fun a h => by simp at h⟩
    · unfold GetProviders.scheduleNextPeer
      split
      · exact ⟨rfl, fun a h => by simp at h⟩
      · exact ⟨rfl, fun a h => by simp only [Option.some.injEq] at h; subst h; rfl⟩

theorem PutTarget.next_query (s : PutTarget) : ∀ a, s.nextAction = some a → a.query = s.query := by
  intro a h
  unfold PutTarget.nextAction at h
  split at h
  · split at h <;> (simp only [Option.some.injEq] at h; subst h; rfl)
  · simp at h

theorem PutTarget.sendOk_query (s : PutTarget) (p : Nat) : (s.registerSendSuccess p).query = s.query := by
  unfold PutTarget.registerSendSuccess; split <;> rfl

theorem PutTarget.sendFail_query (s : PutTarget) (p : Nat) : (s.registerSendFailure p).query = s.query := by
  unfold PutTarget.registerSendFailure; split <;> rfl

theorem failType_query (p : Nat) (t : QueryType) : (Engine.failType p t).query = t.query := by
  cases t <;> simp [Engine.failType, QueryType.query, FindNode.fail_query, GetRecord.fail_query,
    GetProviders.fail_query]

theorem respType_query (p : Nat) (m : Msg) (t : QueryType) : (Engine.respType p m t).query = t.query := by
  cases t <;> cases m <;> simp [Engine.respType, QueryType.query, FindNode.fail_query,
    GetRecord.fail_query, GetProviders.fail_query, FindNode.resp_query, GetRecord.resp_query,
    GetProviders.resp_query]

theorem sendFailType_query (p : Nat) (t : QueryType) : (Engine.sendFailType p t).query = t.query := by
  cases t <;> simp [Engine.sendFailType, QueryType.query, PutTarget.sendFail_query]

theorem sendOkType_query (p : Nat) (t : QueryType) : (Engine.sendOkType p t).query = t.query := by
  cases t <;> simp [Engine.sendOkType, QueryType.query, PutTarget.sendOk_query]

theorem typeNext_query (now : Nat) (t : QueryType) :
    (Engine.typeNext now t).1.query = t.query ∧
    ∀ a, (Engine.typeNext now t).2 = some a → a.query = t.query := by
  cases t with
  | findNode c => exact FindNode.next_query c now
  | putRecord r qu c => exact FindNode.next_query c now
  | putRecordToPeers r qu c =>
    exact ⟨rfl, fun a h => by simp [Engine.typeNext, FindMany.nextAction] at h; subst h; rfl⟩
  | putRecordToFoundNodes c => exact ⟨rfl, PutTarget.next_query c⟩
  | getRecord c => exact GetRecord.next_query c
  | addProvider k p qu c => exact FindNode.next_query c now
  | addProviderToFoundNodes c => exact ⟨rfl, PutTarget.next_query c⟩
  | getProviders c => exact GetProviders.next_query c

/-! ### the query map -/

theorem qLookup_some {q : Nat} {l : List (Nat × QueryType)} {t : QueryType} (h : qLookup q l = some t) :
    (q, t) ∈ l := by
  induction l with
  | nil => simp [qLookup] at h
  | cons x xs ih =>
    simp only [qLookup] at h
    split at h
    · rename_i hx
      simp only [Option.some.injEq] at h
      subst h; subst hx; exact List.mem_cons_self ..
    · exact List.mem_cons_of_mem _ (ih h)

theorem qLookup_none {q : Nat} {l : List (Nat × QueryType)} (h : qLookup q l = none) : q ∉ keys l := by
  induction l with
  | nil => simp [keys]
  | cons x xs ih =>
    simp only [qLookup] at h
    split at h
    · simp at h
    · rename_i hx
      simp only [keys, List.map_cons, List.mem_cons, not_or]
      exact ⟨fun e => hx e.symm, ih h⟩

theorem keys_qSet (q : Nat) (t : QueryType) (l : List (Nat × QueryType)) : keys (qSet q t l) = keys l := by
  induction l with
  | nil => rfl
  | cons x xs ih =>
    simp only [qSet]
    split
    · rename_i hx; simp [keys, hx]
    · simp only [keys, List.map_cons] at ih ⊢; rw [ih]

theorem mem_qSet {q : Nat} {t : QueryType} {l : List (Nat × QueryType)} {x : Nat × QueryType}
    (h : x ∈ qSet q t l) : x = (q, t) ∨ x ∈ l := by
  induction l with
  | nil => simp [qSet] at h
  | cons y ys ih =>
    simp only [qSet] at h
    split at h
    · rcases List.mem_cons.1 h with h | h
      · exact Or.inl h
      · exact Or.inr (List.mem_cons_of_mem _ h)
    · rcases List.mem_cons.1 h with h | h
      · exact Or.inr (h ▸ List.mem_cons_self ..)
      · rcases ih h with h | h
        · exact Or.inl h
        · exact Or.inr (List.mem_cons_of_mem _ h)

theorem mem_keys_qErase {q q' : Nat} {l : List (Nat × QueryType)} :
    q' ∈ keys (qErase q l) ↔ q' ∈ keys l ∧ q' ≠ q := by
  unfold keys qErase
  simp only [List.mem_map, List.mem_filter, ne_eq, decide_eq_true_eq]
  constructor
  · rintro ⟨x, ⟨hx, hne⟩, rfl⟩; exact ⟨⟨x, hx, rfl⟩, hne⟩
  · rintro ⟨⟨x, hx, rfl⟩, hne⟩; exact ⟨x, ⟨hx, hne⟩, rfl⟩

theorem KeyOk.set {e : Engine} (h : KeyOk e) (q : Nat) (t : QueryType) (ht : t.query = q) :
    KeyOk { e with queries := qSet q t e.queries } := by
  intro x hx
  rcases mem_qSet hx with hx | hx
  · subst hx; exact ht
  · exact h x hx

theorem KeyOk.erase {e : Engine} (h : KeyOk e) (q : Nat) : KeyOk { e with queries := qErase q e.queries } :=
  fun x hx => h x (List.mem_filter.1 hx).1

theorem KeyOk.insert {e : Engine} (h : KeyOk e) (q : Nat) (t : QueryType) (ht : t.query = q) :
    KeyOk { e with queries := qInsert q t e.queries } := by
  intro x hx
  rcases List.mem_cons.1 hx with hx | hx
  · subst hx; exact ht
  · exact h x (List.mem_filter.1 hx).1

/-! ### `next_action` -/

/-- `QueryEngine::next_action`: never hits `expect("query to exist")`, acts only on active
queries, and a terminal action removes its query. -/
theorem nextAction_spec (now : Nat) (order : List Nat) : ∀ (e : Engine), KeyOk e →
    KeyOk (e.nextAction now order).1 ∧
    (∀ q, q ∉ keys e.queries → q ∉ keys (e.nextAction now order).1.queries) ∧
    (e.nextAction now order).2 ≠ .bug ∧
    (∀ a, (e.nextAction now order).2 = .act a →
      a.query ∈ keys e.queries ∧ (a.terminal = true → a.query ∉ keys (e.nextAction now order).1.queries)) := by
  induction order with
  | nil => intro e h; exact ⟨h, fun q hq => hq, by simp [Engine.nextAction], by simp [Engine.nextAction]⟩
  | cons q rest ih =>
    intro e h
    simp only [Engine.nextAction]
    split
    · exact ih e h
    · rename_i t hl
      have hmem := qLookup_some hl
      have hkey : t.query = q := h _ hmem
      have hq : q ∈ keys e.queries := List.mem_map.2 ⟨_, hmem, rfl⟩
      obtain ⟨n1, n2⟩ := typeNext_query now t
      have hset : KeyOk { e with queries := qSet q (Engine.typeNext now t).1 e.queries } :=
        h.set q _ (n1.trans hkey)
      have hlk : ∀ q', q' ∈ keys e.queries →
          qLookup q' (qSet q (Engine.typeNext now t).1 e.queries) ≠ none := by
        intro q' hq' hn
        have := qLookup_none hn
        rw [keys_qSet] at this
        exact this hq'
      split
      · rename_i q' ha
        have hq' : q' = q := by have := n2 _ ha; simp only [QAction.query] at this; omega
        subst hq'
        unfold Engine.onQuerySucceeded
        split
        · rename_i hn; exact absurd hn (hlk _ hq)
        · rename_i t' hl'
          refine ⟨hset.erase _, ?_, by simp, ?_⟩
          · intro q2 hq2 hm
            have := (mem_keys_qErase.1 hm).1
            rw [keys_qSet] at this
            exact hq2 this
          · intro a ha'
            simp only [Outcome.act.injEq] at ha'
            subst ha'
            have hqa : (Engine.successAction q' t').query = q' := by
              have hk : t'.query = q' := hset _ (qLookup_some hl')
              cases t' <;> simp [Engine.successAction, EAction.query, QueryType.query] at hk ⊢ <;> exact hk
            rw [hqa]
            exact ⟨hq, fun _ hm => (mem_keys_qErase.1 hm).2 rfl⟩
      · rename_i q' ha
        have hq' : q' = q := by have := n2 _ ha; simp only [QAction.query] at this; omega
        subst hq'
        unfold Engine.onQueryFailed
        split
        · rename_i hn; exact absurd hn (hlk _ hq)
        · refine ⟨hset.erase _, ?_, by simp, ?_⟩
          · intro q2 hq2 hm
            have := (mem_keys_qErase.1 hm).1
            rw [keys_qSet] at this
            exact hq2 this
          · intro a ha'
            simp only [Outcome.act.injEq] at ha'
            subst ha'
            exact ⟨hq, fun _ hm => (mem_keys_qErase.1 hm).2 rfl⟩
      · rename_i q' p ha
        have hq' : q' = q := by have := n2 _ ha; simp only [QAction.query] at this; omega
        subst hq'
        refine ⟨hset, ?_, by simp, ?_⟩
        · intro q2 hq2; simp only [keys_qSet]; exact hq2
        · intro a ha'
          simp only [Outcome.act.injEq] at ha'
          subst ha'
          exact ⟨hq, fun ht => by simp [EAction.terminal] at ht⟩
      · rename_i q' p v ha
        have hq' : q' = q := by have := n2 _ ha; simp only [QAction.query] at this; omega
        subst hq'
        refine ⟨hset, ?_, by simp, ?_⟩
        · intro q2 hq2; simp only [keys_qSet]; exact hq2
        · intro a ha'
          simp only [Outcome.act.injEq] at ha'
          subst ha'
          exact ⟨hq, fun ht => by simp [EAction.terminal] at ht⟩
      · obtain ⟨i1, i2, i3, i4⟩ := ih _ hset
        refine ⟨i1, ?_, i3, ?_⟩
        · intro q2 hq2
          apply i2
          simp only [keys_qSet]; exact hq2
        · intro a ha'
          obtain ⟨j1, j2⟩ := i4 a ha'
          simp only [keys_qSet] at j1
          exact ⟨j1, j2⟩

/-! ### every operation -/

theorem register_spec (e : Engine) (q : Nat) (f : QueryType → QueryType)
    (hf : ∀ t, (f t).query = t.query) (h : KeyOk e) :
    KeyOk (match qLookup q e.queries with
      | none => e
      | some t => { e with queries := qSet q (f t) e.queries }) ∧
    keys (match qLookup q e.queries with
      | none => e
      | some t => { e with queries := qSet q (f t) e.queries }).queries = keys e.queries := by
  split
  · exact ⟨h, rfl⟩
  · rename_i t hl
    exact ⟨h.set q _ ((hf t).trans (h _ (qLookup_some hl))), keys_qSet ..⟩

theorem start_spec (e : Engine) (q : Nat) (t : QueryType) (ht : t.query = q) (h : KeyOk e) :
    KeyOk { e with queries := qInsert q t e.queries } ∧
    ∀ q', q' ∉ keys e.queries → q' ≠ q → q' ∉ keys (qInsert q t e.queries) := by
  refine ⟨h.insert q t ht, ?_⟩
  intro q' hq' hne hm
  simp only [qInsert, keys, List.map_cons, List.mem_cons] at hm
  rcases hm with hm | hm
  · exact hne hm
  · exact hq' (mem_keys_qErase.1 hm).1

theorem step_spec (e : Engine) (op : EOp) (h : KeyOk e) :
    KeyOk (e.step op).1 ∧
    (∀ q, q ∉ keys e.queries → op.starts ≠ some q → q ∉ keys (e.step op).1.queries) ∧
    (e.step op).2 ≠ .bug ∧
    (∀ a, (e.step op).2 = .act a →
      a.query ∈ keys e.queries ∧ (a.terminal = true → a.query ∉ keys (e.step op).1.queries)) := by
  have reg : ∀ (q : Nat) (f : QueryType → QueryType), (∀ t, (f t).query = t.query) →
      ∀ (e : Engine), KeyOk e →
      KeyOk (match qLookup q e.queries with
        | none => e
        | some t => { e with queries := qSet q (f t) e.queries }) ∧
      (∀ q', q' ∉ keys e.queries → q' ∉ keys (match qLookup q e.queries with
        | none => e
        | some t => { e with queries := qSet q (f t) e.queries }).queries) := by
    intro q f hf e h
    obtain ⟨a, b⟩ := register_spec e q f hf h
    exact ⟨a, fun q' hq' => by rw [b]; exact hq'⟩
  have st : ∀ (q : Nat) (t : QueryType), t.query = q →
      KeyOk { e with queries := qInsert q t e.queries } ∧
      (∀ q', q' ∉ keys e.queries → some q ≠ some q' → q' ∉ keys (qInsert q t e.queries)) := by
    intro q t ht
    obtain ⟨a, b⟩ := start_spec e q t ht h
    exact ⟨a, fun q' hq' hne => b q' hq' (fun e => hne (by rw [e]))⟩
  cases op with
  | next now order =>
    obtain ⟨a, b, c, d⟩ := nextAction_spec now order e h
    exact ⟨a, fun q hq _ => b q hq, c, d⟩
  | startFindNode q c =>
    obtain ⟨a, b⟩ := st q (.findNode (e.newFindNode q c)) rfl
    exact ⟨a, b, by simp [Engine.step], by simp [Engine.step]⟩
  | startPutRecord q r c qu =>
    obtain ⟨a, b⟩ := st q (.putRecord r qu (e.newFindNode q c)) rfl
    exact ⟨a, b, by simp [Engine.step], by simp [Engine.step]⟩
  | startPutRecordToPeers q r p qu =>
    obtain ⟨a, b⟩ := st q (.putRecordToPeers r qu ⟨q, p⟩) rfl
    exact ⟨a, b, by simp [Engine.step], by simp [Engine.step]⟩
  | startGetRecord q c qu l =>
    obtain ⟨a, b⟩ := st q (.getRecord (GetRecord.new e.localPeer e.repl e.par q qu l c)) rfl
    exact ⟨a, b, by simp [Engine.step], by simp [Engine.step]⟩
  | startAddProvider q k p c qu =>
    obtain ⟨a, b⟩ := st q (.addProvider k p qu (e.newFindNode q c)) rfl
    exact ⟨a, b, by simp [Engine.step], by simp [Engine.step]⟩
  | startGetProviders q c kn =>
    obtain ⟨a, b⟩ := st q (.getProviders (GetProviders.new e.localPeer e.par q kn c)) rfl
    exact ⟨a, b, by simp [Engine.step], by simp [Engine.step]⟩
  | startPutRecordTracking q k ps qu =>
    obtain ⟨a, b⟩ := st q (.putRecordToFoundNodes (PutTarget.new q k ps qu)) rfl
    exact ⟨a, b, by simp [Engine.step], by simp [Engine.step]⟩
  | startAddProviderTracking q k ps qu =>
    obtain ⟨a, b⟩ := st q (.addProviderToFoundNodes (PutTarget.new q k ps qu)) rfl
    exact ⟨a, b, by simp [Engine.step], by simp [Engine.step]⟩
  | response q p m =>
    obtain ⟨a, b⟩ := reg q (Engine.respType p m) (respType_query p m) e h
    exact ⟨a, fun q' hq' _ => b q' hq', by simp [Engine.step], by simp [Engine.step]⟩
  | responseFailure q p =>
    obtain ⟨a, b⟩ := reg q (Engine.failType p) (failType_query p) e h
    exact ⟨a, fun q' hq' _ => b q' hq', by simp [Engine.step], by simp [Engine.step]⟩
  | sendSuccess q p =>
    obtain ⟨a, b⟩ := reg q (Engine.sendOkType p) (sendOkType_query p) e h
    exact ⟨a, fun q' hq' _ => b q' hq', by simp [Engine.step], by simp [Engine.step]⟩
  | sendFailure q p =>
    obtain ⟨a, b⟩ := reg q (Engine.sendFailType p) (sendFailType_query p) e h
    exact ⟨a, fun q' hq' _ => b q' hq', by simp [Engine.step], by simp [Engine.step]⟩
  | peerFailure q p =>
    obtain ⟨a, b⟩ := reg q (Engine.sendFailType p) (sendFailType_query p) e h
    obtain ⟨a2, b2⟩ := reg q (Engine.failType p) (failType_query p) _ a
    exact ⟨a2, fun q' hq' _ => b2 q' (b q' hq'), by simp [Engine.step], by simp [Engine.step]⟩

theorem run_absent (q : Nat) (ops : List EOp) : ∀ (e : Engine), KeyOk e → q ∉ keys e.queries →
    (∀ op ∈ ops, op.starts ≠ some q) →
    actionCount q (e.run ops).2 = 0 ∧ terminalCount q (e.run ops).2 = 0 ∧
      q ∉ keys (e.run ops).1.queries := by
  induction ops with
  | nil => intro e _ hq _; exact ⟨rfl, rfl, hq⟩
  | cons op ops ih =>
    intro e h hq hst
    obtain ⟨s1, s2, s3, s4⟩ := step_spec e op h
    obtain ⟨i1, i2, i3⟩ := ih _ s1 (s2 q hq (hst op (List.mem_cons_self ..)))
      (fun o ho => hst o (List.mem_cons_of_mem _ ho))
    simp only [Engine.run]
    refine ⟨?_, ?_, i3⟩
    · cases ho : (e.step op).2 with
      | none => simpa [actionCount] using i1
      | bug => simpa [actionCount] using i1
      | act a =>
        have := (s4 a ho).1
        have hne : a.query ≠ q := fun e' => hq (e' ▸ this)
        simp [actionCount, hne, i1]
    · cases ho : (e.step op).2 with
      | none => simpa [terminalCount] using i2
      | bug => simpa [terminalCount] using i2
      | act a =>
        have := (s4 a ho).1
        have hne : a.query ≠ q := fun e' => hq (e' ▸ this)
        simp [terminalCount, hne, i2]

theorem run_terminal_le (q : Nat) (ops : List EOp) : ∀ (e : Engine), KeyOk e →
    (∀ op ∈ ops, op.starts ≠ some q) → terminalCount q (e.run ops).2 ≤ 1 := by
  induction ops with
  | nil => intro e _ _; simp [Engine.run, terminalCount]
  | cons op ops ih =>
    intro e h hst
    obtain ⟨s1, s2, s3, s4⟩ := step_spec e op h
    have hrest := fun o ho => hst o (List.mem_cons_of_mem _ ho)
    simp only [Engine.run]
    cases ho : (e.step op).2 with
    | none => simpa [terminalCount] using ih _ s1 hrest
    | bug => simpa [terminalCount] using ih _ s1 hrest
    | act a =>
      simp only [terminalCount]
      split
      · rename_i hc
        have hgone : q ∉ keys (e.step op).1.queries := hc.2 ▸ (s4 a ho).2 hc.1
        have := (run_absent q ops _ s1 hgone hrest).2.1
        omega
      · have := ih _ s1 hrest
        omega

end Litep2pVerif.Kad.Query
