import Litep2pVerif.Model.Node.Wiring
/-! Lemmas about the wiring model (`Model/Node/Wiring.lean`). -/
namespace Litep2pVerif.Node

/-- Every registration is made with the built keep-alive timeout. -/
theorem keepAlive_of_mem_registrations (b : Built) {r : Registration} (h : r ∈ registrations b) :
    r.keepAliveMs = b.keepAliveMs := by
  unfold registrations at h
  simp only [List.mem_append, List.mem_map] at h
  rcases h with (((((h | h) | h) | h) | h) | h) | h
  · obtain ⟨p, _, rfl⟩ := h; rfl
  · obtain ⟨p, _, rfl⟩ := h; rfl
  · obtain ⟨p, _, rfl⟩ := h; rfl
  · cases hp : b.ping <;> simp [hp] at h; subst h; rfl
  · obtain ⟨p, _, rfl⟩ := h; rfl
  · split at h <;> simp at h; subst h; rfl
  · split at h <;> simp at h; subst h; rfl

theorem notif_mem_registrations (b : Built) {p : NotifCfg} (h : p ∈ b.notif) :
    (⟨p.name, p.fallback, .varint (some p.max), b.keepAliveMs, true⟩ : Registration) ∈ registrations b := by
  unfold registrations
  simp only [List.mem_append, List.mem_map]
  exact Or.inl (Or.inl (Or.inl (Or.inl (Or.inl (Or.inl ⟨p, h, rfl⟩)))))

theorem rr_mem_registrations (b : Built) {p : RrCfg} (h : p ∈ b.rr) :
    (⟨p.name, p.fallback, .varint (some p.max), b.keepAliveMs, true⟩ : Registration) ∈ registrations b := by
  unfold registrations
  simp only [List.mem_append, List.mem_map]
  exact Or.inl (Or.inl (Or.inl (Or.inl (Or.inl (Or.inr ⟨p, h, rfl⟩)))))

theorem user_mem_registrations (b : Built) {p : UserCfg} (h : p ∈ b.user) :
    (⟨p.name, [], p.codec, b.keepAliveMs, true⟩ : Registration) ∈ registrations b := by
  unfold registrations
  simp only [List.mem_append, List.mem_map]
  exact Or.inl (Or.inl (Or.inl (Or.inl (Or.inr ⟨p, h, rfl⟩))))

/-- What a successful `Litep2p::new` returns. -/
theorem wire_ok {b : Built} {w : Wired} (h : wire b = .ok w) :
    registerAll [] (registrations b) ≠ none ∧ b.tcp = true ∧
    w = { regs := registrations b, limits := b.limits, listen := b.listen.map (fun o => (o, true)),
          known := b.known.map (fun (j, ks) => (j, ks.filter AddrKind.stored)),
          identifyProtocols := (registrations b).map (·.name), spawned := (registrations b).length } := by
  unfold wire at h
  cases hr : registerAll [] (registrations b) with
  | none => simp [hr] at h
  | some t =>
    simp only [hr] at h
    cases ht : b.tcp with
    | false => simp [ht] at h
    | true =>
      simp only [ht, Bool.not_true, Bool.false_eq_true, if_false] at h
      injection h with h
      exact ⟨by simp, rfl, h.symm⟩

/-- `register_protocol` accepted every registration ⇒ no name is taken twice: main names are pairwise different and
none of them was taken before. -/
theorem registerAll_names {taken : List String} {regs : List Registration} {t : List String}
    (h : registerAll taken regs = some t) :
    (regs.map (·.name)).Nodup ∧ ∀ r ∈ regs, r.name ∉ taken := by
  induction regs generalizing taken with
  | nil => simp
  | cons r rs ih =>
    unfold registerAll at h
    split at h
    · simp at h
    · rename_i h1
      split at h
      · simp at h
      · have ⟨hn, hd⟩ := ih h
        have h1' : r.name ∉ taken := by simpa using h1
        refine ⟨?_, ?_⟩
        · simp only [List.map_cons, List.nodup_cons]
          refine ⟨?_, hn⟩
          intro hm
          obtain ⟨r', hr', he⟩ := List.mem_map.mp hm
          have := hd r' hr'
          simp [he] at this
        · intro r' hr'
          rcases List.mem_cons.mp hr' with rfl | hr'
          · exact h1'
          · have := hd r' hr'
            intro hc
            exact this (by simp [hc])

/-- A registered name identifies its registration. -/
theorem unique_by_name {regs : List Registration} (hn : (regs.map (·.name)).Nodup)
    {r r' : Registration} (hr : r ∈ regs) (hr' : r' ∈ regs) (he : r'.name = r.name) : r' = r := by
  induction regs with
  | nil => cases hr
  | cons x xs ih =>
    simp only [List.map_cons, List.nodup_cons] at hn
    rcases List.mem_cons.mp hr with h1 | h1
    · rcases List.mem_cons.mp hr' with h2 | h2
      · rw [h1, h2]
      · subst h1
        exact (hn.1 (List.mem_map.mpr ⟨r', h2, he⟩)).elim
    · rcases List.mem_cons.mp hr' with h2 | h2
      · subst h2
        exact (hn.1 (List.mem_map.mpr ⟨r, h1, he.symm⟩)).elim
      · exact ih hn.2 h1 h2

/-- Two registrations claim no common name. -/
def Apart (a b : Registration) : Prop := ∀ x ∈ a.claims, x ∉ b.claims

theorem Apart.symm {a b : Registration} (h : Apart a b) : Apart b a :=
  fun x hb ha => h x ha hb

/-- `register_protocol` accepts a sequence of registrations iff no name they claim is already taken and no two of them
claim a common name (a registration's own fallback list is not checked against itself). -/
theorem registerAll_ok_iff (taken : List String) (regs : List Registration) :
    registerAll taken regs ≠ none ↔
      (∀ r ∈ regs, ∀ x ∈ r.claims, x ∉ taken) ∧ regs.Pairwise Apart := by
  induction regs generalizing taken with
  | nil => simp [registerAll]
  | cons r rs ih =>
    unfold registerAll
    by_cases h1 : taken.contains r.name = true
    · simp only [h1, if_true, ne_eq, not_true_eq_false, false_iff, not_and]
      intro h
      have := h r (List.mem_cons_self ..) r.name (by simp [Registration.claims])
      simp at h1
      exact absurd h1 this
    · by_cases h2 : (r.fallback.any fun f => taken.contains f) = true
      · simp only [h1, h2, if_true, if_false, ne_eq, not_true_eq_false, false_iff, not_and, Bool.false_eq_true]
        intro h
        simp only [List.any_eq_true] at h2
        obtain ⟨f, hf, hc⟩ := h2
        have := h r (List.mem_cons_self ..) f (by simp [Registration.claims, hf])
        simp at hc
        exact absurd hc this
      · simp only [h1, h2, if_false, Bool.false_eq_true]
        rw [ih]
        simp only [List.pairwise_cons, List.mem_cons, forall_eq_or_imp]
        have h1' : r.name ∉ taken := by simpa using h1
        have h2' : ∀ f ∈ r.fallback, f ∉ taken := by
          intro f hf hc
          apply h2
          simp only [List.any_eq_true]
          exact ⟨f, hf, by simpa using hc⟩
        constructor
        · rintro ⟨ha, hp⟩
          refine ⟨⟨?_, ?_⟩, ?_, hp⟩
          · intro x hx
            simp only [Registration.claims, List.mem_cons] at hx
            rcases hx with rfl | hx
            · exact h1'
            · exact h2' x hx
          · intro r' hr' x hx hc
            exact ha r' hr' x hx (by simp [hc])
          · intro r' hr' x hx hx'
            have := ha r' hr' x hx'
            apply this
            simp only [Registration.claims, List.mem_cons] at hx
            rcases hx with rfl | hx
            · simp
            · simp [hx]
        · rintro ⟨⟨_, ha⟩, hd, hp⟩
          refine ⟨?_, hp⟩
          intro r' hr' x hx hc
          simp only [List.cons_append, List.mem_cons, List.mem_append] at hc
          rcases hc with rfl | hc | hc
          · exact hd r' hr' _ (by simp [Registration.claims]) hx
          · exact hd r' hr' x (by simp [Registration.claims, hc]) hx
          · exact ha r' hr' x hx hc

/-- The order in which `Litep2p::new` happens to register the protocols (it iterates over `HashMap`s) does not
decide whether registration succeeds. -/
theorem clashFree_perm {regs regs' : List Registration} (p : regs.Perm regs') :
    registerAll [] regs ≠ none ↔ registerAll [] regs' ≠ none := by
  rw [registerAll_ok_iff, registerAll_ok_iff]
  constructor
  · rintro ⟨_, h⟩
    exact ⟨by simp, (p.pairwise_iff (fun h => Apart.symm h)).mp h⟩
  · rintro ⟨_, h⟩
    exact ⟨by simp, (p.pairwise_iff (fun h => Apart.symm h)).mpr h⟩

/-! ## `ProtocolSet` lookups -/

/-- Registrations that claim a common name are the same registration (accepted registrations are pairwise apart). -/
theorem apart_unique {regs : List Registration} (hp : regs.Pairwise Apart) {r r' : Registration}
    (hr : r ∈ regs) (hr' : r' ∈ regs) {x : String} (hx : x ∈ r.claims) (hx' : x ∈ r'.claims) : r = r' := by
  induction regs with
  | nil => cases hr
  | cons a l ih =>
    rw [List.pairwise_cons] at hp
    rcases List.mem_cons.mp hr with h1 | h1
    · rcases List.mem_cons.mp hr' with h2 | h2
      · rw [h1, h2]
      · subst h1
        exact (hp.1 r' h2 x hx hx').elim
    · rcases List.mem_cons.mp hr' with h2 | h2
      · subst h2
        exact (hp.1 r h1 x hx' hx).elim
      · exact ih hp.2 h1 h2

/-- The name `ProtocolSet` looks a negotiated name up under: the main name of the registration that claims it. -/
theorem fallbackOwner_getD {regs : List Registration} (hp : regs.Pairwise Apart) {r : Registration} (hr : r ∈ regs)
    {x : String} (hx : x ∈ r.claims) : (fallbackOwner regs x).getD x = r.name := by
  unfold fallbackOwner
  cases hf : regs.find? (fun r => r.fallback.contains x) with
  | some r1 =>
    have hm := List.mem_of_find?_eq_some hf
    have hc := List.find?_some hf
    have hx1 : x ∈ r1.claims := by
      simp only [Registration.claims, List.mem_cons]
      exact Or.inr (by simpa using hc)
    have := apart_unique hp hm hr hx1 hx
    simp [this]
  | none =>
    have hn := List.find?_eq_none.mp hf r hr
    simp only [Registration.claims, List.mem_cons] at hx
    rcases hx with rfl | hx
    · simp
    · exact absurd (by simpa using hx) hn

/-- The registration `ProtocolSet` finds for a negotiated name is the one that claims it. -/
theorem find_by_claim {regs : List Registration} (hp : regs.Pairwise Apart) {r : Registration} (hr : r ∈ regs)
    {x : String} (hx : x ∈ r.claims) :
    regs.find? (fun r' => r'.name = (fallbackOwner regs x).getD x) = some r := by
  rw [fallbackOwner_getD hp hr hx]
  cases hf : regs.find? (fun r' => r'.name = r.name) with
  | none =>
    have := List.find?_eq_none.mp hf r hr
    simp at this
  | some r2 =>
    have hm := List.mem_of_find?_eq_some hf
    have hc : r2.name = r.name := by simpa using List.find?_some hf
    have h2 : r.name ∈ r2.claims := by simp [Registration.claims, hc]
    have h1 : r.name ∈ r.claims := by simp [Registration.claims]
    rw [apart_unique hp hm hr h2 h1]

/-- Every name a registration claims — its main name and each of its fallback names — resolves to THAT registration's
codec and keep-alive setting. -/
theorem protocolSet_of_claim {regs : List Registration} (h : registerAll [] regs ≠ none) {r : Registration}
    (hr : r ∈ regs) {x : String} (hx : x ∈ r.claims) :
    protocolCodec regs x = some r.codec ∧ nameKeepAlive regs x = some r.keepAlive := by
  have hp := ((registerAll_ok_iff [] regs).mp h).2
  unfold protocolCodec nameKeepAlive
  rw [find_by_claim hp hr hx]
  exact ⟨rfl, rfl⟩

/-! ## Builders -/

theorem kadBuild_append (sets : List KadSet) (s : KadSet) : kadBuild (sets ++ [s]) = s.apply (kadBuild sets) := by
  simp [kadBuild, List.foldl_append]

theorem notes_kad_mem (b : Built) {k : KadCfg} (h : k ∈ b.kad) : Note.kad (kadBuild k.sets) ∈ notes b := by
  unfold notes
  simp only [List.mem_append, List.mem_map]
  exact Or.inl (Or.inl (Or.inr ⟨k, h, rfl⟩))

theorem notes_rr_mem (b : Built) {p : RrCfg} (h : p ∈ b.rr) : Note.rr p.name p.timeoutMs p.maxInbound ∈ notes b := by
  unfold notes
  simp only [List.mem_append, List.mem_map]
  exact Or.inl (Or.inl (Or.inl (Or.inl (Or.inr ⟨p, h, rfl⟩))))

theorem notes_notif_mem (b : Built) {p : NotifCfg} (h : p ∈ b.notif) :
    Note.notif p.name (p.sync.getD Consts.NODE_NOTIF_SYNC_CHANNEL_SIZE) (p.async.getD Consts.NODE_NOTIF_ASYNC_CHANNEL_SIZE)
      (p.mode == 'a') (p.dial.getD true) p.handshake ∈ notes b := by
  unfold notes
  simp only [List.mem_append, List.mem_map]
  exact Or.inl (Or.inl (Or.inl (Or.inl (Or.inl ⟨p, h, rfl⟩))))

theorem notes_bitswap_mem (b : Built) (h : b.bitswap = true) : Note.bitswap ∈ notes b := by
  unfold notes
  simp [h]

theorem bitswap_mem_registrations (b : Built) (h : b.bitswap = true) :
    (⟨bitswapName, [], .varint (some Consts.BITSWAP_MAX_MESSAGE_SIZE), b.keepAliveMs, true⟩ : Registration) ∈
      registrations b := by
  unfold registrations
  simp [h]

theorem tcpHeld_append (b : Built) (sets : List TcpSet) (s : TcpSet) (hb : b.tcpSets = sets ++ [s]) :
    tcpHeld b = { s.apply (sets.foldl TcpSet.apply {}) with maxParallelDials := b.maxParallelDials } := by
  simp [tcpHeld, hb, List.foldl_append]

end Litep2pVerif.Node
