import Litep2pVerif.Model.Wire.KadMessage
/-! Generic lemmas about the protobuf wire model: every reader consumes what it returns. -/
namespace Litep2pVerif.Wire

theorem readVarintAux_length {c acc : Nat} {bs : List Nat} {v : Nat} {rest : List Nat}
    (h : readVarintAux c acc bs = some (v, rest)) : rest.length < bs.length := by
  induction bs generalizing c acc with
  | nil => simp [readVarintAux] at h
  | cons b bs ih =>
    simp only [readVarintAux] at h
    split at h
    · cases h
    · split at h
      · split at h
        · cases h
        · simp only [Option.some.injEq, Prod.mk.injEq] at h
          obtain ⟨_, rfl⟩ := h
          simp
      · have := ih h
        simp; omega

theorem readVarint_length {bs : List Nat} {v : Nat} {rest : List Nat}
    (h : readVarint bs = some (v, rest)) : rest.length < bs.length :=
  readVarintAux_length h

theorem readKey_length {bs : List Nat} {tag wt : Nat} {rest : List Nat}
    (h : readKey bs = some (tag, wt, rest)) : rest.length < bs.length := by
  unfold readKey at h
  split at h
  · cases h
  · rename_i key r hv
    split at h
    · cases h
    · split at h
      · cases h
      · split at h
        · cases h
        · simp only [Option.some.injEq, Prod.mk.injEq] at h
          obtain ⟨_, _, rfl⟩ := h
          exact readVarint_length hv

theorem takeExact_spec {n : Nat} {bs a rest : List Nat} (h : takeExact n bs = some (a, rest)) :
    a.length = n ∧ rest.length + n = bs.length := by
  unfold takeExact at h
  split at h
  · cases h
  · simp only [Option.some.injEq, Prod.mk.injEq] at h
    obtain ⟨rfl, rfl⟩ := h
    simp; omega

theorem readLenDelimited_spec {bs p rest : List Nat} (h : readLenDelimited bs = some (p, rest)) :
    p.length + rest.length + 1 ≤ bs.length := by
  unfold readLenDelimited at h
  split at h
  · cases h
  · rename_i len r hv
    have := readVarint_length hv
    have := takeExact_spec h
    omega

theorem fieldBytes_spec {wt : Nat} {bs v rest : List Nat} (h : fieldBytes wt bs = some (v, rest)) :
    v.length + rest.length + 1 ≤ bs.length := by
  unfold fieldBytes at h
  split at h
  · exact readLenDelimited_spec h
  · cases h

theorem fieldString_spec {wt : Nat} {bs v rest : List Nat} (h : fieldString wt bs = some (v, rest)) :
    v.length + rest.length + 1 ≤ bs.length := by
  unfold fieldString at h
  split at h
  · cases h
  · rename_i s r hb
    split at h
    · simp only [Option.some.injEq, Prod.mk.injEq] at h
      obtain ⟨rfl, rfl⟩ := h
      exact fieldBytes_spec hb
    · cases h

theorem fieldVarint_spec {wt : Nat} {bs : List Nat} {v : Nat} {rest : List Nat}
    (h : fieldVarint wt bs = some (v, rest)) : rest.length + 1 ≤ bs.length := by
  unfold fieldVarint at h
  split at h
  · exact readVarint_length h
  · cases h

theorem fieldMessage_spec {τ : Type} {sub : Nat → List Nat → Option τ} {depth wt : Nat} {bs rest : List Nat}
    {v : τ} (h : fieldMessage sub depth wt bs = some (v, rest)) :
    ∃ payload, sub (depth - 1) payload = some v ∧ payload.length + rest.length + 1 ≤ bs.length := by
  unfold fieldMessage at h
  split at h
  · cases h
  · split at h
    · cases h
    · split at h
      · cases h
      · rename_i payload r hl
        split at h
        · cases h
        · rename_i v' hs
          simp only [Option.some.injEq, Prod.mk.injEq] at h
          obtain ⟨rfl, rfl⟩ := h
          exact ⟨payload, hs, readLenDelimited_spec hl⟩

mutual
theorem skipField_length : ∀ (fuel depth wt tag : Nat) (bs rest : List Nat),
    skipField fuel depth wt tag bs = some rest → rest.length ≤ bs.length
  | 0, _, _, _, _, _, h => by simp [skipField] at h
  | fuel + 1, depth, wt, tag, bs, rest, h => by
    unfold skipField at h
    split at h
    · cases h
    · split at h
      · simp only [Option.map_eq_some_iff] at h
        obtain ⟨⟨v, r⟩, hv, rfl⟩ := h
        exact Nat.le_of_lt (readVarint_length hv)
      · simp only [Option.map_eq_some_iff] at h
        obtain ⟨⟨a, r⟩, hv, rfl⟩ := h
        have := takeExact_spec hv; simp; omega
      · simp only [Option.map_eq_some_iff] at h
        obtain ⟨⟨a, r⟩, hv, rfl⟩ := h
        have := readLenDelimited_spec hv; simp; omega
      · exact skipGroup_length fuel depth tag bs rest h
      · simp only [Option.map_eq_some_iff] at h
        obtain ⟨⟨a, r⟩, hv, rfl⟩ := h
        have := takeExact_spec hv; simp; omega
      · cases h
theorem skipGroup_length : ∀ (fuel depth tag : Nat) (bs rest : List Nat),
    skipGroup fuel depth tag bs = some rest → rest.length ≤ bs.length
  | 0, _, _, _, _, h => by simp [skipGroup] at h
  | fuel + 1, depth, tag, bs, rest, h => by
    unfold skipGroup at h
    split at h
    · cases h
    · rename_i itag iwt r hk
      have hk' := readKey_length hk
      split at h
      · split at h
        · simp only [Option.some.injEq] at h; subst h; omega
        · cases h
      · split at h
        · cases h
        · rename_i r' hs
          have h1 := skipField_length fuel (depth - 1) iwt itag r r' hs
          have h2 := skipGroup_length fuel depth tag r' rest h
          omega
end

theorem fieldSkip_spec {σ : Type} {st st' : σ} {depth wt tag : Nat} {bs rest : List Nat}
    (h : fieldSkip st depth wt tag bs = some (st', rest)) : st' = st ∧ rest.length ≤ bs.length := by
  unfold fieldSkip at h
  simp only [Option.map_eq_some_iff, Prod.mk.injEq] at h
  obtain ⟨r, hr, rfl, rfl⟩ := h
  exact ⟨rfl, skipField_length _ _ _ _ _ _ hr⟩

/-- Size accounting of the generic message loop: if one `merge` step never grows the measure by more
than the bytes it consumes, the decoded value's measure is bounded by the input length. -/
theorem decodeLoop_measure {σ : Type} (merge : σ → Nat → Nat → List Nat → Option (σ × List Nat))
    (μ : σ → Nat)
    (hm : ∀ st tag wt bs st' rest, merge st tag wt bs = some (st', rest) → μ st' + rest.length ≤ μ st + bs.length) :
    ∀ (fuel : Nat) (st : σ) (bs : List Nat) (st' : σ), decodeLoop merge fuel st bs = some st' →
      μ st' ≤ μ st + bs.length := by
  intro fuel
  induction fuel with
  | zero =>
    intro st bs st' h
    cases bs with
    | nil => simp [decodeLoop] at h; subst h; simp
    | cons b bs => simp [decodeLoop] at h
  | succ fuel ih =>
    intro st bs st' h
    cases bs with
    | nil => simp [decodeLoop] at h; subst h; simp
    | cons b bs =>
      simp only [decodeLoop] at h
      split at h
      · cases h
      · rename_i tag wt rest hk
        have hk' := readKey_length hk
        split at h
        · cases h
        · rename_i st1 rest1 hm1
          have h1 := hm _ _ _ _ _ _ hm1
          have h2 := ih _ _ _ h
          omega

end Litep2pVerif.Wire
