import Litep2pVerif.Proofs.Wire.Sizes
import Mathlib.Tactic.Ring
/-! Round-trip lemmas for the protobuf wire model: varints, keys, fields, and the generic per-field
lemmas from which `Proofs/Wire/RoundtripGen.lean` (generated) assembles `decode (encode m) = some m` for
every message of every schema. -/
namespace Litep2pVerif.Wire

theorem readVarintAux_writeVarintAux (rest : List Nat) :
    ∀ (fuel c acc n : Nat), c + fuel = 10 → 1 ≤ fuel → n < 2 ^ (64 - 7 * c) →
      readVarintAux c acc (writeVarintAux fuel n ++ rest) = some (acc + n * 2 ^ (7 * c), rest) := by
  intro fuel
  induction fuel with
  | zero => intro c acc n _ h; omega
  | succ k ih =>
    intro c acc n hc _ hn
    unfold writeVarintAux
    split
    · rename_i hlt
      simp only [List.cons_append, List.nil_append, readVarintAux]
      have hc10 : ¬ 10 ≤ c := by omega
      simp only [hc10, if_false, hlt, if_true]
      have hmod : n % 128 = n := Nat.mod_eq_of_lt hlt
      have h9 : ¬ (c = 9 ∧ 2 ≤ n) := by
        rintro ⟨rfl, h2⟩
        simp at hn; omega
      simp [h9, hmod]
    · rename_i hge
      have hc8 : c ≤ 8 := by
        by_contra hcon
        have : c = 9 := by omega
        subst this
        simp at hn; omega
      simp only [List.cons_append, readVarintAux]
      have hc10 : ¬ 10 ≤ c := by omega
      have hb : ¬ (n % 128 + 128 < 128) := by omega
      simp only [hc10, if_false, hb]
      have hmod : (n % 128 + 128) % 128 = n % 128 := by omega
      rw [hmod]
      have hdiv : n / 128 < 2 ^ (64 - 7 * (c + 1)) := by
        have e : 2 ^ (64 - 7 * c) = 128 * 2 ^ (64 - 7 * (c + 1)) := by
          have : 64 - 7 * c = (64 - 7 * (c + 1)) + 7 := by omega
          rw [this, Nat.pow_add]; ring
        rw [e] at hn
        exact Nat.div_lt_of_lt_mul hn
      rw [ih (c + 1) _ (n / 128) (by omega) (by omega) hdiv]
      congr 2
      have e2 : 2 ^ (7 * (c + 1)) = 128 * 2 ^ (7 * c) := by
        have : 7 * (c + 1) = 7 * c + 7 := by ring
        rw [this, Nat.pow_add]; ring
      rw [e2]
      have hdm := Nat.div_add_mod n 128
      calc acc + n % 128 * 2 ^ (7 * c) + n / 128 * (128 * 2 ^ (7 * c))
          = acc + (128 * (n / 128) + n % 128) * 2 ^ (7 * c) := by ring
        _ = acc + n * 2 ^ (7 * c) := by rw [hdm]

/-- prost varints round-trip for every 64-bit value. -/
theorem readVarint_writeVarint' (n : Nat) (hn : n < 2 ^ 64) (rest : List Nat) :
    readVarint (writeVarint n ++ rest) = some (n, rest) := by
  have := readVarintAux_writeVarintAux rest 10 0 0 n (by omega) (by omega) (by simpa using hn)
  simpa [readVarint, writeVarint] using this


theorem decodeLoop_fuel {σ : Type} (merge : σ → Nat → Nat → List Nat → Option (σ × List Nat))
    (hc : ∀ st tag wt bs st' rest, merge st tag wt bs = some (st', rest) → rest.length ≤ bs.length) :
    ∀ (f1 f2 : Nat) (st : σ) (bs : List Nat), bs.length ≤ f1 → bs.length ≤ f2 →
      decodeLoop merge f1 st bs = decodeLoop merge f2 st bs := by
  intro f1
  induction f1 with
  | zero =>
    intro f2 st bs h1 _
    have : bs = [] := List.eq_nil_of_length_eq_zero (by omega)
    subst this
    cases f2 <;> simp [decodeLoop]
  | succ f1 ih =>
    intro f2 st bs h1 h2
    cases bs with
    | nil => cases f2 <;> simp [decodeLoop]
    | cons b bs =>
      cases f2 with
      | zero => simp at h2
      | succ f2 =>
        simp only [decodeLoop]
        split
        · rfl
        · rename_i tag wt rest hk
          have hk' := readKey_length hk
          split
          · rfl
          · rename_i st1 rest1 hm1
            have := hc _ _ _ _ _ _ hm1
            simp at h1 h2 hk'
            exact ih f2 st1 rest1 (by omega) (by omega)

/-- One field of the message loop. -/
theorem decodeLoop_field {σ : Type} (merge : σ → Nat → Nat → List Nat → Option (σ × List Nat))
    (hc : ∀ st tag wt bs st' rest, merge st tag wt bs = some (st', rest) → rest.length ≤ bs.length)
    {st st' : σ} {bs r r' : List Nat} {tag wt : Nat}
    (hk : readKey bs = some (tag, wt, r)) (hm : merge st tag wt r = some (st', r')) :
    decodeLoop merge bs.length st bs = decodeLoop merge r'.length st' r' := by
  have hk' := readKey_length hk
  have hm' := hc _ _ _ _ _ _ hm
  cases bs with
  | nil => simp at hk'
  | cons b bs =>
    simp only [List.length_cons, decodeLoop, hk, hm]
    simp at hk'
    exact decodeLoop_fuel merge hc _ _ _ _ (by omega) (by omega)

theorem readKey_writeKey' (tag wt : Nat) (ht : 1 ≤ tag) (ht' : tag < 2 ^ 29) (hw : wt ≤ 5) (rest : List Nat) :
    readKey (writeKey tag wt ++ rest) = some (tag, wt, rest) := by
  unfold readKey writeKey
  have hlt : tag * 8 + wt < 2 ^ 64 := by omega
  rw [readVarint_writeVarint' _ hlt]
  have h1 : ¬ (2 ^ 32 ≤ tag * 8 + wt) := by omega
  have h2 : (tag * 8 + wt) % 8 = wt := by omega
  have h3 : (tag * 8 + wt) / 8 = tag := by omega
  simp only [h1, if_false, h2, h3]
  have h4 : ¬ (5 < wt) := by omega
  have h5 : ¬ (tag < 1) := by omega
  simp [h4, h5]

theorem fieldBytes_enc (b rest : List Nat) (hb : b.length < 2 ^ 64) :
    fieldBytes 2 (writeVarint b.length ++ b ++ rest) = some (b, rest) := by
  unfold fieldBytes readLenDelimited
  simp only [if_true, List.append_assoc]
  rw [readVarint_writeVarint' _ hb]
  simp [takeExact]

theorem fieldVarint_enc (n : Nat) (rest : List Nat) (hn : n < 2 ^ 64) :
    fieldVarint 0 (writeVarint n ++ rest) = some (n, rest) := by
  unfold fieldVarint
  simp [readVarint_writeVarint' _ hn]

/-! ## Generic field lemmas

`run mg st bs` is the message loop with the fuel every decoder of the model uses. A message encoding
is `seg₁ ++ (seg₂ ++ … (segₙ ++ []))`, one segment per field in tag order; each lemma below moves one
segment from the input into the state. -/

/-- One `merge_field` step never returns more bytes than it was given. -/
def Consumes {σ : Type} (mg : σ → Nat → Nat → List Nat → Option (σ × List Nat)) : Prop :=
  ∀ st tag wt bs st' rest, mg st tag wt bs = some (st', rest) → rest.length ≤ bs.length

@[reducible] def run {σ : Type} (mg : σ → Nat → Nat → List Nat → Option (σ × List Nat)) (st : σ) (bs : List Nat) :
    Option σ := decodeLoop mg bs.length st bs

theorem run_done {σ : Type} (mg : σ → Nat → Nat → List Nat → Option (σ × List Nat)) (st st' : σ)
    (h : st = st') : run mg st [] = some st' := by
  subst h; simp [run, decodeLoop]

/-- A field of a structure: getter, setter and the three lens laws (all `rfl` for a structure). -/
structure Lens (σ α : Type) where
  get : σ → α
  set : σ → α → σ
  get_set : ∀ st x, get (set st x) = x
  set_set : ∀ st x y, set (set st x) y = set st y
  set_get : ∀ st, set st (get st) = st

/-- How one element of a field travels: reader `rd` (applied to the wire type and the bytes after the
key), conversion `cv` of what was read, encoder `enc tag a = key ++ pay a`, and the law that reading
an encoded well-formed value gives it back. -/
structure Scalar (α β : Type) where
  rd : Nat → List Nat → Option (β × List Nat)
  wt : Nat
  cv : β → α
  enc : Nat → α → List Nat
  pay : α → List Nat
  ok : α → Prop
  wt_le : wt ≤ 5
  enc_eq : ∀ tag a, enc tag a = writeKey tag wt ++ pay a
  law : ∀ a rest, ok a → ∃ b, rd wt (pay a ++ rest) = some (b, rest) ∧ cv b = a

theorem toI32_i32ToU64 (i : Int) (h : okI32 i) : toI32 (i32ToU64 i) = i := by
  obtain ⟨h1, h2⟩ := h
  unfold toI32 i32ToU64
  by_cases h0 : 0 ≤ i
  · have e : (i.toNat : Int) = i := Int.toNat_of_nonneg h0
    have hlt : i.toNat < 2 ^ 31 := by omega
    simp only [h0, if_true]
    rw [Nat.mod_eq_of_lt (by omega : i.toNat < 2 ^ 32), if_pos hlt]
    exact e
  · have e : ((-i).toNat : Int) = -i := Int.toNat_of_nonneg (by omega)
    have hpos : 1 ≤ (-i).toNat := by omega
    have hle : (-i).toNat ≤ 2 ^ 31 := by omega
    simp only [h0, if_false]
    have hm : (2 ^ 64 - (-i).toNat) % 2 ^ 32 = 2 ^ 32 - (-i).toNat := by omega
    rw [hm, if_neg (by omega)]
    simp only [Int.ofNat_eq_natCast]
    omega

theorem i32ToU64_lt (i : Int) (h : okI64 i) : i32ToU64 i < 2 ^ 64 := by
  obtain ⟨h1, h2⟩ := h
  unfold i32ToU64
  split <;> omega

theorem toI64_i32ToU64 (i : Int) (h : okI64 i) : toI64 (i32ToU64 i) = i := by
  obtain ⟨h1, h2⟩ := h
  unfold toI64 i32ToU64
  by_cases h0 : 0 ≤ i
  · have e : (i.toNat : Int) = i := Int.toNat_of_nonneg h0
    have hlt : i.toNat < 2 ^ 63 := by omega
    simp only [h0, if_true]
    rw [Nat.mod_eq_of_lt (by omega : i.toNat < 2 ^ 64), if_pos hlt]
    exact e
  · have e : ((-i).toNat : Int) = -i := Int.toNat_of_nonneg (by omega)
    have hpos : 1 ≤ (-i).toNat := by omega
    have hle : (-i).toNat ≤ 2 ^ 63 := by omega
    simp only [h0, if_false]
    have hm : (2 ^ 64 - (-i).toNat) % 2 ^ 64 = 2 ^ 64 - (-i).toNat := by omega
    rw [hm, if_neg (by omega)]
    simp only [Int.ofNat_eq_natCast]
    omega

theorem okI32_okI64 {i : Int} (h : okI32 i) : okI64 i := by
  obtain ⟨h1, h2⟩ := h
  constructor <;> omega

def Scalar.bytes : Scalar (List Nat) (List Nat) where
  rd := fieldBytes
  wt := 2
  cv := fun v => v
  enc := encBytesField
  pay := fun a => writeVarint a.length ++ a
  ok := okBytes
  wt_le := by omega
  enc_eq := fun _ _ => by simp [encBytesField, List.append_assoc]
  law := fun a rest h => ⟨a, by simpa [List.append_assoc] using fieldBytes_enc a rest h, rfl⟩

def Scalar.string : Scalar (List Nat) (List Nat) where
  rd := fieldString
  wt := 2
  cv := fun v => v
  enc := encStringField
  pay := fun a => writeVarint a.length ++ a
  ok := okString
  wt_le := by omega
  enc_eq := fun _ _ => by simp [encStringField, encBytesField, List.append_assoc]
  law := fun a rest h => ⟨a, by
    have := fieldBytes_enc a rest h.1
    simp only [List.append_assoc] at this
    simp [fieldString, this, h.2], rfl⟩

def Scalar.int32 : Scalar Int Nat where
  rd := fieldVarint
  wt := 0
  cv := fun v => toI32 v
  enc := encInt32Field
  pay := fun a => writeVarint (i32ToU64 a)
  ok := okI32
  wt_le := by omega
  enc_eq := fun _ _ => rfl
  law := fun a rest h => ⟨i32ToU64 a, fieldVarint_enc _ rest (i32ToU64_lt a (okI32_okI64 h)), toI32_i32ToU64 a h⟩

def Scalar.int64 : Scalar Int Nat where
  rd := fieldVarint
  wt := 0
  cv := fun v => toI64 v
  enc := encInt64Field
  pay := fun a => writeVarint (i32ToU64 a)
  ok := okI64
  wt_le := by omega
  enc_eq := fun _ _ => rfl
  law := fun a rest h => ⟨i32ToU64 a, fieldVarint_enc _ rest (i32ToU64_lt a h), toI64_i32ToU64 a h⟩

def Scalar.uint32 : Scalar Nat Nat where
  rd := fieldVarint
  wt := 0
  cv := fun v => toU32 v
  enc := encUInt32Field
  pay := fun a => writeVarint a
  ok := okU32
  wt_le := by omega
  enc_eq := fun _ _ => rfl
  law := fun a rest h => ⟨a, fieldVarint_enc _ rest (by unfold okU32 at h; omega), by
    unfold okU32 at h; exact Nat.mod_eq_of_lt h⟩

def Scalar.uint64 : Scalar Nat Nat where
  rd := fieldVarint
  wt := 0
  cv := fun v => v
  enc := encUInt64Field
  pay := fun a => writeVarint a
  ok := okU64
  wt_le := by omega
  enc_eq := fun _ _ => rfl
  law := fun a rest h => ⟨a, fieldVarint_enc _ rest h, rfl⟩

def Scalar.bool : Scalar Bool Nat where
  rd := fieldVarint
  wt := 0
  cv := fun v => v != 0
  enc := encBoolField
  pay := fun a => writeVarint (if a then 1 else 0)
  ok := okBool
  wt_le := by omega
  enc_eq := fun _ _ => rfl
  law := fun a rest _ => ⟨if a then 1 else 0, fieldVarint_enc _ rest (by split <;> omega), by cases a <;> rfl⟩

theorem fieldMessage_enc {τ : Type} (sub : Nat → List Nat → Option τ) (depth : Nat) (hd : 1 ≤ depth)
    (payload rest : List Nat) (v : τ) (hl : payload.length < 2 ^ 64) (hs : sub (depth - 1) payload = some v) :
    fieldMessage sub depth 2 (writeVarint payload.length ++ payload ++ rest) = some (v, rest) := by
  have hb := fieldBytes_enc payload rest hl
  unfold fieldBytes at hb
  simp only [if_true] at hb
  unfold fieldMessage
  have h0 : ¬ depth = 0 := by omega
  simp only [List.append_assoc] at hb ⊢
  simp [h0, hb, hs]

/-- A nested message as the element of a field: `dec` one level deeper gives back what `enc` wrote. -/
def Scalar.msg {τ : Type} (dec : Nat → List Nat → Option τ) (enc : τ → List Nat) (wf : τ → Prop) (depth : Nat)
    (hd : 1 ≤ depth) (h : ∀ v, wf v → dec (depth - 1) (enc v) = some v) : Scalar τ τ where
  rd := fun w bs => fieldMessage dec depth w bs
  wt := 2
  cv := fun v => v
  enc := fun tag v => encMessageField tag (enc v)
  pay := fun v => writeVarint (enc v).length ++ enc v
  ok := okMsg wf enc
  wt_le := by omega
  enc_eq := fun _ _ => by simp [encMessageField, encBytesField, List.append_assoc]
  law := fun a rest hok => ⟨a, by
    have := fieldMessage_enc dec depth hd (enc a) rest a hok.2 (h a hok.1)
    simpa [List.append_assoc] using this, rfl⟩

/-- The core step: one encoded element in front of `rest` is consumed into the state. -/
theorem run_field {σ α β : Type} {mg : σ → Nat → Nat → List Nat → Option (σ × List Nat)} (hc : Consumes mg)
    (C : Scalar α β) (tag : Nat) (ht : 1 ≤ tag ∧ tag < 2 ^ 29) (upd : σ → α → σ)
    (hmg : ∀ st bs, mg st tag C.wt bs = (C.rd C.wt bs).map fun (v, rest) => (upd st (C.cv v), rest))
    (st : σ) (a : α) (rest : List Nat) (hok : C.ok a) :
    run mg st (C.enc tag a ++ rest) = run mg (upd st a) rest := by
  obtain ⟨b, hb, hcv⟩ := C.law a rest hok
  have hk := readKey_writeKey' tag C.wt ht.1 ht.2 C.wt_le (C.pay a ++ rest)
  have hm : mg st tag C.wt (C.pay a ++ rest) = some (upd st a, rest) := by
    rw [hmg, hb, ← hcv]; rfl
  have := decodeLoop_field mg hc (bs := C.enc tag a ++ rest) (by rw [C.enc_eq, List.append_assoc]; exact hk) hm
  exact this

/-- proto2 `required` scalar: always written. -/
theorem run_req {σ α β : Type} {mg : σ → Nat → Nat → List Nat → Option (σ × List Nat)} (hc : Consumes mg)
    (C : Scalar α β) (tag : Nat) (ht : 1 ≤ tag ∧ tag < 2 ^ 29) (L : Lens σ α)
    (hmg : ∀ st bs, mg st tag C.wt bs = (C.rd C.wt bs).map fun (v, rest) => (L.set st (C.cv v), rest))
    (st : σ) (a : α) (rest : List Nat) (hok : C.ok a) :
    run mg st (C.enc tag a ++ rest) = run mg (L.set st a) rest :=
  run_field hc C tag ht L.set hmg st a rest hok

/-- proto3 singular scalar: omitted when equal to the default (which the state still holds). -/
theorem run_plain {σ α β : Type} [DecidableEq α] {mg : σ → Nat → Nat → List Nat → Option (σ × List Nat)}
    (hc : Consumes mg) (C : Scalar α β) (tag : Nat) (ht : 1 ≤ tag ∧ tag < 2 ^ 29) (L : Lens σ α)
    (hmg : ∀ st bs, mg st tag C.wt bs = (C.rd C.wt bs).map fun (v, rest) => (L.set st (C.cv v), rest))
    (d : α) (st : σ) (a : α) (rest : List Nat) (hget : L.get st = d) (hok : C.ok a) :
    run mg st (encPlain (C.enc tag) d a ++ rest) = run mg (L.set st a) rest := by
  unfold encPlain
  split
  · rename_i had
    have e : L.set st a = st := by rw [had, ← hget, L.set_get]
    rw [e]; rfl
  · exact run_field hc C tag ht L.set hmg st a rest hok

/-- `Option` scalar: written when `some`. -/
theorem run_opt {σ α β : Type} {mg : σ → Nat → Nat → List Nat → Option (σ × List Nat)}
    (hc : Consumes mg) (C : Scalar α β) (tag : Nat) (ht : 1 ≤ tag ∧ tag < 2 ^ 29) (L : Lens σ (Option α))
    (hmg : ∀ st bs, mg st tag C.wt bs = (C.rd C.wt bs).map fun (v, rest) => (L.set st (some (C.cv v)), rest))
    (st : σ) (o : Option α) (rest : List Nat) (hget : L.get st = none) (hok : optAll C.ok o) :
    run mg st (encOpt (C.enc tag) o ++ rest) = run mg (L.set st o) rest := by
  cases o with
  | none =>
    have e : L.set st none = st := by rw [← hget, L.set_get]
    rw [e]; rfl
  | some a => exact run_field hc C tag ht (fun st a => L.set st (some a)) hmg st a rest hok

/-- repeated field (bytes, string or message elements): appended one by one. -/
theorem run_rep {σ α β : Type} {mg : σ → Nat → Nat → List Nat → Option (σ × List Nat)}
    (hc : Consumes mg) (C : Scalar α β) (tag : Nat) (ht : 1 ≤ tag ∧ tag < 2 ^ 29) (L : Lens σ (List α))
    (hmg : ∀ st bs, mg st tag C.wt bs =
      (C.rd C.wt bs).map fun (v, rest) => (L.set st (L.get st ++ [C.cv v]), rest))
    (st : σ) (l : List α) (rest : List Nat) (hget : L.get st = []) (hok : listAll C.ok l) :
    run mg st (encRep (C.enc tag) l ++ rest) = run mg (L.set st l) rest := by
  have gen : ∀ (l : List α) (st : σ), listAll C.ok l →
      run mg st (encRep (C.enc tag) l ++ rest) = run mg (L.set st (L.get st ++ l)) rest := by
    intro l
    induction l with
    | nil => intro st _; simp only [encRep, List.append_nil, L.set_get, List.nil_append]
    | cons a l ih =>
      intro st hall
      simp only [encRep, List.append_assoc]
      rw [run_field hc C tag ht (fun st a => L.set st (L.get st ++ [a])) hmg st a _ (hall a (by simp))]
      rw [ih _ (fun b hb => hall b (by simp [hb]))]
      simp only [L.get_set, L.set_set, List.append_assoc, List.singleton_append]
  rw [gen l st hok, hget, List.nil_append]

/-- singular message field: written when `some` (also when default-valued), merged into the value the
state holds — which is still `none` when the encoder's output is decoded from `{}`. -/
theorem run_optmsg {σ τ : Type} {mg : σ → Nat → Nat → List Nat → Option (σ × List Nat)} (hc : Consumes mg)
    (sub : τ → Nat → List Nat → Option τ) (enc : τ → List Nat) (wf : τ → Prop) (dflt : τ) (depth : Nat)
    (hd : 1 ≤ depth) (hsub : ∀ v, wf v → sub dflt (depth - 1) (enc v) = some v)
    (tag : Nat) (ht : 1 ≤ tag ∧ tag < 2 ^ 29) (L : Lens σ (Option τ))
    (hmg : ∀ st bs, mg st tag 2 bs =
      (fieldMessage (sub ((L.get st).getD dflt)) depth 2 bs).map fun (v, rest) => (L.set st (some v), rest))
    (st : σ) (o : Option τ) (rest : List Nat) (hget : L.get st = none) (hok : optAll (okMsg wf enc) o) :
    run mg st (encOpt (fun v => encMessageField tag (enc v)) o ++ rest) = run mg (L.set st o) rest := by
  cases o with
  | none =>
    have e : L.set st none = st := by rw [← hget, L.set_get]
    rw [e]; rfl
  | some v =>
    have hk := readKey_writeKey' tag 2 ht.1 ht.2 (by omega) (writeVarint (enc v).length ++ enc v ++ rest)
    have hm : mg st tag 2 (writeVarint (enc v).length ++ enc v ++ rest) = some (L.set st (some v), rest) := by
      rw [hmg, hget]
      have := fieldMessage_enc (sub dflt) depth hd (enc v) rest v hok.2 (hsub v hok.1)
      simp only [Option.getD_none, this, Option.map_some]
    have := decodeLoop_field mg hc
      (bs := encOpt (fun v => encMessageField tag (enc v)) (some v) ++ rest)
      (by simpa [encOpt, encMessageField, encBytesField, List.append_assoc] using hk) hm
    exact this

end Litep2pVerif.Wire
