import Litep2pVerif.Proofs.Wire.Sizes
import Mathlib.Tactic.Ring
/-! Round-trip lemmas for the protobuf wire model (varints, keys, fields, Kademlia requests). -/
namespace Litep2pVerif.Wire

theorem readVarintAux_writeVarintAux (rest : List Nat) :
    ∀ (fuel c acc n : Nat), c + fuel = 10 → 1 ≤ fuel → n < 2 ^ (64 - 7 * c) →
      readVarintAux c acc (writeVarintAux fuel n ++ rest) = some (acc + n * 2 ^ (7 * c), rest) := by
  intro fuel
  induction fuel with
  | zero => intro c acc n _ h; omega
  | succ k ih =>
    intro c acc n hc _ hn
    unfold writeVarintAux
    split
    · rename_i hlt
      simp only [List.cons_append, List.nil_append, readVarintAux]
      have hc10 : ¬ 10 ≤ c := by omega
      simp only [hc10, if_false, hlt, if_true]
      have hmod : n % 128 = n := Nat.mod_eq_of_lt hlt
      have h9 : ¬ (c = 9 ∧ 2 ≤ n) := by
        rintro ⟨rfl, h2⟩
        simp at hn; omega
      simp [h9, hmod]
    · rename_i hge
      have hc8 : c ≤ 8 := by
        by_contra hcon
        have : c = 9 := by omega
        subst this
        simp at hn; omega
      simp only [List.cons_append, readVarintAux]
      have hc10 : ¬ 10 ≤ c := by omega
      have hb : ¬ (n % 128 + 128 < 128) := by omega
      simp only [hc10, if_false, hb]
      have hmod : (n % 128 + 128) % 128 = n % 128 := by omega
      rw [hmod]
      have hdiv : n / 128 < 2 ^ (64 - 7 * (c + 1)) := by
        have e : 2 ^ (64 - 7 * c) = 128 * 2 ^ (64 - 7 * (c + 1)) := by
          have : 64 - 7 * c = (64 - 7 * (c + 1)) + 7 := by omega
          rw [this, Nat.pow_add]; ring
        rw [e] at hn
        exact Nat.div_lt_of_lt_mul hn
      rw [ih (c + 1) _ (n / 128) (by omega) (by omega) hdiv]
      congr 2
      have e2 : 2 ^ (7 * (c + 1)) = 128 * 2 ^ (7 * c) := by
        have : 7 * (c + 1) = 7 * c + 7 := by ring
        rw [this, Nat.pow_add]; ring
      rw [e2]
      have hdm := Nat.div_add_mod n 128
      calc acc + n % 128 * 2 ^ (7 * c) + n / 128 * (128 * 2 ^ (7 * c))
          = acc + (128 * (n / 128) + n % 128) * 2 ^ (7 * c) := by ring
        _ = acc + n * 2 ^ (7 * c) := by rw [hdm]

/-- prost varints round-trip for every 64-bit value. -/
theorem readVarint_writeVarint' (n : Nat) (hn : n < 2 ^ 64) (rest : List Nat) :
    readVarint (writeVarint n ++ rest) = some (n, rest) := by
  have := readVarintAux_writeVarintAux rest 10 0 0 n (by omega) (by omega) (by simpa using hn)
  simpa [readVarint, writeVarint] using this


theorem decodeLoop_fuel {σ : Type} (merge : σ → Nat → Nat → List Nat → Option (σ × List Nat))
    (hc : ∀ st tag wt bs st' rest, merge st tag wt bs = some (st', rest) → rest.length ≤ bs.length) :
    ∀ (f1 f2 : Nat) (st : σ) (bs : List Nat), bs.length ≤ f1 → bs.length ≤ f2 →
      decodeLoop merge f1 st bs = decodeLoop merge f2 st bs := by
  intro f1
  induction f1 with
  | zero =>
    intro f2 st bs h1 _
    have : bs = [] := List.eq_nil_of_length_eq_zero (by omega)
    subst this
    cases f2 <;> simp [decodeLoop]
  | succ f1 ih =>
    intro f2 st bs h1 h2
    cases bs with
    | nil => cases f2 <;> simp [decodeLoop]
    | cons b bs =>
      cases f2 with
      | zero => simp at h2
      | succ f2 =>
        simp only [decodeLoop]
        split
        · rfl
        · rename_i tag wt rest hk
          have hk' := readKey_length hk
          split
          · rfl
          · rename_i st1 rest1 hm1
            have := hc _ _ _ _ _ _ hm1
            simp at h1 h2 hk'
            exact ih f2 st1 rest1 (by omega) (by omega)

/-- One field of the message loop. -/
theorem decodeLoop_field {σ : Type} (merge : σ → Nat → Nat → List Nat → Option (σ × List Nat))
    (hc : ∀ st tag wt bs st' rest, merge st tag wt bs = some (st', rest) → rest.length ≤ bs.length)
    {st st' : σ} {bs r r' : List Nat} {tag wt : Nat}
    (hk : readKey bs = some (tag, wt, r)) (hm : merge st tag wt r = some (st', r')) :
    decodeLoop merge bs.length st bs = decodeLoop merge r'.length st' r' := by
  have hk' := readKey_length hk
  have hm' := hc _ _ _ _ _ _ hm
  cases bs with
  | nil => simp at hk'
  | cons b bs =>
    simp only [List.length_cons, decodeLoop, hk, hm]
    simp at hk'
    exact decodeLoop_fuel merge hc _ _ _ _ (by omega) (by omega)

theorem readKey_writeKey' (tag wt : Nat) (ht : 1 ≤ tag) (ht' : tag < 2 ^ 29) (hw : wt ≤ 5) (rest : List Nat) :
    readKey (writeKey tag wt ++ rest) = some (tag, wt, rest) := by
  unfold readKey writeKey
  have hlt : tag * 8 + wt < 2 ^ 64 := by omega
  rw [readVarint_writeVarint' _ hlt]
  have h1 : ¬ (2 ^ 32 ≤ tag * 8 + wt) := by omega
  have h2 : (tag * 8 + wt) % 8 = wt := by omega
  have h3 : (tag * 8 + wt) / 8 = tag := by omega
  simp only [h1, if_false, h2, h3]
  have h4 : ¬ (5 < wt) := by omega
  have h5 : ¬ (tag < 1) := by omega
  simp [h4, h5]

theorem fieldBytes_enc (b rest : List Nat) (hb : b.length < 2 ^ 64) :
    fieldBytes 2 (writeVarint b.length ++ b ++ rest) = some (b, rest) := by
  unfold fieldBytes readLenDelimited
  simp only [if_true, List.append_assoc]
  rw [readVarint_writeVarint' _ hb]
  simp [takeExact]

theorem fieldVarint_enc (n : Nat) (rest : List Nat) (hn : n < 2 ^ 64) :
    fieldVarint 0 (writeVarint n ++ rest) = some (n, rest) := by
  unfold fieldVarint
  simp [readVarint_writeVarint' _ hn]

/-- Encoding of a Kademlia request (`find_node`, `get_record`, `get_providers_request`): type, key,
clusterLevelRaw = 10, in tag order, defaults omitted — as prost writes it. -/
def encodeKadRequest (type : Nat) (key : List Nat) : List Nat :=
  (if type = 0 then [] else encVarintField 1 type) ++
  (if key = [] then [] else encBytesField 2 key) ++ encVarintField 10 10

theorem kadRequest_roundtrip (type : Nat) (key : List Nat) (ht : type < 2 ^ 31) (hk : key.length < 2 ^ 64) :
    KMessage.decode (encodeKadRequest type key) =
      some { type := Int.ofNat type, clusterLevelRaw := 10, key := key } := by
  have hc : ∀ st tag wt bs st' rest, KMessage.merge recursionLimit st tag wt bs = some (st', rest) →
      rest.length ≤ bs.length := fun _ _ _ _ _ _ h => KMessage.merge_consumes h
  have hI : ∀ n, n < 2 ^ 31 → toI32 n = Int.ofNat n := by
    intro n hn
    unfold toI32
    have h1 : n % 2 ^ 32 = n := Nat.mod_eq_of_lt (by omega)
    rw [h1, if_pos hn]
  -- last field
  have hlast : ∀ m : KMessage, decodeLoop (KMessage.merge recursionLimit) (encVarintField 10 10).length m
      (encVarintField 10 10) = some { m with clusterLevelRaw := 10 } := by
    intro m
    have h1 := readKey_writeKey' 10 0 (by omega) (by omega) (by omega) (writeVarint 10 ++ [])
    have h2 : KMessage.merge recursionLimit m 10 0 (writeVarint 10 ++ []) =
        some ({ m with clusterLevelRaw := 10 }, []) := by
      simp only [KMessage.merge, fieldVarint_enc 10 [] (by omega), Option.map_some]
      rw [hI 10 (by omega)]; rfl
    have := decodeLoop_field _ hc (bs := encVarintField 10 10) (by simpa [encVarintField] using h1) h2
    rw [this]; simp [decodeLoop]
  -- key field
  have hkey : ∀ m : KMessage, decodeLoop (KMessage.merge recursionLimit)
      ((if key = [] then [] else encBytesField 2 key) ++ encVarintField 10 10).length m
      ((if key = [] then [] else encBytesField 2 key) ++ encVarintField 10 10) =
      some { m with key := if key = [] then m.key else key, clusterLevelRaw := 10 } := by
    intro m
    split
    · rename_i hk0
      simp only [List.nil_append]
      rw [hlast]
    · rename_i hk0
      have h1 := readKey_writeKey' 2 2 (by omega) (by omega) (by omega)
        (writeVarint key.length ++ key ++ encVarintField 10 10)
      have h2 : KMessage.merge recursionLimit m 2 2 (writeVarint key.length ++ key ++ encVarintField 10 10) =
          some ({ m with key := key }, encVarintField 10 10) := by
        simp only [KMessage.merge, fieldBytes_enc key _ hk, Option.map_some]
      have := decodeLoop_field _ hc (bs := encBytesField 2 key ++ encVarintField 10 10)
        (by simpa [encBytesField, List.append_assoc] using h1) h2
      rw [this, hlast]
  unfold KMessage.decode encodeKadRequest
  rw [List.append_assoc]
  split
  · rename_i ht0
    subst ht0
    simp only [List.nil_append]
    rw [hkey]
    split <;> simp_all
  · rename_i ht0
    have h1 := readKey_writeKey' 1 0 (by omega) (by omega) (by omega)
      (writeVarint type ++ ((if key = [] then [] else encBytesField 2 key) ++ encVarintField 10 10))
    have h2 : KMessage.merge recursionLimit {} 1 0
        (writeVarint type ++ ((if key = [] then [] else encBytesField 2 key) ++ encVarintField 10 10)) =
        some ({ type := Int.ofNat type }, (if key = [] then [] else encBytesField 2 key) ++ encVarintField 10 10) := by
      simp only [KMessage.merge, fieldVarint_enc type _ (by omega), Option.map_some]
      rw [hI type ht]
    have := decodeLoop_field _ hc
      (bs := encVarintField 1 type ++ ((if key = [] then [] else encBytesField 2 key) ++ encVarintField 10 10))
      (by simpa [encVarintField, List.append_assoc] using h1) h2
    rw [this, hkey]
    split <;> simp_all

end Litep2pVerif.Wire
