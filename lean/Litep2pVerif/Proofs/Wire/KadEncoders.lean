import Litep2pVerif.Proofs.Wire.RoundtripGen
import Litep2pVerif.Model.Wire.KadEncoders
/-! The hand-written Kademlia encoders (message.rs) against `KademliaMessage::from_bytes`: everything
follows from the generated `KMessage.decode_encode` and the dispatch `kadOfMessage`. -/
namespace Litep2pVerif.Wire

/-- `from_bytes` of anything prost encoded is the dispatch on the encoded value. -/
theorem kadFromBytes_encode (peerIdOk addrOk : List Nat → Bool) (repl : Nat) (m : KMessage) (h : m.WF) :
    kadFromBytes peerIdOk addrOk repl (KMessage.encode m) = kadOfMessage peerIdOk addrOk repl m := by
  unfold kadFromBytes
  rw [KMessage.decode_encode m h]

theorem peerTryFrom_ok (peerIdOk addrOk : List Nat → Bool) (p : PeerIn) (h : peerInOk peerIdOk p) :
    peerTryFrom peerIdOk addrOk (peerToSchema p) = some (peerOutOf addrOk p) := by
  obtain ⟨h1, h2, h3⟩ := h
  unfold peerTryFrom peerToSchema peerOutOf
  have hc : ¬ (p.conn < 0 ∨ 3 < p.conn) := by omega
  simp [h1, hc]

theorem peersFrom_map (peerIdOk addrOk : List Nat → Bool) (repl : Nat) (f : PeerIn → PeerIn) (ps : List PeerIn)
    (h : ∀ p ∈ ps, peerInOk peerIdOk (f p)) (hl : ps.length ≤ repl) :
    peersFrom peerIdOk addrOk repl (ps.map fun p => peerToSchema (f p)) = ps.map fun p => peerOutOf addrOk (f p) := by
  unfold peersFrom
  have e : (ps.map fun p => peerToSchema (f p)).filterMap (peerTryFrom peerIdOk addrOk) =
      ps.map fun p => peerOutOf addrOk (f p) := by
    induction ps with
    | nil => rfl
    | cons p ps ih =>
      simp only [List.map_cons, List.filterMap_cons, peerTryFrom_ok peerIdOk addrOk (f p) (h p (by simp))]
      rw [ih (fun q hq => h q (by simp [hq])) (by simp at hl; omega)]
  rw [e]
  exact List.take_of_length_le (by simpa using hl)

theorem recordFromSchema_ok (peerIdOk : List Nat → Bool) (r : RecordIn) (h : recordInOk peerIdOk r) :
    recordFromSchema peerIdOk (recordToSchema r) = some (recordOutOf r) := by
  unfold recordInOk at h
  unfold recordFromSchema recordToSchema recordOutOf
  cases hp : r.publisher with
  | none => simp
  | some p =>
    rw [hp] at h
    obtain ⟨h1, h2⟩ := h
    simp [h1, h2]

/-- The written-out request bytes are prost's encoding of the request message. (The proof does not depend
on which other fields the schema has, as long as their defaults are omitted and `type`, `key`,
`clusterLevelRaw` keep tags 1, 2, 10 and stay the first, second and last field written.) -/
theorem encodeKadRequest_eq (type : Nat) (key : List Nat) :
    encodeKadRequest type key = KMessage.encode { type := Int.ofNat type, key := key, clusterLevelRaw := 10 } := by
  have h10 : i32ToU64 10 = 10 := by decide
  have ht : i32ToU64 (type : Int) = type := by simp [i32ToU64]
  unfold encodeKadRequest KMessage.encode
  simp [encPlain, encOpt, encRep, encInt32Field, ht, h10, List.append_assoc]

set_option linter.unusedSimpArgs false in
/-- The request message is well-formed whenever type and key are. -/
theorem kadRequest_wf (type : Nat) (key : List Nat) (ht : type < 2 ^ 31) (hk : key.length < 2 ^ 64) :
    ({ type := Int.ofNat type, key := key, clusterLevelRaw := 10 } : KMessage).WF := by
  simp [KMessage.WF, okI32, okBytes, okString, okU32, okU64, okI64, okBool, optAll, listAll]
  omega

end Litep2pVerif.Wire
